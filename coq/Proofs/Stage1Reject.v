(* Stage1Reject.v — stage 1 on ill-formed text.
   - the error flag is sticky; a control character inside a string raises it;
   - a string body without closing quote leaves the fold inside the string;
   - why the specification's string scanner answers SInvalid, with the exact
     place of the first offending byte (refines StrProofs.spec_invalid_cases);
   - the verdict of [s1_buffers]: when it is [true], the buffers handed to
     stage 2 are exactly the structural positions of the plain fold, none is
     empty, and the final state is outside strings with no error flag. *)
From Coq Require Import ZifyBool ZifyN ZifyNat.
From SJ Require Import Model.Base Model.RefTables Spec.Json Model.Number Model.Str Model.Stage1.
From SJ Require Import Proofs.StrArith Proofs.StrProofs Proofs.TrimProofs.
From SJ Require Import Proofs.Stage1Proofs Proofs.Stage1Buffers.
Open Scope N_scope.

(* ------------------------------------------------------------------ *)
(* the error flag                                                      *)

Lemma s1_step_err_sticky nd st c : s_err st = true -> s_err (fst (s1_step nd st c)) = true.
Proof. intros H. unfold s1_step. cbn [fst s_err]. rewrite H. reflexivity. Qed.

Lemma s1_fold_err_sticky nd : forall bs st p, s_err st = true -> s_err (fst (s1_fold nd st p bs)) = true.
Proof.
  induction bs as [|b r IH]; intros st p H; [exact H|].
  cbn [s1_fold]. destruct (snd (s1_step nd st (b2n b))); cbn [consp fst]; apply IH; apply s1_step_err_sticky; exact H.
Qed.

(* a control character met inside a string *)
Lemma step_in_ctl nd st c :
  s_instr st = true -> s_bsodd st = false -> (c <? 32) = true -> s_err (fst (s1_step nd st c)) = true.
Proof.
  intros Hi Hb Hc. unfold s1_step. cbn [fst s_err]. rewrite Hi, Hb, Hc.
  assert (E : (c =? cQUOTE) = false) by (unfold cQUOTE; lia).
  rewrite E. cbn [andb negb xorb]. rewrite orb_true_r. reflexivity.
Qed.

Lemma fold_in_ctl pr p b r :
  (b2n b <? 32) = true -> s_err (fst (s1_fold false (InS pr) p (b :: r))) = true.
Proof.
  intros Hc. cbn [s1_fold].
  assert (E : s_err (fst (s1_step false (InS pr) (b2n b))) = true) by (apply step_in_ctl; auto).
  destruct (snd (s1_step false (InS pr) (b2n b))); cbn [consp fst]; apply s1_fold_err_sticky; exact E.
Qed.

(* ------------------------------------------------------------------ *)
(* a well-formed prefix of a string body keeps the fold inside the string *)

Lemma fold_str_prefix src dec :
  dec_rel src dec -> Forall (fun b => (b2n b <? 32) = false) src ->
  forall pr p r, exists pr',
    s1_fold false (InS pr) p (src ++ r) = s1_fold false (InS pr') (p + length src) r.
Proof.
  induction 1 as [|b s d H1 H2 Hd IH|s n o d Hb Ht Hd IH]; intros Hall pr p r.
  - exists pr. cbn [app length]. rewrite Nat.add_0_r. reflexivity.
  - inversion Hall as [|? ? Hb32 Hall']; subst.
    cbn [app]. rewrite fold_in_plain; [|unfold cQUOTE; lia|unfold cBSLASH; lia|exact Hb32].
    destruct (IH Hall' (is_json_ws (b2n b)) (S p) r) as (pr' & E). exists pr'. rewrite E.
    cbn [length]. f_equal. lia.
  - pose proof (esc_tok_len _ _ _ Ht) as (Hn2 & Hnl & _ & _).
    destruct (fold_esc_tok s n o pr p (skipn n s ++ r) Ht Hb) as (pr1 & Hf).
    destruct (IH (Forall_skipn _ _ _ Hall) pr1 (p + n)%nat r) as (pr' & E). exists pr'.
    rewrite <- (firstn_skipn n s) at 1. rewrite <- app_assoc.
    rewrite Hf. rewrite E.
    rewrite skipn_length. f_equal. lia.
Qed.

(* no closing quote: the fold ends inside the string *)
Lemma fold_unterminated src dec pr p :
  dec_rel src dec -> Forall (fun b => (b2n b <? 32) = false) src ->
  s_instr (fst (s1_fold false (InS pr) p src)) = true.
Proof.
  intros Hd Hall. destruct (fold_str_prefix src dec Hd Hall pr p []) as (pr' & E).
  rewrite app_nil_r in E. rewrite E. reflexivity.
Qed.

(* a control character after a well-formed prefix raises the error flag *)
Lemma fold_prefix_ctl src dec pr p b r :
  dec_rel src dec -> Forall (fun b => (b2n b <? 32) = false) src -> (b2n b <? 32) = true ->
  s_err (fst (s1_fold false (InS pr) p (src ++ b :: r))) = true.
Proof.
  intros Hd Hall Hc. destruct (fold_str_prefix src dec Hd Hall pr p (b :: r)) as (pr' & E).
  rewrite E. apply fold_in_ctl. exact Hc.
Qed.

(* ------------------------------------------------------------------ *)
(* the bytes of a well-formed escape are not control characters         *)

Lemma esc_tok_noctl p n o :
  esc_tok p = TOk n o -> nth_b p 0 = 92 -> Forall (fun b => (b2n b <? 32) = false) (firstn n p).
Proof.
  intros Et Hb. apply esc_tok_inv in Et.
  destruct Et as [(b' & e & r' & v & -> & Hne & Hv & -> & _)
           |[(b' & e & h0 & h1 & h2 & h3 & r' & cu & -> & He & Hh & _ & _ & -> & _)
            |(b' & e & h0 & h1 & h2 & h3 & s0 & s1 & l0 & l1 & l2 & l3 & r' & cu & lo & -> & He & Hh & _ & Hs0 & Hs1 & Hl & _ & -> & _)]];
    unfold nth_b in Hb; cbn [nth] in Hb; cbn [firstn].
  - repeat constructor; [rewrite Hb; reflexivity|eapply escape_spec_ge32; exact Hv].
  - unfold hex4_spec in Hh.
    destruct (hexval (b2n h0)) eqn:E0; [|discriminate].
    destruct (hexval (b2n h1)) eqn:E1; [|discriminate].
    destruct (hexval (b2n h2)) eqn:E2; [|discriminate].
    destruct (hexval (b2n h3)) eqn:E3; [|discriminate].
    apply hexval_plain in E0, E1, E2, E3.
    repeat constructor; try tauto; [rewrite Hb; reflexivity|rewrite He; reflexivity].
  - unfold hex4_spec in Hh, Hl.
    destruct (hexval (b2n h0)) eqn:E0; [|discriminate].
    destruct (hexval (b2n h1)) eqn:E1; [|discriminate].
    destruct (hexval (b2n h2)) eqn:E2; [|discriminate].
    destruct (hexval (b2n h3)) eqn:E3; [|discriminate].
    destruct (hexval (b2n l0)) eqn:F0; [|discriminate].
    destruct (hexval (b2n l1)) eqn:F1; [|discriminate].
    destruct (hexval (b2n l2)) eqn:F2; [|discriminate].
    destruct (hexval (b2n l3)) eqn:F3; [|discriminate].
    apply hexval_plain in E0, E1, E2, E3, F0, F1, F2, F3.
    repeat constructor; try tauto.
    + rewrite Hb; reflexivity.
    + rewrite He. reflexivity.
    + rewrite Hs0. reflexivity.
    + rewrite Hs1. reflexivity.
Qed.

(* ------------------------------------------------------------------ *)
(* why the specification rejects a string body                          *)

Definition noctl (s : bytes) : Prop := Forall (fun b => (b2n b <? 32) = false) s.

Theorem spec_invalid_cases2 : forall fuel s acc,
  spec_string fuel s acc = SInvalid ->
  (exists pre d b rest, s = pre ++ b :: rest /\ dec_rel pre d /\ noctl pre /\ (b2n b <? 32) = true) \/
  (exists d, dec_rel s d /\ noctl s) \/
  (exists pre d p, s = pre ++ p /\ dec_rel pre d /\ nth_b p 0 = 92 /\ esc_tok p = TInvalid).
Proof.
  induction fuel as [|f IH]; intros s acc H; [discriminate|].
  destruct s as [|b s'].
  { right; left. exists []. split; constructor. }
  destruct (b2n b =? cQUOTE) eqn:Eq.
  { cbn [spec_string] in H. rewrite Eq in H. discriminate. }
  destruct (b2n b <? 32) eqn:Ec.
  { left. exists [], [], b, s'. split; [reflexivity|]. split; [constructor|]. split; [constructor|exact Ec]. }
  destruct (b2n b =? cBSLASH) eqn:Eb.
  { rewrite spec_bs in H by assumption.
    destruct (esc_tok (b :: s')) as [n o| |] eqn:Et; try discriminate.
    - pose proof (esc_tok_len _ _ _ Et) as (Hn2 & Hn & _ & _).
      assert (Hb0 : nth_b (b :: s') 0 = 92) by (apply N.eqb_eq in Eb; exact Eb).
      assert (Hhd : nth_b (firstn n (b :: s')) 0 = 92).
      { destruct n as [|n]; [lia|]. exact Hb0. }
      pose proof (esc_tok_noctl _ _ _ Et Hb0) as Hnc.
      assert (Hdesc : forall pre d, dec_rel pre d -> skipn n (b :: s') = pre ++ skipn (length pre) (skipn n (b :: s')) ->
                 dec_rel (firstn n (b :: s') ++ pre) (o ++ d)).
      { intros pre d Hd _. apply DEsc with (n := n); [|apply esc_tok_app, esc_tok_firstn; exact Et|].
        - unfold nth_b in *. rewrite app_nth1; [exact Hhd|]. rewrite firstn_length. cbn [length] in *. lia.
        - rewrite skipn_firstn_app by exact Hn. exact Hd. }
      apply IH in H.
      destruct H as [(pre & d & x & rest & Hs & Hd & Hp & Hx) | [(d & Hd & Hp) | (pre & d & p & Hs & Hd & Hp & Htp)]].
      + left. exists (firstn n (b :: s') ++ pre), (o ++ d), x, rest. split; [|split; [|split]].
        * rewrite <- app_assoc, <- Hs. symmetry. apply firstn_skipn.
        * apply Hdesc; [exact Hd|]. rewrite Hs at 1. rewrite Hs, skipn_app, Nat.sub_diag, skipn_all. reflexivity.
        * apply Forall_app. split; assumption.
        * exact Hx.
      + right; left. exists (o ++ d). split.
        * apply DEsc with (n := n); [exact Hb0|exact Et|exact Hd].
        * rewrite <- (firstn_skipn n (b :: s')). apply Forall_app. split; assumption.
      + right; right. exists (firstn n (b :: s') ++ pre), (o ++ d), p. split; [|split; [|split]].
        * rewrite <- app_assoc, <- Hs. symmetry. apply firstn_skipn.
        * apply Hdesc; [exact Hd|]. rewrite Hs at 1. rewrite Hs, skipn_app, Nat.sub_diag, skipn_all. reflexivity.
        * exact Hp.
        * exact Htp.
    - right; right. exists [], [], (b :: s'). split; [reflexivity|]. split; [constructor|].
      split; [apply N.eqb_eq in Eb; exact Eb|exact Et]. }
  destruct (b2n b <? 128) eqn:Ea.
  { cbn [spec_string] in H. rewrite Eq, Ec, Eb, Ea in H.
    assert (L1 : b2n b <> 34) by (unfold cQUOTE in Eq; lia).
    assert (L2 : b2n b <> 92) by (unfold cBSLASH in Eb; lia).
    apply IH in H.
    destruct H as [(pre & d & x & rest & Hs & Hd & Hp & Hx) | [(d & Hd & Hp) | (pre & d & p & Hs & Hd & Hp & Htp)]].
    - left. exists (b :: pre), (b :: d), x, rest. rewrite Hs.
      split; [reflexivity|]. split; [apply DLit; assumption|]. split; [constructor; assumption|exact Hx].
    - right; left. exists (b :: d). split; [apply DLit; assumption|constructor; assumption].
    - right; right. exists (b :: pre), (b :: d), p. rewrite Hs.
      split; [reflexivity|]. split; [apply DLit; assumption|]. split; assumption. }
  cbn [spec_string] in H. rewrite Eq, Ec, Eb, Ea in H.
  destruct (utf8_seq_len (b :: s')) as [n|] eqn:Eu; [|discriminate].
  apply utf8_seq_len_lit in Eu. destruct Eu as [Hn Hall].
  assert (Hall' : Forall (fun b => b2n b <> 34 /\ b2n b <> 92) (firstn n (b :: s'))).
  { eapply Forall_impl; [|exact Hall]. cbn beta. intros a Ha. lia. }
  assert (Hnc : noctl (firstn n (b :: s'))).
  { eapply Forall_impl; [|exact Hall]. cbn beta. intros a Ha. lia. }
  apply IH in H.
  destruct H as [(pre & d & x & rest & Hs & Hd & Hp & Hx) | [(d & Hd & Hp) | (pre & d & p & Hs & Hd & Hp & Htp)]].
  - left. exists (firstn n (b :: s') ++ pre), (firstn n (b :: s') ++ d), x, rest.
    split; [|split; [|split]].
    + rewrite <- app_assoc, <- Hs. symmetry. apply firstn_skipn.
    + apply dec_rel_lit_app; assumption.
    + apply Forall_app. split; assumption.
    + exact Hx.
  - right; left. exists (firstn n (b :: s') ++ d). split.
    + rewrite <- (firstn_skipn n (b :: s')) at 1. apply dec_rel_lit_app; assumption.
    + rewrite <- (firstn_skipn n (b :: s')). apply Forall_app. split; assumption.
  - right; right. exists (firstn n (b :: s') ++ pre), (firstn n (b :: s') ++ d), p.
    split; [|split; [|split]].
    + rewrite <- app_assoc, <- Hs. symmetry. apply firstn_skipn.
    + apply dec_rel_lit_app; assumption.
    + exact Hp.
    + exact Htp.
Qed.

(* ------------------------------------------------------------------ *)
(* the index buffers, whatever the verdict                              *)
Ltac Zify.zify_post_hook ::= Z.div_mod_to_equations.

(* the last position of a list is a markup byte (or the list is empty) *)
Definition lastmk (msg : bytes) (l : list nat) : Prop :=
  match rev l with [] => True | q :: _ => is_markup (byte_at msg q) = true end.

Lemma s1_loop_gen msg fin :
  forall fuel rem blocks stripped sent total,
  (0 < rem)%nat -> length blocks = ((rem + 63) / 64)%nat -> (length blocks < fuel)%nat ->
  Forall nonempty sent ->
  (stripped = None -> lastmk msg (concat (rev sent))) ->
  let o := s1_loop fuel msg fin rem blocks stripped sent total in
  let all := concat (rev sent) ++ (match stripped with Some p => [p] | None => [] end) ++ concat blocks in
  Forall nonempty (o_bufs o) /\
  (exists rest, all = concat (o_bufs o) ++ rest /\
      (rest <> [] \/ s_instr fin = false \/ lastmk msg (concat (o_bufs o)))) /\
  (o_ok o = true -> concat (o_bufs o) = all /\ s_instr fin = false /\ s_err fin = false).
Proof.
  induction fuel as [|f IH]; intros rem blocks stripped sent total Hrem Hlen Hfuel Hsent HJ; [lia|].
  cbv zeta. rewrite s1_loop_S.
  replace (rem =? 0)%nat with false by lia.
  set (cur0 := match stripped with Some p => [p] | None => [] end).
  assert (Hcur0 : (length cur0 <= 1)%nat) by (unfold cur0; destruct stripped; cbn [length]; lia).
  cbv zeta.
  destruct (take_blocks (rem / 64) blocks cur0 0) as [[cur1 k] blocks1] eqn:Etb.
  apply take_blocks_spec in Etb. destruct Etb as (taken & Hbl & Hc1 & Hk & Hkle & Hor).
  cbn [Nat.add] in Hk. subst k.
  assert (Hlen1 : length blocks1 = ((rem + 63) / 64 - length taken)%nat).
  { rewrite <- Hlen, Hbl, app_length. lia. }
  destruct (rem - 64 * length taken <=? 64)%nat eqn:Efin.
  - (* the message is completed in this round *)
    apply Nat.leb_le in Efin.
    assert (Hall : exists all, (let '(cur2, processed, blocks2) :=
                     match blocks1 with
                     | b :: rest => if (0 <? rem - 64 * length taken)%nat then (cur1 ++ b, rem, rest)
                                    else (cur1, (64 * length taken)%nat, blocks1)
                     | [] => (cur1, (64 * length taken)%nat, blocks1)
                     end in (cur2, processed)) = (all, rem) /\ all = cur0 ++ concat blocks).
    { destruct blocks1 as [|b rest].
      - exists cur1. split; [|rewrite Hc1, Hbl, app_nil_r; reflexivity].
        f_equal. cbn [length] in Hlen1. lia.
      - destruct (0 <? rem - 64 * length taken)%nat eqn:Epos.
        + exists (cur1 ++ b). split; [reflexivity|].
          assert (rest = []).
          { cbn [length] in Hlen1. apply Nat.ltb_lt in Epos. destruct rest; [reflexivity|cbn [length] in Hlen1; lia]. }
          subst rest. rewrite Hc1, Hbl, concat_app. cbn [concat]. rewrite app_nil_r, app_assoc. reflexivity.
        + cbn [length] in Hlen1. apply Nat.ltb_ge in Epos. lia. }
    destruct Hall as (all & Hall & Eall).
    destruct (match blocks1 with
              | b :: rest => if (0 <? rem - 64 * length taken)%nat then (cur1 ++ b, rem, rest)
                             else (cur1, (64 * length taken)%nat, blocks1)
              | [] => (cur1, (64 * length taken)%nat, blocks1)
              end) as [[cur2 processed] blocks2].
    injection Hall as -> ->.
    rewrite <- Eall.
    destruct (rev all) as [|lastp before] eqn:Erev.
    { (* no structural at all in this round *)
      assert (Eall0 : all = []).
      { rewrite <- (rev_involutive all), Erev. reflexivity. }
      cbn [o_bufs o_ok]. split; [apply Forall_rev; exact Hsent|]. split; [|discriminate].
      exists []. rewrite Eall0. split; [reflexivity|]. right; right.
      apply HJ. destruct stripped as [p|]; [|reflexivity].
      exfalso. unfold cur0 in Eall. rewrite Eall0 in Eall. discriminate. }
    rewrite Nat.eqb_refl. cbv zeta.
    assert (Hallne : all <> []).
    { intros E. rewrite E in Erev. discriminate. }
    destruct (s_instr fin || negb ((byte_at msg lastp =? cRBRACE) || (byte_at msg lastp =? cRBRACK))) eqn:Ebad.
    + cbn [o_bufs o_ok]. split; [apply Forall_rev; exact Hsent|]. split; [|discriminate].
      exists all. split; [reflexivity|]. left. exact Hallne.
    + apply orb_false_iff in Ebad. destruct Ebad as [Hin _].
      cbn [o_bufs o_ok]. split; [|split].
      * cbn [rev]. apply Forall_app. split; [apply Forall_rev; exact Hsent|]. constructor; [exact Hallne|constructor].
      * exists []. rewrite concat_rev_cons, app_nil_r. split; [reflexivity|]. right; left. exact Hin.
      * intros Hok. apply andb_true_iff in Hok. destruct Hok as [Herr _].
        rewrite concat_rev_cons. split; [reflexivity|]. split; [exact Hin|].
        destruct (s_err fin); [discriminate|reflexivity].
  - (* more blocks remain: the buffer is full *)
    apply Nat.leb_gt in Efin.
    assert (HT : (T_nat <= length cur1)%nat).
    { destruct Hor as [Hor|[Hor|Hor]]; [exact Hor|lia|]. rewrite Hor in Hlen1. cbn [length] in Hlen1. lia. }
    assert (Htk : (1 <= length taken)%nat).
    { destruct taken; [|cbn [length]; lia]. cbn [concat] in Hc1. rewrite app_nil_r in Hc1. subst cur1.
      rewrite T_nat_val in HT. lia. }
    destruct (rev cur1) as [|lastp before] eqn:Erev.
    { apply (f_equal (@length nat)) in Erev. rewrite rev_length in Erev. cbn [length] in Erev. rewrite T_nat_val in HT. lia. }
    assert (Ec1 : cur1 = rev before ++ [lastp]).
    { rewrite <- (rev_involutive cur1), Erev. reflexivity. }
    assert (Hbefore : before <> []).
    { intros E. rewrite E in Ec1. rewrite Ec1 in HT. cbn [rev app length] in HT. rewrite T_nat_val in HT. lia. }
    replace (64 * length taken =? rem)%nat with false by lia.
    assert (Hrem' : (0 < rem - 64 * length taken)%nat) by lia.
    assert (Hlen' : length blocks1 = ((rem - 64 * length taken + 63) / 64)%nat) by lia.
    assert (Hfuel' : (length blocks1 < f)%nat).
    { rewrite Hbl, app_length in Hfuel. lia. }
    destruct (negb (is_markup (byte_at msg lastp))) eqn:Emk.
    + (* strip and carry *)
      specialize (IH (rem - 64 * length taken)%nat blocks1 (Some lastp) (rev before :: sent) (total + length before)%nat
                     Hrem' Hlen' Hfuel').
      cbv zeta iota in IH.
      assert (Eq : concat (rev (rev before :: sent)) ++ [lastp] ++ concat blocks1 =
                   concat (rev sent) ++ cur0 ++ concat blocks).
      { rewrite concat_rev_cons. rewrite Hbl, concat_app.
        rewrite <- !app_assoc. f_equal. rewrite (app_assoc cur0), <- Hc1, Ec1, <- app_assoc. reflexivity. }
      rewrite Eq in IH. apply IH.
      * constructor; [|exact Hsent]. intros E. apply Hbefore. rewrite <- (rev_involutive before), E. reflexivity.
      * discriminate.
    + specialize (IH (rem - 64 * length taken)%nat blocks1 None (cur1 :: sent) (total + length cur1)%nat
                     Hrem' Hlen' Hfuel').
      cbv zeta iota in IH.
      assert (Eq : concat (rev (cur1 :: sent)) ++ [] ++ concat blocks1 =
                   concat (rev sent) ++ cur0 ++ concat blocks).
      { rewrite concat_rev_cons. rewrite Hbl, concat_app. cbn [app].
        rewrite <- !app_assoc. f_equal. rewrite (app_assoc cur0), <- Hc1. reflexivity. }
      rewrite Eq in IH. apply IH.
      * constructor; [|exact Hsent]. intros E. rewrite E in HT. cbn [length] in HT. rewrite T_nat_val in HT. lia.
      * intros _. unfold lastmk. rewrite concat_rev_cons, rev_app_distr, Erev. cbn [app].
        apply negb_false_iff in Emk. exact Emk.
Qed.

(* the whole of stage 1 *)
Theorem s1_buffers_gen msg :
  msg <> [] ->
  let o := s1_buffers false msg in
  let fin := fst (s1_fold false s1_init 0 msg) in
  let ps := snd (s1_fold false s1_init 0 msg) in
  Forall nonempty (o_bufs o) /\
  (exists rest, ps = concat (o_bufs o) ++ rest /\
      (rest <> [] \/ s_instr fin = false \/ lastmk msg (concat (o_bufs o)))) /\
  (o_ok o = true -> concat (o_bufs o) = ps /\ s_instr fin = false /\ s_err fin = false).
Proof.
  intros Hne. cbv zeta. unfold s1_buffers, s1_all.
  destruct (s1_blocks_spec false (S (length msg / 64)) s1_init 0 msg) as (blocks & Hb & Hcat & Hl & _); [lia|].
  rewrite Hb.
  assert (Hrem : (0 < length msg)%nat) by (destruct msg; [congruence|cbn [length]; lia]).
  pose proof (s1_loop_gen msg (fst (s1_fold false s1_init 0 msg)) (S (length blocks)) (length msg) blocks None [] 0%nat
                Hrem Hl ltac:(lia) ltac:(constructor) ltac:(intros _; exact I)) as H.
  cbv zeta in H. cbn [rev concat app] in H. rewrite Hcat in H. exact H.
Qed.

Print Assumptions spec_invalid_cases2.
Print Assumptions s1_buffers_gen.
