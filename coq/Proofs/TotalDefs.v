(* TotalDefs.v — small definitions shared by TotalS1.v / TotalProofs.v /
   WFMachine.v: strictly increasing position lists. *)
From SJ Require Import Model.Base.

(* positions are >= lo and strictly increasing *)
Fixpoint incr_from (lo : nat) (ps : list nat) : Prop :=
  match ps with
  | [] => True
  | p :: r => (lo <= p)%nat /\ incr_from (S p) r
  end.

Lemma incr_from_weaken : forall ps lo lo', (lo' <= lo)%nat -> incr_from lo ps -> incr_from lo' ps.
Proof.
  destruct ps as [|p r]; intros lo lo' H Hi; [exact I|].
  cbn [incr_from] in *. destruct Hi as [H1 H2]. split; [lia|exact H2].
Qed.

Lemma incr_from_app : forall a b lo,
  incr_from lo (a ++ b) <->
  incr_from lo a /\ incr_from (match rev a with [] => lo | p :: _ => S p end) b.
Proof.
  induction a as [|p a IH]; intros b lo.
  - cbn [app rev incr_from]. tauto.
  - cbn [app incr_from rev]. rewrite IH.
    assert (E : match rev a ++ [p] with [] => lo | q :: _ => S q end =
                match rev a with [] => S p | q :: _ => S q end).
    { destruct (rev a); reflexivity. }
    rewrite E. tauto.
Qed.

Lemma incr_from_ge : forall ps lo p, incr_from lo ps -> In p ps -> (lo <= p)%nat.
Proof.
  induction ps as [|q r IH]; intros lo p Hi Hin; [destruct Hin|].
  cbn [incr_from] in Hi. destruct Hi as [H1 H2]. destruct Hin as [<-|Hin]; [exact H1|].
  specialize (IH _ _ H2 Hin). lia.
Qed.
