(* MarshalProofsNum.v — property C10, numbers: the decimal printers
   dec_of_N / dec_of_Z are canonical (no leading zero, inverse of the digit
   value), every printed number is an RFC 8259 literal that the specification
   reads back as [renum n], and printing [renum n] again gives the same text
   (except for the float -0.0, finding K2). *)
From Coq Require Import ZArith NArith List Bool Lia ZifyBool ZifyN ZifyNat.
From Coq.Strings Require Import Byte.
From Coq Require Import Floats.SpecFloat.
From SJ Require Import Model.Base Model.RefTables Spec.Json Model.Number Model.Iter Model.FloatFmt.
From SJ Require Import Proofs.NumLex Proofs.NumberProofs Proofs.NumberFinal Proofs.AtomProofs
     Proofs.FloatFmtText Proofs.FloatFmtSwitch Proofs.FloatFmtProofs.
From SJ Require Import Model.Marshal Proofs.MarshalProofsBase.
Import ListNotations.
Local Open Scope Z_scope.

(* ------------------------------------------------------------------ *)
(* digit bytes                                                          *)

Lemma dig_of_dv b : isdig b = true -> n2b (48 + dv b) = b.
Proof. destruct b; vm_compute; intro H; try discriminate H; reflexivity. Qed.

Lemma dv_lt10 b : isdig b = true -> (dv b < 10)%N.
Proof. destruct b; vm_compute; intro H; try discriminate H; reflexivity. Qed.

Lemma b2n_c0 b : (b2n b =? c0)%N = true -> b = b_0.
Proof. destruct b; vm_compute; intro H; try discriminate H; reflexivity. Qed.

Lemma isdig_not_lf b : isdig b = true -> b2n b <> cLF.
Proof. destruct b; vm_compute; intro H; try discriminate H; intro E; discriminate E. Qed.

Lemma alld_lt10 ip : alld ip = true -> all_lt10 (map dv ip).
Proof.
  induction ip as [|b ip IH]; intros H; [constructor|].
  cbn [alld forallb] in H. apply andb_true_iff in H. destruct H as [Hb H].
  cbn [map]. constructor; [apply dv_lt10; exact Hb|apply IH; exact H].
Qed.

Lemma no_lead0_hd h t : isdig h = true -> t <> [] -> no_lead0 (h :: t) = true -> dv h <> 0%N.
Proof.
  intros Hd Hne H. destruct t as [|x t]; [congruence|]. cbn [no_lead0] in H.
  intros E. destruct h; vm_compute in Hd, E, H; try discriminate Hd; try discriminate E; discriminate H.
Qed.

(* ------------------------------------------------------------------ *)
(* dec_of_N is the canonical decimal representation                     *)

Lemma dec_aux_canon : forall ip, alld ip = true -> ip <> [] -> no_lead0 ip = true ->
  forall fuel acc, (1 <= fuel)%nat ->
    (Z.to_N (digits_val (map dv ip) 0) < 2 ^ N.of_nat fuel)%N ->
    dec_of_N_aux fuel (Z.to_N (digits_val (map dv ip) 0)) acc = ip ++ acc.
Proof.
  intros ip. induction ip as [|b ip' IH] using rev_ind; [congruence|].
  intros Hall _ Hnl fuel acc Hf Hn.
  rewrite alld_app in Hall. apply andb_true_iff in Hall. destruct Hall as [Hall' Hb].
  cbn [alld forallb] in Hb. rewrite andb_true_r in Hb.
  rewrite map_app, digits_val_app in *. cbn [map digits_val] in *.
  pose proof (digits_val_lt _ (alld_lt10 ip' Hall')) as HV.
  set (V := digits_val (map dv ip') 0) in *.
  pose proof (dv_lt10 b Hb) as Hd.
  set (n := Z.to_N (V * 10 + Z.of_N (dv b))) in *.
  assert (Hmod : (n mod 10 = dv b)%N) by (subst n; lia).
  assert (Hdiv : (n / 10 = Z.to_N V)%N) by (subst n; lia).
  destruct fuel as [|k]; [lia|]. cbn [dec_of_N_aux]. cbv zeta.
  rewrite Hmod, (dig_of_dv b Hb).
  destruct (N.ltb_spec n 10) as [Hlt|Hge].
  - (* single digit: no leading part *)
    destruct ip' as [|h t]; [reflexivity|exfalso].
    assert (Hh : isdig h = true).
    { cbn [alld forallb] in Hall'. apply andb_true_iff in Hall'. tauto. }
    assert (Hh0 : dv h <> 0%N).
    { apply (no_lead0_hd h (t ++ [b]) Hh); [destruct t; discriminate|exact Hnl]. }
    pose proof (digits_val_ge (map dv (h :: t)) (alld_lt10 _ Hall') ltac:(discriminate) Hh0) as Hge.
    fold V in Hge.
    assert (0 < 10 ^ (Z.of_nat (length (map dv (h :: t))) - 1)).
    { apply Z.pow_pos_nonneg; [lia|]. cbn [map length]. lia. }
    subst n. lia.
  - rewrite Hdiv.
    assert (Hne : ip' <> []).
    { intros ->. subst V n. cbn [map digits_val] in *. lia. }
    assert (Hnl' : no_lead0 ip' = true).
    { destruct ip' as [|h [|h2 t']]; [congruence|reflexivity|exact Hnl]. }
    rewrite Nat2N.inj_succ, N.pow_succ_r' in Hn.
    assert (Hk : (1 <= k)%nat).
    { destruct k; [|lia]. change (2 ^ N.of_nat 0)%N with 1%N in Hn. lia. }
    rewrite (IH Hall' Hne Hnl' k (b :: acc) Hk).
    + rewrite <- app_assoc. reflexivity.
    + rewrite <- Hdiv. set (P := (2 ^ N.of_nat k)%N) in *. lia.
Qed.

Theorem dec_of_N_canon ip : alld ip = true -> ip <> [] -> no_lead0 ip = true ->
  dec_of_N (Z.to_N (digits_val (map dv ip) 0)) = ip.
Proof.
  intros Ha Hne Hnl. unfold dec_of_N.
  rewrite (dec_aux_canon ip Ha Hne Hnl); [apply app_nil_r|lia|].
  set (n := Z.to_N _).
  rewrite Nat2N.inj_succ, N2Nat.id, N.pow_succ_r'.
  pose proof (N.size_gt n). set (P := (2 ^ N.size n)%N) in *. lia.
Qed.

Lemma dig_nonzero d : (1 <= d < 10)%N -> dig d <> b_0.
Proof.
  intros H E. pose proof (proj2 (dig_facts10 d ltac:(lia))) as Hv. rewrite E in Hv.
  vm_compute in Hv. lia.
Qed.

Lemma dec_aux_head : forall fuel n acc, (1 <= fuel)%nat -> (n < 2 ^ N.of_nat fuel)%N ->
  exists ds, dec_of_N_aux fuel n acc = ds ++ acc /\
    (((n < 10)%N /\ ds = [dig n]) \/
     ((10 <= n)%N /\ exists h t, ds = h :: t /\ t <> [] /\ h <> b_0)).
Proof.
  induction fuel as [|k IH]; intros n acc Hf Hn; [lia|].
  cbn [dec_of_N_aux]. cbv zeta. fold (dig (n mod 10)%N).
  destruct (N.ltb_spec n 10) as [Hlt|Hge].
  - exists [dig (n mod 10)%N]. split; [reflexivity|]. left. split; [exact Hlt|].
    rewrite N.mod_small by exact Hlt. reflexivity.
  - rewrite Nat2N.inj_succ, N.pow_succ_r' in Hn.
    assert (Hk : (1 <= k)%nat).
    { destruct k; [|lia]. change (2 ^ N.of_nat 0)%N with 1%N in Hn. lia. }
    assert (Hn' : (n / 10 < 2 ^ N.of_nat k)%N) by (set (P := (2 ^ N.of_nat k)%N) in *; lia).
    destruct (IH (n / 10)%N (dig (n mod 10)%N :: acc) Hk Hn') as (ds' & E & Hcase).
    exists (ds' ++ [dig (n mod 10)%N]). split; [rewrite E, <- app_assoc; reflexivity|].
    right. split; [exact Hge|].
    destruct Hcase as [(Hs & ->)|(Hb & h & t & -> & Ht & Hh)].
    + exists (dig (n / 10)%N), [dig (n mod 10)%N]. split; [reflexivity|]. split; [discriminate|].
      apply dig_nonzero. lia.
    + exists h, (t ++ [dig (n mod 10)%N]). split; [reflexivity|]. split; [destruct t; discriminate|exact Hh].
Qed.

Theorem dec_of_N_no_lead0 n : no_lead0 (dec_of_N n) = true.
Proof.
  unfold dec_of_N.
  destruct (dec_aux_head (S (N.to_nat (N.size n))) n []) as (ds & E & Hcase).
  - lia.
  - rewrite Nat2N.inj_succ, N2Nat.id, N.pow_succ_r'.
    pose proof (N.size_gt n). set (P := (2 ^ N.size n)%N) in *. lia.
  - rewrite E, app_nil_r.
    destruct Hcase as [(_ & ->)|(_ & h & t & -> & Ht & Hh)]; [reflexivity|].
    destruct t as [|x t]; [congruence|]. cbn [no_lead0].
    destruct (b2n h =? c0)%N eqn:E0; [|reflexivity].
    apply b2n_c0 in E0. congruence.
Qed.

(* ------------------------------------------------------------------ *)
(* what the specification makes of a printed number                     *)

(* the number the text of n denotes *)
Definition renum (n : num) : num :=
  match n with
  | NInt _ => n
  | NUint u => if Z.of_N u <=? max_int64 then NInt (Z.of_N u) else n
  | NFloat b _ => match reparse b with Some n' => n' | None => n end
  end.

Definition num_okb (n : num) : bool :=
  match n with
  | NInt z => (min_int64 <=? z) && (z <=? max_int64)
  | NUint u => (u <? two64)%N
  | NFloat b _ => (b <? two64)%N && sf_is_finite (sf_of_bits b)
  end.

Definition int_lit (neg : bool) (n : N) : numlit :=
  {| nl_neg := neg; nl_int := map dv (dec_of_N n); nl_frac := None; nl_exp := None |}.

Lemma lex_int neg n rest : rest_ok rest = true ->
  lex_number (sign_bytes neg ++ dec_of_N n ++ rest) = Some (int_lit neg n, rest).
Proof.
  intros Hr. destruct (dec_of_N_spec n) as (Hne & Hall & _).
  pose proof (lex_number_render {| p_neg := neg; p_int := dec_of_N n; p_frac := None; p_exp := None |} rest) as H.
  unfold render, lit_of in H. cbn [p_neg p_int p_frac p_exp frac_bytes exp_bytes option_map exp_val] in H.
  rewrite !app_nil_r in H. rewrite <- app_assoc in H. apply H; [|exact Hr].
  unfold wf. cbn [p_int p_frac p_exp wf_frac wf_exp].
  repeat split; auto. apply dec_of_N_no_lead0.
Qed.

Lemma num_spec_int (neg : bool) (n : N) (v : Z) : v = (if neg then - Z.of_N n else Z.of_N n) ->
  ((min_int64 <=? v) && (v <=? max_int64) = true -> num_spec (int_lit neg n) = Some (NInt v)) /\
  ((min_int64 <=? v) && (v <=? max_int64) = false -> (0 <=? v) && (v <=? max_uint64) = true ->
     num_spec (int_lit neg n) = Some (NUint (Z.to_N v))).
Proof.
  intros ->. unfold num_spec, int_lit. cbn [nl_neg nl_int nl_frac nl_exp].
  rewrite app_nil_r, (proj2 (proj2 (dec_of_N_spec n))). cbv zeta.
  split; intros H; rewrite H; [reflexivity|]. intros H2. rewrite H2. reflexivity.
Qed.

Lemma dec_of_Z_sign z : dec_of_Z z = sign_bytes (z <? 0) ++ dec_of_N (Z.to_N (Z.abs z)).
Proof. destruct z as [|p|p]; reflexivity. Qed.

(* a printed number, followed by a legal delimiter, is lexed completely and
   denotes [renum n] *)
Lemma pr_num_lex_int z rest : num_okb (NInt z) = true -> rest_ok rest = true ->
  exists l, lex_number (dec_of_Z z ++ rest) = Some (l, rest) /\ num_spec l = Some (NInt z).
Proof.
  intros Hok Hr. exists (int_lit (z <? 0) (Z.to_N (Z.abs z))). split.
  - rewrite dec_of_Z_sign, <- app_assoc. apply lex_int. exact Hr.
  - apply (proj1 (num_spec_int (z <? 0) (Z.to_N (Z.abs z)) z ltac:(destruct (Z.ltb_spec z 0); lia)) Hok).
Qed.

Lemma pr_num_lex_uint u rest : num_okb (NUint u) = true -> rest_ok rest = true ->
  exists l, lex_number (dec_of_N u ++ rest) = Some (l, rest) /\ num_spec l = Some (renum (NUint u)).
Proof.
  intros Hok Hr. exists (int_lit false u). split.
  - apply (lex_int false u rest Hr).
  - destruct (num_spec_int false u (Z.of_N u) eq_refl) as [A B].
    unfold renum. unfold num_okb in Hok. apply N.ltb_lt in Hok.
    destruct (Z.leb_spec (Z.of_N u) max_int64) as [Hs|Hb].
    + apply A. unfold min_int64, max_int64 in *. lia.
    + rewrite B; [rewrite N2Z.id; reflexivity| |]; unfold min_int64, max_int64, max_uint64, two64 in *; lia.
Qed.

Lemma pr_num_lex_float b fl rest : num_okb (NFloat b fl) = true -> rest_ok rest = true ->
  exists l, lex_number (pr_num (NFloat b fl) ++ rest) = Some (l, rest) /\
            num_spec l = Some (renum (NFloat b fl)).
Proof.
  intros Hok Hr. unfold num_okb in Hok.
  apply andb_true_iff in Hok. destruct Hok as [Hlt Hfin]. apply N.ltb_lt in Hlt.
  destruct (fmt_float_num_spec b Hlt Hfin) as (txt & l & n' & Ht & Hl & Hn & _).
  pose proof (Hl [] eq_refl) as H0. rewrite app_nil_r in H0.
  assert (Hre : reparse b = Some n') by (unfold reparse; rewrite Ht, H0; exact Hn).
  exists l. unfold pr_num, renum. rewrite Ht, Hre. split; [apply Hl; exact Hr|exact Hn].
Qed.

(* a printed number, followed by a legal delimiter, is lexed completely and
   denotes [renum n] *)
Theorem pr_num_lex n rest : num_okb n = true -> rest_ok rest = true ->
  exists l, lex_number (pr_num n ++ rest) = Some (l, rest) /\ num_spec l = Some (renum n).
Proof.
  destruct n as [z|u|b fl].
  - apply pr_num_lex_int.
  - apply pr_num_lex_uint.
  - apply pr_num_lex_float.
Qed.

Theorem pr_num_spec_value n rest f : num_okb n = true -> rest_ok rest = true ->
  spec_value (S f) (pr_num n ++ rest) = SOk (DNum (renum n), rest).
Proof.
  intros Hok Hr. destruct (pr_num_lex n rest Hok Hr) as (l & Hl & Hn).
  apply (spec_value_number f _ l rest _ Hl Hn).
Qed.

(* first byte of a printed number *)
Lemma num_head_byte b : ((b2n b =? cMINUS)%N || is_digit (b2n b)) = true ->
  is_json_ws (b2n b) = false /\ (b2n b =? cRBRACK)%N = false /\ b2n b <> cLF.
Proof. destruct b; vm_compute; intros H; try discriminate H; repeat split; intro E; discriminate E. Qed.

Lemma pr_num_head n : num_okb n = true ->
  exists b t, pr_num n = b :: t /\ is_json_ws (b2n b) = false /\ (b2n b =? cRBRACK)%N = false.
Proof.
  intros Hok. destruct (pr_num_lex n [] Hok eq_refl) as (l & Hl & _). rewrite app_nil_r in Hl.
  destruct (lex_number_first _ _ _ Hl) as (b & s' & E & Hb).
  exists b, s'. split; [exact E|]. destruct (num_head_byte b Hb) as (A & B & _). split; assumption.
Qed.

(* a printed number contains no line feed *)
Lemma render_nolf p : wf p -> Forall (fun b => b2n b <> cLF) (render p).
Proof.
  intros (Ha & _ & _ & Hf & Hx). unfold render.
  assert (D : forall s, alld s = true -> Forall (fun b => b2n b <> cLF) s).
  { induction s as [|b s IH]; intros H; [constructor|]. cbn [alld forallb] in H.
    apply andb_true_iff in H. destruct H. constructor; [apply isdig_not_lf; assumption|auto]. }
  apply Forall_app; split; [|apply Forall_app; split; [|apply Forall_app; split]].
  - destruct (p_neg p); repeat constructor. discriminate.
  - apply D. exact Ha.
  - destruct (p_frac p) as [fp|]; [|constructor]. destruct Hf as [Hf _].
    constructor; [discriminate|apply D; exact Hf].
  - destruct (p_exp p) as [[[m sg] d]|]; [|constructor].
    destruct Hx as ([->| ->] & Hsg & Hd & _); (constructor; [discriminate|]);
      (apply Forall_app; split; [|apply D; exact Hd]);
      destruct Hsg as [->|[->| ->]]; repeat constructor; discriminate.
Qed.

Lemma pr_num_nolf n : num_okb n = true -> Forall (fun b => b2n b <> cLF) (pr_num n).
Proof.
  intros Hok. destruct (pr_num_lex n [] Hok eq_refl) as (l & Hl & _). rewrite app_nil_r in Hl.
  destruct (lex_number_shape _ _ _ Hl) as (p & Hwf & E & _). rewrite app_nil_r in E.
  rewrite E. apply render_nolf. exact Hwf.
Qed.

(* ------------------------------------------------------------------ *)
(* numerically equal                                                    *)

Definition int_of_num (n : num) : option Z :=
  match n with NInt z => Some z | NUint u => Some (Z.of_N u) | NFloat _ _ => None end.

(* binary64 b is the correctly rounded (nearest-even) value of the integer z *)
Definition int_rounds_to (z : Z) (b : N) : Prop :=
  bits_of_sf (dec_to_float (z <? 0) (Z.abs z) 0) = b.

(* the relation between a number and what its text is read back as: integers
   stay the same integer (uint64 below 2^63 comes back as int64); a float
   comes back as the identical float64, or, when its text has neither
   fraction nor exponent, as the integer written there, of which the float
   is the correctly rounded value (exactly equal when |z| <= 2^53); -0.0 comes
   back as the integer 0 (finding K2) *)
Definition num_equiv (n n' : num) : Prop :=
  match n with
  | NFloat b _ =>
    match n' with
    | NFloat b' _ => b' = b
    | _ => exists z, int_of_num n' = Some z /\ (int_rounds_to z b \/ (b = two63 /\ z = 0))
    end
  | _ => exists z, int_of_num n = Some z /\ int_of_num n' = Some z
  end.

Lemma dec_to_float_zero neg e : dec_to_float neg 0 e = S754_zero neg.
Proof. reflexivity. Qed.

(* shape of the literal an integer-looking float text is read as *)
Lemma float_text_cases b : (b < two64)%N -> sf_is_finite (sf_of_bits b) = true ->
  exists txt, fmt_float b = Some txt /\
    ((reparse b = Some (NFloat b 0)) \/
     (exists neg ip, txt = sign_bytes neg ++ ip /\ alld ip = true /\ ip <> [] /\ no_lead0 ip = true /\
        let m := digits_val (map dv ip) 0 in
        reparse b = Some (int_cascade neg m b) /\
        bits_of_sf (dec_to_float neg m 0) = b)).
Proof.
  intros Hlt Hfin.
  destruct (fmt_float_num_spec b Hlt Hfin) as (txt & l & n' & Ht & Hl & Hn & H1 & H2 & Hb).
  exists txt. split; [exact Ht|].
  pose proof (Hl [] eq_refl) as H0. rewrite app_nil_r in H0.
  assert (Hre : reparse b = Some n') by (unfold reparse; rewrite Ht, H0; exact Hn).
  destruct (lex_number_shape _ _ _ H0) as (p & (Ha & Hne & Hnl & Hf & Hx) & E & El).
  rewrite app_nil_r in E.
  destruct (p_frac p) as [fp|] eqn:Ef.
  { left. rewrite Hre, H1; [reflexivity|]. left. rewrite El. unfold lit_of. cbn [nl_frac]. rewrite Ef. discriminate. }
  destruct (p_exp p) as [[[m sg] d]|] eqn:Ee.
  { left. rewrite Hre, H1; [reflexivity|]. right. rewrite El. unfold lit_of. cbn [nl_exp]. rewrite Ee. discriminate. }
  right. exists (p_neg p), (p_int p).
  assert (Em : lit_mant l = digits_val (map dv (p_int p)) 0).
  { rewrite El. unfold lit_mant, lit_of. cbn [nl_int nl_frac]. rewrite Ef. cbn [option_map]. rewrite app_nil_r. reflexivity. }
  assert (Ee10 : lit_e10 l = 0).
  { rewrite El. unfold lit_e10, lit_of. cbn [nl_exp nl_frac]. rewrite Ef, Ee. reflexivity. }
  assert (Eneg : nl_neg l = p_neg p) by (rewrite El; reflexivity).
  split; [rewrite E; unfold render; rewrite Ef, Ee; cbn [frac_bytes exp_bytes]; rewrite !app_nil_r; reflexivity|].
  repeat (split; [assumption|]). cbv zeta. split.
  - rewrite Hre, H2, Eneg, Em; [reflexivity| |]; rewrite El; unfold lit_of; cbn [nl_frac nl_exp];
      [rewrite Ef|rewrite Ee]; reflexivity.
  - rewrite <- Eneg, <- Em, <- Ee10. exact Hb.
Qed.

Theorem renum_equiv n : num_okb n = true -> num_equiv n (renum n).
Proof.
  intros Hok. destruct n as [z|u|b fl]; cbn [renum num_equiv].
  - exists z. split; reflexivity.
  - exists (Z.of_N u). split; [reflexivity|]. destruct (Z.of_N u <=? max_int64); reflexivity.
  - cbn [num_okb] in Hok. apply andb_true_iff in Hok. destruct Hok as [Hlt Hfin]. apply N.ltb_lt in Hlt.
    destruct (float_text_cases b Hlt Hfin) as (txt & Ht & [Hre|(neg & ip & _ & Ha & _ & _ & Hre & Hb)]).
    + rewrite Hre. reflexivity.
    + cbv zeta in Hre, Hb. rewrite Hre.
      pose proof (digits_val_lt _ (alld_lt10 ip Ha)) as [Hm0 _].
      set (m := digits_val (map dv ip) 0) in *.
      assert (Hc : forall z, z = (if neg then - m else m) ->
                  int_rounds_to z b \/ (b = two63 /\ z = 0)).
      { intros z ->. destruct (Z.eq_dec m 0) as [E0|Hpos].
        - rewrite E0 in *. rewrite dec_to_float_zero in Hb. destruct neg.
          + right. split; [symmetry; exact Hb|reflexivity].
          + left. unfold int_rounds_to. cbn. exact Hb.
        - left. unfold int_rounds_to. destruct neg.
          + replace (- m <? 0) with true by lia. replace (Z.abs (- m)) with m by lia. exact Hb.
          + replace (m <? 0) with false by lia. replace (Z.abs m) with m by lia. exact Hb. }
      unfold int_cascade. cbv zeta.
      destruct ((min_int64 <=? (if neg then - m else m)) && ((if neg then - m else m) <=? max_int64)).
      { eexists. split; [reflexivity|]. apply Hc. reflexivity. }
      destruct ((0 <=? (if neg then - m else m)) && ((if neg then - m else m) <=? max_uint64)) eqn:E2.
      { eexists. split; [reflexivity|]. apply Hc. lia. }
      reflexivity.
Qed.

(* ------------------------------------------------------------------ *)
(* fixed point                                                          *)

Definition not_negzero (n : num) : bool :=
  match n with NFloat b _ => negb (b =? two63)%N | _ => true end.

Theorem pr_renum n : num_okb n = true -> not_negzero n = true -> pr_num (renum n) = pr_num n.
Proof.
  intros Hok Hnz. destruct n as [z|u|b fl]; cbn [renum pr_num].
  - reflexivity.
  - destruct (Z.of_N u <=? max_int64); [|reflexivity].
    cbn [pr_num]. rewrite dec_of_Z_sign. replace (Z.of_N u <? 0) with false by lia.
    replace (Z.to_N (Z.abs (Z.of_N u))) with u by lia. reflexivity.
  - cbn [num_okb not_negzero] in *. apply andb_true_iff in Hok. destruct Hok as [Hlt Hfin].
    apply N.ltb_lt in Hlt. apply negb_true_iff, N.eqb_neq in Hnz.
    destruct (float_text_cases b Hlt Hfin) as (txt & Ht & [Hre|(neg & ip & Etxt & Ha & Hne & Hnl & Hre & Hb)]).
    + rewrite Hre. cbn [pr_num]. reflexivity.
    + cbv zeta in Hre, Hb. rewrite Hre, Ht.
      pose proof (digits_val_lt _ (alld_lt10 ip Ha)) as [Hm0 _].
      pose proof (dec_of_N_canon ip Ha Hne Hnl) as Hcanon.
      set (m := digits_val (map dv ip) 0) in *.
      assert (Hnot : ~ (neg = true /\ m = 0)).
      { intros [-> E0]. rewrite E0, dec_to_float_zero in Hb. apply Hnz. symmetry. exact Hb. }
      assert (Hz : dec_of_Z (if neg then - m else m) = txt).
      { rewrite dec_of_Z_sign, Etxt. destruct neg.
        - replace (- m <? 0) with true by lia. replace (Z.abs (- m)) with m by lia. rewrite Hcanon. reflexivity.
        - replace (m <? 0) with false by lia. replace (Z.abs m) with m by lia. rewrite Hcanon. reflexivity. }
      unfold int_cascade. cbv zeta.
      destruct ((min_int64 <=? (if neg then - m else m)) && ((if neg then - m else m) <=? max_int64)).
      { cbn [pr_num]. exact Hz. }
      destruct ((0 <=? (if neg then - m else m)) && ((if neg then - m else m) <=? max_uint64)) eqn:E2.
      { cbn [pr_num]. destruct neg; [lia|]. rewrite Etxt. cbn [sign_bytes app]. exact Hcanon. }
      cbn [pr_num]. rewrite Ht. reflexivity.
Qed.

(* K2: the float -0.0 prints "-0", which is read back as the integer 0,
   which prints "0" *)
Example pr_renum_negzero_refuted :
  num_okb (NFloat two63 0) = true /\
  pr_num (NFloat two63 0) = ["-"; "0"]%byte /\ renum (NFloat two63 0) = NInt 0 /\
  pr_num (renum (NFloat two63 0)) = ["0"]%byte.
Proof. vm_compute. repeat split. Qed.

(* "numerically equal" is equality after conversion to float64, not of exact
   values: the float 2^60 prints its 16 shortest digits padded with zeros,
   and that integer literal is read back as an int64 that differs from 2^60 *)
Example float_2p60_reads_back_as_other_integer :
  let b := bits_of_sf (dec_to_float false 1152921504606846976 0) in
  sf_trunc (sf_of_bits b) = Some 1152921504606846976 /\
  renum (NFloat b 0) = NInt 1152921504606847000 /\
  int_rounds_to 1152921504606847000 b.
Proof. vm_compute. repeat split. Qed.

(* finiteness is preserved *)
Lemma fin_renum n : num_okb n = true -> fin_num (renum n) = true /\ fin_num n = true.
Proof.
  intros Hok. destruct n as [z|u|b fl]; cbn [renum fin_num].
  - split; reflexivity.
  - split; [destruct (Z.of_N u <=? max_int64)|]; reflexivity.
  - cbn [num_okb] in Hok. apply andb_true_iff in Hok. destruct Hok as [Hlt Hfin]. apply N.ltb_lt in Hlt.
    destruct (float_text_cases b Hlt Hfin) as (txt & Ht & [Hre|(neg & ip & _ & _ & _ & _ & Hre & _)]).
    + rewrite Hre. cbn [fin_num]. rewrite Ht. split; reflexivity.
    + cbv zeta in Hre. rewrite Hre, Ht. split; [|reflexivity].
      unfold int_cascade. cbv zeta.
      repeat (match goal with |- context [if ?c then _ else _] => destruct c end; try reflexivity).
      cbn [fin_num]. rewrite Ht. reflexivity.
Qed.
