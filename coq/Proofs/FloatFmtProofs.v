(* FloatFmtProofs.v — property C18 on the model (Model.FloatFmt), assembled:
   [shortest] yields digits that parse back (Spec.Json.dec_to_float, the
   correctly rounded conversion) to the same float64, with the fewest
   significant digits possible and, among those, closest to the exact value;
   [fmt_float] lays them out in the ECMAScript way and the specification's
   lexer reads the text back to the same bit pattern.
   Layers: FloatFmtBits (bit patterns), FloatFmtReal (Flocq), FloatFmtSearch
   (the digit search), FloatFmtText (layouts and lexing). *)
From Coq Require Import ZArith NArith Reals List Bool Lia Lra ZifyBool ZifyN ZifyNat.
From Coq Require Import Floats.SpecFloat.
From Flocq Require Import Core.
From SJ Require Import Model.Base Model.RefTables Spec.Json Model.Number Model.Iter Model.FloatFmt.
From SJ Require Import Proofs.NumLex Proofs.NumFloat Proofs.NumberProofs Proofs.NumberFinal.
From SJ Require Import Proofs.FloatFmtBits Proofs.FloatFmtReal Proofs.FloatFmtSearch Proofs.FloatFmtText.
Import ListNotations.
Local Open Scope Z_scope.

(* ------------------------------------------------------------------ *)
(* shortest                                                             *)

Lemma shortest_unfold bits s m e :
  sf_of_bits bits = S754_finite s m e ->
  shortest bits =
  let num := fnum m e in
  let den := fden e in
  let p := adjust_p 40 num den (zdigits num - zdigits den) in
  let '(c, k) := shortest_search 18 1 (bits mod two63)%N num den p in
  let '(c', k') := strip_zeros c k 20 in
  let ds := digits_of 25 c' [] in
  (ds, k' + Z.of_nat (length ds)).
Proof. intros H. unfold shortest. rewrite H. reflexivity. Qed.

Lemma pow10_lt_inv a b : 0 <= b -> 10 ^ a < 10 ^ b -> a < b.
Proof. intros Hb H. apply (Z.pow_lt_mono_r_iff 10); [lia|exact Hb|exact H]. Qed.

(* everything the rest needs to know about one run of [shortest] *)
Lemma shortest_analysis bits s m e :
  sf_of_bits bits = S754_finite s m e ->
  let num := fnum m e in
  let den := fden e in
  let p := adjust_p 40 num den (zdigits num - zdigits den) in
  exists c k ds k',
    shortest_search 18 1 (bits mod two63)%N num den p = (c, k) /\ 0 < c /\
    shortest bits = (ds, k' + Z.of_nat (length ds)) /\
    all_lt10 ds /\ ds <> [] /\ hd 0%N ds <> 0%N /\
    0 < digits_val ds 0 /\ k <= k' /\ c = digits_val ds 0 * 10 ^ (k' - k) /\
    1 <= Z.of_nat (length ds) <= p - k /\ digits_val ds 0 mod 10 <> 0.
Proof.
  intros Hsf. cbv zeta.
  pose proof (sf_of_bits_valid bits s m e Hsf) as Hb.
  pose proof (bits_of_sf_of_bits_abs bits s m e Hsf) as Hbits.
  destruct (fnum_fden m e) as (Hn & Hd & Hx).
  set (num := fnum m e) in *. set (den := fden e) in *.
  pose proof (adjust_p_mag10 num den Hn Hd) as Hp.
  set (p := adjust_p 40 num den (zdigits num - zdigits den)) in *.
  destruct (shortest_exists_17 m e Hb num den Hn Hd Hx 18 1 p Hp ltac:(lia)) as (c & k & Hs & Hc).
  rewrite Hbits in Hs.
  pose proof Hs as Hs'. rewrite <- Hbits in Hs'.
  destruct (shortest_search_range m e num den Hn Hd 18 1 p c k Hp ltac:(lia) Hs' Hc)
    as (Hrange & Hclo & Hchi).
  destruct (strip_zeros c k 20) as [c' k'] eqn:Est.
  destruct (strip_zeros_spec 20 c k c' k' Hc Est) as (Hc' & Hkk & Hcc & Hle).
  assert (Hc18 : c <= 10 ^ 18).
  { apply Z.le_trans with (1 := Hchi). apply Z.pow_le_mono_r; lia. }
  assert (Hnz : c' mod 10 <> 0).
  { apply (strip_zeros_nozero 20 c k c' k'); [|exact Est].
    change (10 ^ Z.of_nat 20) with 100000000000000000000. change (10 ^ 18) with 1000000000000000000 in Hc18. lia. }
  destruct (digits_of_spec 25 c' [] ltac:(lia)) as (ds & Eds & Hne & Hall & Hval & Hpos).
  { change (10 ^ Z.of_nat 25) with 10000000000000000000000000.
    change (10 ^ 18) with 1000000000000000000 in Hc18. lia. }
  rewrite app_nil_r in Eds.
  destruct (Hpos Hc') as (Hhd & Hdlo & Hdhi).
  exists c, k, ds, k'.
  split; [exact Hs|]. split; [exact Hc|].
  split.
  { rewrite (shortest_unfold bits s m e Hsf). cbv zeta. fold num den p.
    rewrite Hs, Est, Eds. reflexivity. }
  split; [exact Hall|]. split; [exact Hne|]. split; [exact Hhd|].
  rewrite Hval. split; [exact Hc'|]. split; [exact Hkk|]. split; [exact Hcc|].
  split; [|exact Hnz].
  assert (Hlen1 : 1 <= Z.of_nat (length ds)) by (destruct ds; [congruence|cbn [length]; lia]).
  split; [exact Hlen1|].
  (* the digit count does not exceed the stage *)
  destruct (Z.eq_dec c (10 ^ (p - k))) as [Epow|Hnpow].
  - (* c = 10^stage: one digit already parses back, so the stage is 1 *)
    assert (Hst : p - k = 1).
    { destruct (Z.eq_dec (p - k) 1) as [E1|N1]; [exact E1|exfalso].
      apply (shortest_search_minimal m e Hb num den Hn Hd Hx 18 1 p c k Hp ltac:(lia) Hs' Hc
               1 1 (k + (p - k))); [lia|lia|].
      rewrite <- (shortest_search_sound 18 1 _ num den p c k Hs' Hc).
      apply f_equal. apply dec_to_float_ext; [lia|exact Hc|].
      rewrite (dval_shift 1 (k + (p - k)) k) by lia. f_equal.
      rewrite Z.mul_1_l, Epow. f_equal. lia. }
    rewrite Hst in Epow. change (10 ^ 1) with 10 in Epow. rewrite Epow in Est.
    change (strip_zeros 10 k 20) with (1, k + 1) in Est. injection Est as <- <-.
    change (digits_of 25 1 []) with [1%N] in Eds. subst ds. cbn [length]. lia.
  - assert (c < 10 ^ (p - k)) by lia.
    assert (Z.of_nat (length ds) - 1 < p - k); [|lia].
    apply pow10_lt_inv; [lia|]. lia.
Qed.

(* C18 (a): the digits parse back to the float's bit pattern (sign aside) *)
Theorem shortest_roundtrip bits s m e ds dp :
  sf_of_bits bits = S754_finite s m e -> shortest bits = (ds, dp) ->
  all_lt10 ds /\ ds <> [] /\ hd 0%N ds <> 0%N /\ 0 < digits_val ds 0 /\
  digits_val ds 0 mod 10 <> 0 /\
  bits_of_sf (dec_to_float false (digits_val ds 0) (dp - Z.of_nat (length ds))) = (bits mod two63)%N.
Proof.
  intros Hsf Hsh.
  destruct (shortest_analysis bits s m e Hsf)
    as (c & k & ds' & k' & Hs & Hc & Hsh' & Hall & Hne & Hhd & Hpos & Hkk & Hcc & Hlen & Hnz).
  rewrite Hsh in Hsh'. injection Hsh' as -> ->.
  repeat (split; [assumption|]).
  replace (k' + Z.of_nat (length ds') - Z.of_nat (length ds')) with k' by lia.
  rewrite <- (shortest_search_sound 18 1 _ _ _ _ c k Hs Hc).
  apply f_equal. apply dec_to_float_ext; [exact Hpos|exact Hc|].
  rewrite (dval_shift _ k' k Hkk), <- Hcc. reflexivity.
Qed.

(* C18 (b): no decimal with fewer significant digits parses back to it *)
Theorem shortest_minimal bits s m e ds dp :
  sf_of_bits bits = S754_finite s m e -> shortest bits = (ds, dp) ->
  forall j c' k', 1 <= j < Z.of_nat (length ds) -> 0 < c' < 10 ^ j ->
    bits_of_sf (dec_to_float false c' k') <> (bits mod two63)%N.
Proof.
  intros Hsf Hsh j c' k' Hj Hc'.
  destruct (shortest_analysis bits s m e Hsf)
    as (c & k & ds' & k1 & Hs & Hc & Hsh' & Hall & Hne & Hhd & Hpos & Hkk & Hcc & Hlen & Hnz).
  rewrite Hsh in Hsh'. injection Hsh' as -> ->.
  pose proof (sf_of_bits_valid bits s m e Hsf) as Hb.
  pose proof (bits_of_sf_of_bits_abs bits s m e Hsf) as Hbits.
  destruct (fnum_fden m e) as (Hn & Hd & Hx).
  rewrite <- Hbits in Hs |- *.
  apply (shortest_search_minimal m e Hb _ _ Hn Hd Hx 18 1 _ c k
           (adjust_p_mag10 _ _ Hn Hd) ltac:(lia) Hs Hc j c' k'); [lia|exact Hc'].
Qed.

(* C18 (d): among the decimals with at most as many digits that parse back to
   it, the one produced is nearest to the float's exact value *)
Theorem shortest_closest bits s m e ds dp :
  sf_of_bits bits = S754_finite s m e -> shortest bits = (ds, dp) ->
  forall c2 k2, 0 < c2 < 10 ^ Z.of_nat (length ds) ->
    bits_of_sf (dec_to_float false c2 k2) = (bits mod two63)%N ->
    (Rabs (dval (digits_val ds 0) (dp - Z.of_nat (length ds)) - xval m e)
     <= Rabs (dval c2 k2 - xval m e))%R.
Proof.
  intros Hsf Hsh c2 k2 Hc2 Hb2.
  destruct (shortest_analysis bits s m e Hsf)
    as (c & k & ds' & k1 & Hs & Hc & Hsh' & Hall & Hne & Hhd & Hpos & Hkk & Hcc & Hlen & Hnz).
  rewrite Hsh in Hsh'. injection Hsh' as -> ->.
  pose proof (sf_of_bits_valid bits s m e Hsf) as Hb.
  pose proof (bits_of_sf_of_bits_abs bits s m e Hsf) as Hbits.
  destruct (fnum_fden m e) as (Hn & Hd & Hx).
  rewrite <- Hbits in Hs, Hb2.
  replace (k1 + Z.of_nat (length ds') - Z.of_nat (length ds')) with k1 by lia.
  rewrite (dval_shift _ k1 k Hkk), <- Hcc, <- Hx.
  apply (shortest_search_closest_all m e Hb _ _ Hn Hd Hx 18 1 _ c k
           (adjust_p_mag10 _ _ Hn Hd) ltac:(lia) Hs Hc c2 k2).
  - split; [lia|]. apply Z.lt_le_trans with (1 := proj2 Hc2). apply Z.pow_le_mono_r; lia.
  - rewrite Hx. destruct c2 as [|q|q]; try lia. apply (dec_ok_iff m e q k2 Hb). exact Hb2.
Qed.

(* ------------------------------------------------------------------ *)
(* sign and value bookkeeping                                           *)

Lemma sf_with_sign_idem s f : sf_with_sign s (sf_with_sign s f) = sf_with_sign s f.
Proof. destruct f; reflexivity. Qed.

Lemma bits_signed neg c k c0 k0 b :
  0 < c -> 0 < c0 -> dval c k = dval c0 k0 ->
  bits_of_sf (dec_to_float false c0 k0) = b ->
  bits_of_sf (dec_to_float neg c k) = ((if neg then two63 else 0) + b)%N.
Proof.
  intros Hc Hc0 Hv Hb.
  rewrite (dec_to_float_ext neg c k c0 k0 Hc Hc0 Hv).
  rewrite dec_to_float_sign.
  destruct c0 as [|q|q]; try lia.
  rewrite bits_of_sf_with_sign by (apply dec_to_float_valid).
  rewrite <- dec_to_float_sign, Hb. reflexivity.
Qed.

Lemma bits_recompose bits : (bits < two64)%N ->
  ((if (two63 <=? bits)%N then two63 else 0) + bits mod two63)%N = bits.
Proof.
  unfold two63, two64. intros H. destruct (N.leb_spec 9223372036854775808 bits); lia.
Qed.

(* ------------------------------------------------------------------ *)
(* fmt_float                                                            *)

Theorem fmt_float_none_iff bits :
  fmt_float bits = None <-> sf_is_finite (sf_of_bits bits) = false.
Proof.
  unfold fmt_float. destruct (sf_of_bits bits) as [s0|s0| |s0 m e]; cbn [sf_is_finite].
  - destruct (shortest bits). destruct (_ || _); split; discriminate.
  - split; reflexivity.
  - split; reflexivity.
  - destruct (shortest bits). destruct (_ || _); split; discriminate.
Qed.

(* the switch between the two layouts *)
Theorem fmt_float_switch bits :
  sf_is_finite (sf_of_bits bits) = true ->
  let ab := (bits mod two63)%N in
  let neg := (two63 <=? bits)%N in
  fmt_float bits =
  Some (if (ab =? 0)%N || ((bits_1em6 <=? ab)%N && (ab <? bits_1e21)%N)
        then fmt_f neg (fst (shortest bits)) (snd (shortest bits))
        else fmt_e neg (fst (shortest bits)) (snd (shortest bits))).
Proof.
  intros Hfin. cbv zeta. unfold fmt_float.
  destruct (sf_of_bits bits) as [s0|s0| |s0 m e]; try discriminate Hfin;
    destruct (shortest bits) as [ds dp]; cbn [fst snd]; destruct (_ || _); reflexivity.
Qed.

Example bits_1em6_ok : bits_of_sf (dec_to_float false 1 (-6)) = bits_1em6.
Proof. vm_compute. reflexivity. Qed.
Example bits_1e21_ok : bits_of_sf (dec_to_float false 1 21) = bits_1e21.
Proof. vm_compute. reflexivity. Qed.

(* zeros *)
Theorem fmt_float_zero bits s :
  (bits < two64)%N -> sf_of_bits bits = S754_zero s ->
  fmt_float bits = Some (sign_bytes s ++ [b_0]).
Proof.
  intros Hlt Hz. destruct (sf_of_bits_zero bits s Hlt Hz) as (Hb & Hs & Hm).
  unfold fmt_float, shortest. rewrite Hz, Hm. cbn [N.eqb orb]. rewrite <- Hs.
  destruct s; reflexivity.
Qed.

(* the headline: for every finite bit pattern the model prints a text that
   the specification's lexer accepts completely and whose value, by the
   specification's correctly rounded conversion, is the same bit pattern *)
Theorem fmt_float_roundtrip bits :
  (bits < two64)%N -> sf_is_finite (sf_of_bits bits) = true ->
  exists txt l,
    fmt_float bits = Some txt /\
    (forall rest, rest_ok rest = true -> lex_number (txt ++ rest) = Some (l, rest)) /\
    nl_neg l = (two63 <=? bits)%N /\
    bits_of_sf (dec_to_float (nl_neg l) (lit_mant l) (lit_e10 l)) = bits.
Proof.
  intros Hlt Hfin. rewrite (fmt_float_switch bits Hfin). cbv zeta.
  set (neg := (two63 <=? bits)%N).
  destruct (sf_of_bits bits) as [s0|s0| |s0 m e] eqn:Hsf; try discriminate Hfin.
  - (* zero *)
    destruct (sf_of_bits_zero bits s0 Hlt Hsf) as (Hb & Hs & Hm).
    rewrite Hm. cbn [N.eqb orb].
    assert (Esh : shortest bits = ([0%N], 1)) by (unfold shortest; rewrite Hsf; reflexivity).
    rewrite Esh. cbn [fst snd].
    destruct (fmt_f_big_lex neg [0%N] 1) as (l & Hl & Hneg & Hm' & He & _).
    { repeat constructor. }
    { discriminate. }
    { right. split; reflexivity. }
    { cbn [length]. lia. }
    exists (fmt_f neg [0%N] 1), l. split; [reflexivity|]. split; [exact Hl|]. split; [exact Hneg|].
    rewrite Hneg, Hm', He. cbn [digits_val length]. change (0 * 10 + Z.of_N 0) with 0.
    rewrite Z.mul_0_l. cbn [dec_to_float bits_of_sf]. unfold neg. rewrite <- Hs. exact (eq_sym Hb).
  - (* finite, non-zero *)
    destruct (shortest bits) as [ds dp] eqn:Esh. cbn [fst snd].
    destruct (shortest_roundtrip bits s0 m e ds dp Hsf Esh) as (Hall & Hne & Hhd & Hpos & _ & Hrt).
    set (nd := Z.of_nat (length ds)) in *.
    assert (Hfinal : forall l, nl_neg l = neg ->
              0 < lit_mant l -> dval (lit_mant l) (lit_e10 l) = dval (digits_val ds 0) (dp - nd) ->
              bits_of_sf (dec_to_float (nl_neg l) (lit_mant l) (lit_e10 l)) = bits).
    { intros l Hneg Hmp Hv. rewrite Hneg.
      rewrite (bits_signed neg _ _ _ _ _ Hmp Hpos Hv Hrt). apply bits_recompose. exact Hlt. }
    destruct ((bits mod two63 =? 0)%N || ((bits_1em6 <=? bits mod two63)%N && (bits mod two63 <? bits_1e21)%N)).
    + (* plain layout *)
      destruct (Z.le_gt_cases dp 0) as [Hsmall|Hbig].
      * destruct (fmt_f_small_lex neg ds dp Hall Hne Hsmall) as (l & Hl & Hneg & Hm' & He).
        exists (fmt_f neg ds dp), l. split; [reflexivity|]. split; [exact Hl|]. split; [exact Hneg|].
        apply Hfinal; [exact Hneg|rewrite Hm'; exact Hpos|rewrite Hm', He; reflexivity].
      * destruct (Z.lt_ge_cases dp nd) as [Hmid|Hge].
        -- destruct (fmt_f_mid_lex neg ds dp Hall Hhd ltac:(fold nd; lia)) as (l & Hl & Hneg & Hm' & He).
           exists (fmt_f neg ds dp), l. split; [reflexivity|]. split; [exact Hl|]. split; [exact Hneg|].
           apply Hfinal; [exact Hneg|rewrite Hm'; exact Hpos|rewrite Hm', He; reflexivity].
        -- destruct (fmt_f_big_lex neg ds dp Hall Hne (or_introl Hhd) Hge) as (l & Hl & Hneg & Hm' & He & _).
           exists (fmt_f neg ds dp), l. split; [reflexivity|]. split; [exact Hl|]. split; [exact Hneg|].
           apply Hfinal; [exact Hneg| |].
           ++ rewrite Hm'. apply Z.mul_pos_pos; [exact Hpos|apply pow10_pos; fold nd; lia].
           ++ rewrite Hm', He. fold nd. symmetry.
              rewrite (dval_shift _ (dp - nd) 0) by lia. rewrite Z.sub_0_r. reflexivity.
    + (* exponent layout *)
      destruct ds as [|d1 rest]; [congruence|].
      destruct (fmt_e_lex neg d1 rest dp Hall) as (l & Hl & Hneg & Hm' & He).
      exists (fmt_e neg (d1 :: rest) dp), l. split; [reflexivity|]. split; [exact Hl|]. split; [exact Hneg|].
      apply Hfinal; [exact Hneg|rewrite Hm'; exact Hpos|rewrite Hm', He; reflexivity].
Qed.

(* in the specification's own words: what num_spec makes of the text.  A
   text with a fraction or an exponent is the float itself; a text without
   (an integer-valued float below 1e21) is classified by the integer cascade
   first, as for any JSON integer literal. *)
Definition int_cascade (neg : bool) (m : Z) (bits : N) : num :=
  let v := if neg then - m else m in
  if (min_int64 <=? v) && (v <=? max_int64) then NInt v
  else if (0 <=? v) && (v <=? max_uint64) then NUint (Z.to_N v)
  else NFloat bits 1.

Corollary fmt_float_num_spec bits :
  (bits < two64)%N -> sf_is_finite (sf_of_bits bits) = true ->
  exists txt l n,
    fmt_float bits = Some txt /\
    (forall rest, rest_ok rest = true -> lex_number (txt ++ rest) = Some (l, rest)) /\
    num_spec l = Some n /\
    ((nl_frac l <> None \/ nl_exp l <> None) -> n = NFloat bits 0) /\
    (nl_frac l = None -> nl_exp l = None -> n = int_cascade (nl_neg l) (lit_mant l) bits) /\
    bits_of_sf (dec_to_float (nl_neg l) (lit_mant l) (lit_e10 l)) = bits.
Proof.
  intros Hlt Hfin.
  destruct (fmt_float_roundtrip bits Hlt Hfin) as (txt & l & Ht & Hl & Hneg & Hb).
  set (fl := dec_to_float (nl_neg l) (lit_mant l) (lit_e10 l)) in *.
  assert (Hflfin : sf_is_finite fl = true).
  { destruct fl as [s0|s0| |s0 m e] eqn:Efl; try reflexivity; exfalso.
    - (* infinity: its pattern is not finite *)
      rewrite <- Hb in Hfin. destruct s0; vm_compute in Hfin; discriminate Hfin.
    - rewrite <- Hb in Hfin. vm_compute in Hfin. discriminate Hfin. }
  assert (Hns : num_spec l =
                match nl_frac l, nl_exp l with
                | None, None => Some (int_cascade (nl_neg l) (lit_mant l) bits)
                | _, _ => Some (NFloat bits 0)
                end).
  { unfold num_spec, int_cascade. fold (lit_mant l). fold (lit_e10 l). cbv zeta. fold fl.
    rewrite Hflfin, Hb.
    destruct (nl_frac l), (nl_exp l); try reflexivity.
    destruct ((min_int64 <=? (if nl_neg l then - lit_mant l else lit_mant l)) &&
              ((if nl_neg l then - lit_mant l else lit_mant l) <=? max_int64)); [reflexivity|].
    destruct ((0 <=? (if nl_neg l then - lit_mant l else lit_mant l)) &&
              ((if nl_neg l then - lit_mant l else lit_mant l) <=? max_uint64)); reflexivity. }
  destruct (nl_frac l) as [fr|] eqn:Ef; [|destruct (nl_exp l) as [ex|] eqn:Ee].
  - exists txt, l, (NFloat bits 0). split; [exact Ht|]. split; [exact Hl|].
    split; [destruct (nl_exp l); exact Hns|].
    split; [intros _; reflexivity|]. split; [intros H; congruence|exact Hb].
  - exists txt, l, (NFloat bits 0). split; [exact Ht|]. split; [exact Hl|].
    split; [exact Hns|].
    split; [intros _; reflexivity|]. split; [intros _ H; congruence|exact Hb].
  - exists txt, l, (int_cascade (nl_neg l) (lit_mant l) bits). split; [exact Ht|]. split; [exact Hl|].
    split; [exact Hns|].
    split; [intros [H|H]; congruence|]. split; [intros _ _; reflexivity|exact Hb].
Qed.

(* a number literal as spec_value meets it *)
Lemma lex_number_first s l r :
  lex_number s = Some (l, r) ->
  exists b s', s = b :: s' /\ ((b2n b =? cMINUS)%N || is_digit (b2n b)) = true.
Proof.
  destruct s as [|b s']; intros H; [vm_compute in H; discriminate H|].
  exists b, s'. split; [reflexivity|].
  destruct (b2n b =? cMINUS)%N eqn:E; [reflexivity|]. cbn [orb].
  destruct (is_digit (b2n b)) eqn:D; [reflexivity|exfalso].
  unfold lex_number in H. rewrite E in H. cbn [take_digits] in H. rewrite D in H.
  cbn [rev] in H. discriminate H.
Qed.

Lemma num_first_byte b :
  ((b2n b =? cMINUS)%N || is_digit (b2n b)) = true ->
  is_json_ws (b2n b) = false /\ (b2n b =? cLBRACE)%N = false /\ (b2n b =? cLBRACK)%N = false /\
  (b2n b =? cQUOTE)%N = false /\ (b2n b =? c_t)%N = false /\ (b2n b =? c_f)%N = false /\
  (b2n b =? c_n)%N = false.
Proof. destruct b; vm_compute; intros H; try discriminate H; repeat split. Qed.

Theorem spec_value_number f s l r n :
  lex_number s = Some (l, r) -> num_spec l = Some n -> spec_value (S f) s = SOk (DNum n, r).
Proof.
  intros Hl Hn. destruct (lex_number_first s l r Hl) as (b & s' & -> & Hb).
  destruct (num_first_byte b Hb) as (W & A1 & A2 & A3 & A4 & A5 & A6).
  cbn [spec_value skip_ws]. rewrite W. cbv zeta. rewrite A1, A2, A3, A4, A5, A6, Hb, Hl, Hn.
  reflexivity.
Qed.

(* C10/C18 together, float values: the printed float, followed by anything
   that may follow a JSON value, is one JSON number for the specification *)
Theorem fmt_float_spec_value bits f rest :
  (bits < two64)%N -> sf_is_finite (sf_of_bits bits) = true -> rest_ok rest = true ->
  exists txt l n,
    fmt_float bits = Some txt /\
    spec_value (S f) (txt ++ rest) = SOk (DNum n, rest) /\
    lex_number (txt ++ rest) = Some (l, rest) /\ num_spec l = Some n /\
    ((nl_frac l <> None \/ nl_exp l <> None) -> n = NFloat bits 0) /\
    (nl_frac l = None -> nl_exp l = None -> n = int_cascade (nl_neg l) (lit_mant l) bits).
Proof.
  intros Hlt Hfin Hrest.
  destruct (fmt_float_num_spec bits Hlt Hfin) as (txt & l & n & Ht & Hl & Hn & H1 & H2 & _).
  exists txt, l, n. split; [exact Ht|].
  split; [apply (spec_value_number f _ l rest n (Hl rest Hrest) Hn)|].
  split; [exact (Hl rest Hrest)|]. split; [exact Hn|]. split; assumption.
Qed.

(* what that means for integer-valued floats: 1.0 prints as "1" and is read
   back as the INTEGER 1; -0.0 prints as "-0" and is read back as the integer
   0; 1e20 prints as 21 digits and is read back as a float carrying the
   FloatOverflowedInteger flag *)
Definition reparse (bits : N) : option num :=
  match fmt_float bits with
  | Some txt => match lex_number txt with Some (l, _) => num_spec l | None => None end
  | None => None
  end.

(* ------------------------------------------------------------------ *)
(* examples (bit patterns computed by the specification's conversion)   *)

Definition bitsd (neg : bool) (m e : Z) : N := bits_of_sf (dec_to_float neg m e).

Example ex_0_1 : fmt_float (bitsd false 1 (-1)) = Some ["0"; "."; "1"]%byte.
Proof. vm_compute. reflexivity. Qed.
Example ex_1e21 : fmt_float (bitsd false 1 21) = Some ["1"; "e"; "+"; "2"; "1"]%byte.
Proof. vm_compute. reflexivity. Qed.
Example ex_1e20 : fmt_float (bitsd false 1 20) =
  Some ["1";"0";"0";"0";"0";"0";"0";"0";"0";"0";"0";"0";"0";"0";"0";"0";"0";"0";"0";"0";"0"]%byte.
Proof. vm_compute. reflexivity. Qed.
Example ex_1em7 : fmt_float (bitsd false 1 (-7)) = Some ["1"; "e"; "-"; "7"]%byte.
Proof. vm_compute. reflexivity. Qed.
Example ex_1em6 : fmt_float (bitsd false 1 (-6)) = Some ["0"; "."; "0"; "0"; "0"; "0"; "0"; "1"]%byte.
Proof. vm_compute. reflexivity. Qed.
Example ex_denorm_min : fmt_float 1%N = Some ["5"; "e"; "-"; "3"; "2"; "4"]%byte.
Proof. vm_compute. reflexivity. Qed.
Example ex_frac : fmt_float (bitsd false 123456789125 (-3)) =
  Some ["1"; "2"; "3"; "4"; "5"; "6"; "7"; "8"; "9"; "."; "1"; "2"; "5"]%byte.
Proof. vm_compute. reflexivity. Qed.
Example ex_neg_zero : fmt_float two63 = Some ["-"; "0"]%byte.
Proof. vm_compute. reflexivity. Qed.
Example ex_zero : fmt_float 0%N = Some ["0"]%byte.
Proof. vm_compute. reflexivity. Qed.
Example ex_max : fmt_float (bitsd false 17976931348623157 292) =
  Some ["1"; "."; "7"; "9"; "7"; "6"; "9"; "3"; "1"; "3"; "4"; "8"; "6"; "2"; "3"; "1"; "5"; "7";
        "e"; "+"; "3"; "0"; "8"]%byte.
Proof. vm_compute. reflexivity. Qed.
Example ex_neg : fmt_float (bitsd true 15 (-1)) = Some ["-"; "1"; "."; "5"]%byte.
Proof. vm_compute. reflexivity. Qed.
Example ex_inf : fmt_float (bitsd false 1 400) = None.
Proof. vm_compute. reflexivity. Qed.
Example ex_nan : fmt_float 9221120237041090560%N = None.
Proof. vm_compute. reflexivity. Qed.
(* 2^53 + 1 is not a float64; its neighbour 2^53 prints with 16 digits *)
Example ex_2p53 : fmt_float (bitsd false 9007199254740993 0) =
  Some ["9"; "0"; "0"; "7"; "1"; "9"; "9"; "2"; "5"; "4"; "7"; "4"; "0"; "9"; "9"; "2"]%byte.
Proof. vm_compute. reflexivity. Qed.
(* 9.5 -> one digit is not enough, "9.5"; 5e-324's neighbour *)
Example ex_9_5 : fmt_float (bitsd false 95 (-1)) = Some ["9"; "."; "5"]%byte.
Proof. vm_compute. reflexivity. Qed.

Example reparse_one : reparse (bits_of_sf (dec_to_float false 1 0)) = Some (NInt 1).
Proof. vm_compute. reflexivity. Qed.
Example reparse_neg_zero : reparse two63 = Some (NInt 0).
Proof. vm_compute. reflexivity. Qed.
Example reparse_1e20 :
  reparse (bits_of_sf (dec_to_float false 1 20)) = Some (NFloat (bits_of_sf (dec_to_float false 1 20)) 1).
Proof. vm_compute. reflexivity. Qed.
Example reparse_1_5 :
  reparse (bits_of_sf (dec_to_float false 15 (-1))) = Some (NFloat (bits_of_sf (dec_to_float false 15 (-1))) 0).
Proof. vm_compute. reflexivity. Qed.

Print Assumptions shortest_roundtrip.
Print Assumptions shortest_minimal.
Print Assumptions shortest_closest.
Print Assumptions fmt_float_roundtrip.
Print Assumptions fmt_float_num_spec.
Print Assumptions fmt_float_spec_value.
