(* MarshalForEach.v — property C10 for the iterator ParsedJson.ForEach hands to its
   callback: AdvanceIter on a root gives a destination whose view ends with the root's
   CLOSING word, AdvanceInto then stands on the root's value.  MarshalJSON of that
   iterator is the text of the value (since fix F20; before, an error).  Stated for
   any iterator on a value whose view holds, after the value, only deleted gaps and a
   closing root word. *)
From SJ Require Import Model.Base Model.RefTables Spec.Json Model.Tape Model.Iter Model.Walk
     Model.FloatFmt.
From SJ Require Import Proofs.TapeBase Proofs.TapeSeg Proofs.TapeDen Proofs.TapePath Proofs.TapeEdit
     Proofs.TapeIter Proofs.SerBase.
From SJ Require Import Model.Marshal Proofs.MarshalProofsBase Proofs.MarshalProofsRefine.
From Coq Require Import ZifyBool ZifyN ZifyNat.
Open Scope Z_scope.

(* a closing root word met with nothing open, after something was written: done *)
Lemma switch_root_done ml pj i out : i_t i = TagRoot -> Z.of_N (i_cur i) <= i_off i -> out <> [] ->
  switch_step ml pj i [FNone] out = Ok (rev out).
Proof.
  intros H Ho Hne. unfold switch_step. rewrite H.
  change (TagRoot =? TagRoot)%N with true. cbv iota zeta.
  replace (i_off i <? Z.of_N (i_cur i)) with false by lia.
  destruct out; [congruence|reflexivity].
Qed.

Theorem marshal_value_before_closing_root pj strict adj pre v n2 c X d w r it :
  pj_tape pj = pre ++ v ++ n2 ++ c :: X ->
  val_seg (pj_msg pj) (pj_strings pj) strict adj (nlen pre) v d -> v = w :: r ->
  nops_seg strict n2 -> word_tag c = TagRoot ->
  Z.of_N (word_val c) <= Z.of_nat (length pre + length v + length n2) ->
  on_word it (length pre) w -> i_len it = Z.of_nat (length pre + length v + length n2 + 1) ->
  pr_doc d <> [] ->
  marshal_iter pj it = value_spec d.
Proof.
  intros Htape Hv Ev Hn2 Htc Hvc Hon Hlen Hne. unfold marshal_iter.
  pose proof (proj1 (cost_bound _ _ _ _) _ _ _ Hv) as Hb.
  assert (Hl : (length v <= length (pj_tape pj))%nat) by (rewrite Htape; len).
  replace (3 * S (length (pj_tape pj)) + 8)%nat
    with (S (cost d + S (3 * S (length (pj_tape pj)) + 6 - cost d)))%nat by lia.
  set (f := (3 * S (length (pj_tape pj)) + 6 - cost d)%nat).
  rewrite marshal_loop_S, keyed_none. cbn [obind fst snd].
  assert (C1 : word_tag c <> TagNop /\ word_tag c <> TagEnd) by (rewrite Htc; split; discriminate).
  rewrite (proj1 (marshal_seg pj strict adj) _ _ _ Hv pre (n2 ++ c :: X) w r it (S f) [FNone] []
             (Ok (pr_doc d)) Htape eq_refl Ev Hon ltac:(len)).
  - unfold value_spec, print_doc. destruct (fin_doc d); reflexivity.
  - intros ie Hl' Hp.
    assert (Htape2 : pj_tape pj = (pre ++ v) ++ n2 ++ c :: X) by (rewrite Htape; leq).
    assert (Hp' : at_pos ie (length (pre ++ v))) by len.
    rewrite (after_enter strict _ pj ie n2 c _ X _ _ Hn2 Htape2 (proj1 C1) (proj2 C1) Hp') by len.
    unfold enter_step.
    rewrite (advance_into_on strict pj ie n2 c _ X Hn2 Htape2 (proj1 C1) Hp') by len.
    cbn [obind fst]. rewrite sep_out_none.
    rewrite marshal_loop_S, keyed_none. cbn [obind fst snd].
    rewrite switch_root_done.
    + unfold emit. rewrite app_nil_r, rev_involutive. reflexivity.
    + rewrite entered_t. exact Htc.
    + unfold entered, with_calc, set_i. cbn [i_off i_cur]. revert Hvc. len.
    + unfold emit. rewrite app_nil_r. intros E. apply Hne.
      apply (f_equal (@rev _)) in E. rewrite rev_involutive in E. exact E.
Qed.

(* the top-level value of a document is an object or an array: its text is never empty *)
Lemma pr_container_nonempty d : (exists l, d = DArr l) \/ (exists l, d = DObj l) -> pr_doc d <> [].
Proof. intros [[l ->]|[l ->]]; cbn [pr_doc]; discriminate. Qed.

Corollary marshal_foreach_root_value pj strict adj pre v n2 c X d w r it :
  pj_tape pj = pre ++ v ++ n2 ++ c :: X ->
  val_seg (pj_msg pj) (pj_strings pj) strict adj (nlen pre) v d -> v = w :: r ->
  nops_seg strict n2 -> word_tag c = TagRoot ->
  Z.of_N (word_val c) <= Z.of_nat (length pre + length v + length n2) ->
  on_word it (length pre) w -> i_len it = Z.of_nat (length pre + length v + length n2 + 1) ->
  (exists l, d = DArr l) \/ (exists l, d = DObj l) ->
  marshal_iter pj it = value_spec d.
Proof. intros. eapply marshal_value_before_closing_root; eauto. apply pr_container_nonempty; assumption. Qed.
