(* AcceptProofs.v — the acceptance direction for Parse: every text the
   specification accepts (one JSON value with an object or array at the root,
   surrounded by JSON white space) is accepted by the model of
   simdjson-go's Parse, in both string modes, and the tape denotes exactly the
   specification's document. *)
From Coq Require Import ZifyBool ZifyN ZifyNat.
From SJ Require Import Model.Base Model.RefTables Spec.Json Model.Number Model.Str Model.Stage1.
From SJ Require Import Proofs.StrArith Proofs.StrProofs Proofs.TrimProofs.
From SJ Require Import Model.Stage2 Model.Driver Model.Tape.
From SJ Require Import Proofs.Stage1Proofs Proofs.Stage1Buffers Proofs.Stage2Base Proofs.Stage2Proofs.
Open Scope N_scope.

(* ------------------------------------------------------------------ *)
(* denotation of a complete single-root tape                           *)

Lemma den_roots_S msg strs f i rest acc :
  den_roots msg strs (S f) i rest acc =
    match skip_nops f i rest with
    | None => None
    | Some (i', rest') =>
      match rest' with
      | [] => Some (rev acc)
      | w :: r =>
        if word_tag w =? TagRoot then
          match skip_nops f (i' + 1) r with
          | Some (i1, r1) =>
            match den_value msg strs f i1 r1 with
            | Some (d, j, r2) =>
              match skip_nops f j r2 with
              | Some (j', c :: r3) =>
                if (word_tag c =? TagRoot) && (word_val c =? i') && (word_val w =? j' + 1)
                then den_roots msg strs f (j' + 1) r3 (d :: acc) else None
              | _ => None
              end
            | None => None
            end
          | None => None
          end
        else None
      end
    end.
Proof. reflexivity. Qed.

Lemma denote_root msg strs ws d :
  gv msg strs 1 ws d -> N.of_nat (length ws) + 2 < two56 ->
  denote msg strs (mk_word TagRoot (N.of_nat (length ws) + 2) :: ws ++ [mk_word TagRoot 0]) = Some [d].
Proof.
  intros [(w0 & ws' & -> & Hvt) Hgv] Hb.
  assert (B0 : 0 < two56) by (unfold two56; lia).
  unfold denote. cbn [length]. rewrite app_length. cbn [length]. rewrite Nat.add_1_r.
  set (f := S (S (S (length ws')))).
  rewrite den_roots_S.
  unfold f at 1. rewrite skip_nops_stop by (rewrite word_tag_mk by exact Hb; reflexivity).
  rewrite word_tag_mk by exact Hb. change (TagRoot =? TagRoot) with true. cbv iota.
  change ((w0 :: ws') ++ [mk_word TagRoot 0]) with (w0 :: ws' ++ [mk_word TagRoot 0]).
  unfold f at 1. rewrite skip_nops_stop by (apply Hvt).
  change (w0 :: ws' ++ [mk_word TagRoot 0]) with ((w0 :: ws') ++ [mk_word TagRoot 0]).
  specialize (Hgv [] [mk_word TagRoot 0] f). rewrite app_nil_r in Hgv.
  change (0 + 1) with 1.
  rewrite Hgv by (unfold f; cbn [length]; lia).
  unfold f at 1. rewrite skip_nops_stop by (rewrite word_tag_mk by exact B0; reflexivity).
  rewrite word_tag_mk by exact B0. rewrite !word_val_mk by assumption.
  change (TagRoot =? TagRoot) with true. change (0 =? 0) with true.
  cbn [andb]. unfold f. rewrite den_roots_S. rewrite skip_nops_nil.
  match goal with |- (if ?c then _ else _) = _ => replace c with true by (cbn [length]; lia) end.
  reflexivity.
Qed.

(* ------------------------------------------------------------------ *)
(* small facts                                                         *)

Lemma fold_left_len : forall (bufs : list (list nat)) a,
  fold_left (fun a b => (a + length b)%nat) bufs a = (a + length (concat bufs))%nat.
Proof.
  induction bufs as [|b r IH]; intros a; cbn [fold_left concat]; [cbn [length]; lia|].
  rewrite IH, app_length. lia.
Qed.

Lemma rtrim_ws_length u : (length (rtrim_ws u) <= length u)%nat.
Proof.
  unfold rtrim_ws. rewrite rev_length. pose proof (skip_ws_length (rev u)) as H. rewrite rev_length in H. exact H.
Qed.

(* what spec_parse = SOk gives *)
Lemma spec_parse_ok bs d : spec_parse bs = SOk d ->
  let t := rtrim_ws (skip_ws bs) in
  spec_value (2 * length t + 2) t = SOk (d, []) /\ is_container d = true /\ (length t <= length bs)%nat.
Proof.
  unfold spec_parse. cbv zeta. intros H.
  destruct (rtrim_ws (skip_ws bs)) as [|b t0] eqn:Et; [discriminate|].
  destruct (edge_unclaimed (b2n b) || edge_unclaimed (b2n (last (b :: t0) x00))); [discriminate|].
  destruct (spec_value (2 * length (b :: t0) + 2) (b :: t0)) as [[d' r]| | |] eqn:Ev; try discriminate.
  destruct r; [|discriminate]. destruct (is_container d') eqn:Ec; [|discriminate].
  injection H as <-. split; [reflexivity|]. split; [exact Ec|].
  rewrite <- Et. etransitivity; [apply rtrim_ws_length|apply skip_ws_length].
Qed.

(* ------------------------------------------------------------------ *)
(* the two stages on a valid message                                   *)

Theorem message_accepts (copy : bool) (msg : bytes) (d : doc) (f : nat) :
  N.of_nat (length msg) < STRINGBUFBIT ->
  spec_value f msg = SOk (d, []) -> is_container d = true ->
  let o := s1_buffers false msg in
  o_ok o = true /\
  exists m, run2 copy msg (bufs_incs 0 (o_bufs o)) = Ok m /\
            denote msg (final_strings m) (final_tape m) = Some [d].
Proof.
  intros Hlen Hspec Hcd. cbv zeta.
  set (stF := fst (s1_fold false (OutS true) 0 msg)).
  set (ps := snd (s1_fold false (OutS true) 0 msg)).
  set (o := s1_buffers false msg).
  set (bufs := bufs_incs 0 (o_bufs o)).
  set (m0 := write_tape (push_scope (m2_init msg bufs) retStart) 0 TagRoot).
  (* stage 2, given that the increments are those of [ps] and no buffer is empty *)
  assert (Hstage2 : concat bufs = incs 0 ps -> noempty bufs ->
            exists m, run2 copy msg bufs = Ok m /\ denote msg (final_strings m) (final_tape m) = Some [d]).
  { intros Hcat Hne.
    assert (Hwf0 : mwf msg m0).
    { constructor; try reflexivity. exact Hne. }
    assert (Hat0 : at_text msg stF m0 msg true).
    { exists []. cbn [app length]. split; [reflexivity|]. split; [cbn; lia|]. split; [intros H; exfalso; apply H; reflexivity|].
      split; [cbn; lia|]. split; [reflexivity|]. exact Hcat. }
    assert (Htl0 : tl_ok m0 0) by (unfold tl_ok; cbn; lia).
    destruct (root_sim copy msg Hlen stF f msg d m0 Hspec Hcd Hwf0 Hat0 Htl0)
      as (k & m' & ws & ap & pr' & Hn & Hwf' & Hat' & Htl' & Htape' & Hstrs' & Hst' & Hgv & _).
    destruct Hat' as (pre & Hpre & Hi' & _ & _ & _ & Hpend'). cbn [s1_fold snd] in Hpend'. rewrite incs_nil in Hpend'.
    pose proof (nsteps_pending copy _ _ _ _ _ Hn) as Hk. rewrite Hpend' in Hk. cbn [length] in Hk.
    assert (Hn0 : fold_left (fun a b => (a + length b)%nat) bufs 0%nat = k).
    { rewrite fold_left_len. change (pending m0) with (concat bufs) in Hk. lia. }
    assert (Hrun : run2 copy msg bufs = finish m').
    { unfold run2. cbv zeta. fold m0. rewrite Hn0.
      replace (S (S k)) with (k + 2)%nat by lia.
      rewrite (nsteps_run copy _ _ _ _ _ Hn 2%nat). cbn [run_labels].
      unfold step. rewrite (update_char_done m' (wf_rb _ _ Hwf') Hpend'). reflexivity. }
    assert (Hst0 : stack m' = [1]) by (rewrite Hst'; reflexivity).
    assert (Htape0 : tape_rev m' = rev ws ++ [mk_word TagRoot 0]) by (rewrite Htape'; reflexivity).
    assert (Htlen : tlen m' = N.of_nat (length ws) + 1).
    { rewrite (wf_tlen _ _ Hwf'), Htape0, app_length, rev_length. cbn [length]. lia. }
    assert (Hidx : idx1 m' <= N.of_nat (length msg)).
    { rewrite Hpre, app_length. lia. }
    assert (Hb : N.of_nat (length ws) + 2 < two56).
    { unfold tl_ok in Htl'. rewrite two56_val. lia. }
    set (mf := write_tape (set_tape (set_stack m' []) (rev ws ++ [mk_word TagRoot (N.of_nat (length ws) + 2)])) 0 TagRoot).
    assert (Hfin : finish m' = Ok mf).
    { unfold finish. rewrite Hst0.
      change (1 / 4) with 0.
      rewrite annotate_ok by (cbn [tlen set_stack]; lia).
      cbn [obind]. unfold mf. do 2 f_equal.
      cbn [tlen tape_rev set_stack]. rewrite Htape0.
      replace (N.to_nat (tlen m' - 1 - 0)) with (length (rev ws)) by (rewrite rev_length; lia).
      rewrite upd_nth_app. unfold addOneForRoot. rewrite lor_mk by lia.
      repeat first [lia | reflexivity | progress f_equal]. }
    exists mf. split; [rewrite Hrun; exact Hfin|].
    unfold final_strings, final_tape, mf.
    cbn [tape_rev strs_rev write_tape set_tape set_stack].
    cbn [rev]. rewrite rev_app_distr, rev_involutive. cbn [rev app].
    apply denote_root; [|exact Hb].
    replace 1 with (tlen m0) by reflexivity. exact Hgv. }
  (* stage 1 *)
  assert (Hwf0' : forall bufs', noempty bufs' -> mwf msg (write_tape (push_scope (m2_init msg bufs') retStart) 0 TagRoot)).
  { intros bufs' Hne. constructor; try reflexivity. exact Hne. }
  (* run the simulation once abstractly to learn the shape of the message and the final stage-1 state *)
  assert (Hshape : exists pr' pre' c, stF = OutS pr' /\ msg = pre' ++ [c] /\ closer c).
  { set (bufsA := match ps with [] => [] | _ => [incs 0 ps] end).
    assert (HneA : noempty bufsA).
    { unfold bufsA. destruct ps as [|p0 ps0]; [constructor|].
      constructor; [rewrite incs_cons; discriminate|constructor]. }
    assert (HcatA : concat bufsA = incs 0 ps).
    { unfold bufsA. destruct ps; [reflexivity|]. cbn [concat]. apply app_nil_r. }
    set (mA := write_tape (push_scope (m2_init msg bufsA) retStart) 0 TagRoot).
    assert (HwfA : mwf msg mA) by (apply Hwf0'; exact HneA).
    assert (HatA : at_text msg stF mA msg true).
    { exists []. cbn [app length]. split; [reflexivity|]. split; [cbn; lia|]. split; [intros H; exfalso; apply H; reflexivity|].
      split; [cbn; lia|]. split; [reflexivity|]. exact HcatA. }
    assert (HtlA : tl_ok mA 0) by (unfold tl_ok; cbn; lia).
    destruct (root_sim copy msg Hlen stF f msg d mA Hspec Hcd HwfA HatA HtlA)
      as (k & m' & ws & ap & pr' & Hn & _ & Hat' & _ & _ & _ & _ & _ & pre' & c & Hm & Hc).
    destruct Hat' as (pre & _ & _ & _ & _ & Hf & _). cbn [s1_fold fst] in Hf.
    exists pr', pre', c. split; [symmetry; exact Hf|]. split; [exact Hm|exact Hc]. }
  destruct Hshape as (pr' & pre' & c & HstF & Hmsg & Hc).
  assert (Hfold : s1_fold false s1_init 0 msg = (OutS pr', ps)).
  { change s1_init with (OutS true). rewrite <- HstF. unfold stF, ps. destruct (s1_fold false (OutS true) 0 msg); reflexivity. }
  destruct (s1_buffers_ok msg pre' c pr' ps Hmsg Hc Hfold) as (Hok & Hcat & Hne).
  fold o in Hok, Hcat, Hne.
  split; [exact Hok|].
  apply Hstage2.
  - unfold bufs. rewrite bufs_incs_concat, Hcat. reflexivity.
  - unfold bufs. apply bufs_incs_noempty. exact Hne.
Qed.

(* ------------------------------------------------------------------ *)
(* the main theorem                                                    *)

Theorem parse_accepts_valid : forall (copy : bool) (bs : bytes) (d : doc),
  N.of_nat (length bs) < 2 ^ 55 ->
  spec_parse bs = SOk d ->
  exists p, parse_model copy bs = Ok p /\ denote (p_msg p) (p_strings p) (p_tape p) = Some [d].
Proof.
  intros copy bs d Hlen Hspec.
  pose proof (trim_agree bs d Hspec) as Htrim.
  destruct (spec_parse_ok bs d Hspec) as (Hv & Hcd & Hl). cbv zeta in Hv, Hl.
  set (t := rtrim_ws (skip_ws bs)) in *.
  assert (Hlt : N.of_nat (length t) < STRINGBUFBIT).
  { change STRINGBUFBIT with (2 ^ 55). lia. }
  destruct (message_accepts copy t d _ Hlt Hv Hcd) as (Hok & m & Hrun & Hden).
  unfold parse_model, parse_message. rewrite Htrim. fold t. rewrite Hrun, Hok.
  eexists. split; [reflexivity|]. cbn [p_msg p_strings p_tape]. exact Hden.
Qed.

(* ------------------------------------------------------------------ *)
(* an example exercising the conclusion                                *)

From SJ Require Import Model.Oracle.
Import String.StringSyntax.
Open Scope string_scope.

Definition ex_doc : bytes :=
  lit "  {""a"": [1, -2.5e3, 18446744073709551615, true, false, null, ""x\né😀y""],
   ""b"": {}, ""dup"": 1, ""dup"": [ ], ""c"":[[],{""d"":""plain""}]}
  ".

Definition accepts_and_denotes (copy : bool) (bs : bytes) : bool :=
  match spec_parse bs, parse_model copy bs with
  | SOk d, Ok p =>
    match denote (p_msg p) (p_strings p) (p_tape p) with
    | Some [d'] => bytes_eqb (show_doc d) (show_doc d')
    | _ => false
    end
  | _, _ => false
  end.

Example ex_accept_copy : accepts_and_denotes true ex_doc = true.
Proof. vm_compute. reflexivity. Qed.
Example ex_accept_nocopy : accepts_and_denotes false ex_doc = true.
Proof. vm_compute. reflexivity. Qed.

Example ex_spec : spec_parse ex_doc =
  SOk (DObj
    [(lit "a", DArr [DNum (NInt 1); DNum (NFloat 13881088010067378176 0); DNum (NUint 18446744073709551615);
                     DBool true; DBool false; DNull;
                     DStr (lit "x" ++ [n2b 10; n2b 195; n2b 169; n2b 240; n2b 159; n2b 152; n2b 128] ++ lit "y")]);
     (lit "b", DObj []);
     (lit "dup", DNum (NInt 1));
     (lit "dup", DArr []);
     (lit "c", DArr [DArr []; DObj [(lit "d", DStr (lit "plain"))]])]).
Proof. vm_compute. reflexivity. Qed.

Print Assumptions trim_agree.
Print Assumptions message_accepts.
Print Assumptions parse_accepts_valid.
