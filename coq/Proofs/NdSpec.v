(* NdSpec.v — specification-side facts for the NDJSON acceptance proof:
   (1) the recogniser is stable under extension of the input: a value that is
       followed by a delimiter (or is a container) is recognised in the same
       way whatever follows;
   (2) the normal form of an input accepted by [nd_spec]: after Go's single
       trim, the message is a sequence  t_1 w_1 t_2 w_2 ... t_n  of LF-free
       texts, each accepted by the specification with a container at the
       root, separated by JSON white space containing at least one LF. *)
From Coq Require Import ZifyBool ZifyN ZifyNat.
From SJ Require Import Model.Base Model.RefTables Spec.Json Model.Number Model.Str Model.Stage1.
From SJ Require Import Proofs.StrArith Proofs.StrProofs Proofs.NumLex Proofs.NumberProofs Proofs.TrimProofs.
From SJ Require Import Model.Stage2 Model.Driver Model.Tape Proofs.AtomProofs Proofs.Stage1Proofs Proofs.Stage2Base Proofs.Stage2Proofs.
From SJ Require Import Proofs.AcceptProofs.
Open Scope N_scope.

(* ------------------------------------------------------------------ *)
(* (1) extension                                                       *)

Lemma skip_ws_app s b r x : skip_ws s = b :: r -> skip_ws (s ++ x) = b :: r ++ x.
Proof.
  induction s as [|a s IH]; [discriminate|]. cbn [skip_ws app].
  destruct (is_json_ws (b2n a)) eqn:E; [exact IH|].
  intros H. injection H as <- <-. reflexivity.
Qed.

Lemma utf8_seq_len_app s x n : utf8_seq_len s = Some n -> utf8_seq_len (s ++ x) = Some n.
Proof.
  unfold utf8_seq_len.
  destruct s as [|b0 [|b1 r1]]; try discriminate. cbn [app].
  destruct ((194 <=? b2n b0) && (b2n b0 <=? 223)); [intros H; exact H|].
  destruct r1 as [|b2 r2]; [discriminate|]. cbn [app].
  destruct (b2n b0 =? 224); [intros H; exact H|].
  destruct ((225 <=? b2n b0) && (b2n b0 <=? 236) || (b2n b0 =? 238) || (b2n b0 =? 239)); [intros H; exact H|].
  destruct (b2n b0 =? 237); [intros H; exact H|].
  destruct r2 as [|b3 r3]; [discriminate|]. cbn [app].
  intros H; exact H.
Qed.

Lemma spec_string_app : forall fuel s acc d r x,
  spec_string fuel s acc = SOk (d, r) -> spec_string fuel (s ++ x) acc = SOk (d, r ++ x).
Proof.
  induction fuel as [|f IH]; intros s acc d r x H; [discriminate|].
  destruct s as [|b s']; [discriminate|].
  change ((b :: s') ++ x) with (b :: s' ++ x).
  destruct (b2n b =? cQUOTE) eqn:Eq.
  { cbn [spec_string] in H |- *. rewrite Eq in H |- *. injection H as <- <-. reflexivity. }
  destruct (b2n b <? 32) eqn:Ec.
  { cbn [spec_string] in H. rewrite Eq, Ec in H. discriminate. }
  destruct (b2n b =? cBSLASH) eqn:Eb.
  { rewrite spec_bs in H by assumption. rewrite spec_bs by assumption.
    destruct (esc_tok (b :: s')) as [n o| |] eqn:Et; try discriminate.
    change (b :: s' ++ x) with ((b :: s') ++ x).
    rewrite (esc_tok_app _ x _ _ Et).
    pose proof (esc_tok_len _ _ _ Et) as (_ & Hn & _ & _).
    rewrite skipn_app_le by exact Hn. apply IH. exact H. }
  destruct (b2n b <? 128) eqn:Ea.
  { cbn [spec_string] in H |- *. rewrite Eq, Ec, Eb, Ea in H |- *. apply IH. exact H. }
  cbn [spec_string] in H |- *. rewrite Eq, Ec, Eb, Ea in H |- *.
  destruct (utf8_seq_len (b :: s')) as [n|] eqn:Eu; [|discriminate].
  change (b :: s' ++ x) with ((b :: s') ++ x).
  rewrite (utf8_seq_len_app _ x _ Eu).
  apply utf8_seq_len_lit in Eu. destruct Eu as [Hn _].
  rewrite skipn_app_le, firstn_app_le by exact Hn. apply IH. exact H.
Qed.

Lemma bytes_eqb_refl a : bytes_eqb a a = true.
Proof.
  unfold bytes_eqb. rewrite Nat.eqb_refl. cbn [andb].
  induction a as [|x a IH]; [reflexivity|]. cbn [combine forallb fst snd].
  rewrite IH, andb_true_r. unfold beq. apply Byte.byte_dec_lb. reflexivity.
Qed.

Lemma starts_with_app p s r x : starts_with p s = Some r -> starts_with p (s ++ x) = Some (r ++ x).
Proof.
  intros H. apply starts_with_split in H. subst s.
  unfold starts_with. rewrite <- app_assoc.
  assert (L : length (of_codes p) = length p) by (unfold of_codes; apply map_length).
  rewrite <- L.
  rewrite firstn_app, Nat.sub_diag, firstn_O, app_nil_r, firstn_all.
  rewrite bytes_eqb_refl.
  rewrite skipn_app, Nat.sub_diag, skipn_all. reflexivity.
Qed.

Lemma delim_ok_app r x : delim_ok r = true -> delim_ok (r ++ x) = true.
Proof. destruct r; [discriminate|]. intros H; exact H. Qed.

Lemma lex_number_app s l r x :
  lex_number s = Some (l, r) -> delim_ok r = true -> lex_number (s ++ x) = Some (l, r ++ x).
Proof.
  intros H Hd. destruct (lex_number_shape _ _ _ H) as (p & Hwf & -> & ->).
  rewrite <- app_assoc. apply lex_number_render; [exact Hwf|].
  apply delim_ok_rest_ok. apply delim_ok_app. exact Hd.
Qed.

Definition E_V (f : nat) : Prop := forall s d r x,
  spec_value f s = SOk (d, r) -> (is_container d = true \/ delim_ok r = true) ->
  spec_value f (s ++ x) = SOk (d, r ++ x).
Definition E_E (f : nat) : Prop := forall s acc d r x,
  spec_elems f s acc = SOk (d, r) -> spec_elems f (s ++ x) acc = SOk (d, r ++ x).
Definition E_M (f : nat) : Prop := forall s acc d r x,
  spec_members f s acc = SOk (d, r) -> spec_members f (s ++ x) acc = SOk (d, r ++ x).

Lemma EV_step f : E_E f -> E_M f -> E_V (S f).
Proof.
  intros HE HM s d r x H Hdel.
  rewrite spec_value_S in H |- *.
  destruct (skip_ws s) as [|b r0] eqn:Esk; [discriminate|].
  rewrite (skip_ws_app _ _ _ x Esk). cbv zeta in H |- *.
  destruct (b2n b =? cLBRACE) eqn:E1.
  { destruct (skip_ws r0) as [|b' r'] eqn:Esk2; [discriminate|].
    rewrite (skip_ws_app _ _ _ x Esk2).
    destruct (b2n b' =? cRBRACE) eqn:E1'.
    - injection H as <- <-. reflexivity.
    - change (b' :: r' ++ x) with ((b' :: r') ++ x). apply HM. exact H. }
  destruct (b2n b =? cLBRACK) eqn:E2.
  { destruct (skip_ws r0) as [|b' r'] eqn:Esk2; [discriminate|].
    rewrite (skip_ws_app _ _ _ x Esk2).
    destruct (b2n b' =? cRBRACK) eqn:E2'.
    - injection H as <- <-. reflexivity.
    - change (b' :: r' ++ x) with ((b' :: r') ++ x). apply HE. exact H. }
  destruct (b2n b =? cQUOTE) eqn:E3.
  { destruct (spec_string f r0 []) as [[str r']| | |] eqn:Es; try discriminate.
    injection H as <- <-. rewrite (spec_string_app _ _ _ _ _ x Es). reflexivity. }
  change (b :: r0 ++ x) with ((b :: r0) ++ x).
  destruct (b2n b =? c_t) eqn:E4.
  { destruct (starts_with [116; 114; 117; 101] (b :: r0)) as [r'|] eqn:Esw; [|discriminate].
    injection H as <- <-. rewrite (starts_with_app _ _ _ x Esw). reflexivity. }
  destruct (b2n b =? c_f) eqn:E5.
  { destruct (starts_with [102; 97; 108; 115; 101] (b :: r0)) as [r'|] eqn:Esw; [|discriminate].
    injection H as <- <-. rewrite (starts_with_app _ _ _ x Esw). reflexivity. }
  destruct (b2n b =? c_n) eqn:E6.
  { destruct (starts_with [110; 117; 108; 108] (b :: r0)) as [r'|] eqn:Esw; [|discriminate].
    injection H as <- <-. rewrite (starts_with_app _ _ _ x Esw). reflexivity. }
  destruct ((b2n b =? cMINUS) || is_digit (b2n b)) eqn:E7; [|discriminate].
  destruct (lex_number (b :: r0)) as [[lit r']|] eqn:El; [|discriminate].
  destruct (num_spec lit) as [n|] eqn:En; [|discriminate].
  injection H as <- <-. destruct Hdel as [Hdel|Hdel]; [discriminate|].
  rewrite (lex_number_app _ _ _ x El Hdel), En. reflexivity.
Qed.

Lemma EE_step f : E_V f -> E_E f -> E_E (S f).
Proof.
  intros HV HE s acc d r x H.
  rewrite spec_elems_S in H |- *.
  destruct (spec_value f s) as [[v r1]| | |] eqn:Ev; try discriminate.
  destruct (skip_ws r1) as [|b r'] eqn:Esk; [discriminate|].
  assert (Hdel : delim_ok r1 = true).
  { eapply skip_ws_delim; [exact Esk|].
    destruct (b2n b =? cCOMMA); [reflexivity|]. destruct (b2n b =? cRBRACK); [|discriminate].
    rewrite orb_true_r. reflexivity. }
  rewrite (HV _ _ _ x Ev (or_intror Hdel)), (skip_ws_app _ _ _ x Esk).
  destruct (b2n b =? cCOMMA); [apply HE; exact H|].
  destruct (b2n b =? cRBRACK); [|discriminate]. injection H as <- <-. reflexivity.
Qed.

Lemma EM_step f : E_V f -> E_M f -> E_M (S f).
Proof.
  intros HV HM s acc d r x H.
  rewrite spec_members_S in H |- *.
  destruct (skip_ws s) as [|b r0] eqn:Esk; [discriminate|].
  rewrite (skip_ws_app _ _ _ x Esk).
  destruct (b2n b =? cQUOTE); [|discriminate].
  destruct (spec_string f r0 []) as [[key r1]| | |] eqn:Es; try discriminate.
  rewrite (spec_string_app _ _ _ _ _ x Es).
  destruct (skip_ws r1) as [|b1 r2] eqn:Esk1; [discriminate|].
  rewrite (skip_ws_app _ _ _ x Esk1).
  destruct (b2n b1 =? cCOLON); [|discriminate].
  destruct (spec_value f r2) as [[v r3]| | |] eqn:Ev; try discriminate.
  destruct (skip_ws r3) as [|b3 r4] eqn:Esk3; [discriminate|].
  assert (Hdel : delim_ok r3 = true).
  { eapply skip_ws_delim; [exact Esk3|].
    destruct (b2n b3 =? cCOMMA); [reflexivity|]. destruct (b2n b3 =? cRBRACE); [reflexivity|discriminate]. }
  rewrite (HV _ _ _ x Ev (or_intror Hdel)), (skip_ws_app _ _ _ x Esk3).
  destruct (b2n b3 =? cCOMMA); [apply HM; exact H|].
  destruct (b2n b3 =? cRBRACE); [|discriminate]. injection H as <- <-. reflexivity.
Qed.

Theorem spec_ext_all : forall f, E_V f /\ E_E f /\ E_M f.
Proof.
  induction f as [|f (HV & HE & HM)].
  - split; [|split].
    + intros s d r x H. discriminate H.
    + intros s acc d r x H. discriminate H.
    + intros s acc d r x H. discriminate H.
  - split; [|split].
    + apply EV_step; assumption.
    + apply EE_step; assumption.
    + apply EM_step; assumption.
Qed.

(* the form used at the root *)
Theorem spec_value_ext f t d x :
  spec_value f t = SOk (d, []) -> is_container d = true -> spec_value f (t ++ x) = SOk (d, x).
Proof.
  intros H Hc. destruct (spec_ext_all f) as (HV & _ & _).
  exact (HV t d [] x H (or_introl Hc)).
Qed.

(* ------------------------------------------------------------------ *)
(* (2) normal form of an accepted NDJSON input                          *)

Definition bLF : byte := x0a.
Definition allws (w : bytes) : Prop := Forall (fun b => is_json_ws (b2n b) = true) w.
Definition nolf (s : bytes) : Prop := Forall (fun b => b2n b <> cLF) s.
Definition has_lf (s : bytes) : Prop := Exists (fun b => b2n b = cLF) s.

Fixpoint join_lf (ls : list bytes) : bytes :=
  match ls with
  | [] => []
  | l :: r => match r with [] => l | _ :: _ => l ++ bLF :: join_lf r end
  end.

Lemma join_lf_cons l r : r <> [] -> join_lf (l :: r) = l ++ bLF :: join_lf r.
Proof. destruct r; [congruence|reflexivity]. Qed.

Lemma split_lf_aux_spec : forall s cur, nolf cur ->
  join_lf (split_lf_aux s cur) = rev cur ++ s /\ Forall nolf (split_lf_aux s cur) /\ split_lf_aux s cur <> [].
Proof.
  induction s as [|b r IH]; intros cur Hc.
  - cbn [split_lf_aux join_lf]. rewrite app_nil_r. split; [reflexivity|]. split; [|discriminate].
    constructor; [apply Forall_rev; exact Hc|constructor].
  - cbn [split_lf_aux]. destruct (b2n b =? cLF) eqn:E.
    + destruct (IH [] (Forall_nil _)) as (A & B & C). cbn [rev app] in A.
      rewrite join_lf_cons by exact C. rewrite A.
      assert (b = bLF) by (apply b2n_inj; apply N.eqb_eq in E; rewrite E; reflexivity). subst b.
      split; [reflexivity|]. split; [|discriminate].
      constructor; [apply Forall_rev; exact Hc|exact B].
    + assert (Hc' : nolf (b :: cur)).
      { constructor; [apply N.eqb_neq; exact E|exact Hc]. }
      destruct (IH (b :: cur) Hc') as (A & B & C).
      split; [|split; assumption]. rewrite A. cbn [rev]. rewrite <- app_assoc. reflexivity.
Qed.

Lemma split_lf_spec s :
  join_lf (split_lf s) = s /\ Forall nolf (split_lf s) /\ split_lf s <> [].
Proof. exact (split_lf_aux_spec s [] (Forall_nil _)). Qed.

(* a byte at which both trims stop *)
Definition okb (b : byte) : Prop := is_json_ws (b2n b) = false /\ edge_unclaimed (b2n b) = false.

(* an LF-free text the specification accepts, as it stands *)
Definition good_doc (t : bytes) (d : doc) : Prop :=
  nolf t /\ spec_value (2 * length t + 2) t = SOk (d, []) /\ is_container d = true /\
  (exists b r, t = b :: r /\ okb b) /\ (exists r b, t = r ++ [b] /\ okb b).

Lemma nolf_app a b : nolf (a ++ b) -> nolf a /\ nolf b.
Proof. apply Forall_app. Qed.

Lemma spec_parse_line l d : spec_parse l = SOk d -> nolf l ->
  exists w t w2, l = w ++ t ++ w2 /\ allws w /\ allws w2 /\ good_doc t d.
Proof.
  intros H Hnl.
  destruct (spec_parse_ok l d H) as (Hv & Hc & _). cbv zeta in Hv.
  destruct (skip_ws_split l) as (w & Hl & Hw).
  destruct (rtrim_ws_split (skip_ws l)) as (w2 & Hu & Hw2).
  set (t := rtrim_ws (skip_ws l)) in *.
  exists w, t, w2. split; [rewrite <- Hu; exact Hl|]. split; [exact Hw|]. split; [exact Hw2|].
  rewrite Hl, Hu in Hnl. apply nolf_app in Hnl. destruct Hnl as [_ Hnl].
  apply nolf_app in Hnl. destruct Hnl as [Hnt _].
  split; [exact Hnt|]. split; [exact Hv|]. split; [exact Hc|].
  unfold spec_parse in H. fold t in H.
  destruct t as [|b t0] eqn:Et; [discriminate|].
  destruct (edge_unclaimed (b2n b) || edge_unclaimed (b2n (last (b :: t0) x00))) eqn:Ee; [discriminate|].
  apply orb_false_iff in Ee. destruct Ee as [Ee1 Ee2].
  split.
  - exists b, t0. split; [reflexivity|]. split; [|exact Ee1].
    cbn [app] in Hu. eapply skip_ws_head. exact Hu.
  - assert (Hr : skip_ws (rev (skip_ws l)) = rev (b :: t0)).
    { unfold t, rtrim_ws in Et. rewrite <- Et, rev_involutive. reflexivity. }
    rewrite last_rev_head in Ee2.
    destruct (rev (b :: t0)) as [|a r'] eqn:Erev.
    { apply (f_equal (@length byte)) in Erev. rewrite rev_length in Erev. discriminate. }
    exists (rev r'), a. split.
    + rewrite <- (rev_involutive (b :: t0)), Erev. reflexivity.
    + split; [eapply skip_ws_head; exact Hr|exact Ee2].
Qed.

Definition item := (bytes * doc * bytes)%type.
Definition it_t (i : item) : bytes := fst (fst i).
Definition it_d (i : item) : doc := snd (fst i).
Definition it_w (i : item) : bytes := snd i.

Fixpoint flat (l : list item) : bytes :=
  match l with [] => [] | i :: r => it_t i ++ it_w i ++ flat r end.

Definition item_ok (i : item) : Prop := good_doc (it_t i) (it_d i) /\ allws (it_w i).

Fixpoint seps_lf (l : list item) : Prop :=
  match l with [] => True | i :: r => (r <> [] -> has_lf (it_w i)) /\ seps_lf r end.

Lemma blank_allws l : is_blank_line l = true -> allws l.
Proof.
  unfold is_blank_line. intros H. destruct (skip_ws_split l) as (w & Hl & Hw).
  destruct (skip_ws l); [|discriminate]. rewrite app_nil_r in Hl. subst l. exact Hw.
Qed.

Lemma bLF_ws : is_json_ws (b2n bLF) = true.
Proof. reflexivity. Qed.

Lemma has_lf_mid a b : has_lf (a ++ bLF :: b).
Proof. apply Exists_app. right. constructor. reflexivity. Qed.

Lemma nd_lines_nf : forall ls acc ds, Forall nolf ls -> ls <> [] -> nd_lines ls acc = SOk ds ->
  exists W0 items, join_lf ls = W0 ++ flat items /\ allws W0 /\ Forall item_ok items /\ seps_lf items /\
    ds = rev acc ++ map it_d items.
Proof.
  induction ls as [|l r IH]; intros acc ds Hnl Hne H; [congruence|].
  inversion Hnl as [|? ? Hl Hr]; subst.
  cbn [nd_lines] in H.
  destruct r as [|l2 r2].
  - (* the last line *)
    cbn [join_lf].
    destruct (is_blank_line l) eqn:Eb.
    + cbn [nd_lines] in H. injection H as <-.
      exists l, []. cbn [flat map]. rewrite !app_nil_r.
      split; [reflexivity|]. split; [apply blank_allws; exact Eb|]. split; [constructor|]. split; [exact I|reflexivity].
    + destruct (spec_parse l) as [d| | |] eqn:Es; try discriminate.
      cbn [nd_lines] in H. injection H as <-.
      destruct (spec_parse_line l d Es Hl) as (w & t & w2 & El & Hw & Hw2 & Hg).
      exists w, [(t, d, w2)]. cbn [flat map it_t it_w it_d fst snd]. rewrite app_nil_r.
      split; [exact El|]. split; [exact Hw|].
      split; [constructor; [split; assumption|constructor]|].
      split; [split; [intros E; exfalso; apply E; reflexivity|exact I]|]. reflexivity.
  - assert (Hne2 : l2 :: r2 <> []) by discriminate.
    rewrite join_lf_cons by exact Hne2.
    destruct (is_blank_line l) eqn:Eb.
    + destruct (IH acc ds Hr Hne2 H) as (W0 & items & EJ & HW0 & Hok & Hsep & Hds).
      exists (l ++ bLF :: W0), items.
      split; [rewrite EJ, <- app_assoc; reflexivity|].
      split.
      { apply Forall_app. split; [apply blank_allws; exact Eb|]. constructor; [exact bLF_ws|exact HW0]. }
      split; [exact Hok|]. split; [exact Hsep|exact Hds].
    + destruct (spec_parse l) as [d| | |] eqn:Es; try discriminate.
      destruct (IH (d :: acc) ds Hr Hne2 H) as (W0 & items & EJ & HW0 & Hok & Hsep & Hds).
      destruct (spec_parse_line l d Es Hl) as (w & t & w2 & El & Hw & Hw2 & Hg).
      exists w, ((t, d, w2 ++ bLF :: W0) :: items).
      cbn [flat map it_t it_w it_d fst snd].
      split.
      { rewrite EJ, El. rewrite <- !app_assoc. cbn [app]. reflexivity. }
      split; [exact Hw|].
      split.
      { constructor; [|exact Hok]. split; [exact Hg|]. cbn [it_w snd].
        apply Forall_app. split; [exact Hw2|]. constructor; [exact bLF_ws|exact HW0]. }
      split; [split; [intros _; apply has_lf_mid|exact Hsep]|].
      rewrite Hds. cbn [rev]. rewrite <- app_assoc. reflexivity.
Qed.

Theorem nd_spec_nf bs ds : nd_spec bs = SOk ds ->
  exists W0 items, bs = W0 ++ flat items /\ allws W0 /\ Forall item_ok items /\ seps_lf items /\
    items <> [] /\ ds = map it_d items.
Proof.
  unfold nd_spec. intros H.
  destruct (existsb _ (split_lf bs)); [discriminate|].
  destruct (nd_lines (split_lf bs) []) as [ds'| | |] eqn:En; try discriminate.
  assert (ds' = ds /\ ds <> []).
  { destruct ds' as [|d0 ds0]; [discriminate|]. injection H as <-. split; [reflexivity|discriminate]. }
  destruct H0 as [-> Hne]. clear H.
  destruct (split_lf_spec bs) as (EJ & Hnl & Hls).
  destruct (nd_lines_nf _ _ _ Hnl Hls En) as (W0 & items & EJ' & HW0 & Hok & Hsep & Hds).
  cbn [rev app] in Hds.
  exists W0, items. split; [rewrite <- EJ; exact EJ'|]. split; [exact HW0|]. split; [exact Hok|].
  split; [exact Hsep|]. split; [|exact Hds].
  intros E. subst items. cbn [map] in Hds. congruence.
Qed.

(* --- the single trim ------------------------------------------------ *)

(* all separators but the last contain an LF; the last one is empty *)
Fixpoint seps_ok (l : list item) : Prop :=
  match l with
  | [] => True
  | i :: r => match r with [] => it_w i = [] | _ :: _ => has_lf (it_w i) end /\ seps_ok r
  end.

Fixpoint trim_last (l : list item) : list item :=
  match l with
  | [] => []
  | i :: r => match r with [] => [(it_t i, it_d i, [])] | _ :: _ => i :: trim_last r end
  end.

Lemma trim_last_spec : forall l, l <> [] -> Forall item_ok l -> seps_lf l ->
  exists w, flat l = flat (trim_last l) ++ w /\ allws w /\
    Forall item_ok (trim_last l) /\ seps_ok (trim_last l) /\ trim_last l <> [] /\
    map it_d (trim_last l) = map it_d l.
Proof.
  induction l as [|i r IH]; intros Hne Hok Hsep; [congruence|].
  inversion Hok as [|? ? Hi Hr]; subst. destruct Hsep as [Hs1 Hs2].
  destruct r as [|i2 r2].
  - exists (it_w i). cbn [trim_last flat it_t it_w it_d fst snd map]. rewrite !app_nil_r.
    split; [reflexivity|]. split; [apply Hi|].
    split; [constructor; [split; [apply Hi|constructor]|constructor]|].
    split; [split; [reflexivity|exact I]|]. split; [discriminate|reflexivity].
  - assert (Hne2 : i2 :: r2 <> []) by discriminate.
    destruct (IH Hne2 Hr Hs2) as (w & Ef & Hw & Hok' & Hsep' & Hne' & Hmap).
    exists w.
    change (trim_last (i :: i2 :: r2)) with (i :: trim_last (i2 :: r2)).
    change (flat (i :: i2 :: r2)) with (it_t i ++ it_w i ++ flat (i2 :: r2)).
    change (flat (i :: trim_last (i2 :: r2))) with (it_t i ++ it_w i ++ flat (trim_last (i2 :: r2))).
    change (map it_d (i :: trim_last (i2 :: r2))) with (it_d i :: map it_d (trim_last (i2 :: r2))).
    change (map it_d (i :: i2 :: r2)) with (it_d i :: map it_d (i2 :: r2)).
    rewrite Ef, <- !app_assoc.
    split; [reflexivity|]. split; [exact Hw|].
    split; [constructor; assumption|].
    split.
    { cbn [seps_ok]. destruct (trim_last (i2 :: r2)) eqn:Et; [congruence|].
      split; [apply Hs1; exact Hne2|exact Hsep']. }
    split; [discriminate|]. rewrite Hmap. reflexivity.
Qed.

Lemma flat_head l : l <> [] -> Forall item_ok l -> exists b r, flat l = b :: r /\ okb b.
Proof.
  destruct l as [|i r]; [congruence|]. intros _ Hok. inversion Hok as [|? ? Hi Hr]; subst.
  destruct Hi as [(_ & _ & _ & (b & t0 & Et & Hb) & _) _].
  exists b, (t0 ++ it_w i ++ flat r). cbn [flat]. rewrite Et. split; [reflexivity|exact Hb].
Qed.

Lemma flat_last : forall l, l <> [] -> Forall item_ok l -> seps_ok l -> exists r b, flat l = r ++ [b] /\ okb b.
Proof.
  induction l as [|i r IH]; intros Hne Hok Hsep; [congruence|].
  inversion Hok as [|? ? Hi Hr]; subst. destruct Hsep as [Hs1 Hs2].
  destruct r as [|i2 r2].
  - destruct Hi as [(_ & _ & _ & _ & (t0 & b & Et & Hb)) _].
    exists t0, b. cbn [flat]. rewrite Hs1, Et, !app_nil_r. split; [reflexivity|exact Hb].
  - destruct (IH ltac:(discriminate) Hr Hs2) as (r0 & b & Ef & Hb).
    exists (it_t i ++ it_w i ++ r0), b. cbn [flat] in Ef |- *. rewrite Ef, <- !app_assoc. split; [reflexivity|exact Hb].
Qed.

Lemma skip_ws_allws_app w s : allws w -> skip_ws (w ++ s) = skip_ws s.
Proof.
  induction 1 as [|b w Hb Hw IH]; [reflexivity|]. cbn [app skip_ws]. rewrite Hb. exact IH.
Qed.

Theorem nd_spec_msg bs ds : nd_spec bs = SOk ds ->
  exists items, trim_space_go bs = flat items /\ Forall item_ok items /\ seps_ok items /\
    items <> [] /\ ds = map it_d items /\ (length (flat items) <= length bs)%nat.
Proof.
  intros H. destruct (nd_spec_nf bs ds H) as (W0 & items0 & Ebs & HW0 & Hok0 & Hsep0 & Hne0 & Hds).
  destruct (trim_last_spec items0 Hne0 Hok0 Hsep0) as (w & Ef & Hw & Hok & Hsep & Hne & Hmap).
  set (items := trim_last items0) in *.
  destruct (flat_head items Hne Hok) as (b & r & Eh & Hb).
  destruct (flat_last items Hne Hok Hsep) as (r' & b' & El & Hb').
  assert (Hsk : skip_ws bs = flat items ++ w).
  { rewrite Ebs, skip_ws_allws_app by exact HW0. rewrite Ef, Eh. cbn [app]. apply skip_ws_nonws. apply Hb. }
  assert (Hrt : rtrim_ws (skip_ws bs) = flat items).
  { rewrite Hsk. unfold rtrim_ws. rewrite rev_app_distr.
    rewrite skip_ws_allws_app by (apply Forall_rev; exact Hw).
    rewrite El, rev_app_distr. cbn [rev app]. rewrite skip_ws_nonws by apply Hb'.
    cbn [rev]. rewrite rev_involutive. reflexivity. }
  exists items. split; [|split; [exact Hok|split; [exact Hsep|split; [exact Hne|split]]]].
  - rewrite <- Hrt. apply trim_agree_gen.
    + cbv zeta. rewrite Hrt. rewrite Eh. split; [apply Hb|].
      rewrite <- Eh, El. rewrite last_last. apply Hb'.
    + rewrite Hrt, Eh. discriminate.
  - rewrite Hds, Hmap. reflexivity.
  - rewrite Ebs, Ef, !app_length. lia.
Qed.
