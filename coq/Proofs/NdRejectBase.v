(* NdRejectBase.v — ingredients of the rejection direction for ParseND:
   (1) stage 1 in NDJSON mode: the state component of the fold does not
       depend on the mode; token lemmas for LF-free tokens carry over from the
       plain mode; inside a string an LF raises the error flag;
   (2) the index buffers of stage 1 in NDJSON mode, whatever the verdict;
   (3) locality of the token validators: the number lexer, the atom
       validators and the escape scanner give the same verdict when the text
       is extended by white space (the rest of the message after a line). *)
From Coq Require Import ZifyBool ZifyN ZifyNat.
From SJ Require Import Model.Base Model.RefTables Spec.Json Model.Number Model.Str Model.Stage1.
From SJ Require Import Proofs.StrArith Proofs.StrProofs Proofs.NumLex Proofs.NumberProofs Proofs.TrimProofs.
From SJ Require Import Model.Stage2 Model.Driver Model.Tape Proofs.AtomProofs.
From SJ Require Import Proofs.Stage1Proofs Proofs.Stage1Buffers Proofs.Stage2Base Proofs.Stage2Proofs.
From SJ Require Import Proofs.Stage1Reject Proofs.AcceptProofs Proofs.RejectProofs Proofs.NdSpec Proofs.NdStage1.
Open Scope N_scope.

(* ------------------------------------------------------------------ *)
(* (1) stage 1, NDJSON mode                                            *)

Lemma step_fst_nd st c : fst (s1_step true st c) = fst (s1_step false st c).
Proof. reflexivity. Qed.

Lemma fst_fold_nd : forall s st p, fst (s1_fold true st p s) = fst (s1_fold false st p s).
Proof.
  induction s as [|b r IH]; intros st p; [reflexivity|].
  cbn [s1_fold]. rewrite step_fst_nd.
  destruct (snd (s1_step true st (b2n b))), (snd (s1_step false st (b2n b))); cbn [consp fst]; apply IH.
Qed.

(* a token lemma of the plain mode, for an LF-free token, in NDJSON mode *)
Lemma fold_tok_nd tok st st2 p :
  nolf tok ->
  (forall r, s1_fold false st p (tok ++ r) = consp p (s1_fold false st2 (p + length tok) r)) ->
  forall r, s1_fold true st p (tok ++ r) = consp p (s1_fold true st2 (p + length tok) r).
Proof.
  intros Hnl H r. specialize (H []). rewrite app_nil_r in H. cbn [s1_fold consp fst snd] in H.
  rewrite s1_fold_app, (s1_fold_nolf tok st p Hnl), H. cbn [fst snd consp app]. reflexivity.
Qed.

(* skipping LF-free white space *)
Lemma fold_skip_nd : forall w pr, allws w -> nolf w ->
  exists pr', (pr = true -> pr' = true) /\ (w <> [] -> pr' = true) /\
    forall p s, s1_fold true (OutS pr) p (w ++ s) = s1_fold true (OutS pr') (p + length w) s.
Proof.
  induction w as [|b w IH]; intros pr Hw Hn.
  - exists pr. split; [auto|]. split; [congruence|]. intros p s. cbn [app length]. rewrite Nat.add_0_r. reflexivity.
  - inversion Hw as [|? ? Hb Hw']; subst. inversion Hn as [|? ? Hb2 Hn']; subst.
    destruct (IH true Hw' Hn') as (pr' & H1 & _ & H3).
    exists pr'. split; [intros _; apply H1; reflexivity|]. split; [intros _; apply H1; reflexivity|].
    intros p s. cbn [app]. rewrite fold_ws_nd by assumption. rewrite H3. cbn [length]. f_equal. lia.
Qed.

(* the first non-blank byte after a pseudo-predecessor, a markup byte or a
   quote is a structural position *)
Lemma step_struct_nd pr c :
  is_json_ws c = false -> (pr = true \/ is_markup c = true \/ c = cQUOTE) ->
  snd (s1_step true (OutS pr) c) = true.
Proof.
  intros Hw H. rewrite s1_step_nd.
  - apply step_struct; assumption.
  - intros E. rewrite E in Hw. discriminate.
Qed.

(* inside a string: a byte other than a quote stays inside; an LF raises the
   error flag *)
Lemma step_instr_keep nd st c : s_instr st = true -> (c =? cQUOTE) = false ->
  s_instr (fst (s1_step nd st c)) = true.
Proof.
  intros Hi Hq. unfold s1_step. cbn [fst s_instr]. rewrite Hi, Hq. reflexivity.
Qed.

Lemma step_instr_lf nd st : s_instr st = true -> s_err (fst (s1_step nd st cLF)) = true.
Proof.
  intros Hi. unfold s1_step. cbn [fst s_err]. rewrite Hi.
  change (cLF =? cQUOTE) with false. change (cLF <? 32) with true. cbn [andb xorb]. apply orb_true_r.
Qed.

Lemma fold_instr_ws nd : forall w st p, allws w -> s_instr st = true ->
  s_instr (fst (s1_fold nd st p w)) = true.
Proof.
  induction w as [|b w IH]; intros st p Hw Hi; [exact Hi|].
  inversion Hw as [|? ? Hb Hw']; subst.
  assert (Hq : (b2n b =? cQUOTE) = false) by (apply ws_codes in Hb; tauto).
  cbn [s1_fold]. destruct (snd (s1_step nd st (b2n b))); cbn [consp fst];
    apply IH; try assumption; apply step_instr_keep; assumption.
Qed.

(* the rest of a message after a line: LF-free white space, then the end of the
   message or an LF *)
Definition tail_ok (tail : bytes) : Prop :=
  exists w x, tail = w ++ x /\ allws w /\ nolf w /\ (x = [] \/ exists y, x = bLF :: y).

Lemma tail_ok_head tail : tail_ok tail ->
  match tail with [] => True | c :: _ => is_json_ws (b2n c) = true end.
Proof.
  intros (w & x & -> & Hw & _ & Hx). destruct w as [|c w].
  - destruct Hx as [-> | (y & ->)]; [exact I|reflexivity].
  - inversion Hw; assumption.
Qed.

(* a state inside a string, followed by such a tail, ends inside the string or
   with the error flag *)
Lemma fold_instr_tail nd st p tail : tail_ok tail -> s_instr st = true ->
  s_instr (fst (s1_fold nd st p tail)) = true \/ s_err (fst (s1_fold nd st p tail)) = true.
Proof.
  intros (w & x & -> & Hw & _ & Hx) Hi.
  rewrite s1_fold_app. cbn [fst].
  pose proof (fold_instr_ws nd w st p Hw Hi) as H1.
  destruct Hx as [-> | (y & ->)].
  - left. exact H1.
  - right. cbn [s1_fold].
    assert (E : s_err (fst (s1_step nd (fst (s1_fold nd st p w)) (b2n bLF))) = true) by (apply step_instr_lf; exact H1).
    destruct (snd (s1_step nd (fst (s1_fold nd st p w)) (b2n bLF))); cbn [consp fst]; apply s1_fold_err_sticky; exact E.
Qed.

(* ------------------------------------------------------------------ *)
(* (2) the index buffers in NDJSON mode                                *)

Theorem s1_buffers_gen_nd msg :
  msg <> [] ->
  let o := s1_buffers true msg in
  let fin := fst (s1_fold true s1_init 0 msg) in
  let ps := snd (s1_fold true s1_init 0 msg) in
  Forall nonempty (o_bufs o) /\
  (o_ok o = true -> concat (o_bufs o) = ps /\ s_instr fin = false /\ s_err fin = false).
Proof.
  intros Hne. cbv zeta. unfold s1_buffers, s1_all.
  destruct (s1_blocks_spec true (S (length msg / 64)) s1_init 0 msg) as (blocks & Hb & Hcat & Hl & _).
  { pose proof (Nat.div_mod (length msg) 64 ltac:(lia)) as D.
    pose proof (Nat.mod_upper_bound (length msg) 64 ltac:(lia)) as U. lia. }
  rewrite Hb.
  assert (Hrem : (0 < length msg)%nat) by (destruct msg; [congruence|cbn [length]; lia]).
  pose proof (Stage1Reject.s1_loop_gen msg (fst (s1_fold true s1_init 0 msg)) (S (length blocks)) (length msg) blocks None [] 0%nat
                Hrem Hl ltac:(lia) ltac:(constructor) ltac:(intros _; exact I)) as H.
  cbv zeta in H. cbn [rev concat app] in H. rewrite Hcat in H.
  destruct H as (A & _ & C). split; [exact A|exact C].
Qed.

(* ------------------------------------------------------------------ *)
(* (3) locality of the token validators                                *)

(* a text that is empty or starts with white space *)
Definition wsh (x : bytes) : Prop :=
  match x with [] => True | c :: _ => is_json_ws (b2n c) = true end.

Lemma ws_facts c : is_json_ws c = true ->
  is_digit c = false /\ (c =? cDOT) = false /\ (c =? c_e) = false /\ (c =? c_E) = false /\
  (c =? cMINUS) = false /\ (c =? cPLUS) = false /\ (c =? c_u) = false /\ hexval c = None /\
  escape_spec c = None.
Proof.
  intros H. unfold is_json_ws, cSPACE, cTAB, cLF, cCR in H.
  assert (E : c = 32 \/ c = 9 \/ c = 10 \/ c = 13) by lia.
  destruct E as [-> | [-> | [-> | ->]]]; repeat split; reflexivity.
Qed.

Lemma take_digits_ext : forall s acc x, wsh x ->
  take_digits (s ++ x) acc = (fst (take_digits s acc), snd (take_digits s acc) ++ x).
Proof.
  induction s as [|b r IH]; intros acc x Hx.
  - cbn [app take_digits fst snd]. destruct x as [|c x']; [reflexivity|].
    cbn [take_digits]. cbn [wsh] in Hx. apply ws_facts in Hx. destruct Hx as (-> & _). reflexivity.
  - cbn [app take_digits]. destruct (is_digit (b2n b)); [apply IH; exact Hx|reflexivity].
Qed.

Lemma lex_frac_ext s2 x : wsh x ->
  lex_frac (s2 ++ x) = match lex_frac s2 with Some (f, r) => Some (f, r ++ x) | None => None end.
Proof.
  intros Hx. destruct s2 as [|b r].
  - cbn [app lex_frac]. destruct x as [|c x']; [reflexivity|].
    cbn [lex_frac]. cbn [wsh] in Hx. apply ws_facts in Hx. destruct Hx as (_ & -> & _). reflexivity.
  - cbn [app lex_frac]. destruct (b2n b =? cDOT); [|reflexivity].
    rewrite (take_digits_ext r [] x Hx). destruct (take_digits r []) as [fp s3]. cbn [fst snd].
    destruct fp; reflexivity.
Qed.

Lemma lex_exp_ext s3 x : wsh x ->
  lex_exp (s3 ++ x) = match lex_exp s3 with Some (e, r) => Some (e, r ++ x) | None => None end.
Proof.
  intros Hx. destruct s3 as [|b r].
  - cbn [app lex_exp]. destruct x as [|c x']; [reflexivity|].
    cbn [lex_exp]. cbn [wsh] in Hx. apply ws_facts in Hx. destruct Hx as (_ & _ & -> & -> & _). reflexivity.
  - cbn [app lex_exp]. destruct ((b2n b =? c_e) || (b2n b =? c_E)); [|reflexivity].
    destruct r as [|c r'].
    + cbn [app]. destruct x as [|c x']; [reflexivity|].
      pose proof Hx as Hx'. cbn [wsh] in Hx'. apply ws_facts in Hx'.
      destruct Hx' as (Hd & _ & _ & _ & -> & -> & _).
      cbn [take_digits]. rewrite Hd. reflexivity.
    + cbn [app].
      destruct (b2n c =? cMINUS).
      { rewrite (take_digits_ext r' [] x Hx). destruct (take_digits r' []) as [ed s4]. cbn [fst snd]. destruct ed; reflexivity. }
      destruct (b2n c =? cPLUS).
      { rewrite (take_digits_ext r' [] x Hx). destruct (take_digits r' []) as [ed s4]. cbn [fst snd]. destruct ed; reflexivity. }
      change (c :: r' ++ x) with ((c :: r') ++ x).
      rewrite (take_digits_ext (c :: r') [] x Hx). destruct (take_digits (c :: r') []) as [ed s4]. cbn [fst snd].
      destruct ed; reflexivity.
Qed.

Theorem lex_number_ext s x : s <> [] -> wsh x ->
  lex_number (s ++ x) = match lex_number s with Some (l, r) => Some (l, r ++ x) | None => None end.
Proof.
  intros Hs Hx. rewrite !lex_number_unfold.
  destruct s as [|b r]; [congruence|]. cbn [app].
  destruct (b2n b =? cMINUS).
  - rewrite (take_digits_ext r [] x Hx). destruct (take_digits r []) as [ip s2]. cbn [fst snd].
    destruct ip as [|d0 rest]; [reflexivity|].
    destruct ((d0 =? 0) && negb (match rest with [] => true | _ => false end)); [reflexivity|].
    rewrite (lex_frac_ext s2 x Hx). destruct (lex_frac s2) as [[frac s3]|]; [|reflexivity].
    rewrite (lex_exp_ext s3 x Hx). destruct (lex_exp s3) as [[e s4]|]; reflexivity.
  - change (b :: r ++ x) with ((b :: r) ++ x).
    rewrite (take_digits_ext (b :: r) [] x Hx). destruct (take_digits (b :: r) []) as [ip s2]. cbn [fst snd].
    destruct ip as [|d0 rest]; [reflexivity|].
    destruct ((d0 =? 0) && negb (match rest with [] => true | _ => false end)); [reflexivity|].
    rewrite (lex_frac_ext s2 x Hx). destruct (lex_frac s2) as [[frac s3]|]; [|reflexivity].
    rewrite (lex_exp_ext s3 x Hx). destruct (lex_exp s3) as [[e s4]|]; reflexivity.
Qed.

Lemma rest_ok_ext r x : wsh x -> rest_ok (r ++ x) = rest_ok r.
Proof.
  intros Hx. destruct r as [|b r]; [|reflexivity]. cbn [app rest_ok].
  destruct x as [|c x']; [reflexivity|]. cbn [wsh] in Hx. cbn [rest_ok]. unfold is_eov_byte. cbv zeta. rewrite Hx.
  rewrite !orb_true_r. reflexivity.
Qed.

(* atoms: a literal of non-blank bytes heading the extended text heads the text *)
Lemma app_prefix_ws : forall (p s x rest : bytes),
  s ++ x = p ++ rest -> Forall (fun b => is_json_ws (b2n b) = false) p -> wsh x ->
  exists rest', s = p ++ rest'.
Proof.
  induction p as [|a p IH]; intros s x rest H Hp Hx.
  - exists s. reflexivity.
  - inversion Hp as [|? ? Ha Hp']; subst.
    destruct s as [|b s'].
    + cbn [app] in H. destruct x as [|c x']; [discriminate|]. injection H as -> _.
      cbn [wsh] in Hx. congruence.
    + cbn [app] in H. injection H as -> H. destruct (IH s' x rest H Hp' Hx) as (rest' & ->).
      exists rest'. reflexivity.
Qed.

Lemma follows_ok_ext r x : r <> [] -> follows_ok (r ++ x) = follows_ok r.
Proof. destruct r; [congruence|reflexivity]. Qed.

(* the escape scanner *)
Lemma hex4_none_1 a b c d : hexval (b2n a) = None -> hex4_spec a b c d = None.
Proof. unfold hex4_spec. intros ->. reflexivity. Qed.
Lemma hex4_none_2 a b c d : hexval (b2n b) = None -> hex4_spec a b c d = None.
Proof. unfold hex4_spec. intros ->. destruct (hexval (b2n a)); reflexivity. Qed.
Lemma hex4_none_3 a b c d : hexval (b2n c) = None -> hex4_spec a b c d = None.
Proof. unfold hex4_spec. intros ->. destruct (hexval (b2n a)), (hexval (b2n b)); reflexivity. Qed.
Lemma hex4_none_4 a b c d : hexval (b2n d) = None -> hex4_spec a b c d = None.
Proof. unfold hex4_spec. intros ->. destruct (hexval (b2n a)), (hexval (b2n b)), (hexval (b2n c)); reflexivity. Qed.

Lemma esc_tok_invalid_app p x : p <> [] -> wsh x -> esc_tok p = TInvalid -> esc_tok (p ++ x) = TInvalid.
Proof.
  intros Hp Hx H.
  destruct p as [|b [|e r2]]; [congruence| |].
  - (* a lone backslash *)
    cbn [app]. destruct x as [|c x']; [reflexivity|].
    cbn [wsh] in Hx. apply ws_facts in Hx. destruct Hx as (_ & _ & _ & _ & _ & _ & Hu & _ & He).
    unfold esc_tok. rewrite Hu, He. reflexivity.
  - cbn [app]. unfold esc_tok in H |- *.
    destruct (b2n e =? c_u); [|exact H].
    destruct r2 as [|h0 [|h1 [|h2 [|h3 r3]]]].
    + cbn [app]. destruct x as [|c [|c1 [|c2 [|c3 x']]]]; try reflexivity.
      cbn [wsh] in Hx. apply ws_facts in Hx. destruct Hx as (_ & _ & _ & _ & _ & _ & _ & Hh & _).
      rewrite (hex4_none_1 _ _ _ _ Hh). reflexivity.
    + cbn [app]. destruct x as [|c [|c1 [|c2 x']]]; try reflexivity.
      cbn [wsh] in Hx. apply ws_facts in Hx. destruct Hx as (_ & _ & _ & _ & _ & _ & _ & Hh & _).
      rewrite (hex4_none_2 _ _ _ _ Hh). reflexivity.
    + cbn [app]. destruct x as [|c [|c1 x']]; try reflexivity.
      cbn [wsh] in Hx. apply ws_facts in Hx. destruct Hx as (_ & _ & _ & _ & _ & _ & _ & Hh & _).
      rewrite (hex4_none_3 _ _ _ _ Hh). reflexivity.
    + cbn [app]. destruct x as [|c x']; try reflexivity.
      cbn [wsh] in Hx. apply ws_facts in Hx. destruct Hx as (_ & _ & _ & _ & _ & _ & _ & Hh & _).
      rewrite (hex4_none_4 _ _ _ _ Hh). reflexivity.
    + cbn [app].
      destruct (hex4_spec h0 h1 h2 h3) as [cu|]; [|reflexivity].
      destruct ((55296 <=? cu) && (cu <=? 56319)).
      { destruct r3 as [|s0 [|s1 [|l0 [|l1 [|l2 [|l3 r4]]]]]]; try discriminate H.
        cbn [app].
        destruct ((b2n s0 =? cBSLASH) && (b2n s1 =? c_u)); [|discriminate H].
        destruct (hex4_spec l0 l1 l2 l3) as [lo|]; [|discriminate H].
        destruct ((56320 <=? lo) && (lo <=? 57343)); discriminate H. }
      destruct ((56320 <=? cu) && (cu <=? 57343)); discriminate H.
Qed.
