(* SerDenTotal.v — a well-formed tape (NOP runs allowed) that contains at
   least one word that is not a NOP has a denotation: the fuel of [denote]
   suffices.  (A tape made only of NOP runs can exhaust it: see the
   counterexample at the end.) *)
From Coq Require Import ZifyBool ZifyN ZifyNat.
From SJ Require Import Model.Base Model.RefTables Spec.Json Model.Tape Model.Iter Model.WF Model.Serialize.
From SJ Require Import Proofs.StrArith Proofs.Stage2Base Proofs.DeserSafe Proofs.SerBase Proofs.SerFlat Proofs.SerDen Proofs.SerSteps.
Open Scope N_scope.

Lemma skip_nops_nruns : forall ns, nruns ns -> forall r g i, head_not_nop r -> (length ns < g)%nat ->
  skip_nops g i (ns ++ r) = Some (i + N.of_nat (length ns), r).
Proof.
  induction 1 as [|k ns Hk Hk2 Hns IH]; intros r g i Hh Hg.
  - destruct g as [|g]; [lia|]. cbn [app length]. rewrite skip_nops_head by exact Hh. f_equal. f_equal. lia.
  - destruct g as [|g]; [lia|]. rewrite app_length, nrun_length in Hg.
    rewrite <- app_assoc. rewrite skip_nrun_step by assumption.
    rewrite IH by (try exact Hh; lia). rewrite app_length, nrun_length. f_equal. f_equal. lia.
Qed.

Section Total.
Variables (msg strs : bytes) (nops : bool).
Notation nmsg := (N.of_nat (length msg)).
Notation nstr := (N.of_nat (length strs)).

Lemma str_ok_string_at' p len : str_ok nmsg nstr p len = true -> exists s, string_at msg strs p len = Some s.
Proof.
  unfold str_ok, string_at, slice. destruct (N.land p STRINGBUFBIT =? 0); intros H; rewrite H; eauto.
Qed.

Lemma skip_runs_nops f i rest j r : skip_runs nops f i rest = Some (j, r) ->
  exists ns, rest = ns ++ r /\ j = i + N.of_nat (length ns) /\ head_not_nop r /\
    (forall g, (length ns < g)%nat -> skip_nops g i rest = Some (j, r)) /\ nruns ns.
Proof.
  intros H. destruct (skip_runs_spec _ _ _ _ _ _ H) as (ns & -> & Hns & -> & Hh).
  exists ns. repeat split; try assumption.
  intros g Hg. apply skip_nops_nruns; assumption.
Qed.

Definition WV (f : nat) : Prop := forall i rest j r, wf_value nmsg nstr nops f i rest = Some (j, r) ->
  exists pre, rest = pre ++ r /\ j = i + N.of_nat (length pre) /\ (1 <= length pre)%nat /\
    forall g, (length pre < g)%nat -> exists d, den_value msg strs g i rest = Some (d, j, r).
Definition WE (f : nat) : Prop := forall start i rest endp1 j r,
  wf_elems nmsg nstr nops f start i rest endp1 = Some (j, r) ->
  exists pre, rest = pre ++ r /\ j = i + N.of_nat (length pre) /\ j = endp1 /\ (1 <= length pre)%nat /\
    forall g acc, (length pre < g)%nat -> exists l, den_elems msg strs g i rest acc = Some (l, j, r).
Definition WM (f : nat) : Prop := forall start i rest endp1 j r,
  wf_members nmsg nstr nops f start i rest endp1 = Some (j, r) ->
  exists pre, rest = pre ++ r /\ j = i + N.of_nat (length pre) /\ j = endp1 /\ (1 <= length pre)%nat /\
    forall g acc, (length pre < g)%nat -> exists l, den_members msg strs g i rest acc = Some (l, j, r).

Lemma wf_den : forall f, WV f /\ WE f /\ WM f.
Proof.
  induction f as [|f (IHv & IHe & IHm)].
  { repeat split; intros ? **; discriminate. }
  split; [|split].
  - (* value *)
    intros i rest j r H. rewrite wf_value_S in H.
    destruct rest as [|w r0]; [discriminate|]. cbv zeta in H.
    destruct (word_tag w =? TagString) eqn:E1.
    { destruct r0 as [|len r']; [discriminate|].
      destruct (str_ok nmsg nstr (word_val w) len) eqn:Es; [|discriminate].
      injection H as <- <-. apply N.eqb_eq in E1.
      destruct (str_ok_string_at' _ _ Es) as [s Hs].
      exists [w; len]. cbn [length app]. repeat split; try lia.
      intros g Hg. destruct g as [|g]; [lia|]. exists (DStr s). apply den_value_string; assumption. }
    destruct ((word_tag w =? TagInteger) || (word_tag w =? TagUint)) eqn:E2.
    { destruct r0 as [|x r']; [discriminate|].
      destruct (word_val w =? 0) eqn:Ev; [|discriminate].
      injection H as <- <-.
      exists [w; x]. cbn [length app]. repeat split; try lia.
      intros g Hg. destruct g as [|g]; [lia|].
      apply orb_true_iff in E2. destruct E2 as [E2|E2]; apply N.eqb_eq in E2.
      - eexists. apply den_value_int. exact E2.
      - eexists. apply den_value_uint. exact E2. }
    destruct (word_tag w =? TagFloat) eqn:E3.
    { destruct r0 as [|x r']; [discriminate|].
      injection H as <- <-. apply N.eqb_eq in E3.
      exists [w; x]. cbn [length app]. repeat split; try lia.
      intros g Hg. destruct g as [|g]; [lia|]. eexists. apply den_value_float. exact E3. }
    destruct ((word_tag w =? TagNull) || (word_tag w =? TagBoolTrue) || (word_tag w =? TagBoolFalse)) eqn:E4.
    { destruct (word_val w =? 0) eqn:Ev; [|discriminate].
      injection H as <- <-.
      exists [w]. cbn [length app]. repeat split; try lia.
      intros g Hg. destruct g as [|g]; [lia|].
      apply orb_true_iff in E4. destruct E4 as [E4|E4]; [apply orb_true_iff in E4; destruct E4 as [E4|E4]|];
        apply N.eqb_eq in E4.
      - eexists. apply den_value_null. exact E4.
      - eexists. apply den_value_true. exact E4.
      - eexists. apply den_value_false. exact E4. }
    destruct (word_tag w =? TagArrayStart) eqn:E5.
    { apply N.eqb_eq in E5.
      destruct (IHe _ _ _ _ _ _ H) as (pre & -> & Hj & Hend & Hpre & Hden).
      exists (w :: pre). cbn [length app]. repeat split; try lia.
      intros g Hg. destruct g as [|g]; [lia|].
      destruct (Hden g [] ltac:(lia)) as [l Hl].
      rewrite den_value_arr by exact E5. rewrite Hl. rewrite Hend, N.eqb_refl. eauto. }
    destruct (word_tag w =? TagObjectStart) eqn:E6; [|discriminate].
    apply N.eqb_eq in E6.
    destruct (IHm _ _ _ _ _ _ H) as (pre & -> & Hj & Hend & Hpre & Hden).
    exists (w :: pre). cbn [length app]. repeat split; try lia.
    intros g Hg. destruct g as [|g]; [lia|].
    destruct (Hden g [] ltac:(lia)) as [l Hl].
    rewrite den_value_obj by exact E6. rewrite Hl. rewrite Hend, N.eqb_refl. eauto.
  - (* elements *)
    intros start i rest endp1 j r H. rewrite wf_elems_S in H.
    destruct (skip_runs nops f i rest) as [[i' rest']|] eqn:Esk; [|discriminate].
    destruct (skip_runs_nops _ _ _ _ _ Esk) as (ns & -> & Hi' & Hh & Hskip & Hns).
    destruct rest' as [|w r1]; [discriminate|].
    destruct (word_tag w =? TagArrayEnd) eqn:Ee.
    { destruct ((word_val w =? start) && (i' + 1 =? endp1)) eqn:Ec; [|discriminate].
      injection H as <- <-. apply andb_true_iff in Ec. destruct Ec as [Ev Ep]. apply N.eqb_eq in Ep.
      exists (ns ++ [w]). rewrite <- app_assoc. cbn [app]. rewrite app_length. cbn [length].
      repeat split; try lia.
      intros g acc Hg. destruct g as [|g]; [lia|].
      rewrite den_elems_S. rewrite Hskip by lia. rewrite Ee. eauto. }
    destruct (wf_value nmsg nstr nops f i' (w :: r1)) as [[j1 r']|] eqn:Ev; [|discriminate].
    destruct (j1 <? endp1) eqn:Elt; [|discriminate].
    destruct (IHv _ _ _ _ Ev) as (pv & Hpv & Hj1 & Hpv1 & Hdv).
    destruct (IHe _ _ _ _ _ _ H) as (pe & Hpe & Hj & Hend & Hpe1 & Hde).
    exists (ns ++ pv ++ pe). rewrite Hpv, Hpe, <- !app_assoc. rewrite !app_length.
    repeat split; try lia.
    intros g acc Hg. destruct g as [|g]; [lia|].
    rewrite den_elems_S. rewrite <- Hpe, <- Hpv. rewrite Hskip by lia. rewrite Ee.
    destruct (Hdv g ltac:(lia)) as [d Hd]. rewrite Hd.
    apply Hde. lia.
  - (* members *)
    intros start i rest endp1 j r H. rewrite wf_members_S in H.
    destruct (skip_runs nops f i rest) as [[i' rest']|] eqn:Esk; [|discriminate].
    destruct (skip_runs_nops _ _ _ _ _ Esk) as (ns & -> & Hi' & Hh & Hskip & Hns).
    destruct rest' as [|w r1]; [discriminate|].
    destruct (word_tag w =? TagObjectEnd) eqn:Ee.
    { destruct ((word_val w =? start) && (i' + 1 =? endp1)) eqn:Ec; [|discriminate].
      injection H as <- <-. apply andb_true_iff in Ec. destruct Ec as [Ev Ep]. apply N.eqb_eq in Ep.
      exists (ns ++ [w]). rewrite <- app_assoc. cbn [app]. rewrite app_length. cbn [length].
      repeat split; try lia.
      intros g acc Hg. destruct g as [|g]; [lia|].
      rewrite den_members_S. rewrite Hskip by lia. rewrite Ee. eauto. }
    destruct (word_tag w =? TagString) eqn:Es; [|discriminate].
    destruct r1 as [|len r1]; [discriminate|].
    destruct (str_ok nmsg nstr (word_val w) len) eqn:Eok; [|discriminate].
    destruct (str_ok_string_at' _ _ Eok) as [k Hk].
    destruct (skip_runs nops f (i' + 2) r1) as [[i2 r2]|] eqn:Esk2; [|discriminate].
    destruct (skip_runs_nops _ _ _ _ _ Esk2) as (ns2 & Hr1 & Hi2 & Hh2 & Hskip2 & Hns2).
    destruct (wf_value nmsg nstr nops f i2 r2) as [[j1 r']|] eqn:Ev; [|discriminate].
    destruct (j1 <? endp1) eqn:Elt; [|discriminate].
    destruct (IHv _ _ _ _ Ev) as (pv & Hpv & Hj1 & Hpv1 & Hdv).
    destruct (IHm _ _ _ _ _ _ H) as (pe & Hpe & Hj & Hend & Hpe1 & Hde).
    exists (ns ++ w :: len :: ns2 ++ pv ++ pe).
    rewrite Hr1, Hpv, Hpe. rewrite <- !app_assoc. cbn [app]. rewrite <- !app_assoc.
    rewrite !app_length. cbn [length]. rewrite !app_length.
    repeat split; try lia.
    intros g acc Hg. destruct g as [|g]; [lia|].
    rewrite den_members_S. rewrite <- Hpe, <- Hpv, <- Hr1. rewrite Hskip by lia. rewrite Ee, Es, Hk.
    rewrite Hskip2 by lia.
    destruct (Hdv g ltac:(lia)) as [d Hd]. rewrite Hd.
    apply Hde. lia.
Qed.

Definition has_non_nop (l : list N) : Prop := Exists (fun w => (word_tag w =? TagNop) = false) l.

Lemma nruns_no_non_nop ns : nruns ns -> ~ has_non_nop ns.
Proof.
  intros Hns Hex. unfold has_non_nop in Hex. apply Exists_exists in Hex. destruct Hex as (w & Hin & Hw).
  pose proof (nruns_all_nop ns Hns) as Hall.
  rewrite Forall_forall in Hall. rewrite (Hall _ Hin) in Hw. discriminate.
Qed.

Lemma wf_roots_den : forall f i rest, wf_roots nmsg nstr nops f i rest = true ->
  forall g acc, ((length rest + 1 < g) \/ (length rest < g /\ has_non_nop rest))%nat ->
  exists l, den_roots msg strs g i rest acc = Some l.
Proof.
  induction f as [|f IH]; intros i rest H g acc Hg; [discriminate|].
  rewrite wf_roots_S in H.
  destruct (skip_runs nops f i rest) as [[i' rest']|] eqn:Esk; [|discriminate].
  destruct (skip_runs_nops _ _ _ _ _ Esk) as (ns & -> & Hi' & Hh & Hskip & Hns).
  rewrite app_length in Hg.
  assert (Hg' : (length ns + 1 < g)%nat).
  { destruct Hg as [Hg|[Hg Hex]]; [lia|].
    destruct rest' as [|w r]; [|cbn [length] in Hg; lia].
    exfalso. rewrite app_nil_r in Hex. apply (nruns_no_non_nop _ Hns Hex). }
  destruct g as [|g]; [lia|].
  rewrite den_roots_S. rewrite Hskip by lia.
  destruct rest' as [|w r]; [eauto|].
  destruct (word_tag w =? TagRoot) eqn:Et; [|discriminate].
  destruct (skip_runs nops f (i' + 1) r) as [[i1 r1]|] eqn:Esk1; [|discriminate].
  destruct (skip_runs_nops _ _ _ _ _ Esk1) as (ns1 & Hr & Hi1 & Hh1 & Hskip1 & Hns1).
  destruct (wf_value nmsg nstr nops f i1 r1) as [[j r2]|] eqn:Ev; [|discriminate].
  destruct (proj1 (wf_den f) _ _ _ _ Ev) as (pv & Hpv & Hj & Hpv1 & Hdv).
  destruct (skip_runs nops f j r2) as [[j' [|c r3]]|] eqn:Esk2; try discriminate.
  destruct (skip_runs_nops _ _ _ _ _ Esk2) as (ns2 & Hr2 & Hj' & Hh2 & Hskip2 & Hns2).
  apply andb_true_iff in H. destruct H as [Hchk Hroots].
  assert (Hlen : (length (w :: r) = 1 + length ns1 + length pv + length ns2 + 1 + length r3)%nat).
  { rewrite Hr, Hpv, Hr2. cbn [length]. rewrite !app_length. cbn [length]. lia. }
  rewrite Hlen in Hg.
  rewrite Hskip1 by lia.
  destruct (Hdv g ltac:(lia)) as [d Hd]. rewrite Hd.
  rewrite Hskip2 by lia. rewrite Hchk.
  apply (IH _ _ Hroots). left. lia.
Qed.

Theorem wf_denote_total pj : wf_check nops pj = true -> pj_msg pj = msg -> pj_strings pj = strs ->
  has_non_nop (pj_tape pj) -> exists d, denote msg strs (pj_tape pj) = Some d.
Proof.
  unfold wf_check, denote. intros H Hm Hs Hex. rewrite Hm, Hs in H.
  apply (wf_roots_den _ _ _ H). right. split; [lia|exact Hex].
Qed.

End Total.

Theorem wf_denote_some nops pj : wf_check nops pj = true ->
  Exists (fun w => (word_tag w =? TagNop) = false) (pj_tape pj) ->
  exists d, denote (pj_msg pj) (pj_strings pj) (pj_tape pj) = Some d.
Proof. intros H Hex. apply (wf_denote_total (pj_msg pj) (pj_strings pj) nops pj H eq_refl eq_refl Hex). Qed.

(* the hypothesis is needed: two adjacent one-word NOP runs and nothing else
   is a well-formed tape (with NOPs allowed) on which [denote] runs out of
   fuel *)
Example denote_fuel_counterexample :
  let pj := {| pj_tape := [mk_word TagNop 1; mk_word TagNop 1]; pj_strings := []; pj_msg := [] |} in
  wf_check true pj = true /\ denote (pj_msg pj) (pj_strings pj) (pj_tape pj) = None.
Proof. vm_compute. split; reflexivity. Qed.

Print Assumptions wf_denote_some.
