(* ApiAgree.v — the read, marshal and serialize theorems composed: on every
   tape reachable by parsing and any sequence of in-place edits (tape_ok, NOP
   gaps included) plain traversal, Interface(), MarshalJSON and a
   Serialize/Deserialize round trip all expose the SAME document list, the
   tape's denotation.  Used by C13 and C14 ("every read, marshal and serialize
   API reflects the new values / agrees after deletion"). *)
From SJ Require Import Model.Base Model.RefTables Spec.Json Model.Tape Model.Iter Model.Walk Model.WF Model.Marshal Model.Serialize
     Proofs.TapeProofs Proofs.LookupBase Proofs.LookupIface Proofs.LookupFinal Proofs.MarshalProofsBase Proofs.MarshalProofsRefine Proofs.MarshalFinal
     Proofs.SerBase Proofs.SerProofs.
Open Scope N_scope.

Theorem every_api_agrees : forall pj ds,
  N.of_nat (length (pj_msg pj)) < two64 -> N.of_nat (length (pj_strings pj)) < two64 ->
  tape_ok pj -> denote (pj_msg pj) (pj_strings pj) (pj_tape pj) = Some ds ->
  (* plain traversal *)
  walk_doc pj = Ok ds /\
  (* Interface() *)
  interface_doc pj = match ds with [] => Err | _ => Ok (map doc_ival ds) end /\
  (* MarshalJSON: the document-level printer of ds *)
  marshal_iter pj (iter0 pj) = marshal_spec ds /\
  (* Serialize then Deserialize, for every string hash *)
  (forall (hash : bytes -> N) tags vals strbuf,
     N.of_nat (length (pj_tape pj)) < two56 -> Forall (fun w => w < two64) (pj_tape pj) ->
     ser_core hash pj = Ok (tags, vals, strbuf) -> N.of_nat (length strbuf) < STRINGBUFBIT ->
     exists t', deser_core (repeat 0 (length (pj_tape pj))) tags (bytes_of_words vals) = Ok t' /\
                denote strbuf [] t' = Some ds).
Proof.
  intros pj ds Bm Bs Hok Hden. repeat split.
  - apply walk_doc_tape_ok; assumption.
  - apply C12_interface_doc; [split; assumption | assumption | assumption].
  - apply C10a_marshal_refines; assumption.
  - intros hash tags vals strbuf Hl Hw Hser Hsb.
    destruct (ser_deser_roundtrip hash true pj tags vals strbuf (tape_ok_wf pj Hok) Hl Hw Hser Hsb) as (t' & Hd & _ & Hden').
    exists t'. split; [exact Hd | exact (Hden' ds Hden)].
Qed.
