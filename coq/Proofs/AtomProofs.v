(* The three atom validators of stage 2 accept exactly the literal followed by
   a structural or white-space byte. *)
From SJ Require Import Model.Base Model.RefTables Model.Stage2.
From Coq Require Import ZifyBool ZifyN.
Open Scope N_scope.

Definition follows_ok (rest : bytes) : bool :=
  match rest with
  | [] => false
  | b :: _ => is_json_ws (b2n b) || is_markup (b2n b)
  end.

Lemma follow_ok_spec c : follow_ok c = is_json_ws c || is_markup c.
Proof. unfold follow_ok, follow_ref. destruct (is_json_ws c || is_markup c); reflexivity. Qed.

Lemma b2n_inj a b : b2n a = b2n b -> a = b.
Proof.
  unfold b2n. intros H.
  assert (E : Byte.of_N (Byte.to_N a) = Byte.of_N (Byte.to_N b)) by (rewrite H; reflexivity).
  rewrite !Byte.of_to_N in E. injection E; auto.
Qed.

Lemma true_atom_spec buf :
  is_true_atom buf = true <-> exists rest, buf = of_codes [116; 114; 117; 101] ++ rest /\ follows_ok rest = true.
Proof.
  split.
  - destruct buf as [|a [|b [|c [|d [|e r]]]]]; cbn [is_true_atom]; try discriminate.
    intros H. rewrite !andb_true_iff in H. destruct H as ((((Ha & Hb) & Hc) & Hd) & He).
    exists (e :: r). split.
    + cbn. repeat f_equal; apply b2n_inj; cbn; lia.
    + cbn [follows_ok]. rewrite <- follow_ok_spec. exact He.
  - intros (rest & -> & Hf). destruct rest as [|e r]; [discriminate|].
    cbn. cbn [follows_ok] in Hf. rewrite <- follow_ok_spec in Hf. exact Hf.
Qed.

Lemma null_atom_spec buf :
  is_null_atom buf = true <-> exists rest, buf = of_codes [110; 117; 108; 108] ++ rest /\ follows_ok rest = true.
Proof.
  split.
  - destruct buf as [|a [|b [|c [|d [|e r]]]]]; cbn [is_null_atom]; try discriminate.
    intros H. rewrite !andb_true_iff in H. destruct H as ((((Ha & Hb) & Hc) & Hd) & He).
    exists (e :: r). split.
    + cbn. repeat f_equal; apply b2n_inj; cbn; lia.
    + cbn [follows_ok]. rewrite <- follow_ok_spec. exact He.
  - intros (rest & -> & Hf). destruct rest as [|e r]; [discriminate|].
    cbn. cbn [follows_ok] in Hf. rewrite <- follow_ok_spec in Hf. exact Hf.
Qed.

Lemma false_atom_spec buf :
  is_false_atom buf = true <-> exists rest, buf = of_codes [102; 97; 108; 115; 101] ++ rest /\ follows_ok rest = true.
Proof.
  split.
  - destruct buf as [|a [|b [|c [|d [|e [|f r]]]]]]; cbn [is_false_atom]; try discriminate.
    intros H. rewrite !andb_true_iff in H. destruct H as (((((Ha & Hb) & Hc) & Hd) & He) & Hf).
    exists (f :: r). split.
    + cbn. repeat f_equal; apply b2n_inj; cbn; lia.
    + cbn [follows_ok]. rewrite <- follow_ok_spec. exact Hf.
  - intros (rest & -> & Hf). destruct rest as [|e r]; [discriminate|].
    cbn. cbn [follows_ok] in Hf. rewrite <- follow_ok_spec in Hf. exact Hf.
Qed.
