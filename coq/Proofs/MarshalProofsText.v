(* MarshalProofsText.v — property C10, layers (b) and (c) on documents:
   the printed text is valid JSON for the specification (spec_value /
   spec_parse / nd_spec), denotes [redoc d] which is [d] up to num_equiv, and
   printing [redoc d] gives the same text again unless d contains -0.0. *)
From Coq Require Import ZArith NArith List Bool Lia ZifyBool ZifyN ZifyNat.
From Coq.Strings Require Import Byte.
From Coq Require Import Floats.SpecFloat.
From SJ Require Import Model.Base Model.RefTables Spec.Json Model.Number Model.Iter Model.FloatFmt.
From SJ Require Import Proofs.NumLex Proofs.NumberProofs Proofs.NumberFinal Proofs.AtomProofs
     Proofs.EscapeProofs Proofs.FloatFmtText Proofs.FloatFmtProofs Proofs.NdSpec.
From SJ Require Import Model.Marshal Proofs.MarshalProofsBase Proofs.MarshalProofsNum.
Import ListNotations.
Local Open Scope nat_scope.

(* ------------------------------------------------------------------ *)
(* induction on documents                                               *)

Section DocInd.
Variable P : doc -> Prop.
Hypothesis Hnull : P DNull.
Hypothesis Hbool : forall b, P (DBool b).
Hypothesis Hnum : forall n, P (DNum n).
Hypothesis Hstr : forall s, P (DStr s).
Hypothesis Harr : forall l, Forall P l -> P (DArr l).
Hypothesis Hobj : forall l, Forall (fun kv => P (snd kv)) l -> P (DObj l).

Fixpoint doc_ind2 (d : doc) : P d :=
  match d with
  | DNull => Hnull
  | DBool b => Hbool b
  | DNum n => Hnum n
  | DStr s => Hstr s
  | DArr l =>
    Harr l ((fix go (l : list doc) : Forall P l :=
               match l with
               | [] => Forall_nil _
               | x :: r => Forall_cons x (doc_ind2 x) (go r)
               end) l)
  | DObj l =>
    Hobj l ((fix go (l : list (bytes * doc)) : Forall (fun kv => P (snd kv)) l :=
               match l with
               | [] => Forall_nil _
               | kv :: r => Forall_cons kv (doc_ind2 (snd kv)) (go r)
               end) l)
  end.
End DocInd.

(* ------------------------------------------------------------------ *)
(* the document a text denotes, hypotheses, the relation                *)

Fixpoint redoc (d : doc) : doc :=
  match d with
  | DNum n => DNum (renum n)
  | DArr l => DArr (map redoc l)
  | DObj l => DObj (map (fun kv => (fst kv, redoc (snd kv))) l)
  | _ => d
  end.

(* strings and keys are well-formed UTF-8; integers fit their Go type; floats
   are finite binary64 patterns *)
Fixpoint doc_okb (d : doc) : bool :=
  match d with
  | DNum n => num_okb n
  | DStr s => utf8_ok s
  | DArr l => forallb doc_okb l
  | DObj l => forallb (fun kv => utf8_ok (fst kv) && doc_okb (snd kv)) l
  | _ => true
  end.

Fixpoint no_negzero (d : doc) : bool :=
  match d with
  | DNum n => not_negzero n
  | DArr l => forallb no_negzero l
  | DObj l => forallb (fun kv => no_negzero (snd kv)) l
  | _ => true
  end.

(* identity on structure, order, keys, strings, booleans and null;
   num_equiv on numbers *)
Inductive doc_equiv : doc -> doc -> Prop :=
| de_null : doc_equiv DNull DNull
| de_bool b : doc_equiv (DBool b) (DBool b)
| de_num n n' : num_equiv n n' -> doc_equiv (DNum n) (DNum n')
| de_str s : doc_equiv (DStr s) (DStr s)
| de_arr l l' : Forall2 doc_equiv l l' -> doc_equiv (DArr l) (DArr l')
| de_obj l l' : Forall2 (fun kv kv' => fst kv = fst kv' /\ doc_equiv (snd kv) (snd kv')) l l' ->
                doc_equiv (DObj l) (DObj l').

Theorem redoc_equiv : forall d, doc_okb d = true -> doc_equiv d (redoc d).
Proof.
  induction d as [| b | n | s | l IH | l IH] using doc_ind2; intros Hok; cbn [redoc doc_okb] in *;
    try constructor.
  - apply renum_equiv. exact Hok.
  - induction l as [|d l IHl]; [constructor|].
    cbn [forallb] in Hok. apply andb_true_iff in Hok. destruct Hok as [H1 H2].
    inversion IH; subst. cbn [map]. constructor; auto.
  - induction l as [|kv l IHl]; [constructor|].
    cbn [forallb] in Hok. apply andb_true_iff in Hok. destruct Hok as [H1 H2].
    apply andb_true_iff in H1. destruct H1 as [_ H1].
    inversion IH; subst. cbn [map]. constructor; auto.
Qed.

Theorem fin_redoc : forall d, doc_okb d = true -> fin_doc (redoc d) = true /\ fin_doc d = true.
Proof.
  induction d as [| b | n | s | l IH | l IH] using doc_ind2; intros Hok; cbn [redoc doc_okb fin_doc] in *;
    try (split; reflexivity).
  - apply fin_renum. exact Hok.
  - induction l as [|d l IHl]; [split; reflexivity|].
    cbn [forallb] in Hok. apply andb_true_iff in Hok. destruct Hok as [H1 H2].
    inversion IH; subst. cbn [map forallb].
    destruct (H3 H1) as [A B]. destruct (IHl H4 H2) as [C D]. rewrite A, B, C, D. split; reflexivity.
  - induction l as [|kv l IHl]; [split; reflexivity|].
    cbn [forallb] in Hok. apply andb_true_iff in Hok. destruct Hok as [H1 H2].
    apply andb_true_iff in H1. destruct H1 as [_ H1].
    inversion IH; subst. cbn [map forallb snd].
    destruct (H3 H1) as [A B]. destruct (IHl H4 H2) as [C D]. rewrite A, B, C, D. split; reflexivity.
Qed.

(* ------------------------------------------------------------------ *)
(* (c) FIXED POINT on documents                                         *)

Theorem pr_redoc : forall d, doc_okb d = true -> no_negzero d = true -> pr_doc (redoc d) = pr_doc d.
Proof.
  induction d as [| b | n | s | l IH | l IH] using doc_ind2; intros Hok Hnz;
    cbn [redoc doc_okb no_negzero pr_doc] in *; try reflexivity.
  - apply pr_renum; assumption.
  - do 2 f_equal. f_equal. rewrite map_map.
    induction l as [|d l IHl]; [reflexivity|].
    cbn [forallb] in Hok, Hnz. apply andb_true_iff in Hok, Hnz.
    destruct Hok as [H1 H2]. destruct Hnz as [N1 N2].
    inversion IH; subst. cbn [map]. f_equal; auto.
  - do 2 f_equal. f_equal. rewrite map_map.
    induction l as [|kv l IHl]; [reflexivity|].
    cbn [forallb] in Hok, Hnz. apply andb_true_iff in Hok, Hnz.
    destruct Hok as [H1 H2]. destruct Hnz as [N1 N2].
    apply andb_true_iff in H1. destruct H1 as [_ H1].
    inversion IH; subst. cbn [map fst snd]. f_equal; auto. f_equal. auto.
Qed.

(* ------------------------------------------------------------------ *)
(* (b) VALIDITY: spec_value reads the text back                         *)

Lemma spec_value_lbrack f r :
  spec_value (S f) (n2b 91 :: r) =
  match skip_ws r with
  | b' :: r' => if (b2n b' =? cRBRACK)%N then SOk (DArr [], r') else spec_elems f (b' :: r') []
  | [] => SInvalid
  end.
Proof. reflexivity. Qed.

Lemma spec_value_lbrace f r :
  spec_value (S f) (n2b 123 :: r) =
  match skip_ws r with
  | b' :: r' => if (b2n b' =? cRBRACE)%N then SOk (DObj [], r') else spec_members f (b' :: r') []
  | [] => SInvalid
  end.
Proof. reflexivity. Qed.

Lemma spec_elems_eq f s acc :
  spec_elems (S f) s acc =
  match spec_value f s with
  | SOk (v, r) =>
    match skip_ws r with
    | b :: r' =>
      if (b2n b =? cCOMMA)%N then spec_elems f r' (v :: acc)
      else if (b2n b =? cRBRACK)%N then SOk (DArr (rev (v :: acc)), r')
      else SInvalid
    | [] => SInvalid
    end
  | SInvalid => SInvalid | SOut => SOut | SFuel => SFuel
  end.
Proof. reflexivity. Qed.

Lemma spec_members_quote f t acc :
  spec_members (S f) (x22 :: t) acc =
  match spec_string f t [] with
  | SOk (key, r1) =>
    match skip_ws r1 with
    | b1 :: r2 =>
      if (b2n b1 =? cCOLON)%N then
        match spec_value f r2 with
        | SOk (v, r3) =>
          match skip_ws r3 with
          | b3 :: r4 =>
            if (b2n b3 =? cCOMMA)%N then spec_members f r4 ((key, v) :: acc)
            else if (b2n b3 =? cRBRACE)%N then SOk (DObj (rev ((key, v) :: acc)), r4)
            else SInvalid
          | [] => SInvalid
          end
        | SInvalid => SInvalid | SOut => SOut | SFuel => SFuel
        end
      else SInvalid
    | [] => SInvalid
    end
  | SInvalid => SInvalid | SOut => SOut | SFuel => SFuel
  end.
Proof. reflexivity. Qed.

(* first byte of a printed document *)
Lemma pr_doc_head d : doc_okb d = true ->
  exists b t, pr_doc d = b :: t /\ is_json_ws (b2n b) = false /\ (b2n b =? cRBRACK)%N = false.
Proof.
  intros Hok. destruct d as [| [|] | n | s | l | l]; cbn [pr_doc];
    try (do 2 eexists; split; [reflexivity|split; reflexivity]).
  apply pr_num_head. exact Hok.
Qed.

Lemma join_length_cons c x r :
  length (join_with c false (x :: r)) = length x + length (join_with c true r).
Proof. cbn [join_with app]. rewrite app_length. reflexivity. Qed.

Lemma join_true_cons c x r : join_with c true (x :: r) = c :: join_with c false (x :: r).
Proof. reflexivity. Qed.

(* the statement proved by induction on the document *)
Definition reads_back (d : doc) : Prop :=
  doc_okb d = true -> forall rest f, rest_ok rest = true -> length (pr_doc d) < f ->
  spec_value f (pr_doc d ++ rest) = SOk (redoc d, rest).

Lemma spec_elems_pr : forall l, Forall reads_back l -> forallb doc_okb l = true -> l <> [] ->
  forall acc rest f, rest_ok rest = true -> length (pr_elems false l) + 1 < f ->
  spec_elems f (pr_elems false l ++ n2b 93 :: rest) acc = SOk (DArr (rev acc ++ map redoc l), rest).
Proof.
  induction l as [|d l IHl]; intros IH Hok Hne acc rest f Hr Hf; [congruence|].
  inversion IH as [|? ? Hd Hl]; subst.
  cbn [forallb] in Hok. apply andb_true_iff in Hok. destruct Hok as [Okd Okl].
  destruct f as [|g]; [lia|].
  rewrite spec_elems_eq. rewrite (pr_elems_cons false d l). cbn [sepc app].
  unfold pr_elems in Hf. cbn [map] in Hf. rewrite join_length_cons in Hf.
  fold (pr_elems true l) in *.
  rewrite (Hd Okd (pr_elems true l ++ n2b 93 :: rest) g).
  - destruct l as [|d2 l2].
    + cbn [pr_elems map join_with app skip_ws]. cbn [rev map app]. reflexivity.
    + unfold pr_elems at 1. cbn [map]. rewrite join_true_cons. cbn [app skip_ws].
      change (is_json_ws (b2n bCOMMA)) with false. cbv iota.
      change (b2n bCOMMA =? cCOMMA)%N with true. cbv iota.
      change (join_with bCOMMA false (pr_doc d2 :: map pr_doc l2)) with (pr_elems false (d2 :: l2)).
      rewrite (IHl Hl Okl ltac:(discriminate) (redoc d :: acc) rest g Hr).
      * cbn [rev map]. rewrite <- app_assoc. reflexivity.
      * unfold pr_elems in *. cbn [map] in *. rewrite join_true_cons in Hf. cbn [length] in Hf. lia.
  - destruct l; reflexivity.
  - lia.
Qed.

Definition member_okb (kv : bytes * doc) : bool := utf8_ok (fst kv) && doc_okb (snd kv).
Definition remember (kv : bytes * doc) : bytes * doc := (fst kv, redoc (snd kv)).

Lemma quote_str_length s : length (quote_str s) = length (escape_bytes s) + 2.
Proof. unfold quote_str. cbn [length]. rewrite app_length. cbn [length]. lia. Qed.

Lemma spec_members_pr : forall l, Forall (fun kv => reads_back (snd kv)) l ->
  forallb member_okb l = true -> l <> [] ->
  forall acc rest f, rest_ok rest = true -> length (pr_members false l) + 1 < f ->
  spec_members f (pr_members false l ++ n2b 125 :: rest) acc =
    SOk (DObj (rev acc ++ map remember l), rest).
Proof.
  induction l as [|[k d] l IHl]; intros IH Hok Hne acc rest f Hr Hf; [congruence|].
  inversion IH as [|? ? Hd Hl]; subst. cbn [snd] in Hd.
  cbn [forallb] in Hok. apply andb_true_iff in Hok. destruct Hok as [Okd Okl].
  unfold member_okb in Okd. cbn [fst snd] in Okd. apply andb_true_iff in Okd. destruct Okd as [Okk Okd].
  destruct f as [|g]; [lia|].
  rewrite (pr_members_cons false k d l). cbn [sepc app].
  unfold pr_members in Hf. cbn [map fst snd] in Hf. rewrite join_length_cons in Hf.
  fold (pr_members true l) in *.
  unfold pr_member in Hf. rewrite !app_length, quote_str_length in Hf. cbn [length] in Hf.
  unfold quote_str. change (n2b 34) with x22. cbn [app]. rewrite <- !app_assoc. cbn [app].
  rewrite spec_members_quote.
  rewrite (escape_unescape_utf8 k _ g Okk) by lia.
  cbn [skip_ws]. change (is_json_ws (b2n (n2b 58))) with false. cbv iota.
  change (b2n (n2b 58) =? cCOLON)%N with true. cbv iota.
  rewrite (Hd Okd (pr_members true l ++ n2b 125 :: rest) g).
  - destruct l as [|[k2 d2] l2].
    + cbn [pr_members map join_with app skip_ws]. cbn [rev map app]. reflexivity.
    + unfold pr_members at 1. cbn [map]. rewrite join_true_cons. cbn [app skip_ws].
      change (is_json_ws (b2n bCOMMA)) with false. cbv iota.
      change (b2n bCOMMA =? cCOMMA)%N with true. cbv iota.
      change (join_with bCOMMA false (pr_member (fst (k2, d2)) (pr_doc (snd (k2, d2))) ::
                map (fun kv => pr_member (fst kv) (pr_doc (snd kv))) l2))
        with (pr_members false ((k2, d2) :: l2)).
      rewrite (IHl Hl Okl ltac:(discriminate) ((k, redoc d) :: acc) rest g Hr).
      * cbn [rev map]. rewrite <- app_assoc. reflexivity.
      * unfold pr_members in *. cbn [map] in *. rewrite join_true_cons in Hf. cbn [length] in Hf. lia.
  - destruct l as [|[k2 d2] l2]; reflexivity.
  - lia.
Qed.

Theorem spec_value_pr : forall d, reads_back d.
Proof.
  induction d as [| b | n | s | l IH | l IH] using doc_ind2; intros Hok rest f Hr Hf;
    cbn [doc_okb redoc] in *.
  - destruct f as [|f]; [lia|]. reflexivity.
  - destruct f as [|f]; [lia|]. destruct b; reflexivity.
  - destruct f as [|f]; [lia|]. apply pr_num_spec_value; assumption.
  - destruct f as [|f]; [lia|]. cbn [pr_doc] in *. rewrite quote_str_length in Hf.
    apply spec_value_quote_str; [exact Hok|lia].
  - destruct f as [|f]; [lia|]. cbn [pr_doc] in *. cbn [app]. rewrite spec_value_lbrack.
    fold (pr_elems false l) in *. cbn [length] in Hf. rewrite app_length in Hf. cbn [length] in Hf.
    rewrite <- app_assoc. cbn [app].
    destruct l as [|d l'].
    + reflexivity.
    + destruct (pr_doc_head d) as (b & t & E & Hws & Hrb).
      { cbn [forallb] in Hok. apply andb_true_iff in Hok. tauto. }
      assert (Es : skip_ws (pr_elems false (d :: l') ++ n2b 93 :: rest) =
                   pr_elems false (d :: l') ++ n2b 93 :: rest).
      { unfold pr_elems. cbn [map join_with app]. rewrite E. cbn [app skip_ws]. rewrite Hws. reflexivity. }
      rewrite Es.
      assert (Eh : exists t', pr_elems false (d :: l') ++ n2b 93 :: rest = b :: t').
      { unfold pr_elems. cbn [map join_with app]. rewrite E. cbn [app]. eexists. reflexivity. }
      destruct Eh as (t' & Eh). rewrite Eh, Hrb, <- Eh.
      rewrite (spec_elems_pr (d :: l') IH Hok ltac:(discriminate) [] rest f Hr) by lia.
      reflexivity.
  - destruct f as [|f]; [lia|]. cbn [pr_doc] in *. cbn [app]. rewrite spec_value_lbrace.
    fold (pr_members false l) in *. cbn [length] in Hf. rewrite app_length in Hf. cbn [length] in Hf.
    rewrite <- app_assoc. cbn [app].
    destruct l as [|[k d] l'].
    + reflexivity.
    + assert (Eh : exists t', pr_members false ((k, d) :: l') ++ n2b 125 :: rest = x22 :: t').
      { unfold pr_members, pr_member, quote_str. cbn [map join_with app fst]. eexists. reflexivity. }
      destruct Eh as (t' & Eh). rewrite Eh. cbn [skip_ws].
      change (is_json_ws (b2n x22)) with false. cbv iota.
      change (b2n x22 =? cRBRACE)%N with false. cbv iota. rewrite <- Eh.
      rewrite (spec_members_pr ((k, d) :: l') IH Hok ltac:(discriminate) [] rest f Hr) by lia.
      reflexivity.
Qed.

(* ------------------------------------------------------------------ *)
(* whole texts: spec_parse (one root) and nd_spec (roots separated by LF) *)

Corollary spec_value_pr0 d f : doc_okb d = true -> length (pr_doc d) < f ->
  spec_value f (pr_doc d) = SOk (redoc d, []).
Proof.
  intros Hok Hf. pose proof (spec_value_pr d Hok [] f eq_refl Hf) as H.
  rewrite app_nil_r in H. exact H.
Qed.

Lemma pr_container_shape d : is_container d = true ->
  exists b0 mid bl, pr_doc d = b0 :: mid ++ [bl] /\
    ((b0 = n2b 91 /\ bl = n2b 93) \/ (b0 = n2b 123 /\ bl = n2b 125)).
Proof.
  destruct d as [| | | | l | l]; try discriminate; intros _; cbn [pr_doc].
  - do 3 eexists. split; [reflexivity|]. left. split; reflexivity.
  - do 3 eexists. split; [reflexivity|]. right. split; reflexivity.
Qed.

Lemma rtrim_last x bl : is_json_ws (b2n bl) = false -> rtrim_ws (x ++ [bl]) = x ++ [bl].
Proof.
  intros H. unfold rtrim_ws. rewrite rev_app_distr. cbn [rev app skip_ws]. rewrite H.
  cbn [rev]. rewrite rev_involutive. reflexivity.
Qed.

Lemma redoc_container d : is_container (redoc d) = is_container d.
Proof. destruct d; reflexivity. Qed.

(* facts about the text of a container that both trims and the edge test need *)
Lemma pr_container_edges d : is_container d = true ->
  skip_ws (pr_doc d) = pr_doc d /\ rtrim_ws (pr_doc d) = pr_doc d /\
  exists b tl, pr_doc d = b :: tl /\
    (edge_unclaimed (b2n b) || edge_unclaimed (b2n (last (pr_doc d) x00))) = false.
Proof.
  intros Hc. destruct (pr_container_shape d Hc) as (b0 & mid & bl & E & Hb). rewrite E.
  assert (Hl : last (b0 :: mid ++ [bl]) x00 = bl).
  { change (b0 :: mid ++ [bl]) with ((b0 :: mid) ++ [bl]). apply last_last. }
  split; [|split].
  - destruct Hb as [[-> ->]|[-> ->]]; reflexivity.
  - change (b0 :: mid ++ [bl]) with ((b0 :: mid) ++ [bl]). apply rtrim_last.
    destruct Hb as [[-> ->]|[-> ->]]; reflexivity.
  - exists b0, (mid ++ [bl]). split; [reflexivity|]. rewrite Hl.
    destruct Hb as [[-> ->]|[-> ->]]; reflexivity.
Qed.

(* one root: the text is a JSON text for the specification, denoting redoc d *)
Theorem spec_parse_pr d : doc_okb d = true -> is_container d = true ->
  spec_parse (pr_doc d) = SOk (redoc d).
Proof.
  intros Hok Hc. destruct (pr_container_edges d Hc) as (Hsk & Hrt & b & tl & E & He).
  pose proof (spec_value_pr0 d (2 * length (pr_doc d) + 2) Hok ltac:(lia)) as Hv.
  unfold spec_parse. rewrite Hsk, Hrt. cbv zeta.
  destruct (pr_doc d) as [|b' tl'] eqn:Et; [discriminate E|].
  injection E as -> ->. rewrite He, Hv, redoc_container, Hc. reflexivity.
Qed.

Lemma pr_nonblank d : is_container d = true -> is_blank_line (pr_doc d) = false.
Proof.
  intros Hc. destruct (pr_container_edges d Hc) as (Hsk & _ & b & tl & E & _).
  unfold is_blank_line. rewrite Hsk, E. reflexivity.
Qed.

(* no raw line feed in the text of a document *)
Lemma nolf_join c sep xs : b2n c <> cLF -> Forall nolf xs -> nolf (join_with c sep xs).
Proof.
  intros Hc H. revert sep. induction H as [|x r Hx Hr IH]; intros sep; [constructor|].
  cbn [join_with]. apply Forall_app. split; [destruct sep; repeat constructor; exact Hc|].
  apply Forall_app. split; [exact Hx|apply IH].
Qed.

Lemma nolf_quote s : nolf (quote_str s).
Proof.
  unfold quote_str, nolf. constructor; [intro E; vm_compute in E; discriminate E|].
  apply Forall_app. split.
  - eapply Forall_impl; [|apply escape_bytes_no_ctrl]. cbn beta. intros b H E.
    rewrite E in H. vm_compute in H. apply H. reflexivity.
  - repeat constructor. intro E; vm_compute in E; discriminate E.
Qed.

Theorem pr_doc_nolf : forall d, doc_okb d = true -> nolf (pr_doc d).
Proof.
  induction d as [| b | n | s | l IH | l IH] using doc_ind2; intros Hok; cbn [pr_doc doc_okb] in *.
  - repeat constructor; intro E; vm_compute in E; discriminate E.
  - destruct b; repeat constructor; intro E; vm_compute in E; discriminate E.
  - apply pr_num_nolf. exact Hok.
  - apply nolf_quote.
  - constructor; [intro E; vm_compute in E; discriminate E|].
    apply Forall_app. split; [|repeat constructor; intro E; vm_compute in E; discriminate E].
    apply nolf_join; [intro E; vm_compute in E; discriminate E|].
    induction l as [|d l IHl]; [constructor|].
    cbn [forallb] in Hok. apply andb_true_iff in Hok. destruct Hok as [H1 H2].
    inversion IH; subst. cbn [map]. constructor; auto.
  - constructor; [intro E; vm_compute in E; discriminate E|].
    apply Forall_app. split; [|repeat constructor; intro E; vm_compute in E; discriminate E].
    apply nolf_join; [intro E; vm_compute in E; discriminate E|].
    induction l as [|kv l IHl]; [constructor|].
    cbn [forallb] in Hok. apply andb_true_iff in Hok. destruct Hok as [H1 H2].
    apply andb_true_iff in H1. destruct H1 as [_ H1].
    inversion IH as [|? ? Hkv Hl]; subst. cbn [map]. constructor.
    + unfold pr_member. apply Forall_app. split; [apply nolf_quote|].
      apply Forall_app. split; [repeat constructor; intro E; vm_compute in E; discriminate E|].
      apply Hkv. exact H1.
    + apply IHl; assumption.
Qed.

(* splitting the joined text at LF gives the lines back *)
Lemma split_aux_nolf l : nolf l -> forall cur, split_lf_aux l cur = [rev cur ++ l].
Proof.
  induction 1 as [|b r Hb Hr IH]; intros cur.
  - cbn [split_lf_aux]. rewrite app_nil_r. reflexivity.
  - cbn [split_lf_aux].
    replace (b2n b =? cLF)%N with false by (symmetry; apply N.eqb_neq; exact Hb).
    rewrite IH. cbn [rev]. rewrite <- app_assoc. reflexivity.
Qed.

Lemma split_aux_line l s : nolf l -> forall cur,
  split_lf_aux (l ++ bNL :: s) cur = (rev cur ++ l) :: split_lf_aux s [].
Proof.
  induction 1 as [|b r Hb Hr IH]; intros cur.
  - cbn [app split_lf_aux]. change (b2n bNL =? cLF)%N with true. cbv iota.
    rewrite app_nil_r. reflexivity.
  - cbn [app split_lf_aux].
    replace (b2n b =? cLF)%N with false by (symmetry; apply N.eqb_neq; exact Hb).
    rewrite IH. cbn [rev]. rewrite <- app_assoc. reflexivity.
Qed.

Lemma split_join xs : xs <> [] -> Forall nolf xs -> split_lf (join_with bNL false xs) = xs.
Proof.
  unfold split_lf. induction xs as [|x r IH]; intros Hne H; [congruence|].
  inversion H as [|? ? Hx Hr]; subst. destruct r as [|y r'].
  - cbn [join_with app]. rewrite app_nil_r. apply (split_aux_nolf x Hx []).
  - cbn [join_with app] in *. rewrite (split_aux_line x _ Hx []). cbn [rev app].
    f_equal. apply IH; [discriminate|exact Hr].
Qed.

Definition docs_okb (ds : list doc) : bool := forallb (fun d => doc_okb d && is_container d) ds.

Lemma nd_lines_pr : forall ds acc, docs_okb ds = true ->
  nd_lines (map pr_doc ds) acc = SOk (rev acc ++ map redoc ds).
Proof.
  induction ds as [|d ds IH]; intros acc Hok.
  - cbn [map nd_lines]. rewrite app_nil_r. reflexivity.
  - cbn [docs_okb forallb] in Hok. apply andb_true_iff in Hok. destruct Hok as [H1 H2].
    apply andb_true_iff in H1. destruct H1 as [Hd Hc].
    cbn [map nd_lines]. rewrite (pr_nonblank d Hc), (spec_parse_pr d Hd Hc).
    rewrite (IH (redoc d :: acc) H2). cbn [rev]. rewrite <- app_assoc. reflexivity.
Qed.

(* several roots: the text is NDJSON for the specification *)
Theorem nd_spec_pr ds : ds <> [] -> docs_okb ds = true ->
  nd_spec (pr_docs ds) = SOk (map redoc ds).
Proof.
  intros Hne Hok. unfold nd_spec, pr_docs.
  assert (Hnl : Forall nolf (map pr_doc ds)).
  { clear Hne. induction ds as [|d ds IH]; [constructor|].
    cbn [docs_okb forallb] in Hok. apply andb_true_iff in Hok. destruct Hok as [H1 H2].
    apply andb_true_iff in H1. destruct H1 as [Hd Hc].
    cbn [map]. constructor; [apply pr_doc_nolf; exact Hd|apply IH; exact H2]. }
  rewrite split_join; [|destruct ds; [congruence|discriminate]|exact Hnl].
  cbv zeta.
  assert (Hex : existsb (fun l => match (if is_blank_line l then SInvalid else spec_parse l) with
                                  | SOut => true | _ => false end) (map pr_doc ds) = false).
  { clear Hne Hnl. induction ds as [|d ds IH]; [reflexivity|].
    cbn [docs_okb forallb] in Hok. apply andb_true_iff in Hok. destruct Hok as [H1 H2].
    apply andb_true_iff in H1. destruct H1 as [Hd Hc].
    cbn [map existsb]. rewrite (pr_nonblank d Hc), (spec_parse_pr d Hd Hc), (IH H2). reflexivity. }
  rewrite Hex, (nd_lines_pr ds [] Hok). cbn [rev app].
  destruct ds; [congruence|reflexivity].
Qed.

Print Assumptions nd_spec_pr.
