(* Stage1Buffers.v — the index buffers of findStructuralIndices are invisible:
   when the message ends with a closing brace/bracket outside strings and no
   error flag was raised, [s1_buffers] returns verdict true and hands over,
   in non-empty buffers, exactly the structural positions of the plain fold
   [s1_fold] (strip-and-carry moves a dangling index to the next buffer; it is
   never duplicated or dropped). *)
From Coq Require Import ZifyBool ZifyN ZifyNat.
From SJ Require Import Model.Base Model.RefTables Spec.Json Model.Stage1.
From SJ Require Import Proofs.StrProofs Proofs.Stage1Proofs.
Open Scope N_scope.
Ltac Zify.zify_post_hook ::= Z.div_mod_to_equations.

(* ------------------------------------------------------------------ *)
(* blocks                                                              *)

(* the last structural of the remaining blocks is [q], however many blocks
   are taken off the front *)
Definition ends_q (blocks : list (list nat)) (q : nat) : Prop :=
  forall taken rest, blocks = taken ++ rest -> rest <> [] -> exists x, concat rest = x ++ [q].

Lemma ends_q_suffix taken rest q : ends_q (taken ++ rest) q -> ends_q rest q.
Proof.
  intros H t2 r2 E Hne. apply (H (taken ++ t2) r2); [rewrite E, app_assoc; reflexivity|exact Hne].
Qed.

Lemma ends_q_single ps q : ends_q [ps ++ [q]] q.
Proof.
  intros taken rest E Hne. destruct taken as [|x taken].
  - cbn [app] in E. subst rest. exists ps. cbn [concat]. rewrite app_nil_r. reflexivity.
  - cbn [app] in E. injection E as _ E. destruct taken; destruct rest; try discriminate. congruence.
Qed.

Lemma ends_q_cons ps blocks q : blocks <> [] -> ends_q blocks q -> ends_q (ps :: blocks) q.
Proof.
  intros Hne H taken rest E Hr. destruct taken as [|x taken].
  - cbn [app] in E. subst rest. destruct (H [] blocks eq_refl Hne) as (x & Hx).
    exists (ps ++ x). cbn [concat]. rewrite Hx, app_assoc. reflexivity.
  - cbn [app] in E. injection E as _ E. apply (H taken rest E Hr).
Qed.

Lemma fold_single nd st p c :
  s1_fold nd st p [c] = (fst (s1_step nd st (b2n c)), if snd (s1_step nd st (b2n c)) then [p] else []).
Proof. cbn [s1_fold]. destruct (snd (s1_step nd st (b2n c))); reflexivity. Qed.

Lemma s1_blocks_spec nd : forall fuel st p bs,
  (length bs < 64 * fuel)%nat ->
  exists blocks, s1_blocks fuel nd st p bs = (fst (s1_fold nd st p bs), blocks) /\
    concat blocks = snd (s1_fold nd st p bs) /\
    length blocks = ((length bs + 63) / 64)%nat /\
    (forall init c, bs = init ++ [c] ->
       snd (s1_step nd (fst (s1_fold nd st p init)) (b2n c)) = true ->
       ends_q blocks (p + length init)).
Proof.
  induction fuel as [|f IH]; intros st p bs Hf; [lia|].
  destruct bs as [|b0 bs0] eqn:Ebs.
  { exists []. cbn [s1_blocks s1_fold fst snd concat length]. repeat split.
    intros init c E. destruct init; discriminate. }
  rewrite <- Ebs in *. assert (Hne : bs <> []) by (rewrite Ebs; discriminate).
  assert (Hunf : s1_blocks (S f) nd st p bs =
                 let '(st', ps) := s1_run nd st p (firstn 64 bs) [] in
                 let '(st'', rest) := s1_blocks f nd st' (p + 64) (skipn 64 bs) in (st'', ps :: rest)).
  { rewrite Ebs. reflexivity. }
  rewrite Hunf, s1_run_fold. cbn [rev app].
  set (F1 := s1_fold nd st p (firstn 64 bs)).
  destruct (Nat.le_gt_cases (length bs) 64) as [Hle|Hgt].
  - (* a single (last) block *)
    assert (Hsk : skipn 64 bs = []) by (apply skipn_all2; exact Hle).
    assert (Hfi : firstn 64 bs = bs) by (apply firstn_all2; exact Hle).
    rewrite Hsk. unfold F1. rewrite Hfi.
    assert (Hb0 : forall st' q, s1_blocks f nd st' q [] = (st', [])) by (intros; destruct f; reflexivity).
    rewrite Hb0. exists [snd (s1_fold nd st p bs)]. split; [reflexivity|]. split; [cbn [concat]; apply app_nil_r|].
    split.
    { cbn [length]. assert (1 <= length bs)%nat by (rewrite Ebs; cbn [length]; lia). lia. }
    intros init c E Hfl. rewrite E, s1_fold_app, fold_single, Hfl. cbn [snd].
    apply ends_q_single.
  - (* a full block followed by more *)
    assert (Hfl : length (firstn 64 bs) = 64%nat) by (rewrite firstn_length; lia).
    assert (Hsl : length (skipn 64 bs) = (length bs - 64)%nat) by apply skipn_length.
    destruct (IH (fst F1) (p + 64)%nat (skipn 64 bs)) as (blocks & Hb & Hc & Hl & Hq); [lia|].
    rewrite Hb. exists (snd F1 :: blocks).
    pose proof (s1_fold_app nd (firstn 64 bs) (skipn 64 bs) st p) as Happ.
    rewrite firstn_skipn, Hfl in Happ. fold F1 in Happ.
    split; [rewrite Happ; reflexivity|]. split; [cbn [concat]; rewrite Hc, Happ; reflexivity|].
    split; [cbn [length]; rewrite Hl, Hsl; lia|].
    intros init c E Hstep.
    assert (Hil : (64 <= length init)%nat).
    { apply (f_equal (@length byte)) in E. rewrite app_length in E. cbn [length] in E. lia. }
    assert (Hfi : firstn 64 bs = firstn 64 init).
    { rewrite E, firstn_app. replace (64 - length init)%nat with 0%nat by lia. cbn [firstn]. apply app_nil_r. }
    assert (Hsi : skipn 64 bs = skipn 64 init ++ [c]).
    { rewrite E, skipn_app. replace (64 - length init)%nat with 0%nat by lia. reflexivity. }
    apply ends_q_cons.
    + intros En. rewrite En in Hl. cbn [length] in Hl. lia.
    + replace (p + length init)%nat with (p + 64 + length (skipn 64 init))%nat by (rewrite skipn_length; lia).
      apply (Hq (skipn 64 init) c Hsi).
      pose proof (s1_fold_app nd (firstn 64 init) (skipn 64 init) st p) as Hai.
      rewrite firstn_skipn in Hai. rewrite <- Hfi, Hfl in Hai. fold F1 in Hai.
      rewrite Hai in Hstep. cbn [fst] in Hstep. exact Hstep.
Qed.

(* ------------------------------------------------------------------ *)
(* take_blocks                                                         *)

Lemma take_blocks_spec : forall nfull blocks cur k cur1 k1 blocks1,
  take_blocks nfull blocks cur k = (cur1, k1, blocks1) ->
  exists taken, blocks = taken ++ blocks1 /\ cur1 = cur ++ concat taken /\ k1 = (k + length taken)%nat /\
    (length taken <= nfull)%nat /\
    ((T_nat <= length cur1)%nat \/ length taken = nfull \/ blocks1 = []).
Proof.
  induction nfull as [|n IH]; intros blocks cur k cur1 k1 blocks1 H.
  - cbn [take_blocks] in H. injection H as <- <- <-. exists []. cbn [app concat length].
    rewrite app_nil_r, Nat.add_0_r. repeat split; auto.
  - destruct blocks as [|b rest].
    + cbn [take_blocks] in H. injection H as <- <- <-. exists []. cbn [app concat length].
      rewrite app_nil_r, Nat.add_0_r. repeat split; auto. lia.
    + cbn [take_blocks] in H.
      destruct (T_nat <=? length (cur ++ b))%nat eqn:E.
      * injection H as <- <- <-. exists [b]. cbn [app concat length]. rewrite app_nil_r.
        repeat split; lia.
      * apply IH in H. destruct H as (taken & -> & -> & -> & Hle & Hor).
        exists (b :: taken). cbn [app concat length]. rewrite <- app_assoc.
        repeat split; try lia. destruct Hor as [Hor|[Hor|Hor]]; [left; rewrite <- app_assoc in Hor; exact Hor|right; left; lia|right; right; exact Hor].
Qed.

(* ------------------------------------------------------------------ *)
(* the outer loop                                                      *)

Lemma s1_loop_S f msg fin rem blocks stripped sent total :
  s1_loop (S f) msg fin rem blocks stripped sent total =
    if (rem =? 0)%nat then {| o_bufs := rev sent; o_ok := negb (s_err fin) && (0 <? total)%nat |}
    else
      let cur0 := match stripped with Some p => [p] | None => [] end in
      let '(cur1, k, blocks1) := take_blocks (rem / 64) blocks cur0 0 in
      let processed1 := (64 * k)%nat in
      let '(cur2, processed, blocks2) :=
        if (rem - processed1 <=? 64)%nat then
          match blocks1 with
          | b :: rest => if (0 <? rem - processed1)%nat then (cur1 ++ b, rem, rest) else (cur1, processed1, blocks1)
          | [] => (cur1, processed1, blocks1)
          end
        else (cur1, processed1, blocks1) in
      match rev cur2 with
      | [] => {| o_bufs := rev sent; o_ok := false |}
      | lastp :: before =>
        if (processed =? rem)%nat then
          let c := byte_at msg lastp in
          if s_instr fin || negb ((c =? cRBRACE) || (c =? cRBRACK))
          then {| o_bufs := rev sent; o_ok := false |}
          else {| o_bufs := rev (cur2 :: sent);
                  o_ok := negb (s_err fin) && (0 <? total + length cur2)%nat |}
        else if negb (is_markup (byte_at msg lastp)) then
          s1_loop f msg fin (rem - processed) blocks2 (Some lastp) (rev before :: sent) (total + length before)
        else
          s1_loop f msg fin (rem - processed) blocks2 None (cur2 :: sent) (total + length cur2)
      end.
Proof. reflexivity. Qed.

Lemma T_nat_val : T_nat = 1408%nat.
Proof. reflexivity. Qed.

Lemma concat_rev_cons {A} (x : list A) (l : list (list A)) : concat (rev (x :: l)) = concat (rev l) ++ x.
Proof. cbn [rev]. rewrite concat_app. cbn [concat]. rewrite app_nil_r. reflexivity. Qed.

Definition nonempty (b : list nat) : Prop := b <> [].

Lemma s1_loop_ok msg fin q :
  s_instr fin = false -> s_err fin = false ->
  (byte_at msg q = cRBRACE \/ byte_at msg q = cRBRACK) ->
  forall fuel rem blocks stripped sent total,
  (0 < rem)%nat -> length blocks = ((rem + 63) / 64)%nat -> (length blocks < fuel)%nat ->
  ends_q blocks q -> Forall nonempty sent ->
  let o := s1_loop fuel msg fin rem blocks stripped sent total in
  o_ok o = true /\
  concat (o_bufs o) = concat (rev sent) ++ (match stripped with Some p => [p] | None => [] end) ++ concat blocks /\
  Forall nonempty (o_bufs o).
Proof.
  intros Hin Herr Hq.
  induction fuel as [|f IH]; intros rem blocks stripped sent total Hrem Hlen Hfuel Hends Hsent; [lia|].
  cbv zeta. rewrite s1_loop_S.
  replace (rem =? 0)%nat with false by lia.
  set (cur0 := match stripped with Some p => [p] | None => [] end).
  assert (Hcur0 : (length cur0 <= 1)%nat) by (unfold cur0; destruct stripped; cbn [length]; lia).
  cbv zeta.
  destruct (take_blocks (rem / 64) blocks cur0 0) as [[cur1 k] blocks1] eqn:Etb.
  apply take_blocks_spec in Etb. destruct Etb as (taken & Hbl & Hc1 & Hk & Hkle & Hor).
  cbn [Nat.add] in Hk. subst k.
  assert (Hlen1 : length blocks1 = ((rem + 63) / 64 - length taken)%nat).
  { rewrite <- Hlen, Hbl, app_length. lia. }
  assert (Hblne : blocks <> []).
  { intros E. rewrite E in Hlen. cbn [length] in Hlen. lia. }
  destruct (rem - 64 * length taken <=? 64)%nat eqn:Efin.
  - (* the message is completed in this round *)
    apply Nat.leb_le in Efin.
    assert (Hall : exists all, (let '(cur2, processed, blocks2) :=
                     match blocks1 with
                     | b :: rest => if (0 <? rem - 64 * length taken)%nat then (cur1 ++ b, rem, rest)
                                    else (cur1, (64 * length taken)%nat, blocks1)
                     | [] => (cur1, (64 * length taken)%nat, blocks1)
                     end in (cur2, processed)) = (all, rem) /\ all = cur0 ++ concat blocks).
    { destruct blocks1 as [|b rest].
      - exists cur1. split; [|rewrite Hc1, Hbl, app_nil_r; reflexivity].
        f_equal. cbn [length] in Hlen1. lia.
      - destruct (0 <? rem - 64 * length taken)%nat eqn:Epos.
        + exists (cur1 ++ b). split; [reflexivity|].
          assert (rest = []).
          { cbn [length] in Hlen1. apply Nat.ltb_lt in Epos. destruct rest; [reflexivity|cbn [length] in Hlen1; lia]. }
          subst rest. rewrite Hc1, Hbl, concat_app. cbn [concat]. rewrite app_nil_r, app_assoc. reflexivity.
        + cbn [length] in Hlen1. apply Nat.ltb_ge in Epos. lia. }
    destruct Hall as (all & Hall & Eall).
    destruct (match blocks1 with
              | b :: rest => if (0 <? rem - 64 * length taken)%nat then (cur1 ++ b, rem, rest)
                             else (cur1, (64 * length taken)%nat, blocks1)
              | [] => (cur1, (64 * length taken)%nat, blocks1)
              end) as [[cur2 processed] blocks2].
    injection Hall as -> ->.
    destruct (Hends [] blocks eq_refl Hblne) as (x & Hx).
    assert (Hrev : rev all = q :: rev (cur0 ++ x)).
    { rewrite Eall, Hx, app_assoc, rev_app_distr. reflexivity. }
    rewrite Hrev. rewrite Nat.eqb_refl. cbv zeta. rewrite Hin, Herr.
    replace (negb ((byte_at msg q =? cRBRACE) || (byte_at msg q =? cRBRACK))) with false by (destruct Hq as [-> | ->]; reflexivity).
    cbn [orb negb andb o_ok o_bufs].
    assert (Hallne : all <> []).
    { intros E. rewrite E in Hrev. discriminate. }
    split; [|split].
    + destruct all; [congruence|]. cbn [length]. apply Nat.ltb_lt. lia.
    + rewrite concat_rev_cons, Eall. reflexivity.
    + cbn [rev]. apply Forall_app. split; [apply Forall_rev; exact Hsent|]. constructor; [exact Hallne|constructor].
  - (* more blocks remain: the buffer is full *)
    apply Nat.leb_gt in Efin.
    assert (HT : (T_nat <= length cur1)%nat).
    { destruct Hor as [Hor|[Hor|Hor]]; [exact Hor|lia|]. rewrite Hor in Hlen1. cbn [length] in Hlen1. lia. }
    assert (Htk : (1 <= length taken)%nat).
    { destruct taken; [|cbn [length]; lia]. cbn [concat] in Hc1. rewrite app_nil_r in Hc1. subst cur1.
      rewrite T_nat_val in HT. lia. }
    destruct (rev cur1) as [|lastp before] eqn:Erev.
    { apply (f_equal (@length nat)) in Erev. rewrite rev_length in Erev. cbn [length] in Erev. rewrite T_nat_val in HT. lia. }
    assert (Ec1 : cur1 = rev before ++ [lastp]).
    { rewrite <- (rev_involutive cur1), Erev. reflexivity. }
    assert (Hbefore : before <> []).
    { intros E. rewrite E in Ec1. rewrite Ec1 in HT. cbn [rev app length] in HT. rewrite T_nat_val in HT. lia. }
    replace (64 * length taken =? rem)%nat with false by lia.
    assert (Hrem' : (0 < rem - 64 * length taken)%nat) by lia.
    assert (Hlen' : length blocks1 = ((rem - 64 * length taken + 63) / 64)%nat) by lia.
    assert (Hfuel' : (length blocks1 < f)%nat).
    { rewrite Hbl, app_length in Hfuel. lia. }
    assert (Hends' : ends_q blocks1 q) by (rewrite Hbl in Hends; eapply ends_q_suffix; exact Hends).
    destruct (negb (is_markup (byte_at msg lastp))).
    + (* strip and carry *)
      specialize (IH (rem - 64 * length taken)%nat blocks1 (Some lastp) (rev before :: sent) (total + length before)%nat
                     Hrem' Hlen' Hfuel' Hends').
      cbv zeta in IH. destruct IH as (A & B & C).
      { constructor; [|exact Hsent]. intros E. apply Hbefore. rewrite <- (rev_involutive before), E. reflexivity. }
      split; [exact A|]. split; [|exact C].
      rewrite B, concat_rev_cons. fold cur0. rewrite Hbl, concat_app.
      rewrite <- !app_assoc. f_equal. rewrite (app_assoc cur0), <- Hc1, Ec1, <- app_assoc. reflexivity.
    + specialize (IH (rem - 64 * length taken)%nat blocks1 None (cur1 :: sent) (total + length cur1)%nat
                     Hrem' Hlen' Hfuel' Hends').
      cbv zeta in IH. destruct IH as (A & B & C).
      { constructor; [|exact Hsent]. intros E. rewrite E in HT. cbn [length] in HT. rewrite T_nat_val in HT. lia. }
      split; [exact A|]. split; [|exact C].
      rewrite B, concat_rev_cons. fold cur0. rewrite Hbl, concat_app. cbn [app].
      rewrite <- !app_assoc. f_equal. rewrite (app_assoc cur0), <- Hc1. reflexivity.
Qed.

(* ------------------------------------------------------------------ *)
(* the whole of stage 1                                                *)

Lemma markup_last_struct nd st c :
  is_markup c = true -> s_instr (fst (s1_step nd st c)) = false -> snd (s1_step nd st c) = true.
Proof.
  intros Hm. destruct (markup_codes c Hm) as (H1 & H2 & H3 & H4).
  unfold s1_step. cbn [fst snd s_instr]. rewrite Hm, H1, H2, H3.
  cbn [negb andb orb xorb]. rewrite xorb_false_r. intros ->. reflexivity.
Qed.

Theorem s1_buffers_ok msg init c pr ps :
  msg = init ++ [c] -> (b2n c = cRBRACE \/ b2n c = cRBRACK) ->
  s1_fold false s1_init 0 msg = (OutS pr, ps) ->
  o_ok (s1_buffers false msg) = true /\
  concat (o_bufs (s1_buffers false msg)) = ps /\
  Forall nonempty (o_bufs (s1_buffers false msg)).
Proof.
  intros Hmsg Hc Hfold.
  unfold s1_buffers, s1_all.
  destruct (s1_blocks_spec false (S (length msg / 64)) s1_init 0 msg) as (blocks & Hb & Hcat & Hl & Hq); [lia|].
  rewrite Hb, Hfold. cbn [fst].
  assert (Hmk : is_markup (b2n c) = true) by (destruct Hc as [-> | ->]; reflexivity).
  assert (Hstep : snd (s1_step false (fst (s1_fold false s1_init 0 init)) (b2n c)) = true).
  { apply markup_last_struct; [exact Hmk|].
    pose proof (s1_fold_app false init [c] s1_init 0) as Ha. rewrite <- Hmsg, Hfold, fold_single in Ha.
    apply (f_equal fst) in Ha. cbn [fst] in Ha. rewrite <- Ha. reflexivity. }
  pose proof (Hq init c Hmsg Hstep) as Hends. cbn [Nat.add] in Hends.
  assert (Hrem : (0 < length msg)%nat) by (rewrite Hmsg, app_length; cbn [length]; lia).
  destruct (s1_loop_ok msg (OutS pr) (length init) eq_refl eq_refl) with
    (fuel := S (length blocks)) (rem := length msg) (blocks := blocks) (stripped := @None nat)
    (sent := @nil (list nat)) (total := 0%nat) as (A & B & C); try assumption; try lia.
  { unfold byte_at, nth_b. rewrite Hmsg, app_nth2, Nat.sub_diag by lia. exact Hc. }
  { constructor. }
  cbv zeta in *. split; [exact A|]. split; [|exact C].
  rewrite B. cbn [rev concat app]. rewrite Hcat, Hfold. reflexivity.
Qed.

Print Assumptions s1_buffers_ok.
