(* NdRejectSim.v — the failure simulation for ParseND.
   The machine is fed with the NDJSON structurals of the message (an LF outside
   strings is a structural position).  The specification is run on one line
   at a time: [u] is the part of the current line still to be read (LF-free),
   [tail] the rest of the message after it (LF-free white space, then the end of
   the message or an LF).  Wherever the specification gives up on the line the
   machine cannot reach a successful outcome: it fails on a byte, fails on the
   LF that ends the line, or reaches the end of the message inside a container;
   or the final stage-1 state contradicts a positive stage-1 verdict.
   Outcomes are compared through [NOK l m]: no amount of fuel makes the run
   from label [l] and state [m] end in [Ok]; with the totality theorem this is
   the same as ending in [Err]. *)
From Coq Require Import ZifyBool ZifyN ZifyNat.
From SJ Require Import Model.Base Model.RefTables Spec.Json Model.Number Model.Str Model.Stage1.
From SJ Require Import Proofs.StrArith Proofs.StrProofs Proofs.NumLex Proofs.NumberProofs Proofs.TrimProofs.
From SJ Require Import Model.Stage2 Model.Driver Model.Tape Proofs.AtomProofs.
From SJ Require Import Proofs.Stage1Proofs Proofs.Stage1Buffers Proofs.Stage2Base Proofs.Stage2Proofs.
From SJ Require Import Proofs.Stage1Reject Proofs.AcceptProofs Proofs.RejectProofs.
From SJ Require Import Proofs.NdSpec Proofs.NdStage1 Proofs.NdMachine Proofs.NdRejectBase.
Open Scope N_scope.

(* ------------------------------------------------------------------ *)
(* general facts about the machine                                     *)

(* the fields through which the machine reads its input *)
Definition same_read (m m' : m2) : Prop :=
  idx1 m' = idx1 m /\ cur m' = cur m /\ whole m' = whole m /\ sfuel m' = sfuel m /\
  cbuf m' = cbuf m /\ rbufs m' = rbufs m.

Lemma same_read_refl m : same_read m m.
Proof. repeat split. Qed.

Lemma same_read_trans a b c : same_read a b -> same_read b c -> same_read a c.
Proof. intros (A1 & A2 & A3 & A4 & A5 & A6) (B1 & B2 & B3 & B4 & B5 & B6). repeat split; congruence. Qed.

Lemma scope_end_cases m c e st : stack m = e :: st ->
  scope_end m c = SCrash \/
  exists m3, scope_end m c = Next (cont_of (e mod 4)) m3 /\ stack m3 = st /\ same_read m m3.
Proof.
  intros Hst. unfold scope_end. rewrite Hst. unfold annotate.
  destruct (tlen (write_tape (set_stack m st) (e / 4) c) <=? e / 4); [left; reflexivity|].
  right. unfold cont_of.
  destruct (e mod 4 =? retArray); [|destruct (e mod 4 =? retObject)];
    (eexists; split; [reflexivity|]; split; [reflexivity|]; repeat split).
Qed.

Lemma cycle_root_cases m e : stack m = [e] ->
  (forall m', cycle_root m <> Ok m') \/
  exists m' e', cycle_root m = Ok m' /\ stack m' = [e'] /\ same_read m m'.
Proof.
  intros Hst. unfold cycle_root. rewrite Hst. unfold annotate.
  destruct (tlen (set_stack m []) <=? e / 4).
  - left. intros m'. cbn [obind]. discriminate.
  - right. cbn [obind]. eexists _, _. split; [reflexivity|]. split; [reflexivity|]. repeat split.
Qed.

Definition inner (l : label) : Prop :=
  match l with L_start | L_startContinue | L_ndSkip => False | _ => True end.

Lemma post_lf_inner copy l m : inner l -> post copy l m cLF = Fail.
Proof. destruct l; cbn [inner]; intros H; try contradiction; reflexivity. Qed.

Lemma vlabel_inner l ret cont : vlabel l ret cont -> inner l.
Proof. intros [(-> & _)|[(-> & _)|(-> & _)]]; exact I. Qed.

Lemma cont_of_mod t ret : ret < 4 -> cont_of ((t * 4 + ret) mod 4) = cont_of ret.
Proof. intros H. rewrite N.add_comm, N.mod_add by lia. rewrite N.mod_small by exact H. reflexivity. Qed.

Lemma lf_split_unique : forall (w w' y y' : bytes),
  w ++ bLF :: y = w' ++ bLF :: y' -> nolf w -> nolf w' -> w = w' /\ y = y'.
Proof.
  induction w as [|c w IH]; intros w' y y' H Hw Hw'.
  - destruct w' as [|c' w'']; [injection H as ->; auto|].
    cbn [app] in H. injection H as <- _. inversion Hw' as [|? ? Hc _]; subst. exfalso. apply Hc. reflexivity.
  - destruct w' as [|c' w''].
    + cbn [app] in H. injection H as -> _. inversion Hw as [|? ? Hc _]; subst. exfalso. apply Hc. reflexivity.
    + cbn [app] in H. injection H as -> H. inversion Hw; inversion Hw'; subst.
      destruct (IH w'' y y' H) as [-> ->]; auto.
Qed.

Section NdRej.
Variable copy : bool.
Variable msg : bytes.
Variable stF : s1st.
(* what a positive stage-1 verdict says about the final state *)
Hypothesis Hinstr : s_instr stF = false.
Hypothesis Herr : s_err stF = false.

(* ------------------------------------------------------------------ *)
(* invariants                                                          *)

Record mok (m : m2) : Prop := {
  ok_whole : whole m = msg;
  ok_sfuel : sfuel m = S (S (length msg));
  ok_rb : noempty (rbufs m)
}.

(* the machine has consumed the structurals before [s]; the pending increments
   are those of the NDJSON structural positions of [s] *)
Definition at_n (m : m2) (s : bytes) (pr : bool) : Prop :=
  exists pre, msg = pre ++ s /\
  (N.to_nat (idx1 m) <= length pre)%nat /\
  (idx1 m <> 0 -> cur m = skipn (N.to_nat (idx1 m) - 1) msg) /\
  fst (s1_fold true (OutS pr) (length pre) s) = stF /\
  pending m = incs (N.to_nat (idx1 m)) (snd (s1_fold true (OutS pr) (length pre) s)).

Lemma mok_same m m' : mok m -> same_read m m' -> mok m'.
Proof. intros [A B C] (E1 & E2 & E3 & E4 & E5 & E6). constructor; congruence. Qed.

Lemma at_n_same m m' s pr : at_n m s pr -> same_read m m' -> at_n m' s pr.
Proof.
  intros (pre & Hm & Hi & Hc & Hf & Hp) (E1 & E2 & E3 & E4 & E5 & E6).
  exists pre. unfold pending in *. rewrite E1, E2, E5, E6. repeat split; assumption.
Qed.

Lemma at_n_skip m w s pr : at_n m (w ++ s) pr -> allws w -> nolf w ->
  exists pr', (pr = true -> pr' = true) /\ (w <> [] -> pr' = true) /\ at_n m s pr'.
Proof.
  intros (pre & Hm & Hi & Hc & Hf & Hp) Hw Hn.
  destruct (fold_skip_nd w pr Hw Hn) as (pr' & H1 & H2 & H3).
  exists pr'. split; [exact H1|]. split; [exact H2|].
  exists (pre ++ w). rewrite app_length. rewrite H3 in Hf, Hp.
  split; [rewrite <- app_assoc; exact Hm|]. split; [lia|]. split; [exact Hc|]. split; assumption.
Qed.

(* the current line: [u] is LF-free; the machine stands before [u ++ tail] *)
Record ctx (m : m2) (u tail : bytes) (pr : bool) : Prop := {
  c_ok : mok m;
  c_at : at_n m (u ++ tail) pr;
  c_nolf : nolf u;
  c_tail : tail_ok tail
}.

Lemma ctx_same m m' u tail pr : ctx m u tail pr -> same_read m m' -> ctx m' u tail pr.
Proof.
  intros [A B C D] H. constructor; [eapply mok_same; eassumption|eapply at_n_same; eassumption|exact C|exact D].
Qed.

Lemma nolf_skip_ws u : nolf u -> nolf (skip_ws u).
Proof.
  intros H. destruct (skip_ws_split u) as (w & Hu & _). rewrite Hu in H. apply nolf_app in H. tauto.
Qed.

Lemma ctx_skip m u tail pr : ctx m u tail pr ->
  exists pr', (pr = true -> pr' = true) /\ ctx m (skip_ws u) tail pr'.
Proof.
  intros [A B C D]. destruct (skip_ws_split u) as (w & Hu & Hw).
  assert (Hnw : nolf w) by (rewrite Hu in C; apply nolf_app in C; tauto).
  rewrite Hu, <- app_assoc in B.
  destruct (at_n_skip m w _ pr B Hw Hnw) as (pr' & H1 & _ & H3).
  exists pr'. split; [exact H1|]. constructor; [exact A|exact H3|apply nolf_skip_ws; exact C|exact D].
Qed.

(* ------------------------------------------------------------------ *)
(* runs that cannot succeed                                            *)

Definition NOK (l : label) (m : m2) : Prop := forall fuel m', run_labels fuel copy l m <> Ok m'.

Lemma nok_fail l m : step copy l m = Fail -> NOK l m.
Proof. intros H [|f] m'; cbn [run_labels]; [discriminate|]. rewrite H. discriminate. Qed.

Lemma nok_crash l m : step copy l m = SCrash -> NOK l m.
Proof. intros H [|f] m'; cbn [run_labels]; [discriminate|]. rewrite H. discriminate. Qed.

Lemma nok_next l m l1 m1 : step copy l m = Next l1 m1 -> NOK l1 m1 -> NOK l m.
Proof. intros H H1 [|f] m'; cbn [run_labels]; [discriminate|]. rewrite H. apply H1. Qed.

Lemma nok_eof l m : update_char m = UDone m -> (2 <= length (stack m))%nat -> NOK l m.
Proof.
  intros Hu Hd [|f] m'; cbn [run_labels]; [discriminate|]. unfold step. rewrite Hu.
  unfold finish. destruct (stack m) as [|a [|b st]]; cbn [length] in Hd; try lia. discriminate.
Qed.

(* ------------------------------------------------------------------ *)
(* reading the next structural                                         *)

Lemma uc_core m pre1 b rest L :
  mok m -> msg = pre1 ++ b :: rest -> (N.to_nat (idx1 m) <= length pre1)%nat ->
  (idx1 m <> 0 -> cur m = skipn (N.to_nat (idx1 m) - 1) msg) ->
  pending m = incs (N.to_nat (idx1 m)) (length pre1 :: L) ->
  exists cb rb, cb ++ concat rb = incs (S (length pre1)) L /\ noempty rb /\
    update_char m = UChar (adv m (N.of_nat (S (length pre1))) (b :: rest) cb rb) (b2n b).
Proof.
  intros Hok Hm1 Hi Hc Hp. rewrite incs_cons in Hp.
  destruct (update_char_pending m _ _ (ok_rb m Hok) Hp) as (cb & rb & Hrest & Hrb & Hu).
  exists cb, rb. split; [exact Hrest|]. split; [exact Hrb|].
  set (d := (S (length pre1) - N.to_nat (idx1 m))%nat) in *.
  assert (Hd : (1 <= d)%nat) by (unfold d; lia).
  assert (Hncur : (if idx1 m =? 0 then skipn (d - 1) (whole m) else skipn d (cur m)) = b :: rest).
  { destruct (N.eqb_spec (idx1 m) 0) as [E0|E0].
    - rewrite (ok_whole m Hok). replace (d - 1)%nat with (length pre1) by (unfold d; lia).
      rewrite Hm1 at 1. rewrite skipn_app, Nat.sub_diag, skipn_all. reflexivity.
    - rewrite (Hc E0), skipn_skipn'.
      replace (N.to_nat (idx1 m) - 1 + d)%nat with (length pre1) by (unfold d; lia).
      rewrite Hm1 at 1. rewrite skipn_app, Nat.sub_diag, skipn_all. reflexivity. }
  assert (Hi1 : idx1 m + N.of_nat d = N.of_nat (S (length pre1))) by (unfold d; lia).
  rewrite Hu. cbv zeta. rewrite Hncur, Hi1.
  replace ((d =? 0)%nat) with false by lia. reflexivity.
Qed.

(* a token [b :: t] whose first byte is the structural position *)
Lemma read_n m pr w b t r pr2 :
  mok m -> at_n m (w ++ (b :: t) ++ r) pr -> allws w -> nolf w ->
  (forall pr' p, (pr = true -> pr' = true) -> (w <> [] -> pr' = true) ->
     s1_fold true (OutS pr') p ((b :: t) ++ r) = consp p (s1_fold true (OutS pr2) (p + S (length t)) r)) ->
  exists i1 cb rb,
    let m1 := adv m i1 ((b :: t) ++ r) cb rb in
    update_char m = UChar m1 (b2n b) /\ mok m1 /\ at_n m1 r pr2.
Proof.
  intros Hok Hat Hw Hn Hfold.
  destruct (at_n_skip m w _ pr Hat Hw Hn) as (pr' & H1 & H2 & (pre1 & Hm1 & Hi & Hc & Hf & Hp)).
  rewrite (Hfold pr' _ H1 H2) in Hf, Hp. cbn [consp fst snd] in Hf, Hp.
  destruct (uc_core m pre1 b (t ++ r) _ Hok Hm1 Hi Hc Hp) as (cb & rb & Hrest & Hrb & Hu).
  exists (N.of_nat (S (length pre1))), cb, rb. cbv zeta.
  split; [exact Hu|]. split.
  - destruct Hok as [A B C]. constructor; msimpl; assumption.
  - exists (pre1 ++ b :: t). msimpl. rewrite Nat2N.id, app_length. cbn [length].
    split; [rewrite <- app_assoc; exact Hm1|]. split; [lia|].
    split.
    { intros _. replace (S (length pre1) - 1)%nat with (length pre1) by lia.
      rewrite Hm1 at 1. rewrite skipn_app, Nat.sub_diag, skipn_all. reflexivity. }
    split; [exact Hf|]. unfold pending. msimpl. exact Hrest.
Qed.

(* only the first byte: enough when the step fails *)
Lemma read_first_n m pr w b r :
  mok m -> at_n m (w ++ b :: r) pr -> allws w -> nolf w ->
  (forall pr', (pr = true -> pr' = true) -> (w <> [] -> pr' = true) ->
     snd (s1_step true (OutS pr') (b2n b)) = true) ->
  exists i1 cb rb pr' p,
    update_char m = UChar (adv m i1 (b :: r) cb rb) (b2n b) /\
    fst (s1_fold true (fst (s1_step true (OutS pr') (b2n b))) p r) = stF.
Proof.
  intros Hok Hat Hw Hn Hs.
  destruct (at_n_skip m w _ pr Hat Hw Hn) as (pr' & H1 & H2 & (pre1 & Hm1 & Hi & Hc & Hf & Hp)).
  cbn [s1_fold] in Hf, Hp. rewrite (Hs pr' H1 H2) in Hf, Hp. cbn [consp fst snd] in Hf, Hp.
  destruct (uc_core m pre1 b r _ Hok Hm1 Hi Hc Hp) as (cb & rb & _ & _ & Hu).
  exists (N.of_nat (S (length pre1))), cb, rb, pr', (S (length pre1)). split; [exact Hu|exact Hf].
Qed.

(* the same in the context of a line *)
Lemma skip_ws_neq u : skip_ws u <> u -> exists w0 s', u = w0 :: s' /\ is_json_ws (b2n w0) = true.
Proof.
  destruct u as [|w0 s']; [intros H; exfalso; apply H; reflexivity|].
  cbn [skip_ws]. destruct (is_json_ws (b2n w0)) eqn:E; [intros _; eauto|intros H; exfalso; apply H; reflexivity].
Qed.

Lemma split_flags u w : u = w ++ skip_ws u -> w <> [] -> skip_ws u <> u.
Proof.
  intros Hu Hw E. rewrite E in Hu. apply (f_equal (@length byte)) in Hu. rewrite app_length in Hu.
  destruct w; [congruence|cbn [length] in Hu; lia].
Qed.

Lemma tok_step m u tail pr b t r pr2 :
  ctx m u tail pr -> skip_ws u = (b :: t) ++ r ->
  (forall pr' p r', (pr = true -> pr' = true) -> (skip_ws u <> u -> pr' = true) ->
     s1_fold false (OutS pr') p ((b :: t) ++ r') = consp p (s1_fold false (OutS pr2) (p + S (length t)) r')) ->
  exists i1 cb rb,
    let m1 := adv m i1 ((b :: t) ++ r ++ tail) cb rb in
    update_char m = UChar m1 (b2n b) /\ ctx m1 r tail pr2.
Proof.
  intros [Hok Hat Hnl Htl] Hsk Hfold.
  destruct (skip_ws_split u) as (w & Hu & Hw). rewrite Hsk in Hu.
  assert (Hnl' : nolf w /\ nolf (b :: t) /\ nolf r).
  { rewrite Hu in Hnl. apply nolf_app in Hnl. destruct Hnl as [A B]. apply nolf_app in B. tauto. }
  destruct Hnl' as (Hnw & Hnt & Hnr).
  rewrite Hu, <- !app_assoc in Hat.
  destruct (read_n m pr w b t (r ++ tail) pr2 Hok) as (i1 & cb & rb & H).
  - exact Hat.
  - exact Hw.
  - exact Hnw.
  - intros pr' p H1 H2.
    apply (fold_tok_nd (b :: t) (OutS pr') (OutS pr2) p Hnt).
    intros r'. apply Hfold; [exact H1|].
    intros Hne. apply H2. intros ->. apply Hne. rewrite Hsk. cbn [app] in Hu. exact (eq_sym Hu).
  - cbv zeta in H. destruct H as (Hu1 & Hok1 & Hat1).
    exists i1, cb, rb. cbv zeta.
    split; [exact Hu1|]. constructor; assumption.
Qed.

Lemma read_fail m u tail pr b r0 :
  ctx m u tail pr -> skip_ws u = b :: r0 -> sure pr u b ->
  exists i1 cb rb pr' p,
    update_char m = UChar (adv m i1 (b :: r0 ++ tail) cb rb) (b2n b) /\
    fst (s1_fold true (fst (s1_step true (OutS pr') (b2n b))) p (r0 ++ tail)) = stF.
Proof.
  intros [Hok Hat Hnl Htl] Hsk Hsure.
  destruct (skip_ws_split u) as (w & Hu & Hw). rewrite Hsk in Hu.
  assert (Hnw : nolf w) by (rewrite Hu in Hnl; apply nolf_app in Hnl; tauto).
  pose proof (skip_ws_head _ _ _ Hsk) as Hnws.
  rewrite Hu, <- app_assoc in Hat. cbn [app] in Hat.
  apply (read_first_n m pr w b (r0 ++ tail) Hok Hat Hw Hnw).
  intros pr' H1 H2. apply step_struct_nd; [exact Hnws|].
  destruct Hsure as [H|[(w0 & s' & E & Hw0)|H]]; [left; apply H1; exact H| |right; exact H].
  left. apply H2. intros ->. cbn [app] in Hu. rewrite Hu in E. injection E as <- _. congruence.
Qed.

(* ------------------------------------------------------------------ *)
(* the end of the line                                                 *)

Lemma eol m u tail pr w x :
  ctx m u tail pr -> skip_ws u = [] -> tail = w ++ x -> allws w -> nolf w ->
  (x = [] -> update_char m = UDone m) /\
  (forall y, x = bLF :: y ->
     exists i1 cb rb, let m1 := adv m i1 (bLF :: y) cb rb in
       update_char m = UChar m1 cLF /\ mok m1 /\ at_n m1 y true).
Proof.
  intros [Hok Hat Hnl Htl] Hsk -> Hw Hnw.
  assert (Hu : allws u).
  { destruct (skip_ws_split u) as (w0 & Hu & Hw0). rewrite Hsk, app_nil_r in Hu. subst w0. exact Hw0. }
  assert (Huw : allws (u ++ w)) by (apply Forall_app; split; assumption).
  assert (Hnuw : nolf (u ++ w)) by (apply Forall_app; split; assumption).
  rewrite app_assoc in Hat.
  split.
  - intros ->. rewrite app_nil_r in Hat.
    rewrite <- (app_nil_r (u ++ w)) in Hat.
    destruct (at_n_skip m (u ++ w) [] pr Hat Huw Hnuw) as (pr' & _ & _ & (pre & _ & _ & _ & _ & Hp)).
    cbn [s1_fold snd] in Hp. rewrite incs_nil in Hp.
    apply update_char_done; [exact (ok_rb m Hok)|exact Hp].
  - intros y ->.
    destruct (read_n m pr (u ++ w) bLF [] y true Hok) as (i1 & cb & rb & H); try assumption.
    + intros pr' p _ _. cbn [app length]. rewrite fold_lf_nd by reflexivity.
      replace (p + 1)%nat with (S p) by lia. reflexivity.
    + exists i1, cb, rb. exact H.
Qed.

(* inside a container the end of the line is fatal *)
Lemma nok_eol m u tail pr l :
  ctx m u tail pr -> skip_ws u = [] -> inner l -> (2 <= length (stack m))%nat -> NOK l m.
Proof.
  intros Hctx Hsk Hin Hd.
  destruct (c_tail _ _ _ _ Hctx) as (w & x & Et & Hw & Hnw & Hx).
  destruct (eol m u tail pr w x Hctx Hsk Et Hw Hnw) as [H1 H2].
  destruct Hx as [-> | (y & ->)].
  - apply nok_eof; [exact (H1 eq_refl)|exact Hd].
  - destruct (H2 y eq_refl) as (i1 & cb & rb & Hu & _). cbv zeta in Hu.
    apply nok_fail. rewrite (step_post copy l m _ _ Hu). apply post_lf_inner. exact Hin.
Qed.


(* ------------------------------------------------------------------ *)
(* single steps on well-formed tokens                                  *)

Lemma ctx_msg m u tail pr : ctx m u tail pr -> exists pre, msg = pre ++ u ++ tail.
Proof. intros [_ (pre & Hm & _) _ _]. exists pre. exact Hm. Qed.

Lemma markup_read m u tail pr b r0 :
  ctx m u tail pr -> skip_ws u = b :: r0 -> is_markup (b2n b) = true ->
  exists i1 cb rb, let m1 := adv m i1 (b :: r0 ++ tail) cb rb in
    update_char m = UChar m1 (b2n b) /\ ctx m1 r0 tail true.
Proof.
  intros Hctx Hsk Hmk.
  destruct (tok_step m u tail pr b [] r0 true Hctx Hsk) as (i1 & cb & rb & H).
  - intros pr' p r' _ _. cbn [app length]. rewrite fold_markup by exact Hmk.
    replace (p + 1)%nat with (S p) by lia. reflexivity.
  - exists i1, cb, rb. exact H.
Qed.

(* opening a container from a value position *)
Lemma open_v m u tail b r0 l ret cont lb :
  ctx m u tail true -> skip_ws u = b :: r0 -> vlabel l ret cont ->
  (l = L_arrBegin -> (b2n b =? cRBRACK) = false) ->
  ((b2n b = cLBRACE /\ lb = L_objBegin) \/ (b2n b = cLBRACK /\ lb = L_arrBegin)) ->
  exists m2, step copy l m = Next lb m2 /\ ctx m2 r0 tail true /\ stack m2 = (tlen m * 4 + ret) :: stack m.
Proof.
  intros Hctx Hsk Hvl Hside Hcase.
  assert (Hmk : is_markup (b2n b) = true) by (destruct Hcase as [(-> & _)|(-> & _)]; reflexivity).
  destruct (markup_read m u tail true b r0 Hctx Hsk Hmk) as (i1 & cb & rb & Hu & Hctx1). cbv zeta in *.
  set (m1 := adv m i1 (b :: r0 ++ tail) cb rb) in *.
  exists (write_tape (push_scope m1 ret) 0 (b2n b)).
  split; [|split].
  - rewrite (step_vlabel2 copy l ret cont m m1 _ Hvl Hu Hside).
    destruct Hcase as [(E & ->)|(E & ->)]; rewrite E; reflexivity.
  - apply (ctx_same m1); [exact Hctx1|]. repeat split.
  - reflexivity.
Qed.

(* closing a container *)
Lemma close_n m u tail pr b r l e st :
  ctx m u tail pr -> skip_ws u = b :: r ->
  ((b2n b = cRBRACE /\ (l = L_objBegin \/ l = L_objCont)) \/ (b2n b = cRBRACK /\ (l = L_arrBegin \/ l = L_arrCont))) ->
  stack m = e :: st ->
  NOK l m \/ exists m', step copy l m = Next (cont_of (e mod 4)) m' /\ ctx m' r tail true /\ stack m' = st.
Proof.
  intros Hctx Hsk Hcase Hst.
  assert (Hmk : is_markup (b2n b) = true) by (destruct Hcase as [(-> & _)|(-> & _)]; reflexivity).
  destruct (markup_read m u tail pr b r Hctx Hsk Hmk) as (i1 & cb & rb & Hu & Hctx1). cbv zeta in *.
  set (m1 := adv m i1 (b :: r ++ tail) cb rb) in *.
  assert (Hse : step copy l m = scope_end m1 (b2n b)).
  { rewrite (step_uchar copy l m m1 _ Hu).
    destruct Hcase as [(-> & [-> | ->])|(-> & [-> | ->])]; reflexivity. }
  destruct (scope_end_cases m1 (b2n b) e st Hst) as [Hc|(m3 & Hn & Hst3 & Hsr)].
  - left. apply nok_crash. rewrite Hse. exact Hc.
  - right. exists m3. split; [rewrite Hse; exact Hn|]. split; [|exact Hst3].
    apply (ctx_same m1); assumption.
Qed.

(* a comma or a colon *)
Lemma markup_next m u tail pr b r l l' :
  ctx m u tail pr -> skip_ws u = b :: r ->
  ((l = L_objColon /\ b2n b = cCOLON /\ l' = L_objValue) \/
   (l = L_objCont /\ b2n b = cCOMMA /\ l' = L_objKey) \/
   (l = L_arrCont /\ b2n b = cCOMMA /\ l' = L_arrValue)) ->
  exists m', step copy l m = Next l' m' /\ ctx m' r tail true /\ stack m' = stack m.
Proof.
  intros Hctx Hsk Hcase.
  assert (Hmk : is_markup (b2n b) = true).
  { destruct Hcase as [(_ & -> & _)|[(_ & -> & _)|(_ & -> & _)]]; reflexivity. }
  destruct (markup_read m u tail pr b r Hctx Hsk Hmk) as (i1 & cb & rb & Hu & Hctx1). cbv zeta in *.
  eexists. split; [|split; [exact Hctx1|reflexivity]].
  rewrite (step_uchar copy l m _ _ Hu).
  destruct Hcase as [(-> & -> & ->)|[(-> & -> & ->)|(-> & -> & ->)]]; reflexivity.
Qed.

(* a string literal the specification accepts *)
Lemma spec_string_src f r0 str r' : spec_string f r0 [] = SOk (str, r') ->
  exists src, r0 = src ++ x22 :: r' /\ dec_rel src str /\ Forall (fun b => (b2n b <? 32) = false) src.
Proof.
  intros H.
  destruct (spec_string_dec _ _ _ _ _ H) as (src & dec' & Hs & Hd & Hrel). cbn [rev app] in Hd. subst dec'.
  destruct (spec_string_noctl _ _ _ _ _ H) as (src' & Hs' & Hall).
  assert (src' = src).
  { rewrite Hs in Hs'.
    assert (L : length src = length src').
    { apply (f_equal (@length byte)) in Hs'. rewrite !app_length in Hs'. cbn [length] in Hs'. lia. }
    apply (f_equal (firstn (length src))) in Hs'.
    rewrite firstn_app, Nat.sub_diag, firstn_O, app_nil_r, firstn_all in Hs'.
    rewrite L in Hs' at 1. rewrite firstn_app, Nat.sub_diag, firstn_O, app_nil_r, firstn_all in Hs'.
    symmetry. exact Hs'. }
  subst src'. exists src. auto.
Qed.

Lemma string_ok m u tail pr b r0 str r' f l l' :
  ctx m u tail pr -> skip_ws u = b :: r0 -> b2n b = cQUOTE -> spec_string f r0 [] = SOk (str, r') ->
  (forall m1, update_char m = UChar m1 cQUOTE -> step copy l m = do_string copy m1 (fun m'' => Next l' m'')) ->
  exists m', step copy l m = Next l' m' /\ ctx m' r' tail true /\ stack m' = stack m.
Proof.
  intros Hctx Hsk Hq Hspec Hstep.
  assert (Hb : b = x22) by (apply b2n_quote; exact Hq). subst b.
  destruct (spec_string_src f r0 str r' Hspec) as (src & Hr & Hrel & Hall).
  assert (Hsk' : skip_ws u = (x22 :: src ++ [x22]) ++ r').
  { rewrite Hsk, Hr. cbn [app]. rewrite <- app_assoc. reflexivity. }
  destruct (tok_step m u tail pr x22 (src ++ [x22]) r' true Hctx Hsk') as (i1 & cb & rb & Hu & Hctx1).
  { intros pr' p r'' _ _. cbn [app]. rewrite <- app_assoc. cbn [app].
    rewrite (fold_string src str pr' p r'' Hrel Hall).
    assert (L : length (src ++ [x22]) = S (length src)) by (rewrite app_length; cbn [length]; lia).
    rewrite L. replace (p + length src + 2)%nat with (p + S (S (length src)))%nat by lia. reflexivity. }
  cbv zeta in *.
  set (m1 := adv m i1 ((x22 :: src ++ [x22]) ++ r' ++ tail) cb rb) in *.
  assert (Hcur : cur m1 = x22 :: r0 ++ tail).
  { unfold m1. msimpl. rewrite Hr. cbn [app]. rewrite <- !app_assoc. reflexivity. }
  destruct (ctx_msg m u tail pr Hctx) as (pre & Hm).
  assert (Hfuel : (length (r0 ++ tail) < sfuel m1)%nat).
  { unfold m1. msimpl. rewrite (ok_sfuel m (c_ok _ _ _ _ Hctx)).
    destruct (skip_ws_split u) as (w & Hw & _). rewrite Hsk in Hw.
    rewrite Hm, Hw, !app_length. cbn [length]. rewrite ?app_length. lia. }
  pose proof (spec_string_app _ _ _ _ _ tail Hspec) as Hspec'.
  destruct (parse_string_model_correct (r0 ++ tail) f str (r' ++ tail) x22 (idx1 m1 - 1) (peek_size m1) copy (slen m1) (sfuel m1) Hspec' Hfuel)
    as (src3 & pr3 & _ & Hps & _).
  rewrite <- Hcur in Hps.
  pose proof (do_string_ok copy m1 (fun m'' => Next l' m'') pr3 Hps) as Hds.
  change (b2n x22) with cQUOTE in Hu.
  exists (str_state m1 pr3). split; [rewrite (Hstep m1 Hu); exact Hds|]. split; [|reflexivity].
  apply (ctx_same m1); [exact Hctx1|]. repeat split.
Qed.

(* a scalar token accepted by its validator *)
Lemma scalar_ok m u tail b t r' l cont (op : m2 -> m2) :
  ctx m u tail true -> skip_ws u = (b :: t) ++ r' -> forallb (fun b => plainc (b2n b)) (b :: t) = true ->
  (forall m1, same_read m1 (op m1) /\ stack (op m1) = stack m1) ->
  (forall m1, update_char m = UChar m1 (b2n b) -> cur m1 = (b :: t) ++ r' ++ tail -> step copy l m = Next cont (op m1)) ->
  exists m', step copy l m = Next cont m' /\ ctx m' r' tail false /\ stack m' = stack m.
Proof.
  intros Hctx Hsk Hpl Hop Hstep.
  destruct (tok_step m u tail true b t r' false Hctx Hsk) as (i1 & cb & rb & Hu & Hctx1).
  { intros pr' p r'' Hpr _. rewrite (Hpr eq_refl). rewrite fold_scalar by (try exact Hpl; discriminate).
    reflexivity. }
  cbv zeta in *.
  set (m1 := adv m i1 ((b :: t) ++ r' ++ tail) cb rb) in *.
  destruct (Hop m1) as [Hsr Hst].
  exists (op m1). split; [apply Hstep; [exact Hu|reflexivity]|]. split; [|rewrite Hst; reflexivity].
  apply (ctx_same m1); assumption.
Qed.

(* ------------------------------------------------------------------ *)
(* failing steps                                                       *)

Lemma nok_read m u tail pr b r0 l :
  ctx m u tail pr -> skip_ws u = b :: r0 -> sure pr u b ->
  (forall m1, update_char m = UChar m1 (b2n b) -> cur m1 = b :: r0 ++ tail -> sfuel m1 = sfuel m ->
     step copy l m = Fail) ->
  NOK l m.
Proof.
  intros Hctx Hsk Hsure H.
  destruct (read_fail m u tail pr b r0 Hctx Hsk Hsure) as (i1 & cb & rb & pr' & p & Hu & _).
  apply nok_fail. apply (H _ Hu); reflexivity.
Qed.

(* an ill-formed string literal *)
Lemma string_bad m u tail pr b r0 f l l' :
  ctx m u tail pr -> skip_ws u = b :: r0 -> b2n b = cQUOTE -> spec_string f r0 [] = SInvalid ->
  (forall m1, update_char m = UChar m1 cQUOTE -> step copy l m = do_string copy m1 (fun m'' => Next l' m'')) ->
  NOK l m.
Proof.
  intros Hctx Hsk Hq Hspec Hstep.
  assert (Hsure : sure pr u b) by (right; right; right; exact Hq).
  destruct (read_fail m u tail pr b r0 Hctx Hsk Hsure) as (i1 & cb & rb & pr' & p & Hu & Hfin).
  rewrite Hq in Hfin. rewrite s1_step_nd in Hfin by (unfold cQUOTE, cLF; lia).
  rewrite (step_quote_open pr' _ eq_refl) in Hfin. cbn [fst] in Hfin.
  rewrite fst_fold_nd in Hfin.
  pose proof (c_tail _ _ _ _ Hctx) as Htl.
  destruct (spec_invalid_cases2 _ _ _ Hspec)
    as [(pre & d & x & rest & Hs & Hd & Hp & Hx) | [(d & Hd & Hp) | (pre & d & q & Hs & Hd & Hq0 & Htq)]].
  - (* a control character inside the string: the error flag is up *)
    exfalso. rewrite Hs, <- app_assoc in Hfin. cbn [app] in Hfin.
    pose proof (fold_prefix_ctl pre d true p x (rest ++ tail) Hd Hp Hx) as E. rewrite Hfin, Herr in E. discriminate.
  - (* no closing quote on the line: the fold ends inside the string or with the error flag *)
    exfalso. rewrite s1_fold_app in Hfin. cbn [fst] in Hfin.
    pose proof (fold_unterminated r0 d true p Hd Hp) as E.
    destruct (fold_instr_tail false _ (p + length r0) tail Htl E) as [E1|E1]; rewrite Hfin in E1; congruence.
  - (* malformed escape: the string kernel fails *)
    apply nok_fail. rewrite Hq in Hu. rewrite (Hstep _ Hu).
    unfold do_string. msimpl. unfold parse_string_model, str_validate.
    rewrite Hs, <- app_assoc.
    assert (Hqne : q <> []) by (intros ->; unfold nth_b in Hq0; cbn in Hq0; discriminate).
    rewrite (str_reject _ pre d (q ++ tail)); [reflexivity|exact Hd| | |].
    + destruct q as [|q0 q']; [congruence|]. exact Hq0.
    + apply esc_tok_invalid_app; [exact Hqne|apply tail_ok_head; exact Htl|exact Htq].
    + rewrite (ok_sfuel m (c_ok _ _ _ _ Hctx)).
      destruct (ctx_msg m u tail pr Hctx) as (pre0 & Hm).
      destruct (skip_ws_split u) as (w & Hw & _). rewrite Hsk in Hw.
      rewrite Hm, Hw, Hs, !app_length. cbn [length]. rewrite ?app_length. lia.
Qed.


(* ------------------------------------------------------------------ *)
(* the statements of the simulation                                    *)

(* after a value: the machine is at the continuation label, before the rest
   [r] of the line *)
Definition conts (l : label) (m : m2) (cont : label) (r tail : bytes) : Prop :=
  exists m' pr', (NOK cont m' -> NOK l m) /\ ctx m' r tail pr' /\ stack m' = stack m /\ (pr' = true \/ delim r).

(* a value position *)
Definition vgoal (res : sres (doc * bytes)) (l : label) (m : m2) (cont : label) (tail : bytes) : Prop :=
  match res with
  | SOk (d, r) => NOK l m \/ conts l m cont r tail
  | SInvalid => NOK l m
  | _ => True
  end.

(* inside a container whose scope is [e] on top of [st] *)
Definition cgoal (res : sres (doc * bytes)) (l : label) (m : m2) (tail : bytes) (e : N) (st : list N) : Prop :=
  match res with
  | SOk (d, r) => NOK l m \/
      exists m', (NOK (cont_of (e mod 4)) m' -> NOK l m) /\ ctx m' r tail true /\ stack m' = st
  | SInvalid => NOK l m
  | _ => True
  end.

Lemma vgoal_nok res l m cont tail : NOK l m -> vgoal res l m cont tail.
Proof. intros H. destruct res as [[d r]| | |]; cbn [vgoal]; auto. Qed.

Lemma cgoal_nok res l m tail e st : NOK l m -> cgoal res l m tail e st.
Proof. intros H. destruct res as [[d r]| | |]; cbn [cgoal]; auto. Qed.

Lemma cgoal_lift res l m l1 m1 tail e st :
  (NOK l1 m1 -> NOK l m) -> cgoal res l1 m1 tail e st -> cgoal res l m tail e st.
Proof.
  intros Hl. destruct res as [[d r]| | |]; cbn [cgoal]; auto.
  intros [H|(m' & H1 & H2 & H3)]; [left; auto|]. right. exists m'. split; [|split]; auto.
Qed.

Lemma cgoal_to_vgoal res l m lb m2 tail e cont :
  step copy l m = Next lb m2 -> cont_of (e mod 4) = cont ->
  cgoal res lb m2 tail e (stack m) -> vgoal res l m cont tail.
Proof.
  intros Hs Hc. destruct res as [[d r]| | |]; cbn [cgoal vgoal]; auto.
  - intros [H|(m' & H1 & H2 & H3)]; [left; eapply nok_next; eassumption|].
    right. exists m', true. split; [|split; [exact H2|split; [exact H3|left; reflexivity]]].
    intros H. eapply nok_next; [exact Hs|]. apply H1. rewrite Hc. exact H.
  - intros H. eapply nok_next; eassumption.
Qed.

Definition N_V (f : nat) : Prop := forall u tail m l ret cont,
  vlabel l ret cont ->
  (l = L_arrBegin -> forall b r, skip_ws u = b :: r -> (b2n b =? cRBRACK) = false) ->
  ctx m u tail true -> (2 <= length (stack m))%nat ->
  vgoal (spec_value f u) l m cont tail.

Definition N_E (f : nat) : Prop := forall u tail acc m l e st,
  (l = L_arrBegin \/ l = L_arrValue) ->
  (l = L_arrBegin -> forall b r, skip_ws u = b :: r -> (b2n b =? cRBRACK) = false) ->
  ctx m u tail true -> stack m = e :: st -> st <> [] ->
  cgoal (spec_elems f u acc) l m tail e st.

Definition N_M (f : nat) : Prop := forall u tail acc m l e st,
  (l = L_objBegin \/ l = L_objKey) ->
  (l = L_objBegin -> forall b r, skip_ws u = b :: r -> (b2n b =? cRBRACE) = false) ->
  ctx m u tail true -> stack m = e :: st -> st <> [] ->
  cgoal (spec_members f u acc) l m tail e st.

Lemma depth2 (e : N) (st : list N) : st <> [] -> (2 <= length (e :: st))%nat.
Proof. destruct st; [congruence|cbn [length]; lia]. Qed.

(* inside a freshly opened container *)
Lemma arr_inside f r0 tail m e st :
  N_E f -> ctx m r0 tail true -> stack m = e :: st -> st <> [] ->
  cgoal (match skip_ws r0 with
         | b' :: r' => if b2n b' =? cRBRACK then SOk (DArr [], r') else spec_elems f (b' :: r') []
         | [] => SInvalid
         end) L_arrBegin m tail e st.
Proof.
  intros HE Hctx Hst Hne.
  destruct (skip_ws r0) as [|b' r'] eqn:Esk.
  - cbn [cgoal]. apply (nok_eol m r0 tail true L_arrBegin Hctx Esk I). rewrite Hst. apply depth2. exact Hne.
  - destruct (b2n b' =? cRBRACK) eqn:Eb.
    + cbn [cgoal]. apply N.eqb_eq in Eb.
      destruct (close_n m r0 tail true b' r' L_arrBegin e st Hctx Esk (or_intror (conj Eb (or_introl eq_refl))) Hst)
        as [H|(m' & Hs & Hc & Hst')]; [left; exact H|].
      right. exists m'. split; [intros H; eapply nok_next; eassumption|]. split; assumption.
    + destruct (ctx_skip m r0 tail true Hctx) as (pr' & Hpr & Hctx'). rewrite (Hpr eq_refl), Esk in Hctx'.
      apply (HE (b' :: r') tail [] m L_arrBegin e st (or_introl eq_refl)); try assumption.
      intros _ b r Hs. rewrite (skip_ws_nonws b' r' (skip_ws_head _ _ _ Esk)) in Hs. injection Hs as <- _. exact Eb.
Qed.

Lemma obj_inside f r0 tail m e st :
  N_M f -> ctx m r0 tail true -> stack m = e :: st -> st <> [] ->
  cgoal (match skip_ws r0 with
         | b' :: r' => if b2n b' =? cRBRACE then SOk (DObj [], r') else spec_members f (b' :: r') []
         | [] => SInvalid
         end) L_objBegin m tail e st.
Proof.
  intros HM Hctx Hst Hne.
  destruct (skip_ws r0) as [|b' r'] eqn:Esk.
  - cbn [cgoal]. apply (nok_eol m r0 tail true L_objBegin Hctx Esk I). rewrite Hst. apply depth2. exact Hne.
  - destruct (b2n b' =? cRBRACE) eqn:Eb.
    + cbn [cgoal]. apply N.eqb_eq in Eb.
      destruct (close_n m r0 tail true b' r' L_objBegin e st Hctx Esk (or_introl (conj Eb (or_introl eq_refl))) Hst)
        as [H|(m' & Hs & Hc & Hst')]; [left; exact H|].
      right. exists m'. split; [intros H; eapply nok_next; eassumption|]. split; assumption.
    + destruct (ctx_skip m r0 tail true Hctx) as (pr' & Hpr & Hctx'). rewrite (Hpr eq_refl), Esk in Hctx'.
      apply (HM (b' :: r') tail [] m L_objBegin e st (or_introl eq_refl)); try assumption.
      intros _ b r Hs. rewrite (skip_ws_nonws b' r' (skip_ws_head _ _ _ Esk)) in Hs. injection Hs as <- _. exact Eb.
Qed.

(* ------------------------------------------------------------------ *)
(* atoms                                                               *)

Lemma starts_with_codes p rest : starts_with p (of_codes p ++ rest) = Some rest.
Proof.
  unfold starts_with.
  assert (L : length (of_codes p) = length p) by (unfold of_codes; apply map_length).
  rewrite <- L.
  rewrite firstn_app, Nat.sub_diag, firstn_O, app_nil_r, firstn_all.
  rewrite bytes_eqb_refl.
  rewrite skipn_app, Nat.sub_diag, skipn_all. reflexivity.
Qed.

Lemma atom_case m u tail l cont b r0 c0 ct (isat : bytes -> bool) (tag : N) :
  let codes := c0 :: ct in
  (forall buf, isat buf = true <-> exists rest, buf = of_codes codes ++ rest /\ follows_ok rest = true) ->
  Forall (fun b => is_json_ws (b2n b) = false) (of_codes codes) ->
  forallb (fun b => plainc (b2n b)) (of_codes codes) = true ->
  (forall m1, update_char m = UChar m1 (b2n b) ->
     step copy l m = if isat (cur m1) then Next cont (write_tape m1 0 tag) else Fail) ->
  ctx m u tail true -> skip_ws u = b :: r0 ->
  match starts_with codes (b :: r0) with
  | Some r' => NOK l m \/ conts l m cont r' tail
  | None => NOK l m
  end.
Proof.
  intros codes Hspec Hnws Hpl Hstep Hctx Esk.
  assert (Hsure : sure true u b) by (left; reflexivity).
  pose proof (tail_ok_head tail (c_tail _ _ _ _ Hctx)) as Hth.
  destruct (starts_with codes (b :: r0)) as [r'|] eqn:Esw.
  - apply starts_with_split in Esw.
    destruct (follows_ok (r' ++ tail)) eqn:Hfol.
    + right. unfold codes in Esw. cbn [of_codes map] in Esw. injection Esw as -> ->.
      destruct (scalar_ok m u tail (n2b c0) (map n2b ct) r' l cont (fun m1 => write_tape m1 0 tag) Hctx Esk Hpl)
        as (m' & Hs & Hc & Hst).
      * intros m1. split; [repeat split|reflexivity].
      * intros m1 Hu Hcur. rewrite (Hstep m1 Hu), Hcur.
        replace (isat ((n2b c0 :: map n2b ct) ++ r' ++ tail)) with true; [reflexivity|].
        symmetry. apply Hspec. exists (r' ++ tail). split; [reflexivity|exact Hfol].
      * exists m', false. split; [intros H; eapply nok_next; eassumption|]. split; [exact Hc|]. split; [exact Hst|].
        right. destruct r' as [|x r'']; [exact I|]. apply follows_ok_delim. exact Hfol.
    + left. apply (nok_read m u tail true b r0 l Hctx Esk Hsure). intros m1 Hu Hcur _.
      rewrite (Hstep m1 Hu), Hcur.
      destruct (isat (b :: r0 ++ tail)) eqn:Ea; [|reflexivity]. exfalso.
      apply Hspec in Ea. destruct Ea as (rest & Er & Hf).
      change (b :: r0 ++ tail) with ((b :: r0) ++ tail) in Er. rewrite Esw, <- app_assoc in Er.
      apply app_inv_head in Er. subst rest. congruence.
  - apply (nok_read m u tail true b r0 l Hctx Esk Hsure). intros m1 Hu Hcur _.
    rewrite (Hstep m1 Hu), Hcur.
    destruct (isat (b :: r0 ++ tail)) eqn:Ea; [|reflexivity]. exfalso.
    apply Hspec in Ea. destruct Ea as (rest & Er & Hf).
    change (b :: r0 ++ tail) with ((b :: r0) ++ tail) in Er.
    destruct (app_prefix_ws _ _ _ _ Er Hnws Hth) as (rest' & Er').
    rewrite Er', starts_with_codes in Esw. discriminate.
Qed.

(* ------------------------------------------------------------------ *)
(* the simulation                                                      *)

Lemma NV_step f : N_E f -> N_M f -> N_V (S f).
Proof.
  intros HE HM u tail m l ret cont Hvl Hside Hctx Hdepth.
  destruct (vlabel_cont _ _ _ Hvl) as [Hcont Hret].
  rewrite spec_value_S.
  destruct (skip_ws u) as [|b r0] eqn:Esk.
  { cbn [vgoal]. exact (nok_eol m u tail true l Hctx Esk (vlabel_inner _ _ _ Hvl) Hdepth). }
  cbv zeta.
  assert (Hsure : sure true u b) by (left; reflexivity).
  assert (Hside' : l = L_arrBegin -> (b2n b =? cRBRACK) = false).
  { intros El. exact (Hside El b r0 eq_refl). }
  assert (Hne : stack m <> []) by (destruct (stack m); [cbn [length] in Hdepth; lia|discriminate]).
  pose proof (tail_ok_head tail (c_tail _ _ _ _ Hctx)) as Hth.
  destruct (b2n b =? cLBRACE) eqn:E1.
  { apply N.eqb_eq in E1.
    destruct (open_v m u tail b r0 l ret cont L_objBegin Hctx Esk Hvl Hside' (or_introl (conj E1 eq_refl)))
      as (m2 & Hs & Hc2 & Hst2).
    apply (cgoal_to_vgoal _ l m L_objBegin m2 tail (tlen m * 4 + ret) cont Hs).
    - rewrite cont_of_mod by exact Hret. symmetry. exact Hcont.
    - apply obj_inside; assumption. }
  destruct (b2n b =? cLBRACK) eqn:E2.
  { apply N.eqb_eq in E2.
    destruct (open_v m u tail b r0 l ret cont L_arrBegin Hctx Esk Hvl Hside' (or_intror (conj E2 eq_refl)))
      as (m2 & Hs & Hc2 & Hst2).
    apply (cgoal_to_vgoal _ l m L_arrBegin m2 tail (tlen m * 4 + ret) cont Hs).
    - rewrite cont_of_mod by exact Hret. symmetry. exact Hcont.
    - apply arr_inside; assumption. }
  destruct (b2n b =? cQUOTE) eqn:E3.
  { apply N.eqb_eq in E3.
    assert (Hstr : forall m1, update_char m = UChar m1 cQUOTE ->
              step copy l m = do_string copy m1 (fun m'' => Next cont m'')).
    { intros m1 Hu. rewrite (step_vlabel2 copy l ret cont m m1 _ Hvl Hu) by reflexivity.
      apply value_switch_quote. reflexivity. }
    destruct (spec_string f r0 []) as [[str r']| | |] eqn:Es; cbn [vgoal]; try exact I.
    - right. destruct (string_ok m u tail true b r0 str r' f l cont Hctx Esk E3 Es Hstr) as (m' & Hs & Hc & Hst).
      exists m', true. split; [intros H; eapply nok_next; eassumption|]. auto.
    - exact (string_bad m u tail true b r0 f l cont Hctx Esk E3 Es Hstr). }
  destruct (b2n b =? c_t) eqn:E4.
  { apply N.eqb_eq in E4.
    pose proof (atom_case m u tail l cont b r0 116 [114; 117; 101] is_true_atom c_t true_atom_spec
                  ltac:(repeat constructor) eq_refl) as H.
    cbv zeta in H. specialize (fun Hs => H Hs Hctx Esk).
    destruct (starts_with [116; 114; 117; 101] (b :: r0)) as [r'|]; cbn [vgoal]; apply H;
      intros m1 Hu; rewrite (step_vlabel2 copy l ret cont m m1 _ Hvl Hu) by (intros _; rewrite E4; reflexivity);
      apply value_switch_t; exact E4. }
  destruct (b2n b =? c_f) eqn:E5.
  { apply N.eqb_eq in E5.
    pose proof (atom_case m u tail l cont b r0 102 [97; 108; 115; 101] is_false_atom c_f false_atom_spec
                  ltac:(repeat constructor) eq_refl) as H.
    cbv zeta in H. specialize (fun Hs => H Hs Hctx Esk).
    destruct (starts_with [102; 97; 108; 115; 101] (b :: r0)) as [r'|]; cbn [vgoal]; apply H;
      intros m1 Hu; rewrite (step_vlabel2 copy l ret cont m m1 _ Hvl Hu) by (intros _; rewrite E5; reflexivity);
      apply value_switch_f; exact E5. }
  destruct (b2n b =? c_n) eqn:E6.
  { apply N.eqb_eq in E6.
    pose proof (atom_case m u tail l cont b r0 110 [117; 108; 108] is_null_atom c_n null_atom_spec
                  ltac:(repeat constructor) eq_refl) as H.
    cbv zeta in H. specialize (fun Hs => H Hs Hctx Esk).
    destruct (starts_with [110; 117; 108; 108] (b :: r0)) as [r'|]; cbn [vgoal]; apply H;
      intros m1 Hu; rewrite (step_vlabel2 copy l ret cont m m1 _ Hvl Hu) by (intros _; rewrite E6; reflexivity);
      apply value_switch_n; exact E6. }
  destruct ((b2n b =? cMINUS) || is_digit (b2n b)) eqn:E7.
  2:{ cbn [vgoal]. apply (nok_read m u tail true b r0 l Hctx Esk Hsure). intros m1 Hu Hcur _.
      rewrite (step_vlabel2 copy l ret cont m m1 _ Hvl Hu Hside').
      apply value_switch_other; assumption. }
  assert (Hnb : (b2n b =? cRBRACK) = false).
  { unfold is_digit, cMINUS, c0, c9, cRBRACK in *. lia. }
  pose proof (lex_number_ext (b :: r0) tail ltac:(discriminate) Hth) as Hext.
  change ((b :: r0) ++ tail) with (b :: r0 ++ tail) in Hext.
  assert (Hnum : forall m1, update_char m = UChar m1 (b2n b) -> cur m1 = b :: r0 ++ tail ->
            step copy l m = match parse_number_model (b :: r0 ++ tail) with
                            | Some (w1, w2) => Next cont (write_raw2 m1 w1 w2)
                            | None => Fail
                            end).
  { intros m1 Hu Hcur. rewrite (step_vlabel2 copy l ret cont m m1 _ Hvl Hu) by (intros _; exact Hnb).
    rewrite value_switch_num by exact E7. rewrite Hcur. reflexivity. }
  destruct (lex_number (b :: r0)) as [[lit r']|] eqn:El.
  2:{ cbn [vgoal]. apply (nok_read m u tail true b r0 l Hctx Esk Hsure). intros m1 Hu Hcur _.
      rewrite (Hnum m1 Hu Hcur).
      rewrite (number_model_reject b (r0 ++ tail) E7); [reflexivity|]. left. exact Hext. }
  pose proof (rest_ok_ext r' tail Hth) as Hrx.
  destruct (num_spec lit) as [n|] eqn:En.
  2:{ cbn [vgoal]. apply (nok_read m u tail true b r0 l Hctx Esk Hsure). intros m1 Hu Hcur _.
      rewrite (Hnum m1 Hu Hcur).
      destruct (rest_ok r') eqn:Hrest.
      - rewrite (number_model_nonfinite _ _ _ Hext); [reflexivity|congruence|exact En].
      - rewrite (number_model_reject b (r0 ++ tail) E7); [reflexivity|]. right. exists lit, (r' ++ tail). split; [exact Hext|congruence]. }
  cbn [vgoal].
  destruct (rest_ok r') eqn:Hrest.
  - right.
    destruct (lex_number_shape _ _ _ El) as (pc & Hpwf & Hren & _).
    destruct (render pc) as [|b' t] eqn:Er.
    { exfalso. apply (render_nonempty pc Hpwf). rewrite Er. reflexivity. }
    cbn [app] in Hren. injection Hren as <- Hr0.
    assert (Hpl : forallb (fun b => plainc (b2n b)) (b :: t) = true).
    { pose proof (partb_render pc Hpwf) as Hp. rewrite Er in Hp. rewrite forallb_forall in *.
      intros x Hx. apply partb_plainc. apply Hp. exact Hx. }
    assert (Esk' : skip_ws u = (b :: t) ++ r') by (rewrite Esk, Hr0; reflexivity).
    pose proof (number_model_correct _ _ _ Hext ltac:(congruence)) as Hnm. rewrite En in Hnm. cbn [option_map] in Hnm.
    destruct (scalar_ok m u tail b t r' l cont (fun m1 => write_raw2 m1 (fst (enc_num n)) (snd (enc_num n))) Hctx Esk' Hpl)
      as (m' & Hs & Hc & Hst).
    + intros m1. split; [repeat split|reflexivity].
    + intros m1 Hu Hcur.
      assert (Hcur' : cur m1 = b :: r0 ++ tail).
      { rewrite Hcur, Hr0. cbn [app]. rewrite <- app_assoc. reflexivity. }
      rewrite (Hnum m1 Hu Hcur'), Hnm. destruct (enc_num n). reflexivity.
    + exists m', false. split; [intros H; eapply nok_next; eassumption|]. split; [exact Hc|]. split; [exact Hst|].
      right. apply rest_ok_delim. exact Hrest.
  - left. apply (nok_read m u tail true b r0 l Hctx Esk Hsure). intros m1 Hu Hcur _.
    rewrite (Hnum m1 Hu Hcur).
    rewrite (number_model_reject b (r0 ++ tail) E7); [reflexivity|]. right. exists lit, (r' ++ tail). split; [exact Hext|congruence].
Qed.


Lemma NE_step f : N_V f -> N_E f -> N_E (S f).
Proof.
  intros HV HE u tail acc m l e st Hl Hside Hctx Hst Hne.
  rewrite spec_elems_S.
  assert (Hvl : vlabel l retArray L_arrCont).
  { destruct Hl as [-> | ->]; [right; right|right; left]; auto. }
  assert (Hdepth : (2 <= length (stack m))%nat) by (rewrite Hst; apply depth2; exact Hne).
  pose proof (HV u tail m l retArray L_arrCont Hvl Hside Hctx Hdepth) as G.
  destruct (spec_value f u) as [[v r1]| | |] eqn:Ev; cbn [vgoal] in G; cbn [cgoal]; try exact I; [|exact G].
  destruct G as [G|(m1 & pr1 & Hlead & Hc1 & Hst1 & Hd)]; [apply cgoal_nok; exact G|].
  apply (cgoal_lift _ l m L_arrCont m1 tail e st Hlead).
  rewrite Hst in Hst1.
  destruct (skip_ws r1) as [|b r'] eqn:Esk.
  { cbn [cgoal]. apply (nok_eol m1 r1 tail pr1 L_arrCont Hc1 Esk I). rewrite Hst1. apply depth2; exact Hne. }
  destruct (b2n b =? cCOMMA) eqn:Ec.
  - destruct (markup_next m1 r1 tail pr1 b r' L_arrCont L_arrValue Hc1 Esk) as (m2 & Hs2 & Hc2 & Hst2).
    { right; right. apply N.eqb_eq in Ec. auto. }
    apply (cgoal_lift _ L_arrCont m1 L_arrValue m2 tail e st (nok_next _ _ _ _ Hs2)).
    apply (HE r' tail (v :: acc) m2 L_arrValue e st (or_intror eq_refl)); try assumption.
    + intros E; discriminate E.
    + rewrite Hst2. exact Hst1.
  - destruct (b2n b =? cRBRACK) eqn:Eb.
    + cbn [cgoal]. apply N.eqb_eq in Eb.
      destruct (close_n m1 r1 tail pr1 b r' L_arrCont e st Hc1 Esk (or_intror (conj Eb (or_intror eq_refl))) Hst1)
        as [H|(m' & Hs & Hc & Hst')]; [left; exact H|].
      right. exists m'. split; [intros H; eapply nok_next; eassumption|]. split; assumption.
    + cbn [cgoal]. apply (nok_read m1 r1 tail pr1 b r' L_arrCont Hc1 Esk (sure_of_delim _ _ _ _ Esk Hd)).
      intros mx Hu _ _. rewrite (step_uchar copy _ _ _ _ Hu), Ec, Eb. reflexivity.
Qed.

Lemma NM_step f : N_V f -> N_M f -> N_M (S f).
Proof.
  intros HV HM u tail acc m l e st Hl Hside Hctx Hst Hne.
  rewrite spec_members_S.
  assert (Hdepth : (2 <= length (stack m))%nat) by (rewrite Hst; apply depth2; exact Hne).
  assert (Hin : inner l) by (destruct Hl as [-> | ->]; exact I).
  destruct (skip_ws u) as [|b r0] eqn:Esk.
  { cbn [cgoal]. exact (nok_eol m u tail true l Hctx Esk Hin Hdepth). }
  assert (Hsure : sure true u b) by (left; reflexivity).
  destruct (b2n b =? cQUOTE) eqn:Eq.
  2:{ cbn [cgoal]. apply (nok_read m u tail true b r0 l Hctx Esk Hsure). intros m1 Hu _ _.
      rewrite (step_uchar copy _ _ _ _ Hu). destruct Hl as [-> | ->]; rewrite Eq; [|reflexivity].
      rewrite (Hside eq_refl b r0 eq_refl). reflexivity. }
  apply N.eqb_eq in Eq.
  assert (Hstr : forall m1, update_char m = UChar m1 cQUOTE ->
            step copy l m = do_string copy m1 (fun m'' => Next L_objColon m'')).
  { intros m1 Hu. rewrite (step_uchar copy l m m1 _ Hu). destruct Hl as [-> | ->]; reflexivity. }
  destruct (spec_string f r0 []) as [[key r1]| | |] eqn:Es; cbn [cgoal]; try exact I.
  2:{ exact (string_bad m u tail true b r0 f l L_objColon Hctx Esk Eq Es Hstr). }
  (* key *)
  destruct (string_ok m u tail true b r0 key r1 f l L_objColon Hctx Esk Eq Es Hstr) as (m1 & Hs1 & Hc1 & Hst1).
  apply (cgoal_lift _ l m L_objColon m1 tail e st (nok_next _ _ _ _ Hs1)).
  rewrite Hst in Hst1.
  assert (Hd1 : (2 <= length (stack m1))%nat) by (rewrite Hst1; apply depth2; exact Hne).
  destruct (skip_ws r1) as [|b1 r2] eqn:Esk1.
  { cbn [cgoal]. exact (nok_eol m1 r1 tail true L_objColon Hc1 Esk1 I Hd1). }
  destruct (b2n b1 =? cCOLON) eqn:Ecol.
  2:{ cbn [cgoal]. apply (nok_read m1 r1 tail true b1 r2 L_objColon Hc1 Esk1 (or_introl eq_refl)). intros mx Hu _ _.
      rewrite (step_uchar copy _ _ _ _ Hu), Ecol. reflexivity. }
  apply N.eqb_eq in Ecol.
  (* colon *)
  destruct (markup_next m1 r1 tail true b1 r2 L_objColon L_objValue Hc1 Esk1) as (m2 & Hs2 & Hc2 & Hst2).
  { left. auto. }
  apply (cgoal_lift _ L_objColon m1 L_objValue m2 tail e st (nok_next _ _ _ _ Hs2)).
  rewrite Hst1 in Hst2.
  assert (Hd2 : (2 <= length (stack m2))%nat) by (rewrite Hst2; apply depth2; exact Hne).
  assert (Hvl : vlabel L_objValue retObject L_objCont) by (left; auto).
  pose proof (HV r2 tail m2 L_objValue retObject L_objCont Hvl ltac:(intros E; discriminate E) Hc2 Hd2) as G.
  destruct (spec_value f r2) as [[v r3]| | |] eqn:Ev; cbn [vgoal] in G; cbn [cgoal]; try exact I; [|exact G].
  (* value *)
  destruct G as [G|(m3 & pr3 & Hlead & Hc3 & Hst3 & Hd)]; [apply cgoal_nok; exact G|].
  apply (cgoal_lift _ L_objValue m2 L_objCont m3 tail e st Hlead).
  rewrite Hst2 in Hst3.
  assert (Hd3 : (2 <= length (stack m3))%nat) by (rewrite Hst3; apply depth2; exact Hne).
  destruct (skip_ws r3) as [|b3 r4] eqn:Esk3.
  { cbn [cgoal]. exact (nok_eol m3 r3 tail pr3 L_objCont Hc3 Esk3 I Hd3). }
  destruct (b2n b3 =? cCOMMA) eqn:Ec.
  - destruct (markup_next m3 r3 tail pr3 b3 r4 L_objCont L_objKey Hc3 Esk3) as (m4 & Hs4 & Hc4 & Hst4).
    { right; left. apply N.eqb_eq in Ec. auto. }
    apply (cgoal_lift _ L_objCont m3 L_objKey m4 tail e st (nok_next _ _ _ _ Hs4)).
    apply (HM r4 tail ((key, v) :: acc) m4 L_objKey e st (or_intror eq_refl)); try assumption.
    + intros E; discriminate E.
    + rewrite Hst4. exact Hst3.
  - destruct (b2n b3 =? cRBRACE) eqn:Eb.
    + cbn [cgoal]. apply N.eqb_eq in Eb.
      destruct (close_n m3 r3 tail pr3 b3 r4 L_objCont e st Hc3 Esk3 (or_introl (conj Eb (or_intror eq_refl))) Hst3)
        as [H|(m' & Hs & Hc & Hst')]; [left; exact H|].
      right. exists m'. split; [intros H; eapply nok_next; eassumption|]. split; assumption.
    + cbn [cgoal]. apply (nok_read m3 r3 tail pr3 b3 r4 L_objCont Hc3 Esk3 (sure_of_delim _ _ _ _ Esk3 Hd)).
      intros mx Hu _ _. rewrite (step_uchar copy _ _ _ _ Hu), Ec, Eb. reflexivity.
Qed.

Theorem nd_all : forall f, N_V f /\ N_E f /\ N_M f.
Proof.
  induction f as [|f (HV & HE & HM)].
  - split; [|split].
    + intros u tail m l ret cont _ _ _ _. exact I.
    + intros u tail acc m l e st _ _ _ _ _. exact I.
    + intros u tail acc m l e st _ _ _ _ _. exact I.
  - split; [|split].
    + apply NV_step; assumption.
    + apply NE_step; assumption.
    + apply NM_step; assumption.
Qed.


(* ------------------------------------------------------------------ *)
(* the root of a line                                                  *)

Definition root_entry (l : label) : Prop := l = L_start \/ l = L_ndSkip.

Lemma root_step l m m1 c e :
  root_entry l -> update_char m = UChar m1 c -> (c =? cLF) = false -> stack m1 = [e] ->
  step copy l m = SCrash \/
  exists mx e', same_read m1 mx /\ stack mx = [e'] /\ step copy l m = continue_root mx c.
Proof.
  intros [-> | ->] Hu Hc Hst; rewrite (step_uchar copy _ _ _ _ Hu).
  - right. exists m1, e. split; [apply same_read_refl|]. auto.
  - rewrite Hc. destruct (cycle_root_cases m1 e Hst) as [H|(m' & e' & H1 & H2 & H3)].
    + left. destruct (cycle_root m1) as [mm| | |] eqn:E; try reflexivity. exfalso. exact (H _ eq_refl).
    + right. exists m', e'. rewrite H1. auto.
Qed.

Lemma open_root m u tail b r0 l lb e :
  root_entry l -> ctx m u tail true -> stack m = [e] -> skip_ws u = b :: r0 ->
  ((b2n b = cLBRACE /\ lb = L_objBegin) \/ (b2n b = cLBRACK /\ lb = L_arrBegin)) ->
  NOK l m \/
  exists m2 e2 e1, step copy l m = Next lb m2 /\ ctx m2 r0 tail true /\ stack m2 = [e2; e1] /\
                   cont_of (e2 mod 4) = L_startContinue.
Proof.
  intros Hl Hctx Hst Hsk Hcase.
  assert (Hmk : is_markup (b2n b) = true) by (destruct Hcase as [(-> & _)|(-> & _)]; reflexivity).
  assert (Hnlf : (b2n b =? cLF) = false) by (destruct Hcase as [(-> & _)|(-> & _)]; reflexivity).
  destruct (markup_read m u tail true b r0 Hctx Hsk Hmk) as (i1 & cb & rb & Hu & Hctx1). cbv zeta in *.
  set (m1 := adv m i1 (b :: r0 ++ tail) cb rb) in *.
  destruct (root_step l m m1 (b2n b) e Hl Hu Hnlf Hst) as [Hc|(mx & e' & Hsr & Hstx & Hs)].
  - left. apply nok_crash. exact Hc.
  - right. exists (write_tape (push_scope mx retStart) 0 (b2n b)), (tlen mx * 4 + retStart), e'.
    split; [|split; [|split]].
    + rewrite Hs. unfold continue_root. destruct Hcase as [(-> & ->)|(-> & ->)]; reflexivity.
    + apply (ctx_same m1); [exact Hctx1|]. eapply same_read_trans; [exact Hsr|]. repeat split.
    + msimpl. rewrite Hstx. reflexivity.
    + rewrite cont_of_mod by reflexivity. reflexivity.
Qed.

Definition rgoal (res : sres (doc * bytes)) (l : label) (m : m2) (tail : bytes) : Prop :=
  match res with
  | SOk (d, r) => NOK l m \/
      (is_container d = true /\
       exists m' e', (NOK L_startContinue m' -> NOK l m) /\ ctx m' r tail true /\ stack m' = [e'])
  | SInvalid => NOK l m
  | _ => True
  end.

Lemma rgoal_nok res l m tail : NOK l m -> rgoal res l m tail.
Proof. intros H. destruct res as [[d r]| | |]; cbn [rgoal]; auto. Qed.

Lemma cgoal_to_rgoal res l m lb m2 tail e2 e1 :
  step copy l m = Next lb m2 -> cont_of (e2 mod 4) = L_startContinue ->
  (forall d r, res = SOk (d, r) -> is_container d = true) ->
  cgoal res lb m2 tail e2 [e1] -> rgoal res l m tail.
Proof.
  intros Hs Hc Hcont. destruct res as [[d r]| | |]; cbn [cgoal rgoal]; auto.
  - intros [H|(m' & H1 & H2 & H3)]; [left; eapply nok_next; eassumption|].
    right. split; [exact (Hcont d r eq_refl)|]. exists m', e1. split; [|split; assumption].
    intros H. eapply nok_next; [exact Hs|]. apply H1. rewrite Hc. exact H.
  - intros H. eapply nok_next; eassumption.
Qed.

Lemma root_line f u tail m l e :
  root_entry l -> ctx m u tail true -> stack m = [e] -> skip_ws u <> [] ->
  rgoal (spec_value f u) l m tail.
Proof.
  intros Hl Hctx Hst Hne.
  destruct f as [|f]; [exact I|].
  destruct (nd_all f) as (_ & HE & HM).
  rewrite spec_value_S.
  destruct (skip_ws u) as [|b r0] eqn:Esk; [congruence|]. cbv zeta.
  destruct (b2n b =? cLBRACE) eqn:E1.
  { apply N.eqb_eq in E1.
    destruct (open_root m u tail b r0 l L_objBegin e Hl Hctx Hst Esk (or_introl (conj E1 eq_refl)))
      as [H|(m2 & e2 & e1 & Hs & Hc2 & Hst2 & Hco)]; [apply rgoal_nok; exact H|].
    apply (cgoal_to_rgoal _ l m L_objBegin m2 tail e2 e1 Hs Hco).
    - intros d r Hres. destruct (skip_ws r0) as [|b' r']; [discriminate|].
      destruct (b2n b' =? cRBRACE); [injection Hres as <- _; reflexivity|].
      exact (spec_members_container _ _ _ _ _ Hres).
    - apply obj_inside; [exact HM|exact Hc2|exact Hst2|discriminate]. }
  destruct (b2n b =? cLBRACK) eqn:E2.
  { apply N.eqb_eq in E2.
    destruct (open_root m u tail b r0 l L_arrBegin e Hl Hctx Hst Esk (or_intror (conj E2 eq_refl)))
      as [H|(m2 & e2 & e1 & Hs & Hc2 & Hst2 & Hco)]; [apply rgoal_nok; exact H|].
    apply (cgoal_to_rgoal _ l m L_arrBegin m2 tail e2 e1 Hs Hco).
    - intros d r Hres. destruct (skip_ws r0) as [|b' r']; [discriminate|].
      destruct (b2n b' =? cRBRACK); [injection Hres as <- _; reflexivity|].
      exact (spec_elems_container _ _ _ _ _ Hres).
    - apply arr_inside; [exact HE|exact Hc2|exact Hst2|discriminate]. }
  (* the root is not a container: the machine fails on the first byte *)
  apply rgoal_nok.
  assert (Hsure : sure true u b) by (left; reflexivity).
  pose proof (skip_ws_head _ _ _ Esk) as Hnws.
  assert (Hnlf : (b2n b =? cLF) = false).
  { destruct (b2n b =? cLF) eqn:E; [|reflexivity]. apply N.eqb_eq in E. rewrite E in Hnws. discriminate. }
  destruct (read_fail m u tail true b r0 Hctx Esk Hsure) as (i1 & cb & rb & pr' & p & Hu & _).
  destruct (root_step l m _ (b2n b) e Hl Hu Hnlf Hst) as [Hc|(mx & e' & _ & _ & Hs)].
  - apply nok_crash. exact Hc.
  - apply nok_fail. rewrite Hs. unfold continue_root. rewrite E1, E2. reflexivity.
Qed.

(* ------------------------------------------------------------------ *)
(* the lines of the message                                            *)

Definition line_tail (rest : list bytes) : bytes :=
  match rest with [] => [] | _ :: _ => bLF :: join_lf rest end.

Lemma join_lf_tail l rest : join_lf (l :: rest) = l ++ line_tail rest.
Proof. destruct rest; [cbn [join_lf line_tail]; rewrite app_nil_r; reflexivity|reflexivity]. Qed.

Lemma line_tail_cases rest : line_tail rest = [] \/ exists y, line_tail rest = bLF :: y.
Proof. destruct rest; [left; reflexivity|right; eexists; reflexivity]. Qed.

Lemma nd_lines_invalid_ne acc : forall ls, nd_lines ls acc = SInvalid -> ls <> [].
Proof. intros [|l r] H; [discriminate|discriminate]. Qed.

(* at startContinue / ndSkip before a line end: the LF moves the machine to ndSkip *)
Lemma lf_step m u tail pr w y l :
  ctx m u tail pr -> skip_ws u = [] -> tail = w ++ bLF :: y -> allws w -> nolf w ->
  (l = L_startContinue \/ l = L_ndSkip) ->
  exists m1, step copy l m = Next L_ndSkip m1 /\ mok m1 /\ at_n m1 y true /\ stack m1 = stack m.
Proof.
  intros Hctx Hsk Et Hw Hnw Hl.
  destruct (eol m u tail pr w (bLF :: y) Hctx Hsk Et Hw Hnw) as [_ H2].
  destruct (H2 y eq_refl) as (i1 & cb & rb & Hu & Hok1 & Hat1). cbv zeta in *.
  eexists. split; [|split; [exact Hok1|split; [exact Hat1|reflexivity]]].
  rewrite (step_uchar copy l m _ _ Hu). destruct Hl as [-> | ->]; reflexivity.
Qed.

Lemma lines_nok : forall ls acc m l e,
  Forall nolf ls -> nd_lines ls acc = SInvalid ->
  root_entry l -> (l = L_start -> is_blank_line (hd [] ls) = false) ->
  mok m -> at_n m (join_lf ls) true -> stack m = [e] -> NOK l m.
Proof.
  induction ls as [|l1 rest IH]; intros acc m l e Hnl Hnd Hl Hfirst Hok Hat Hst; [discriminate|].
  inversion Hnl as [|? ? Hn1 Hnrest]; subst.
  rewrite join_lf_tail in Hat. cbn [nd_lines] in Hnd. cbn [hd] in Hfirst.
  destruct (is_blank_line l1) eqn:Eb.
  - (* a blank line *)
    assert (El : l = L_ndSkip) by (destruct Hl as [-> | ->]; [specialize (Hfirst eq_refl); discriminate|reflexivity]).
    subst l.
    pose proof (nd_lines_invalid_ne _ _ Hnd) as Hne.
    destruct rest as [|l2 rest']; [congruence|]. cbn [line_tail] in Hat.
    assert (Hsk : skip_ws l1 = []) by (unfold is_blank_line in Eb; destruct (skip_ws l1); [reflexivity|discriminate]).
    assert (Hctx : ctx m l1 (bLF :: join_lf (l2 :: rest')) true).
    { constructor; [exact Hok|exact Hat|exact Hn1|]. exists [], (bLF :: join_lf (l2 :: rest')).
      split; [reflexivity|]. split; [constructor|]. split; [constructor|]. right. eexists. reflexivity. }
    destruct (lf_step m l1 _ true [] (join_lf (l2 :: rest')) L_ndSkip Hctx Hsk eq_refl (Forall_nil _) (Forall_nil _) (or_intror eq_refl))
      as (m1 & Hs & Hok1 & Hat1 & Hst1).
    eapply nok_next; [exact Hs|].
    apply (IH acc m1 L_ndSkip e Hnrest Hnd (or_intror eq_refl)); try assumption.
    + intros E; discriminate E.
    + rewrite Hst1. exact Hst.
  - (* a line with a text *)
    set (t := rtrim_ws (skip_ws l1)) in *.
    destruct (skip_ws_split l1) as (w & Hl1 & Hw).
    destruct (rtrim_ws_split (skip_ws l1)) as (w2 & Hsk1 & Hw2). fold t in Hsk1.
    assert (Hnn : nolf w /\ nolf t /\ nolf w2).
    { rewrite Hl1, Hsk1 in Hn1. apply nolf_app in Hn1. destruct Hn1 as [A B]. apply nolf_app in B. tauto. }
    destruct Hnn as (Hnw & Hnt & Hnw2).
    assert (Hskt : skip_ws t <> []).
    { unfold is_blank_line in Eb. destruct (skip_ws l1) as [|b0 r0] eqn:E0; [discriminate|].
      pose proof (skip_ws_head _ _ _ E0) as Hb0.
      destruct t as [|t0 t'].
      - cbn [app] in Hsk1. subst w2. inversion Hw2; congruence.
      - cbn [app] in Hsk1. injection Hsk1 as <- _. rewrite (skip_ws_nonws _ _ Hb0). discriminate. }
    set (tail := w2 ++ line_tail rest).
    assert (Hat' : at_n m (w ++ t ++ tail) true).
    { unfold tail. rewrite Hl1, Hsk1, <- !app_assoc in Hat. exact Hat. }
    destruct (at_n_skip m w _ true Hat' Hw Hnw) as (pr' & Hpr & _ & Hat2). rewrite (Hpr eq_refl) in Hat2.
    assert (Htl : tail_ok tail).
    { exists w2, (line_tail rest). split; [reflexivity|]. split; [exact Hw2|]. split; [exact Hnw2|].
      apply line_tail_cases. }
    assert (Hctx : ctx m t tail true) by (constructor; assumption).
    pose proof (root_line (2 * length t + 2) t tail m l e Hl Hctx Hst Hskt) as G.
    (* what happens at startContinue after the text *)
    assert (Hafter : forall m' e' r, ctx m' r tail true -> stack m' = [e'] ->
              (skip_ws r <> [] \/ (skip_ws r = [] /\ exists acc', nd_lines rest acc' = SInvalid)) ->
              NOK L_startContinue m').
    { intros m' e' r Hc' Hst' [Hr|(Hr & acc' & Hnd')].
      - destruct (skip_ws r) as [|b r''] eqn:Er; [congruence|].
        apply (nok_read m' r tail true b r'' L_startContinue Hc' Er (or_introl eq_refl)).
        intros mx Hu _ _. rewrite (step_uchar copy _ _ _ _ Hu).
        pose proof (skip_ws_head _ _ _ Er) as Hb.
        destruct (b2n b =? cLF) eqn:E; [|reflexivity]. apply N.eqb_eq in E. rewrite E in Hb. discriminate.
      - pose proof (nd_lines_invalid_ne _ _ Hnd') as Hne.
        destruct rest as [|l2 rest']; [congruence|]. unfold tail in Hc'. cbn [line_tail] in Hc'.
        destruct (lf_step m' r _ true w2 (join_lf (l2 :: rest')) L_startContinue Hc' Hr eq_refl Hw2 Hnw2 (or_introl eq_refl))
          as (m1 & Hs & Hok1 & Hat1 & Hst1).
        eapply nok_next; [exact Hs|].
        apply (IH acc' m1 L_ndSkip e' Hnrest Hnd' (or_intror eq_refl)); try assumption.
        + intros E; discriminate E.
        + rewrite Hst1. exact Hst'. }
    destruct (spec_parse l1) as [d| | |] eqn:Esp; try discriminate Hnd.
    + (* an accepted line: the failure is further down *)
      destruct (spec_parse_ok l1 d Esp) as (Hv & Hcd & _). cbv zeta in Hv. fold t in Hv.
      rewrite Hv in G. cbn [rgoal] in G.
      destruct G as [G|(_ & m' & e' & Hlead & Hc' & Hst')]; [exact G|].
      apply Hlead. apply (Hafter m' e' [] Hc' Hst'). right. split; [reflexivity|]. exists (d :: acc). exact Hnd.
    + (* the bad line *)
      destruct (spec_parse_invalid l1 Esp) as [Ht|(_ & _ & Hlast & Hbad & _)]; cbv zeta in *; fold t in Ht || fold t in Hlast, Hbad.
      { rewrite Ht in Hskt. exfalso. apply Hskt. reflexivity. }
      destruct Hbad as [Hbad|(d & r & Hbad & Hwhy)]; rewrite Hbad in G; cbn [rgoal] in G; [exact G|].
      destruct G as [G|(Hcd & m' & e' & Hlead & Hc' & Hst')]; [exact G|].
      destruct Hwhy as [Hr|Hnc]; [|congruence].
      apply Hlead. apply (Hafter m' e' r Hc' Hst'). left.
      (* the last byte of [r] is the last byte of [t] *)
      intros Hsr. destruct (skip_ws_nil_last r Hsr Hr) as (init & c & Er & Hc).
      destruct (ctx_msg m t tail true Hctx) as (pre & Hm).
      destruct (ctx_msg m' r tail true Hc') as (pre' & Hm').
      rewrite Hm in Hm'. rewrite !app_assoc in Hm'. apply app_inv_tail in Hm'.
      destruct t as [|t0 t'] eqn:Et; [exfalso; apply Hskt; reflexivity|].
      destruct (@exists_last _ (t0 :: t') ltac:(discriminate)) as (tinit & tc & Etl).
      rewrite Etl, Er, !app_assoc in Hm'. apply app_inj_tail in Hm'. destruct Hm' as [_ <-].
      rewrite (Hlast _ _ Etl) in Hc. discriminate.
Qed.

End NdRej.

(* ------------------------------------------------------------------ *)
(* the two stages on a message whose lines the specification rejects    *)

Theorem nd_message_never_ok (copy : bool) (msg : bytes) :
  is_blank_line (hd [] (split_lf msg)) = false ->
  nd_lines (split_lf msg) [] = SInvalid ->
  o_ok (s1_buffers true msg) = true ->
  forall m', run2 copy msg (bufs_incs 0 (o_bufs (s1_buffers true msg))) <> Ok m'.
Proof.
  intros Hfirst Hnd Hok m'.
  assert (Hne : msg <> []) by (intros ->; cbn in Hfirst; discriminate).
  destruct (split_lf_spec msg) as (EJ & Hnl & _).
  destruct (s1_buffers_gen_nd msg Hne) as (Hnonempty & Hgood). cbv zeta in Hnonempty, Hgood.
  destruct (Hgood Hok) as (Hcat & Hinstr & Herr).
  set (o := s1_buffers true msg) in *.
  set (stF := fst (s1_fold true s1_init 0 msg)) in *.
  set (bufs := bufs_incs 0 (o_bufs o)).
  set (m0 := write_tape (push_scope (m2_init msg bufs) retStart) 0 TagRoot).
  assert (Hok0 : mok msg m0).
  { constructor; try reflexivity. unfold m0, bufs. msimpl. cbn [rbufs m2_init]. apply bufs_incs_noempty. exact Hnonempty. }
  assert (Hat0 : at_n msg stF m0 (join_lf (split_lf msg)) true).
  { rewrite EJ. exists []. cbn [app length]. split; [reflexivity|]. split; [cbn; lia|].
    split; [intros H; exfalso; apply H; reflexivity|]. split; [reflexivity|].
    change (pending m0) with (concat bufs). unfold bufs. rewrite bufs_incs_concat, Hcat. reflexivity. }
  pose proof (lines_nok copy msg stF Hinstr Herr (split_lf msg) [] m0 L_start (0 * 4 + retStart) Hnl Hnd
                (or_introl eq_refl) (fun _ => Hfirst) Hok0 Hat0 eq_refl) as H.
  unfold run2. cbv zeta. fold m0. apply H.
Qed.

Print Assumptions nd_message_never_ok.
