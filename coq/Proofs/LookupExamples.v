(* LookupExamples.v — the C12 theorems instantiated on the tape the modelled
   parser produces for a concrete document (with a duplicate key, nested
   objects, number and string arrays): the hypotheses are satisfiable, and the
   model functions evaluate to what the theorems say. *)
From SJ Require Import Model.Base Model.RefTables Spec.Json Spec.EditSpec Model.Tape
     Model.Iter Model.Walk Model.Edit Model.WF Model.Driver Model.Oracle.
From SJ Require Import Proofs.TapeBase Proofs.TapeSeg Proofs.TapeDen Proofs.TapePath
     Proofs.TapeEdit Proofs.TapeIter Proofs.TapeDelete Proofs.TapeWF Proofs.TapeWalk
     Proofs.TapeProofs
     Proofs.LookupBase Proofs.LookupFind Proofs.LookupPath Proofs.LookupEach Proofs.LookupNum
     Proofs.LookupBulk Proofs.LookupIface Proofs.LookupTop Proofs.LookupFinal.
From Coq Require Import Lia ZifyBool ZifyN ZifyNat.
From Coq Require Strings.String.
Open Scope N_scope.

Module Ex.
Import String.StringSyntax.
Local Open Scope string_scope.
Definition src : bytes :=
  Model.Oracle.lit "{""a"":{""b"":{""c"":7},""x"":1},""k"":[1,2.5,18446744073709551615],""a"":3,""s"":[""p"",""q""],""n"":[1,-2,3]}".
Definition ka := Model.Oracle.lit "a".
Definition kb := Model.Oracle.lit "b".
Definition kc := Model.Oracle.lit "c".
Definition kx := Model.Oracle.lit "x".
Definition kq := Model.Oracle.lit "q".
Definition kp := Model.Oracle.lit "p".
Definition kk := Model.Oracle.lit "k".
Definition ks := Model.Oracle.lit "s".
Definition kn := Model.Oracle.lit "n".
Definition kzz := Model.Oracle.lit "zz".
Local Close Scope string_scope.

Definition empty_pj : pjson := {| pj_tape := []; pj_strings := []; pj_msg := [] |}.

Definition ex_pj : pjson := Eval vm_compute in
  match Model.Driver.parse_model true src with
  | Ok p => {| pj_tape := p_tape p; pj_strings := p_strings p; pj_msg := p_msg p |}
  | _ => empty_pj
  end.

Example ex_parse :
  match Model.Driver.parse_model true src with
  | Ok p => {| pj_tape := p_tape p; pj_strings := p_strings p; pj_msg := p_msg p |} = ex_pj
  | _ => False
  end.
Proof. vm_compute. reflexivity. Qed.

Definition ex_a : doc := DObj [(kb, DObj [(kc, DNum (NInt 7))]); (kx, DNum (NInt 1))].
Definition ex_k : list doc :=
  [DNum (NInt 1); DNum (NFloat 4612811918334230528 0); DNum (NUint 18446744073709551615)].
Definition ex_s : list doc := [DStr kp; DStr kq].
Definition ex_n : list doc := [DNum (NInt 1); DNum (NInt (-2)); DNum (NInt 3)].
Definition ex_members : list (bytes * doc) :=
  [(ka, ex_a); (kk, DArr ex_k); (ka, DNum (NInt 3)); (ks, DArr ex_s); (kn, DArr ex_n)].
Definition ex_doc : doc := DObj ex_members.

Example ex_den : denote (pj_msg ex_pj) (pj_strings ex_pj) (pj_tape ex_pj) = Some [ex_doc].
Proof. vm_compute. reflexivity. Qed.

Lemma ex_sized : sized ex_pj.
Proof. split; vm_compute; reflexivity. Qed.

Lemma ex_ok : tape_ok ex_pj.
Proof. apply wf_false_tape_ok. vm_compute. reflexivity. Qed.

Lemma ex_w64 : words64 ex_pj.
Proof. apply words64_of_bool. vm_compute. reflexivity. Qed.

(* the iterator Advance + Root() gives, and the root Object *)
Definition root_it : iter := {| i_len := 51; i_off := 2; i_add := 0; i_cur := 51; i_t := 123 |}.
Definition o0 : cont := {| c_len := 51; c_off := 2 |}.

Example ex_api :
  (do r <- advance ex_pj (iter0 ex_pj); iter_root ex_pj (fst r)) = Ok (root_it, TypeObject) /\
  iter_object root_it = Ok o0.
Proof. vm_compute. split; reflexivity. Qed.

Lemma ex_root_den : DEN ex_pj root_it ex_doc.
Proof.
  destruct (C12_root_value ex_pj ex_doc [] ex_sized ex_ok ex_den) as (r & it & Ea & Er & Hd).
  vm_compute in Ea. injection Ea as <-. vm_compute in Er. injection Er as <-. exact Hd.
Qed.

Lemma ex_o0 : OBJ ex_pj o0 ex_members.
Proof.
  destruct (C12_object_of ex_pj root_it ex_members ex_root_den) as (o & E & Ho).
  vm_compute in E. injection E as <-. exact Ho.
Qed.

(* ---- FindKey: the FIRST "a" (an object), not the second (3) ---------- *)
Example ex_find_key :
  exists it, find_key ex_pj o0 ka = Ok (Found TypeObject it) /\ DEN ex_pj it ex_a.
Proof.
  destruct (C12_find_key ex_pj o0 ex_members ka ex_sized ex_o0) as (r & E & H).
  assert (Ea : abs_find_key ex_members ka = Some ex_a) by (vm_compute; reflexivity).
  rewrite Ea in H. destruct H as (it & -> & Hd). exists it. split; [exact E|exact Hd].
Qed.

Example ex_find_key_values :
  find_key ex_pj o0 ka = Ok (Found 7 {| i_len := 18; i_off := 5; i_add := 0; i_cur := 18; i_t := 123 |}) /\
  find_key ex_pj o0 kzz = Ok NotFound /\
  (do r <- find_key ex_pj o0 ka;
   match r with Found _ it => walk_value 60 ex_pj it | _ => Err end) = Ok ex_a.
Proof. vm_compute. repeat split; reflexivity. Qed.

Example ex_find_key_nil : find_key ex_pj o0 kzz = Ok NotFound.
Proof.
  apply (C12_find_key_nil ex_pj o0 ex_members kzz ex_sized ex_o0).
  vm_compute. intros [H|[H|[H|[H|[H|[]]]]]]; discriminate H.
Qed.

(* ---- FindPath / FindElement ------------------------------------------- *)
Example ex_find_path :
  (exists it, find_path ex_pj o0 [ka; kb; kc] = Ok (Found TypeInt it) /\ DEN ex_pj it (DNum (NInt 7))) /\
  find_path ex_pj o0 [ka; kq; kc] = Ok NotFound /\       (* key absent: ErrPathNotFound *)
  find_path ex_pj o0 [ka; kx; kc] = Ok OtherErr /\       (* runs through the number 1 *)
  find_path ex_pj o0 [kzz] = Ok NotFound.
Proof.
  split; [|split; [|split]].
  - destruct (C12_find_path ex_pj o0 ex_members [ka; kb; kc] ex_sized ex_o0) as (r & E & H).
    assert (Ea : abs_find_path (DObj ex_members) [ka; kb; kc] = LFound (DNum (NInt 7)))
      by (vm_compute; reflexivity).
    rewrite Ea in H. destruct H as (it & -> & Hd). exists it. split; [exact E|exact Hd].
  - apply (C12_find_path_outcomes ex_pj o0 ex_members _ ex_sized ex_o0). vm_compute. reflexivity.
  - apply (C12_find_path_outcomes ex_pj o0 ex_members _ ex_sized ex_o0). vm_compute. reflexivity.
  - apply (C12_find_path_outcomes ex_pj o0 ex_members _ ex_sized ex_o0). vm_compute. reflexivity.
Qed.

Example ex_find_element_top :
  exists it, find_element ex_pj (iter0 ex_pj) [ka; kb] = Ok (Found TypeObject it) /\
             DEN ex_pj it (DObj [(kc, DNum (NInt 7))]).
Proof.
  destruct (C12_find_element_top ex_pj [ex_doc] [ka; kb] ex_sized ex_ok ex_den) as (r & E & H).
  assert (Ea : abs_find_path ex_doc [ka; kb] = LFound (DObj [(kc, DNum (NInt 7))]))
    by (vm_compute; reflexivity).
  cbv iota in H. rewrite Ea in H. destruct H as (it & -> & Hd). exists it. split; [exact E|exact Hd].
Qed.

Example ex_find_values :
  find_path ex_pj o0 [ka; kb; kc] =
    Ok (Found 3 {| i_len := 12; i_off := 11; i_add := 1; i_cur := 0; i_t := 108 |}) /\
  find_element ex_pj (iter0 ex_pj) [ka; kb] =
    Ok (Found 7 {| i_len := 13; i_off := 8; i_add := 0; i_cur := 13; i_t := 123 |}) /\
  find_element ex_pj root_it [ka; kx] =
    Ok (Found 3 {| i_len := 17; i_off := 16; i_add := 1; i_cur := 0; i_t := 108 |}).
Proof. vm_compute. repeat split; reflexivity. Qed.

(* ---- ForEach ------------------------------------------------------------ *)

(* the keys of this object are NOT unique; without filter all members are
   visited *)
Example ex_foreach_all :
  exists cbs, obj_foreach ex_pj o0 [] = Ok cbs /\ Forall2 (callback_for true true ex_pj) cbs ex_members.
Proof. exact (C12_obj_foreach_all ex_pj o0 ex_members ex_sized ex_o0). Qed.

(* with the filter {a, s} (two distinct keys) the two members "a" use up the
   count and "s" is never visited: the behaviour outside the claim *)
Example ex_foreach_duplicates :
  (exists cbs, obj_foreach ex_pj o0 [ka; ks] = Ok cbs /\
     Forall2 (callback_for true true ex_pj) cbs [(ka, ex_a); (ka, DNum (NInt 3))]) /\
  option_map (map fst) (match obj_foreach ex_pj o0 [ka; ks] with Ok l => Some l | _ => None end)
    = Some [ka; ka] /\
  abs_foreach ex_members [ka; ks] = [(ka, ex_a); (ka, DNum (NInt 3)); (ks, DArr ex_s)].
Proof.
  split; [|split; vm_compute; reflexivity].
  destruct (C12_obj_foreach_duplicates ex_pj o0 ex_members [ka; ks] ex_sized ex_o0 ltac:(discriminate))
    as (cbs & E & H).
  exists cbs. split; [exact E|].
  assert (Ea : firstn (distinct_count [ka; ks] []) (filter (in_filter [ka; ks]) ex_members) =
               [(ka, ex_a); (ka, DNum (NInt 3))]) by (vm_compute; reflexivity).
  rewrite Ea in H. exact H.
Qed.

(* an object with unique keys: the inner object "a" *)
Definition oa : cont := {| c_len := 18; c_off := 5 |}.
Lemma ex_oa : OBJ ex_pj oa [(kb, DObj [(kc, DNum (NInt 7))]); (kx, DNum (NInt 1))].
Proof.
  destruct ex_find_key as (it & E & Hd). vm_compute in E. injection E as <-.
  destruct (C12_object_of ex_pj _ _ Hd) as (o & E & Ho).
  vm_compute in E. injection E as <-. exact Ho.
Qed.

Example ex_foreach_unique :
  exists cbs, obj_foreach ex_pj oa [kx; kzz] = Ok cbs /\
    Forall2 (callback_for true true ex_pj) cbs [(kx, DNum (NInt 1))].
Proof.
  destruct (C12_obj_foreach ex_pj oa _ [kx; kzz] ex_sized ex_oa) as (cbs & E & H).
  { repeat constructor; cbn [In]; intros H; repeat (destruct H as [H|H]; try discriminate H); exact H. }
  exists cbs. split; [exact E|].
  assert (Ea : abs_foreach [(kb, DObj [(kc, DNum (NInt 7))]); (kx, DNum (NInt 1))] [kx; kzz] =
               [(kx, DNum (NInt 1))]) by (vm_compute; reflexivity).
  rewrite Ea in H. exact H.
Qed.

(* ---- arrays -------------------------------------------------------------- *)
Definition a_k : cont := {| c_len := 28; c_off := 21 |}.
Definition a_n : cont := {| c_len := 50; c_off := 43 |}.
Definition a_s : cont := {| c_len := 40; c_off := 35 |}.

Lemma ex_arr key (a : cont) (l : list doc) :
  abs_find_key ex_members key = Some (DArr l) ->
  (do r <- find_key ex_pj o0 key; match r with Found _ it => iter_array it | _ => Err end) = Ok a ->
  ARR ex_pj a l.
Proof.
  intros Ea Ec.
  destruct (C12_find_key ex_pj o0 ex_members key ex_sized ex_o0) as (r & E & H).
  rewrite Ea in H. destruct H as (it & -> & Hd). rewrite E in Ec. cbn [obind] in Ec.
  destruct (C12_array_of ex_pj it l Hd) as (a' & E' & Ha). rewrite E' in Ec. injection Ec as <-. exact Ha.
Qed.

Lemma ex_a_k : ARR ex_pj a_k ex_k.
Proof. apply (ex_arr kk); vm_compute; reflexivity. Qed.
Lemma ex_a_n : ARR ex_pj a_n ex_n.
Proof. apply (ex_arr kn); vm_compute; reflexivity. Qed.
Lemma ex_a_s : ARR ex_pj a_s ex_s.
Proof. apply (ex_arr ks); vm_compute; reflexivity. Qed.

Example ex_as_num :
  as_num KFloat ex_pj a_k = omap (elem_num KFloat) ex_k /\
  as_num KInt ex_pj a_k = omap (elem_num KInt) ex_k /\
  as_num KUint ex_pj a_k = omap (elem_num KUint) ex_k /\
  as_num KInt ex_pj a_n = (do its <- arr_foreach ex_pj a_n; omap (iter_num KInt ex_pj) its).
Proof.
  split; [|split; [|split]].
  - apply (C12_as_num KFloat ex_pj a_k ex_k ex_w64 ex_a_k).
  - apply (C12_as_num KInt ex_pj a_k ex_k ex_w64 ex_a_k).
  - apply (C12_as_num KUint ex_pj a_k ex_k ex_w64 ex_a_k).
  - apply (C12_as_num KInt ex_pj a_n ex_n ex_w64 ex_a_n).
Qed.

(* [1, 2.5, 18446744073709551615]: as floats (bits of 1.0, 2.5, 2^64 rounded);
   as int64 an error (the uint does not fit); as uint64 1, 2 (truncated), max;
   [1,-2,3] as uint64: error (negative) *)
Example ex_as_num_values :
  as_num KFloat ex_pj a_k = Ok [4607182418800017408; 4612811918334230528; 4895412794951729152]%Z /\
  as_num KInt ex_pj a_k = Err /\
  as_num KUint ex_pj a_k = Ok [1; 2; 18446744073709551615]%Z /\
  as_num KInt ex_pj a_n = Ok [1; -2; 3]%Z /\ as_num KUint ex_pj a_n = Err /\
  as_num KInt ex_pj a_s = Err.
Proof. vm_compute. repeat split; reflexivity. Qed.

Example ex_as_string :
  as_string ex_pj a_s = Ok [kp; kq] /\ as_string ex_pj a_n = Err /\
  as_string ex_pj a_s = (do its <- arr_foreach ex_pj a_s; omap (string_bytes ex_pj) its).
Proof.
  split; [|split].
  - rewrite (proj1 (C12_as_string ex_pj a_s ex_s ex_sized ex_a_s)). reflexivity.
  - rewrite (proj1 (C12_as_string ex_pj a_n ex_n ex_sized ex_a_n)). reflexivity.
  - exact (proj2 (C12_as_string ex_pj a_s ex_s ex_sized ex_a_s)).
Qed.

(* ---- Interface() ---------------------------------------------------------- *)
Example ex_interface :
  interface_doc ex_pj = Ok [doc_ival ex_doc] /\
  doc_ival ex_doc =
    IMap [(ka, IInt 3);        (* the LAST "a" wins; FindKey returns the first *)
          (kk, IArr [IInt 1; IFloat 4612811918334230528; IUint 18446744073709551615]);
          (ks, IArr [IStr kp; IStr kq]);
          (kn, IArr [IInt 1; IInt (-2); IInt 3])].
Proof.
  split.
  - exact (C12_interface_doc ex_pj [ex_doc] ex_sized ex_ok ex_den).
  - vm_compute. reflexivity.
Qed.

(* ---- numeric bulk accessors after Array.DeleteElems (fix F15) -------------- *)

(* delete the element -2 of "n": [1, NOP NOP, 3] *)
Definition ex_pj1 : pjson := Eval vm_compute in
  match arr_delete ex_pj a_n [false; true] with Ok (p, _) => p | _ => empty_pj end.

Example ex_delete :
  arr_delete ex_pj a_n [false; true] = Ok (ex_pj1, 3%nat) /\
  map (fun w => (word_tag w, word_val w)) (firstn 8 (skipn 42 (pj_tape ex_pj1))) =
    [(91, 50); (108, 0); (0, 1); (78, 2); (78, 1); (108, 0); (0, 3); (93, 42)] /\
  wf_check true ex_pj1 = true.
Proof. vm_compute. repeat split; reflexivity. Qed.

(* plain traversal, ForEach + Int() and the bulk accessors all see [1, 3]
   (before the fix AsInteger / AsFloat / AsUint64 returned an error here) *)
Example ex_as_num_after_delete_values :
  (do r <- find_key ex_pj1 o0 kn;
   match r with Found _ it => walk_value 60 ex_pj1 it | _ => Err end) =
     Ok (DArr [DNum (NInt 1); DNum (NInt 3)]) /\
  (do its <- arr_foreach ex_pj1 a_n; omap (iter_int ex_pj1) its) = Ok [1; 3]%Z /\
  as_num KInt ex_pj1 a_n = Ok [1; 3]%Z /\
  as_num KFloat ex_pj1 a_n = Ok [4607182418800017408; 4613937818241073152]%Z /\
  as_num KUint ex_pj1 a_n = Ok [1; 3]%Z.
Proof. vm_compute. repeat split; reflexivity. Qed.

(* the same through the theorem: its hypotheses are met by the edited tape
   (the position of the array is given by hand: words [42, 50), the run of two
   NOPs in the body) *)
Definition ex_n1 : list doc := [DNum (NInt 1); DNum (NInt 3)].

Lemma ex_a_n1 : arr_at true true ex_pj1 a_n ex_n1.
Proof.
  exists (firstn 42 (pj_tape ex_pj1)),
         (6557241057451442226 ::
          [7782220156096217088; 1; 5620492334958379010; 5620492334958379009; 7782220156096217088; 3]
          ++ [6701356245527298090]),
         [9007199254740992001; 8214565720323784704].
  split; [vm_compute; reflexivity|]. split; [|split; vm_compute; reflexivity].
  apply vs_arr.
  - vm_compute. reflexivity.
  - apply (it_val _ _ _ _ _ [7782220156096217088; 1] (DNum (NInt (s64 1)))
             [5620492334958379010; 5620492334958379009; 7782220156096217088; 3]).
    + apply vs_int; [vm_compute; reflexivity|intros _; vm_compute; reflexivity].
    + apply (it_nop _ _ _ _ _ 5620492334958379010 [5620492334958379009] [7782220156096217088; 3]).
      * vm_compute. reflexivity.
      * vm_compute. reflexivity.
      * intros _ j w Hj. destruct j as [|[|[|j]]]; cbn in Hj; try discriminate Hj;
          injection Hj as <-; split; vm_compute; reflexivity.
      * apply (it_val _ _ _ _ _ [7782220156096217088; 3] (DNum (NInt (s64 3))) []).
        -- apply vs_int; [vm_compute; reflexivity|intros _; vm_compute; reflexivity].
        -- apply it_nil.
  - vm_compute. reflexivity.
  - vm_compute. reflexivity.
  - intros _. vm_compute. reflexivity.
Qed.

Example ex_as_num_after_delete k :
  as_num k ex_pj1 a_n = omap (elem_num k) ex_n1 /\
  as_num k ex_pj1 a_n = (do its <- arr_foreach ex_pj1 a_n; omap (iter_num k ex_pj1) its).
Proof.
  apply (C12_as_num k ex_pj1 a_n ex_n1); [|exact ex_a_n1].
  apply words64_of_bool. vm_compute. reflexivity.
Qed.

End Ex.

Print Assumptions Ex.ex_find_key.
Print Assumptions Ex.ex_find_path.
Print Assumptions Ex.ex_foreach_duplicates.
Print Assumptions Ex.ex_as_num.
Print Assumptions Ex.ex_interface.
Print Assumptions Ex.ex_as_num_after_delete.
