(* NumLex.v — concrete syntax of RFC 8259 number literals ("pieces"), and the
   two directions relating it to the specification lexer Spec.Json.lex_number. *)
From Coq Require Import ZArith NArith List Bool Lia.
From Coq.Strings Require Import Byte.
From SJ Require Import Model.Base Model.RefTables Spec.Json Model.Number.
Import ListNotations.
Local Open Scope N_scope.

(* ------------------------------------------------------------------ *)
(* byte classes                                                        *)

Definition isdig (b : byte) : bool := is_digit (b2n b).
Definition dv (b : byte) : N := b2n b - 48.
Definition alld (s : bytes) : bool := forallb isdig s.

Definition bMINUS : byte := "-"%byte.
Definition bPLUS : byte := "+"%byte.
Definition bDOT : byte := "."%byte.
Definition b_e : byte := "e"%byte.
Definition b_E : byte := "E"%byte.
Definition b_0 : byte := "0"%byte.

(* the readable definition of an end-of-value byte *)
Definition is_eov_byte (b : byte) : bool :=
  let c := b2n b in
  (c =? cCOMMA) || (c =? cRBRACE) || (c =? cRBRACK) || is_json_ws c || (c =? cCOLON).

(* what may follow a number for parseNumber to accept it: nothing (end of the
   buffer) or an end-of-value byte *)
Definition rest_ok (rest : bytes) : bool :=
  match rest with [] => true | b :: _ => is_eov_byte b end.

Lemma eov_nr : forall b, is_eov_byte b = (nr b =? fEOV).
Proof. destruct b; vm_compute; reflexivity. Qed.

Lemma byte_minus : forall b, (b2n b =? cMINUS) = true -> b = bMINUS.
Proof. destruct b; vm_compute; intro H; try discriminate H; reflexivity. Qed.
Lemma byte_plus : forall b, (b2n b =? cPLUS) = true -> b = bPLUS.
Proof. destruct b; vm_compute; intro H; try discriminate H; reflexivity. Qed.
Lemma byte_dot : forall b, (b2n b =? cDOT) = true -> b = bDOT.
Proof. destruct b; vm_compute; intro H; try discriminate H; reflexivity. Qed.
Lemma byte_e : forall b, (b2n b =? c_e) || (b2n b =? c_E) = true -> b = b_e \/ b = b_E.
Proof. destruct b; vm_compute; intro H; try discriminate H; auto. Qed.

(* facts about a digit byte *)
Lemma dig_facts : forall b, isdig b = true ->
  nr b = 17 /\ (b2n b =? cMINUS) = false /\ (b2n b =? cPLUS) = false /\
  (b2n b =? cDOT) = false /\ (b2n b =? c_e) = false /\ (b2n b =? c_E) = false /\
  is_eov_byte b = false.
Proof. destruct b; vm_compute; intro H; try discriminate H; repeat split. Qed.

Lemma eov_facts : forall b, is_eov_byte b = true ->
  isdig b = false /\ (b2n b =? cMINUS) = false /\ (b2n b =? cPLUS) = false /\
  (b2n b =? cDOT) = false /\ (b2n b =? c_e) = false /\ (b2n b =? c_E) = false /\
  nr b = fEOV.
Proof. destruct b; vm_compute; intro H; try discriminate H; repeat split. Qed.

(* a byte that the scanner treats as part of a number *)
Definition partb (b : byte) : bool := negb (nr b =? 0) && negb (nr b =? fEOV).

Lemma partb_cases : forall b, partb b = true ->
  isdig b = true \/ b = bDOT \/ b = bPLUS \/ b = bMINUS \/ b = b_e \/ b = b_E.
Proof. destruct b; vm_compute; intro H; try discriminate H; auto 10. Qed.

Lemma dig_partb : forall b, isdig b = true -> partb b = true.
Proof. destruct b; vm_compute; intro H; try discriminate H; reflexivity. Qed.

(* ------------------------------------------------------------------ *)
(* longest digit prefix                                                *)

Fixpoint span (s : bytes) : bytes * bytes :=
  match s with
  | b :: r => if isdig b then let '(d, t) := span r in (b :: d, t) else ([], s)
  | [] => ([], [])
  end.

Definition nodig_head (t : bytes) : bool :=
  match t with [] => true | b :: _ => negb (isdig b) end.

Lemma span_spec : forall s d t, span s = (d, t) ->
  s = d ++ t /\ alld d = true /\ nodig_head t = true.
Proof.
  induction s as [|b r IH]; intros d t H; cbn [span] in H.
  - inversion H; subst. repeat split.
  - destruct (isdig b) eqn:Hb.
    + destruct (span r) as [d' t'] eqn:E. inversion H; subst.
      destruct (IH d' t eq_refl) as (H1 & H2 & H3). subst r.
      repeat split; auto. cbn. rewrite Hb. exact H2.
    + inversion H; subst. repeat split. cbn. rewrite Hb. reflexivity.
Qed.

Lemma span_app : forall d t, alld d = true -> nodig_head t = true -> span (d ++ t) = (d, t).
Proof.
  induction d as [|b d IH]; intros t Hd Ht.
  - cbn [app]. destruct t as [|c t']; [reflexivity|]. cbn in Ht |- *.
    destruct (isdig c); [discriminate Ht | reflexivity].
  - cbn in Hd. apply andb_true_iff in Hd. destruct Hd as [Hb Hd].
    cbn [app span]. rewrite Hb, (IH t Hd Ht). reflexivity.
Qed.

Lemma take_digits_span : forall s acc,
  take_digits s acc = (rev acc ++ map dv (fst (span s)), snd (span s)).
Proof.
  induction s as [|b r IH]; intros acc; cbn [take_digits span].
  - cbn. rewrite app_nil_r. reflexivity.
  - fold (isdig b). destruct (isdig b).
    + rewrite IH. destruct (span r) as [d t]. cbn [fst snd map rev].
      rewrite <- app_assoc. reflexivity.
    + cbn. rewrite app_nil_r. reflexivity.
Qed.

Lemma take_digits_app : forall d t, alld d = true -> nodig_head t = true ->
  take_digits (d ++ t) [] = (map dv d, t).
Proof. intros. rewrite take_digits_span, span_app by assumption. reflexivity. Qed.

(* ------------------------------------------------------------------ *)
(* concrete pieces of a literal                                        *)

Record pieces := {
  p_neg : bool;
  p_int : bytes;                           (* integer digits *)
  p_frac : option bytes;                   (* fraction digits (after the dot) *)
  p_exp : option (byte * bytes * bytes)    (* e/E, optional sign, digits *)
}.

Definition frac_bytes (f : option bytes) : bytes :=
  match f with Some fp => bDOT :: fp | None => [] end.
Definition exp_bytes (e : option (byte * bytes * bytes)) : bytes :=
  match e with Some (m, sg, d) => m :: sg ++ d | None => [] end.
Definition sign_bytes (neg : bool) : bytes := if neg then [bMINUS] else [].

Definition render (p : pieces) : bytes :=
  sign_bytes (p_neg p) ++ p_int p ++ frac_bytes (p_frac p) ++ exp_bytes (p_exp p).

Definition no_lead0 (ip : bytes) : bool :=
  match ip with b :: _ :: _ => negb (b2n b =? c0) | _ => true end.

Definition wf_frac (f : option bytes) : Prop :=
  match f with Some fp => alld fp = true /\ fp <> [] | None => True end.
Definition wf_exp (e : option (byte * bytes * bytes)) : Prop :=
  match e with
  | Some (m, sg, d) => (m = b_e \/ m = b_E) /\ (sg = [] \/ sg = [bPLUS] \/ sg = [bMINUS])
                       /\ alld d = true /\ d <> []
  | None => True
  end.
Definition wf (p : pieces) : Prop :=
  alld (p_int p) = true /\ p_int p <> [] /\ no_lead0 (p_int p) = true /\
  wf_frac (p_frac p) /\ wf_exp (p_exp p).

Definition sg_neg (sg : bytes) : bool :=
  match sg with b :: _ => b2n b =? cMINUS | [] => false end.
Definition exp_val (e : option (byte * bytes * bytes)) : option Z :=
  match e with
  | Some (_, sg, d) => let v := digits_val (map dv d) 0 in Some (if sg_neg sg then (- v)%Z else v)
  | None => None
  end.

Definition lit_of (p : pieces) : numlit :=
  {| nl_neg := p_neg p; nl_int := map dv (p_int p);
     nl_frac := option_map (map dv) (p_frac p); nl_exp := exp_val (p_exp p) |}.

(* ------------------------------------------------------------------ *)
(* lex_number by stages                                                *)

Definition lex_frac (s2 : bytes) : option (option (list N) * bytes) :=
  match s2 with
  | b :: r => if b2n b =? cDOT
              then let '(fp, s3) := take_digits r [] in
                   match fp with [] => None | _ => Some (Some fp, s3) end
              else Some (None, s2)
  | [] => Some (None, s2)
  end.

Definition lex_exp (s3 : bytes) : option (option Z * bytes) :=
  match s3 with
  | b :: r =>
    if (b2n b =? c_e) || (b2n b =? c_E) then
      let '(eneg, r1) := match r with
                         | c :: r' => if b2n c =? cMINUS then (true, r')
                                      else if b2n c =? cPLUS then (false, r')
                                      else (false, r)
                         | [] => (false, r)
                         end in
      let '(ed, s4) := take_digits r1 [] in
      match ed with
      | [] => None
      | _ => let v := digits_val ed 0 in Some (Some (if eneg then (- v)%Z else v), s4)
      end
    else Some (None, s3)
  | [] => Some (None, s3)
  end.

Lemma lex_number_unfold : forall s,
  lex_number s =
  let '(neg, s1) := match s with
                    | b :: r => if b2n b =? cMINUS then (true, r) else (false, s)
                    | [] => (false, s)
                    end in
  let '(ip, s2) := take_digits s1 [] in
  match ip with
  | [] => None
  | d0 :: rest =>
    if (d0 =? 0) && negb (match rest with [] => true | _ => false end) then None
    else match lex_frac s2 with
         | None => None
         | Some (frac, s3) =>
           match lex_exp s3 with
           | None => None
           | Some (e, s4) => Some ({| nl_neg := neg; nl_int := ip; nl_frac := frac; nl_exp := e |}, s4)
           end
         end
  end.
Proof. intros s. reflexivity. Qed.

Lemma alld_app : forall a b, alld (a ++ b) = alld a && alld b.
Proof. intros. unfold alld. apply forallb_app. Qed.

Lemma lex_frac_inv : forall s2 fr s3, lex_frac s2 = Some (fr, s3) ->
  exists f, wf_frac f /\ s2 = frac_bytes f ++ s3 /\ fr = option_map (map dv) f.
Proof.
  intros s2 fr s3 H. unfold lex_frac in H. destruct s2 as [|b r].
  - inversion H; subst. exists None. repeat split.
  - destruct (b2n b =? cDOT) eqn:E.
    + apply byte_dot in E. subst b. rewrite take_digits_span in H.
      destruct (span r) as [d t] eqn:Es. cbn [fst snd rev app] in H.
      destruct (span_spec _ _ _ Es) as (H1 & H2 & H3).
      destruct d as [|h d']; cbn [map] in H; [discriminate H|].
      inversion H; subst. exists (Some (h :: d')). repeat split; auto. discriminate.
    + inversion H; subst. exists None. repeat split.
Qed.

Definition nodot_head (t : bytes) : bool :=
  match t with [] => true | b :: _ => negb (b2n b =? cDOT) end.
Definition noe_head (t : bytes) : bool :=
  match t with [] => true | b :: _ => negb ((b2n b =? c_e) || (b2n b =? c_E)) end.

Lemma lex_frac_fwd : forall f t, wf_frac f -> nodig_head t = true ->
  (f = None -> nodot_head t = true) ->
  lex_frac (frac_bytes f ++ t) = Some (option_map (map dv) f, t).
Proof.
  intros f t Hf Ht Hd. destruct f as [fp|]; cbn [frac_bytes option_map].
  - destruct Hf as [Ha Hn]. cbn [app lex_frac]. change (b2n bDOT =? cDOT) with true. cbv iota.
    rewrite take_digits_app by assumption.
    destruct fp; [congruence|]. reflexivity.
  - cbn [app]. specialize (Hd eq_refl). unfold lex_frac. destruct t as [|b r]; [reflexivity|].
    cbn in Hd. destruct (b2n b =? cDOT); [discriminate Hd | reflexivity].
Qed.

Lemma lex_exp_inv : forall s3 e s4, lex_exp s3 = Some (e, s4) ->
  exists x, wf_exp x /\ s3 = exp_bytes x ++ s4 /\ e = exp_val x.
Proof.
  intros s3 e s4 H. unfold lex_exp in H. destruct s3 as [|b r].
  { inversion H; subst. exists None. repeat split. }
  destruct ((b2n b =? c_e) || (b2n b =? c_E)) eqn:E.
  2:{ inversion H; subst. exists None. repeat split. }
  apply byte_e in E.
  (* normalise the sign *)
  assert (Hs : exists sg r1, (sg = [] \/ sg = [bPLUS] \/ sg = [bMINUS]) /\ r = sg ++ r1 /\
           match r with
           | c :: r' => if b2n c =? cMINUS then (true, r')
                        else if b2n c =? cPLUS then (false, r') else (false, r)
           | [] => (false, r)
           end = (sg_neg sg, r1) /\ (sg = [] -> match r1 with c :: _ => (b2n c =? cMINUS) = false | [] => True end)).
  { destruct r as [|c r'].
    - exists [], []. repeat split; auto.
    - destruct (b2n c =? cMINUS) eqn:Em.
      + apply byte_minus in Em. subst c. exists [bMINUS], r'. repeat split; auto. discriminate.
      + destruct (b2n c =? cPLUS) eqn:Ep.
        * apply byte_plus in Ep. subst c. exists [bPLUS], r'. repeat split; auto. discriminate.
        * exists [], (c :: r'). repeat split; auto. }
  destruct Hs as (sg & r1 & Hsg & Hr & Hm & _). rewrite Hm in H.
  rewrite take_digits_span in H. destruct (span r1) as [d t] eqn:Es. cbn [fst snd rev app] in H.
  destruct (span_spec _ _ _ Es) as (H1 & H2 & H3).
  destruct d as [|h d']; cbn [map] in H; [discriminate H|].
  inversion H; subst. exists (Some (b, sg, h :: d')). repeat split; auto.
  - discriminate.
  - cbn [exp_bytes app]. rewrite <- app_assoc. reflexivity.
Qed.

Lemma lex_exp_fwd : forall x t, wf_exp x -> nodig_head t = true ->
  (x = None -> noe_head t = true) ->
  lex_exp (exp_bytes x ++ t) = Some (exp_val x, t).
Proof.
  intros x t Hx Ht He. destruct x as [[[m sg] d]|]; cbn [exp_bytes exp_val].
  - destruct Hx as (Hm & Hsg & Ha & Hn).
    cbn [app lex_exp].
    replace ((b2n m =? c_e) || (b2n m =? c_E)) with true by (destruct Hm; subst m; reflexivity).
    destruct d as [|h d']; [congruence|].
    assert (Hh : isdig h = true) by (cbn in Ha; apply andb_true_iff in Ha; tauto).
    destruct (dig_facts h Hh) as (_ & Hhm & Hhp & _).
    destruct Hsg as [Hsg|[Hsg|Hsg]]; subst sg; cbn [app sg_neg].
    + rewrite Hhm, Hhp. change (h :: d' ++ t) with ((h :: d') ++ t).
      rewrite take_digits_app by assumption. reflexivity.
    + change (b2n bPLUS =? cMINUS) with false. change (b2n bPLUS =? cPLUS) with true. cbv iota.
      change (h :: d' ++ t) with ((h :: d') ++ t).
      rewrite take_digits_app by assumption. reflexivity.
    + change (b2n bMINUS =? cMINUS) with true. cbv iota.
      change (h :: d' ++ t) with ((h :: d') ++ t).
      rewrite take_digits_app by assumption. reflexivity.
  - cbn [app]. specialize (He eq_refl). unfold lex_exp. destruct t as [|b r]; [reflexivity|].
    cbn in He. destruct ((b2n b =? c_e) || (b2n b =? c_E)); [discriminate He | reflexivity].
Qed.

(* ------------------------------------------------------------------ *)
(* S1: whatever lex_number accepts has the concrete shape               *)

Lemma lead0_iff : forall h d',
  isdig h = true ->
  ((dv h =? 0) && negb (match map dv d' with [] => true | _ => false end)) = negb (no_lead0 (h :: d')).
Proof.
  intros h d' Hh. unfold no_lead0. destruct d' as [|h2 d'']; cbn [map].
  - rewrite andb_false_r. reflexivity.
  - rewrite andb_true_r, negb_involutive. unfold isdig, is_digit, c0, c9, dv in *.
    apply andb_true_iff in Hh. destruct Hh as [H1 H2].
    apply N.leb_le in H1, H2.
    destruct (N.eqb_spec (b2n h - 48) 0), (N.eqb_spec (b2n h) 48); try reflexivity; lia.
Qed.

Theorem lex_number_shape : forall s l rest,
  lex_number s = Some (l, rest) ->
  exists p, wf p /\ s = render p ++ rest /\ l = lit_of p.
Proof.
  intros s l rest H. rewrite lex_number_unfold in H.
  assert (Hs : exists neg s1, s = sign_bytes neg ++ s1 /\
            match s with
            | b :: r => if b2n b =? cMINUS then (true, r) else (false, s)
            | [] => (false, s)
            end = (neg, s1)).
  { destruct s as [|b r].
    - exists false, []. split; reflexivity.
    - destruct (b2n b =? cMINUS) eqn:E.
      + apply byte_minus in E; subst b. exists true, r. split; reflexivity.
      + exists false, (b :: r). split; reflexivity. }
  destruct Hs as (neg & s1 & Hs & Hm). rewrite Hm in H. clear Hm.
  rewrite take_digits_span in H. destruct (span s1) as [d t] eqn:Es. cbn [fst snd rev app] in H.
  destruct (span_spec _ _ _ Es) as (H1 & H2 & H3).
  destruct d as [|h d']; cbn [map] in H; [discriminate H|].
  assert (Hh : isdig h = true) by (cbn in H2; apply andb_true_iff in H2; tauto).
  rewrite (lead0_iff h d' Hh) in H.
  destruct (no_lead0 (h :: d')) eqn:Hz; cbn [negb] in H; [|discriminate H].
  destruct (lex_frac t) as [[fr s3]|] eqn:Ef; [|discriminate H].
  destruct (lex_exp s3) as [[e s4]|] eqn:Ee; [|discriminate H].
  inversion H; subst l rest. clear H.
  destruct (lex_frac_inv _ _ _ Ef) as (f & Hf & Hft & Hfr).
  destruct (lex_exp_inv _ _ _ Ee) as (x & Hx & Hxt & Hxe).
  exists {| p_neg := neg; p_int := h :: d'; p_frac := f; p_exp := x |}.
  split; [|split].
  - unfold wf. cbn [p_int p_frac p_exp]. repeat split; auto. discriminate.
  - unfold render. cbn [p_neg p_int p_frac p_exp]. subst s s1 t s3.
    rewrite <- !app_assoc. reflexivity.
  - unfold lit_of. cbn [p_neg p_int p_frac p_exp]. subst. reflexivity.
Qed.

(* ------------------------------------------------------------------ *)
(* S2: a well-formed literal followed by a legal delimiter is lexed      *)

Lemma rest_ok_heads : forall t, rest_ok t = true ->
  nodig_head t = true /\ nodot_head t = true /\ noe_head t = true.
Proof.
  intros [|b r] H; [repeat split|]. cbn in H.
  destruct (eov_facts b H) as (Hd & _ & _ & Hdot & He & HE & _).
  unfold nodig_head, nodot_head, noe_head. rewrite Hd, Hdot, He, HE. repeat split.
Qed.

Lemma exp_tail_heads : forall x t, wf_exp x -> rest_ok t = true ->
  nodig_head (exp_bytes x ++ t) = true /\ nodot_head (exp_bytes x ++ t) = true.
Proof.
  intros x t Hx Ht. destruct x as [[[m sg] d]|].
  - destruct Hx as ([Hm|Hm] & _); subst m; split; reflexivity.
  - cbn [exp_bytes app]. destruct (rest_ok_heads t Ht) as (A & B & _). auto.
Qed.

Lemma frac_tail_heads : forall f x t, wf_frac f -> wf_exp x -> rest_ok t = true ->
  nodig_head (frac_bytes f ++ exp_bytes x ++ t) = true.
Proof.
  intros f x t Hf Hx Ht. destruct f as [fp|].
  - reflexivity.
  - cbn [frac_bytes app]. apply (exp_tail_heads x t Hx Ht).
Qed.

Lemma sign_strip : forall neg s1,
  match s1 with b :: _ => (b2n b =? cMINUS) = false | [] => True end ->
  match sign_bytes neg ++ s1 with
  | b :: r => if b2n b =? cMINUS then (true, r) else (false, sign_bytes neg ++ s1)
  | [] => (false, sign_bytes neg ++ s1)
  end = (neg, s1).
Proof.
  intros neg s1 H. destruct neg; cbn [sign_bytes app].
  - reflexivity.
  - destruct s1 as [|b r]; [reflexivity|]. rewrite H. reflexivity.
Qed.

Theorem lex_number_render : forall p rest,
  wf p -> rest_ok rest = true ->
  lex_number (render p ++ rest) = Some (lit_of p, rest).
Proof.
  intros [neg ip f x] rest (Ha & Hn & Hz & Hf & Hx) Hr.
  cbn [p_neg p_int p_frac p_exp] in *.
  unfold render, lit_of. cbn [p_neg p_int p_frac p_exp].
  destruct ip as [|h d']; [congruence|].
  assert (Hh : isdig h = true) by (cbn in Ha; apply andb_true_iff in Ha; tauto).
  destruct (dig_facts h Hh) as (_ & Hhm & _).
  rewrite <- !app_assoc.
  rewrite lex_number_unfold.
  rewrite sign_strip by exact Hhm.
  rewrite take_digits_app; auto using frac_tail_heads.
  cbn [map]. rewrite (lead0_iff h d' Hh), Hz. cbn [negb].
  destruct (exp_tail_heads x rest Hx Hr) as [E1 E2].
  rewrite lex_frac_fwd; auto.
  destruct (rest_ok_heads rest Hr) as (R1 & R2 & R3).
  rewrite lex_exp_fwd; auto.
Qed.
