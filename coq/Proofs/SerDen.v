(* SerDen.v — a flat relation [R] between the original tape and the tape that
   Deserialize rebuilds (strings re-addressed into the de-duplicated buffer,
   NOP blocks normalised to a single run) and the proof that related tapes
   denote the same documents. *)
From Coq Require Import ZifyBool ZifyN ZifyNat.
From SJ Require Import Model.Base Model.RefTables Spec.Json Model.Tape Model.Iter Model.WF Model.Serialize.
From SJ Require Import Proofs.StrArith Proofs.Stage2Base Proofs.DeserSafe Proofs.SerBase Proofs.SerFlat.
Open Scope N_scope.

Definition two_tag (t : N) : Prop := t = TagInteger \/ t = TagUint \/ t = TagFloat.
Definition one_tag (t : N) : Prop :=
  (t =? TagNop) = false /\ (t =? TagString) = false /\ (t =? TagInteger) = false /\
  (t =? TagUint) = false /\ (t =? TagFloat) = false.

Lemma nruns_head ns : nruns ns -> ns <> [] ->
  exists k r0, ns = mk_word TagNop k :: r0 /\ 0 < k < two56.
Proof.
  intros H Hne. destruct H as [|k ns Hk Hk2 H]; [congruence|].
  destruct k as [|k]; [lia|]. cbn [nrun app]. eexists _, _. split; [reflexivity|]. lia.
Qed.

Lemma skip_nops_S f i rest :
  skip_nops (S f) i rest =
    match rest with
    | w :: _ =>
      if word_tag w =? TagNop then
        let k := word_val w in
        if k =? 0 then None else skip_nops f (i + k) (skipn (N.to_nat k) rest)
      else Some (i, rest)
    | [] => Some (i, rest)
    end.
Proof. reflexivity. Qed.

Lemma skip_nops_head f i r : head_not_nop r -> skip_nops (S f) i r = Some (i, r).
Proof.
  intros H. rewrite skip_nops_S. destruct r as [|w r]; [reflexivity|].
  cbn [head_not_nop] in H. rewrite H. reflexivity.
Qed.

Lemma skip_nrun_step f i k r : (0 < k)%nat -> N.of_nat k < two56 ->
  skip_nops (S f) i (nrun k ++ r) = skip_nops f (i + N.of_nat k) r.
Proof.
  intros Hk Hk2. destruct k as [|k]; [lia|].
  rewrite skip_nops_S. cbn [nrun app].
  rewrite word_tag_mk by exact Hk2. change (TagNop =? TagNop) with true. cbv iota zeta.
  rewrite word_val_mk by exact Hk2.
  replace (N.of_nat (S k) =? 0) with false by lia.
  rewrite Nat2N.id.
  change (mk_word TagNop (N.of_nat (S k)) :: nrun k ++ r) with (nrun (S k) ++ r).
  rewrite skipn_app, nrun_length, Nat.sub_diag.
  rewrite skipn_all2 by (rewrite nrun_length; lia). reflexivity.
Qed.

Lemma skip_nruns : forall ns, nruns ns -> forall f i r i2 r2, head_not_nop r ->
  skip_nops f i (ns ++ r) = Some (i2, r2) ->
  i2 = i + N.of_nat (length ns) /\ r2 = r /\ (1 <= f)%nat /\ (ns <> [] -> 2 <= f)%nat.
Proof.
  induction 1 as [|k ns Hk Hk2 Hns IH]; intros f i r i2 r2 Hh H.
  - destruct f as [|f]; [discriminate|]. cbn [app] in H. rewrite skip_nops_head in H by exact Hh.
    injection H as <- <-. cbn [length]. repeat split; try lia. congruence.
  - destruct f as [|f]; [discriminate|].
    rewrite <- app_assoc in H. rewrite skip_nrun_step in H by assumption.
    destruct (IH _ _ _ _ _ Hh H) as (A & B & C & D).
    rewrite app_length, nrun_length. repeat split; try lia. exact B.
Qed.

Section Den.
Variables (msg strs SB : bytes).

Inductive R : list N -> list N -> Prop :=
| R_nil : R [] []
| R_nops ns k r r' :
    nruns ns -> ns <> [] -> k = length ns -> N.of_nat k < two56 -> head_not_nop r ->
    R r r' -> R (ns ++ r) (nrun k ++ r')
| R_str w len r w' r' s :
    word_tag w = TagString -> word_tag w' = TagString ->
    string_at msg strs (word_val w) len = Some s -> string_at SB [] (word_val w') len = Some s ->
    R r r' -> R (w :: len :: r) (w' :: len :: r')
| R_two w v r r' : two_tag (word_tag w) -> R r r' -> R (w :: v :: r) (w :: v :: r')
| R_one w r r' : one_tag (word_tag w) -> R r r' -> R (w :: r) (w :: r').

Lemma R_length a b : R a b -> length a = length b.
Proof.
  induction 1; cbn [length]; try congruence.
  rewrite !app_length, nrun_length. congruence.
Qed.

Lemma R_cons_inv w r1 rest' : R (w :: r1) rest' ->
  (word_tag w = TagNop /\ exists ns k r r', w :: r1 = ns ++ r /\ rest' = nrun k ++ r' /\ nruns ns /\ ns <> [] /\
      k = length ns /\ N.of_nat k < two56 /\ head_not_nop r /\ R r r')
  \/ (word_tag w = TagString /\ exists len r w' r' s, r1 = len :: r /\ rest' = w' :: len :: r' /\
      word_tag w' = TagString /\ string_at msg strs (word_val w) len = Some s /\
      string_at SB [] (word_val w') len = Some s /\ R r r')
  \/ (two_tag (word_tag w) /\ exists v r r', r1 = v :: r /\ rest' = w :: v :: r' /\ R r r')
  \/ (one_tag (word_tag w) /\ exists r', rest' = w :: r' /\ R r1 r').
Proof.
  intros H. inversion H as [|ns k r r' Hns Hne Hk Hk2 Hh HR Heq|w0 len r w' r' s Ht Ht' Hs Hs' HR|w0 v r r' Ht HR|w0 r r' Ht HR]; subst.
  - left. destruct (nruns_head _ Hns Hne) as (k0 & r0 & E & Hk0). rewrite E in Heq.
    cbn [app] in Heq. injection Heq as <- _. split; [apply word_tag_mk; lia|].
    exists ns, (length ns), r, r'. rewrite E. repeat split; try assumption; try reflexivity.
    + rewrite <- E. assumption.
    + rewrite <- E. assumption.
    + rewrite <- E. assumption.
  - right; left. split; [assumption|]. exists len, r, w', r', s. repeat split; assumption.
  - right; right; left. split; [assumption|]. exists v, r, r'. repeat split; assumption.
  - right; right; right. split; [assumption|]. exists r'. split; [reflexivity|assumption].
Qed.

Ltac tag_contra :=
  match goal with
  | H1 : word_tag ?w = _, H2 : one_tag (word_tag ?w) |- _ =>
    rewrite H1 in H2; destruct H2 as (?A & ?B & ?C & ?D & ?E); discriminate
  | H1 : word_tag ?w = _, H2 : two_tag (word_tag ?w) |- _ =>
    rewrite H1 in H2; destruct H2 as [?A|[?A|?A]]; discriminate
  | H1 : word_tag ?w = _, H2 : word_tag ?w = _ |- _ => rewrite H1 in H2; discriminate
  | H1 : two_tag (word_tag ?w), H2 : one_tag (word_tag ?w) |- _ =>
    destruct H2 as (?A & ?B & ?C & ?D & ?E); destruct H1 as [?F|[?F|?F]]; rewrite F in *; discriminate
  end.

Lemma R_inv_one w r1 rest' : one_tag (word_tag w) -> R (w :: r1) rest' ->
  exists r', rest' = w :: r' /\ R r1 r'.
Proof.
  intros Ht H. destruct (R_cons_inv _ _ _ H) as [[E _]|[[E _]|[[E _]|[_ X]]]]; try tag_contra. exact X.
Qed.

Lemma R_inv_str w r1 rest' : word_tag w = TagString -> R (w :: r1) rest' ->
  exists len r w' r' s, r1 = len :: r /\ rest' = w' :: len :: r' /\
      word_tag w' = TagString /\ string_at msg strs (word_val w) len = Some s /\
      string_at SB [] (word_val w') len = Some s /\ R r r'.
Proof.
  intros Ht H. destruct (R_cons_inv _ _ _ H) as [[E _]|[[E X]|[[E _]|[E _]]]]; try tag_contra. exact X.
Qed.

Lemma R_inv_two w r1 rest' : two_tag (word_tag w) -> R (w :: r1) rest' ->
  exists v r r', r1 = v :: r /\ rest' = w :: v :: r' /\ R r r'.
Proof.
  intros Ht H. destruct (R_cons_inv _ _ _ H) as [[E _]|[[E _]|[[E X]|[E _]]]]; try tag_contra. exact X.
Qed.

Lemma R_head_tag w r1 rest' : R (w :: r1) rest' ->
  exists w' r1', rest' = w' :: r1' /\ word_tag w' = word_tag w.
Proof.
  intros H. destruct (R_cons_inv _ _ _ H) as [[E X]|[[E X]|[[E X]|[E X]]]].
  - destruct X as (ns & k & r & r' & E1 & E2 & Hns & Hne & Hk & Hk2 & Hh & HR).
    destruct ns as [|x ns]; [congruence|]. subst k. cbn [length nrun app] in E2.
    eexists _, _. split; [exact E2|]. rewrite word_tag_mk by exact Hk2. congruence.
  - destruct X as (len & r & w' & r' & s & E1 & E2 & Ht' & _). eexists _, _. split; [exact E2|]. congruence.
  - destruct X as (v & r & r' & E1 & E2 & _). eexists _, _. split; [exact E2|]. reflexivity.
  - destruct X as (r' & E2 & _). eexists _, _. split; [exact E2|]. reflexivity.
Qed.

Lemma R_nil_inv rest' : R [] rest' -> rest' = [].
Proof.
  intros H. inversion H as [|ns k r r' Hns Hne Hk Hk2 Hh HR Heq| | |]; [reflexivity|].
  destruct ns; [congruence|discriminate].
Qed.

Lemma R_head r r' : R r r' -> head_not_nop r -> head_not_nop r'.
Proof.
  intros H Hh. destruct r as [|w r1].
  - apply R_nil_inv in H. subst. exact I.
  - destruct (R_head_tag _ _ _ H) as (w' & r1' & -> & Et). cbn [head_not_nop] in *. rewrite Et. exact Hh.
Qed.

Lemma skip_sim f i rest rest' i2 r2 : R rest rest' -> skip_nops f i rest = Some (i2, r2) ->
  exists r2', skip_nops f i rest' = Some (i2, r2') /\ R r2 r2' /\ head_not_nop r2.
Proof.
  intros HR H. destruct rest as [|w r1].
  { apply R_nil_inv in HR. subst. destruct f as [|f]; [discriminate|].
    cbn [skip_nops] in *. injection H as <- <-. exists []. repeat split. constructor. }
  destruct (R_cons_inv _ _ _ HR) as [[E X]|Hother].
  - destruct X as (ns & k & r & r' & E1 & E2 & Hns & Hne & Hk & Hk2 & Hh & HR').
    rewrite E1 in H. destruct (skip_nruns _ Hns _ _ _ _ _ Hh H) as (A & B & C & D).
    specialize (D Hne). destruct f as [|[|f]]; try lia.
    subst rest' i2 r2. exists r'. split; [|split; assumption].
    assert (Hkpos : (0 < k)%nat) by (destruct ns; [congruence|cbn [length] in Hk; lia]).
    rewrite skip_nrun_step by assumption.
    rewrite skip_nops_head by (apply (R_head _ _ HR' Hh)). rewrite Hk. reflexivity.
  - assert (Hnn : (word_tag w =? TagNop) = false).
    { destruct Hother as [[E _]|[[E _]|[E _]]].
      - rewrite E. reflexivity.
      - destruct E as [E|[E|E]]; rewrite E; reflexivity.
      - destruct E as (E & _). exact E. }
    destruct f as [|f]; [discriminate|].
    rewrite skip_nops_stop in H by exact Hnn. injection H as <- <-.
    destruct (R_head_tag _ _ _ HR) as (w' & r1' & -> & Et).
    exists (w' :: r1'). split; [|split; [exact HR|exact Hnn]].
    apply skip_nops_stop. rewrite Et. exact Hnn.
Qed.

(* ------------------------------------------------------------------ *)

Lemma den_value_S m s f i rest :
  den_value m s (S f) i rest =
    match rest with
    | [] => None
    | w :: r =>
      let t := word_tag w in
      let v := word_val w in
      if t =? TagString then
        match r with
        | len :: r' => match string_at m s v len with
                       | Some s => Some (DStr s, i + 2, r')
                       | None => None
                       end
        | [] => None
        end
      else if t =? TagInteger then
        match r with x :: r' => Some (DNum (NInt (s64 x)), i + 2, r') | [] => None end
      else if t =? TagUint then
        match r with x :: r' => Some (DNum (NUint x), i + 2, r') | [] => None end
      else if t =? TagFloat then
        match r with x :: r' => Some (DNum (NFloat x v), i + 2, r') | [] => None end
      else if t =? TagNull then Some (DNull, i + 1, r)
      else if t =? TagBoolTrue then Some (DBool true, i + 1, r)
      else if t =? TagBoolFalse then Some (DBool false, i + 1, r)
      else if t =? TagArrayStart then
        match den_elems m s f (i + 1) r [] with
        | Some (l, j, r') => if j =? v then Some (DArr l, j, r') else None
        | None => None
        end
      else if t =? TagObjectStart then
        match den_members m s f (i + 1) r [] with
        | Some (l, j, r') => if j =? v then Some (DObj l, j, r') else None
        | None => None
        end
      else None
    end.
Proof. reflexivity. Qed.

Lemma den_value_nop m s f i w r : word_tag w = TagNop -> den_value m s f i (w :: r) = None.
Proof. intros H. destruct f as [|f]; [reflexivity|]. rewrite den_value_S. cbv zeta. rewrite H. reflexivity. Qed.

Definition P_v (f : nat) : Prop := forall i rest rest' d j r, R rest rest' ->
  den_value msg strs f i rest = Some (d, j, r) ->
  exists r', den_value SB [] f i rest' = Some (d, j, r') /\ R r r'.
Definition P_e (f : nat) : Prop := forall i rest rest' acc l j r, R rest rest' ->
  den_elems msg strs f i rest acc = Some (l, j, r) ->
  exists r', den_elems SB [] f i rest' acc = Some (l, j, r') /\ R r r'.
Definition P_m (f : nat) : Prop := forall i rest rest' acc l j r, R rest rest' ->
  den_members msg strs f i rest acc = Some (l, j, r) ->
  exists r', den_members SB [] f i rest' acc = Some (l, j, r') /\ R r r'.

Lemma den_sim : forall f, P_v f /\ P_e f /\ P_m f.
Proof.
  induction f as [|f (IHv & IHe & IHm)].
  { repeat split; intros ? **; discriminate. }
  split; [|split].
  - (* value *)
    intros i rest rest' d j r HR H.
    destruct rest as [|w r1]; [discriminate|].
    destruct (R_cons_inv _ _ _ HR) as [[E X]|[[E X]|[[E X]|[E X]]]].
    + rewrite den_value_nop in H by exact E. discriminate.
    + destruct X as (len & r0 & w' & r' & s & -> & -> & Ht' & Hs & Hs' & HR').
      rewrite (den_value_string _ _ _ _ _ _ _ s E Hs) in H. injection H as <- <- <-.
      exists r'. split; [|exact HR']. apply den_value_string; assumption.
    + destruct X as (v & r0 & r' & -> & -> & HR').
      destruct E as [E|[E|E]].
      * rewrite den_value_int in H by exact E. injection H as <- <- <-.
        exists r'. split; [|exact HR']. apply den_value_int. exact E.
      * rewrite den_value_uint in H by exact E. injection H as <- <- <-.
        exists r'. split; [|exact HR']. apply den_value_uint. exact E.
      * rewrite den_value_float in H by exact E. injection H as <- <- <-.
        exists r'. split; [|exact HR']. apply den_value_float. exact E.
    + destruct X as (r' & -> & HR'). destruct E as (E1 & E2 & E3 & E4 & E5).
      rewrite den_value_S in H. rewrite den_value_S. cbv zeta in *.
      rewrite E2, E3, E4, E5 in *.
      destruct (word_tag w =? TagNull). { injection H as <- <- <-. eauto. }
      destruct (word_tag w =? TagBoolTrue). { injection H as <- <- <-. eauto. }
      destruct (word_tag w =? TagBoolFalse). { injection H as <- <- <-. eauto. }
      destruct (word_tag w =? TagArrayStart).
      { destruct (den_elems msg strs f (i + 1) r1 []) as [[[l j1] r2]|] eqn:Ee; [|discriminate].
        destruct (IHe _ _ _ _ _ _ _ HR' Ee) as (r2' & Ee' & HR2). rewrite Ee'.
        destruct (j1 =? word_val w); [|discriminate]. injection H as <- <- <-. eauto. }
      destruct (word_tag w =? TagObjectStart); [|discriminate].
      destruct (den_members msg strs f (i + 1) r1 []) as [[[l j1] r2]|] eqn:Ee; [|discriminate].
      destruct (IHm _ _ _ _ _ _ _ HR' Ee) as (r2' & Ee' & HR2). rewrite Ee'.
      destruct (j1 =? word_val w); [|discriminate]. injection H as <- <- <-. eauto.
  - (* elements *)
    intros i rest rest' acc l j r HR H. rewrite den_elems_S in H. rewrite den_elems_S.
    destruct (skip_nops f i rest) as [[i' rest1]|] eqn:Esk; [|discriminate].
    destruct (skip_sim _ _ _ _ _ _ HR Esk) as (rest1' & Esk' & HR1 & Hh1). rewrite Esk'.
    destruct rest1 as [|w r1]; [discriminate|].
    destruct (R_head_tag _ _ _ HR1) as (w' & r1' & -> & Et). rewrite Et.
    destruct (word_tag w =? TagArrayEnd) eqn:Ee.
    + injection H as <- <- <-. apply N.eqb_eq in Ee.
      assert (Ho : one_tag (word_tag w)) by (rewrite Ee; repeat split).
      destruct (R_inv_one _ _ _ Ho HR1) as (r2' & E2 & HR2). injection E2 as -> ->. eauto.
    + destruct (den_value msg strs f i' (w :: r1)) as [[[d j1] r2]|] eqn:Ev; [|discriminate].
      destruct (IHv _ _ _ _ _ _ HR1 Ev) as (r2' & Ev' & HR2). rewrite Ev'.
      apply (IHe _ _ _ _ _ _ _ HR2 H).
  - (* members *)
    intros i rest rest' acc l j r HR H. rewrite den_members_S in H. rewrite den_members_S.
    destruct (skip_nops f i rest) as [[i' rest1]|] eqn:Esk; [|discriminate].
    destruct (skip_sim _ _ _ _ _ _ HR Esk) as (rest1' & Esk' & HR1 & Hh1). rewrite Esk'.
    destruct rest1 as [|w r1]; [discriminate|].
    destruct (word_tag w =? TagObjectEnd) eqn:Ee.
    + injection H as <- <- <-. apply N.eqb_eq in Ee.
      assert (Ho : one_tag (word_tag w)) by (rewrite Ee; repeat split).
      destruct (R_inv_one _ _ _ Ho HR1) as (r2' & -> & HR2). rewrite Ee.
      change (TagObjectEnd =? TagObjectEnd) with true. cbv iota. eauto.
    + destruct (word_tag w =? TagString) eqn:Es; [|discriminate]. apply N.eqb_eq in Es.
      destruct (R_inv_str _ _ _ Es HR1) as (len & r0 & w' & r0' & s & -> & -> & Et' & Hs & Hs' & HR0).
      rewrite Et'. change (TagString =? TagObjectEnd) with false. change (TagString =? TagString) with true. cbv iota.
      rewrite Hs in H. rewrite Hs'.
      destruct (skip_nops f (i' + 2) r0) as [[i2 r2]|] eqn:Esk2; [|discriminate].
      destruct (skip_sim _ _ _ _ _ _ HR0 Esk2) as (r2' & Esk2' & HR2 & Hh2). rewrite Esk2'.
      destruct (den_value msg strs f i2 r2) as [[[d j1] r3]|] eqn:Ev; [|discriminate].
      destruct (IHv _ _ _ _ _ _ HR2 Ev) as (r3' & Ev' & HR3). rewrite Ev'.
      apply (IHm _ _ _ _ _ _ _ HR3 H).
Qed.

Lemma den_roots_S m s f i rest acc :
  den_roots m s (S f) i rest acc =
    match skip_nops f i rest with
    | None => None
    | Some (i', rest') =>
      match rest' with
      | [] => Some (rev acc)
      | w :: r =>
        if word_tag w =? TagRoot then
          match skip_nops f (i' + 1) r with
          | Some (i1, r1) =>
            match den_value m s f i1 r1 with
            | Some (d, j, r2) =>
              match skip_nops f j r2 with
              | Some (j', c :: r3) =>
                if (word_tag c =? TagRoot) && (word_val c =? i') && (word_val w =? j' + 1)
                then den_roots m s f (j' + 1) r3 (d :: acc) else None
              | _ => None
              end
            | None => None
            end
          | None => None
          end
        else None
      end
    end.
Proof. reflexivity. Qed.

Lemma den_roots_sim : forall f i rest rest' acc l, R rest rest' ->
  den_roots msg strs f i rest acc = Some l -> den_roots SB [] f i rest' acc = Some l.
Proof.
  induction f as [|f IH]; intros i rest rest' acc l HR H; [discriminate|].
  rewrite den_roots_S in H. rewrite den_roots_S.
  destruct (skip_nops f i rest) as [[i' rest1]|] eqn:Esk; [|discriminate].
  destruct (skip_sim _ _ _ _ _ _ HR Esk) as (rest1' & Esk' & HR1 & Hh1). rewrite Esk'.
  destruct rest1 as [|w r1].
  { apply R_nil_inv in HR1. subst. exact H. }
  destruct (word_tag w =? TagRoot) eqn:Et; [|discriminate]. apply N.eqb_eq in Et.
  assert (Ho : one_tag (word_tag w)) by (rewrite Et; repeat split).
  destruct (R_inv_one _ _ _ Ho HR1) as (r1' & -> & HR1'). rewrite Et.
  change (TagRoot =? TagRoot) with true. cbv iota.
  destruct (skip_nops f (i' + 1) r1) as [[i1 r2]|] eqn:Esk1; [|discriminate].
  destruct (skip_sim _ _ _ _ _ _ HR1' Esk1) as (r2' & Esk1' & HR2 & Hh2). rewrite Esk1'.
  destruct (den_value msg strs f i1 r2) as [[[d j] r3]|] eqn:Ev; [|discriminate].
  destruct (proj1 (den_sim f) _ _ _ _ _ _ HR2 Ev) as (r3' & Ev' & HR3). rewrite Ev'.
  destruct (skip_nops f j r3) as [[j' r4]|] eqn:Esk2; [|discriminate].
  destruct (skip_sim _ _ _ _ _ _ HR3 Esk2) as (r4' & Esk2' & HR4 & Hh4). rewrite Esk2'.
  destruct r4 as [|c r5]; [discriminate|].
  destruct ((word_tag c =? TagRoot) && (word_val c =? i') && (word_val w =? j' + 1)) eqn:Ec; [|discriminate].
  pose proof Ec as Ec'.
  apply andb_true_iff in Ec'. destruct Ec' as [Ec' _]. apply andb_true_iff in Ec'. destruct Ec' as [Ec' _].
  apply N.eqb_eq in Ec'.
  assert (Hoc : one_tag (word_tag c)) by (rewrite Ec'; repeat split).
  destruct (R_inv_one _ _ _ Hoc HR4) as (r5' & -> & HR5). rewrite Ec.
  apply (IH _ _ _ _ _ HR5 H).
Qed.

Theorem denote_sim T T' d : R T T' -> denote msg strs T = Some d -> denote SB [] T' = Some d.
Proof.
  intros HR H. unfold denote in *. rewrite <- (R_length _ _ HR).
  apply (den_roots_sim _ _ _ _ _ _ HR H).
Qed.

End Den.
