(* TapeWalk.v — plain traversal through the modelled iterator API returns the
   denotation (goal F / C02 second half), for tapes with the strict structure
   and no NOP between a key and its value. *)
From SJ Require Import Model.Base Model.RefTables Spec.Json Spec.EditSpec Model.Tape
     Model.Iter Model.Walk Model.Edit Model.WF.
From SJ Require Import Proofs.TapeBase Proofs.TapeSeg Proofs.TapeDen Proofs.TapePath
     Proofs.TapeEdit Proofs.TapeIter Proofs.TapeDelete Proofs.TapeWF.
From Coq Require Import ZifyBool ZifyN ZifyNat.
Open Scope N_scope.

(* the two local loops of walk_value, named *)
Definition walk_elems (f : nat) (pj : pjson) :=
  fix elems (k : nat) (it : iter) (acc : list doc) : outcome doc :=
    match k with
    | O => OutOfFuel
    | S k' =>
      do r <- advance pj it;
      let '(it', t) := r in
      if t_is t TypeNone then Ok (DArr (rev acc))
      else do d <- walk_value f pj it'; elems k' it' (d :: acc)
    end.

Definition walk_members (f : nat) (pj : pjson) :=
  fix members (k : nat) (ob : cont) (acc : list (bytes * doc)) : outcome doc :=
    match k with
    | O => OutOfFuel
    | S k' =>
      do r <- next_element (cont_fuel ob) pj ob;
      match r with
      | (_, None) => Ok (DObj (rev acc))
      | (ob', Some (name, el, _)) =>
        do d <- walk_value f pj el; members k' ob' ((name, d) :: acc)
      end
    end.

Lemma walk_value_S f pj i :
  walk_value (S f) pj i =
    let ty := iter_type i in
    if t_is ty TypeNull then Ok DNull
    else if t_is ty TypeBool then do b <- iter_bool i; Ok (DBool b)
    else if t_is ty TypeInt then do z <- iter_int pj i; Ok (DNum (NInt z))
    else if t_is ty TypeUint then do u <- iter_uint pj i; Ok (DNum (NUint u))
    else if t_is ty TypeFloat then do bf <- iter_float_flags pj i; Ok (DNum (NFloat (fst bf) (snd bf)))
    else if t_is ty TypeString then do s <- string_bytes pj i; Ok (DStr s)
    else if t_is ty TypeArray then
      do a <- iter_array i; walk_elems f pj (S f) (cont_iter a) []
    else if t_is ty TypeObject then
      do o <- iter_object i; walk_members f pj (S f) o []
    else Err.
Proof. reflexivity. Qed.

Lemma walk_elems_S f pj k it acc :
  walk_elems f pj (S k) it acc =
    do r <- advance pj it;
    let '(it', t) := r in
    if t_is t TypeNone then Ok (DArr (rev acc))
    else do d <- walk_value f pj it'; walk_elems f pj k it' (d :: acc).
Proof. reflexivity. Qed.

Lemma walk_members_S f pj k ob acc :
  walk_members f pj (S k) ob acc =
    do r <- next_element (cont_fuel ob) pj ob;
    match r with
    | (_, None) => Ok (DObj (rev acc))
    | (ob', Some (name, el, _)) =>
      do d <- walk_value f pj el; walk_members f pj k ob' ((name, d) :: acc)
    end.
Proof. reflexivity. Qed.

(* evaluate closed tag -> type conversions and comparisons *)
Ltac tsimp :=
  repeat match goal with
  | |- context [TagToType_ref ?a] =>
    is_const a; let v := eval vm_compute in (TagToType_ref a) in change (TagToType_ref a) with v
  end;
  unfold t_is; tageq.

(* an iterator as produced by Advance / NextElement / Root on the value whose
   segment is v at index k *)
Definition walk_iter (it : iter) (k : N) (v : list N) : Prop :=
  iter_on it k v /\ (0 <= i_add it)%Z /\ (i_off it + i_add it <= i_len it)%Z.

Lemma iter_type_ok it k v : walk_iter it k v -> iter_type it = TagToType_ref (i_t it).
Proof.
  intros (_ & Ha & Hl). unfold iter_type.
  replace (i_len it <? i_off it + i_add it)%Z with false by lia. reflexivity.
Qed.

Section Scalars.
Variables (strict adj : bool).
Notation vseg pj := (val_seg (pj_msg pj) (pj_strings pj) strict adj).

Lemma payload_ok pj it pre w x post :
  pj_tape pj = pre ++ [w; x] ++ post -> walk_iter it (nlen pre) [w; x] -> payload pj it = Ok x.
Proof.
  intros Ht ((Hoff & Hlen & _) & _ & _). unfold payload. cbn [length] in Hlen.
  replace (i_len it <=? i_off it)%Z with false by (revert Hoff Hlen; nl).
  apply (rd_app pj (i_len it) (i_off it) (pre ++ [w]) x post).
  - rewrite Ht. leq.
  - rewrite Hoff. lens.
  - revert Hoff Hlen. nl.
Qed.

Lemma walk_scalar pj it pre v post d f :
  N.of_nat (length (pj_msg pj)) < two64 -> N.of_nat (length (pj_strings pj)) < two64 ->
  pj_tape pj = pre ++ v ++ post -> vseg pj (nlen pre) v d -> walk_iter it (nlen pre) v ->
  is_container d = false -> walk_value (S f) pj it = Ok d.
Proof.
  intros Bm Bs Ht Hv Hw Hc.
  rewrite walk_value_S. cbv zeta. rewrite (iter_type_ok _ _ _ Hw).
  inversion Hv; subst; try discriminate Hc;
    pose proof Hw as ((Hoff & Hlen & w0 & r0 & E0 & Hit & Hcur) & Ha & Hl);
    injection E0 as <- <-; rewrite Hit;
    match goal with Htag : word_tag _ = _ |- _ => rewrite Htag end; tsimp.
  - (* string *)
    unfold string_bytes. rewrite Hit.
    match goal with Htag : word_tag _ = _ |- _ => rewrite Htag end. tsimp.
    cbn [length] in Hlen.
    replace (i_len it <=? i_off it)%Z with false by (revert Hoff Hlen; nl).
    rewrite (rd_app pj (i_len it) (i_off it) (pre ++ [w]) len post)
      by (try (rewrite Ht; leq); revert Hoff Hlen; lens).
    cbn [obind]. rewrite Hcur.
    erewrite string_byte_at_ok; eauto. reflexivity.
  - (* int *)
    unfold iter_int. rewrite Hit.
    match goal with Htag : word_tag _ = _ |- _ => rewrite Htag end. tsimp.
    rewrite (payload_ok pj it pre w x post Ht Hw). reflexivity.
  - (* uint *)
    unfold iter_uint. rewrite Hit.
    match goal with Htag : word_tag _ = _ |- _ => rewrite Htag end. tsimp.
    rewrite (payload_ok pj it pre w x post Ht Hw). reflexivity.
  - (* float *)
    unfold iter_float_flags, iter_float. rewrite Hit.
    match goal with Htag : word_tag _ = _ |- _ => rewrite Htag end. tsimp.
    rewrite (payload_ok pj it pre w x post Ht Hw). cbn [obind fst snd]. rewrite Hcur. reflexivity.
  - (* null *) reflexivity.
  - (* true *)
    unfold iter_bool. rewrite Hit.
    match goal with Htag : word_tag _ = _ |- _ => rewrite Htag end. tsimp. reflexivity.
  - (* false *)
    unfold iter_bool. rewrite Hit.
    match goal with Htag : word_tag _ = _ |- _ => rewrite Htag end. tsimp. reflexivity.
Qed.

End Scalars.

(* ------------------------------------------------------------------ *)
(* Object.NextElementBytes                                             *)

Lemma next_element_S f pj o :
  next_element (S f) pj o =
    if (c_len o <=? c_off o)%Z then Ok (o, None)
    else
      do v <- rd pj (c_len o) (c_off o);
      let t := word_tag v in
      if (t =? TagString)%N then
        if (c_len o <=? c_off o + 2)%Z then Err
        else
          do len <- rd pj (c_len o) (c_off o + 1);
          do name <- string_byte_at pj (word_val v) len;
          let off2 := (c_off o + 2)%Z in
          do v2 <- rd pj (c_len o) off2;
          let off3 := (off2 + 1)%Z in
          let cur := word_val v2 in
          let t2 := word_tag v2 in
          let esize := calc_next false off3 cur t2 in
          let add := calc_next true off3 cur t2 in
          if (esize <? 0)%Z then Err
          else if (c_len o <? off3 + esize)%Z then Err
          else if (off3 + esize <? 0)%Z then Crash
          else
            Ok ({| c_len := c_len o; c_off := off3 + esize |},
                Some (name, {| i_len := off3 + esize; i_off := off3; i_add := add; i_cur := cur; i_t := t2 |}, TagToType_ref t2))
      else if (t =? TagObjectEnd)%N then Ok (o, None)
      else if (t =? TagNop)%N then
        if (word_val v =? 0)%N then Err
        else next_element f pj {| c_len := c_len o; c_off := c_off o + Z.of_N (word_val v) |}
      else Err.
Proof. reflexivity. Qed.

Section NextElement.
Variables (strict : bool).

Lemma next_element_skip pj n : nops_seg strict n -> forall f pre X o,
  pj_tape pj = pre ++ n ++ X -> c_off o = Z.of_nat (length pre) ->
  (c_off o + Z.of_nat (length n) < c_len o)%Z -> (length n < f)%nat ->
  exists f', (0 < f')%nat /\
    next_element f pj o =
    next_element f' pj {| c_len := c_len o; c_off := c_off o + Z.of_nat (length n) |}.
Proof.
  induction 1 as [|w junk rest Ht Hv Hrun Hrest IH]; intros f pre X o Htape Hoff Hlen Hf.
  - exists f. split; [cbn in Hf; lia|]. cbn [length]. destruct o as [cl co]. cbn [c_len c_off].
    f_equal. f_equal. lia.
  - destruct f as [|f]; [lia|].
    cbn [length] in Hlen, Hf. rewrite app_length in Hlen, Hf.
    destruct (IH f (pre ++ w :: junk) X
                {| c_len := c_len o; c_off := c_off o + Z.of_N (word_val w) |}) as (f' & Hf' & E).
    + rewrite Htape. leq.
    + cbn [c_off]. rewrite Hoff, Hv. lens.
    + cbn [c_off c_len]. rewrite Hv. unfold nlen. lia.
    + lia.
    + exists f'. split; [exact Hf'|].
      rewrite next_element_S.
      replace (c_len o <=? c_off o)%Z with false by lia.
      cbn [app] in Htape. rewrite <- app_assoc in Htape.
      rewrite (rd_app pj (c_len o) (c_off o) pre w _ Htape Hoff) by lia.
      cbn [obind]. cbv zeta. rewrite Ht. tageq.
      replace (word_val w =? 0) with false by (rewrite Hv; lia).
      rewrite E. cbn [c_len c_off]. f_equal. f_equal. rewrite Hv. lens.
Qed.

Lemma next_element_end pj n e pre X o :
  nops_seg strict n -> pj_tape pj = pre ++ n ++ e :: X -> word_tag e = TagObjectEnd ->
  c_off o = Z.of_nat (length pre) -> (c_off o + Z.of_nat (length n) < c_len o)%Z ->
  exists o', next_element (cont_fuel o) pj o = Ok (o', None).
Proof.
  intros Hn Ht He Hoff Hlen.
  destruct (next_element_skip pj n Hn (cont_fuel o) pre (e :: X) o Ht Hoff Hlen) as (f' & Hf' & ->).
  { unfold cont_fuel. lia. }
  destruct f' as [|f']; [lia|]. rewrite next_element_S. cbn [c_len c_off].
  replace (c_len o <=? c_off o + Z.of_nat (length n))%Z with false by lia.
  rewrite app_assoc in Ht.
  rewrite (rd_app pj (c_len o) _ (pre ++ n) e X Ht) by (rewrite ?app_length; lia).
  cbn [obind]. cbv zeta. rewrite He. tageq. eexists. reflexivity.
Qed.

End NextElement.

Section NextMember.
Variables (msg strings : bytes) (strict adj : bool).
Notation val_seg := (val_seg msg strings strict adj).

Lemma calc_next_true_val k w r d off : val_seg k (w :: r) d ->
  (0 <= calc_next true off (word_val w) (word_tag w) <= Z.of_nat (length r))%Z.
Proof.
  intros H. destruct (val_seg_kind _ _ _ _ _ _ _ _ H) as (Kn & _ & _ & K2 & _).
  unfold calc_next. change is2 with is_numstr.
  rewrite Kn. destruct (is_numstr_doc d) eqn:E.
  - destruct (K2 eq_refl) as (x & ->). cbn [length]. lia.
  - destruct (is_open (word_tag w)); lia.
Qed.

Lemma next_element_member pj n w len k wv rv d pre X o :
  pj_msg pj = msg -> pj_strings pj = strings ->
  N.of_nat (length msg) < two64 -> N.of_nat (length strings) < two64 ->
  nops_seg strict n -> pj_tape pj = pre ++ n ++ w :: len :: (wv :: rv) ++ X ->
  word_tag w = TagString -> string_at msg strings (word_val w) len = Some k ->
  val_seg (nlen pre + nlen n + 2) (wv :: rv) d ->
  c_off o = Z.of_nat (length pre) ->
  (c_off o + Z.of_nat (length n) + 2 + Z.of_nat (length (wv :: rv)) < c_len o)%Z ->
  let vidx := (Z.of_nat (length pre) + Z.of_nat (length n) + 2)%Z in
  let el := {| i_len := vidx + 1 + Z.of_nat (length rv); i_off := vidx + 1;
               i_add := calc_next true (vidx + 1) (word_val wv) (word_tag wv);
               i_cur := word_val wv; i_t := word_tag wv |} in
  next_element (cont_fuel o) pj o =
    Ok ({| c_len := c_len o; c_off := vidx + 1 + Z.of_nat (length rv) |},
        Some (k, el, TagToType_ref (word_tag wv))) /\
  walk_iter el (nlen pre + nlen n + 2) (wv :: rv).
Proof.
  intros Hm Hs Bm Bs Hn Ht Hw Hk Hv Hoff Hlen vidx el.
  assert (Hes : calc_next false (vidx + 1) (word_val wv) (word_tag wv) = Z.of_nat (length rv)).
  { rewrite <- (calc_next_val _ _ _ _ _ _ _ _ Hv). f_equal. unfold vidx. nl. }
  pose proof (calc_next_true_val _ _ _ _ (vidx + 1)%Z Hv) as Hadd.
  split.
  - cbn [length] in Hlen.
    destruct (next_element_skip strict pj n Hn (cont_fuel o) pre _ o Ht Hoff) as (f' & Hf' & ->).
    { lia. } { unfold cont_fuel. lia. }
    destruct f' as [|f']; [lia|]. rewrite next_element_S. cbn [c_len c_off].
    replace (c_len o <=? c_off o + Z.of_nat (length n))%Z with false by lia.
    assert (Ht1 : pj_tape pj = (pre ++ n) ++ w :: len :: (wv :: rv) ++ X) by (rewrite Ht; leq).
    rewrite (rd_app pj (c_len o) _ (pre ++ n) w _ Ht1) by (rewrite ?app_length; lia).
    cbn [obind]. cbv zeta. rewrite Hw. tageq.
    replace (c_len o <=? c_off o + Z.of_nat (length n) + 2)%Z with false by lia.
    assert (Ht2 : pj_tape pj = (pre ++ n ++ [w]) ++ len :: (wv :: rv) ++ X) by (rewrite Ht; leq).
    rewrite (rd_app pj (c_len o) _ (pre ++ n ++ [w]) len _ Ht2) by (rewrite ?app_length; cbn [length]; lia).
    cbn [obind].
    rewrite (string_byte_at_ok pj (word_val w) len k) by (rewrite ?Hm, ?Hs; assumption).
    cbn [obind].
    assert (Ht3 : pj_tape pj = (pre ++ n ++ [w; len]) ++ wv :: rv ++ X) by (rewrite Ht; leq).
    rewrite (rd_app pj (c_len o) _ (pre ++ n ++ [w; len]) wv _ Ht3) by (rewrite ?app_length; cbn [length]; lia).
    cbn [obind].
    replace (c_off o + Z.of_nat (length n) + 2 + 1)%Z with (vidx + 1)%Z by (unfold vidx; lia).
    rewrite Hes.
    replace (Z.of_nat (length rv) <? 0)%Z with false by lia.
    replace (c_len o <? vidx + 1 + Z.of_nat (length rv))%Z with false by (unfold vidx; lia).
    replace (vidx + 1 + Z.of_nat (length rv) <? 0)%Z with false by (unfold vidx; lia).
    reflexivity.
  - unfold walk_iter, iter_on, el. cbn [i_off i_len i_add i_t i_cur length].
    split; [split; [unfold vidx; nl|split; [unfold vidx; nl|]]|].
    + exists wv, rv. repeat split.
    + split; [lia|]. lia.
Qed.

End NextMember.

(* ------------------------------------------------------------------ *)
(* the loops                                                           *)

Section Loops.
Variables (pj : pjson) (strict : bool).
Notation msg := (pj_msg pj).
Notation strings := (pj_strings pj).
Notation val_seg := (val_seg msg strings strict true).
Notation items := (items msg strings strict true).
Notation mitems := (mitems msg strings strict true).
Hypothesis Bm : N.of_nat (length msg) < two64.
Hypothesis Bs : N.of_nat (length strings) < two64.

Definition walk_ok (f : nat) (M : nat) : Prop :=
  forall v d pre post it, (length v <= M)%nat -> pj_tape pj = pre ++ v ++ post ->
    val_seg (nlen pre) v d -> walk_iter it (nlen pre) v -> walk_value f pj it = Ok d.

Lemma walk_elems_ok f M : walk_ok f M ->
  forall l b pre, items (nlen pre) b l -> forall it e post cnt acc,
  (length b <= M)%nat -> pj_tape pj = pre ++ b ++ e :: post -> word_tag e = TagArrayEnd ->
  (i_off it + i_add it)%Z = Z.of_nat (length pre) ->
  i_len it = Z.of_nat (length pre + length b + 1) -> (length l < cnt)%nat ->
  walk_elems f pj cnt it acc = Ok (DArr (rev acc ++ l)).
Proof.
  intros Hval. induction l as [|d l IH]; intros b pre Hit it e post cnt acc HM Ht He Hoff Hlen Hc;
    apply items_front in Hit; (destruct cnt as [|cnt]; [lia|]); rewrite walk_elems_S.
  - destruct (advance_end strict pj it b e pre post Hit Ht (or_introl He) Hoff ltac:(lia)) as (it' & ->).
    cbn [obind]. tsimp. rewrite app_nil_r. reflexivity.
  - destruct Hit as (n & v & rest & -> & Hn & Hv & Hrest).
    destruct (val_seg_head _ _ _ _ _ _ _ Hv) as (w & r & -> & Htag).
    rewrite <- !app_assoc in Ht.
    destruct (advance_value msg strings strict true pj it n w r d pre (rest ++ e :: post) Hn Ht Hv Hoff)
      as (Hadv & Hon & Hadd & Hl' & Hty).
    { rewrite Hlen. lens. }
    rewrite Hadv. cbn [obind].
    remember (land it (Z.of_nat (length pre) + Z.of_nat (length n) + 1) w) as it' eqn:Eit'. clear Eit'.
    replace (t_is (TagToType_ref (word_tag w)) TypeNone) with false
      by (symmetry; apply N.eqb_neq; exact Hty).
    pose proof Hon as (Hoff' & Hlen' & _).
    rewrite (Hval (w :: r) d (pre ++ n) (rest ++ e :: post) it').
    + cbn [obind].
      rewrite (IH rest (pre ++ n ++ w :: r)) with (e := e) (post := post).
      * cbn [rev]. rewrite <- app_assoc. reflexivity.
      * eapply items_idx; [|exact Hrest]. lens.
      * revert HM. lens.
      * rewrite Ht. leq.
      * exact He.
      * rewrite Hoff', Hadd. lens.
      * rewrite Hl', Hlen. lens.
      * cbn [length] in Hc. lia.
    + revert HM. lens.
    + rewrite Ht. leq.
    + eapply val_seg_idx; [|exact Hv]. lens.
    + split; [|split].
      * destruct Hon as (A & B & C). split; [rewrite A; lens|]. split; [revert B; lens|exact C].
      * lia.
      * rewrite Hoff', Hadd, Hl', Hlen. lens.
Qed.

Lemma walk_members_ok f M : walk_ok f M ->
  forall l b pre, mitems (nlen pre) b l -> forall ob e post cnt acc,
  (length b <= M)%nat -> pj_tape pj = pre ++ b ++ e :: post -> word_tag e = TagObjectEnd ->
  c_off ob = Z.of_nat (length pre) ->
  c_len ob = Z.of_nat (length pre + length b + 1) -> (length l < cnt)%nat ->
  walk_members f pj cnt ob acc = Ok (DObj (rev acc ++ l)).
Proof.
  intros Hval. induction l as [|[k d] l IH]; intros b pre Hit ob e post cnt acc HM Ht He Hoff Hlen Hc;
    apply mitems_front in Hit; (destruct cnt as [|cnt]; [lia|]); rewrite walk_members_S.
  - destruct (next_element_end strict pj b e pre post ob Hit Ht He Hoff ltac:(lia)) as (o' & ->).
    cbn [obind]. rewrite app_nil_r. reflexivity.
  - destruct Hit as (n & w & len & n2 & v & rest & -> & Hn & Hw & Hk & Hn2 & Hadj & Hv & Hrest).
    rewrite (Hadj eq_refl) in *. cbn [app] in *. rewrite nlen_nil, N.add_0_r in Hv, Hrest.
    destruct (val_seg_head _ _ _ _ _ _ _ Hv) as (wv & rv & -> & Htag).
    assert (Ht' : pj_tape pj = pre ++ n ++ w :: len :: (wv :: rv) ++ rest ++ e :: post)
      by (rewrite Ht; leq).
    destruct (next_element_member msg strings strict true pj n w len k wv rv d pre (rest ++ e :: post) ob
                eq_refl eq_refl Bm Bs Hn Ht' Hw Hk Hv Hoff) as (Hne & Hwi).
    { rewrite Hoff, Hlen. lens. }
    rewrite Hne. cbn [obind].
    match goal with |- context [walk_value f pj ?el] => remember el as el' eqn:Eel end. clear Eel.
    rewrite (Hval (wv :: rv) d (pre ++ n ++ [w; len]) (rest ++ e :: post) el').
    + cbn [obind].
      rewrite (IH rest (pre ++ n ++ w :: len :: wv :: rv)) with (e := e) (post := post).
      * cbn [rev]. rewrite <- app_assoc. reflexivity.
      * eapply mitems_idx; [|exact Hrest]. lens.
      * revert HM. lens.
      * rewrite Ht. leq.
      * exact He.
      * cbn [c_off]. lens.
      * cbn [c_len]. rewrite Hlen. lens.
      * cbn [length] in Hc. lia.
    + revert HM. lens.
    + rewrite Ht. leq.
    + eapply val_seg_idx; [|exact Hv]. lens.
    + destruct Hwi as ((A & B & C) & D & E). split; [|split; assumption].
      split; [rewrite A; lens|]. split; [revert B; lens|exact C].
Qed.

(* the traversal of one value *)
Lemma walk_value_ok : forall N f, (N < f)%nat -> walk_ok f N.
Proof.
  induction N as [|N IH]; intros f Hf v d pre post it HN Ht Hv Hw.
  - pose proof (val_seg_nonempty _ _ _ _ _ _ _ Hv). lia.
  - destruct f as [|f]; [lia|].
    destruct (is_container d) eqn:Ec.
    2:{ eapply walk_scalar; eauto. }
    assert (Hsub : walk_ok f N) by (apply IH; lia).
    rewrite walk_value_S. cbv zeta. rewrite (iter_type_ok _ _ _ Hw).
    pose proof Hw as (Hon & Ha & Hl).
    inversion Hv; subst; try discriminate Ec;
      pose proof Hon as (Hoff & Hlen & w0 & r0 & E0 & Hit & Hcur);
      injection E0 as <- <-; rewrite Hit;
      match goal with Htag : word_tag _ = _ |- _ => rewrite Htag end; tsimp.
    + (* array *)
      rewrite (iter_array_on strict true pj it _ _ _ Hon Hv). cbn [obind].
      rewrite (walk_elems_ok f N Hsub l body (pre ++ [w])) with (e := e) (post := post).
      * reflexivity.
      * eapply items_idx; [|eassumption]. lens.
      * revert HN. lens.
      * rewrite Ht. leq.
      * assumption.
      * cbn [cont_iter i_off i_add c_off]. lens.
      * cbn [cont_iter i_len c_len]. lens.
      * match goal with H : items _ body l |- _ =>
          pose proof (proj1 (proj2 (seg_lengths _ _ _ _)) _ _ _ H) end.
        revert HN. lens.
    + (* object *)
      rewrite (iter_object_on strict true pj it _ _ _ Hon Hv). cbn [obind].
      rewrite (walk_members_ok f N Hsub l body (pre ++ [w])) with (e := e) (post := post).
      * reflexivity.
      * eapply mitems_idx; [|eassumption]. lens.
      * revert HN. lens.
      * rewrite Ht. leq.
      * assumption.
      * cbn [c_off]. lens.
      * cbn [c_len]. lens.
      * match goal with H : mitems _ body l |- _ =>
          pose proof (proj2 (proj2 (seg_lengths _ _ _ _)) _ _ _ H) end.
        revert HN. lens.
Qed.

End Loops.

(* ------------------------------------------------------------------ *)
(* roots                                                               *)

Section RootsFront.
Variables (msg strings : bytes) (adj : bool).
Notation val_seg := (val_seg msg strings true adj).
Notation nops_seg := (nops_seg true).
Notation roots_seg := (roots_seg msg strings true adj).

Lemma roots_front i rest l : roots_seg i rest l ->
  match l with
  | [] => nops_seg rest
  | d :: l' => exists n w n1 v n2 c rest',
      rest = n ++ w :: n1 ++ v ++ n2 ++ c :: rest' /\ nops_seg n /\
      word_tag w = TagRoot /\ nops_seg n1 /\ val_seg (i + nlen n + 1 + nlen n1) v d /\
      nops_seg n2 /\ word_tag c = TagRoot /\
      word_val w = i + nlen n + 1 + nlen n1 + nlen v + nlen n2 + 1 /\
      roots_seg (i + nlen n + 1 + nlen n1 + nlen v + nlen n2 + 1) rest' l'
  end.
Proof.
  induction 1 as [i|i w rest Hs Ht Hv|i w junk rest l Ht Hv Hrun Hr IH
                  |i w n1 v d n2 c rest l Ht Hn1 Hval Hn2 Hc Hcv Hwv Hr IH].
  - constructor.
  - discriminate Hs.
  - destruct l as [|d l'].
    + apply ns_cons; assumption.
    + destruct IH as (n & w' & n1 & v & n2 & c & rest' & -> & Hn & Hw & Hn1 & Hval & Hn2 & Hc & Hwv & Hr').
      exists (w :: junk ++ n), w', n1, v, n2, c, rest'. split; [leq|].
      split; [apply ns_cons; assumption|]. split; [exact Hw|]. split; [exact Hn1|]. split.
      { eapply val_seg_idx; [|exact Hval]. nl. }
      split; [exact Hn2|]. split; [exact Hc|]. split; [rewrite Hwv; nl|].
      eapply roots_idx; [|exact Hr']. nl.
  - exists [], w, n1, v, n2, c, rest. split; [reflexivity|]. split; [constructor|].
    rewrite nlen_nil, N.add_0_r. repeat (split; [assumption|]). assumption.
Qed.

End RootsFront.

Section WalkRoots.
Variables (pj : pjson).
Notation msg := (pj_msg pj).
Notation strings := (pj_strings pj).
Notation val_seg := (val_seg msg strings true true).
Notation roots_seg := (roots_seg msg strings true true).
Hypothesis Bm : N.of_nat (length msg) < two64.
Hypothesis Bs : N.of_nat (length strings) < two64.

Lemma walk_roots_ok : forall l rest pre, roots_seg (nlen pre) rest l ->
  forall it cnt acc, pj_tape pj = pre ++ rest ->
  (i_off it + i_add it)%Z = Z.of_nat (length pre) ->
  i_len it = Z.of_nat (length (pj_tape pj)) -> (length l < cnt)%nat ->
  walk_roots cnt pj it acc = Ok (rev acc ++ l).
Proof.
  induction l as [|d l IH]; intros rest pre Hr it cnt acc Ht Hoff Hlen Hc;
    apply roots_front in Hr; (destruct cnt as [|cnt]; [lia|]); cbn [walk_roots].
  - destruct (advance_at_end true pj it rest pre Hr Ht Hoff) as (it' & ->).
    { rewrite Hlen, Ht. lens. }
    cbn [obind]. tsimp. rewrite app_nil_r. reflexivity.
  - destruct Hr as (n & w & n1 & v & n2 & c & rest' & -> & Hn & Hw & Hn1 & Hv & Hn2 & Hc' & Hwv & Hr').
    assert (HwN : word_tag w <> TagNop) by (rewrite Hw; discriminate).
    rewrite (advance_at true pj it n w pre _ Hn Ht HwN Hoff) by (rewrite Hlen, Ht; lens).
    cbv zeta.
    set (k1 := (Z.of_nat (length pre) + Z.of_nat (length n) + 1)%Z).
    assert (Hadd : i_add (land it k1 w) = (Z.of_N (word_val w) - k1)%Z).
    { unfold land, with_calc, set_i, calc_next. cbn [i_add i_off i_cur i_t]. rewrite Hw. reflexivity. }
    rewrite Hadd.
    replace (Z.of_N (word_val w) - k1 <? 0)%Z with false by (rewrite Hwv; unfold k1; nl).
    cbn [obind]. rewrite Hw. tsimp.
    (* Root() *)
    unfold iter_root.
    assert (Ei : i_t (land it k1 w) = TagRoot /\ i_cur (land it k1 w) = word_val w /\
                 i_off (land it k1 w) = k1 /\ i_len (land it k1 w) = i_len it).
    { unfold land, with_calc, set_i. cbn [i_t i_cur i_off i_len]. rewrite Hw. repeat split. }
    destruct Ei as (Et & Ecur & Eoff & Elen).
    rewrite Et, Ecur, Eoff, Elen. tsimp.
    replace (i_len it <? Z.of_N (word_val w))%Z with false by (rewrite Hlen, Ht, Hwv; lens).
    replace (Z.of_N (word_val w) <? k1)%Z with false by (rewrite Hwv; unfold k1; nl).
    destruct (val_seg_head _ _ _ _ _ _ _ Hv) as (wv & rv & -> & Htag).
    assert (HwvN : word_tag wv <> TagNop).
    { intros E. rewrite E in Htag. discriminate Htag. }
    assert (Ht' : pj_tape pj = (pre ++ n ++ [w]) ++ n1 ++ wv :: rv ++ n2 ++ c :: rest')
      by (rewrite Ht; leq).
    rewrite (advance_into_at true pj _ n1 wv (pre ++ n ++ [w]) _ Hn1 Ht' HwvN).
    2:{ cbn [i_off i_add]. unfold k1. lens. }
    2:{ cbn [i_len]. rewrite Hwv. lens. }
    cbn [obind fst].
    match goal with |- context [walk_value _ pj ?el] => remember el as el' eqn:Eel end.
    assert (Hwi : walk_iter el' (nlen (pre ++ n ++ [w] ++ n1)) (wv :: rv)).
    { pose proof (calc_next_true_val _ _ _ _ _ _ _ _
                    (Z.of_nat (length (pre ++ n ++ [w])) + Z.of_nat (length n1) + 1)%Z Hv) as Hcn.
      subst el'. unfold walk_iter, iter_on, with_calc, set_i. cbn [i_off i_len i_add i_cur i_t].
      split; [split; [lens|split; [rewrite Hwv; lens|]]|].
      - exists wv, rv. repeat split.
      - split; [lia|]. rewrite Hwv. revert Hcn. lens. }
    clear Eel.
    rewrite (walk_value_ok pj true Bm Bs (length (wv :: rv)) (S (length (pj_tape pj)))
               ltac:(rewrite Ht; lens) (wv :: rv) d (pre ++ n ++ [w] ++ n1) (n2 ++ c :: rest') el').
    + cbn [obind].
      rewrite (IH rest' (pre ++ n ++ w :: n1 ++ (wv :: rv) ++ n2 ++ [c])).
      * cbn [rev]. rewrite <- app_assoc. reflexivity.
      * eapply roots_idx; [|exact Hr']. lens.
      * rewrite Ht. leq.
      * rewrite Eoff, Hadd, Hwv. unfold k1. lens.
      * rewrite Elen. exact Hlen.
      * cbn [length] in Hc. lia.
    + lia.
    + rewrite Ht. leq.
    + eapply val_seg_idx; [|exact Hv]. lens.
    + exact Hwi.
Qed.

End WalkRoots.

Lemma roots_lengths msg strings strict adj i rest l :
  roots_seg msg strings strict adj i rest l -> (length l <= length rest)%nat.
Proof.
  induction 1; cbn [length]; rewrite ?app_length; cbn [length]; rewrite ?app_length;
    cbn [length]; rewrite ?app_length; cbn [length]; lia.
Qed.

(* F: plain traversal returns the denotation *)
Theorem walk_doc_denote pj ds :
  N.of_nat (length (pj_msg pj)) < two64 -> N.of_nat (length (pj_strings pj)) < two64 ->
  roots_seg (pj_msg pj) (pj_strings pj) true true 0 (pj_tape pj) ds ->
  walk_doc pj = Ok ds.
Proof.
  intros Bm Bs Hr. unfold walk_doc.
  rewrite (walk_roots_ok pj Bm Bs ds (pj_tape pj) [] Hr (iter0 pj) _ []); try reflexivity.
  pose proof (roots_lengths _ _ _ _ _ _ _ Hr). lia.
Qed.
