(* NdRejectShapes.v — the inputs [nd_spec] does not accept, by shape:
   one bad line among good ones, two documents on one line, a document that
   spans two lines.  All at the level of the specification; NdRejectFinal.v
   draws the consequences for the model of ParseND. *)
From Coq Require Import ZifyBool ZifyN ZifyNat.
From SJ Require Import Model.Base Model.RefTables Spec.Json.
From SJ Require Import Proofs.TrimProofs Proofs.Stage2Proofs Proofs.AcceptProofs Proofs.NdSpec.
From SJ Require Import Proofs.NdRejectSpec Proofs.NdRejectFuel.
Open Scope N_scope.

(* ------------------------------------------------------------------ *)
(* acceptance is line by line                                          *)

Lemma nd_lines_ok_all : forall ls acc ds, nd_lines ls acc = SOk ds ->
  forall l, In l ls -> is_blank_line l = false -> exists d, spec_parse l = SOk d.
Proof.
  induction ls as [|l0 r IH]; intros acc ds H l Hin Hb; [destruct Hin|].
  cbn [nd_lines] in H. destruct Hin as [<-|Hin].
  - rewrite Hb in H. destruct (spec_parse l0) as [d| | |]; try discriminate. exists d. reflexivity.
  - destruct (is_blank_line l0); [exact (IH _ _ H l Hin Hb)|].
    destruct (spec_parse l0) as [d| | |]; try discriminate. exact (IH _ _ H l Hin Hb).
Qed.

Lemma nd_lines_out : forall ls acc, nd_lines ls acc = SOut -> existsb outb ls = true.
Proof.
  induction ls as [|l0 r IH]; intros acc H; [discriminate|].
  cbn [nd_lines] in H. cbn [existsb]. unfold outb at 1.
  destruct (is_blank_line l0); [cbn [orb]; exact (IH _ H)|].
  destruct (spec_parse l0) as [d| | |]; try discriminate; [cbn [orb]; exact (IH _ H)|reflexivity].
Qed.

(* whenever nd_spec accepts, every non-blank line is a valid document *)
Theorem nd_of_ok_lines ls ds : nd_of ls = SOk ds ->
  forall l, In l ls -> is_blank_line l = false -> exists d, spec_parse l = SOk d.
Proof.
  unfold nd_of. destruct (existsb outb ls); [discriminate|].
  destruct (nd_lines ls []) as [ds'| | |] eqn:E; try discriminate.
  intros _. exact (nd_lines_ok_all ls [] ds' E).
Qed.

(* one line that is not a valid document fails the whole input *)
Theorem nd_of_bad_line ls l :
  In l ls -> is_blank_line l = false -> (forall d, spec_parse l <> SOk d) ->
  nd_of ls = SInvalid \/ nd_of ls = SOut.
Proof.
  intros Hin Hb Hbad. unfold nd_of.
  destruct (existsb outb ls) eqn:Hex; [right; reflexivity|left].
  destruct (nd_lines ls []) as [ds| | |] eqn:E.
  - destruct (nd_lines_ok_all ls [] ds E l Hin Hb) as (d & Hd). exfalso. exact (Hbad d Hd).
  - reflexivity.
  - apply nd_lines_out in E. congruence.
  - exfalso. exact (nd_lines_not_fuel _ _ E).
Qed.

Theorem nd_spec_bad_line ls l :
  Forall nolf ls -> In l ls -> is_blank_line l = false -> (forall d, spec_parse l <> SOk d) ->
  nd_spec (join_lf ls) <> SOut -> nd_spec (join_lf ls) = SInvalid.
Proof.
  intros Hnl Hin Hb Hbad Hout.
  assert (Hne : ls <> []) by (destruct ls; [destruct Hin|discriminate]).
  rewrite nd_spec_join in Hout |- * by assumption.
  destruct (nd_of_bad_line ls l Hin Hb Hbad) as [H|H]; [exact H|congruence].
Qed.

(* ------------------------------------------------------------------ *)
(* two documents on one line                                           *)

Lemma good_doc_skip t d : good_doc t d -> skip_ws t = t.
Proof. intros (_ & _ & _ & (b & r & Et & Hb & _) & _). rewrite Et. apply skip_ws_nonws. exact Hb. Qed.

Lemma rtrim_ws_shape x : skip_ws x <> [] ->
  exists z c w, x = (z ++ [c]) ++ w /\ rtrim_ws x = z ++ [c] /\ is_json_ws (b2n c) = false /\ allws w.
Proof.
  intros Hne. destruct (rtrim_ws_split x) as (w & Hx & Hw).
  destruct (rtrim_ws x) as [|q0 q] eqn:E.
  { exfalso. apply Hne. cbn [app] in Hx. subst x. apply skip_ws_allws. exact Hw. }
  destruct (@exists_last _ (q0 :: q) ltac:(discriminate)) as (z & c & Ez).
  exists z, c, w. rewrite <- Ez. split; [exact Hx|]. split; [reflexivity|]. split; [|exact Hw].
  assert (Hr : skip_ws (rev x) = rev (q0 :: q)).
  { unfold rtrim_ws in E. rewrite <- E, rev_involutive. reflexivity. }
  rewrite Ez, rev_app_distr in Hr. cbn [rev app] in Hr. exact (skip_ws_head _ _ _ Hr).
Qed.

Lemma spec_parse_trimmed l T b0 T' : rtrim_ws (skip_ws l) = T -> T = b0 :: T' ->
  spec_parse l =
  if edge_unclaimed (b2n b0) || edge_unclaimed (b2n (last T x00)) then SOut
  else match spec_value (2 * length T + 2) T with
       | SOk (d, r) => match r with [] => if is_container d then SOk d else SInvalid | _ => SInvalid end
       | SInvalid => SInvalid | SOut => SOut | SFuel => SFuel
       end.
Proof. intros H1 H2. unfold spec_parse. cbv zeta. rewrite H1, H2. reflexivity. Qed.

(* a valid document followed, on the same line, by anything but white space *)
Theorem spec_parse_two_docs t d x :
  good_doc t d -> skip_ws x <> [] ->
  (forall ds, spec_parse (t ++ x) <> SOk ds) /\
  (edge_unclaimed (b2n (last (rtrim_ws x) x00)) = false -> spec_parse (t ++ x) = SInvalid).
Proof.
  intros Hg Hx.
  destruct (rtrim_ws_shape x Hx) as (z & c & w & Ex & Ert & Hc & Hw).
  pose proof (good_doc_skip t d Hg) as Hsk.
  destruct Hg as (_ & Hv & Hcd & (b & r & Et & Hb & Hbe) & _).
  assert (Hnorm : rtrim_ws (skip_ws (t ++ x)) = t ++ z ++ [c]).
  { assert (Hskx : skip_ws (t ++ x) = t ++ x) by (rewrite Et; cbn [app]; apply skip_ws_nonws; exact Hb).
    rewrite Hskx, Ex, app_assoc, rtrim_ws_allws_app by exact Hw. rewrite app_assoc. apply rtrim_ws_snoc. exact Hc. }
  assert (Hval : spec_value (2 * length (t ++ z ++ [c]) + 2) (t ++ z ++ [c]) = SOk (d, z ++ [c])).
  { apply spec_value_ext; [|exact Hcd]. eapply spec_value_mono; [|exact Hv]. rewrite app_length. lia. }
  assert (Hlast : last (t ++ z ++ [c]) x00 = c) by (rewrite app_assoc; apply last_last).
  assert (ET : t ++ z ++ [c] = b :: r ++ z ++ [c]) by (rewrite Et; reflexivity).
  pose proof (spec_parse_trimmed (t ++ x) _ b _ Hnorm ET) as Hsp. rewrite Hval, Hlast in Hsp.
  assert (Hzc : exists q0 q, z ++ [c] = q0 :: q) by (destruct z; cbn [app]; eauto).
  destruct Hzc as (q0 & q & Ezc). rewrite Ezc in Hsp.
  split.
  - intros ds. rewrite Hsp. destruct (edge_unclaimed (b2n b) || edge_unclaimed (b2n c)); discriminate.
  - intros He. rewrite Ert, last_last in He. rewrite Hsp, Hbe, He. reflexivity.
Qed.

(* ------------------------------------------------------------------ *)
(* a document spanning lines                                           *)

(* no valid document is a proper prefix of a valid document *)
Theorem spec_parse_proper_prefix t d a b :
  good_doc t d -> t = a ++ b -> b <> [] -> forall d', spec_parse a <> SOk d'.
Proof.
  intros Hg Et Hb d' Ha.
  destruct Hg as (_ & Hv & Hcd & _ & _).
  destruct (spec_parse_ok a d' Ha) as (Hva & Hca & _). cbv zeta in Hva.
  set (ta := rtrim_ws (skip_ws a)) in *.
  destruct (skip_ws_split a) as (w0 & Ha0 & Hw0).
  destruct (rtrim_ws_split (skip_ws a)) as (w & Hu & Hw). fold ta in Hu.
  (* t = w0 ++ ta ++ (w ++ b); the recogniser skips w0 *)
  assert (Ht : t = w0 ++ ta ++ (w ++ b)).
  { rewrite Et, Ha0, Hu, <- !app_assoc. reflexivity. }
  set (F := (2 * length t + 2 + (2 * length ta + 2))%nat).
  assert (H1 : spec_value F t = SOk (d, [])) by (eapply spec_value_mono; [|exact Hv]; unfold F; lia).
  pose proof (spec_value_ext _ _ _ (w ++ b) Hva Hca) as H2.
  assert (H3 : spec_value F (ta ++ w ++ b) = SOk (d', w ++ b)) by (eapply spec_value_mono; [|exact H2]; unfold F; lia).
  assert (H4 : spec_value F t = spec_value F (ta ++ w ++ b)).
  { rewrite Ht. unfold F. generalize (2 * length t + 2 + (2 * length ta + 2))%nat as f. intros f.
    destruct f as [|f]; [reflexivity|]. rewrite !spec_value_S.
    rewrite skip_ws_allws_app by exact Hw0. reflexivity. }
  rewrite H4, H3 in H1. injection H1 as _ H1. destruct w; [|discriminate]. cbn [app] in H1. congruence.
Qed.

(* a line end inside a document: the input is not accepted, whatever follows *)
Theorem nd_spec_split_doc t d a b s :
  good_doc t d -> t = a ++ b -> a <> [] -> b <> [] ->
  forall ds, nd_spec (a ++ bLF :: s) <> SOk ds.
Proof.
  intros Hg Et Ha Hb ds Hs.
  assert (Hna : nolf a) by (destruct Hg as (Hnl & _); rewrite Et in Hnl; apply nolf_app in Hnl; tauto).
  rewrite nd_spec_of, split_lf_line in Hs by exact Hna.
  assert (Hnb : is_blank_line a = false).
  { destruct Hg as (_ & _ & _ & (b0 & r0 & E0 & Hb0 & _) & _). rewrite Et in E0.
    destruct a as [|a0 a']; [congruence|]. cbn [app] in E0. injection E0 as -> _.
    unfold is_blank_line. rewrite skip_ws_nonws by exact Hb0. reflexivity. }
  destruct (nd_of_ok_lines _ ds Hs a (or_introl eq_refl) Hnb) as (d' & Hd').
  exact (spec_parse_proper_prefix t d a b Hg Et Hb d' Hd').
Qed.

(* the same with lines before it *)
Theorem nd_spec_split_doc_lines t d a b ls1 ls2 :
  good_doc t d -> t = a ++ b -> a <> [] -> b <> [] -> Forall nolf ls1 -> Forall nolf ls2 ->
  forall ds, nd_spec (join_lf (ls1 ++ a :: ls2)) <> SOk ds.
Proof.
  intros Hg Et Ha Hb H1 H2 ds Hs.
  assert (Hna : nolf a) by (destruct Hg as (Hnl & _); rewrite Et in Hnl; apply nolf_app in Hnl; tauto).
  rewrite nd_spec_join in Hs; [| |destruct ls1; discriminate].
  2:{ apply Forall_app. split; [exact H1|constructor; assumption]. }
  assert (Hnb : is_blank_line a = false).
  { destruct Hg as (_ & _ & _ & (b0 & r0 & E0 & Hb0 & _) & _). rewrite Et in E0.
    destruct a as [|a0 a']; [congruence|]. cbn [app] in E0. injection E0 as -> _.
    unfold is_blank_line. rewrite skip_ws_nonws by exact Hb0. reflexivity. }
  destruct (nd_of_ok_lines _ ds Hs a ltac:(apply in_or_app; right; left; reflexivity) Hnb) as (d' & Hd').
  exact (spec_parse_proper_prefix t d a b Hg Et Hb d' Hd').
Qed.

Print Assumptions nd_spec_bad_line.
Print Assumptions spec_parse_two_docs.
Print Assumptions nd_spec_split_doc.
