(* StrArith.v — table and arithmetic facts used by the string kernel proofs:
   hex4 / digittoval, the UTF-8 encoder, the surrogate-pair wrap-around
   arithmetic and the escape map.  Bit-level facts are proved by finite
   enumeration (vm_compute on closed terms) and lifted with forallb_forall. *)
From Coq Require Import ZifyBool ZifyN ZifyNat.
From SJ Require Import Model.Base Model.RefTables Spec.Json Model.Str.
Open Scope N_scope.

(* ------------------------------------------------------------------ *)
(* enumeration helpers                                                  *)

Fixpoint nfrom (start : N) (n : nat) : list N :=
  match n with O => [] | S k => start :: nfrom (N.succ start) k end.

Lemma nfrom_in n : forall start x, x < N.of_nat n -> In (start + x) (nfrom start n).
Proof.
  induction n; intros start x H; [lia|].
  cbn [nfrom]. destruct (N.eq_dec x 0) as [->|Hx].
  - left. lia.
  - right. replace (start + x) with (N.succ start + (x - 1)) by lia. apply IHn. lia.
Qed.

Definition nrange (n : nat) : list N := nfrom 0 n.

Lemma nrange_in x n : x < N.of_nat n -> In x (nrange n).
Proof. intros H. unfold nrange. change x with (0 + x). apply nfrom_in. exact H. Qed.

Definition all4 (l : list N) (f : N -> N -> N -> N -> bool) : bool :=
  forallb (fun x => forallb (fun y => forallb (fun z => forallb (fun w => f x y z w) l) l) l) l.

Lemma all4_spec l f :
  all4 l f = true ->
  forall x y z w, In x l -> In y l -> In z l -> In w l -> f x y z w = true.
Proof.
  unfold all4. intros H x y z w Hx Hy Hz Hw.
  rewrite forallb_forall in H. specialize (H x Hx).
  rewrite forallb_forall in H. specialize (H y Hy).
  rewrite forallb_forall in H. specialize (H z Hz).
  rewrite forallb_forall in H. exact (H w Hw).
Qed.

Definition all2 (l1 l2 : list N) (f : N -> N -> bool) : bool :=
  forallb (fun x => forallb (fun y => f x y) l2) l1.

Lemma all2_spec l1 l2 f :
  all2 l1 l2 f = true -> forall x y, In x l1 -> In y l2 -> f x y = true.
Proof.
  unfold all2. intros H x y Hx Hy.
  rewrite forallb_forall in H. specialize (H x Hx).
  rewrite forallb_forall in H. exact (H y Hy).
Qed.

(* ------------------------------------------------------------------ *)
(* bytes                                                                *)

Lemma b2n_lt b : b2n b < 256.
Proof. destruct b; vm_compute; reflexivity. Qed.

Lemma b2n_quote b : b2n b = 34 -> b = x22.
Proof. destruct b; vm_compute; intros H; try reflexivity; discriminate H. Qed.

Lemma n2b_b2n b : n2b (b2n b) = b.
Proof. destruct b; vm_compute; reflexivity. Qed.

(* ------------------------------------------------------------------ *)
(* digittoval / hex4                                                    *)

Lemma hexval_some c x : hexval c = Some x -> x < 16 /\ digittoval_ref c = x.
Proof.
  intros H. unfold digittoval_ref. rewrite H. split; [|reflexivity].
  unfold hexval, is_digit, c0, c9 in H.
  destruct ((48 <=? c) && (c <=? 57)) eqn:E1.
  { inversion H. lia. }
  destruct ((97 <=? c) && (c <=? 102)) eqn:E2.
  { inversion H. lia. }
  destruct ((65 <=? c) && (c <=? 70)) eqn:E3.
  { inversion H. lia. }
  discriminate.
Qed.

Lemma hexval_none c : hexval c = None -> digittoval_ref c = 255.
Proof. intros H. unfold digittoval_ref. rewrite H. reflexivity. Qed.

Definition hex4_raw (x y z w : N) : N :=
  N.lor (N.lor (w32 (N.shiftl (sx8_32 y) 8)) (w32 (N.shiftl (sx8_32 x) 12)))
        (N.lor (w32 (N.shiftl (sx8_32 z) 4)) (sx8_32 w)).

Lemma hex4_unfold d0 d1 d2 d3 :
  hex4 d0 d1 d2 d3 =
  hex4_raw (digittoval_ref d0) (digittoval_ref d1) (digittoval_ref d2) (digittoval_ref d3).
Proof. reflexivity. Qed.

Lemma hex4_raw_good_enum :
  all4 (nrange 16) (fun x y z w => hex4_raw x y z w =? ((x * 16 + y) * 16 + z) * 16 + w) = true.
Proof. vm_compute. reflexivity. Qed.

Lemma hex4_raw_good x y z w :
  x < 16 -> y < 16 -> z < 16 -> w < 16 ->
  hex4_raw x y z w = ((x * 16 + y) * 16 + z) * 16 + w.
Proof.
  intros. apply N.eqb_eq.
  apply (all4_spec _ _ hex4_raw_good_enum); apply nrange_in; assumption.
Qed.

(* the values digittoval can take *)
Definition dvals : list N := nrange 16 ++ [255].

Lemma dvals_in c : In (digittoval_ref c) dvals.
Proof.
  unfold dvals. apply in_or_app.
  destruct (hexval c) eqn:E.
  - left. apply hexval_some in E. destruct E as [E1 E2]. rewrite E2.
    apply nrange_in. exact E1.
  - right. rewrite (hexval_none _ E). left. reflexivity.
Qed.

Lemma hex4_raw_bad_enum :
  all4 dvals (fun x y z w =>
     ((x <? 16) && (y <? 16) && (z <? 16) && (w <? 16))
     || N.testbit (hex4_raw x y z w) 31) = true.
Proof. vm_compute. reflexivity. Qed.

Lemma hex4_ok a b c d v :
  hex4_spec a b c d = Some v ->
  hex4 (b2n a) (b2n b) (b2n c) (b2n d) = v /\ v < 65536.
Proof.
  unfold hex4_spec. intros H.
  destruct (hexval (b2n a)) as [x|] eqn:Ea; [|discriminate].
  destruct (hexval (b2n b)) as [y|] eqn:Eb; [|discriminate].
  destruct (hexval (b2n c)) as [z|] eqn:Ec; [|discriminate].
  destruct (hexval (b2n d)) as [w|] eqn:Ed; [|discriminate].
  inversion H; subst v; clear H.
  apply hexval_some in Ea, Eb, Ec, Ed.
  destruct Ea as [Hx Ea], Eb as [Hy Eb], Ec as [Hz Ec], Ed as [Hw Ed].
  rewrite hex4_unfold, Ea, Eb, Ec, Ed.
  rewrite hex4_raw_good by assumption. split; [reflexivity|lia].
Qed.

(* an invalid hex digit sets bit 31 of the combined value *)
Lemma hex4_bad_bit a b c d :
  hex4_spec a b c d = None ->
  N.testbit (hex4 (b2n a) (b2n b) (b2n c) (b2n d)) 31 = true.
Proof.
  intros H. rewrite hex4_unfold.
  pose proof (all4_spec _ _ hex4_raw_bad_enum _ _ _ _
                (dvals_in (b2n a)) (dvals_in (b2n b)) (dvals_in (b2n c)) (dvals_in (b2n d))) as E.
  apply orb_true_iff in E. destruct E as [E|E]; [|exact E].
  exfalso. unfold hex4_spec in H.
  destruct (hexval (b2n a)) eqn:Ea.
  2:{ rewrite (hexval_none _ Ea) in E. vm_compute in E. discriminate. }
  destruct (hexval (b2n b)) eqn:Eb.
  2:{ rewrite (hexval_none _ Eb) in E. rewrite !andb_true_iff in E.
      destruct E as [[[_ E] _] _]. vm_compute in E. discriminate. }
  destruct (hexval (b2n c)) eqn:Ec.
  2:{ rewrite (hexval_none _ Ec) in E. rewrite !andb_true_iff in E.
      destruct E as [[_ E] _]. vm_compute in E. discriminate. }
  destruct (hexval (b2n d)) eqn:Ed.
  2:{ rewrite (hexval_none _ Ed) in E. rewrite !andb_true_iff in E.
      destruct E as [_ E]. vm_compute in E. discriminate. }
  discriminate.
Qed.

Lemma testbit31_ge a : N.testbit a 31 = true -> 2147483648 <= a.
Proof.
  intros H. apply N.testbit_true in H.
  change (2 ^ 31) with 2147483648 in H.
  destruct (N.lt_ge_cases a 2147483648) as [L|G]; [|exact G].
  rewrite N.div_small in H by exact L. vm_compute in H. discriminate.
Qed.

(* consequences for the model: with bit 31 set the value is no high
   surrogate, has no UTF-8 length, and poisons the "both below 65536" test *)
Lemma bit31_not_surrogate cp :
  N.testbit cp 31 = true -> (N.land cp 4294966272 =? 55296) = false.
Proof.
  intros H. apply N.eqb_neq. intros E.
  assert (T : N.testbit (N.land cp 4294966272) 31 = N.testbit 55296 31) by (rewrite E; reflexivity).
  rewrite N.land_spec, H in T. vm_compute in T. discriminate.
Qed.

Lemma bit31_utf8_len cp : N.testbit cp 31 = true -> utf8_len cp = None.
Proof.
  intros H. apply testbit31_ge in H. unfold utf8_len.
  destruct (cp <? 128) eqn:E1; [lia|].
  destruct (cp <? 2048) eqn:E2; [lia|].
  destruct (cp <? 65536) eqn:E3; [lia|].
  destruct (cp <=? 1114111) eqn:E4; [lia|]. reflexivity.
Qed.

Lemma bit31_lor_big lo cp : N.testbit lo 31 = true -> (65535 <? N.lor lo cp) = true.
Proof.
  intros H.
  assert (T : N.testbit (N.lor lo cp) 31 = true) by (rewrite N.lor_spec, H; reflexivity).
  apply testbit31_ge in T. lia.
Qed.

(* summary: an invalid hex digit always makes the model fail *)
Lemma hex4_bad a b c d :
  hex4_spec a b c d = None ->
  let cp := hex4 (b2n a) (b2n b) (b2n c) (b2n d) in
  (N.land cp 4294966272 =? 55296) = false /\ utf8_len cp = None /\
  forall other, (65535 <? N.lor cp other) = true.
Proof.
  intros H cp. pose proof (hex4_bad_bit _ _ _ _ H) as B. fold cp in B.
  split; [apply bit31_not_surrogate; exact B|].
  split; [apply bit31_utf8_len; exact B|].
  intros other. apply bit31_lor_big. exact B.
Qed.

(* ------------------------------------------------------------------ *)
(* the surrogate test and the pair arithmetic                           *)

Lemma surrogate_test_enum :
  forallb (fun cp => Bool.eqb (N.land cp 4294966272 =? 55296) ((55296 <=? cp) && (cp <=? 56319)))
          (nrange 65536) = true.
Proof. vm_compute. reflexivity. Qed.

Lemma surrogate_test cp :
  cp < 65536 ->
  (N.land cp 4294966272 =? 55296) = ((55296 <=? cp) && (cp <=? 56319)).
Proof.
  intros H. apply eqb_prop.
  pose proof surrogate_test_enum as E. rewrite forallb_forall in E.
  apply E. apply nrange_in. exact H.
Qed.

Lemma land_disjoint l h k : l < 2 ^ k -> N.land l (h * 2 ^ k) = 0.
Proof.
  intros H. apply N.bits_inj_0. intros n. rewrite N.land_spec.
  destruct (N.lt_ge_cases n k) as [L|G].
  - rewrite N.mul_pow2_bits_low by exact L. apply andb_false_r.
  - destruct (N.eq_dec l 0) as [->|Hl]; [rewrite N.bits_0; reflexivity|].
    rewrite (N.bits_above_log2 l n); [reflexivity|].
    apply N.lt_le_trans with k; [|exact G].
    apply N.log2_lt_pow2; lia.
Qed.

Lemma lor_disjoint l h k : l < 2 ^ k -> N.lor l (h * 2 ^ k) = l + h * 2 ^ k.
Proof.
  intros H. pose proof (land_disjoint l h k H) as D.
  rewrite <- N.lxor_lor by exact D. symmetry. apply N.add_nocarry_lxor. exact D.
Qed.

Lemma lor_lt_pow2 a b n : a < 2 ^ n -> b < 2 ^ n -> N.lor a b < 2 ^ n.
Proof.
  intros Ha Hb.
  destruct (N.eq_dec a 0) as [->|Na]; [rewrite N.lor_0_l; exact Hb|].
  destruct (N.eq_dec b 0) as [->|Nb]; [rewrite N.lor_0_r; exact Ha|].
  assert (P : 0 < N.lor a b).
  { destruct (N.eq_dec (N.lor a b) 0) as [E|E]; [|lia].
    apply N.lor_eq_0_l in E. contradiction. }
  apply N.log2_lt_pow2; [exact P|].
  rewrite N.log2_lor. apply N.max_lub_lt; apply N.log2_lt_pow2; lia.
Qed.

Lemma hi_part_enum :
  forallb (fun hi => w32 (w32 (N.shiftl hi 10) + 4238344192) =? (hi - 55296) * 1024)
          (nfrom 55296 1024) = true.
Proof. vm_compute. reflexivity. Qed.

Lemma lo_part_enum :
  forallb (fun lo => w32 (lo + 4294910976) =? lo - 56320) (nfrom 56320 1024) = true.
Proof. vm_compute. reflexivity. Qed.

Lemma hi_part hi :
  55296 <= hi <= 56319 -> w32 (w32 (N.shiftl hi 10) + 4238344192) = (hi - 55296) * 1024.
Proof.
  intros H. apply N.eqb_eq. pose proof hi_part_enum as E.
  rewrite forallb_forall in E. apply E.
  replace hi with (55296 + (hi - 55296)) by lia. apply nfrom_in. lia.
Qed.

Lemma lo_part lo : 56320 <= lo <= 57343 -> w32 (lo + 4294910976) = lo - 56320.
Proof.
  intros H. apply N.eqb_eq. pose proof lo_part_enum as E.
  rewrite forallb_forall in E. apply E.
  replace lo with (56320 + (lo - 56320)) by lia. apply nfrom_in. lia.
Qed.

Theorem surrogate_arith hi lo :
  55296 <= hi <= 56319 -> 56320 <= lo <= 57343 ->
  (65535 <? N.lor lo hi) = false /\
  w32 (N.lor (w32 (lo + 4294910976)) (w32 (w32 (N.shiftl hi 10) + 4238344192)) + 65536)
  = 65536 + (hi - 55296) * 1024 + (lo - 56320).
Proof.
  intros Hh Hl. split.
  - assert (L : N.lor lo hi < 2 ^ 16).
    { apply lor_lt_pow2; change (2 ^ 16) with 65536; lia. }
    change (2 ^ 16) with 65536 in L. lia.
  - rewrite hi_part by exact Hh. rewrite lo_part by exact Hl.
    change 1024 with (2 ^ 10). rewrite lor_disjoint by (change (2 ^ 10) with 1024; lia).
    change (2 ^ 10) with 1024. unfold w32, two32.
    rewrite N.mod_small by lia. lia.
Qed.

(* ------------------------------------------------------------------ *)
(* UTF-8 encoder                                                        *)

Lemma lor128_enum : forallb (fun x => N.lor x 128 =? 128 + x) (nrange 64) = true.
Proof. vm_compute. reflexivity. Qed.

Lemma lor128 x : x < 64 -> N.lor x 128 = 128 + x.
Proof.
  intros H. apply N.eqb_eq. pose proof lor128_enum as E.
  rewrite forallb_forall in E. apply E. apply nrange_in. exact H.
Qed.

Lemma land63 x : N.land x 63 = x mod 64.
Proof. change 63 with (N.ones 6). rewrite N.land_ones. reflexivity. Qed.

Lemma cont_byte x : N.lor (N.land x 63) 128 = 128 + x mod 64.
Proof.
  rewrite land63. apply lor128. apply N.mod_lt. discriminate.
Qed.

Lemma utf8_enc_eq cp : utf8_enc cp = utf8_spec cp.
Proof.
  unfold utf8_enc, utf8_spec.
  rewrite !cont_byte, !N.shiftr_div_pow2.
  change (2 ^ 6) with 64. change (2 ^ 12) with 4096. change (2 ^ 18) with 262144.
  rewrite (N.add_comm (cp / 64) 192), (N.add_comm (cp / 4096) 224), (N.add_comm (cp / 262144) 240).
  reflexivity.
Qed.

Lemma utf8_len_spec cp : cp <= 1114111 -> utf8_len cp = Some (length (utf8_spec cp)).
Proof.
  intros H. unfold utf8_len, utf8_spec.
  destruct (cp <? 128); [reflexivity|].
  destruct (cp <? 2048); [reflexivity|].
  destruct (cp <? 65536); [reflexivity|].
  destruct (cp <=? 1114111) eqn:E; [reflexivity|lia].
Qed.

Theorem utf8_enc_spec cp :
  cp <= 1114111 -> utf8_enc cp = utf8_spec cp /\ utf8_len cp = Some (length (utf8_spec cp)).
Proof. intros H. split; [apply utf8_enc_eq|apply utf8_len_spec; exact H]. Qed.

Lemma utf8_spec_len_bmp cp : cp < 65536 -> (1 <= length (utf8_spec cp) <= 3)%nat.
Proof.
  intros H. unfold utf8_spec.
  destruct (cp <? 128); [cbn; lia|].
  destruct (cp <? 2048); [cbn; lia|].
  destruct (cp <? 65536) eqn:E; [cbn; lia|lia].
Qed.

Lemma utf8_spec_len_le4 cp : (1 <= length (utf8_spec cp) <= 4)%nat.
Proof.
  unfold utf8_spec.
  destruct (cp <? 128); [cbn; lia|].
  destruct (cp <? 2048); [cbn; lia|].
  destruct (cp <? 65536); cbn; lia.
Qed.

(* ------------------------------------------------------------------ *)
(* escape map                                                           *)

Theorem escape_map_spec c :
  escape_map_ref c = match escape_spec c with Some v => v | None => 0 end.
Proof.
  unfold escape_map_ref, escape_spec.
  destruct (c =? 34) eqn:E1; [reflexivity|].
  destruct (c =? 47) eqn:E2.
  { destruct (c =? 92) eqn:E3; [lia|reflexivity]. }
  destruct (c =? 92) eqn:E3; [reflexivity|].
  destruct (c =? 98); [reflexivity|].
  destruct (c =? 102); [reflexivity|].
  destruct (c =? 110); [reflexivity|].
  destruct (c =? 114); [reflexivity|].
  destruct (c =? 116); reflexivity.
Qed.

Theorem escape_spec_nonzero c v : escape_spec c = Some v -> v <> 0.
Proof.
  unfold escape_spec.
  repeat match goal with |- context [if ?b then _ else _] => destruct b end;
    intros H; inversion H; discriminate.
Qed.

Lemma escape_spec_u : escape_spec c_u = None.
Proof. reflexivity. Qed.

Print Assumptions hex4_ok.
Print Assumptions hex4_bad.
Print Assumptions surrogate_arith.
Print Assumptions utf8_enc_spec.
Print Assumptions escape_map_spec.
