(* Proofs/HeapDenote.v -- property C16, second part, for the real abstraction
   function [denote] of Model/Tape.v (HeapProofs.v does it for a small reader):
   if a tape denotes something when the message buffer is *empty*, it denotes
   the same thing whatever the message buffer contains.  "Denotes with an
   empty message" is the exact, executable, form of "no string word that is
   read points into the message" (copy mode). *)
From Coq Require Import ZifyBool ZifyN ZifyNat.
From SJ Require Import Model.Base Model.RefTables Spec.Json Model.Tape Model.Heap Proofs.HeapProofs.
Open Scope N_scope.

(* one-step unfoldings (the three functions are mutually recursive, so cbn
   does not refold them) *)
Lemma den_value_S msg strs f i rest :
  den_value msg strs (S f) i rest =
    match rest with
    | [] => None
    | w :: r =>
      let t := word_tag w in
      let v := word_val w in
      if t =? TagString then
        match r with
        | len :: r' => match string_at msg strs v len with
                       | Some s => Some (DStr s, i + 2, r')
                       | None => None
                       end
        | [] => None
        end
      else if t =? TagInteger then
        match r with x :: r' => Some (DNum (NInt (s64 x)), i + 2, r') | [] => None end
      else if t =? TagUint then
        match r with x :: r' => Some (DNum (NUint x), i + 2, r') | [] => None end
      else if t =? TagFloat then
        match r with x :: r' => Some (DNum (NFloat x v), i + 2, r') | [] => None end
      else if t =? TagNull then Some (DNull, i + 1, r)
      else if t =? TagBoolTrue then Some (DBool true, i + 1, r)
      else if t =? TagBoolFalse then Some (DBool false, i + 1, r)
      else if t =? TagArrayStart then
        match den_elems msg strs f (i + 1) r [] with
        | Some (l, j, r') => if j =? v then Some (DArr l, j, r') else None
        | None => None
        end
      else if t =? TagObjectStart then
        match den_members msg strs f (i + 1) r [] with
        | Some (l, j, r') => if j =? v then Some (DObj l, j, r') else None
        | None => None
        end
      else None
    end.
Proof. reflexivity. Qed.

Lemma den_elems_S' msg strs f i rest acc :
  den_elems msg strs (S f) i rest acc =
    match skip_nops f i rest with
    | None => None
    | Some (i', rest') =>
      match rest' with
      | [] => None
      | w :: r =>
        if word_tag w =? TagArrayEnd then Some (rev acc, i' + 1, r)
        else match den_value msg strs f i' rest' with
             | Some (d, j, r') => den_elems msg strs f j r' (d :: acc)
             | None => None
             end
      end
    end.
Proof. reflexivity. Qed.

Lemma den_members_S' msg strs f i rest acc :
  den_members msg strs (S f) i rest acc =
    match skip_nops f i rest with
    | None => None
    | Some (i', rest') =>
      match rest' with
      | [] => None
      | w :: r =>
        if word_tag w =? TagObjectEnd then Some (rev acc, i' + 1, r)
        else if word_tag w =? TagString then
          match r with
          | len :: r1 =>
            match string_at msg strs (word_val w) len with
            | Some k =>
              match skip_nops f (i' + 2) r1 with
              | Some (i2, r2) =>
                match den_value msg strs f i2 r2 with
                | Some (d, j, r') => den_members msg strs f j r' ((k, d) :: acc)
                | None => None
                end
              | None => None
              end
            | None => None
            end
          | [] => None
          end
        else None
      end
    end.
Proof. reflexivity. Qed.

Lemma den_roots_S' msg strs f i rest acc :
  den_roots msg strs (S f) i rest acc =
    match skip_nops f i rest with
    | None => None
    | Some (i', rest') =>
      match rest' with
      | [] => Some (rev acc)
      | w :: r =>
        if word_tag w =? TagRoot then
          match skip_nops f (i' + 1) r with
          | Some (i1, r1) =>
            match den_value msg strs f i1 r1 with
            | Some (d, j, r2) =>
              match skip_nops f j r2 with
              | Some (j', c :: r3) =>
                if (word_tag c =? TagRoot) && (word_val c =? i') && (word_val w =? j' + 1)
                then den_roots msg strs f (j' + 1) r3 (d :: acc) else None
              | _ => None
              end
            | None => None
            end
          | None => None
          end
        else None
      end
    end.
Proof. reflexivity. Qed.

(* ------------------------------------------------------------------ *)
(* monotonicity in the string lookup                                   *)
(* ------------------------------------------------------------------ *)

Section Mono.
  Variables m1 m2 strs : bytes.
  (* every string found with message m1 is found, equal, with message m2 *)
  Hypothesis sa_le : forall v len s,
    string_at m1 strs v len = Some s -> string_at m2 strs v len = Some s.

  Lemma den_mono (f : nat) :
    (forall i rest x, den_value m1 strs f i rest = Some x -> den_value m2 strs f i rest = Some x) /\
    (forall i rest acc x, den_elems m1 strs f i rest acc = Some x ->
                          den_elems m2 strs f i rest acc = Some x) /\
    (forall i rest acc x, den_members m1 strs f i rest acc = Some x ->
                          den_members m2 strs f i rest acc = Some x).
  Proof.
    induction f as [|f (IHv & IHe & IHm)].
    - repeat split; intros; discriminate.
    - split; [|split].
      + intros i rest x H. rewrite den_value_S in H |- *.
        destruct rest as [|w r]; [discriminate H|]. cbv zeta in H |- *.
        destruct (word_tag w =? TagString).
        { destruct r as [|len r']; [discriminate H|].
          destruct (string_at m1 strs (word_val w) len) as [s|] eqn:E; [|discriminate H].
          rewrite (sa_le _ _ _ E). exact H. }
        destruct (word_tag w =? TagInteger); [exact H|].
        destruct (word_tag w =? TagUint); [exact H|].
        destruct (word_tag w =? TagFloat); [exact H|].
        destruct (word_tag w =? TagNull); [exact H|].
        destruct (word_tag w =? TagBoolTrue); [exact H|].
        destruct (word_tag w =? TagBoolFalse); [exact H|].
        destruct (word_tag w =? TagArrayStart).
        { destruct (den_elems m1 strs f (i + 1) r []) as [[[l j] r']|] eqn:E; [|discriminate H].
          rewrite (IHe _ _ _ _ E). exact H. }
        destruct (word_tag w =? TagObjectStart); [|discriminate H].
        destruct (den_members m1 strs f (i + 1) r []) as [[[l j] r']|] eqn:E; [|discriminate H].
        rewrite (IHm _ _ _ _ E). exact H.
      + intros i rest acc x H. rewrite den_elems_S' in H |- *.
        destruct (skip_nops f i rest) as [[i' rest']|]; [|discriminate H].
        destruct rest' as [|w r]; [discriminate H|].
        destruct (word_tag w =? TagArrayEnd); [exact H|].
        destruct (den_value m1 strs f i' (w :: r)) as [[[d j] r']|] eqn:E; [|discriminate H].
        rewrite (IHv _ _ _ E). exact (IHe _ _ _ _ H).
      + intros i rest acc x H. rewrite den_members_S' in H |- *.
        destruct (skip_nops f i rest) as [[i' rest']|]; [|discriminate H].
        destruct rest' as [|w r]; [discriminate H|].
        destruct (word_tag w =? TagObjectEnd); [exact H|].
        destruct (word_tag w =? TagString); [|discriminate H].
        destruct r as [|len r1]; [discriminate H|].
        destruct (string_at m1 strs (word_val w) len) as [k|] eqn:E; [|discriminate H].
        rewrite (sa_le _ _ _ E).
        destruct (skip_nops f (i' + 2) r1) as [[i2 r2]|]; [|discriminate H].
        destruct (den_value m1 strs f i2 r2) as [[[d j] r']|] eqn:E2; [|discriminate H].
        rewrite (IHv _ _ _ E2). exact (IHm _ _ _ _ H).
  Qed.

  Lemma den_roots_mono (f : nat) :
    forall i rest acc x, den_roots m1 strs f i rest acc = Some x ->
                         den_roots m2 strs f i rest acc = Some x.
  Proof.
    induction f as [|f IH]; intros i rest acc x H; [discriminate H|].
    rewrite den_roots_S' in H |- *.
    destruct (skip_nops f i rest) as [[i' rest']|]; [|discriminate H].
    destruct rest' as [|w r]; [exact H|].
    destruct (word_tag w =? TagRoot); [|discriminate H].
    destruct (skip_nops f (i' + 1) r) as [[i1 r1]|]; [|discriminate H].
    destruct (den_value m1 strs f i1 r1) as [[[d j] r2]|] eqn:E; [|discriminate H].
    rewrite (proj1 (den_mono f) _ _ _ E).
    destruct (skip_nops f j r2) as [[j' [|c r3]]|]; try discriminate H.
    destruct ((word_tag c =? TagRoot) && (word_val c =? i') && (word_val w =? j' + 1));
      [|discriminate H].
    exact (IH _ _ _ _ H).
  Qed.

  Lemma denote_mono (tape : list N) (ds : list doc) :
    denote m1 strs tape = Some ds -> denote m2 strs tape = Some ds.
  Proof. unfold denote. apply den_roots_mono. Qed.
End Mono.

(* with an empty message only the empty string at offset 0 can be found in the
   message, and every message contains it *)
Lemma string_at_nil_le (msg strs : bytes) (v len : N) (s : bytes) :
  string_at [] strs v len = Some s -> string_at msg strs v len = Some s.
Proof.
  unfold string_at. destruct (N.land v STRINGBUFBIT =? 0); [|exact (fun H => H)].
  unfold slice. cbn [length N.of_nat].
  destruct (v + len <=? 0) eqn:E; [|discriminate].
  assert (Hv : v = 0) by lia. assert (Hl : len = 0) by lia. subst v len.
  intros H. cbn in H.
  replace (0 + 0 <=? N.of_nat (length msg)) with true by lia. cbn. exact H.
Qed.

(* ===== denote_copy_mode ===== *)
Theorem denote_copy_mode (strs : bytes) (tape : list N) (ds : list doc) :
  denote [] strs tape = Some ds -> forall msg, denote msg strs tape = Some ds.
Proof.
  intros H msg. apply (denote_mono [] msg strs); [|exact H].
  intros v len s. apply string_at_nil_le.
Qed.

Corollary denote_copy_mode_any (strs : bytes) (tape : list N) (ds : list doc) (msg msg' : bytes) :
  denote [] strs tape = Some ds -> denote msg strs tape = denote msg' strs tape.
Proof.
  intros H. rewrite (denote_copy_mode strs tape ds H msg), (denote_copy_mode strs tape ds H msg').
  reflexivity.
Qed.

(* ------------------------------------------------------------------ *)
(* on the store                                                        *)
(* ------------------------------------------------------------------ *)

Definition to_bytes (l : list N) : bytes := map n2b l.

Definition pj_denote (p : pj) (st : store) : option (list doc) :=
  denote (to_bytes (bufs st (msg_id p))) (to_bytes (bufs st (str_id p))) (bufs st (tape_id p)).

(* the object denotes something even with its message emptied *)
Definition den_copy_mode (p : pj) (st : store) : Prop :=
  denote [] (to_bytes (bufs st (str_id p))) (bufs st (tape_id p)) <> None.

Theorem pj_denote_copy_mode (p : pj) :
  NoDup (ids p) -> reads_not_on (den_copy_mode p) (pj_denote p) (msg_id p).
Proof.
  intros Hp st st' Hc Hs. apply nodup3 in Hp. destruct Hp as (H1 & H2 & _).
  unfold pj_denote, den_copy_mode in *.
  rewrite <- (Hs (tape_id p)) by congruence. rewrite <- (Hs (str_id p)) by congruence.
  destruct (denote [] (to_bytes (bufs st (str_id p))) (bufs st (tape_id p))) as [ds|] eqn:E;
    [|congruence].
  apply (denote_copy_mode_any _ _ ds). exact E.
Qed.

Corollary pj_denote_overwrite (p : pj) (st : store) (v : list N) :
  NoDup (ids p) -> den_copy_mode p st ->
  pj_denote p (write_buf st (msg_id p) v) = pj_denote p st.
Proof.
  intros Hp Hc. exact (reads_not_write (den_copy_mode p) (pj_denote p) (msg_id p)
                         (pj_denote_copy_mode p Hp) st v Hc).
Qed.

(* non-vacuity: the two example tapes of HeapProofs *)
Example ex_den_copy :
  pj_denote ex_p ex_st = Some [DArr [DStr (of_codes [97; 98])]] /\
  denote [] (to_bytes [97; 98]) ex_tape_copy = Some [DArr [DStr (of_codes [97; 98])]] /\
  pj_denote ex_p (write_buf ex_st (msg_id ex_p) [0; 0; 0; 0; 0; 0]) = pj_denote ex_p ex_st.
Proof. vm_compute. repeat split. Qed.

Example ex_den_nocopy :
  pj_denote ex_q ex_qst = Some [DArr [DStr (of_codes [97; 98])]] /\
  denote [] [] ex_tape_nocopy = None /\
  pj_denote ex_q (write_buf ex_qst (msg_id ex_q) [0; 0; 0; 0; 0; 0])
    = Some [DArr [DStr (of_codes [0; 0])]].
Proof. vm_compute. repeat split. Qed.

Print Assumptions denote_copy_mode.
Print Assumptions pj_denote_copy_mode.
Print Assumptions pj_denote_overwrite.
