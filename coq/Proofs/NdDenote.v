(* NdDenote.v — denotation of a tape that holds a sequence of roots, each
   root word pointing just past its closing root word and each closing root
   word pointing back at its opening one. *)
From Coq Require Import ZifyBool ZifyN ZifyNat.
From SJ Require Import Model.Base Model.RefTables Spec.Json Model.Stage1.
From SJ Require Import Model.Stage2 Model.Tape Proofs.Stage2Base Proofs.Stage2Proofs Proofs.AcceptProofs.
Open Scope N_scope.

Section RootsDen.
Variable msg : bytes.

Definition root_words (i : N) (ws : list N) : list N :=
  mk_word TagRoot (i + N.of_nat (length ws) + 2) :: ws ++ [mk_word TagRoot i].

Fixpoint roots_tape (i : N) (l : list (list N * doc)) : list N :=
  match l with
  | [] => []
  | x :: r => root_words i (fst x) ++ roots_tape (i + N.of_nat (length (fst x)) + 2) r
  end.

Fixpoint roots_gv (SB : bytes) (i : N) (l : list (list N * doc)) : Prop :=
  match l with
  | [] => True
  | x :: r => gv msg SB (i + 1) (fst x) (snd x) /\ i + N.of_nat (length (fst x)) + 2 < two56 /\
              roots_gv SB (i + N.of_nat (length (fst x)) + 2) r
  end.

Lemma root_words_length i ws : length (root_words i ws) = (length ws + 2)%nat.
Proof. unfold root_words. cbn [length]. rewrite app_length. cbn [length]. lia. Qed.

Lemma roots_gv_mono SB X : forall l i, roots_gv SB i l -> roots_gv (SB ++ X) i l.
Proof.
  induction l as [|x r IH]; intros i H; [exact I|].
  destruct H as (A & B & C). split; [apply gv_mono; exact A|]. split; [exact B|]. apply IH. exact C.
Qed.

Lemma roots_tape_app : forall l i ws d,
  roots_tape i (l ++ [(ws, d)]) = roots_tape i l ++ root_words (i + N.of_nat (length (roots_tape i l))) ws.
Proof.
  induction l as [|x r IH]; intros i ws d.
  - cbn [app roots_tape fst length]. rewrite app_nil_r, N.add_0_r. reflexivity.
  - cbn [app roots_tape]. rewrite IH, <- app_assoc. f_equal. f_equal.
    rewrite app_length, root_words_length. f_equal. lia.
Qed.

Lemma roots_gv_app SB : forall l i ws d,
  roots_gv SB i l ->
  gv msg SB (i + N.of_nat (length (roots_tape i l)) + 1) ws d ->
  i + N.of_nat (length (roots_tape i l)) + N.of_nat (length ws) + 2 < two56 ->
  roots_gv SB i (l ++ [(ws, d)]).
Proof.
  induction l as [|x r IH]; intros i ws d H Hg Hb.
  - cbn [app roots_gv fst snd roots_tape length] in *. rewrite N.add_0_r in *.
    split; [exact Hg|]. split; [exact Hb|exact I].
  - destruct H as (A & B & C). cbn [app roots_gv]. split; [exact A|]. split; [exact B|].
    cbn [roots_tape] in Hg, Hb. rewrite app_length, root_words_length in Hg, Hb.
    apply IH; [exact C| |].
    + replace (i + N.of_nat (length (fst x)) + 2 + N.of_nat (length (roots_tape (i + N.of_nat (length (fst x)) + 2) r)) + 1)
        with (i + N.of_nat (length (fst x) + 2 + length (roots_tape (i + N.of_nat (length (fst x)) + 2) r)) + 1) by lia.
      exact Hg.
    + lia.
Qed.

Lemma den_roots_list : forall l i acc fuel SB,
  roots_gv SB i l -> (length (roots_tape i l) < fuel)%nat -> (l = [] -> (2 <= fuel)%nat) ->
  den_roots msg SB fuel i (roots_tape i l) acc = Some (rev acc ++ map snd l).
Proof.
  induction l as [|x r IH]; intros i acc fuel SB Hg Hf Hf0.
  - specialize (Hf0 eq_refl). destruct fuel as [|[|f]]; try lia.
    cbn [roots_tape map]. rewrite den_roots_S, skip_nops_nil, app_nil_r. reflexivity.
  - destruct x as [ws d]. cbn [fst snd roots_gv roots_tape map] in *.
    destruct Hg as ([(w0 & ws' & Ews & Hvt) Hgv] & Hb & Hr).
    rewrite app_length, root_words_length in Hf.
    destruct fuel as [|[|f]]; try lia.
    assert (Hi : i < two56) by lia.
    rewrite den_roots_S. unfold root_words.
    cbn [app].
    rewrite skip_nops_stop by (rewrite word_tag_mk by exact Hb; reflexivity).
    rewrite word_tag_mk by exact Hb. change (TagRoot =? TagRoot) with true. cbv iota.
    rewrite <- app_assoc.
    set (rest := [mk_word TagRoot i] ++ roots_tape (i + N.of_nat (length ws) + 2) r).
    replace (ws ++ rest) with (w0 :: ws' ++ rest) by (rewrite Ews; reflexivity).
    rewrite skip_nops_stop by (apply Hvt).
    replace (w0 :: ws' ++ rest) with (ws ++ rest) by (rewrite Ews; reflexivity).
    unfold rest.
    specialize (Hgv [] ([mk_word TagRoot i] ++ roots_tape (i + N.of_nat (length ws) + 2) r) (S f)).
    rewrite app_nil_r in Hgv. rewrite Hgv by lia.
    cbn [app].
    rewrite skip_nops_stop by (rewrite word_tag_mk by exact Hi; reflexivity).
    rewrite word_tag_mk by exact Hi. rewrite !word_val_mk by assumption.
    change (TagRoot =? TagRoot) with true. rewrite N.eqb_refl.
    replace (i + N.of_nat (length ws) + 2 =? i + 1 + N.of_nat (length ws) + 1) with true by lia.
    cbn [andb].
    replace (i + 1 + N.of_nat (length ws) + 1) with (i + N.of_nat (length ws) + 2) by lia.
    rewrite IH; [|exact Hr|lia|intros _; lia].
    cbn [rev]. rewrite <- app_assoc. reflexivity.
Qed.

Theorem denote_roots SB l :
  l <> [] -> roots_gv SB 0 l -> denote msg SB (roots_tape 0 l) = Some (map snd l).
Proof.
  intros Hne Hg. unfold denote.
  rewrite den_roots_list; [reflexivity|exact Hg|lia|congruence].
Qed.

End RootsDen.
