(* Stage2Total.v — stage 2 (Parse, no NDJSON) never crashes and never runs out
   of fuel, whatever the bytes of the message are, provided the index buffers
   are non-empty, encode strictly increasing in-range positions, and every
   indexed quote opens a closed string. *)
From Coq Require Import ZifyBool ZifyN ZifyNat.
From SJ Require Import Model.Base Model.RefTables Spec.Json Model.Number Model.Str Model.Stage1.
From SJ Require Import Proofs.StrArith Proofs.StrProofs.
From SJ Require Import Model.Stage2 Model.Tape Proofs.Stage2Base.
Open Scope N_scope.

Ltac Zify.zify_post_hook ::= Z.div_mod_to_equations.

(* strictly increasing positions, all >= lo *)
Fixpoint incr (lo : nat) (qs : list nat) : Prop :=
  match qs with [] => True | q :: r => (lo <= q)%nat /\ incr (S q) r end.

(* ------------------------------------------------------------------ *)
(* generic list facts                                                  *)

Lemma skipn_nth_cons {A} (d : A) : forall (l : list A) p, (p < length l)%nat ->
  skipn p l = nth p l d :: skipn (S p) l.
Proof.
  induction l as [|x l IH]; intros p H; cbn [length] in H; [lia|].
  destruct p as [|p]; [reflexivity|].
  cbn [skipn nth]. rewrite IH by lia. reflexivity.
Qed.

Lemma skipn_skipn' {A} : forall (y x : nat) (l : list A), skipn x (skipn y l) = skipn (x + y) l.
Proof.
  induction y as [|y IH]; intros x l.
  - rewrite Nat.add_0_r. reflexivity.
  - rewrite Nat.add_succ_r. destruct l as [|a l]; [rewrite !skipn_nil; reflexivity|].
    cbn [skipn]. apply IH.
Qed.

Lemma fold_left_len' : forall (bufs : list (list nat)) a,
  fold_left (fun a b => (a + length b)%nat) bufs a = (a + length (concat bufs))%nat.
Proof.
  induction bufs as [|b r IH]; intros a; cbn [fold_left concat length]; [lia|].
  rewrite IH, app_length. lia.
Qed.

Lemma Forall_lt_weaken (t t' : N) (st : list N) :
  Forall (fun off => off / 4 < t) st -> t <= t' -> Forall (fun off => off / 4 < t') st.
Proof.
  intros H Hle. eapply Forall_impl; [|exact H]. cbv beta. intros a Ha. lia.
Qed.

(* ------------------------------------------------------------------ *)
(* scope stack discipline                                              *)

Definition isc (off : N) : bool := (off mod 4 =? retArray) || (off mod 4 =? retObject).

(* popping [off] and jumping to a container label leaves >= 2 entries *)
Fixpoint depth_ok (st : list N) : Prop :=
  match st with
  | [] => True
  | off :: st' => (isc off = true -> (2 <= length st')%nat) /\ depth_ok st'
  end.

Definition contl (l : label) : bool :=
  match l with L_start | L_startContinue | L_ndSkip => false | _ => true end.

Definition need (l : label) : nat := if contl l then 2%nat else 1%nat.

Section Total.
(* abstract "the string starting after this opening quote is closed" *)
Variable closed : bytes -> Prop.
Hypothesis Hstr : forall q mem idx max cp slen fuel, closed mem -> (length mem < fuel)%nat ->
  parse_string_model (q :: mem) idx max cp slen fuel <> OutOfFuel /\
  parse_string_model (q :: mem) idx max cp slen fuel <> Crash.
Variable copy : bool.
Variable msg : bytes.

Record SInv (m : m2) : Prop := {
  si_whole : whole m = msg;
  si_fuel : sfuel m = S (S (length msg));
  si_ne : noempty (rbufs m);
  si_pos : exists qs, pending m = incs (N.to_nat (idx1 m)) qs /\
             incr (N.to_nat (idx1 m)) qs /\
             Forall (fun q => (q < length msg)%nat) qs /\
             Forall (fun q => nth_b msg q = 34 -> closed (skipn (S q) msg)) qs;
  si_cur : idx1 m <> 0 -> cur m = skipn (N.to_nat (idx1 m) - 1) msg;
  si_stk : Forall (fun off => off / 4 < tlen m) (stack m);
  si_depth : depth_ok (stack m)
}.

Definition Inv (l : label) (m : m2) : Prop := SInv m /\ (need l <= length (stack m))%nat.

(* the string kernel can be called safely at the current position *)
Definition strready (m : m2) : Prop :=
  exists b mem, cur m = b :: mem /\ closed mem /\ (length mem < sfuel m)%nat.

(* a state that differs only in tape / strings / stack *)
Lemma SInv_mk m m' : SInv m ->
  whole m' = whole m -> sfuel m' = sfuel m -> cbuf m' = cbuf m -> rbufs m' = rbufs m ->
  idx1 m' = idx1 m -> cur m' = cur m ->
  Forall (fun off => off / 4 < tlen m') (stack m') -> depth_ok (stack m') -> SInv m'.
Proof.
  intros [Hw Hf Hne Hp Hc Hs Hd] E1 E2 E3 E4 E5 E6 Hs' Hd'.
  constructor.
  - rewrite E1. exact Hw.
  - rewrite E2. exact Hf.
  - rewrite E4. exact Hne.
  - unfold pending in *. rewrite E3, E4, E5. exact Hp.
  - rewrite E5, E6. exact Hc.
  - exact Hs'.
  - exact Hd'.
Qed.

Lemma SInv_write_tape m v t : SInv m -> SInv (write_tape m v t).
Proof.
  intros H. apply (SInv_mk m _ H); try reflexivity; msimpl.
  - eapply Forall_lt_weaken; [exact (si_stk _ H)|lia].
  - exact (si_depth _ H).
Qed.

Lemma SInv_write_raw2 m w1 w2 : SInv m -> SInv (write_raw2 m w1 w2).
Proof.
  intros H. apply (SInv_mk m _ H); try reflexivity; msimpl.
  - eapply Forall_lt_weaken; [exact (si_stk _ H)|lia].
  - exact (si_depth _ H).
Qed.

Lemma SInv_str_state m r : SInv m -> SInv (str_state m r).
Proof.
  intros H. apply (SInv_mk m _ H); try reflexivity; msimpl.
  - eapply Forall_lt_weaken; [exact (si_stk _ H)|lia].
  - exact (si_depth _ H).
Qed.

Lemma SInv_push m ret v t : SInv m ->
  ret = retStart \/ ((ret = retArray \/ ret = retObject) /\ (2 <= length (stack m))%nat) ->
  SInv (write_tape (push_scope m ret) v t).
Proof.
  intros H Hr. apply (SInv_mk m _ H); try reflexivity; msimpl.
  - constructor.
    + unfold retStart, retArray, retObject in Hr. lia.
    + eapply Forall_lt_weaken; [exact (si_stk _ H)|lia].
  - cbn [depth_ok]. split; [|exact (si_depth _ H)].
    unfold isc. unfold retStart, retArray, retObject in *. intros Hi.
    destruct Hr as [Hr|[_ Hr]]; [|exact Hr]. lia.
Qed.

(* ------------------------------------------------------------------ *)
(* updateChar                                                          *)

Lemma uc m : SInv m ->
  (pending m = [] /\ update_char m = UDone m) \/
  (exists m' c, update_char m = UChar m' c /\ SInv m' /\ stack m' = stack m /\
     length (pending m) = S (length (pending m')) /\ (c = cQUOTE -> strready m')).
Proof.
  intros HS. destruct HS as [Hw Hf Hne (qs & Hp & Hi & Hlt & Hcl) Hc Hs Hd].
  destruct qs as [|p r].
  - left. rewrite incs_nil in Hp. split; [exact Hp|]. apply update_char_done; assumption.
  - right. rewrite incs_cons in Hp. cbn [incr] in Hi. destruct Hi as [Hip Hir].
    pose proof (Forall_inv Hlt) as Hpl. pose proof (Forall_inv_tail Hlt) as Hlt'.
    pose proof (Forall_inv Hcl) as Hpc. pose proof (Forall_inv_tail Hcl) as Hcl'.
    cbv beta in Hpl, Hpc.
    destruct (update_char_pending m _ _ Hne Hp) as (cb & rb & Hcat & Hne' & Hu).
    assert (Ed : ((S p - N.to_nat (idx1 m) =? 0)%nat && (idx1 m =? 0)) = false) by lia.
    assert (Ecur : (if idx1 m =? 0 then skipn (S p - N.to_nat (idx1 m) - 1) (whole m)
                    else skipn (S p - N.to_nat (idx1 m)) (cur m))
                   = nth p msg x00 :: skipn (S p) msg).
    { rewrite <- (skipn_nth_cons x00) by exact Hpl. destruct (idx1 m =? 0) eqn:E0.
      - rewrite Hw. f_equal. lia.
      - rewrite Hc by lia. rewrite skipn_skipn'. f_equal. lia. }
    cbv zeta in Hu. rewrite Ed, Ecur in Hu. cbv beta iota in Hu.
    assert (Ei : N.to_nat (idx1 m + N.of_nat (S p - N.to_nat (idx1 m))) = S p) by lia.
    eexists. eexists. split; [exact Hu|].
    split; [|split; [reflexivity|split]].
    + constructor; msimpl.
      * exact Hw.
      * exact Hf.
      * exact Hne'.
      * exists r. unfold pending. msimpl. rewrite Ei. repeat split; assumption.
      * intros _. rewrite Ei. replace (S p - 1)%nat with p by lia.
        symmetry. apply skipn_nth_cons. exact Hpl.
      * exact Hs.
      * exact Hd.
    + rewrite Hp. unfold pending. msimpl. rewrite Hcat. reflexivity.
    + intros Hq. exists (nth p msg x00), (skipn (S p) msg). msimpl.
      split; [reflexivity|]. split; [apply Hpc; exact Hq|].
      rewrite Hf, skipn_length. lia.
Qed.

(* ------------------------------------------------------------------ *)
(* the continuation of a step after updateChar                         *)

Definition good (n : nat) (r : step_res) : Prop :=
  match r with
  | Next l' m' => Inv l' m' /\ length (pending m') = n
  | Succeed _ => False
  | Fail => True
  | SCrash => False
  | SFuelOut => False
  end.

Lemma do_string_good m l' : SInv m -> strready m -> (need l' <= length (stack m))%nat ->
  good (length (pending m)) (do_string copy m (fun m'' => Next l' m'')).
Proof.
  intros HS (b & mem & Ec & Hcl & Hl) Hn.
  destruct (Hstr b mem (idx1 m - 1) (peek_size m) copy (slen m) (sfuel m) Hcl Hl) as [Hnf Hnc].
  unfold do_string. rewrite Ec.
  destruct (parse_string_model (b :: mem) (idx1 m - 1) (peek_size m) copy (slen m) (sfuel m)) as [r| | |] eqn:E.
  - change (good (length (pending m)) (Next l' (str_state m r))). cbn [good].
    split; [split|reflexivity].
    + apply SInv_str_state. exact HS.
    + exact Hn.
  - exact I.
  - congruence.
  - congruence.
Qed.

Lemma scope_end_good m c : SInv m -> (2 <= length (stack m))%nat ->
  good (length (pending m)) (scope_end m c).
Proof.
  intros HS H2. pose proof (si_stk _ HS) as Hs. pose proof (si_depth _ HS) as Hd.
  unfold scope_end. destruct (stack m) as [|off st] eqn:Es; [cbn [length] in H2; lia|].
  pose proof (Forall_inv Hs) as Hoff. pose proof (Forall_inv_tail Hs) as Hst. cbv beta in Hoff.
  cbn [depth_ok] in Hd. destruct Hd as [Hdo Hd].
  cbv zeta. rewrite annotate_ok by (msimpl; lia).
  match goal with |- context [set_tape ?a ?b] => set (m3 := set_tape a b) end.
  assert (HS3 : SInv m3).
  { apply (SInv_mk m _ HS); try reflexivity; unfold m3; msimpl.
    - eapply Forall_lt_weaken; [exact Hst|lia].
    - exact Hd. }
  assert (E3 : stack m3 = st) by reflexivity.
  assert (P3 : length (pending m3) = length (pending m)) by reflexivity.
  clearbody m3.
  destruct (off mod 4 =? retArray) eqn:Ea; [|destruct (off mod 4 =? retObject) eqn:Eo];
    cbn [good]; (split; [split; [exact HS3|]|exact P3]); rewrite E3; cbn [need contl].
  - apply Hdo. unfold isc. rewrite Ea. reflexivity.
  - apply Hdo. unfold isc. rewrite Eo. apply orb_true_r.
  - cbn [length] in H2. lia.
Qed.

Lemma continue_root_good m c : SInv m -> (1 <= length (stack m))%nat ->
  good (length (pending m)) (continue_root m c).
Proof.
  intros HS H1. unfold continue_root.
  destruct (c =? cLBRACE) eqn:E1; [|destruct (c =? cLBRACK) eqn:E2]; cbn [good]; try exact I.
  - split; [split|reflexivity].
    + apply SInv_push; [exact HS|left; reflexivity].
    + msimpl. cbn [need contl length]. lia.
  - split; [split|reflexivity].
    + apply SInv_push; [exact HS|left; reflexivity].
    + msimpl. cbn [need contl length]. lia.
Qed.

Lemma value_switch_good m c ret cont :
  SInv m -> (2 <= length (stack m))%nat -> (c = cQUOTE -> strready m) ->
  ret = retArray \/ ret = retObject ->
  good (length (pending m)) (value_switch copy m c ret cont).
Proof.
  intros HS H2 Hq Hr. unfold value_switch.
  assert (Hn : (need cont <= length (stack m))%nat).
  { unfold need. destruct (contl cont); lia. }
  destruct (c =? cQUOTE) eqn:E1.
  { apply do_string_good; [exact HS|apply Hq; lia|exact Hn]. }
  destruct (c =? c_t) eqn:E2.
  { destruct (is_true_atom (cur m)); cbn [good]; [|exact I].
    split; [split|reflexivity]; [apply SInv_write_tape; exact HS|exact Hn]. }
  destruct (c =? c_f) eqn:E3.
  { destruct (is_false_atom (cur m)); cbn [good]; [|exact I].
    split; [split|reflexivity]; [apply SInv_write_tape; exact HS|exact Hn]. }
  destruct (c =? c_n) eqn:E4.
  { destruct (is_null_atom (cur m)); cbn [good]; [|exact I].
    split; [split|reflexivity]; [apply SInv_write_tape; exact HS|exact Hn]. }
  destruct ((c =? cMINUS) || is_digit c) eqn:E5.
  { destruct (parse_number_model (cur m)) as [[w1 w2]|]; cbn [good]; [|exact I].
    split; [split|reflexivity]; [apply SInv_write_raw2; exact HS|exact Hn]. }
  destruct (c =? cLBRACE) eqn:E6.
  { cbn [good]. split; [split|reflexivity].
    - apply SInv_push; [exact HS|right; split; [exact Hr|exact H2]].
    - msimpl. cbn [need contl length]. lia. }
  destruct (c =? cLBRACK) eqn:E7.
  { cbn [good]. split; [split|reflexivity].
    - apply SInv_push; [exact HS|right; split; [exact Hr|exact H2]].
    - msimpl. cbn [need contl length]. lia. }
  exact I.
Qed.

Lemma cycle_root_ok m : SInv m -> (1 <= length (stack m))%nat ->
  exists m', cycle_root m = Ok m' /\ SInv m' /\ (1 <= length (stack m'))%nat /\
             length (pending m') = length (pending m).
Proof.
  intros HS H1. pose proof (si_stk _ HS) as Hs. pose proof (si_depth _ HS) as Hd.
  unfold cycle_root. destruct (stack m) as [|off st] eqn:Es; [cbn [length] in H1; lia|].
  pose proof (Forall_inv Hs) as Hoff. pose proof (Forall_inv_tail Hs) as Hst. cbv beta in Hoff.
  cbn [depth_ok] in Hd. destruct Hd as [_ Hd].
  cbv zeta. rewrite annotate_ok by (msimpl; exact Hoff). cbn [obind].
  eexists. split; [reflexivity|]. split; [|split; [|reflexivity]].
  - apply (SInv_mk m _ HS); try reflexivity; msimpl.
    + constructor.
      * unfold retStart. lia.
      * eapply Forall_lt_weaken; [exact Hst|lia].
    + cbn [depth_ok]. split; [|exact Hd]. unfold isc, retStart, retArray, retObject. intros Hi. lia.
  - msimpl. cbn [length]. lia.
Qed.

(* ------------------------------------------------------------------ *)
(* one step                                                            *)

Lemma step_safe l m : Inv l m ->
  match step copy l m with
  | Next l' m' => Inv l' m' /\ length (pending m) = S (length (pending m'))
  | Succeed m' => SInv m' /\ (1 <= length (stack m'))%nat
  | Fail => True
  | SCrash => False
  | SFuelOut => False
  end.
Proof.
  intros [HS Hn].
  destruct (uc m HS) as [[Hp Hu]|(m' & c & Hu & HS' & Est & Hlen & Hq)].
  - unfold step. rewrite Hu. split; [exact HS|]. unfold need in Hn. destruct (contl l); lia.
  - rewrite (step_uchar copy l m m' c Hu). rewrite <- Est in Hn.
    assert (H1 : (1 <= length (stack m'))%nat) by (unfold need in Hn; destruct (contl l); lia).
    assert (G : good (length (pending m'))
      match l with
      | L_start => continue_root m' c
      | L_startContinue => if c =? cLF then Next L_ndSkip m' else Fail
      | L_ndSkip =>
        if c =? cLF then Next L_ndSkip m'
        else match cycle_root m' with
             | Ok m'' => continue_root m'' c
             | _ => SCrash
             end
      | L_objBegin =>
        if c =? cQUOTE then do_string copy m' (fun m'' => Next L_objColon m'')
        else if c =? cRBRACE then scope_end m' c
        else Fail
      | L_objColon => if c =? cCOLON then Next L_objValue m' else Fail
      | L_objValue => value_switch copy m' c retObject L_objCont
      | L_objCont =>
        if c =? cCOMMA then Next L_objKey m'
        else if c =? cRBRACE then scope_end m' c
        else Fail
      | L_objKey =>
        if c =? cQUOTE then do_string copy m' (fun m'' => Next L_objColon m'') else Fail
      | L_arrBegin =>
        if c =? cRBRACK then scope_end m' c else value_switch copy m' c retArray L_arrCont
      | L_arrValue => value_switch copy m' c retArray L_arrCont
      | L_arrCont =>
        if c =? cCOMMA then Next L_arrValue m'
        else if c =? cRBRACK then scope_end m' c
        else Fail
      end).
    { destruct l; cbn [need contl] in Hn.
      - (* start *) apply continue_root_good; assumption.
      - (* startContinue *)
        destruct (c =? cLF); cbn [good]; [|exact I].
        split; [split; [exact HS'|exact H1]|reflexivity].
      - (* ndSkip *)
        destruct (c =? cLF); cbn [good].
        + split; [split; [exact HS'|exact H1]|reflexivity].
        + destruct (cycle_root_ok m' HS' H1) as (m'' & Ec & HS'' & H1'' & Hp'').
          rewrite Ec, <- Hp''. apply continue_root_good; assumption.
      - (* objBegin *)
        destruct (c =? cQUOTE) eqn:E1.
        { apply do_string_good; [exact HS'|apply Hq; lia|exact Hn]. }
        destruct (c =? cRBRACE); [|exact I]. apply scope_end_good; assumption.
      - (* objColon *)
        destruct (c =? cCOLON); cbn [good]; [|exact I].
        split; [split; [exact HS'|exact Hn]|reflexivity].
      - (* objValue *)
        apply value_switch_good; [exact HS'|exact Hn|exact Hq|right; reflexivity].
      - (* objCont *)
        destruct (c =? cCOMMA).
        { cbn [good]. split; [split; [exact HS'|exact Hn]|reflexivity]. }
        destruct (c =? cRBRACE); [|exact I]. apply scope_end_good; assumption.
      - (* objKey *)
        destruct (c =? cQUOTE) eqn:E1; [|exact I].
        apply do_string_good; [exact HS'|apply Hq; lia|exact Hn].
      - (* arrBegin *)
        destruct (c =? cRBRACK); [apply scope_end_good; assumption|].
        apply value_switch_good; [exact HS'|exact Hn|exact Hq|left; reflexivity].
      - (* arrValue *)
        apply value_switch_good; [exact HS'|exact Hn|exact Hq|left; reflexivity].
      - (* arrCont *)
        destruct (c =? cCOMMA).
        { cbn [good]. split; [split; [exact HS'|exact Hn]|reflexivity]. }
        destruct (c =? cRBRACK); [|exact I]. apply scope_end_good; assumption. }
    revert G. generalize (match l with
      | L_start => continue_root m' c
      | L_startContinue => if c =? cLF then Next L_ndSkip m' else Fail
      | L_ndSkip =>
        if c =? cLF then Next L_ndSkip m'
        else match cycle_root m' with
             | Ok m'' => continue_root m'' c
             | _ => SCrash
             end
      | L_objBegin =>
        if c =? cQUOTE then do_string copy m' (fun m'' => Next L_objColon m'')
        else if c =? cRBRACE then scope_end m' c
        else Fail
      | L_objColon => if c =? cCOLON then Next L_objValue m' else Fail
      | L_objValue => value_switch copy m' c retObject L_objCont
      | L_objCont =>
        if c =? cCOMMA then Next L_objKey m'
        else if c =? cRBRACE then scope_end m' c
        else Fail
      | L_objKey =>
        if c =? cQUOTE then do_string copy m' (fun m'' => Next L_objColon m'') else Fail
      | L_arrBegin =>
        if c =? cRBRACK then scope_end m' c else value_switch copy m' c retArray L_arrCont
      | L_arrValue => value_switch copy m' c retArray L_arrCont
      | L_arrCont =>
        if c =? cCOMMA then Next L_arrValue m'
        else if c =? cRBRACK then scope_end m' c
        else Fail
      end).
    intros r G. destruct r as [l1 m1|m1| | |]; cbn [good] in G; try exact G; try contradiction.
    destruct G as [G1 G2]. split; [exact G1|]. rewrite Hlen, G2. reflexivity.
Qed.

(* ------------------------------------------------------------------ *)
(* the "succeed:" block and the label loop                             *)

Lemma finish_safe m : SInv m -> (1 <= length (stack m))%nat ->
  finish m = Err \/ exists m', finish m = Ok m'.
Proof.
  intros HS H1. pose proof (si_stk _ HS) as Hs. unfold finish.
  destruct (stack m) as [|off st] eqn:Es; [cbn [length] in H1; lia|].
  destruct st as [|x st]; [|left; reflexivity].
  pose proof (Forall_inv Hs) as Hoff. cbv beta in Hoff.
  right. cbv zeta. rewrite annotate_ok by (msimpl; exact Hoff). cbn [obind].
  eexists. reflexivity.
Qed.

Lemma run_labels_total : forall fuel l m, Inv l m -> (length (pending m) < fuel)%nat ->
  run_labels fuel copy l m = Err \/ exists m', run_labels fuel copy l m = Ok m'.
Proof.
  induction fuel as [|f IH]; intros l m HI Hlt; [lia|].
  cbn [run_labels]. pose proof (step_safe l m HI) as Hst.
  destruct (step copy l m) as [l1 m1|m1| | |].
  - destruct Hst as [HI1 Hlen]. apply IH; [exact HI1|lia].
  - destruct Hst as [HS1 H1]. apply finish_safe; assumption.
  - left. reflexivity.
  - contradiction.
  - contradiction.
Qed.

Theorem run2_total : forall (bufs : list (list nat)) (qs : list nat),
  Forall (fun b => b <> []) bufs ->
  concat bufs = incs 0 qs ->
  incr 0 qs ->
  Forall (fun q => (q < length msg)%nat) qs ->
  Forall (fun q => nth_b msg q = 34 -> closed (skipn (S q) msg)) qs ->
  run2 copy msg bufs = Err \/ exists m, run2 copy msg bufs = Ok m.
Proof.
  intros bufs qs Hne Hcat Hincr Hlt Hcl. unfold run2. cbv zeta.
  rewrite fold_left_len'. cbn [Nat.add].
  apply run_labels_total.
  - split.
    + constructor; msimpl; cbn [m2_init whole sfuel rbufs idx1 cur stack tlen].
      * reflexivity.
      * reflexivity.
      * exact Hne.
      * exists qs. unfold pending. msimpl. cbn [m2_init cbuf rbufs app N.to_nat].
        repeat split; assumption.
      * intros H. congruence.
      * constructor; [|constructor]. unfold retStart. lia.
      * cbn [depth_ok]. split; [|exact I]. unfold isc, retStart, retArray, retObject. intros Hi. lia.
    + msimpl. cbn [m2_init stack length need contl]. lia.
  - unfold pending. msimpl. cbn [m2_init cbuf rbufs app]. lia.
Qed.

End Total.

Print Assumptions run2_total.
