(* StrTotal.v — the window walk of the string kernel never runs away when the
   memory after the opening quote contains a closing quote in the sense of
   stage 1 (a quote not preceded by an odd run of backslashes).  No hypothesis
   on the other bytes: ill-formed escapes, control characters, non-UTF-8,
   anything. *)
From Coq Require Import ZifyBool ZifyN ZifyNat.
From SJ Require Import Model.Base Model.RefTables Spec.Json Model.Str.
From SJ Require Import Proofs.StrArith Proofs.StrProofs.
Open Scope N_scope.

(* the memory after an opening quote contains an unescaped quote; [esc] = the
   previous byte was an escaping backslash *)
Fixpoint hc (esc : bool) (r : bytes) : bool :=
  match r with
  | [] => false
  | b :: r' => if esc then hc false r'
               else if b2n b =? 92 then hc true r'
               else if b2n b =? 34 then true
               else hc false r'
  end.

(* ------------------------------------------------------------------ *)
(* [hc] across the pieces one iteration can jump over                   *)

(* a run of bytes that are neither quote nor backslash *)
Lemma hc_lit : forall k cur,
  (forall j, (j < k)%nat -> nth_b cur j <> 34 /\ nth_b cur j <> 92) ->
  hc false cur = true -> hc false (skipn k cur) = true.
Proof.
  induction k as [|k IH]; intros cur Hl H; [exact H|].
  destruct cur as [|b r]; [discriminate H|].
  cbn [skipn]. apply IH.
  - intros j Hj. apply (Hl (S j)). lia.
  - destruct (Hl 0%nat ltac:(lia)) as [A B]. unfold nth_b in A, B. cbn [nth] in A, B.
    cbn [hc] in H.
    destruct (b2n b =? 92) eqn:E1; [lia|].
    destruct (b2n b =? 34) eqn:E2; [lia|]. exact H.
Qed.

(* a backslash and the byte it escapes, whatever that byte is *)
Lemma hc_esc2 p : nth_b p 0 = 92 -> hc false p = true -> hc false (skipn 2 p) = true.
Proof.
  intros Hb H. destruct p as [|b [|e r]]; [discriminate H| |].
  - unfold nth_b in Hb. cbn [nth] in Hb. cbn [hc] in H.
    destruct (b2n b =? 92) eqn:E; [discriminate H|lia].
  - unfold nth_b in Hb. cbn [nth] in Hb. cbn [hc skipn] in *.
    destruct (b2n b =? 92) eqn:E; [exact H|lia].
Qed.

Lemma hexval_nobslash c v : hexval c = Some v -> c <> 92.
Proof. intros H E. subst c. vm_compute in H. discriminate. Qed.

(* when bit 31 of the combined value is clear, the four bytes are hex digits,
   hence neither quotes nor backslashes *)
Lemma hex4_clear_lit a b c d :
  N.testbit (hex4 (b2n a) (b2n b) (b2n c) (b2n d)) 31 = false ->
  (b2n a <> 34 /\ b2n a <> 92) /\ (b2n b <> 34 /\ b2n b <> 92) /\
  (b2n c <> 34 /\ b2n c <> 92) /\ (b2n d <> 34 /\ b2n d <> 92).
Proof.
  intros H. destruct (hex4_spec a b c d) as [v|] eqn:E.
  - unfold hex4_spec in E.
    destruct (hexval (b2n a)) eqn:Ea; [|discriminate].
    destruct (hexval (b2n b)) eqn:Eb; [|discriminate].
    destruct (hexval (b2n c)) eqn:Ec; [|discriminate].
    destruct (hexval (b2n d)) eqn:Ed; [|discriminate].
    repeat split;
      first [eapply hexval_noquote; eassumption | eapply hexval_nobslash; eassumption].
  - apply hex4_bad_bit in E. congruence.
Qed.

(* the same on memory positions *)
Lemma hex4_clear_lit_nth p k :
  N.testbit (hex4 (nth_b p k) (nth_b p (S k)) (nth_b p (S (S k))) (nth_b p (S (S (S k))))) 31 = false ->
  forall j, (j < 4)%nat -> nth_b p (k + j) <> 34 /\ nth_b p (k + j) <> 92.
Proof.
  unfold nth_b. intros H. apply hex4_clear_lit in H. destruct H as (A & B & C & D).
  intros j Hj. destruct j as [|[|[|[|j]]]]; [| | | |lia].
  - rewrite Nat.add_0_r. exact A.
  - replace (k + 1)%nat with (S k) by lia. exact B.
  - replace (k + 2)%nat with (S (S k)) by lia. exact C.
  - replace (k + 3)%nat with (S (S (S k))) by lia. exact D.
Qed.

(* \uXXXX : six bytes *)
Lemma hc_u6 p :
  nth_b p 0 = 92 ->
  N.testbit (hex4 (nth_b p 2) (nth_b p 3) (nth_b p 4) (nth_b p 5)) 31 = false ->
  hc false p = true -> hc false (skipn 6 p) = true.
Proof.
  intros Hb Hh H. apply hc_esc2 in H; [|exact Hb].
  change 6%nat with (2 + 4)%nat. rewrite <- skipn_skipn'.
  apply hc_lit; [|exact H].
  intros j Hj. rewrite nth_b_skipn. apply (hex4_clear_lit_nth p 2 Hh j Hj).
Qed.

(* ------------------------------------------------------------------ *)
(* the escape step                                                      *)

Lemma model_esc_hc p dist adv o :
  nth_b p 0 = 92 -> model_esc p dist = Some (adv, o) ->
  hc false p = true -> hc false (skipn adv p) = true.
Proof.
  intros Hb Hm H. unfold model_esc in Hm.
  destruct (nth_b p 1 =? c_u) eqn:Eu.
  - unfold str_unicode in Hm.
    destruct (dist <? 6)%nat eqn:Ed6; [discriminate Hm|].
    cbv zeta in Hm.
    remember (hex4 (nth_b p 2) (nth_b p 3) (nth_b p 4) (nth_b p 5)) as cp eqn:Ecp.
    destruct (N.testbit cp 31) eqn:Hbit.
    { rewrite (bit31_not_surrogate _ Hbit) in Hm. rewrite (bit31_utf8_len _ Hbit) in Hm.
      discriminate Hm. }
    assert (H6 : hc false (skipn 6 p) = true).
    { apply hc_u6; [exact Hb|rewrite <- Ecp; exact Hbit|exact H]. }
    destruct (N.land cp 4294966272 =? 55296) eqn:Esur.
    + destruct (dist <? 12)%nat eqn:Ed12; [discriminate Hm|].
      destruct (nth_b p 6 =? cBSLASH) eqn:E6; cbn [negb] in Hm; [|discriminate Hm].
      destruct (nth_b p 7 =? c_u) eqn:E7; cbn [negb] in Hm; [|discriminate Hm].
      remember (hex4 (nth_b p 8) (nth_b p 9) (nth_b p 10) (nth_b p 11)) as lo eqn:Elo.
      destruct (65535 <? N.lor lo cp) eqn:Ebig; [discriminate Hm|].
      destruct (N.testbit lo 31) eqn:Hbit2.
      { rewrite (bit31_lor_big lo cp Hbit2) in Ebig. discriminate Ebig. }
      match type of Hm with
      | match utf8_len ?x with _ => _ end = _ => destruct (utf8_len x); [|discriminate Hm]
      end.
      injection Hm as <- _.
      change 12%nat with (6 + 6)%nat. rewrite <- skipn_skipn'.
      apply hc_u6; [| |exact H6].
      * rewrite nth_b_skipn. cbn [Nat.add]. apply N.eqb_eq in E6. exact E6.
      * rewrite !nth_b_skipn. cbn [Nat.add]. rewrite <- Elo. exact Hbit2.
    + destruct (utf8_len cp); [|discriminate Hm].
      injection Hm as <- _. exact H6.
  - destruct (escape_map_ref (nth_b p 1) =? 0); [discriminate Hm|].
    injection Hm as <- _. apply hc_esc2; assumption.
Qed.

(* ------------------------------------------------------------------ *)
(* one iteration                                                        *)

Lemma str_step_hc cur c out adv out' :
  str_step cur c out = Cont adv out' ->
  hc false cur = true -> hc false (skipn adv cur) = true.
Proof.
  intros Hs H.
  assert (Hesc : forall bi q a o,
            nth_b cur bi = 92 ->
            (forall j, (j < bi)%nat -> nth_b cur j <> 34 /\ nth_b cur j <> 92) ->
            model_esc (skipn bi cur) (esc_dist cur bi q) = Some (a, o) ->
            hc false (skipn (bi + a) cur) = true).
  { intros bi q a o Hb Hl Hm. rewrite <- skipn_skipn'.
    assert (Hb0 : nth_b (skipn bi cur) 0 = 92) by (rewrite nth_b_skipn, Nat.add_0_r; exact Hb).
    apply (model_esc_hc _ _ _ _ Hb0 Hm).
    apply hc_lit; assumption. }
  unfold str_step in Hs. cbv zeta in Hs.
  destruct (first_of cBSLASH (win32 cur)) as [bi|] eqn:Ebs;
    destruct (first_of cQUOTE (win32 cur)) as [qi|] eqn:Eq.
  - pose proof (first_of_some _ _ _ Ebs) as (Hb32 & Hbc & Hbl).
    pose proof (first_of_some _ _ _ Eq) as (Hq32 & Hqc & Hql).
    unfold cQUOTE, cBSLASH in Hbc, Hqc, Hbl, Hql.
    destruct (qi <? bi)%nat eqn:Elt; [discriminate Hs|].
    destruct (model_esc (skipn bi cur) (esc_dist cur bi (Some qi))) as [[a o]|] eqn:Em;
      [|discriminate Hs].
    injection Hs as <- _.
    apply (Hesc bi (Some qi) a o Hbc); [|exact Em].
    intros j Hj. split; [apply Hql; lia|apply Hbl; lia].
  - pose proof (first_of_some _ _ _ Ebs) as (Hb32 & Hbc & Hbl).
    pose proof (first_of_none _ _ Eq) as Hqn.
    unfold cQUOTE, cBSLASH in Hbc, Hbl, Hqn.
    destruct (model_esc (skipn bi cur) (esc_dist cur bi None)) as [[a o]|] eqn:Em;
      [|discriminate Hs].
    injection Hs as <- _.
    apply (Hesc bi None a o Hbc); [|exact Em].
    intros j Hj. split; [apply Hqn; lia|apply Hbl; lia].
  - discriminate Hs.
  - pose proof (first_of_none _ _ Ebs) as Hbn.
    pose proof (first_of_none _ _ Eq) as Hqn.
    unfold cQUOTE, cBSLASH in Hbn, Hqn.
    injection Hs as <- _.
    apply hc_lit; [|exact H].
    intros j Hj. split; [apply Hqn; lia|apply Hbn; lia].
Qed.

(* ------------------------------------------------------------------ *)
(* the walk                                                             *)

Theorem str_loop_no_runaway : forall fuel cur c out,
  hc false cur = true -> (length cur < fuel)%nat -> str_loop fuel cur c out None <> StrFuel.
Proof.
  induction fuel as [|f IH]; intros cur c out H Hf; [lia|].
  rewrite str_loop_S.
  destruct (str_step cur c out) as [r|adv out'] eqn:Es.
  - apply str_step_done in Es. exact (proj1 Es).
  - pose proof (str_step_adv _ _ _ _ _ Es) as Ha.
    pose proof (str_step_hc _ _ _ _ _ Es H) as H'.
    apply IH; [exact H'|].
    destruct (skipn adv cur) as [|b r] eqn:Ek; [discriminate H'|].
    apply (f_equal (@length byte)) in Ek. rewrite skipn_length in Ek.
    cbn [length] in *. lia.
Qed.

Theorem str_validate_total : forall mem max fuel,
  hc false mem = true -> (length mem < fuel)%nat -> str_validate mem max fuel <> StrFuel.
Proof.
  intros mem max fuel H Hf. unfold str_validate. apply str_loop_no_runaway; assumption.
Qed.

Theorem parse_string_model_total : forall q mem idx max copy slen fuel,
  hc false mem = true -> (length mem < fuel)%nat ->
  parse_string_model (q :: mem) idx max copy slen fuel <> OutOfFuel /\
  parse_string_model (q :: mem) idx max copy slen fuel <> Crash.
Proof.
  intros q mem idx max copy slen fuel H Hf.
  pose proof (str_validate_total mem max fuel H Hf) as Hv.
  unfold parse_string_model.
  destruct (str_validate mem max fuel) as [n d| |] eqn:Ev.
  - rewrite (str_validate_copy_agree _ _ _ _ _ Ev).
    destruct (negb (copy || negb (n =? length d)%nat)); split; discriminate.
  - split; discriminate.
  - contradiction.
Qed.

Print Assumptions str_loop_no_runaway.
Print Assumptions str_validate_total.
Print Assumptions parse_string_model_total.
