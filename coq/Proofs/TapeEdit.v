(* TapeEdit.v — the tape writes of Model/Edit.v on the list level (goal A1,
   A2) and the Set* operations refine the abstract edits (goal C / C13). *)
From SJ Require Import Model.Base Model.RefTables Spec.Json Spec.EditSpec Model.Tape
     Model.Iter Model.Walk Model.Edit.
From SJ Require Import Proofs.TapeBase Proofs.TapeSeg Proofs.TapeDen Proofs.TapePath.
From Coq Require Import ZifyBool ZifyN ZifyNat.
Open Scope N_scope.

(* ------------------------------------------------------------------ *)
(* single writes                                                       *)

Lemma upd_nth_app {A} (pre : list A) x post f :
  upd_nth (length pre) f (pre ++ x :: post) = pre ++ f x :: post.
Proof. induction pre as [|h pre IH]; [reflexivity|]. cbn [length app upd_nth]. now rewrite IH. Qed.

Lemma upd_nth_length {A} (l : list A) i f : length (upd_nth i f l) = length l.
Proof.
  revert i; induction l as [|h l IH]; intros [|i]; cbn [upd_nth length]; auto.
Qed.

Definition with_tape (pj : pjson) (t : list N) : pjson :=
  {| pj_tape := t; pj_strings := pj_strings pj; pj_msg := pj_msg pj |}.

Lemma wr_app pj len off pre w0 post w :
  pj_tape pj = pre ++ w0 :: post -> off = Z.of_nat (length pre) -> (off < len)%Z ->
  wr pj len off w = Ok (with_tape pj (pre ++ w :: post)).
Proof.
  intros Ht -> Hlen. unfold wr.
  replace ((0 <=? Z.of_nat (length pre))%Z && (Z.of_nat (length pre) <? len)%Z &&
           (Z.of_nat (length pre) <? Z.of_nat (length (pj_tape pj)))%Z) with true.
  - rewrite Nat2Z.id, Ht, upd_nth_app. reflexivity.
  - rewrite Ht, app_length. cbn [length]. lia.
Qed.

(* ------------------------------------------------------------------ *)
(* A1: NOP fill                                                        *)

Fixpoint nop_fill (n : nat) : list N :=
  match n with
  | O => []
  | S m => mk_word TagNop (N.of_nat (S m)) :: nop_fill m
  end.

Lemma nop_fill_length n : length (nop_fill n) = n.
Proof. induction n; cbn [nop_fill length]; auto. Qed.

Global Hint Rewrite @app_length nop_fill_length : lens.
Ltac lens :=
  unfold nlen in *;
  repeat (cbn [length] in *; autorewrite with lens in * );
  cbn [length] in *; lia.

Lemma nop_fill_nth n : forall j, (j < n)%nat ->
  nth_error (nop_fill n) j = Some (mk_word TagNop (N.of_nat (n - j))).
Proof.
  induction n as [|n IH]; intros j Hj; [lia|].
  destruct j as [|j]; [reflexivity|]. cbn [nop_fill nth_error]. rewrite IH by lia. reflexivity.
Qed.

Lemma fill_nops_app : forall old pre post pj len j endp k,
  pj_tape pj = pre ++ old ++ post -> j = Z.of_nat (length pre) ->
  endp = (j + Z.of_nat (length old))%Z -> (endp <= len)%Z -> (length old <= k)%nat ->
  fill_nops k pj len j endp = Ok (with_tape pj (pre ++ nop_fill (length old) ++ post)).
Proof.
  induction old as [|x old IH]; intros pre post pj len j endp k Ht Hj He Hlen Hk.
  - cbn [length nop_fill app] in *. destruct pj as [t s m]. cbn in Ht. subst t.
    destruct k; cbn [fill_nops]; [reflexivity|].
    replace (endp <=? j)%Z with true by lia. reflexivity.
  - destruct k as [|k]; [cbn in Hk; lia|]. cbn [fill_nops].
    cbn [length] in He, Hk.
    replace (endp <=? j)%Z with false by lia.
    cbn [app] in Ht.
    rewrite (wr_app pj len j pre x (old ++ post) _ Ht Hj) by lia. cbn [obind].
    rewrite (IH (pre ++ [mk_word TagNop (Z.to_N (endp - j))]) post _ len (j + 1)%Z endp k).
    + unfold with_tape. cbn [pj_strings pj_msg]. f_equal. f_equal.
      rewrite <- app_assoc. cbn [app length nop_fill]. f_equal. f_equal. f_equal. f_equal. lia.
    + cbn [with_tape pj_tape]. rewrite <- app_assoc. reflexivity.
    + rewrite app_length. cbn [length]. lia.
    + lia.
    + lia.
    + lia.
Qed.

Lemma fill_length_unchanged (pre old post : list N) :
  length (pre ++ nop_fill (length old) ++ post) = length (pre ++ old ++ post).
Proof. rewrite !app_length, nop_fill_length. reflexivity. Qed.

(* delete_span is exactly this fill *)
Lemma delete_span_app old pre post pj len startO endp :
  pj_tape pj = pre ++ old ++ post -> startO = Z.of_nat (length pre) ->
  endp = (startO + Z.of_nat (length old))%Z -> (endp <= len)%Z ->
  delete_span pj len startO endp = Ok (with_tape pj (pre ++ nop_fill (length old) ++ post)).
Proof.
  intros Ht Hs He Hl. unfold delete_span. eapply fill_nops_app; eauto. lia.
Qed.

(* ------------------------------------------------------------------ *)
(* A2: runs                                                            *)

Lemma nop_fill_tag n j w : N.of_nat n < two56 ->
  nth_error (nop_fill n) j = Some w ->
  word_tag w = TagNop /\ word_val w = N.of_nat (n - j).
Proof.
  intros Hn H. assert (Hj : (j < n)%nat).
  { rewrite <- (nop_fill_length n). apply nth_error_Some. congruence. }
  rewrite nop_fill_nth in H by exact Hj. injection H as <-.
  split; [apply word_tag_mk|apply word_val_mk]; lia.
Qed.

Lemma nop_fill_is_run n : N.of_nat n < two56 -> is_run (nop_fill n).
Proof.
  intros Hn j w H. rewrite nop_fill_length. eapply nop_fill_tag; eauto.
Qed.

Lemma nop_fill_nops_seg strict n : N.of_nat n < two56 -> nops_seg strict (nop_fill n).
Proof.
  intros Hn. destruct n as [|m]; [constructor|].
  cbn [nop_fill]. rewrite <- (app_nil_r (nop_fill m)).
  apply ns_cons.
  - apply word_tag_mk. lia.
  - rewrite word_val_mk by lia. unfold nlen. rewrite nop_fill_length. lia.
  - intros _. apply (nop_fill_is_run (S m)). exact Hn.
  - constructor.
Qed.

(* skipping from anywhere inside a run lands at its end *)
Lemma skip_nops_in_run l a b f i tail :
  is_run l -> l = a ++ b -> b <> [] ->
  skip_nops (S f) i (b ++ tail) = skip_nops f (i + nlen b) tail.
Proof.
  intros Hrun -> Hb. destruct b as [|w b']; [congruence|].
  destruct (Hrun (length a) w) as [Ht Hv].
  { rewrite nth_error_app2 by lia. now rewrite Nat.sub_diag. }
  cbn [app]. rewrite (skip_nops_jump f i w b' tail Ht).
  - f_equal. nl.
  - rewrite Hv. nl.
Qed.

(* ------------------------------------------------------------------ *)
(* abstract updates                                                    *)

Lemma upd_list_nth {A} (g : A -> option A) : forall n l a,
  nth_error l n = Some a ->
  upd_list n g l = option_map (fun y => firstn n l ++ y :: skipn (S n) l) (g a).
Proof.
  induction n as [|n IH]; intros [|x l] a H; try discriminate H.
  - injection H as ->. cbn [upd_list]. destruct (g a); reflexivity.
  - cbn [nth_error] in H. cbn [upd_list]. rewrite (IH l a H).
    destruct (g a); reflexivity.
Qed.

Lemma upd_doc_get f : forall p d x, get_doc p d = Some x ->
  upd_doc p f d = match f x with Some y => upd_doc p (fun _ => Some y) d | None => None end.
Proof.
  induction p as [|n q IH]; intros d x H.
  - cbn in H. injection H as ->. cbn [upd_doc]. destruct (f x); reflexivity.
  - cbn [get_doc] in H. destruct d; try discriminate H.
    + destruct (nth_error l n) as [x0|] eqn:En; [|discriminate H].
      cbn [upd_doc]. rewrite (upd_list_nth _ n l x0 En). rewrite (IH x0 x H).
      destruct (f x) as [y|]; [|reflexivity]. rewrite (upd_list_nth _ n l x0 En). reflexivity.
    + destruct (nth_error l n) as [kv|] eqn:En; [|discriminate H].
      cbn [upd_doc]. rewrite (upd_list_nth _ n l kv En). rewrite (IH (snd kv) x H).
      destruct (f x) as [y|]; [|reflexivity]. rewrite (upd_list_nth _ n l kv En). reflexivity.
Qed.

Lemma upd_docs_get f p ds x : get_docs p ds = Some x ->
  upd_docs p f ds = match f x with Some y => upd_docs p (fun _ => Some y) ds | None => None end.
Proof.
  destruct p as [|n q]; [discriminate|]. cbn [get_docs upd_docs]. intros H.
  destruct (nth_error ds n) as [d|] eqn:En; [|discriminate H].
  rewrite (upd_list_nth _ n ds d En). rewrite (upd_doc_get f q d x H).
  destruct (f x) as [y|]; [|reflexivity]. rewrite (upd_list_nth _ n ds d En). reflexivity.
Qed.

(* ------------------------------------------------------------------ *)
(* iterators positioned on a value                                     *)

Definition iter_on (it : iter) (k : N) (sub : list N) : Prop :=
  i_off it = (Z.of_N k + 1)%Z /\
  (Z.of_N k + Z.of_nat (length sub) <= i_len it)%Z /\
  exists w r, sub = w :: r /\ i_t it = word_tag w /\ i_cur it = word_val w.

Section Kinds.
Variables (msg strings : bytes) (strict adj : bool).
Notation val_seg := (val_seg msg strings strict adj).

Lemma val_seg_kind i w r d : val_seg i (w :: r) d ->
  is_numstr (word_tag w) = is_numstr_doc d /\
  is_atom (word_tag w) = is_atom_doc d /\
  is_open (word_tag w) = is_container d /\
  (is_numstr_doc d = true -> exists x, r = [x]) /\
  (is_atom_doc d = true -> r = []) /\
  (is_container d = true -> word_val w = i + nlen (w :: r)).
Proof.
  intros H. inversion H; subst;
    match goal with Ht : word_tag w = _ |- _ => rewrite Ht end;
    (split; [reflexivity|]); (split; [reflexivity|]); (split; [reflexivity|]);
    (split; [intros E; try discriminate E; eexists; reflexivity|]);
    (split; [intros E; try discriminate E; reflexivity|]);
    intros E; try discriminate E.
  - match goal with Hv : word_val w = _ |- _ => rewrite Hv end. nl.
  - match goal with Hv : word_val w = _ |- _ => rewrite Hv end. nl.
Qed.

End Kinds.

(* ------------------------------------------------------------------ *)
(* C13: the Set* operations                                            *)

Section SetOps.
Variables (strict adj : bool).

Notation vseg pj := (val_seg (pj_msg pj) (pj_strings pj) strict adj).
Notation ipath pj := (index_path (pj_msg pj) (pj_strings pj) strict adj).
Notation rseg pj := (roots_seg (pj_msg pj) (pj_strings pj) strict adj).
Notation den pj := (denote (pj_msg pj) (pj_strings pj) (pj_tape pj)).

Lemma refine_core msg strings pre sub post p ds dsub sub2 d' (f : doc -> option doc) :
  denote msg strings (pre ++ sub ++ post) = Some ds ->
  index_path msg strings strict adj (pre ++ sub ++ post) (nlen pre) p ->
  val_seg msg strings strict adj (nlen pre) sub dsub ->
  repl_ok msg strings strict adj (nlen pre) sub sub2 d' -> f dsub = Some d' ->
  denote msg strings (pre ++ sub2 ++ post) = upd_docs p f ds /\
  exists ds2, upd_docs p f ds = Some ds2 /\
              roots_seg msg strings strict adj 0 (pre ++ sub2 ++ post) ds2.
Proof.
  intros Hden Hip Hv Hok Hf.
  destruct (replace_value_denote _ _ _ _ _ _ _ _ _ _ _ _ Hden Hip Hv Hok) as (Hg & Hd & ds2 & Hu & Hr).
  rewrite (upd_docs_get f p ds dsub Hg), Hf. split; [exact Hd|].
  exists ds2. split; assumption.
Qed.

Lemma refine_get msg strings pre sub post p ds dsub :
  denote msg strings (pre ++ sub ++ post) = Some ds ->
  index_path msg strings strict adj (pre ++ sub ++ post) (nlen pre) p ->
  val_seg msg strings strict adj (nlen pre) sub dsub ->
  get_docs p ds = Some dsub.
Proof.
  intros Hden Hip Hv.
  assert (Hok : repl_ok msg strings strict adj (nlen pre) sub sub dsub).
  { exists sub, []. rewrite app_nil_r. repeat split; auto. constructor. }
  destruct (replace_value_denote _ _ _ _ _ _ _ _ _ _ _ _ Hden Hip Hv Hok) as (Hg & _). exact Hg.
Qed.

Lemma refine_none msg strings pre sub post p ds dsub (f : doc -> option doc) :
  denote msg strings (pre ++ sub ++ post) = Some ds ->
  index_path msg strings strict adj (pre ++ sub ++ post) (nlen pre) p ->
  val_seg msg strings strict adj (nlen pre) sub dsub ->
  f dsub = None -> upd_docs p f ds = None.
Proof.
  intros Hden Hip Hv Hf.
  rewrite (upd_docs_get f p ds dsub (refine_get _ _ _ _ _ _ _ _ Hden Hip Hv)), Hf. reflexivity.
Qed.

(* the two writes of a two-word Set *)
Lemma set2_ok pj it pre w0 w1 post a b t' c' :
  pj_tape pj = pre ++ w0 :: w1 :: post -> iter_on it (nlen pre) [w0; w1] ->
  is_numstr (word_tag w0) = true ->
  set2 pj it a b t' c' =
    Ok (with_tape pj (pre ++ a :: b :: post), set_i it (i_off it) (i_add it) c' t').
Proof.
  intros Ht (Hoff & Hlen & w & r & E & Hit & Hcur) Hns. injection E as <- <-.
  unfold set2. rewrite Hit, Hns. cbn [length] in Hlen. unfold nlen in *.
  rewrite (wr_app pj (i_len it) (i_off it - 1) pre w0 (w1 :: post) a Ht)
    by lia.
  cbn [obind].
  rewrite (wr_app _ (i_len it) (i_off it) (pre ++ [a]) w1 post b).
  - cbn [obind]. unfold with_tape. cbn [pj_strings pj_msg]. rewrite <- app_assoc. reflexivity.
  - cbn [with_tape pj_tape]. rewrite <- app_assoc. reflexivity.
  - rewrite app_length. cbn [length]. lia.
  - lia.
Qed.

Lemma set2_err pj it a b t' c' : is_numstr (i_t it) = false -> set2 pj it a b t' c' = Err.
Proof. intros H. unfold set2. rewrite H. reflexivity. Qed.

(* generic statement for SetFloat / SetInt / SetUInt *)
Lemma set2_refines pj it a b t' c' dnew pre sub post p ds dsub :
  (forall k, vseg pj k [a; b] dnew) ->
  pj_tape pj = pre ++ sub ++ post -> vseg pj (nlen pre) sub dsub ->
  ipath pj (pj_tape pj) (nlen pre) p -> den pj = Some ds -> iter_on it (nlen pre) sub ->
  match set2 pj it a b t' c' with
  | Ok (pj', it') =>
      is_numstr_doc dsub = true /\ pj' = with_tape pj (pre ++ [a; b] ++ post) /\
      den pj' = upd_docs p (abs_set_scalar dnew) ds /\
      exists ds2, upd_docs p (abs_set_scalar dnew) ds = Some ds2 /\ rseg pj' 0 (pj_tape pj') ds2
  | Err => is_numstr_doc dsub = false /\ upd_docs p (abs_set_scalar dnew) ds = None
  | _ => False
  end.
Proof.
  intros Hnew Ht Hv Hip Hden Hon.
  pose proof Hon as (Hoff & Hlen & w & r & -> & Hit & Hcur).
  destruct (val_seg_kind _ _ _ _ _ _ _ _ Hv) as (Kn & _ & _ & K2 & _).
  destruct (is_numstr_doc dsub) eqn:Ens.
  - destruct (K2 eq_refl) as (x & ->).
    rewrite (set2_ok pj it pre w x post a b t' c' Ht Hon Kn).
    split; [reflexivity|]. split; [reflexivity|].
    cbn [with_tape pj_tape pj_strings pj_msg].
    rewrite Ht in Hden, Hip.
    apply (refine_core _ _ pre [w; x] post p ds dsub [a; b] dnew (abs_set_scalar dnew) Hden Hip Hv).
    + exists [a; b], []. repeat split; auto. constructor.
    + unfold abs_set_scalar. rewrite Ens. reflexivity.
  - rewrite set2_err by (rewrite Hit; exact Kn). split; [reflexivity|].
    rewrite Ht in Hden, Hip.
    apply (refine_none _ _ pre (w :: r) post p ds dsub _ Hden Hip Hv).
    unfold abs_set_scalar. rewrite Ens. reflexivity.
Qed.

Theorem set_float_refines pj it bits pre sub post p ds dsub :
  pj_tape pj = pre ++ sub ++ post -> vseg pj (nlen pre) sub dsub ->
  ipath pj (pj_tape pj) (nlen pre) p -> den pj = Some ds -> iter_on it (nlen pre) sub ->
  match set_float pj it bits with
  | Ok (pj', it') =>
      is_numstr_doc dsub = true /\
      pj' = with_tape pj (pre ++ [mk_word TagFloat 0; bits] ++ post) /\
      den pj' = upd_docs p (abs_set_scalar (DNum (NFloat bits 0))) ds /\
      exists ds2, upd_docs p (abs_set_scalar (DNum (NFloat bits 0))) ds = Some ds2 /\
                  rseg pj' 0 (pj_tape pj') ds2
  | Err => is_numstr_doc dsub = false /\
           upd_docs p (abs_set_scalar (DNum (NFloat bits 0))) ds = None
  | _ => False
  end.
Proof.
  intros. unfold set_float. eapply set2_refines; eauto.
  intros k. change 0 with (word_val (mk_word TagFloat 0)) at 2.
  apply vs_float. reflexivity.
Qed.

Theorem set_int_refines pj it z pre sub post p ds dsub :
  pj_tape pj = pre ++ sub ++ post -> vseg pj (nlen pre) sub dsub ->
  ipath pj (pj_tape pj) (nlen pre) p -> den pj = Some ds -> iter_on it (nlen pre) sub ->
  let dnew := DNum (NInt (s64 (u64_of_Z z))) in
  match set_int pj it z with
  | Ok (pj', it') =>
      is_numstr_doc dsub = true /\
      pj' = with_tape pj (pre ++ [mk_word TagInteger 0; u64_of_Z z] ++ post) /\
      den pj' = upd_docs p (abs_set_scalar dnew) ds /\
      exists ds2, upd_docs p (abs_set_scalar dnew) ds = Some ds2 /\ rseg pj' 0 (pj_tape pj') ds2
  | Err => is_numstr_doc dsub = false /\ upd_docs p (abs_set_scalar dnew) ds = None
  | _ => False
  end.
Proof.
  intros. unfold set_int. eapply set2_refines; eauto.
  intros k. apply vs_int; reflexivity.
Qed.

(* the int64 written is read back unchanged *)
Lemma s64_u64_of_Z z : (- 9223372036854775808 <= z < 9223372036854775808)%Z -> s64 (u64_of_Z z) = z.
Proof.
  intros Hz. unfold s64, u64_of_Z, two63, two64.
  change (Z.of_N 18446744073709551616) with 18446744073709551616%Z.
  destruct (Z_lt_le_dec z 0) as [Hneg|Hpos].
  - replace (z mod 18446744073709551616)%Z with (z + 18446744073709551616)%Z.
    2:{ apply Z.mod_unique with (q := (-1)%Z); lia. }
    destruct (Z.to_N (z + 18446744073709551616) <? 9223372036854775808) eqn:E; lia.
  - rewrite Z.mod_small by lia.
    destruct (Z.to_N z <? 9223372036854775808) eqn:E; lia.
Qed.

Theorem set_uint_refines pj it u pre sub post p ds dsub :
  pj_tape pj = pre ++ sub ++ post -> vseg pj (nlen pre) sub dsub ->
  ipath pj (pj_tape pj) (nlen pre) p -> den pj = Some ds -> iter_on it (nlen pre) sub ->
  let dnew := DNum (NUint u) in
  match set_uint pj it u with
  | Ok (pj', it') =>
      is_numstr_doc dsub = true /\
      pj' = with_tape pj (pre ++ [mk_word TagUint 0; u] ++ post) /\
      den pj' = upd_docs p (abs_set_scalar dnew) ds /\
      exists ds2, upd_docs p (abs_set_scalar dnew) ds = Some ds2 /\ rseg pj' 0 (pj_tape pj') ds2
  | Err => is_numstr_doc dsub = false /\ upd_docs p (abs_set_scalar dnew) ds = None
  | _ => False
  end.
Proof.
  intros. unfold set_uint. eapply set2_refines; eauto.
  intros k. apply vs_uint; reflexivity.
Qed.

End SetOps.

Section SetOps2.
Variables (strict adj : bool).

Notation vseg pj := (val_seg (pj_msg pj) (pj_strings pj) strict adj).
Notation ipath pj := (index_path (pj_msg pj) (pj_strings pj) strict adj).
Notation rseg pj := (roots_seg (pj_msg pj) (pj_strings pj) strict adj).
Notation den pj := (denote (pj_msg pj) (pj_strings pj) (pj_tape pj)).

(* ---- SetBool ---- *)
Theorem set_bool_refines pj it bv pre sub post p ds dsub :
  pj_tape pj = pre ++ sub ++ post -> vseg pj (nlen pre) sub dsub ->
  ipath pj (pj_tape pj) (nlen pre) p -> den pj = Some ds -> iter_on it (nlen pre) sub ->
  match set_bool pj it bv with
  | Ok (pj', it') =>
      is_atom_doc dsub = true /\
      pj' = with_tape pj (pre ++ [mk_word (if bv then TagBoolTrue else TagBoolFalse) 0] ++ post) /\
      den pj' = upd_docs p (abs_set_bool bv) ds /\
      exists ds2, upd_docs p (abs_set_bool bv) ds = Some ds2 /\ rseg pj' 0 (pj_tape pj') ds2
  | Err => is_atom_doc dsub = false /\ upd_docs p (abs_set_bool bv) ds = None
  | _ => False
  end.
Proof.
  intros Ht Hv Hip Hden Hon.
  pose proof Hon as (Hoff & Hlen & w & r & -> & Hit & Hcur).
  destruct (val_seg_kind _ _ _ _ _ _ _ _ Hv) as (_ & Ka & _ & _ & K1 & _).
  unfold set_bool. rewrite Hit, Ka.
  destruct (is_atom_doc dsub) eqn:Ea.
  - rewrite (K1 eq_refl) in *. cbn [app] in Ht. cbn [length] in Hlen. unfold nlen in Hoff, Hlen.
    rewrite (wr_app pj (i_len it) (i_off it - 1) pre w post _ Ht) by lia.
    cbn [obind]. split; [reflexivity|]. split; [reflexivity|].
    cbn [with_tape pj_tape pj_strings pj_msg].
    change (pre ++ w :: post) with (pre ++ [w] ++ post) in Ht. rewrite Ht in Hden, Hip.
    apply (refine_core strict adj _ _ pre [w] post p ds dsub
             [mk_word (if bv then TagBoolTrue else TagBoolFalse) 0] (DBool bv) (abs_set_bool bv) Hden Hip Hv).
    + exists [mk_word (if bv then TagBoolTrue else TagBoolFalse) 0], [].
      split; [reflexivity|]. repeat split; [|constructor].
      destruct bv; [apply vs_true|apply vs_false]; reflexivity.
    + unfold abs_set_bool. rewrite Ea. reflexivity.
  - split; [reflexivity|]. rewrite Ht in Hden, Hip.
    apply (refine_none strict adj _ _ pre (w :: r) post p ds dsub _ Hden Hip Hv).
    unfold abs_set_bool. rewrite Ea. reflexivity.
Qed.

(* ---- SetNull ---- *)
Lemma val_tag_cases t : is_val_tag t = true ->
  is_atom t = true \/ (is_atom t = false /\ is_numstr t = true) \/
  (is_atom t = false /\ is_numstr t = false /\ is_open t = true /\ t <> TagRoot).
Proof.
  unfold is_val_tag. intros H.
  repeat (apply orb_true_iff in H; destruct H as [H|H]);
    apply N.eqb_eq in H; subst t; vm_compute; intuition congruence.
Qed.

Theorem set_null_refines pj it pre sub post p ds dsub :
  pj_tape pj = pre ++ sub ++ post -> vseg pj (nlen pre) sub dsub ->
  ipath pj (pj_tape pj) (nlen pre) p -> den pj = Some ds -> iter_on it (nlen pre) sub ->
  match set_null pj it with
  | Ok (pj', it') =>
      pj' = with_tape pj (pre ++ (mk_word TagNull 0 :: nop_fill (length sub - 1)) ++ post) /\
      den pj' = upd_docs p abs_set_null ds /\
      exists ds2, upd_docs p abs_set_null ds = Some ds2 /\ rseg pj' 0 (pj_tape pj') ds2
  | _ => False
  end.
Proof.
  intros Ht Hv Hip Hden Hon.
  pose proof Hon as (Hoff & Hlen & w & r & -> & Hit & Hcur).
  destruct (val_seg_kind _ _ _ _ _ _ _ _ Hv) as (Kn & Ka & Ko & K2 & K1 & Kc).
  destruct (val_seg_head _ _ _ _ _ _ _ Hv) as (w' & r' & E & Htag). injection E as <- <-.
  assert (Hfin : forall m, N.of_nat m < two56 -> length (w :: r) = S m ->
            forall pj', pj' = with_tape pj (pre ++ (mk_word TagNull 0 :: nop_fill m) ++ post) ->
            den pj' = upd_docs p abs_set_null ds /\
            exists ds2, upd_docs p abs_set_null ds = Some ds2 /\ rseg pj' 0 (pj_tape pj') ds2).
  { intros m Hm Hl pj' ->. cbn [with_tape pj_tape pj_strings pj_msg].
    rewrite Ht in Hden, Hip.
    apply (refine_core strict adj _ _ pre (w :: r) post p ds dsub
             (mk_word TagNull 0 :: nop_fill m) DNull abs_set_null Hden Hip Hv);
      [|reflexivity].
    exists [mk_word TagNull 0], (nop_fill m). split; [reflexivity|]. repeat split.
    - apply vs_null; reflexivity.
    - apply nop_fill_nops_seg. exact Hm.
    - cbn [app length] in *. rewrite nop_fill_length. lia. }
  cbn [length] in Hlen. unfold nlen in Hoff, Hlen.
  unfold set_null. rewrite Hit.
  destruct (val_tag_cases _ Htag) as [Ha|[[Ha Hn]|(Ha & Hn & Ho & Hnr)]]; rewrite Ha.
  - (* atom *)
    rewrite Ka in Ha. rewrite (K1 Ha) in *. cbn [app] in Ht.
    rewrite (wr_app pj (i_len it) (i_off it - 1) pre w post _ Ht) by lia.
    cbn [obind]. split; [reflexivity|].
    apply (Hfin 0%nat); [reflexivity|reflexivity|reflexivity].
  - (* two-word scalar *)
    rewrite Hn. rewrite Kn in Hn. destruct (K2 Hn) as (x & ->). cbn [app] in Ht.
    cbn [length] in Hlen.
    rewrite (wr_app pj (i_len it) (i_off it - 1) pre w (x :: post) _ Ht) by lia.
    cbn [obind].
    rewrite (wr_app _ (i_len it) (i_off it) (pre ++ [mk_word TagNull 0]) x post (mk_word TagNop 1)).
    + cbn [obind]. split.
      * unfold with_tape. cbn [pj_strings pj_msg]. rewrite <- app_assoc. reflexivity.
      * apply (Hfin 1%nat); [reflexivity|reflexivity|].
        unfold with_tape. cbn [pj_strings pj_msg pj_tape]. rewrite <- app_assoc. reflexivity.
    + cbn [with_tape pj_tape]. rewrite <- app_assoc. reflexivity.
    + rewrite app_length. cbn [length]. lia.
    + lia.
  - (* container *)
    rewrite Hn, Ho. rewrite Ko in Ho. specialize (Kc Ho).
    cbn [app] in Ht.
    rewrite (wr_app pj (i_len it) (i_off it - 1) pre w (r ++ post) _ Ht) by lia.
    cbn [obind].
    assert (Hcz : Z.of_N (i_cur it) = (Z.of_nat (length pre) + 1 + Z.of_nat (length r))%Z).
    { rewrite Hcur, Kc. nl. }
    rewrite (fill_nops_app r (pre ++ [mk_word TagNull 0]) post _ (i_len it) (i_off it) (Z.of_N (i_cur it))).
    + cbn [obind]. split.
      * unfold with_tape. cbn [pj_strings pj_msg]. rewrite <- app_assoc.
        cbn [app length]. replace (S (length r) - 1)%nat with (length r) by lia. reflexivity.
      * apply (Hfin (length r)); [|reflexivity|].
        -- pose proof (word_val_lt w) as Hlt. rewrite Kc in Hlt. revert Hlt. nl.
        -- unfold with_tape. cbn [pj_strings pj_msg pj_tape]. rewrite <- app_assoc. reflexivity.
    + cbn [with_tape pj_tape]. rewrite <- app_assoc. reflexivity.
    + rewrite app_length. cbn [length]. lia.
    + lia.
    + lia.
    + lia.
Qed.

End SetOps2.

(* ---- SetString ---- *)
Lemma STRINGBUFBIT_pow : STRINGBUFBIT = 2 ^ 55.
Proof. reflexivity. Qed.
Lemma STRINGBUFMASK_ones : STRINGBUFMASK = N.ones 55.
Proof. reflexivity. Qed.

Lemma strbuf_payload L : L < STRINGBUFBIT ->
  (N.land (STRINGBUFBIT + L) STRINGBUFBIT =? 0) = false /\
  N.land (STRINGBUFBIT + L) STRINGBUFMASK = L /\ STRINGBUFBIT + L < two56.
Proof.
  intros HL. split; [|split].
  - apply N.eqb_neq. intros E.
    assert (T : N.testbit (N.land (STRINGBUFBIT + L) STRINGBUFBIT) 55 = true).
    { rewrite N.land_spec. rewrite STRINGBUFBIT_pow at 2. rewrite N.pow2_bits_true.
      rewrite andb_true_r. rewrite N.testbit_eqb. apply N.eqb_eq.
      rewrite STRINGBUFBIT_pow. rewrite STRINGBUFBIT_pow in HL.
      replace (2 ^ 55 + L) with (L + 1 * 2 ^ 55) by lia.
      rewrite N.div_add by (apply N.pow_nonzero; discriminate).
      rewrite N.div_small by exact HL. reflexivity. }
    rewrite E in T. discriminate T.
  - rewrite STRINGBUFMASK_ones, N.land_ones. rewrite STRINGBUFBIT_pow in *.
    replace (2 ^ 55 + L) with (L + 1 * 2 ^ 55) by lia.
    rewrite N.mod_add by (apply N.pow_nonzero; discriminate).
    apply N.mod_small. exact HL.
  - unfold STRINGBUFBIT, two56 in *. lia.
Qed.

Lemma slice_tail (l v : bytes) :
  slice (l ++ v) (N.of_nat (length l)) (N.of_nat (length v)) = Some v.
Proof.
  unfold slice. rewrite app_length.
  replace (N.of_nat (length l) + N.of_nat (length v) <=? N.of_nat (length l + length v)) with true by lia.
  rewrite !Nat2N.id. rewrite skipn_app_exact by reflexivity.
  rewrite firstn_all. reflexivity.
Qed.

Section SetString.
Variables (strict adj : bool).

Theorem set_string_refines pj it v pre sub post p ds dsub :
  N.of_nat (length (pj_strings pj)) < STRINGBUFBIT ->
  pj_tape pj = pre ++ sub ++ post ->
  val_seg (pj_msg pj) (pj_strings pj) strict adj (nlen pre) sub dsub ->
  index_path (pj_msg pj) (pj_strings pj) strict adj (pj_tape pj) (nlen pre) p ->
  denote (pj_msg pj) (pj_strings pj) (pj_tape pj) = Some ds -> iter_on it (nlen pre) sub ->
  let cur := mk_word TagString (STRINGBUFBIT + N.of_nat (length (pj_strings pj))) in
  match set_string pj it v with
  | Ok (pj', it') =>
      is_numstr_doc dsub = true /\
      pj' = {| pj_tape := pre ++ [cur; N.of_nat (length v)] ++ post;
               pj_strings := pj_strings pj ++ v; pj_msg := pj_msg pj |} /\
      denote (pj_msg pj') (pj_strings pj') (pj_tape pj') = upd_docs p (abs_set_scalar (DStr v)) ds /\
      exists ds2, upd_docs p (abs_set_scalar (DStr v)) ds = Some ds2 /\
                  roots_seg (pj_msg pj') (pj_strings pj') strict adj 0 (pj_tape pj') ds2
  | Err => is_numstr_doc dsub = false /\ upd_docs p (abs_set_scalar (DStr v)) ds = None
  | _ => False
  end.
Proof.
  intros HL Ht Hv Hip Hden Hon cur.
  pose proof Hon as (Hoff & Hlen & w & r & -> & Hit & Hcur).
  destruct (val_seg_kind _ _ _ _ _ _ _ _ Hv) as (Kn & _ & _ & K2 & _).
  assert (Ecur : (mk_word TagString STRINGBUFBIT + N.of_nat (length (pj_strings pj))) = cur).
  { unfold cur, mk_word. lia. }
  unfold set_string. rewrite Hit, Kn.
  destruct (is_numstr_doc dsub) eqn:Ens.
  - destruct (K2 eq_refl) as (x & ->). cbn [length] in Hlen. unfold nlen in Hoff, Hlen.
    cbn [app] in Ht. rewrite Ecur.
    rewrite (wr_app pj (i_len it) (i_off it - 1) pre w (x :: post) cur Ht) by lia.
    cbn [obind].
    rewrite (wr_app _ (i_len it) (i_off it) (pre ++ [cur]) x post (N.of_nat (length v))).
    2:{ cbn [with_tape pj_tape]. rewrite <- app_assoc. reflexivity. }
    2:{ rewrite app_length. cbn [length]. lia. }
    2:{ lia. }
    cbn [obind with_tape pj_tape pj_strings pj_msg].
    split; [reflexivity|]. split; [rewrite <- app_assoc; reflexivity|].
    rewrite <- app_assoc. cbn [app].
    change (pre ++ w :: x :: post) with (pre ++ [w; x] ++ post) in Ht.
    rewrite Ht in Hden, Hip.
    (* move the old facts to the extended string buffer *)
    pose proof (denote_roots_seg _ _ _ _ Hden) as Hr0.
    assert (Hne : ds <> []).
    { pose proof (refine_get strict adj _ _ _ _ _ _ _ _ Hden Hip Hv) as Hg.
      intros ->. destruct p as [|n q]; cbn in Hg; [discriminate|]. destruct n; discriminate. }
    pose proof (roots_seg_denote _ _ _ _ _ _ (roots_mono _ _ v _ _ _ _ _ Hr0) Hne) as Hden'.
    pose proof (index_path_mono _ _ v _ _ _ _ _ Hip) as Hip'.
    pose proof (proj1 (seg_mono _ _ v _ _) _ _ _ Hv) as Hv'.
    apply (refine_core strict adj _ _ pre [w; x] post p ds dsub
             [cur; N.of_nat (length v)] (DStr v) (abs_set_scalar (DStr v)) Hden' Hip' Hv').
    + exists [cur; N.of_nat (length v)], []. split; [reflexivity|]. repeat split; [|constructor].
      destruct (strbuf_payload _ HL) as (B1 & B2 & B3).
      apply vs_str.
      * unfold cur. apply word_tag_mk. exact B3.
      * unfold cur. rewrite word_val_mk by exact B3.
        unfold string_at. rewrite B1, B2. apply slice_tail.
    + unfold abs_set_scalar. rewrite Ens. reflexivity.
  - split; [reflexivity|]. rewrite Ht in Hden, Hip.
    apply (refine_none strict adj _ _ pre (w :: r) post p ds dsub _ Hden Hip Hv).
    unfold abs_set_scalar. rewrite Ens. reflexivity.
Qed.

End SetString.
