(* TapeWF.v — the executable well-formedness check of Model/WF.v computes
   exactly the strict segment relations (goal E / C17). *)
From SJ Require Import Model.Base Model.RefTables Spec.Json Spec.EditSpec Model.Tape
     Model.Iter Model.Walk Model.Edit Model.WF.
From SJ Require Import Proofs.TapeBase Proofs.TapeSeg Proofs.TapeDen Proofs.TapePath
     Proofs.TapeEdit.
From Coq Require Import ZifyBool ZifyN ZifyNat.
Open Scope N_scope.

(* ------------------------------------------------------------------ *)
(* unfolding                                                           *)

Section WFUnfold.
Variables (nmsg nstr : N) (nops : bool).

Lemma nop_run_S f i rest target :
  nop_run (S f) i rest target =
    if i =? target then Some (i, rest)
    else match rest with
         | w :: r => if (word_tag w =? TagNop) && (word_val w =? target - i) && (i <? target)
                     then nop_run f (i + 1) r target else None
         | [] => None
         end.
Proof. reflexivity. Qed.

Lemma skip_runs_S f i rest :
  skip_runs nops (S f) i rest =
    match rest with
    | w :: _ =>
      if word_tag w =? TagNop then
        if negb nops || (word_val w =? 0) then None
        else match nop_run (S (N.to_nat (word_val w))) i rest (i + word_val w) with
             | Some (j, r) => skip_runs nops f j r
             | None => None
             end
      else Some (i, rest)
    | [] => Some (i, rest)
    end.
Proof. reflexivity. Qed.

Lemma wf_value_S f i rest :
  wf_value nmsg nstr nops (S f) i rest =
    match rest with
    | [] => None
    | w :: r =>
      let t := word_tag w in
      let v := word_val w in
      if t =? TagString then
        match r with len :: r' => if str_ok nmsg nstr v len then Some (i + 2, r') else None | [] => None end
      else if (t =? TagInteger) || (t =? TagUint) then
        match r with _ :: r' => if v =? 0 then Some (i + 2, r') else None | [] => None end
      else if t =? TagFloat then
        match r with _ :: r' => Some (i + 2, r') | [] => None end
      else if (t =? TagNull) || (t =? TagBoolTrue) || (t =? TagBoolFalse) then
        if v =? 0 then Some (i + 1, r) else None
      else if t =? TagArrayStart then wf_elems nmsg nstr nops f i (i + 1) r v
      else if t =? TagObjectStart then wf_members nmsg nstr nops f i (i + 1) r v
      else None
    end.
Proof. reflexivity. Qed.

Lemma wf_elems_S f start i rest endp1 :
  wf_elems nmsg nstr nops (S f) start i rest endp1 =
    match skip_runs nops f i rest with
    | None => None
    | Some (i', rest') =>
      match rest' with
      | [] => None
      | w :: r =>
        if word_tag w =? TagArrayEnd then
          if (word_val w =? start) && (i' + 1 =? endp1) then Some (i' + 1, r) else None
        else match wf_value nmsg nstr nops f i' rest' with
             | Some (j, r') => if j <? endp1 then wf_elems nmsg nstr nops f start j r' endp1 else None
             | None => None
             end
      end
    end.
Proof. reflexivity. Qed.

Lemma wf_members_S f start i rest endp1 :
  wf_members nmsg nstr nops (S f) start i rest endp1 =
    match skip_runs nops f i rest with
    | None => None
    | Some (i', rest') =>
      match rest' with
      | [] => None
      | w :: r =>
        if word_tag w =? TagObjectEnd then
          if (word_val w =? start) && (i' + 1 =? endp1) then Some (i' + 1, r) else None
        else if word_tag w =? TagString then
          match r with
          | len :: r1 =>
            if str_ok nmsg nstr (word_val w) len then
              match skip_runs nops f (i' + 2) r1 with
              | Some (i2, r2) =>
                match wf_value nmsg nstr nops f i2 r2 with
                | Some (j, r') => if j <? endp1 then wf_members nmsg nstr nops f start j r' endp1 else None
                | None => None
                end
              | None => None
              end
            else None
          | [] => None
          end
        else None
      end
    end.
Proof. reflexivity. Qed.

Lemma wf_roots_S f i rest :
  wf_roots nmsg nstr nops (S f) i rest =
    match skip_runs nops f i rest with
    | None => false
    | Some (i', rest') =>
      match rest' with
      | [] => true
      | w :: r =>
        if word_tag w =? TagRoot then
          match skip_runs nops f (i' + 1) r with
          | Some (i1, r1) =>
            match wf_value nmsg nstr nops f i1 r1 with
            | Some (j, r2) =>
              match skip_runs nops f j r2 with
              | Some (j', c :: r3) =>
                (word_tag c =? TagRoot) && (word_val c =? i') && (word_val w =? j' + 1) &&
                wf_roots nmsg nstr nops f (j' + 1) r3
              | _ => false
              end
            | None => false
            end
          | None => false
          end
        else false
      end
    end.
Proof. reflexivity. Qed.

End WFUnfold.

(* ------------------------------------------------------------------ *)
(* NOP runs                                                            *)

Lemma nop_run_seg f : forall i rest target j r,
  nop_run f i rest target = Some (j, r) -> i <= target ->
  exists run, rest = run ++ r /\ j = target /\ nlen run = target - i /\
    forall idx w, nth_error run idx = Some w ->
      word_tag w = TagNop /\ word_val w = N.of_nat (length run - idx).
Proof.
  induction f as [|f IH]; intros i rest target j r H Hle; [discriminate H|].
  rewrite nop_run_S in H. destruct (i =? target) eqn:Ei.
  - injection H as <- <-. exists []. repeat split; try (rewrite nlen_nil); try lia;
    destruct idx; discriminate.
  - destruct rest as [|w rest0]; [discriminate H|].
    destruct ((word_tag w =? TagNop) && (word_val w =? target - i) && (i <? target)) eqn:Ec;
      [|discriminate H].
    apply IH in H; [|lia]. destruct H as (run & -> & -> & Hl & Hrun).
    exists (w :: run). split; [reflexivity|]. split; [reflexivity|]. split; [revert Hl; nl|].
    intros [|idx] w' Hn.
    + cbn [nth_error] in Hn. injection Hn as <-. split; [lia|]. revert Hl. nl.
    + cbn [nth_error] in Hn. destruct (Hrun idx w' Hn) as [Ht Hv]. split; [exact Ht|].
      rewrite Hv. cbn [length]. lia.
Qed.

Lemma nop_run_ok run : forall f i tail,
  (forall idx w, nth_error run idx = Some w ->
      word_tag w = TagNop /\ word_val w = N.of_nat (length run - idx)) ->
  (length run < f)%nat ->
  nop_run f i (run ++ tail) (i + nlen run) = Some (i + nlen run, tail).
Proof.
  induction run as [|w run IH]; intros f i tail Hrun Hf.
  - destruct f as [|f]; [lia|]. rewrite nop_run_S. rewrite nlen_nil, N.add_0_r.
    rewrite N.eqb_refl. reflexivity.
  - destruct f as [|f]; [lia|]. rewrite nop_run_S.
    replace (i =? i + nlen (w :: run)) with false by nl.
    cbn [app]. destruct (Hrun 0%nat w eq_refl) as [Ht Hv].
    replace ((word_tag w =? TagNop) && (word_val w =? i + nlen (w :: run) - i) &&
             (i <? i + nlen (w :: run))) with true.
    2:{ rewrite Ht, Hv. cbn [length]. change (TagNop =? TagNop) with true. nl. }
    replace (i + nlen (w :: run)) with (i + 1 + nlen run) by nl.
    apply IH.
    + intros idx w' Hn. destruct (Hrun (S idx) w' Hn) as [Ht' Hv']. split; [exact Ht'|].
      rewrite Hv'. cbn [length]. lia.
    + cbn [length] in Hf. lia.
Qed.

Lemma skip_runs_jump f i w junk X :
  is_run (w :: junk) -> word_val w = nlen junk + 1 ->
  skip_runs true (S f) i (w :: junk ++ X) = skip_runs true f (i + nlen junk + 1) X.
Proof.
  intros Hrun Hv. rewrite skip_runs_S.
  destruct (Hrun 0%nat w eq_refl) as [Ht _]. rewrite Ht. change (TagNop =? TagNop) with true.
  cbv iota. cbn [negb orb].
  replace (word_val w =? 0) with false by lia.
  change (w :: junk ++ X) with ((w :: junk) ++ X).
  replace (i + word_val w) with (i + nlen (w :: junk)) by nl.
  rewrite nop_run_ok.
  - f_equal. nl.
  - exact Hrun.
  - rewrite Hv. nl.
Qed.

Lemma skip_runs_stop nops f i X : head_not_nop X -> skip_runs nops (S f) i X = Some (i, X).
Proof.
  intros H. rewrite skip_runs_S. destruct X as [|w r]; [reflexivity|].
  cbn [head_not_nop] in H. destruct (word_tag w =? TagNop) eqn:E; [lia|reflexivity].
Qed.

Lemma nops_seg_skip_runs n : nops_seg true n -> forall f i tail,
  (length n < f)%nat -> head_not_nop tail ->
  skip_runs true f i (n ++ tail) = Some (i + nlen n, tail).
Proof.
  induction 1 as [|w junk rest Ht Hv Hrun Hrest IH]; intros f i tail Hf Hhd.
  - destruct f as [|f]; [lia|]. cbn [app]. rewrite skip_runs_stop by exact Hhd.
    rewrite nlen_nil, N.add_0_r. reflexivity.
  - destruct f as [|f]; [lia|]. cbn [app]. rewrite <- app_assoc.
    rewrite skip_runs_jump by auto.
    rewrite IH by (auto; nl). f_equal. f_equal. nl.
Qed.

Lemma skip_runs_seg f : forall i rest i' rest',
  skip_runs true f i rest = Some (i', rest') ->
  exists n, rest = n ++ rest' /\ i' = i + nlen n /\ nops_seg true n /\ head_not_nop rest'.
Proof.
  induction f as [|f IH]; intros i rest i' rest' H; [discriminate H|].
  rewrite skip_runs_S in H. destruct rest as [|w r0].
  - injection H as <- <-. exists []. repeat split; [rewrite nlen_nil; lia|constructor].
  - destruct (word_tag w =? TagNop) eqn:Et.
    + cbn [negb orb] in H. destruct (word_val w =? 0) eqn:E0; [discriminate H|].
      dmatch H. destruct p as [j r].
      apply nop_run_seg in E; [|lia]. destruct E as (run & Er & -> & Hl & Hrun).
      apply IH in H. destruct H as (n' & -> & -> & Hn' & Hhd).
      destruct run as [|w' junk]; [rewrite nlen_nil in Hl; lia|].
      cbn [app] in Er. injection Er as <- ->.
      exists ((w :: junk) ++ n'). split; [leq|]. split; [revert Hl; nl|]. split; [|exact Hhd].
      cbn [app]. apply ns_cons; auto.
      * apply N.eqb_eq. exact Et.
      * revert Hl. nl.
    + injection H as <- <-. exists []. repeat split; [rewrite nlen_nil; lia|constructor|].
      cbn. apply N.eqb_neq. exact Et.
Qed.

(* without NOPs allowed the check only succeeds when there is no NOP *)
Lemma skip_runs_false f i rest x :
  skip_runs false f i rest = Some x -> x = (i, rest) /\ head_not_nop rest.
Proof.
  destruct f as [|f]; [discriminate|]. rewrite skip_runs_S.
  destruct rest as [|w r]; [intros H; injection H as <-; split; [reflexivity|exact I]|].
  destruct (word_tag w =? TagNop) eqn:Et; [discriminate|].
  intros H; injection H as <-. split; [reflexivity|]. cbn. apply N.eqb_neq. exact Et.
Qed.

(* ------------------------------------------------------------------ *)
(* fuel monotonicity                                                   *)

Section WFMono.
Variables (nmsg nstr : N) (nops : bool).
Notation wf_value := (wf_value nmsg nstr nops).
Notation wf_elems := (wf_elems nmsg nstr nops).
Notation wf_members := (wf_members nmsg nstr nops).
Notation wf_roots := (wf_roots nmsg nstr nops).

Lemma skip_runs_mono f : forall f' i rest r,
  (f <= f')%nat -> skip_runs nops f i rest = Some r -> skip_runs nops f' i rest = Some r.
Proof.
  induction f as [|f IH]; intros f' i rest r Hle H; [discriminate H|].
  destruct f' as [|f']; [lia|]. rewrite skip_runs_S in *.
  destruct rest as [|w rest0]; [exact H|].
  destruct (word_tag w =? TagNop); [|exact H].
  destruct (negb nops || (word_val w =? 0)); [discriminate H|].
  dmatch H. destruct p as [j r0]. apply IH; [lia|exact H].
Qed.

Lemma wf_mono f :
  (forall f' i rest r, (f <= f')%nat ->
     wf_value f i rest = Some r -> wf_value f' i rest = Some r) /\
  (forall f' s i rest e r, (f <= f')%nat ->
     wf_elems f s i rest e = Some r -> wf_elems f' s i rest e = Some r) /\
  (forall f' s i rest e r, (f <= f')%nat ->
     wf_members f s i rest e = Some r -> wf_members f' s i rest e = Some r).
Proof.
  induction f as [|f (IHv & IHe & IHm)].
  - repeat split; intros; discriminate.
  - repeat split.
    + intros f' i rest r Hle H. destruct f' as [|f']; [lia|].
      assert (Hle' : (f <= f')%nat) by lia.
      rewrite wf_value_S in *. cbv zeta in *.
      destruct rest as [|w r0]; [discriminate H|].
      repeat (match goal with |- context [if ?c then _ else _] =>
                lazymatch c with
                | (_ =? TagArrayStart) => fail
                | (_ =? TagObjectStart) => fail
                | _ => destruct c eqn:?; [exact H|]
                end end).
      destruct (word_tag w =? TagArrayStart) eqn:Ea; [apply IHe; assumption|].
      destruct (word_tag w =? TagObjectStart) eqn:Eo; [apply IHm; assumption|exact H].
    + intros f' s i rest e r Hle H. destruct f' as [|f']; [lia|].
      assert (Hle' : (f <= f')%nat) by lia.
      rewrite wf_elems_S in *.
      dmatch H. apply skip_runs_mono with (f' := f') in E; [|exact Hle']. rewrite E.
      destruct p as [i' rest']. destruct rest' as [|w r0]; [discriminate H|].
      destruct (word_tag w =? TagArrayEnd) eqn:Ee; [exact H|].
      dmatch H. apply IHv with (f' := f') in E0; [|exact Hle']. rewrite E0.
      destruct p as [j r']. destruct (j <? e); [|discriminate H]. apply IHe; assumption.
    + intros f' s i rest e r Hle H. destruct f' as [|f']; [lia|].
      assert (Hle' : (f <= f')%nat) by lia.
      rewrite wf_members_S in *.
      dmatch H. apply skip_runs_mono with (f' := f') in E; [|exact Hle']. rewrite E.
      destruct p as [i' rest']. destruct rest' as [|w r0]; [discriminate H|].
      destruct (word_tag w =? TagObjectEnd) eqn:Ee; [exact H|].
      destruct (word_tag w =? TagString) eqn:Es; [|discriminate H].
      destruct r0 as [|len r1]; [discriminate H|].
      destruct (str_ok nmsg nstr (word_val w) len); [|discriminate H].
      dmatch H. apply skip_runs_mono with (f' := f') in E0; [|exact Hle']. rewrite E0.
      destruct p as [i2 r2].
      dmatch H. apply IHv with (f' := f') in E1; [|exact Hle']. rewrite E1.
      destruct p as [j r']. destruct (j <? e); [|discriminate H]. apply IHm; assumption.
Qed.

Lemma wf_value_mono f f' i rest r : (f <= f')%nat ->
  wf_value f i rest = Some r -> wf_value f' i rest = Some r.
Proof. intros. eapply (proj1 (wf_mono f)); eauto. Qed.
Lemma wf_elems_mono f f' s i rest e r : (f <= f')%nat ->
  wf_elems f s i rest e = Some r -> wf_elems f' s i rest e = Some r.
Proof. intros. eapply (proj1 (proj2 (wf_mono f))); eauto. Qed.
Lemma wf_members_mono f f' s i rest e r : (f <= f')%nat ->
  wf_members f s i rest e = Some r -> wf_members f' s i rest e = Some r.
Proof. intros. eapply (proj2 (proj2 (wf_mono f))); eauto. Qed.

Lemma wf_roots_mono f : forall f' i rest, (f <= f')%nat ->
  wf_roots f i rest = true -> wf_roots f' i rest = true.
Proof.
  induction f as [|f IH]; intros f' i rest Hle H; [discriminate H|].
  destruct f' as [|f']; [lia|].
  assert (Hle' : (f <= f')%nat) by lia.
  rewrite wf_roots_S in *.
  dmatch H. apply skip_runs_mono with (f' := f') in E; [|exact Hle']. rewrite E.
  destruct p as [i' rest']. destruct rest' as [|w r0]; [exact H|].
  destruct (word_tag w =? TagRoot) eqn:Er; [|discriminate H].
  dmatch H. apply skip_runs_mono with (f' := f') in E0; [|exact Hle']. rewrite E0.
  destruct p as [i1 r1].
  dmatch H. apply wf_value_mono with (f' := f') in E1; [|exact Hle']. rewrite E1.
  destruct p as [j r2].
  dmatch H. apply skip_runs_mono with (f' := f') in E2; [|exact Hle']. rewrite E2.
  destruct p as [j' l3]. destruct l3 as [|c r3]; [discriminate H|].
  apply andb_true_iff in H. destruct H as [H1 H2]. rewrite H1. cbn [andb].
  apply IH; [exact Hle'|exact H2].
Qed.

End WFMono.

(* ------------------------------------------------------------------ *)
(* strict segments => the check succeeds                               *)

Lemma string_at_str_ok msg strings v len s :
  string_at msg strings v len = Some s ->
  str_ok (N.of_nat (length msg)) (N.of_nat (length strings)) v len = true.
Proof.
  unfold string_at, str_ok, slice.
  destruct (N.land v STRINGBUFBIT =? 0).
  - destruct (v + len <=? N.of_nat (length msg)); [reflexivity|discriminate].
  - destruct (N.land v STRINGBUFMASK + len <=? N.of_nat (length strings)); [reflexivity|discriminate].
Qed.

Lemma str_ok_string_at msg strings v len :
  str_ok (N.of_nat (length msg)) (N.of_nat (length strings)) v len = true ->
  exists s, string_at msg strings v len = Some s.
Proof.
  unfold string_at, str_ok, slice.
  destruct (N.land v STRINGBUFBIT =? 0); intros ->; eexists; reflexivity.
Qed.

Section SegWF.
Variables (msg strings : bytes) (adj : bool).
Notation nmsg := (N.of_nat (length msg)).
Notation nstr := (N.of_nat (length strings)).
Notation val_seg := (val_seg msg strings true adj).
Notation items := (items msg strings true adj).
Notation mitems := (mitems msg strings true adj).
Notation nops_seg := (nops_seg true).
Notation roots_seg := (roots_seg msg strings true adj).
Notation wf_value := (wf_value nmsg nstr true).
Notation wf_elems := (wf_elems nmsg nstr true).
Notation wf_members := (wf_members nmsg nstr true).
Notation wf_roots := (wf_roots nmsg nstr true).

Lemma wf_elems_jump f s i w junk rest e x :
  is_run (w :: junk) -> word_val w = nlen junk + 1 ->
  wf_elems f s (i + nlen junk + 1) rest e = Some x ->
  wf_elems (S f) s i (w :: junk ++ rest) e = Some x.
Proof.
  intros Hrun Hv H. destruct f as [|f]; [discriminate H|].
  rewrite wf_elems_S in H. rewrite wf_elems_S. rewrite skip_runs_jump by assumption.
  dmatch H. destruct p as [i' rest'].
  destruct rest' as [|w' r]; [discriminate H|].
  destruct (word_tag w' =? TagArrayEnd) eqn:Ee; [exact H|].
  dmatch H. destruct p as [j r'].
  rewrite (wf_value_mono _ _ _ f (S f) _ _ _ (Nat.le_succ_diag_r f) E0).
  destruct (j <? e); [|discriminate H].
  apply wf_elems_mono with (f := f); [lia|exact H].
Qed.

Lemma wf_members_jump f s i w junk rest e x :
  is_run (w :: junk) -> word_val w = nlen junk + 1 ->
  wf_members f s (i + nlen junk + 1) rest e = Some x ->
  wf_members (S f) s i (w :: junk ++ rest) e = Some x.
Proof.
  intros Hrun Hv H. destruct f as [|f]; [discriminate H|].
  rewrite wf_members_S in H. rewrite wf_members_S. rewrite skip_runs_jump by assumption.
  dmatch H. destruct p as [i' rest'].
  destruct rest' as [|w' r]; [discriminate H|].
  destruct (word_tag w' =? TagObjectEnd) eqn:Ee; [exact H|].
  destruct (word_tag w' =? TagString) eqn:Es; [|discriminate H].
  destruct r as [|len r1]; [discriminate H|].
  destruct (str_ok nmsg nstr (word_val w') len); [|discriminate H].
  dmatch H. destruct p as [i2 r2].
  rewrite (skip_runs_mono true f (S f) _ _ _ (Nat.le_succ_diag_r f) E0).
  dmatch H. destruct p as [j r'].
  rewrite (wf_value_mono _ _ _ f (S f) _ _ _ (Nat.le_succ_diag_r f) E1).
  destruct (j <? e); [|discriminate H].
  apply wf_members_mono with (f := f); [lia|exact H].
Qed.

Lemma seg_wf :
  (forall i v d, val_seg i v d -> forall f tail, (length v < f)%nat ->
     wf_value f i (v ++ tail) = Some (i + nlen v, tail)) /\
  (forall i b l, items i b l -> forall f s e tail endp1,
     word_tag e = TagArrayEnd -> word_val e = s -> endp1 = i + nlen b + 1 ->
     (length b + 1 < f)%nat ->
     wf_elems f s i (b ++ e :: tail) endp1 = Some (endp1, tail)) /\
  (forall i b l, mitems i b l -> forall f s e tail endp1,
     word_tag e = TagObjectEnd -> word_val e = s -> endp1 = i + nlen b + 1 ->
     (length b + 1 < f)%nat ->
     wf_members f s i (b ++ e :: tail) endp1 = Some (endp1, tail)).
Proof.
  apply seg_mutind.
  - intros i w len s Ht Hs f tail Hf. destruct f as [|f]; [lia|].
    cbn [app]. rewrite wf_value_S. cbv zeta. rewrite Ht. tageq.
    rewrite (string_at_str_ok _ _ _ _ _ Hs). reflexivity.
  - intros i w x Ht Hz f tail Hf. destruct f as [|f]; [lia|].
    cbn [app]. rewrite wf_value_S. cbv zeta. rewrite Ht. tageq. rewrite (Hz eq_refl). reflexivity.
  - intros i w x Ht Hz f tail Hf. destruct f as [|f]; [lia|].
    cbn [app]. rewrite wf_value_S. cbv zeta. rewrite Ht. tageq. rewrite (Hz eq_refl). reflexivity.
  - intros i w x Ht f tail Hf. destruct f as [|f]; [lia|].
    cbn [app]. rewrite wf_value_S. cbv zeta. rewrite Ht. tageq. reflexivity.
  - intros i w Ht Hz f tail Hf. destruct f as [|f]; [lia|].
    cbn [app]. rewrite wf_value_S. cbv zeta. rewrite Ht. tageq. rewrite (Hz eq_refl). reflexivity.
  - intros i w Ht Hz f tail Hf. destruct f as [|f]; [lia|].
    cbn [app]. rewrite wf_value_S. cbv zeta. rewrite Ht. tageq. rewrite (Hz eq_refl). reflexivity.
  - intros i w Ht Hz f tail Hf. destruct f as [|f]; [lia|].
    cbn [app]. rewrite wf_value_S. cbv zeta. rewrite Ht. tageq. rewrite (Hz eq_refl). reflexivity.
  - (* array *) intros i w body e l Ht _ IH He Hv Hs f tail Hf. destruct f as [|f]; [lia|].
    cbn [app]. rewrite wf_value_S. cbv zeta. rewrite Ht. tageq.
    rewrite <- app_assoc. cbn [app].
    rewrite (IH f i e tail (word_val w) He (Hs eq_refl)) by (try (rewrite Hv); revert Hf; nl).
    f_equal. f_equal. rewrite Hv. nl.
  - (* object *) intros i w body e l Ht _ IH He Hv Hs f tail Hf. destruct f as [|f]; [lia|].
    cbn [app]. rewrite wf_value_S. cbv zeta. rewrite Ht. tageq.
    rewrite <- app_assoc. cbn [app].
    rewrite (IH f i e tail (word_val w) He (Hs eq_refl)) by (try (rewrite Hv); revert Hf; nl).
    f_equal. f_equal. rewrite Hv. nl.
  - (* items nil *) intros i f s e tail endp1 He Hs -> Hf.
    destruct f as [|f]; [lia|]. destruct f as [|f]; [cbn in Hf; lia|].
    cbn [app]. rewrite wf_elems_S. rewrite skip_runs_stop by (cbn; rewrite He; discriminate).
    rewrite He. tageq. rewrite Hs. rewrite nlen_nil.
    replace ((s =? s) && (i + 1 =? i + 0 + 1)) with true by lia.
    f_equal. f_equal. lia.
  - (* items nop *) intros i w junk rest l Ht Hv Hrun _ IH f s e tail endp1 He Hs -> Hf.
    destruct f as [|f]; [lia|]. cbn [app]. rewrite <- app_assoc.
    apply wf_elems_jump; [exact (Hrun eq_refl)|exact Hv|].
    apply IH; auto; [nl|revert Hf; nl].
  - (* items val *) intros i v d rest l Hval IHv _ IHr f s e tail endp1 He Hs -> Hf.
    destruct f as [|f]; [lia|]. rewrite <- app_assoc. rewrite wf_elems_S.
    pose proof (val_seg_nonempty _ _ _ _ _ _ _ Hval) as Hne.
    destruct f as [|f]; [revert Hf; nl|].
    rewrite skip_runs_stop by (eapply val_seg_head_not_nop; exact Hval).
    destruct (val_seg_head _ _ _ _ _ _ _ Hval) as (w0 & r0 & Ev & Htag).
    subst v. cbn [app].
    replace (word_tag w0 =? TagArrayEnd) with false
      by (symmetry; apply N.eqb_neq; intros E; rewrite E in Htag; discriminate Htag).
    change (w0 :: r0 ++ rest ++ e :: tail) with ((w0 :: r0) ++ rest ++ e :: tail).
    rewrite (IHv (S f) (rest ++ e :: tail)) by (revert Hf; nl).
    match goal with |- context [if ?c then _ else _] => replace c with true by nl end.
    apply IHr; auto; [nl|revert Hf Hne; nl].
  - (* mitems nil *) intros i f s e tail endp1 He Hs -> Hf.
    destruct f as [|f]; [lia|]. destruct f as [|f]; [cbn in Hf; lia|].
    cbn [app]. rewrite wf_members_S. rewrite skip_runs_stop by (cbn; rewrite He; discriminate).
    rewrite He. tageq. rewrite Hs. rewrite nlen_nil.
    replace ((s =? s) && (i + 1 =? i + 0 + 1)) with true by lia.
    f_equal. f_equal. lia.
  - (* mitems nop *) intros i w junk rest l Ht Hv Hrun _ IH f s e tail endp1 He Hs -> Hf.
    destruct f as [|f]; [lia|]. cbn [app]. rewrite <- app_assoc.
    apply wf_members_jump; [exact (Hrun eq_refl)|exact Hv|].
    apply IH; auto; [nl|revert Hf; nl].
  - (* mitems member *)
    intros i w len k n2 v d rest l Ht Hk Hn2 _ Hval IHv _ IHr f s e tail endp1 He Hs -> Hf.
    destruct f as [|f]; [lia|]. cbn [app]. rewrite wf_members_S.
    destruct f as [|f]; [revert Hf; nl|].
    rewrite skip_runs_stop by (cbn; rewrite Ht; discriminate).
    rewrite Ht. tageq. rewrite (string_at_str_ok _ _ _ _ _ Hk).
    pose proof (val_seg_nonempty _ _ _ _ _ _ _ Hval) as Hne.
    rewrite <- !app_assoc.
    rewrite (nops_seg_skip_runs n2 Hn2 (S f) (i + 2) (v ++ rest ++ e :: tail))
      by (try (eapply val_seg_head_not_nop; exact Hval); revert Hf; nl).
    rewrite (IHv (S f) (rest ++ e :: tail)) by (revert Hf; nl).
    match goal with |- context [if ?c then _ else _] => replace c with true by nl end.
    apply IHr; auto; [nl|revert Hf Hne; nl].
Qed.

End SegWF.

(* ------------------------------------------------------------------ *)
(* roots: strict segments => wf_roots                                  *)

Section RootsWF.
Variables (msg strings : bytes) (adj : bool).
Notation nmsg := (N.of_nat (length msg)).
Notation nstr := (N.of_nat (length strings)).
Notation val_seg := (val_seg msg strings true adj).
Notation nops_seg := (nops_seg true).
Notation roots_seg := (roots_seg msg strings true adj).
Notation wf_value := (wf_value nmsg nstr true).
Notation wf_roots := (wf_roots nmsg nstr true).

Lemma wf_roots_jump f i w junk rest :
  is_run (w :: junk) -> word_val w = nlen junk + 1 ->
  wf_roots f (i + nlen junk + 1) rest = true ->
  wf_roots (S f) i (w :: junk ++ rest) = true.
Proof.
  intros Hrun Hv H. destruct f as [|f]; [discriminate H|].
  rewrite wf_roots_S in H. rewrite wf_roots_S. rewrite skip_runs_jump by assumption.
  dmatch H. destruct p as [i' rest'].
  destruct rest' as [|w' r]; [exact H|].
  destruct (word_tag w' =? TagRoot) eqn:Er; [|discriminate H].
  dmatch H. destruct p as [i1 r1].
  rewrite (skip_runs_mono true f (S f) _ _ _ (Nat.le_succ_diag_r f) E0).
  dmatch H. destruct p as [j r2].
  rewrite (wf_value_mono _ _ _ f (S f) _ _ _ (Nat.le_succ_diag_r f) E1).
  dmatch H. destruct p as [j' l3].
  rewrite (skip_runs_mono true f (S f) _ _ _ (Nat.le_succ_diag_r f) E2).
  destruct l3 as [|c r3]; [discriminate H|].
  apply andb_true_iff in H. destruct H as [H1 H2]. rewrite H1. cbn [andb].
  apply wf_roots_mono with (f := f); [lia|exact H2].
Qed.

Lemma roots_wf : forall i rest l, roots_seg i rest l -> forall f,
  (length rest + 1 < f)%nat -> wf_roots f i rest = true.
Proof.
  induction 1 as [i|i w rest Hs Ht Hv|i w junk rest l Ht Hv Hrun Hr IH
                  |i w n1 v d n2 c rest l Ht Hn1 Hval Hn2 Hc Hcv Hwv Hr IH]; intros f Hf.
  - destruct f as [|[|f]]; try (cbn in Hf; lia). reflexivity.
  - discriminate Hs.
  - destruct f as [|f]; [lia|].
    apply wf_roots_jump; [exact (Hrun eq_refl)|exact Hv|]. apply IH. revert Hf; nl.
  - destruct f as [|f]; [lia|].
    pose proof (val_seg_nonempty _ _ _ _ _ _ _ Hval) as Hne.
    destruct f as [|f]; [revert Hf; nl|].
    rewrite wf_roots_S. rewrite skip_runs_stop by (cbn; rewrite Ht; discriminate).
    rewrite Ht. tageq.
    rewrite (nops_seg_skip_runs n1 Hn1 (S f) (i + 1) (v ++ n2 ++ c :: rest))
      by (try (eapply val_seg_head_not_nop; exact Hval); revert Hf; nl).
    rewrite (proj1 (seg_wf msg strings adj) _ _ _ Hval (S f) (n2 ++ c :: rest))
      by (revert Hf; nl).
    rewrite (nops_seg_skip_runs n2 Hn2 (S f) _ (c :: rest))
      by (try (cbn; rewrite Hc; discriminate); revert Hf; nl).
    rewrite Hc. tageq.
    replace (word_val c =? i) with true by lia.
    replace (word_val w =? i + 1 + nlen n1 + nlen v + nlen n2 + 1) with true by lia.
    cbn [andb]. apply IH. revert Hf Hne; nl.
Qed.

End RootsWF.

Theorem roots_seg_wf_check adj pj ds :
  roots_seg (pj_msg pj) (pj_strings pj) true adj 0 (pj_tape pj) ds -> wf_check true pj = true.
Proof.
  intros H. unfold wf_check. eapply roots_wf; [exact H|lia].
Qed.

(* ------------------------------------------------------------------ *)
(* the check succeeds => strict segments                               *)

Lemma skip_runs_seg' nops f i rest i' rest' :
  skip_runs nops f i rest = Some (i', rest') ->
  exists n, rest = n ++ rest' /\ i' = i + nlen n /\ nops_seg true n /\ head_not_nop rest' /\
            (negb nops = true -> n = []).
Proof.
  destruct nops.
  - intros H. apply skip_runs_seg in H. destruct H as (n & ? & ? & ? & ?).
    exists n. repeat split; auto. discriminate.
  - intros H. apply skip_runs_false in H. destruct H as [E Hh]. injection E as <- <-.
    exists []. repeat split; auto; [rewrite nlen_nil; lia|constructor].
Qed.

Section WFSeg.
Variables (msg strings : bytes) (nops : bool).
Notation nmsg := (N.of_nat (length msg)).
Notation nstr := (N.of_nat (length strings)).
Notation val_seg := (val_seg msg strings true (negb nops)).
Notation items := (items msg strings true (negb nops)).
Notation mitems := (mitems msg strings true (negb nops)).
Notation nops_seg := (nops_seg true).
Notation roots_seg := (roots_seg msg strings true (negb nops)).
Notation wf_value := (wf_value nmsg nstr nops).
Notation wf_elems := (wf_elems nmsg nstr nops).
Notation wf_members := (wf_members nmsg nstr nops).
Notation wf_roots := (wf_roots nmsg nstr nops).

Lemma wf_seg f :
  (forall i rest j rest', wf_value f i rest = Some (j, rest') ->
     exists v d, rest = v ++ rest' /\ j = i + nlen v /\ val_seg i v d) /\
  (forall s i rest endp1 j rest', wf_elems f s i rest endp1 = Some (j, rest') ->
     exists b e l, rest = b ++ e :: rest' /\ j = i + nlen b + 1 /\ j = endp1 /\
       word_tag e = TagArrayEnd /\ word_val e = s /\ items i b l) /\
  (forall s i rest endp1 j rest', wf_members f s i rest endp1 = Some (j, rest') ->
     exists b e l, rest = b ++ e :: rest' /\ j = i + nlen b + 1 /\ j = endp1 /\
       word_tag e = TagObjectEnd /\ word_val e = s /\ mitems i b l).
Proof.
  induction f as [|f (IHv & IHe & IHm)].
  - repeat split; intros; discriminate.
  - repeat split.
    + intros i rest j rest' H. rewrite wf_value_S in H. cbv zeta in H.
      destruct rest as [|w r]; [discriminate H|].
      destruct (word_tag w =? TagString) eqn:Es.
      { apply N.eqb_eq in Es. destruct r as [|len r']; [discriminate H|].
        destruct (str_ok nmsg nstr (word_val w) len) eqn:Hs; [|discriminate H].
        apply str_ok_string_at in Hs. destruct Hs as (s & Hs).
        injection H as <- <-. exists [w; len], (DStr s). repeat split. constructor; assumption. }
      destruct ((word_tag w =? TagInteger) || (word_tag w =? TagUint)) eqn:Ei.
      { destruct r as [|x r']; [discriminate H|].
        destruct (word_val w =? 0) eqn:Ez; [|discriminate H]. injection H as <- <-.
        apply orb_true_iff in Ei. destruct Ei as [Ei|Ei]; apply N.eqb_eq in Ei.
        - exists [w; x], (DNum (NInt (s64 x))). repeat split. constructor; [assumption|lia].
        - exists [w; x], (DNum (NUint x)). repeat split. constructor; [assumption|lia]. }
      destruct (word_tag w =? TagFloat) eqn:Ef.
      { apply N.eqb_eq in Ef. destruct r as [|x r']; [discriminate H|].
        injection H as <- <-. exists [w; x], (DNum (NFloat x (word_val w))). repeat split.
        constructor; assumption. }
      destruct ((word_tag w =? TagNull) || (word_tag w =? TagBoolTrue) || (word_tag w =? TagBoolFalse)) eqn:En.
      { destruct (word_val w =? 0) eqn:Ez; [|discriminate H]. injection H as <- <-.
        apply orb_true_iff in En. destruct En as [En|En]; [apply orb_true_iff in En; destruct En as [En|En]|];
          apply N.eqb_eq in En.
        - exists [w], DNull. repeat split. constructor; [assumption|lia].
        - exists [w], (DBool true). repeat split. constructor; [assumption|lia].
        - exists [w], (DBool false). repeat split. constructor; [assumption|lia]. }
      destruct (word_tag w =? TagArrayStart) eqn:Ea.
      { apply N.eqb_eq in Ea. apply IHe in H.
        destruct H as (b & e & l & -> & -> & Hj & He & Hev & Hit).
        exists (w :: b ++ [e]), (DArr l). repeat split.
        - cbn [app]. rewrite <- app_assoc. reflexivity.
        - nl.
        - apply vs_arr; try assumption; [lia|intros _; exact Hev]. }
      destruct (word_tag w =? TagObjectStart) eqn:Eo; [|discriminate H].
      { apply N.eqb_eq in Eo. apply IHm in H.
        destruct H as (b & e & l & -> & -> & Hj & He & Hev & Hit).
        exists (w :: b ++ [e]), (DObj l). repeat split.
        - cbn [app]. rewrite <- app_assoc. reflexivity.
        - nl.
        - apply vs_obj; try assumption; [lia|intros _; exact Hev]. }
    + intros s i rest endp1 j rest' H. rewrite wf_elems_S in H.
      dmatch H. destruct p as [i' r1]. destruct r1 as [|w r]; [discriminate H|].
      apply skip_runs_seg' in E. destruct E as (n & -> & -> & Hn & Hhd & _).
      destruct (word_tag w =? TagArrayEnd) eqn:Ee.
      { apply N.eqb_eq in Ee.
        destruct ((word_val w =? s) && (i + nlen n + 1 =? endp1)) eqn:Ec; [|discriminate H].
        injection H as <- <-.
        exists n, w, []. split; [reflexivity|]. split; [reflexivity|]. split; [lia|].
        split; [exact Ee|]. split; [lia|].
        rewrite <- (app_nil_r n). apply nops_items; [exact Hn|constructor]. }
      dmatch H. destruct p as [j0 r'].
      destruct (j0 <? endp1) eqn:Ej; [|discriminate H].
      apply IHv in E. destruct E as (v & d & Ev & -> & Hv).
      apply IHe in H. destruct H as (b & e & l' & -> & -> & Hj & He & Hev & Hit).
      exists (n ++ v ++ b), e, (d :: l'). split; [rewrite Ev; leq|]. split; [nl|]. split; [exact Hj|].
      split; [exact He|]. split; [exact Hev|].
      apply nops_items; [exact Hn|]. apply it_val; assumption.
    + intros s i rest endp1 j rest' H. rewrite wf_members_S in H.
      dmatch H. destruct p as [i' r1]. destruct r1 as [|w r]; [discriminate H|].
      apply skip_runs_seg' in E. destruct E as (n & -> & -> & Hn & Hhd & _).
      destruct (word_tag w =? TagObjectEnd) eqn:Ee.
      { apply N.eqb_eq in Ee.
        destruct ((word_val w =? s) && (i + nlen n + 1 =? endp1)) eqn:Ec; [|discriminate H].
        injection H as <- <-.
        exists n, w, []. split; [reflexivity|]. split; [reflexivity|]. split; [lia|].
        split; [exact Ee|]. split; [lia|].
        rewrite <- (app_nil_r n). apply nops_mitems; [exact Hn|constructor]. }
      destruct (word_tag w =? TagString) eqn:Es; [|discriminate H]. apply N.eqb_eq in Es.
      destruct r as [|len r1]; [discriminate H|].
      destruct (str_ok nmsg nstr (word_val w) len) eqn:Hk; [|discriminate H].
      apply str_ok_string_at in Hk. destruct Hk as (k & Hk).
      dmatch H. destruct p as [i2 r2].
      dmatch H. destruct p as [j0 r'].
      destruct (j0 <? endp1) eqn:Ej; [|discriminate H].
      apply IHv in E0. destruct E0 as (v & d & Ev & -> & Hv).
      apply skip_runs_seg' in E. destruct E as (n2 & -> & -> & Hn2 & _ & Hadj).
      apply IHm in H. destruct H as (b & e & l' & -> & -> & Hj & He & Hev & Hit).
      exists (n ++ w :: len :: n2 ++ v ++ b), e, ((k, d) :: l').
      split; [rewrite Ev; leq|]. split; [nl|]. split; [exact Hj|].
      split; [exact He|]. split; [exact Hev|].
      apply nops_mitems; [exact Hn|]. apply mi_mem; assumption.
Qed.

Lemma wf_roots_seg f : forall i rest, wf_roots f i rest = true -> exists l, roots_seg i rest l.
Proof.
  induction f as [|f IH]; intros i rest H; [discriminate H|].
  rewrite wf_roots_S in H.
  dmatch H. destruct p as [i' r1].
  apply skip_runs_seg' in E. destruct E as (n & -> & -> & Hn & Hhd & _).
  destruct r1 as [|w r].
  - exists []. apply nops_roots; [exact Hn|constructor].
  - destruct (word_tag w =? TagRoot) eqn:Er; [|discriminate H]. apply N.eqb_eq in Er.
    dmatch H. destruct p as [i1 r1].
    dmatch H. destruct p as [j r2].
    dmatch H. destruct p as [j' l3]. destruct l3 as [|c r3]; [discriminate H|].
    apply andb_true_iff in H. destruct H as [H1 H2].
    apply andb_true_iff in H1. destruct H1 as [H1 H3].
    apply andb_true_iff in H1. destruct H1 as [H1 H4].
    apply IH in H2. destruct H2 as (l' & Hr).
    apply (proj1 (wf_seg f)) in E0. destruct E0 as (v & d & -> & -> & Hv).
    apply skip_runs_seg' in E. destruct E as (n1 & -> & -> & Hn1 & _ & _).
    apply skip_runs_seg' in E1. destruct E1 as (n2 & E2 & -> & Hn2 & _ & _).
    exists (d :: l'). rewrite E2.
    apply nops_roots; [exact Hn|].
    apply rs_root; try assumption; try lia.
Qed.

End WFSeg.

Theorem wf_check_roots_seg nops pj :
  wf_check nops pj = true ->
  exists ds, roots_seg (pj_msg pj) (pj_strings pj) true (negb nops) 0 (pj_tape pj) ds.
Proof. unfold wf_check. apply wf_roots_seg. Qed.

(* E (second part): a tape that is well-formed without NOPs is well-formed
   with NOPs allowed *)
Theorem wf_check_false_true pj : wf_check false pj = true -> wf_check true pj = true.
Proof.
  intros H. apply wf_check_roots_seg in H. destruct H as (ds & H).
  eapply roots_seg_wf_check. exact H.
Qed.
