(* Stage2Proofs.v — the goto machine of stage 2 simulates the specification's
   recursive descent on every text the specification accepts, when the pending
   increments are the structural positions stage 1 finds in the remaining
   text; the tape words it writes denote the specification's document. *)
From Coq Require Import ZifyBool ZifyN ZifyNat.
From SJ Require Import Model.Base Model.RefTables Spec.Json Model.Number Model.Str Model.Stage1.
From SJ Require Import Proofs.StrArith Proofs.StrProofs Proofs.NumLex Proofs.NumberProofs Proofs.TrimProofs.
From SJ Require Import Model.Stage2 Model.Tape Proofs.AtomProofs Proofs.Stage1Proofs Proofs.Stage2Base.
Open Scope N_scope.

(* what may follow a value inside a container *)
Definition delim_ok (r : bytes) : bool :=
  match r with
  | [] => false
  | b :: _ => let c := b2n b in is_json_ws c || (c =? cCOMMA) || (c =? cRBRACE) || (c =? cRBRACK)
  end.

Lemma delim_ok_rest_ok r : delim_ok r = true -> rest_ok r = true.
Proof.
  destruct r as [|b r]; [discriminate|]. unfold delim_ok, rest_ok, is_eov_byte. cbv zeta.
  destruct (is_json_ws (b2n b)); lia.
Qed.

Lemma delim_ok_follows r : delim_ok r = true -> follows_ok r = true.
Proof.
  destruct r as [|b r]; [discriminate|]. unfold delim_ok, follows_ok, is_markup. cbv zeta.
  destruct (is_json_ws (b2n b)); lia.
Qed.

Lemma skip_ws_delim r b r' : skip_ws r = b :: r' ->
  (b2n b =? cCOMMA) || (b2n b =? cRBRACE) || (b2n b =? cRBRACK) = true -> delim_ok r = true.
Proof.
  destruct r as [|a r0]; [discriminate|]. cbn [skip_ws delim_ok]. cbv zeta.
  destruct (is_json_ws (b2n a)) eqn:E; [reflexivity|].
  intros H. injection H as -> _. intros H. cbn [orb]. lia.
Qed.

Definition closer (c : byte) : Prop := b2n c = cRBRACE \/ b2n c = cRBRACK.

Definition cont_of (ret : N) : label :=
  if ret =? retArray then L_arrCont else if ret =? retObject then L_objCont else L_startContinue.

Definition vlabel (l : label) (ret : N) (cont : label) : Prop :=
  (l = L_objValue /\ ret = retObject /\ cont = L_objCont) \/
  (l = L_arrValue /\ ret = retArray /\ cont = L_arrCont) \/
  (l = L_arrBegin /\ ret = retArray /\ cont = L_arrCont).

Lemma vlabel_cont l ret cont : vlabel l ret cont -> cont = cont_of ret /\ ret < 4.
Proof. intros [(-> & -> & ->)|[(-> & -> & ->)|(-> & -> & ->)]]; split; reflexivity. Qed.

Lemma step_vlabel copy l ret cont m m1 c :
  vlabel l ret cont -> update_char m = UChar m1 c -> (c =? cRBRACK) = false ->
  step copy l m = value_switch copy m1 c ret cont.
Proof.
  intros Hv Hu Hc. rewrite (step_uchar copy l m m1 c Hu).
  destruct Hv as [(-> & -> & ->)|[(-> & -> & ->)|(-> & -> & ->)]]; try reflexivity.
  rewrite Hc. reflexivity.
Qed.

Lemma s64_u64 z : (min_int64 <= z <= max_int64)%Z -> s64 (u64_of_Z z) = z.
Proof.
  unfold min_int64, max_int64, s64, u64_of_Z, two63, two64. intros H.
  destruct (Z.ltb_spec z 0) as [Hn|Hp].
  - assert (E : (z mod 18446744073709551616 = z + 18446744073709551616)%Z).
    { symmetry. apply (Z.mod_unique_pos _ _ (-1)%Z); lia. }
    change (Z.of_N 18446744073709551616) with 18446744073709551616%Z. rewrite E.
    destruct (N.ltb_spec (Z.to_N (z + 18446744073709551616)) 9223372036854775808) as [L|L]; lia.
  - change (Z.of_N 18446744073709551616) with 18446744073709551616%Z.
    rewrite Z.mod_small by lia.
    destruct (N.ltb_spec (Z.to_N z) 9223372036854775808) as [L|L]; lia.
Qed.

Lemma num_spec_shape l n : num_spec l = Some n ->
  match n with
  | NInt z => (min_int64 <= z <= max_int64)%Z
  | NUint _ => True
  | NFloat _ fl => fl = 0 \/ fl = 1
  end.
Proof.
  unfold num_spec.
  set (m := digits_val _ 0). set (fl := dec_to_float _ _ _).
  destruct (nl_frac l), (nl_exp l).
  1-3: destruct (sf_is_finite fl); [|discriminate]; intros H; injection H as <-; left; reflexivity.
  set (v := if nl_neg l then (- m)%Z else m).
  destruct ((min_int64 <=? v)%Z && (v <=? max_int64)%Z) eqn:E1.
  { intros H. injection H as <-. lia. }
  destruct ((0 <=? v)%Z && (v <=? max_uint64)%Z) eqn:E2.
  { intros H. injection H as <-. exact I. }
  destruct (sf_is_finite fl); [|discriminate]. intros H; injection H as <-. right; reflexivity.
Qed.

Section Sim.
Variable copy : bool.
Variable msg : bytes.
Hypothesis Hlen : N.of_nat (length msg) < STRINGBUFBIT.
Variable stF : s1st.

(* ------------------------------------------------------------------ *)
(* invariants                                                          *)

Record mwf (m : m2) : Prop := {
  wf_whole : whole m = msg;
  wf_sfuel : sfuel m = S (S (length msg));
  wf_tlen : tlen m = N.of_nat (length (tape_rev m));
  wf_slen : slen m = N.of_nat (length (strs_rev m));
  wf_rb : noempty (rbufs m)
}.

(* the machine has consumed the structurals before [s]; the pending
   increments are those of the structural positions of [s] *)
Definition at_text (m : m2) (s : bytes) (pr : bool) : Prop :=
  exists pre, msg = pre ++ s /\
  (N.to_nat (idx1 m) <= length pre)%nat /\
  (idx1 m <> 0 -> cur m = skipn (N.to_nat (idx1 m) - 1) msg) /\
  slen m <= N.of_nat (length pre) /\
  fst (s1_fold false (OutS pr) (length pre) s) = stF /\
  pending m = incs (N.to_nat (idx1 m)) (snd (s1_fold false (OutS pr) (length pre) s)).

Definition tl_ok (m : m2) (k : N) : Prop := tlen m + k <= 2 * idx1 m + 1.

Lemma tl_ok_weaken m k k' : tl_ok m k -> k' <= k -> tl_ok m k'.
Proof. unfold tl_ok. lia. Qed.

Lemma at_text_idx m s pr : at_text m s pr -> idx1 m <= N.of_nat (length msg) - N.of_nat (length s).
Proof.
  intros (pre & Hm & Hi & _). rewrite Hm, app_length. lia.
Qed.

Lemma at_text_upd m m' r pr :
  at_text m r pr -> idx1 m' = idx1 m -> cur m' = cur m -> pending m' = pending m ->
  slen m' <= N.of_nat (length msg - length r) -> at_text m' r pr.
Proof.
  intros (pre & Hm & Hi & Hc & Hs & Hf & Hp) E1 E2 E3 Hs'.
  exists pre. rewrite E1, E2, E3. repeat split; try assumption.
  rewrite Hm, app_length in Hs'. lia.
Qed.

(* reading the next structural: white space, then a token whose first byte
   is the structural position *)
Lemma read_tok m s pr b t r pr2 n :
  mwf m -> at_text m s pr -> tl_ok m 0 ->
  skip_ws s = (b :: t) ++ r -> n = S (length t) ->
  (forall pr' p, (pr = true -> pr' = true) ->
     s1_fold false (OutS pr') p ((b :: t) ++ r) = consp p (s1_fold false (OutS pr2) (p + n) r)) ->
  exists pre1 cb rb,
    msg = pre1 ++ (b :: t) ++ r /\
    let m1 := adv m (N.of_nat (S (length pre1))) ((b :: t) ++ r) cb rb in
    update_char m = UChar m1 (b2n b) /\ mwf m1 /\ at_text m1 r pr2 /\ tl_ok m1 2 /\
    length (pending m) = S (length (pending m1)).
Proof.
  intros Hwf (pre & Hm & Hi & Hc & Hs & Hf & Hp) Htl Hsk -> Hfold.
  destruct (skip_ws_split s) as (w & Hw & _).
  destruct (fold_skip_ws s pr (length pre)) as (pr' & Hpr & Hsw).
  assert (Lw : (length s - length (skip_ws s) = length w)%nat).
  { rewrite Hw at 1. rewrite app_length. lia. }
  rewrite Lw, Hsk, (Hfold pr' _ Hpr) in Hsw.
  rewrite Hsw in Hp, Hf. cbn [consp fst snd] in Hp, Hf.
  set (pre1 := pre ++ w).
  assert (L1 : length pre1 = (length pre + length w)%nat) by (unfold pre1; apply app_length).
  rewrite <- L1 in Hp, Hf.
  rewrite incs_cons in Hp.
  destruct (update_char_pending m _ _ (wf_rb m Hwf) Hp) as (cb & rb & Hrest & Hrb & Hu).
  assert (Hm1 : msg = pre1 ++ (b :: t) ++ r).
  { unfold pre1. rewrite <- app_assoc, <- Hsk, <- Hw. exact Hm. }
  exists pre1, cb, rb. split; [exact Hm1|]. cbv zeta.
  set (d := (S (length pre1) - N.to_nat (idx1 m))%nat) in *.
  assert (Hd : (1 <= d)%nat) by (unfold d; lia).
  assert (Hncur : (if idx1 m =? 0 then skipn (d - 1) (whole m) else skipn d (cur m)) = (b :: t) ++ r).
  { destruct (N.eqb_spec (idx1 m) 0) as [E0|E0].
    - rewrite (wf_whole m Hwf). replace (d - 1)%nat with (length pre1) by (unfold d; lia).
      rewrite Hm1 at 1. rewrite skipn_app, Nat.sub_diag, skipn_all. reflexivity.
    - rewrite (Hc E0), skipn_skipn'.
      replace (N.to_nat (idx1 m) - 1 + d)%nat with (length pre1) by (unfold d; lia).
      rewrite Hm1 at 1. rewrite skipn_app, Nat.sub_diag, skipn_all. reflexivity. }
  assert (Hi1 : idx1 m + N.of_nat d = N.of_nat (S (length pre1))) by (unfold d; lia).
  assert (Hu' : update_char m = UChar (adv m (N.of_nat (S (length pre1))) ((b :: t) ++ r) cb rb) (b2n b)).
  { rewrite Hu. cbv zeta. rewrite Hncur, Hi1.
    replace ((d =? 0)%nat) with false by lia. reflexivity. }
  split; [exact Hu'|]. split; [|split; [|split]].
  - destruct Hwf as [A B C D E]. constructor; msimpl; assumption.
  - exists (pre1 ++ b :: t). msimpl. rewrite Nat2N.id.
    split; [rewrite <- app_assoc; exact Hm1|]. split; [rewrite app_length; cbn [length]; lia|].
    split.
    { intros _. replace (S (length pre1) - 1)%nat with (length pre1) by lia.
      rewrite Hm1 at 1. rewrite skipn_app, Nat.sub_diag, skipn_all. reflexivity. }
    split; [rewrite app_length; lia|].
    assert (L2 : length (pre1 ++ b :: t) = (length pre1 + S (length t))%nat) by (rewrite app_length; reflexivity).
    rewrite L2. split; [exact Hf|].
    unfold pending. msimpl. exact Hrest.
  - unfold tl_ok in *. msimpl. lia.
  - unfold pending at 1. fold (pending m). rewrite Hp. unfold pending. msimpl. rewrite Hrest. reflexivity.
Qed.

(* ------------------------------------------------------------------ *)
(* denotation of the words written for a value                          *)

(* a string reference that stays valid when the string buffer grows *)
Definition gs (SB : bytes) (w len : N) (k : bytes) : Prop :=
  word_tag w = TagString /\ forall S2, string_at msg (SB ++ S2) (word_val w) len = Some k.

Definition gv (SB : bytes) (i : N) (ws : list N) (d : doc) : Prop :=
  (exists w0 ws', ws = w0 :: ws' /\ vtag (word_tag w0)) /\
  forall S2 rest fuel, (length ws < fuel)%nat ->
    den_value msg (SB ++ S2) fuel i (ws ++ rest) = Some (d, i + N.of_nat (length ws), rest).

Definition ge (SB : bytes) (i : N) (ws : list N) (l : list doc) : Prop :=
  forall S2 acc fuel w r, word_tag w = TagArrayEnd -> (length ws + 2 <= fuel)%nat ->
    den_elems msg (SB ++ S2) fuel i (ws ++ w :: r) acc = Some (rev acc ++ l, i + N.of_nat (length ws) + 1, r).

Definition gm (SB : bytes) (i : N) (ws : list N) (l : list (bytes * doc)) : Prop :=
  forall S2 acc fuel w r, word_tag w = TagObjectEnd -> (length ws + 2 <= fuel)%nat ->
    den_members msg (SB ++ S2) fuel i (ws ++ w :: r) acc = Some (rev acc ++ l, i + N.of_nat (length ws) + 1, r).

Lemma gs_mono SB X w len k : gs SB w len k -> gs (SB ++ X) w len k.
Proof. intros [Ht H]. split; [exact Ht|]. intros S2. rewrite <- app_assoc. apply H. Qed.

Lemma gv_mono SB X i ws d : gv SB i ws d -> gv (SB ++ X) i ws d.
Proof. intros [Hh H]. split; [exact Hh|]. intros S2 rest fuel Hf. rewrite <- app_assoc. apply H. exact Hf. Qed.

Lemma ge_nil SB i : ge SB i [] [].
Proof.
  intros S2 acc fuel w r Ht Hf. destruct fuel as [|[|f]]; cbn [length] in Hf; try lia.
  cbn [app]. rewrite den_elems_end by exact Ht. rewrite app_nil_r. f_equal. f_equal. f_equal. cbn [length]. lia.
Qed.

Lemma ge_cons SB X i wsv v ws3 l3 :
  gv SB i wsv v -> ge (SB ++ X) (i + N.of_nat (length wsv)) ws3 l3 -> ge (SB ++ X) i (wsv ++ ws3) (v :: l3).
Proof.
  intros [(w0 & wsv' & -> & Hvt) Hv] He S2 acc fuel w r Ht Hf.
  rewrite app_length in Hf. cbn [length] in Hf.
  destruct fuel as [|[|f]]; try lia.
  rewrite <- (app_assoc (w0 :: wsv') ws3 (w :: r)).
  change ((w0 :: wsv') ++ ws3 ++ w :: r) with (w0 :: wsv' ++ ws3 ++ w :: r).
  rewrite den_elems_val by exact Hvt.
  change (w0 :: wsv' ++ ws3 ++ w :: r) with ((w0 :: wsv') ++ ws3 ++ w :: r).
  rewrite <- (app_assoc SB X S2). rewrite Hv by (cbn [length]; lia).
  rewrite (app_assoc SB X S2). rewrite He by (try exact Ht; lia).
  cbn [rev]. rewrite <- app_assoc. cbn [app]. f_equal. f_equal. f_equal.
  cbn [length]. rewrite app_length. lia.
Qed.

Lemma gm_nil SB i : gm SB i [] [].
Proof.
  intros S2 acc fuel w r Ht Hf. destruct fuel as [|[|f]]; cbn [length] in Hf; try lia.
  cbn [app]. rewrite den_members_end by exact Ht. rewrite app_nil_r. f_equal. f_equal. f_equal. cbn [length]. lia.
Qed.

Lemma gm_cons SB X Y i kw klen key wsv v ws3 l3 :
  gs SB kw klen key -> gv (SB ++ X) (i + 2) wsv v ->
  gm ((SB ++ X) ++ Y) (i + 2 + N.of_nat (length wsv)) ws3 l3 ->
  gm ((SB ++ X) ++ Y) i (kw :: klen :: wsv ++ ws3) ((key, v) :: l3).
Proof.
  intros [Hkt Hks] [(w0 & wsv' & -> & Hvt) Hv] Hm S2 acc fuel w r Ht Hf.
  cbn [length] in Hf. rewrite app_length in Hf. cbn [length] in Hf.
  destruct fuel as [|[|f]]; try lia.
  change ((kw :: klen :: (w0 :: wsv') ++ ws3) ++ w :: r) with (kw :: klen :: ((w0 :: wsv') ++ ws3) ++ w :: r).
  rewrite <- (app_assoc (w0 :: wsv') ws3 (w :: r)).
  change ((w0 :: wsv') ++ ws3 ++ w :: r) with (w0 :: wsv' ++ ws3 ++ w :: r).
  rewrite (den_members_kv msg _ f i kw klen w0 _ acc key Hkt); [| |apply Hvt].
  2:{ rewrite <- !app_assoc. apply Hks. }
  change (w0 :: wsv' ++ ws3 ++ w :: r) with ((w0 :: wsv') ++ ws3 ++ w :: r).
  rewrite <- (app_assoc (SB ++ X) Y S2). rewrite Hv by (cbn [length]; lia).
  rewrite (app_assoc (SB ++ X) Y S2). rewrite Hm by (try exact Ht; lia).
  cbn [rev]. rewrite <- app_assoc. cbn [app]. f_equal. f_equal. f_equal.
  cbn [length]. rewrite app_length. cbn [length]. lia.
Qed.

Lemma gv_arr SB i inner l :
  ge SB (i + 1) inner l -> i + N.of_nat (length inner) + 2 < two56 ->
  gv SB i (mk_word cLBRACK (i + N.of_nat (length inner) + 2) :: inner ++ [mk_word cRBRACK i]) (DArr l).
Proof.
  intros He Hb. split.
  { eexists _, _. split; [reflexivity|]. rewrite word_tag_mk by exact Hb. repeat split. }
  intros S2 rest fuel Hf. cbn [length] in Hf. rewrite app_length in Hf. cbn [length] in Hf.
  destruct fuel as [|f]; [lia|].
  cbn [app]. rewrite den_value_arr by (apply word_tag_mk; exact Hb).
  rewrite <- app_assoc. cbn [app].
  rewrite He; [|apply word_tag_mk; lia|lia].
  rewrite word_val_mk by exact Hb. cbn [rev app].
  replace (i + 1 + N.of_nat (length inner) + 1 =? i + N.of_nat (length inner) + 2) with true by lia.
  f_equal. f_equal. f_equal. cbn [length]. rewrite app_length. cbn [length]. lia.
Qed.

Lemma gv_obj SB i inner l :
  gm SB (i + 1) inner l -> i + N.of_nat (length inner) + 2 < two56 ->
  gv SB i (mk_word cLBRACE (i + N.of_nat (length inner) + 2) :: inner ++ [mk_word cRBRACE i]) (DObj l).
Proof.
  intros He Hb. split.
  { eexists _, _. split; [reflexivity|]. rewrite word_tag_mk by exact Hb. repeat split. }
  intros S2 rest fuel Hf. cbn [length] in Hf. rewrite app_length in Hf. cbn [length] in Hf.
  destruct fuel as [|f]; [lia|].
  cbn [app]. rewrite den_value_obj by (apply word_tag_mk; exact Hb).
  rewrite <- app_assoc. cbn [app].
  rewrite He; [|apply word_tag_mk; lia|lia].
  rewrite word_val_mk by exact Hb. cbn [rev app].
  replace (i + 1 + N.of_nat (length inner) + 1 =? i + N.of_nat (length inner) + 2) with true by lia.
  f_equal. f_equal. f_equal. cbn [length]. rewrite app_length. cbn [length]. lia.
Qed.

Lemma gv_string SB i w len k : gs SB w len k -> gv SB i [w; len] (DStr k).
Proof.
  intros [Ht Hs]. split.
  { eexists _, _. split; [reflexivity|]. rewrite Ht. repeat split. }
  intros S2 rest fuel Hf. destruct fuel as [|f]; [cbn [length] in Hf; lia|].
  cbn [app]. rewrite (den_value_string msg _ f i w len rest k Ht (Hs S2)). reflexivity.
Qed.

Lemma gv_num SB i n : forall l, num_spec l = Some n -> gv SB i [fst (enc_num n); snd (enc_num n)] (DNum n).
Proof.
  intros l Hn. apply num_spec_shape in Hn.
  assert (B0 : 0 < two56) by (unfold two56; lia).
  assert (B1 : 1 < two56) by (unfold two56; lia).
  destruct n as [z|u|bits fl]; cbn [enc_num fst snd]; split.
  - eexists _, _. split; [reflexivity|]. rewrite word_tag_mk by exact B0. repeat split.
  - intros S2 rest fuel Hf. destruct fuel as [|f]; [cbn [length] in Hf; lia|].
    cbn [app]. rewrite den_value_int by (apply word_tag_mk; exact B0). rewrite s64_u64 by exact Hn. reflexivity.
  - eexists _, _. split; [reflexivity|]. rewrite word_tag_mk by exact B0. repeat split.
  - intros S2 rest fuel Hf. destruct fuel as [|f]; [cbn [length] in Hf; lia|].
    cbn [app]. rewrite den_value_uint by (apply word_tag_mk; exact B0). reflexivity.
  - eexists _, _. split; [reflexivity|]. rewrite word_tag_mk by (destruct Hn; subst; assumption). repeat split.
  - intros S2 rest fuel Hf. destruct fuel as [|f]; [cbn [length] in Hf; lia|].
    cbn [app]. rewrite den_value_float by (apply word_tag_mk; destruct Hn; subst; assumption).
    rewrite word_val_mk by (destruct Hn; subst; assumption). reflexivity.
Qed.

Lemma gv_atom SB i tag d :
  (tag = TagNull /\ d = DNull) \/ (tag = TagBoolTrue /\ d = DBool true) \/ (tag = TagBoolFalse /\ d = DBool false) ->
  gv SB i [mk_word tag 0] d.
Proof.
  assert (B0 : 0 < two56) by (unfold two56; lia).
  intros H. split.
  { eexists _, _. split; [reflexivity|]. rewrite word_tag_mk by exact B0.
    destruct H as [[-> _]|[[-> _]|[-> _]]]; repeat split. }
  intros S2 rest fuel Hf. destruct fuel as [|f]; [cbn [length] in Hf; lia|]. cbn [app].
  destruct H as [[-> ->]|[[-> ->]|[-> ->]]].
  - rewrite den_value_null by (apply word_tag_mk; exact B0). reflexivity.
  - rewrite den_value_true by (apply word_tag_mk; exact B0). reflexivity.
  - rewrite den_value_false by (apply word_tag_mk; exact B0). reflexivity.
Qed.


(* ------------------------------------------------------------------ *)
(* frames: what a run leaves unchanged                                 *)

Record frame (m m' : m2) (ws : list N) (ap : bytes) : Prop := {
  fr_wf : mwf m';
  fr_tape : tape_rev m' = rev ws ++ tape_rev m;
  fr_strs : strs_rev m' = rev ap ++ strs_rev m;
  fr_stack : stack m' = stack m
}.

Lemma frame_refl m : mwf m -> frame m m [] [].
Proof. intros H. constructor; auto. Qed.

Lemma frame_trans m m1 m2 ws1 ap1 ws2 ap2 :
  frame m m1 ws1 ap1 -> frame m1 m2 ws2 ap2 -> frame m m2 (ws1 ++ ws2) (ap1 ++ ap2).
Proof.
  intros [A1 B1 C1 D1] [A2 B2 C2 D2]. constructor; [exact A2| | |congruence].
  - rewrite B2, B1, rev_app_distr, app_assoc. reflexivity.
  - rewrite C2, C1, rev_app_distr, app_assoc. reflexivity.
Qed.

Lemma frame_tlen m m' ws ap : mwf m -> frame m m' ws ap -> tlen m' = tlen m + N.of_nat (length ws).
Proof.
  intros Hwf [A B C D]. rewrite (wf_tlen m' A), (wf_tlen m Hwf), B, app_length, rev_length. lia.
Qed.

Lemma frame_strs m m' ws ap : frame m m' ws ap -> rev (strs_rev m') = rev (strs_rev m) ++ ap.
Proof. intros [A B C D]. rewrite C, rev_app_distr, rev_involutive. reflexivity. Qed.

Lemma at_text_skip m s pr : at_text m s pr ->
  exists pr', (pr = true -> pr' = true) /\ at_text m (skip_ws s) pr'.
Proof.
  intros (pre & Hm & Hi & Hc & Hs & Hf & Hp).
  destruct (skip_ws_split s) as (w & Hw & _).
  destruct (fold_skip_ws s pr (length pre)) as (pr' & Hpr & Hsw).
  assert (Lw : (length s - length (skip_ws s) = length w)%nat).
  { rewrite Hw at 1. rewrite app_length. lia. }
  rewrite Lw in Hsw. exists pr'. split; [exact Hpr|].
  exists (pre ++ w). rewrite app_length, <- Hsw.
  split; [rewrite <- app_assoc, <- Hw; exact Hm|]. repeat split; try assumption; lia.
Qed.

Definition same_but_tape (m1 m2 : m2) : Prop :=
  strs_rev m2 = strs_rev m1 /\ slen m2 = slen m1 /\ stack m2 = stack m1 /\ idx1 m2 = idx1 m1 /\
  cur m2 = cur m1 /\ whole m2 = whole m1 /\ sfuel m2 = sfuel m1 /\ cbuf m2 = cbuf m1 /\ rbufs m2 = rbufs m1.

Lemma idx1_le_msg m r pr : at_text m r pr -> idx1 m <= N.of_nat (length msg).
Proof. intros H. apply at_text_idx in H. lia. Qed.

(* --- a scalar token ------------------------------------------------- *)
Lemma sim_scalar m s b t r' l cont (op : m2 -> m2) ws :
  mwf m -> at_text m s true -> tl_ok m 0 ->
  skip_ws s = (b :: t) ++ r' -> forallb (fun b => plainc (b2n b)) (b :: t) = true ->
  (length ws <= 2)%nat ->
  (forall m1, tape_rev (op m1) = rev ws ++ tape_rev m1 /\ tlen (op m1) = tlen m1 + N.of_nat (length ws) /\
              same_but_tape m1 (op m1)) ->
  (forall m1, update_char m = UChar m1 (b2n b) -> cur m1 = (b :: t) ++ r' -> step copy l m = Next cont (op m1)) ->
  exists m' pr', nsteps copy 1 l m cont m' /\ frame m m' ws [] /\ at_text m' r' pr' /\ tl_ok m' 0.
Proof.
  intros Hwf Hat Htl Hsk Hpl Hws Hop Hstep.
  destruct (read_tok m s true b t r' false (S (length t)) Hwf Hat Htl Hsk eq_refl) as (pre1 & cb & rb & Hm1 & H).
  { intros pr' p Hpr. rewrite (Hpr eq_refl). rewrite fold_scalar by (try exact Hpl; discriminate).
    reflexivity. }
  cbv zeta in H. destruct H as (Hu & Hwf1 & Hat1 & Htl1 & Hpend).
  set (m1 := adv m (N.of_nat (S (length pre1))) ((b :: t) ++ r') cb rb) in *.
  destruct (Hop m1) as (Ht & Hl & Hsb & Hsl & Hst & Hi & Hc & Hw & Hsf & Hcb & Hrb).
  exists (op m1), false. split; [|split; [|split]].
  - apply nsteps_one; [apply Hstep; [exact Hu|reflexivity]|].
    rewrite Hpend. unfold pending. rewrite Hcb, Hrb. reflexivity.
  - destruct Hwf1 as [A B C D E]. constructor.
    + constructor.
      * rewrite Hw. exact A.
      * rewrite Hsf. exact B.
      * rewrite Hl, Ht, C, app_length, rev_length. lia.
      * rewrite Hsl, Hsb. exact D.
      * rewrite Hrb. exact E.
    + rewrite Ht. reflexivity.
    + rewrite Hsb. reflexivity.
    + rewrite Hst. reflexivity.
  - apply (at_text_upd m1); try assumption.
    + unfold pending. rewrite Hcb, Hrb. reflexivity.
    + rewrite Hsl. destruct Hat1 as (pre & Hm & _ & _ & Hs & _). rewrite Hm, app_length. lia.
  - unfold tl_ok in *. rewrite Hl, Hi. lia.
Qed.

(* --- markup that only moves the machine to another label ----------- *)
Lemma sim_markup m s pr b r l l' :
  mwf m -> at_text m s pr -> tl_ok m 0 -> skip_ws s = b :: r ->
  ((l = L_objColon /\ b2n b = cCOLON /\ l' = L_objValue) \/
   (l = L_objCont /\ b2n b = cCOMMA /\ l' = L_objKey) \/
   (l = L_arrCont /\ b2n b = cCOMMA /\ l' = L_arrValue)) ->
  exists m', nsteps copy 1 l m l' m' /\ frame m m' [] [] /\ at_text m' r true /\ tl_ok m' 0.
Proof.
  intros Hwf Hat Htl Hsk Hcase.
  assert (Hmk : is_markup (b2n b) = true).
  { destruct Hcase as [(_ & -> & _)|[(_ & -> & _)|(_ & -> & _)]]; reflexivity. }
  destruct (read_tok m s pr b [] r true 1 Hwf Hat Htl Hsk eq_refl) as (pre1 & cb & rb & Hm1 & H).
  { intros pr' p _. cbn [app]. rewrite fold_markup by exact Hmk. do 2 f_equal. lia. }
  cbv zeta in H. destruct H as (Hu & Hwf1 & Hat1 & Htl1 & Hpend).
  set (m1 := adv m (N.of_nat (S (length pre1))) ([b] ++ r) cb rb) in *.
  exists m1. split; [|split; [|split]].
  - apply nsteps_one; [|exact Hpend].
    rewrite (step_uchar copy l m m1 _ Hu).
    destruct Hcase as [(-> & -> & ->)|[(-> & -> & ->)|(-> & -> & ->)]]; reflexivity.
  - constructor; [exact Hwf1|reflexivity|reflexivity|reflexivity].
  - exact Hat1.
  - eapply tl_ok_weaken; [exact Htl1|lia].
Qed.

(* --- a string literal ----------------------------------------------- *)
Lemma sim_string m s pr b r str r' f l l' :
  mwf m -> at_text m s pr -> tl_ok m 0 ->
  skip_ws s = b :: r -> b2n b = cQUOTE -> spec_string f r [] = SOk (str, r') ->
  (forall m1, update_char m = UChar m1 cQUOTE -> step copy l m = do_string copy m1 (fun m'' => Next l' m'')) ->
  exists m' w len ap, nsteps copy 1 l m l' m' /\ frame m m' [w; len] ap /\ at_text m' r' true /\ tl_ok m' 0 /\
     gs (rev (strs_rev m')) w len str.
Proof.
  intros Hwf Hat Htl Hsk Hq Hspec Hstep.
  assert (Hb : b = x22) by (apply b2n_quote; exact Hq). subst b.
  destruct (fold_spec_string f r str r' true 0 Hspec) as (src & Hr & Hrel & _).
  pose proof (dec_rel_len _ _ Hrel) as (_ & _ & Hlen_dec).
  assert (Hsk' : skip_ws s = (x22 :: src ++ [x22]) ++ r').
  { rewrite Hsk, Hr. cbn [app]. rewrite <- app_assoc. reflexivity. }
  destruct (read_tok m s pr x22 (src ++ [x22]) r' true (length src + 2) Hwf Hat Htl Hsk') as (pre1 & cb & rb & Hm1 & H).
  { rewrite app_length. cbn [length]. lia. }
  { intros pr' p _.
    destruct (fold_spec_string f r str r' pr' p Hspec) as (src2 & Hr2 & _ & Hf2).
    assert (L : length src2 = length src).
    { rewrite Hr in Hr2. apply (f_equal (@length byte)) in Hr2. rewrite !app_length in Hr2. cbn [length] in Hr2. lia. }
    cbn [app]. rewrite <- app_assoc. cbn [app]. rewrite <- Hr. rewrite Hf2, L. do 2 f_equal. lia. }
  cbv zeta in H. destruct H as (Hu & Hwf1 & Hat1 & Htl1 & Hpend).
  set (m1 := adv m (N.of_nat (S (length pre1))) ((x22 :: src ++ [x22]) ++ r') cb rb) in *.
  assert (Hcur : cur m1 = x22 :: r).
  { unfold m1. msimpl. rewrite Hr. cbn [app]. rewrite <- app_assoc. reflexivity. }
  assert (Hfuel : (length r < sfuel m1)%nat).
  { rewrite (wf_sfuel m1 Hwf1). rewrite Hm1, Hr, !app_length. cbn [length]. rewrite !app_length. cbn [length]. lia. }
  destruct (parse_string_model_correct r f str r' x22 (idx1 m1 - 1) (peek_size m1) copy (slen m1) (sfuel m1) Hspec Hfuel)
    as (src3 & pr3 & Hr3 & Hps & Hplen & Hcase).
  assert (E3 : src3 = src).
  { eapply app_inv_tail. rewrite <- Hr3, <- Hr. reflexivity. }
  subst src3.
  rewrite <- Hcur in Hps.
  pose proof (do_string_ok copy m1 (fun m'' => Next l' m'') pr3 Hps) as Hds.
  change (b2n x22) with cQUOTE in Hu.
  assert (Happ_len : (length (ps_app pr3) <= length src)%nat).
  { destruct (negb copy && no_bslash src); [destruct Hcase as (-> & _)|destruct Hcase as (-> & _)]; cbn [length]; lia. }
  assert (Hslen1 : slen m1 <= N.of_nat (length pre1)).
  { destruct Hat as (pre & Hm & _ & _ & Hs & _). unfold m1. msimpl.
    destruct (skip_ws_split s) as (w & Hw & _).
    assert (length pre <= length pre1)%nat.
    { apply (f_equal (@length byte)) in Hm1. rewrite Hm, Hw, Hsk', !app_length in Hm1. lia. }
    lia. }
  exists (str_state m1 pr3), (ps_word pr3), (ps_len pr3), (ps_app pr3).
  split; [|split; [|split; [|split]]].
  - apply nsteps_one; [rewrite (Hstep m1 Hu); exact Hds|].
    rewrite Hpend. unfold pending. msimpl. reflexivity.
  - destruct Hwf1 as [A B C D E]. constructor.
    + constructor; msimpl; try assumption.
      * rewrite C. cbn [length]. lia.
      * rewrite D. rewrite app_length, rev_length. lia.
    + msimpl. reflexivity.
    + msimpl. reflexivity.
    + msimpl. reflexivity.
  - apply (at_text_upd m1); try assumption; try reflexivity.
    msimpl. rewrite Hm1, !app_length. cbn [length]. rewrite !app_length. cbn [length].
    lia.
  - unfold tl_ok in *. msimpl. lia.
  - (* the reference denotes the decoded string *)
    msimpl. rewrite rev_app_distr, rev_involutive.
    assert (Hidx : idx1 m1 - 1 + 1 = N.of_nat (length (pre1 ++ [x22]))).
    { unfold m1. msimpl. rewrite app_length. cbn [length]. lia. }
    assert (Hpre_bound : N.of_nat (length (pre1 ++ [x22])) < STRINGBUFBIT).
    { apply (f_equal (@length byte)) in Hm1. rewrite !app_length in Hm1. cbn [length] in Hm1.
      rewrite app_length. cbn [length]. lia. }
    destruct (negb copy && no_bslash src) eqn:Ec.
    + destruct Hcase as (Ha & Hw & Hd). split.
      * rewrite Hw. apply word_tag_mk. rewrite Hidx, two56_val. lia.
      * intros S2. rewrite Hw, Hplen, word_val_mk by (rewrite Hidx, two56_val; lia).
        rewrite Hidx, Hd. apply (string_at_msg msg _ (pre1 ++ [x22]) src (x22 :: r')); [|exact Hpre_bound].
        rewrite Hm1 at 1. cbn [app]. rewrite <- !app_assoc. reflexivity.
    + destruct Hcase as (Ha & Hw).
      assert (Hsl : slen m1 = N.of_nat (length (rev (strs_rev m)))).
      { rewrite rev_length. unfold m1. msimpl. exact (wf_slen m Hwf). }
      assert (Hslb : slen m1 < STRINGBUFBIT).
      { apply (f_equal (@length byte)) in Hm1. rewrite !app_length in Hm1. lia. }
      split.
      * rewrite Hw. apply word_tag_mk. rewrite two56_val. lia.
      * intros S2. rewrite Hw, Hplen, word_val_mk by (rewrite two56_val; lia).
        rewrite Ha. rewrite Hsl. rewrite <- app_assoc.
        apply string_at_buf. rewrite <- Hsl. exact Hslb.
Qed.

(* --- closing a scope ------------------------------------------------ *)
Lemma scope_end_ok m c T0 inner w0 st0 ret :
  ret < 4 -> stack m = (N.of_nat (length T0) * 4 + ret) :: st0 ->
  tape_rev m = rev inner ++ w0 :: T0 -> tlen m = N.of_nat (length (tape_rev m)) ->
  scope_end m c =
  Next (cont_of ret)
       (set_tape (write_tape (set_stack m st0) (N.of_nat (length T0)) c)
                 (mk_word c (N.of_nat (length T0)) :: rev inner ++ N.lor w0 (tlen m + 1) :: T0)).
Proof.
  intros Hret Hst Htape Htl. unfold scope_end. rewrite Hst.
  assert (Hdiv : (N.of_nat (length T0) * 4 + ret) / 4 = N.of_nat (length T0)).
  { rewrite N.div_add_l by lia. rewrite N.div_small by exact Hret. lia. }
  assert (Hmod : (N.of_nat (length T0) * 4 + ret) mod 4 = ret).
  { rewrite N.add_comm, N.mod_add by lia. apply N.mod_small. exact Hret. }
  rewrite Hdiv, Hmod.
  set (mw := write_tape (set_stack m st0) (N.of_nat (length T0)) c).
  assert (Hlt : N.of_nat (length T0) < tlen mw).
  { unfold mw. msimpl. rewrite Htl, Htape, app_length. cbn [length]. lia. }
  rewrite (annotate_ok mw _ _ Hlt).
  assert (Hupd : upd_nth (N.to_nat (tlen mw - 1 - N.of_nat (length T0))) (fun w => N.lor w (tlen mw)) (tape_rev mw)
                 = mk_word c (N.of_nat (length T0)) :: rev inner ++ N.lor w0 (tlen m + 1) :: T0).
  { unfold mw. msimpl. rewrite Htape.
    replace (N.to_nat (tlen m + 1 - 1 - N.of_nat (length T0))) with (length (mk_word c (N.of_nat (length T0)) :: rev inner)).
    - change (mk_word c (N.of_nat (length T0)) :: rev inner ++ w0 :: T0)
        with ((mk_word c (N.of_nat (length T0)) :: rev inner) ++ w0 :: T0).
      rewrite upd_nth_app. reflexivity.
    - rewrite Htl, Htape, app_length. cbn [length]. lia. }
  rewrite Hupd. unfold cont_of.
  destruct (ret =? retArray); [reflexivity|]. destruct (ret =? retObject); reflexivity.
Qed.

Lemma sim_close m s pr b r l T0 inner w0 st0 ret :
  mwf m -> at_text m s pr -> tl_ok m 0 -> skip_ws s = b :: r ->
  ((b2n b = cRBRACE /\ (l = L_objBegin \/ l = L_objCont)) \/ (b2n b = cRBRACK /\ (l = L_arrBegin \/ l = L_arrCont))) ->
  ret < 4 -> stack m = (N.of_nat (length T0) * 4 + ret) :: st0 -> tape_rev m = rev inner ++ w0 :: T0 ->
  exists m', nsteps copy 1 l m (cont_of ret) m' /\ mwf m' /\ at_text m' r true /\ tl_ok m' 1 /\
    tape_rev m' = mk_word (b2n b) (N.of_nat (length T0)) :: rev inner ++ N.lor w0 (tlen m + 1) :: T0 /\
    strs_rev m' = strs_rev m /\ stack m' = st0 /\ (exists pre', msg = pre' ++ b :: r) /\ closer b.
Proof.
  intros Hwf Hat Htl Hsk Hcase Hret Hst Htape.
  assert (Hmk : is_markup (b2n b) = true).
  { destruct Hcase as [(-> & _)|(-> & _)]; reflexivity. }
  destruct (read_tok m s pr b [] r true 1 Hwf Hat Htl Hsk eq_refl) as (pre1 & cb & rb & Hm1 & H).
  { intros pr' p _. cbn [app]. rewrite fold_markup by exact Hmk. do 2 f_equal. lia. }
  cbv zeta in H. destruct H as (Hu & Hwf1 & Hat1 & Htl1 & Hpend).
  set (m1 := adv m (N.of_nat (S (length pre1))) ([b] ++ r) cb rb) in *.
  assert (Hse : step copy l m = scope_end m1 (b2n b)).
  { rewrite (step_uchar copy l m m1 _ Hu).
    destruct Hcase as [(-> & [-> | ->])|(-> & [-> | ->])]; reflexivity. }
  rewrite (scope_end_ok m1 (b2n b) T0 inner w0 st0 ret Hret) in Hse; try assumption.
  2:{ unfold m1. msimpl. exact (wf_tlen m Hwf). }
  eexists. split; [|split; [|split; [|split; [|split; [|split; [|split; [|split]]]]]]].
  - apply nsteps_one; [exact Hse|]. rewrite Hpend. unfold pending. msimpl. reflexivity.
  - destruct Hwf1 as [A B C D E]. constructor; msimpl; try assumption.
    cbn [length]. rewrite app_length. cbn [length].
    rewrite C. unfold m1. msimpl. rewrite Htape, app_length. cbn [length]. lia.
  - apply (at_text_upd m1); try assumption; try reflexivity.
    msimpl. destruct Hat1 as (pre & Hm & _ & _ & Hs & _).
    rewrite Hm, app_length. lia.
  - unfold tl_ok in *. msimpl. lia.
  - msimpl. reflexivity.
  - msimpl. reflexivity.
  - msimpl. reflexivity.
  - exists pre1. exact Hm1.
  - destruct Hcase as [(E & _)|(E & _)]; [left|right]; exact E.
Qed.

(* --- opening a scope ------------------------------------------------ *)
Lemma sim_open m s b r l ret lb :
  mwf m -> at_text m s true -> tl_ok m 0 -> skip_ws s = b :: r ->
  ((b2n b = cLBRACE /\ lb = L_objBegin) \/ (b2n b = cLBRACK /\ lb = L_arrBegin)) ->
  (forall m1, update_char m = UChar m1 (b2n b) ->
     step copy l m = Next lb (write_tape (push_scope m1 ret) 0 (b2n b))) ->
  exists m', nsteps copy 1 l m lb m' /\ mwf m' /\ at_text m' r true /\ tl_ok m' 1 /\
    tape_rev m' = mk_word (b2n b) 0 :: tape_rev m /\ strs_rev m' = strs_rev m /\
    stack m' = (tlen m * 4 + ret) :: stack m.
Proof.
  intros Hwf Hat Htl Hsk Hcase Hstep.
  assert (Hmk : is_markup (b2n b) = true).
  { destruct Hcase as [(-> & _)|(-> & _)]; reflexivity. }
  destruct (read_tok m s true b [] r true 1 Hwf Hat Htl Hsk eq_refl) as (pre1 & cb & rb & Hm1 & H).
  { intros pr' p _. cbn [app]. rewrite fold_markup by exact Hmk. do 2 f_equal. lia. }
  cbv zeta in H. destruct H as (Hu & Hwf1 & Hat1 & Htl1 & Hpend).
  set (m1 := adv m (N.of_nat (S (length pre1))) ([b] ++ r) cb rb) in *.
  exists (write_tape (push_scope m1 ret) 0 (b2n b)).
  split; [|split; [|split; [|split; [|split; [|split]]]]].
  - apply nsteps_one; [exact (Hstep m1 Hu)|]. rewrite Hpend. unfold pending. msimpl. reflexivity.
  - destruct Hwf1 as [A B C D E]. constructor; msimpl; try assumption.
    cbn [length]. rewrite C. lia.
  - apply (at_text_upd m1); try assumption; try reflexivity.
    msimpl. destruct Hat1 as (pre & Hm & _ & _ & Hs & _).
    rewrite Hm, app_length. lia.
  - unfold tl_ok in *. msimpl. lia.
  - msimpl. reflexivity.
  - msimpl. reflexivity.
  - msimpl. reflexivity.
Qed.


(* ------------------------------------------------------------------ *)
(* one-step unfolding of the specification                             *)

Lemma spec_value_S f s :
  spec_value (S f) s =
    match skip_ws s with
    | [] => SInvalid
    | b :: r =>
      let c := b2n b in
      if c =? cLBRACE then
        match skip_ws r with
        | b' :: r' => if b2n b' =? cRBRACE then SOk (DObj [], r') else spec_members f (b' :: r') []
        | [] => SInvalid
        end
      else if c =? cLBRACK then
        match skip_ws r with
        | b' :: r' => if b2n b' =? cRBRACK then SOk (DArr [], r') else spec_elems f (b' :: r') []
        | [] => SInvalid
        end
      else if c =? cQUOTE then
        match spec_string f r [] with
        | SOk (str, r') => SOk (DStr str, r')
        | SInvalid => SInvalid | SOut => SOut | SFuel => SFuel
        end
      else if c =? c_t then
        match starts_with [116; 114; 117; 101] (b :: r) with Some r' => SOk (DBool true, r') | None => SInvalid end
      else if c =? c_f then
        match starts_with [102; 97; 108; 115; 101] (b :: r) with Some r' => SOk (DBool false, r') | None => SInvalid end
      else if c =? c_n then
        match starts_with [110; 117; 108; 108] (b :: r) with Some r' => SOk (DNull, r') | None => SInvalid end
      else if (c =? cMINUS) || is_digit c then
        match lex_number (b :: r) with
        | Some (l, r') => match num_spec l with Some n => SOk (DNum n, r') | None => SInvalid end
        | None => SInvalid
        end
      else SInvalid
    end.
Proof. reflexivity. Qed.

Lemma spec_elems_S f s acc :
  spec_elems (S f) s acc =
    match spec_value f s with
    | SOk (v, r) =>
      match skip_ws r with
      | b :: r' =>
        if b2n b =? cCOMMA then spec_elems f r' (v :: acc)
        else if b2n b =? cRBRACK then SOk (DArr (rev (v :: acc)), r')
        else SInvalid
      | [] => SInvalid
      end
    | SInvalid => SInvalid | SOut => SOut | SFuel => SFuel
    end.
Proof. reflexivity. Qed.

Lemma spec_members_S f s acc :
  spec_members (S f) s acc =
    match skip_ws s with
    | b :: r =>
      if b2n b =? cQUOTE then
        match spec_string f r [] with
        | SOk (key, r1) =>
          match skip_ws r1 with
          | b1 :: r2 =>
            if b2n b1 =? cCOLON then
              match spec_value f r2 with
              | SOk (v, r3) =>
                match skip_ws r3 with
                | b3 :: r4 =>
                  if b2n b3 =? cCOMMA then spec_members f r4 ((key, v) :: acc)
                  else if b2n b3 =? cRBRACE then SOk (DObj (rev ((key, v) :: acc)), r4)
                  else SInvalid
                | [] => SInvalid
                end
              | SInvalid => SInvalid | SOut => SOut | SFuel => SFuel
              end
            else SInvalid
          | [] => SInvalid
          end
        | SInvalid => SInvalid | SOut => SOut | SFuel => SFuel
        end
      else SInvalid
    | [] => SInvalid
    end.
Proof. reflexivity. Qed.

(* ------------------------------------------------------------------ *)
(* the simulation statements                                           *)

Definition P_V (f : nat) : Prop := forall s d r m l ret cont,
  spec_value f s = SOk (d, r) ->
  (is_container d = true \/ delim_ok r = true) ->
  vlabel l ret cont ->
  mwf m -> at_text m s true -> tl_ok m 0 ->
  exists k m' ws ap pr',
    nsteps copy k l m cont m' /\ frame m m' ws ap /\ at_text m' r pr' /\ tl_ok m' 0 /\
    gv (rev (strs_rev m')) (tlen m) ws d /\
    (is_container d = true -> tl_ok m' 1 /\ exists pre' c, msg = pre' ++ c :: r /\ closer c).

Definition P_E (f : nat) : Prop := forall s acc d r m l,
  spec_elems f s acc = SOk (d, r) ->
  (l = L_arrBegin \/ l = L_arrValue) ->
  mwf m -> at_text m s true -> tl_ok m 0 ->
  exists k m' ws ap pr' r1 b3 l',
    nsteps copy k l m L_arrCont m' /\ frame m m' ws ap /\ at_text m' r1 pr' /\ tl_ok m' 0 /\
    skip_ws r1 = b3 :: r /\ b2n b3 = cRBRACK /\
    d = DArr (rev acc ++ l') /\ ge (rev (strs_rev m')) (tlen m) ws l'.

Definition P_M (f : nat) : Prop := forall s acc d r m l,
  spec_members f s acc = SOk (d, r) ->
  (l = L_objBegin \/ l = L_objKey) ->
  mwf m -> at_text m s true -> tl_ok m 0 ->
  exists k m' ws ap pr' r1 b3 l',
    nsteps copy k l m L_objCont m' /\ frame m m' ws ap /\ at_text m' r1 pr' /\ tl_ok m' 0 /\
    skip_ws r1 = b3 :: r /\ b2n b3 = cRBRACE /\
    d = DObj (rev acc ++ l') /\ gm (rev (strs_rev m')) (tlen m) ws l'.

(* bound on tape positions *)
Lemma tlen_bound m r pr k : at_text m r pr -> tl_ok m k -> tlen m + k < two56.
Proof.
  intros Hat Htl. apply idx1_le_msg in Hat. unfold tl_ok in Htl. rewrite two56_val. lia.
Qed.

Lemma rev_container (a e : N) (inner : list N) : rev (a :: inner ++ [e]) = e :: rev inner ++ [a].
Proof. cbn [rev]. rewrite rev_app_distr. reflexivity. Qed.

(* --- a whole array, after its opening bracket ---------------------- *)
Lemma arr_sim f : P_E f -> forall r0 d r m ret T0 st0,
  match skip_ws r0 with
  | b' :: r' => if b2n b' =? cRBRACK then SOk (DArr [], r') else spec_elems f (b' :: r') []
  | [] => SInvalid
  end = SOk (d, r) ->
  mwf m -> at_text m r0 true -> tl_ok m 0 -> ret < 4 ->
  tape_rev m = mk_word cLBRACK 0 :: T0 -> stack m = (N.of_nat (length T0) * 4 + ret) :: st0 ->
  exists k m' ws ap pr',
    nsteps copy k L_arrBegin m (cont_of ret) m' /\ mwf m' /\ at_text m' r pr' /\ tl_ok m' 1 /\
    tape_rev m' = rev ws ++ T0 /\ strs_rev m' = rev ap ++ strs_rev m /\ stack m' = st0 /\
    gv (rev (strs_rev m')) (N.of_nat (length T0)) ws d /\ is_container d = true /\
    exists pre' c, msg = pre' ++ c :: r /\ closer c.
Proof.
  intros HE r0 d r m ret T0 st0 Hspec Hwf Hat Htl Hret Htape Hst.
  assert (Htl0 : tlen m = N.of_nat (length T0) + 1).
  { rewrite (wf_tlen m Hwf), Htape. cbn [length]. lia. }
  destruct (skip_ws r0) as [|b' r'] eqn:Esk; [discriminate|].
  destruct (b2n b' =? cRBRACK) eqn:Eb.
  - (* empty array *)
    injection Hspec as <- <-. apply N.eqb_eq in Eb.
    destruct (sim_close m r0 true b' r' L_arrBegin T0 [] (mk_word cLBRACK 0) st0 ret Hwf Hat Htl Esk)
      as (m' & Hn & Hwf' & Hat' & Htl' & Htape' & Hstrs' & Hst' & Hpre & Hcl); auto.
    exists 1%nat, m', [mk_word cLBRACK (N.of_nat (length T0) + N.of_nat (length (@nil N)) + 2); mk_word cRBRACK (N.of_nat (length T0))], [], true.
    assert (Hb : tlen m + 1 < two56).
    { pose proof (tlen_bound m' r' true 1 Hat' Htl') as B. rewrite (wf_tlen m' Hwf'), Htape' in B.
      rewrite (wf_tlen m Hwf), Htape. cbn [length app rev] in *. lia. }
    split; [exact Hn|]. split; [exact Hwf'|]. split; [exact Hat'|]. split; [exact Htl'|].
    split.
    { rewrite Htape', Eb. cbn [rev app length]. rewrite lor_mk by exact Hb. rewrite Htl0.
      repeat first [lia | reflexivity | progress f_equal]. }
    split; [rewrite Hstrs'; reflexivity|]. split; [exact Hst'|].
    split.
    { apply (gv_arr _ _ [] []); [apply ge_nil|]. cbn [length]. lia. }
    split; [reflexivity|]. destruct Hpre as (pre' & Hpre). exists pre', b'. split; [exact Hpre|exact Hcl].
  - (* elements *)
    destruct (at_text_skip m r0 true Hat) as (pr1 & Hpr1 & Hat1). rewrite (Hpr1 eq_refl), Esk in Hat1.
    destruct (HE _ _ _ _ m L_arrBegin Hspec (or_introl eq_refl) Hwf Hat1 Htl)
      as (k & m1 & wsm & ap & pr2 & r1 & b3 & l' & Hn & Hfr & Hat2 & Htl2 & Hsk2 & Hb3 & Hd & Hge).
    cbn [rev app] in Hd. subst d.
    pose proof (frame_tlen _ _ _ _ Hwf Hfr) as Htl1.
    destruct Hfr as [Hwf1 Htape1 Hstrs1 Hst1].
    rewrite Htape in Htape1. rewrite Hst in Hst1.
    destruct (sim_close m1 r1 pr2 b3 r L_arrCont T0 wsm (mk_word cLBRACK 0) st0 ret Hwf1 Hat2 Htl2 Hsk2)
      as (m' & Hn' & Hwf' & Hat' & Htl' & Htape' & Hstrs' & Hst' & Hpre & Hcl); auto.
    assert (Hb : tlen m1 + 1 < two56).
    { pose proof (tlen_bound m' r true 1 Hat' Htl') as B. rewrite (wf_tlen m' Hwf'), Htape' in B.
      rewrite (wf_tlen m1 Hwf1), Htape1. cbn [length] in *. rewrite !app_length in *. cbn [length] in *. lia. }
    exists (k + 1)%nat, m',
      (mk_word cLBRACK (N.of_nat (length T0) + N.of_nat (length wsm) + 2) :: wsm ++ [mk_word cRBRACK (N.of_nat (length T0))]),
      ap, true.
    split; [eapply nsteps_trans; [exact Hn|exact Hn']|].
    split; [exact Hwf'|]. split; [exact Hat'|]. split; [exact Htl'|].
    split.
    { rewrite Htape', Hb3, rev_container. rewrite lor_mk by exact Hb. cbn [app]. rewrite <- app_assoc. cbn [app].
      repeat first [lia | reflexivity | progress f_equal]. }
    split; [rewrite Hstrs', Hstrs1; reflexivity|]. split; [exact Hst'|].
    split.
    { apply gv_arr.
      - rewrite Hstrs'. replace (N.of_nat (length T0) + 1) with (tlen m) by lia. exact Hge.
      - lia. }
    split; [reflexivity|]. destruct Hpre as (pre' & Hpre). exists pre', b3. split; [exact Hpre|exact Hcl].
Qed.

(* --- a whole object, after its opening brace ------------------------ *)
Lemma obj_sim f : P_M f -> forall r0 d r m ret T0 st0,
  match skip_ws r0 with
  | b' :: r' => if b2n b' =? cRBRACE then SOk (DObj [], r') else spec_members f (b' :: r') []
  | [] => SInvalid
  end = SOk (d, r) ->
  mwf m -> at_text m r0 true -> tl_ok m 0 -> ret < 4 ->
  tape_rev m = mk_word cLBRACE 0 :: T0 -> stack m = (N.of_nat (length T0) * 4 + ret) :: st0 ->
  exists k m' ws ap pr',
    nsteps copy k L_objBegin m (cont_of ret) m' /\ mwf m' /\ at_text m' r pr' /\ tl_ok m' 1 /\
    tape_rev m' = rev ws ++ T0 /\ strs_rev m' = rev ap ++ strs_rev m /\ stack m' = st0 /\
    gv (rev (strs_rev m')) (N.of_nat (length T0)) ws d /\ is_container d = true /\
    exists pre' c, msg = pre' ++ c :: r /\ closer c.
Proof.
  intros HM r0 d r m ret T0 st0 Hspec Hwf Hat Htl Hret Htape Hst.
  assert (Htl0 : tlen m = N.of_nat (length T0) + 1).
  { rewrite (wf_tlen m Hwf), Htape. cbn [length]. lia. }
  destruct (skip_ws r0) as [|b' r'] eqn:Esk; [discriminate|].
  destruct (b2n b' =? cRBRACE) eqn:Eb.
  - injection Hspec as <- <-. apply N.eqb_eq in Eb.
    destruct (sim_close m r0 true b' r' L_objBegin T0 [] (mk_word cLBRACE 0) st0 ret Hwf Hat Htl Esk)
      as (m' & Hn & Hwf' & Hat' & Htl' & Htape' & Hstrs' & Hst' & Hpre & Hcl); auto.
    exists 1%nat, m', [mk_word cLBRACE (N.of_nat (length T0) + N.of_nat (length (@nil N)) + 2); mk_word cRBRACE (N.of_nat (length T0))], [], true.
    assert (Hb : tlen m + 1 < two56).
    { pose proof (tlen_bound m' r' true 1 Hat' Htl') as B. rewrite (wf_tlen m' Hwf'), Htape' in B.
      rewrite (wf_tlen m Hwf), Htape. cbn [length app rev] in *. lia. }
    split; [exact Hn|]. split; [exact Hwf'|]. split; [exact Hat'|]. split; [exact Htl'|].
    split.
    { rewrite Htape', Eb. cbn [rev app length]. rewrite lor_mk by exact Hb. rewrite Htl0.
      repeat first [lia | reflexivity | progress f_equal]. }
    split; [rewrite Hstrs'; reflexivity|]. split; [exact Hst'|].
    split.
    { apply (gv_obj _ _ [] []); [apply gm_nil|]. cbn [length]. lia. }
    split; [reflexivity|]. destruct Hpre as (pre' & Hpre). exists pre', b'. split; [exact Hpre|exact Hcl].
  - destruct (at_text_skip m r0 true Hat) as (pr1 & Hpr1 & Hat1). rewrite (Hpr1 eq_refl), Esk in Hat1.
    destruct (HM _ _ _ _ m L_objBegin Hspec (or_introl eq_refl) Hwf Hat1 Htl)
      as (k & m1 & wsm & ap & pr2 & r1 & b3 & l' & Hn & Hfr & Hat2 & Htl2 & Hsk2 & Hb3 & Hd & Hge).
    cbn [rev app] in Hd. subst d.
    pose proof (frame_tlen _ _ _ _ Hwf Hfr) as Htl1.
    destruct Hfr as [Hwf1 Htape1 Hstrs1 Hst1].
    rewrite Htape in Htape1. rewrite Hst in Hst1.
    destruct (sim_close m1 r1 pr2 b3 r L_objCont T0 wsm (mk_word cLBRACE 0) st0 ret Hwf1 Hat2 Htl2 Hsk2)
      as (m' & Hn' & Hwf' & Hat' & Htl' & Htape' & Hstrs' & Hst' & Hpre & Hcl); auto.
    assert (Hb : tlen m1 + 1 < two56).
    { pose proof (tlen_bound m' r true 1 Hat' Htl') as B. rewrite (wf_tlen m' Hwf'), Htape' in B.
      rewrite (wf_tlen m1 Hwf1), Htape1. cbn [length] in *. rewrite !app_length in *. cbn [length] in *. lia. }
    exists (k + 1)%nat, m',
      (mk_word cLBRACE (N.of_nat (length T0) + N.of_nat (length wsm) + 2) :: wsm ++ [mk_word cRBRACE (N.of_nat (length T0))]),
      ap, true.
    split; [eapply nsteps_trans; [exact Hn|exact Hn']|].
    split; [exact Hwf'|]. split; [exact Hat'|]. split; [exact Htl'|].
    split.
    { rewrite Htape', Hb3, rev_container. rewrite lor_mk by exact Hb. cbn [app]. rewrite <- app_assoc. cbn [app].
      repeat first [lia | reflexivity | progress f_equal]. }
    split; [rewrite Hstrs', Hstrs1; reflexivity|]. split; [exact Hst'|].
    split.
    { apply gv_obj.
      - rewrite Hstrs'. replace (N.of_nat (length T0) + 1) with (tlen m) by lia. exact Hge.
      - lia. }
    split; [reflexivity|]. destruct Hpre as (pre' & Hpre). exists pre', b3. split; [exact Hpre|exact Hcl].
Qed.


Lemma ge_single SB i ws v : gv SB i ws v -> ge SB i ws [v].
Proof.
  intros H. pose proof (ge_cons SB [] i ws v [] [] H (ge_nil _ _)) as G.
  rewrite !app_nil_r in G. exact G.
Qed.

Lemma gm_single SB X i kw klen key wsv v :
  gs SB kw klen key -> gv (SB ++ X) (i + 2) wsv v -> gm (SB ++ X) i (kw :: klen :: wsv) [(key, v)].
Proof.
  intros H1 H2. pose proof (gm_cons SB X [] i kw klen key wsv v [] [] H1 H2 (gm_nil _ _)) as G.
  rewrite !app_nil_r in G. exact G.
Qed.

(* --- elements -------------------------------------------------------- *)
Lemma PE_step f : P_V f -> P_E f -> P_E (S f).
Proof.
  intros HV HE s acc d r m l Hspec Hl Hwf Hat Htl.
  rewrite spec_elems_S in Hspec.
  destruct (spec_value f s) as [[v r1]| | |] eqn:Ev; try discriminate.
  destruct (skip_ws r1) as [|b r'] eqn:Esk; [discriminate|].
  assert (Hvl : vlabel l retArray L_arrCont).
  { destruct Hl as [-> | ->]; [right; right|right; left]; auto. }
  destruct (b2n b =? cCOMMA) eqn:Ec.
  - assert (Hdel : delim_ok r1 = true) by (eapply skip_ws_delim; [exact Esk|rewrite Ec; reflexivity]).
    destruct (HV s v r1 m l retArray L_arrCont Ev (or_intror Hdel) Hvl Hwf Hat Htl)
      as (k1 & m1 & ws1 & ap1 & pr1 & Hn1 & Hfr1 & Hat1 & Htl1 & Hgv1 & _).
    pose proof (fr_wf _ _ _ _ Hfr1) as Hwf1.
    destruct (sim_markup m1 r1 pr1 b r' L_arrCont L_arrValue Hwf1 Hat1 Htl1 Esk)
      as (m2 & Hn2 & Hfr2 & Hat2 & Htl2).
    { right; right. apply N.eqb_eq in Ec. auto. }
    pose proof (fr_wf _ _ _ _ Hfr2) as Hwf2.
    destruct (HE r' (v :: acc) d r m2 L_arrValue Hspec (or_intror eq_refl) Hwf2 Hat2 Htl2)
      as (k3 & m3 & ws3 & ap3 & pr3 & r3 & b3 & l3 & Hn3 & Hfr3 & Hat3 & Htl3 & Hsk3 & Hb3 & Hd & Hge3).
    exists (k1 + (1 + k3))%nat, m3, (ws1 ++ ws3), (ap1 ++ ap3), pr3, r3, b3, (v :: l3).
    split. { eapply nsteps_trans; [exact Hn1|]. eapply nsteps_trans; [exact Hn2|exact Hn3]. }
    split. { exact (frame_trans _ _ _ _ _ _ _ Hfr1 (frame_trans _ _ _ _ _ _ _ Hfr2 Hfr3)). }
    split; [exact Hat3|]. split; [exact Htl3|]. split; [exact Hsk3|]. split; [exact Hb3|].
    split. { rewrite Hd. cbn [rev]. rewrite <- app_assoc. reflexivity. }
    rewrite (frame_strs _ _ _ _ Hfr3), (frame_strs _ _ _ _ Hfr2), app_nil_r in Hge3 |- *.
    apply ge_cons; [exact Hgv1|].
    rewrite (frame_tlen _ _ _ _ Hwf1 Hfr2), (frame_tlen _ _ _ _ Hwf Hfr1) in Hge3. cbn [length] in Hge3.
    replace (tlen m + N.of_nat (length ws1) + N.of_nat 0) with (tlen m + N.of_nat (length ws1)) in Hge3 by lia.
    exact Hge3.
  - destruct (b2n b =? cRBRACK) eqn:Eb; [|discriminate]. injection Hspec as <- <-.
    assert (Hdel : delim_ok r1 = true).
    { eapply skip_ws_delim; [exact Esk|rewrite Eb]. rewrite !orb_true_r. reflexivity. }
    destruct (HV s v r1 m l retArray L_arrCont Ev (or_intror Hdel) Hvl Hwf Hat Htl)
      as (k1 & m1 & ws1 & ap1 & pr1 & Hn1 & Hfr1 & Hat1 & Htl1 & Hgv1 & _).
    exists k1, m1, ws1, ap1, pr1, r1, b, [v].
    split; [exact Hn1|]. split; [exact Hfr1|]. split; [exact Hat1|]. split; [exact Htl1|].
    split; [exact Esk|]. split; [apply N.eqb_eq; exact Eb|].
    split; [reflexivity|]. apply ge_single. exact Hgv1.
Qed.

(* --- members --------------------------------------------------------- *)
Lemma PM_step f : P_V f -> P_M f -> P_M (S f).
Proof.
  intros HV HM s acc d r m l Hspec Hl Hwf Hat Htl.
  rewrite spec_members_S in Hspec.
  destruct (skip_ws s) as [|b r0] eqn:Esk; [discriminate|].
  destruct (b2n b =? cQUOTE) eqn:Eq; [|discriminate]. apply N.eqb_eq in Eq.
  destruct (spec_string f r0 []) as [[key r1]| | |] eqn:Es; try discriminate.
  destruct (skip_ws r1) as [|b1 r2] eqn:Esk1; [discriminate|].
  destruct (b2n b1 =? cCOLON) eqn:Ecol; [|discriminate]. apply N.eqb_eq in Ecol.
  destruct (spec_value f r2) as [[v r3]| | |] eqn:Ev; try discriminate.
  destruct (skip_ws r3) as [|b3 r4] eqn:Esk3; [discriminate|].
  (* key *)
  destruct (sim_string m s true b r0 key r1 f l L_objColon Hwf Hat Htl Esk Eq Es)
    as (m1 & kw & klen & ap1 & Hn1 & Hfr1 & Hat1 & Htl1 & Hgs).
  { intros m1 Hu. rewrite (step_uchar copy l m m1 _ Hu). destruct Hl as [-> | ->]; reflexivity. }
  pose proof (fr_wf _ _ _ _ Hfr1) as Hwf1.
  (* colon *)
  destruct (sim_markup m1 r1 true b1 r2 L_objColon L_objValue Hwf1 Hat1 Htl1 Esk1)
    as (m2 & Hn2 & Hfr2 & Hat2 & Htl2).
  { left. auto. }
  pose proof (fr_wf _ _ _ _ Hfr2) as Hwf2.
  (* value *)
  assert (Hdel : delim_ok r3 = true).
  { eapply skip_ws_delim; [exact Esk3|].
    destruct (b2n b3 =? cCOMMA); [reflexivity|]. destruct (b2n b3 =? cRBRACE); [reflexivity|discriminate]. }
  destruct (HV r2 v r3 m2 L_objValue retObject L_objCont Ev (or_intror Hdel) (or_introl (conj eq_refl (conj eq_refl eq_refl))) Hwf2 Hat2 Htl2)
    as (k3 & m3 & wsv & ap3 & pr3 & Hn3 & Hfr3 & Hat3 & Htl3 & Hgv3 & _).
  pose proof (fr_wf _ _ _ _ Hfr3) as Hwf3.
  assert (Htlen2 : tlen m2 = tlen m + 2).
  { rewrite (frame_tlen _ _ _ _ Hwf1 Hfr2), (frame_tlen _ _ _ _ Hwf Hfr1). cbn [length]. lia. }
  assert (Hstrs3 : rev (strs_rev m3) = rev (strs_rev m1) ++ ap3).
  { rewrite (frame_strs _ _ _ _ Hfr3), (frame_strs _ _ _ _ Hfr2), app_nil_r. reflexivity. }
  rewrite Hstrs3, Htlen2 in Hgv3.
  destruct (b2n b3 =? cCOMMA) eqn:Ec.
  - destruct (sim_markup m3 r3 pr3 b3 r4 L_objCont L_objKey Hwf3 Hat3 Htl3 Esk3)
      as (m4 & Hn4 & Hfr4 & Hat4 & Htl4).
    { right; left. apply N.eqb_eq in Ec. auto. }
    pose proof (fr_wf _ _ _ _ Hfr4) as Hwf4.
    destruct (HM r4 ((key, v) :: acc) d r m4 L_objKey Hspec (or_intror eq_refl) Hwf4 Hat4 Htl4)
      as (k5 & m5 & ws5 & ap5 & pr5 & r5 & b5 & l5 & Hn5 & Hfr5 & Hat5 & Htl5 & Hsk5 & Hb5 & Hd & Hgm5).
    exists (1 + (1 + (k3 + (1 + k5))))%nat, m5, (kw :: klen :: wsv ++ ws5), (ap1 ++ ap3 ++ ap5), pr5, r5, b5, ((key, v) :: l5).
    split.
    { eapply nsteps_trans; [exact Hn1|]. eapply nsteps_trans; [exact Hn2|].
      eapply nsteps_trans; [exact Hn3|]. eapply nsteps_trans; [exact Hn4|exact Hn5]. }
    split.
    { exact (frame_trans _ _ _ _ _ _ _ Hfr1 (frame_trans _ _ _ _ _ _ _ Hfr2
              (frame_trans _ _ _ _ _ _ _ Hfr3 (frame_trans _ _ _ _ _ _ _ Hfr4 Hfr5)))). }
    split; [exact Hat5|]. split; [exact Htl5|]. split; [exact Hsk5|]. split; [exact Hb5|].
    split. { rewrite Hd. cbn [rev]. rewrite <- app_assoc. reflexivity. }
    assert (Hstrs5 : rev (strs_rev m5) = (rev (strs_rev m1) ++ ap3) ++ ap5).
    { rewrite (frame_strs _ _ _ _ Hfr5), (frame_strs _ _ _ _ Hfr4), app_nil_r, Hstrs3. reflexivity. }
    rewrite Hstrs5 in Hgm5 |- *.
    apply gm_cons; [exact Hgs|exact Hgv3|].
    rewrite (frame_tlen _ _ _ _ Hwf3 Hfr4), (frame_tlen _ _ _ _ Hwf2 Hfr3), Htlen2 in Hgm5. cbn [length] in Hgm5.
    replace (tlen m + 2 + N.of_nat (length wsv) + N.of_nat 0) with (tlen m + 2 + N.of_nat (length wsv)) in Hgm5 by lia.
    exact Hgm5.
  - destruct (b2n b3 =? cRBRACE) eqn:Eb; [|discriminate]. injection Hspec as <- <-.
    exists (1 + (1 + k3))%nat, m3, (kw :: klen :: wsv), (ap1 ++ ap3), pr3, r3, b3, [(key, v)].
    split.
    { eapply nsteps_trans; [exact Hn1|]. eapply nsteps_trans; [exact Hn2|exact Hn3]. }
    split.
    { exact (frame_trans _ _ _ _ _ _ _ Hfr1 (frame_trans _ _ _ _ _ _ _ Hfr2 Hfr3)). }
    split; [exact Hat3|]. split; [exact Htl3|]. split; [exact Esk3|]. split; [apply N.eqb_eq; exact Eb|].
    split; [reflexivity|].
    rewrite Hstrs3. apply gm_single; assumption.
Qed.

(* --- values ---------------------------------------------------------- *)
Lemma same_write_tape m v t : same_but_tape m (write_tape m v t).
Proof. repeat split. Qed.
Lemma same_write_raw2 m w1 w2 : same_but_tape m (write_raw2 m w1 w2).
Proof. repeat split. Qed.

Lemma PV_step f : P_E f -> P_M f -> P_V (S f).
Proof.
  intros HE HM s d r m l ret cont Hspec Hdel Hvl Hwf Hat Htl.
  destruct (vlabel_cont _ _ _ Hvl) as [Hcont Hret].
  rewrite spec_value_S in Hspec.
  destruct (skip_ws s) as [|b r0] eqn:Esk; [discriminate|]. cbv zeta in Hspec.
  destruct (b2n b =? cLBRACE) eqn:E1.
  { (* object *)
    apply N.eqb_eq in E1.
    destruct (sim_open m s b r0 l ret L_objBegin Hwf Hat Htl Esk (or_introl (conj E1 eq_refl)))
      as (m2 & Hn2 & Hwf2 & Hat2 & Htl2 & Htape2 & Hstrs2 & Hst2).
    { intros m1 Hu. rewrite (step_vlabel copy l ret cont m m1 _ Hvl Hu) by (rewrite E1; reflexivity).
      rewrite value_switch_lbrace by exact E1. rewrite E1. reflexivity. }
    rewrite E1 in Htape2. rewrite (wf_tlen m Hwf) in Hst2.
    destruct (obj_sim f HM r0 d r m2 ret (tape_rev m) (stack m) Hspec Hwf2 Hat2 (tl_ok_weaken m2 1 0 Htl2 ltac:(lia)) Hret Htape2 Hst2)
      as (k & m' & ws & ap & pr' & Hn & Hwf' & Hat' & Htl' & Htape' & Hstrs' & Hst' & Hgv & Hcd & Hpre).
    exists (1 + k)%nat, m', ws, ap, pr'.
    split. { rewrite Hcont. eapply nsteps_trans; [exact Hn2|exact Hn]. }
    split. { constructor; [exact Hwf'|exact Htape'|rewrite Hstrs', Hstrs2; reflexivity|exact Hst']. }
    split; [exact Hat'|]. split; [eapply tl_ok_weaken; [exact Htl'|lia]|].
    split. { rewrite (wf_tlen m Hwf). exact Hgv. }
    intros _. split; [exact Htl'|exact Hpre]. }
  destruct (b2n b =? cLBRACK) eqn:E2.
  { (* array *)
    apply N.eqb_eq in E2.
    destruct (sim_open m s b r0 l ret L_arrBegin Hwf Hat Htl Esk (or_intror (conj E2 eq_refl)))
      as (m2 & Hn2 & Hwf2 & Hat2 & Htl2 & Htape2 & Hstrs2 & Hst2).
    { intros m1 Hu. rewrite (step_vlabel copy l ret cont m m1 _ Hvl Hu) by (rewrite E2; reflexivity).
      rewrite value_switch_lbrack by exact E2. rewrite E2. reflexivity. }
    rewrite E2 in Htape2. rewrite (wf_tlen m Hwf) in Hst2.
    destruct (arr_sim f HE r0 d r m2 ret (tape_rev m) (stack m) Hspec Hwf2 Hat2 (tl_ok_weaken m2 1 0 Htl2 ltac:(lia)) Hret Htape2 Hst2)
      as (k & m' & ws & ap & pr' & Hn & Hwf' & Hat' & Htl' & Htape' & Hstrs' & Hst' & Hgv & Hcd & Hpre).
    exists (1 + k)%nat, m', ws, ap, pr'.
    split. { rewrite Hcont. eapply nsteps_trans; [exact Hn2|exact Hn]. }
    split. { constructor; [exact Hwf'|exact Htape'|rewrite Hstrs', Hstrs2; reflexivity|exact Hst']. }
    split; [exact Hat'|]. split; [eapply tl_ok_weaken; [exact Htl'|lia]|].
    split. { rewrite (wf_tlen m Hwf). exact Hgv. }
    intros _. split; [exact Htl'|exact Hpre]. }
  destruct (b2n b =? cQUOTE) eqn:E3.
  { (* string *)
    apply N.eqb_eq in E3.
    destruct (spec_string f r0 []) as [[str r']| | |] eqn:Es; try discriminate.
    injection Hspec as <- <-.
    destruct (sim_string m s true b r0 str r' f l cont Hwf Hat Htl Esk E3 Es)
      as (m1 & w & len & ap & Hn & Hfr & Hat1 & Htl1 & Hgs).
    { intros m1 Hu. rewrite (step_vlabel copy l ret cont m m1 _ Hvl Hu) by reflexivity.
      apply value_switch_quote. reflexivity. }
    exists 1%nat, m1, [w; len], ap, true.
    split; [exact Hn|]. split; [exact Hfr|]. split; [exact Hat1|]. split; [exact Htl1|].
    split; [apply gv_string; exact Hgs|]. intros H; discriminate H. }
  assert (Hfol : delim_ok r = true -> follows_ok r = true) by apply delim_ok_follows.
  destruct (b2n b =? c_t) eqn:E4.
  { apply N.eqb_eq in E4.
    destruct (starts_with [116; 114; 117; 101] (b :: r0)) as [r'|] eqn:Esw; [|discriminate].
    injection Hspec as <- <-. destruct Hdel as [Hdel|Hdel]; [discriminate|].
    apply starts_with_split in Esw. cbn [of_codes map app] in Esw.
    rewrite Esw in Esk. injection Esw as -> _.
    destruct (sim_scalar m s (n2b 116) [n2b 114; n2b 117; n2b 101] r' l cont (fun m1 => write_tape m1 0 c_t) [mk_word c_t 0]
                Hwf Hat Htl Esk eq_refl)
      as (m' & pr' & Hn & Hfr & Hat' & Htl'); [cbn [length]; lia| | |].
    { intros m1. split; [reflexivity|]. split; [reflexivity|]. apply same_write_tape. }
    { intros m1 Hu Hcur. rewrite (step_vlabel copy l ret cont m m1 _ Hvl Hu) by reflexivity.
      rewrite value_switch_t by reflexivity. rewrite Hcur.
      replace (is_true_atom ([n2b 116; n2b 114; n2b 117; n2b 101] ++ r')) with true; [reflexivity|].
      symmetry. apply true_atom_spec. exists r'. split; [reflexivity|auto]. }
    exists 1%nat, m', [mk_word c_t 0], [], pr'.
    split; [exact Hn|]. split; [exact Hfr|]. split; [exact Hat'|]. split; [exact Htl'|].
    split; [apply gv_atom; right; left; split; reflexivity|]. intros H; discriminate H. }
  destruct (b2n b =? c_f) eqn:E5.
  { apply N.eqb_eq in E5.
    destruct (starts_with [102; 97; 108; 115; 101] (b :: r0)) as [r'|] eqn:Esw; [|discriminate].
    injection Hspec as <- <-. destruct Hdel as [Hdel|Hdel]; [discriminate|].
    apply starts_with_split in Esw. cbn [of_codes map app] in Esw.
    rewrite Esw in Esk. injection Esw as -> _.
    destruct (sim_scalar m s (n2b 102) [n2b 97; n2b 108; n2b 115; n2b 101] r' l cont (fun m1 => write_tape m1 0 c_f) [mk_word c_f 0]
                Hwf Hat Htl Esk eq_refl)
      as (m' & pr' & Hn & Hfr & Hat' & Htl'); [cbn [length]; lia| | |].
    { intros m1. split; [reflexivity|]. split; [reflexivity|]. apply same_write_tape. }
    { intros m1 Hu Hcur. rewrite (step_vlabel copy l ret cont m m1 _ Hvl Hu) by reflexivity.
      rewrite value_switch_f by reflexivity. rewrite Hcur.
      replace (is_false_atom ([n2b 102; n2b 97; n2b 108; n2b 115; n2b 101] ++ r')) with true; [reflexivity|].
      symmetry. apply false_atom_spec. exists r'. split; [reflexivity|auto]. }
    exists 1%nat, m', [mk_word c_f 0], [], pr'.
    split; [exact Hn|]. split; [exact Hfr|]. split; [exact Hat'|]. split; [exact Htl'|].
    split; [apply gv_atom; right; right; split; reflexivity|]. intros H; discriminate H. }
  destruct (b2n b =? c_n) eqn:E6.
  { apply N.eqb_eq in E6.
    destruct (starts_with [110; 117; 108; 108] (b :: r0)) as [r'|] eqn:Esw; [|discriminate].
    injection Hspec as <- <-. destruct Hdel as [Hdel|Hdel]; [discriminate|].
    apply starts_with_split in Esw. cbn [of_codes map app] in Esw.
    rewrite Esw in Esk. injection Esw as -> _.
    destruct (sim_scalar m s (n2b 110) [n2b 117; n2b 108; n2b 108] r' l cont (fun m1 => write_tape m1 0 c_n) [mk_word c_n 0]
                Hwf Hat Htl Esk eq_refl)
      as (m' & pr' & Hn & Hfr & Hat' & Htl'); [cbn [length]; lia| | |].
    { intros m1. split; [reflexivity|]. split; [reflexivity|]. apply same_write_tape. }
    { intros m1 Hu Hcur. rewrite (step_vlabel copy l ret cont m m1 _ Hvl Hu) by reflexivity.
      rewrite value_switch_n by reflexivity. rewrite Hcur.
      replace (is_null_atom ([n2b 110; n2b 117; n2b 108; n2b 108] ++ r')) with true; [reflexivity|].
      symmetry. apply null_atom_spec. exists r'. split; [reflexivity|auto]. }
    exists 1%nat, m', [mk_word c_n 0], [], pr'.
    split; [exact Hn|]. split; [exact Hfr|]. split; [exact Hat'|]. split; [exact Htl'|].
    split; [apply gv_atom; left; split; reflexivity|]. intros H; discriminate H. }
  destruct ((b2n b =? cMINUS) || is_digit (b2n b)) eqn:E7; [|discriminate].
  destruct (lex_number (b :: r0)) as [[lit r']|] eqn:El; [|discriminate].
  destruct (num_spec lit) as [n|] eqn:En; [|discriminate].
  injection Hspec as <- <-. destruct Hdel as [Hdel|Hdel]; [discriminate|].
  destruct (lex_number_shape _ _ _ El) as (pc & Hpwf & Hren & _).
  destruct (render pc) as [|b' t] eqn:Er.
  { exfalso. apply (render_nonempty pc Hpwf). rewrite Er. reflexivity. }
  cbn [app] in Hren. injection Hren as <- Hr0.
  assert (Hpl : forallb (fun b => plainc (b2n b)) (b :: t) = true).
  { pose proof (partb_render pc Hpwf) as Hp. rewrite Er in Hp. rewrite forallb_forall in *.
    intros x Hx. apply partb_plainc. apply Hp. exact Hx. }
  assert (Esk' : skip_ws s = (b :: t) ++ r') by (rewrite Esk, Hr0; reflexivity).
  pose proof (number_model_correct _ _ _ El (delim_ok_rest_ok _ Hdel)) as Hnum. rewrite En in Hnum. cbn [option_map] in Hnum.
  destruct (sim_scalar m s b t r' l cont (fun m1 => write_raw2 m1 (fst (enc_num n)) (snd (enc_num n)))
              [fst (enc_num n); snd (enc_num n)] Hwf Hat Htl Esk' Hpl)
    as (m' & pr' & Hn & Hfr & Hat' & Htl'); [cbn [length]; lia| | |].
  { intros m1. split; [reflexivity|]. split; [reflexivity|]. apply same_write_raw2. }
  { intros m1 Hu Hcur.
    assert (Hnb : (b2n b =? cRBRACK) = false).
    { unfold is_digit, cMINUS, c0, c9, cRBRACK in *. lia. }
    rewrite (step_vlabel copy l ret cont m m1 _ Hvl Hu Hnb).
    rewrite value_switch_num by exact E7. rewrite Hcur. cbn [app]. rewrite <- Hr0, Hnum.
    destruct (enc_num n). reflexivity. }
  exists 1%nat, m', [fst (enc_num n); snd (enc_num n)], [], pr'.
  split; [exact Hn|]. split; [exact Hfr|]. split; [exact Hat'|]. split; [exact Htl'|].
  split; [eapply gv_num; exact En|]. intros H; discriminate H.
Qed.

Theorem sim_all : forall f, P_V f /\ P_E f /\ P_M f.
Proof.
  induction f as [|f (HV & HE & HM)].
  - split; [|split].
    + intros s d r m l ret cont H. discriminate H.
    + intros s acc d r m l H. discriminate H.
    + intros s acc d r m l H. discriminate H.
  - split; [|split].
    + apply PV_step; assumption.
    + apply PE_step; assumption.
    + apply PM_step; assumption.
Qed.

(* --- the root -------------------------------------------------------- *)
Theorem root_sim f t d m0 :
  spec_value f t = SOk (d, []) -> is_container d = true ->
  mwf m0 -> at_text m0 t true -> tl_ok m0 0 ->
  exists k m' ws ap pr',
    nsteps copy k L_start m0 L_startContinue m' /\ mwf m' /\ at_text m' [] pr' /\ tl_ok m' 1 /\
    tape_rev m' = rev ws ++ tape_rev m0 /\ strs_rev m' = rev ap ++ strs_rev m0 /\ stack m' = stack m0 /\
    gv (rev (strs_rev m')) (tlen m0) ws d /\
    exists pre' c, msg = pre' ++ [c] /\ closer c.
Proof.
  intros Hspec Hcd Hwf Hat Htl.
  destruct f as [|f]; [discriminate|].
  destruct (sim_all f) as (_ & HE & HM).
  rewrite spec_value_S in Hspec.
  destruct (skip_ws t) as [|b r0] eqn:Esk; [discriminate|]. cbv zeta in Hspec.
  assert (Hret : retStart < 4) by reflexivity.
  destruct (b2n b =? cLBRACE) eqn:E1.
  { apply N.eqb_eq in E1.
    destruct (sim_open m0 t b r0 L_start retStart L_objBegin Hwf Hat Htl Esk (or_introl (conj E1 eq_refl)))
      as (m2 & Hn2 & Hwf2 & Hat2 & Htl2 & Htape2 & Hstrs2 & Hst2).
    { intros m1 Hu. rewrite (step_uchar copy L_start m0 m1 _ Hu). unfold continue_root. rewrite E1. reflexivity. }
    rewrite E1 in Htape2. rewrite (wf_tlen m0 Hwf) in Hst2.
    destruct (obj_sim f HM r0 d [] m2 retStart (tape_rev m0) (stack m0) Hspec Hwf2 Hat2 (tl_ok_weaken m2 1 0 Htl2 ltac:(lia)) Hret Htape2 Hst2)
      as (k & m' & ws & ap & pr' & Hn & Hwf' & Hat' & Htl' & Htape' & Hstrs' & Hst' & Hgv & _ & Hpre).
    exists (1 + k)%nat, m', ws, ap, pr'.
    split. { eapply nsteps_trans; [exact Hn2|exact Hn]. }
    split; [exact Hwf'|]. split; [exact Hat'|]. split; [exact Htl'|]. split; [exact Htape'|].
    split; [rewrite Hstrs', Hstrs2; reflexivity|]. split; [exact Hst'|].
    split; [rewrite (wf_tlen m0 Hwf); exact Hgv|exact Hpre]. }
  destruct (b2n b =? cLBRACK) eqn:E2.
  { apply N.eqb_eq in E2.
    destruct (sim_open m0 t b r0 L_start retStart L_arrBegin Hwf Hat Htl Esk (or_intror (conj E2 eq_refl)))
      as (m2 & Hn2 & Hwf2 & Hat2 & Htl2 & Htape2 & Hstrs2 & Hst2).
    { intros m1 Hu. rewrite (step_uchar copy L_start m0 m1 _ Hu). unfold continue_root. rewrite E2. reflexivity. }
    rewrite E2 in Htape2. rewrite (wf_tlen m0 Hwf) in Hst2.
    destruct (arr_sim f HE r0 d [] m2 retStart (tape_rev m0) (stack m0) Hspec Hwf2 Hat2 (tl_ok_weaken m2 1 0 Htl2 ltac:(lia)) Hret Htape2 Hst2)
      as (k & m' & ws & ap & pr' & Hn & Hwf' & Hat' & Htl' & Htape' & Hstrs' & Hst' & Hgv & _ & Hpre).
    exists (1 + k)%nat, m', ws, ap, pr'.
    split. { eapply nsteps_trans; [exact Hn2|exact Hn]. }
    split; [exact Hwf'|]. split; [exact Hat'|]. split; [exact Htl'|]. split; [exact Htape'|].
    split; [rewrite Hstrs', Hstrs2; reflexivity|]. split; [exact Hst'|].
    split; [rewrite (wf_tlen m0 Hwf); exact Hgv|exact Hpre]. }
  exfalso.
  destruct (b2n b =? cQUOTE).
  { destruct (spec_string f r0 []) as [[str r']| | |]; try discriminate. injection Hspec as <- _. discriminate. }
  destruct (b2n b =? c_t).
  { destruct (starts_with _ _); [|discriminate]. injection Hspec as <- _. discriminate. }
  destruct (b2n b =? c_f).
  { destruct (starts_with _ _); [|discriminate]. injection Hspec as <- _. discriminate. }
  destruct (b2n b =? c_n).
  { destruct (starts_with _ _); [|discriminate]. injection Hspec as <- _. discriminate. }
  destruct ((b2n b =? cMINUS) || is_digit (b2n b)); [|discriminate].
  destruct (lex_number (b :: r0)) as [[lit r']|]; [|discriminate].
  destruct (num_spec lit); [|discriminate]. injection Hspec as <- _. discriminate.
Qed.

End Sim.
