(* ApiTotalWalk.v — plain traversal (walk_doc) and Iter.Interface()
   (interface_doc) on ARBITRARY tapes.
   - Neither ever returns Crash, whatever the tape, strings and message.
   - walk_doc never runs out of fuel either (since fix F17 a NOP with skip
     count 0 is an error in NextElementBytes).
   - interface_doc does not run out of fuel if no array-start word that sits
     in the value slot of an object member (after a key length word that fits
     a buffer) points at or before itself.  The side condition is necessary
     (see ApiTotalFinal.v for a tape on which the model returns OutOfFuel and
     the Go code loops for ever); Deserialize results satisfy it. *)
From SJ Require Import Model.Base Model.RefTables Spec.Json Model.Tape Model.Iter Model.Walk.
From SJ Require Import Proofs.ApiTotalBase Proofs.ApiTotalLookup.
From Coq Require Import Lia ZifyBool ZifyNat ZifyN.
Open Scope Z_scope.

Lemma okP_strengthen {A} fu (P Q : A -> Prop) (o : outcome A) :
  okP fu P o -> (forall a, o = Ok a -> Q a) -> okP fu Q o.
Proof. destruct o; cbn; auto. Qed.

(* words of the view after the queued tag *)
Definition m (i : iter) : nat := Z.to_nat (i_len i - i_off i).

(* every array-start word points past itself *)
Definition arrays_forward (pj : pjson) : Prop :=
  forall p w, nth_error (pj_tape pj) p = Some w -> word_tag w = TagArrayStart ->
    Z.of_nat p < Z.of_N (word_val w).

(* the same, only for words preceded by a word that can be a key length *)
Definition member_arrays_forward (pj : pjson) : Prop :=
  forall p wl w, nth_error (pj_tape pj) p = Some wl -> nth_error (pj_tape pj) (S p) = Some w ->
    ((wl <= N.of_nat (length (pj_msg pj)))%N \/ (wl <= N.of_nat (length (pj_strings pj)))%N) ->
    word_tag w = TagArrayStart -> Z.of_nat (S p) < Z.of_N (word_val w).

Lemma arrays_forward_member pj : arrays_forward pj -> member_arrays_forward pj.
Proof. intros H p wl w _ Hw _ Ht. exact (H _ _ Hw Ht). Qed.

(* ------------------------------------------------------------------ *)
(* the local loops, named                                              *)

Definition welems (f : nat) (pj : pjson) :=
  fix elems (k : nat) (it : iter) (acc : list doc) : outcome doc :=
    match k with
    | O => OutOfFuel
    | S k' =>
      do r <- advance pj it;
      let '(it', t) := r in
      if t_is t TypeNone then Ok (DArr (rev acc))
      else do d <- walk_value f pj it'; elems k' it' (d :: acc)
    end.

Definition wmembers (f : nat) (pj : pjson) :=
  fix members (k : nat) (ob : cont) (acc : list (bytes * doc)) : outcome doc :=
    match k with
    | O => OutOfFuel
    | S k' =>
      do r <- next_element (cont_fuel ob) pj ob;
      match r with
      | (_, None) => Ok (DObj (rev acc))
      | (ob', Some (name, el, _)) =>
        do d <- walk_value f pj el; members k' ob' ((name, d) :: acc)
      end
    end.

Lemma walk_value_S f pj i :
  walk_value (S f) pj i =
    let ty := iter_type i in
    if t_is ty TypeNull then Ok DNull
    else if t_is ty TypeBool then do b <- iter_bool i; Ok (DBool b)
    else if t_is ty TypeInt then do z <- iter_int pj i; Ok (DNum (NInt z))
    else if t_is ty TypeUint then do u <- iter_uint pj i; Ok (DNum (NUint u))
    else if t_is ty TypeFloat then do bf <- iter_float_flags pj i; Ok (DNum (NFloat (fst bf) (snd bf)))
    else if t_is ty TypeString then do s <- string_bytes pj i; Ok (DStr s)
    else if t_is ty TypeArray then
      do a <- iter_array i; welems f pj (S f) (cont_iter a) []
    else if t_is ty TypeObject then
      do o <- iter_object i; wmembers f pj (S f) o []
    else Err.
Proof. reflexivity. Qed.

Definition ielems (f : nat) (pj : pjson) :=
  fix elems (k : nat) (it : iter) (acc : list ival) : outcome ival :=
    match k with
    | O => OutOfFuel
    | S k' =>
      do r <- advance pj it;
      let '(it', t) := r in
      if t_is t TypeNone then Ok (IArr (rev acc))
      else do d <- interface_val f pj it'; elems k' it' (d :: acc)
    end.

Definition imembers (f : nat) (pj : pjson) :=
  fix members (k : nat) (ob : cont) (acc : list (bytes * ival)) : outcome ival :=
    match k with
    | O => OutOfFuel
    | S k' =>
      do r <- next_element (cont_fuel ob) pj ob;
      match r with
      | (_, None) => Ok (IMap acc)
      | (ob', Some (name, el, _)) =>
        do d <- interface_val f pj el; members k' ob' (map_set name d acc)
      end
    end.

Lemma interface_val_S f pj i :
  interface_val (S f) pj i =
    let ty := TagToType_ref (i_t i) in
    if t_is ty TypeUint then do u <- iter_uint pj i; Ok (IUint u)
    else if t_is ty TypeInt then do z <- iter_int pj i; Ok (IInt z)
    else if t_is ty TypeFloat then do b <- iter_float pj i; Ok (IFloat b)
    else if t_is ty TypeNull then Ok INil
    else if t_is ty TypeString then do s <- string_bytes pj i; Ok (IStr s)
    else if t_is ty TypeBool then Ok (IBool (t_is (i_t i) TagBoolTrue))
    else if t_is ty TypeArray then
      do a <- iter_array i; ielems f pj (S f) (cont_iter a) []
    else if t_is ty TypeObject then
      do o <- iter_object i; imembers f pj (S f) o []
    else Err.
Proof. reflexivity. Qed.

(* ------------------------------------------------------------------ *)
(* a successful plain walk started on a complete element               *)

Lemma walk_value_ok_inside fuel pj i d : walk_value fuel pj i = Ok d -> pos i <= i_len i.
Proof.
  destruct fuel as [|f]; [discriminate|]. rewrite walk_value_S. cbv zeta.
  unfold iter_type, pos. destruct (i_len i <? i_off i + i_add i) eqn:E; [|lia].
  cbn. discriminate.
Qed.

(* a successful Interface() on an element whose open tag points backwards:
   only an array can do that (Object and Root check their end index) *)
Definition ipost (i : iter) : Prop :=
  is_open (i_t i) = true -> Z.of_N (i_cur i) < i_off i -> i_t i = TagArrayStart.

Lemma interface_val_ok_open fuel pj i v : interface_val fuel pj i = Ok v -> ipost i.
Proof.
  destruct fuel as [|f]; [discriminate|]. rewrite interface_val_S. cbv zeta.
  intros H Ho Hc. unfold is_open in Ho.
  destruct (N.eqb_spec (i_t i) TagRoot) as [Er|Er].
  { rewrite Er in H. cbn in H. discriminate. }
  destruct (N.eqb_spec (i_t i) TagObjectStart) as [Eo|Eo].
  { rewrite Eo in H. cbn in H. unfold iter_object in H. rewrite Eo in H. cbn in H.
    replace (Z.of_N (i_cur i) <? i_off i) with true in H by lia. cbn in H. discriminate. }
  destruct (N.eqb_spec (i_t i) TagArrayStart) as [Ea|Ea]; [exact Ea|].
  cbn in Ho. discriminate.
Qed.

(* ------------------------------------------------------------------ *)
(* generic walk, parametric in whether OutOfFuel is excluded           *)

Section Walk.
Variable pj : pjson.
Variable fu : bool.
Hypothesis NE : forall o, cont_ok pj o -> okP fu (ne_post pj o) (next_element (cont_fuel o) pj o).

Lemma okP_fuel0 {A} (P : A -> Prop) : (fu = false -> False) -> okP fu P (@OutOfFuel A).
Proof. destruct fu; cbn; auto. Qed.

Section Step.
Variable f : nat.
Hypothesis IHf : forall i, iter_ok pj i -> (fu = false -> (m i + 1 < f)%nat) ->
  okP fu top (walk_value f pj i).

Lemma welems_spec : forall k it acc lo,
  iter_ok pj it -> lo <= pos it -> (fu = false -> (Z.to_nat (i_len it - lo) < f)%nat) ->
  (fu = false -> (mu it < k)%nat) -> okP fu top (welems f pj k it acc).
Proof.
  induction k as [|k IH]; intros it acc lo Hok Hlo Hf Hk.
  { apply okP_fuel0. intros E. specialize (Hk E). lia. }
  cbn [welems].
  eapply okP_bind; [apply okP_fuel; apply (advance_spec pj it Hok)|].
  intros [it' t] [HA HT]. cbn [fst snd] in HA, HT. unfold t_is.
  destruct (N.eqb_spec t TypeNone) as [Et|Et]; [exact I|].
  pose proof (ap_ok _ _ _ _ HA) as Hok'. pose proof (ap_len _ _ _ _ HA) as Hlen'.
  destruct HT as [_ HT]. specialize (HT Et). destruct HT as [_ Hr].
  assert (Hm : (mu it' < mu it)%nat).
  { apply (adv_post_mu pj); [exact HA|]. unfold mu. lia. }
  eapply okP_bind with (P := top).
  - apply IHf; [exact Hok'|]. intros E. specialize (Hf E). unfold m. lia.
  - intros d _. apply (IH it' (d :: acc) lo); auto.
    + pose proof Hok' as (_ & _ & K & _). unfold pos in *. lia.
    + rewrite Hlen'. exact Hf.
    + intros E. specialize (Hk E). lia.
Qed.

Lemma wmembers_spec : forall k ob acc lo,
  cont_ok pj ob -> lo <= c_off ob -> (fu = false -> (Z.to_nat (c_len ob - lo) < f)%nat) ->
  (fu = false -> (Z.to_nat (c_len ob - c_off ob) < k)%nat) -> okP fu top (wmembers f pj k ob acc).
Proof.
  induction k as [|k IH]; intros ob acc lo Hok Hlo Hf Hk.
  { apply okP_fuel0. intros E. specialize (Hk E). lia. }
  cbn [wmembers].
  eapply okP_bind; [apply (NE ob Hok)|].
  intros [ob' [[[name el] ty]|]]; [|intros; exact I].
  unfold ne_post, el_post. intros (Hok' & Hlen' & E1 & E2 & E3 & E4 & E5 & E6 & E7 & E8 & E9).
  pose proof (IHf el E1) as Hw.
  assert (Hmf : fu = false -> (m el + 1 < f)%nat).
  { intros E. specialize (Hf E). unfold m. lia. }
  specialize (Hw Hmf).
  destruct (walk_value f pj el) as [d| | |] eqn:Ew; cbn [okP obind] in *; auto.
  apply walk_value_ok_inside in Ew. unfold pos in Ew.
  apply (IH ob' ((name, d) :: acc) lo);
    [exact Hok'|lia|intros E; rewrite Hlen'; exact (Hf E)|intros E; specialize (Hk E); lia].
Qed.
End Step.

Lemma walk_value_gen : forall fuel i,
  iter_ok pj i -> (fu = false -> (m i + 1 < fuel)%nat) -> okP fu top (walk_value fuel pj i).
Proof.
  induction fuel as [|f IHf]; intros i Hok Hf.
  { apply okP_fuel0. intros E. specialize (Hf E). lia. }
  rewrite walk_value_S. cbv zeta. unfold t_is.
  destruct (iter_type i =? TypeNull)%N; [exact I|].
  destruct (iter_type i =? TypeBool)%N.
  { eapply okP_bind; [apply okP_fuel; apply iter_bool_spec|]. intros; exact I. }
  destruct (iter_type i =? TypeInt)%N.
  { eapply okP_bind; [apply okP_fuel; apply (iter_int_spec pj i Hok)|]. intros; exact I. }
  destruct (iter_type i =? TypeUint)%N.
  { eapply okP_bind; [apply okP_fuel; apply (iter_uint_spec pj i Hok)|]. intros; exact I. }
  destruct (iter_type i =? TypeFloat)%N.
  { eapply okP_bind; [apply okP_fuel; apply (iter_float_flags_spec pj i Hok)|]. intros; exact I. }
  destruct (iter_type i =? TypeString)%N.
  { eapply okP_bind; [apply okP_fuel; apply (string_bytes_spec pj i Hok)|]. intros; exact I. }
  destruct (iter_type i =? TypeArray)%N.
  { eapply okP_bind; [apply okP_fuel; apply (iter_array_spec pj i Hok)|].
    intros a (A1 & A2 & A3 & A4 & A5).
    apply (welems_spec f IHf (S f) (cont_iter a) [] (i_off i)).
    - apply cont_iter_ok; exact A1.
    - unfold pos, cont_iter; cbn. lia.
    - intros E. specialize (Hf E). unfold m in Hf. cbn [cont_iter i_len]. lia.
    - intros E. specialize (Hf E). unfold m in Hf. unfold mu, pos, cont_iter; cbn. lia. }
  destruct (iter_type i =? TypeObject)%N; [|exact I].
  eapply okP_bind; [apply okP_fuel; apply (iter_object_spec pj i Hok)|].
  intros o (A1 & A2 & A3 & A4 & A5).
  apply (wmembers_spec f IHf (S f) o [] (i_off i)); auto; try lia.
  - intros E. specialize (Hf E). unfold m in Hf. lia.
  - intros E. specialize (Hf E). unfold m in Hf. lia.
Qed.

Lemma walk_roots_gen : forall fuel it acc,
  iter_ok pj it -> (fu = false -> (mu it < fuel)%nat) -> okP fu top (walk_roots fuel pj it acc).
Proof.
  induction fuel as [|f IH]; intros it acc Hok Hf.
  { apply okP_fuel0. intros E. specialize (Hf E). lia. }
  cbn [walk_roots].
  eapply okP_bind; [apply okP_fuel; apply (advance_spec pj it Hok)|].
  intros [it' t] [HA HT]. cbn [fst snd] in HA, HT. unfold t_is.
  destruct (N.eqb_spec t TypeNone) as [Et|Et]; [exact I|].
  destruct (negb (t =? TypeRoot)%N); [exact I|].
  pose proof (ap_ok _ _ _ _ HA) as Hok'.
  eapply okP_bind; [apply okP_fuel; apply (iter_root_spec pj it' Hok')|].
  intros rr (R1 & R2 & R3 & R4 & _).
  eapply okP_bind with (P := top).
  - apply walk_value_gen; [exact R1|]. intros _.
    destruct Hok' as ([K0 K1] & _). destruct R1 as (_ & K2 & _). unfold m, tlen in *. lia.
  - intros d _. apply IH; [exact Hok'|]. intros E. specialize (Hf E).
    assert (mu it' < mu it)%nat; [|lia].
    apply (adv_post_mu pj); [exact HA|]. destruct HT as [HT _]. unfold mu.
    destruct (Z_lt_le_dec (pos it) (i_len it)); [lia|]. elim Et; auto.
Qed.

Lemma walk_doc_gen : okP fu top (walk_doc pj).
Proof.
  unfold walk_doc. apply walk_roots_gen; [apply iter0_ok|].
  intros _. unfold mu, pos, iter0; cbn. lia.
Qed.

(* ---- Interface() --------------------------------------------------- *)

(* since fix F19 NextElementBytes refuses a member whose open tag points backwards: the
   element handed out never extends backwards, on any tape (this replaced the hypothesis
   "array starts in member position point forward", which only Deserialize results met) *)
Lemma NE_forward : forall o, cont_ok pj o ->
  okP fu (fun r => ne_post pj o r /\
                   match r with (_, Some (_, el, _)) => i_off el <= i_len el | _ => True end)
      (next_element (cont_fuel o) pj o).
Proof.
  intros o Ho. eapply okP_strengthen; [apply (NE o Ho)|].
  intros [o' x] E. split.
  - pose proof (NE o Ho) as H. rewrite E in H. exact H.
  - destruct x as [[[name el] ty]|]; [|exact I]. exact (next_element_forward _ _ _ _ _ _ _ E).
Qed.

Section IStep.
Variable f : nat.
Hypothesis IHf : forall i, iter_ok pj i -> (fu = false -> (m i + 1 < f)%nat) ->
  okP fu top (interface_val f pj i).

Lemma ielems_spec : forall k it acc lo,
  iter_ok pj it -> lo <= pos it -> (fu = false -> (Z.to_nat (i_len it - lo) < f)%nat) ->
  (fu = false -> (mu it < k)%nat) -> okP fu top (ielems f pj k it acc).
Proof.
  induction k as [|k IH]; intros it acc lo Hok Hlo Hf Hk.
  { apply okP_fuel0. intros E. specialize (Hk E). lia. }
  cbn [ielems].
  eapply okP_bind; [apply okP_fuel; apply (advance_spec pj it Hok)|].
  intros [it' t] [HA HT]. cbn [fst snd] in HA, HT. unfold t_is.
  destruct (N.eqb_spec t TypeNone) as [Et|Et]; [exact I|].
  pose proof (ap_ok _ _ _ _ HA) as Hok'. pose proof (ap_len _ _ _ _ HA) as Hlen'.
  destruct HT as [_ HT]. specialize (HT Et). destruct HT as [_ Hr].
  assert (Hm : (mu it' < mu it)%nat).
  { apply (adv_post_mu pj); [exact HA|]. unfold mu. lia. }
  eapply okP_bind with (P := top).
  - apply IHf; [exact Hok'|]. intros E. specialize (Hf E). unfold m. lia.
  - intros d _. apply (IH it' (d :: acc) lo); auto.
    + pose proof Hok' as (_ & _ & K & _). unfold pos in *. lia.
    + rewrite Hlen'. exact Hf.
    + intros E. specialize (Hk E). lia.
Qed.

Lemma imembers_spec : forall k ob acc lo,
  cont_ok pj ob -> (fu = false -> lo <= c_off ob) -> (fu = false -> (Z.to_nat (c_len ob - lo) < f)%nat) ->
  (fu = false -> (Z.to_nat (c_len ob - c_off ob) < k)%nat) -> okP fu top (imembers f pj k ob acc).
Proof.
  induction k as [|k IH]; intros ob acc lo Hok Hlo Hf Hk.
  { apply okP_fuel0. intros E. specialize (Hk E). lia. }
  cbn [imembers].
  eapply okP_bind; [apply (NE_forward ob Hok)|].
  intros [ob' [[[name el] ty]|]]; [|intros; exact I].
  unfold ne_post, el_post. intros ((Hok' & Hlen' & E1 & E2 & E3 & E4 & E5 & E6 & E7 & E8 & E9) & Hfwd0).
  pose proof (IHf el E1) as Hw.
  assert (Hmf : fu = false -> (m el + 1 < f)%nat).
  { intros E. specialize (Hf E). specialize (Hlo E). unfold m. lia. }
  specialize (Hw Hmf).
  destruct (interface_val f pj el) as [d| | |] eqn:Ew; cbn [okP obind] in *; auto.
  apply interface_val_ok_open in Ew.
  assert (Hfw : fu = false -> i_off el <= i_len el) by (intros _; exact Hfwd0).
  apply (IH ob' (map_set name d acc) lo); auto.
  - intros E. specialize (Hfw E). specialize (Hlo E). lia.
  - intros E. rewrite Hlen'. exact (Hf E).
  - intros E. specialize (Hk E). specialize (Hfw E). lia.
Qed.
End IStep.

Lemma interface_val_gen : forall fuel i,
  iter_ok pj i -> (fu = false -> (m i + 1 < fuel)%nat) -> okP fu top (interface_val fuel pj i).
Proof.
  induction fuel as [|f IHf]; intros i Hok Hf.
  { apply okP_fuel0. intros E. specialize (Hf E). lia. }
  rewrite interface_val_S. cbv zeta. unfold t_is.
  destruct (TagToType_ref (i_t i) =? TypeUint)%N.
  { eapply okP_bind; [apply okP_fuel; apply (iter_uint_spec pj i Hok)|]. intros; exact I. }
  destruct (TagToType_ref (i_t i) =? TypeInt)%N.
  { eapply okP_bind; [apply okP_fuel; apply (iter_int_spec pj i Hok)|]. intros; exact I. }
  destruct (TagToType_ref (i_t i) =? TypeFloat)%N.
  { eapply okP_bind; [apply okP_fuel; apply (iter_float_spec pj i Hok)|]. intros; exact I. }
  destruct (TagToType_ref (i_t i) =? TypeNull)%N; [exact I|].
  destruct (TagToType_ref (i_t i) =? TypeString)%N.
  { eapply okP_bind; [apply okP_fuel; apply (string_bytes_spec pj i Hok)|]. intros; exact I. }
  destruct (TagToType_ref (i_t i) =? TypeBool)%N; [exact I|].
  destruct (TagToType_ref (i_t i) =? TypeArray)%N.
  { eapply okP_bind; [apply okP_fuel; apply (iter_array_spec pj i Hok)|].
    intros a (A1 & A2 & A3 & A4 & A5).
    apply (ielems_spec f IHf (S f) (cont_iter a) [] (i_off i)).
    - apply cont_iter_ok; exact A1.
    - unfold pos, cont_iter; cbn. lia.
    - intros E. specialize (Hf E). unfold m in Hf. cbn [cont_iter i_len]. lia.
    - intros E. specialize (Hf E). unfold m in Hf. unfold mu, pos, cont_iter; cbn. lia. }
  destruct (TagToType_ref (i_t i) =? TypeObject)%N; [|exact I].
  eapply okP_bind; [apply okP_fuel; apply (iter_object_spec pj i Hok)|].
  intros o (A1 & A2 & A3 & A4 & A5).
  apply (imembers_spec f IHf (S f) o [] (i_off i)); auto; try lia.
  - intros E. specialize (Hf E). unfold m in Hf. lia.
  - intros E. specialize (Hf E). unfold m in Hf. lia.
Qed.

Lemma interface_roots_gen : forall fuel i acc,
  iter_ok pj i -> (fu = false -> (mu i < fuel)%nat) -> okP fu top (interface_roots fuel pj i acc).
Proof.
  induction fuel as [|f IH]; intros i acc Hok Hf.
  { apply okP_fuel0. intros E. specialize (Hf E). lia. }
  cbn [interface_roots].
  eapply okP_bind; [apply okP_fuel; apply (iter_root_spec pj i Hok)|].
  intros [obj typ] (R1 & R2 & R3 & R4 & _). cbn [fst snd] in *. unfold t_is.
  destruct (typ =? TypeNone)%N; [exact I|].
  eapply okP_bind with (P := top).
  { apply interface_val_gen; [exact R1|]. intros _.
    destruct Hok as ([K0 K1] & _). destruct R1 as (_ & K2 & _). unfold m, tlen in *. lia. }
  intros e _.
  eapply okP_bind; [apply okP_fuel; apply (advance_spec pj i Hok)|].
  intros [i' t] [HA HT]. cbn [fst snd] in HA, HT.
  destruct (N.eqb_spec t TypeRoot) as [Et|Et]; [|exact I].
  apply IH; [exact (ap_ok _ _ _ _ HA)|]. intros E. specialize (Hf E).
  assert (mu i' < mu i)%nat; [|lia].
  apply (adv_post_mu pj); [exact HA|]. destruct HT as [HT _]. unfold mu.
  destruct (Z_lt_le_dec (pos i) (i_len i)); [lia|]. specialize (HT l). rewrite HT in Et. discriminate.
Qed.

Lemma interface_doc_gen : okP fu top (interface_doc pj).
Proof.
  unfold interface_doc. pose proof (iter0_ok pj) as H0.
  eapply okP_bind; [apply okP_fuel; apply (peek_next_tag_spec pj _ H0)|].
  intros tg _. unfold t_is. destruct (tg =? TagEnd)%N; [exact I|].
  eapply okP_bind; [apply okP_fuel; apply (advance_spec pj _ H0)|].
  intros [i' t] [HA HT]. cbn [fst snd] in HA, HT.
  destruct (TagToType_ref (i_t i') =? TypeRoot)%N; [|exact I].
  apply interface_roots_gen; [exact (ap_ok _ _ _ _ HA)|]. intros _.
  pose proof (mu_le_tlen pj i' (ap_ok _ _ _ _ HA)). lia.
Qed.
End Walk.

(* ------------------------------------------------------------------ *)
(* the two instances                                                   *)

(* never a Crash, for any pj at all *)
Theorem walk_value_no_crash pj fuel i : iter_ok pj i -> walk_value fuel pj i <> Crash.
Proof.
  intros H. eapply (okP_no_crash true top). apply (walk_value_gen pj true); auto; try discriminate.
  intros o Ho. apply next_element_no_crash; exact Ho.
Qed.

Theorem walk_doc_no_crash pj : walk_doc pj <> Crash.
Proof.
  eapply (okP_no_crash true top). apply (walk_doc_gen pj true).
  intros o Ho. apply next_element_no_crash; exact Ho.
Qed.

Theorem interface_val_no_crash pj fuel i : iter_ok pj i -> interface_val fuel pj i <> Crash.
Proof.
  intros H. eapply (okP_no_crash true top). apply (interface_val_gen pj true); auto; try discriminate.
  intros o Ho. apply next_element_no_crash; exact Ho.
Qed.

Theorem interface_doc_no_crash pj : interface_doc pj <> Crash.
Proof.
  eapply (okP_no_crash true top). apply (interface_doc_gen pj true); try discriminate.
  intros o Ho. apply next_element_no_crash; exact Ho.
Qed.

(* termination with the model's own fuel *)
Theorem walk_value_total pj fuel i : iter_ok pj i -> (m i + 1 < fuel)%nat ->
  okP false top (walk_value fuel pj i).
Proof.
  intros H Hf. apply (walk_value_gen pj false); auto.
  intros o Ho. apply next_element_total'; assumption.
Qed.

Theorem walk_doc_total pj : okP false top (walk_doc pj).
Proof.
  apply (walk_doc_gen pj false).
  intros o Ho. apply next_element_total'; assumption.
Qed.

Theorem interface_val_total_any pj fuel i : iter_ok pj i ->
  (m i + 1 < fuel)%nat -> okP false top (interface_val fuel pj i).
Proof.
  intros H Hf. apply (interface_val_gen pj false); auto.
  intros o Ho. apply next_element_total'; assumption.
Qed.

Theorem interface_doc_total_any pj : okP false top (interface_doc pj).
Proof.
  apply (interface_doc_gen pj false); auto.
  intros o Ho. apply next_element_total'; assumption.
Qed.

(* the statements as they were before fix F19 (the hypothesis is no longer needed) *)
Theorem interface_val_total pj fuel i : member_arrays_forward pj -> iter_ok pj i ->
  (m i + 1 < fuel)%nat -> okP false top (interface_val fuel pj i).
Proof. intros _. apply interface_val_total_any. Qed.

Theorem interface_doc_total pj : member_arrays_forward pj -> okP false top (interface_doc pj).
Proof. intros _. apply interface_doc_total_any. Qed.
