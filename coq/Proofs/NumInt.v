(* NumInt.v — C03, integer part: Go's ParseUint / ParseInt digit loops
   (as modelled in Model.Number) against plain decimal arithmetic. *)
From Coq Require Import ZArith NArith List Bool Lia.
From Coq.Strings Require Import Byte.
From SJ Require Import Model.Base Model.RefTables Spec.Json Model.Number Proofs.NumLex.
Import ListNotations.
Local Open Scope N_scope.

(* decimal value of a digit string, accumulating on the left *)
Fixpoint nval (ds : bytes) (acc : N) : N :=
  match ds with [] => acc | b :: r => nval r (acc * 10 + dv b) end.

Lemma nval_digits_val : forall ds acc,
  Z.of_N (nval ds acc) = digits_val (map dv ds) (Z.of_N acc).
Proof.
  induction ds as [|b r IH]; intros acc; cbn [nval map digits_val]; [reflexivity|].
  rewrite IH. f_equal. lia.
Qed.

Lemma nval_split : forall ds acc, nval ds acc = acc * 10 ^ N.of_nat (length ds) + nval ds 0.
Proof.
  induction ds as [|b r IH]; intros acc; cbn [nval length].
  - change (N.of_nat 0) with 0. rewrite N.pow_0_r. lia.
  - rewrite IH. rewrite (IH (0 * 10 + dv b)). rewrite Nat2N.inj_succ, N.pow_succ_r'. lia.
Qed.

Lemma nval_ge_acc : forall ds acc, acc <= nval ds acc.
Proof.
  induction ds as [|b r IH]; intros acc; cbn [nval]; [lia|].
  specialize (IH (acc * 10 + dv b)). lia.
Qed.

Lemma dv_lt_10 : forall b, isdig b = true -> dv b < 10.
Proof.
  intros b H. unfold isdig, is_digit, c0, c9, dv in *. apply andb_true_iff in H.
  destruct H as [H1 H2]. apply N.leb_le in H1, H2. lia.
Qed.

Lemma nval_lt_pow : forall ds, alld ds = true -> nval ds 0 < 10 ^ N.of_nat (length ds).
Proof.
  induction ds as [|b r IH]; intros Ha.
  - cbn. lia.
  - cbn in Ha. apply andb_true_iff in Ha. destruct Ha as [Hb Hr].
    cbn [nval length]. rewrite nval_split. specialize (IH Hr). pose proof (dv_lt_10 b Hb).
    rewrite Nat2N.inj_succ, N.pow_succ_r'. nia.
Qed.

(* a literal of n >= 2 digits without a leading zero is at least 10^(n-1) *)
Lemma nval_ge_pow : forall h d', isdig h = true -> no_lead0 (h :: d') = true -> d' <> [] ->
  10 ^ N.of_nat (length d') <= nval (h :: d') 0.
Proof.
  intros h d' Hh Hz Hn.
  assert (Hz' : negb (b2n h =? c0) = true) by (destruct d'; [congruence | exact Hz]).
  change (nval (h :: d') 0) with (nval d' (0 * 10 + dv h)). rewrite nval_split.
  assert (1 <= dv h).
  { unfold isdig, is_digit, c0, c9, dv in *. apply andb_true_iff in Hh. destruct Hh as [H1 H2].
    apply N.leb_le in H1, H2. apply negb_true_iff, N.eqb_neq in Hz'. lia. }
  set (P := 10 ^ N.of_nat (length d')). set (x := nval d' 0).
  replace (0 * 10 + dv h) with (dv h) by lia.
  assert (1 * P <= dv h * P) by (apply N.mul_le_mono_r; assumption). lia.
Qed.

(* ------------------------------------------------------------------ *)
(* strconv.ParseUint                                                   *)

Theorem go_uint_loop_spec : forall ds n, alld ds = true -> n < two64 ->
  go_uint_loop ds n = if two64 <=? nval ds n then CRange else CVal (nval ds n).
Proof.
  induction ds as [|b r IH]; intros n Ha Hn.
  - cbn [go_uint_loop nval]. destruct (N.leb_spec two64 n); [lia | reflexivity].
  - cbn in Ha. apply andb_true_iff in Ha. destruct Ha as [Hb Hr].
    cbn [go_uint_loop nval]. fold (isdig b). rewrite Hb. cbv zeta. fold (dv b).
    destruct (N.leb_spec two64 (n * 10 + dv b)) as [Hge|Hlt].
    + pose proof (nval_ge_acc r (n * 10 + dv b)).
      destruct (N.leb_spec two64 (nval r (n * 10 + dv b))); [reflexivity | lia].
    + apply IH; assumption.
Qed.

(* the digit loop never yields a value on a string that is not all digits *)
Lemma go_uint_loop_val_digits : forall s n v, go_uint_loop s n = CVal v -> alld s = true.
Proof.
  induction s as [|b r IH]; intros n v H; [reflexivity|].
  cbn [go_uint_loop] in H. fold (isdig b) in H. cbn [alld forallb].
  destruct (isdig b); [|discriminate H]. cbv zeta in H.
  destruct (two64 <=? n * 10 + (b2n b - 48)); [discriminate H|].
  cbn [andb]. exact (IH _ _ H).
Qed.

Corollary go_parse_uint_spec : forall ds, alld ds = true -> ds <> [] ->
  go_parse_uint ds = if two64 <=? nval ds 0 then CRange else CVal (nval ds 0).
Proof.
  intros ds Ha Hn. unfold go_parse_uint. destruct ds; [congruence|].
  apply go_uint_loop_spec; [assumption | reflexivity].
Qed.

Lemma go_parse_uint_val : forall s v, go_parse_uint s = CVal v -> alld s = true /\ s <> [].
Proof.
  intros s v H. unfold go_parse_uint in H. destruct s; [discriminate H|].
  split; [|discriminate]. exact (go_uint_loop_val_digits _ _ _ H).
Qed.

(* ------------------------------------------------------------------ *)
(* strconv.ParseInt                                                    *)

Definition zval (neg : bool) (ds : bytes) : Z :=
  if neg then (- Z.of_N (nval ds 0))%Z else Z.of_N (nval ds 0).

Theorem go_parse_int_spec : forall neg ds, alld ds = true -> ds <> [] ->
  go_parse_int (sign_bytes neg ++ ds) =
  if (min_int64 <=? zval neg ds)%Z && (zval neg ds <=? max_int64)%Z
  then CVal (zval neg ds) else CRange.
Proof.
  intros neg ds Ha Hn. destruct ds as [|h d']; [congruence|].
  assert (Hh : isdig h = true) by (cbn in Ha; apply andb_true_iff in Ha; tauto).
  destruct (dig_facts h Hh) as (_ & Hhm & Hhp & _).
  assert (E : go_parse_int (sign_bytes neg ++ h :: d') =
              match go_parse_uint (h :: d') with
              | CSyntax => CSyntax
              | CRange => CRange
              | CVal un =>
                if negb neg && (two63 <=? un) then CRange
                else if neg && (two63 <? un) then CRange
                else CVal (if neg then (- Z.of_N un)%Z else Z.of_N un)
              end).
  { destruct neg; cbn [sign_bytes app go_parse_int].
    - reflexivity.
    - rewrite Hhp, Hhm. reflexivity. }
  rewrite E. rewrite go_parse_uint_spec by (assumption || discriminate).
  unfold zval, min_int64, max_int64. set (u := nval (h :: d') 0). unfold two64, two63.
  destruct (N.leb_spec 18446744073709551616 u).
  - destruct neg.
    + destruct (Z.leb_spec (-9223372036854775808) (- Z.of_N u)); [lia | reflexivity].
    + destruct (Z.leb_spec (Z.of_N u) 9223372036854775807); [lia|].
      rewrite andb_false_r. reflexivity.
  - destruct neg; cbn [negb andb].
    + destruct (N.ltb_spec 9223372036854775808 u).
      * destruct (Z.leb_spec (-9223372036854775808) (- Z.of_N u)); [lia | reflexivity].
      * destruct (Z.leb_spec (-9223372036854775808) (- Z.of_N u)); [|lia].
        destruct (Z.leb_spec (- Z.of_N u) 9223372036854775807); [reflexivity | lia].
    + destruct (N.leb_spec 9223372036854775808 u).
      * destruct (Z.leb_spec (Z.of_N u) 9223372036854775807); [lia|].
        rewrite andb_false_r. reflexivity.
      * destruct (Z.leb_spec (Z.of_N u) 9223372036854775807); [|lia].
        destruct (Z.leb_spec (-9223372036854775808) (Z.of_N u)); [reflexivity | lia].
Qed.

(* inversion: a value only comes out of [-]digits (the caller excludes '+') *)
Lemma go_parse_int_val : forall b t z,
  go_parse_int (b :: t) = CVal z -> b <> bPLUS ->
  (b = bMINUS /\ alld t = true /\ t <> []) \/
  ((b2n b =? cMINUS) = false /\ alld (b :: t) = true).
Proof.
  intros b t z H Hp. cbn [go_parse_int] in H.
  destruct (b2n b =? cPLUS) eqn:Ep.
  { apply byte_plus in Ep. congruence. }
  destruct (b2n b =? cMINUS) eqn:Em.
  - apply byte_minus in Em. left. split; [assumption|].
    destruct (go_parse_uint t) eqn:Eu; try discriminate H.
    exact (go_parse_uint_val _ _ Eu).
  - right. split; [reflexivity|].
    destruct (go_parse_uint (b :: t)) eqn:Eu; try discriminate H.
    exact (proj1 (go_parse_uint_val _ _ Eu)).
Qed.

Example uint_ex1 : go_parse_uint [x31;x38;x34;x34;x36;x37;x34;x34;x30;x37;x33;x37;x30;x39;x35;x35;x31;x36;x31;x35]
                   = CVal 18446744073709551615.
Proof. vm_compute. reflexivity. Qed.
Example uint_ex2 : go_parse_uint [x31;x38;x34;x34;x36;x37;x34;x34;x30;x37;x33;x37;x30;x39;x35;x35;x31;x36;x31;x36]
                   = CRange.
Proof. vm_compute. reflexivity. Qed.

Print Assumptions go_uint_loop_spec.
Print Assumptions go_parse_int_spec.
