(* WFMachineBase.v — building blocks for the machine-level well-formedness
   theorem (property C17, Proofs/WFMachine.v):
   - the shape of a well-formed tape segment as inductive predicates
     (values, array items, object members, closed root pairs) and their
     soundness with respect to the executable checker of Model/WF.v;
   - the shape of the words a number / a string writes;
   - bounds on what the string kernel reads and writes. *)
From Coq Require Import ZifyBool ZifyN ZifyNat.
From SJ Require Import Model.Base Model.RefTables Model.Number Model.Str Model.Stage1 Model.Stage2.
From SJ Require Import Model.Tape Model.Iter Model.WF.
From SJ Require Import Proofs.StrArith Proofs.StrProofs Proofs.Stage2Base Proofs.TotalDefs.
Open Scope N_scope.

(* ------------------------------------------------------------------ *)
(* one-step unfoldings of the checker (nops = false)                    *)

Section Chk.
Variables (nmsg nstr : N).

Notation wfv := (wf_value nmsg nstr false).
Notation wfe := (wf_elems nmsg nstr false).
Notation wfm := (wf_members nmsg nstr false).
Notation wfr := (wf_roots nmsg nstr false).
Notation skr := (skip_runs false).

Lemma skip_runs_stop f i w r : (word_tag w =? TagNop) = false ->
  skr (S f) i (w :: r) = Some (i, w :: r).
Proof. intros H. cbn [skip_runs]. rewrite H. reflexivity. Qed.

Lemma skip_runs_nil f i : skr (S f) i [] = Some (i, []).
Proof. reflexivity. Qed.

Lemma wf_value_string f i w l r :
  word_tag w = TagString -> str_ok nmsg nstr (word_val w) l = true ->
  wfv (S f) i (w :: l :: r) = Some (i + 2, r).
Proof. intros Ht Hs. cbn [wf_value]. rewrite Ht. cbn [N.eqb Pos.eqb TagString]. rewrite Hs. reflexivity. Qed.

Lemma wf_value_int f i w x r :
  word_tag w = TagInteger \/ word_tag w = TagUint -> word_val w = 0 ->
  wfv (S f) i (w :: x :: r) = Some (i + 2, r).
Proof. intros [Ht|Ht] Hv; cbn [wf_value]; rewrite Ht, Hv; reflexivity. Qed.

Lemma wf_value_float f i w x r :
  word_tag w = TagFloat -> wfv (S f) i (w :: x :: r) = Some (i + 2, r).
Proof. intros Ht. cbn [wf_value]. rewrite Ht. reflexivity. Qed.

Lemma wf_value_atom f i w r :
  word_tag w = TagNull \/ word_tag w = TagBoolTrue \/ word_tag w = TagBoolFalse -> word_val w = 0 ->
  wfv (S f) i (w :: r) = Some (i + 1, r).
Proof. intros [Ht|[Ht|Ht]] Hv; cbn [wf_value]; rewrite Ht, Hv; reflexivity. Qed.

Lemma wf_value_arr f i w r :
  word_tag w = TagArrayStart -> wfv (S f) i (w :: r) = wfe f i (i + 1) r (word_val w).
Proof. intros Ht. cbn [wf_value]. rewrite Ht. reflexivity. Qed.

Lemma wf_value_obj f i w r :
  word_tag w = TagObjectStart -> wfv (S f) i (w :: r) = wfm f i (i + 1) r (word_val w).
Proof. intros Ht. cbn [wf_value]. rewrite Ht. reflexivity. Qed.

Lemma wf_elems_S f start i rest endp1 :
  wfe (S f) start i rest endp1 =
    match skr f i rest with
    | None => None
    | Some (i', rest') =>
      match rest' with
      | [] => None
      | w :: r =>
        if word_tag w =? TagArrayEnd then
          if (word_val w =? start) && (i' + 1 =? endp1) then Some (i' + 1, r) else None
        else match wfv f i' rest' with
             | Some (j, r') => if j <? endp1 then wfe f start j r' endp1 else None
             | None => None
             end
      end
    end.
Proof. reflexivity. Qed.

Lemma wf_members_S f start i rest endp1 :
  wfm (S f) start i rest endp1 =
    match skr f i rest with
    | None => None
    | Some (i', rest') =>
      match rest' with
      | [] => None
      | w :: r =>
        if word_tag w =? TagObjectEnd then
          if (word_val w =? start) && (i' + 1 =? endp1) then Some (i' + 1, r) else None
        else if word_tag w =? TagString then
          match r with
          | len :: r1 =>
            if str_ok nmsg nstr (word_val w) len then
              match skr f (i' + 2) r1 with
              | Some (i2, r2) =>
                match wfv f i2 r2 with
                | Some (j, r') => if j <? endp1 then wfm f start j r' endp1 else None
                | None => None
                end
              | None => None
              end
            else None
          | [] => None
          end
        else None
      end
    end.
Proof. reflexivity. Qed.

Lemma wf_roots_S f i rest :
  wfr (S f) i rest =
    match skr f i rest with
    | None => false
    | Some (i', rest') =>
      match rest' with
      | [] => true
      | w :: r =>
        if word_tag w =? TagRoot then
          match skr f (i' + 1) r with
          | Some (i1, r1) =>
            match wfv f i1 r1 with
            | Some (j, r2) =>
              match skr f j r2 with
              | Some (j', c :: r3) =>
                (word_tag c =? TagRoot) && (word_val c =? i') && (word_val w =? j' + 1) && wfr f (j' + 1) r3
              | _ => false
              end
            | None => false
            end
          | None => false
          end
        else false
      end
    end.
Proof. reflexivity. Qed.

End Chk.

(* ------------------------------------------------------------------ *)
(* shapes                                                              *)

Section Shapes.
Variable nmsg : N.

(* a string reference that stays valid when the string buffer grows beyond [sl] *)
Definition sok (sl : N) (w l : N) : Prop :=
  word_tag w = TagString /\ forall nstr, sl <= nstr -> str_ok nmsg nstr (word_val w) l = true.

Lemma sok_mono sl sl' w l : sl <= sl' -> sok sl w l -> sok sl' w l.
Proof. intros H [Ht Hs]. split; [exact Ht|]. intros nstr Hn. apply Hs. lia. Qed.

Notation len ws := (N.of_nat (length ws)).

Inductive kind := KV | KE | KM.

(* [shp sl k i ws]: the words [ws], sitting at tape index [i], are
   - KV: one complete value;
   - KE: a sequence of complete values (array items);
   - KM: a sequence of (key, complete value) pairs (object members). *)
Inductive shp (sl : N) : kind -> N -> list N -> Prop :=
| sh_str i w l : sok sl w l -> shp sl KV i [w; l]
| sh_int i w x : word_tag w = TagInteger \/ word_tag w = TagUint -> word_val w = 0 -> shp sl KV i [w; x]
| sh_float i w x : word_tag w = TagFloat -> shp sl KV i [w; x]
| sh_atom i w : word_tag w = TagNull \/ word_tag w = TagBoolTrue \/ word_tag w = TagBoolFalse ->
    word_val w = 0 -> shp sl KV i [w]
| sh_arr i inner : shp sl KE (i + 1) inner -> i + len inner + 2 < two56 ->
    shp sl KV i (mk_word cLBRACK (i + len inner + 2) :: inner ++ [mk_word cRBRACK i])
| sh_obj i inner : shp sl KM (i + 1) inner -> i + len inner + 2 < two56 ->
    shp sl KV i (mk_word cLBRACE (i + len inner + 2) :: inner ++ [mk_word cRBRACE i])
| sh_enil i : shp sl KE i []
| sh_econs i v rest : shp sl KV i v -> shp sl KE (i + len v) rest -> shp sl KE i (v ++ rest)
| sh_mnil i : shp sl KM i []
| sh_mcons i kw kl v rest : sok sl kw kl -> shp sl KV (i + 2) v -> shp sl KM (i + 2 + len v) rest ->
    shp sl KM i (kw :: kl :: v ++ rest).

Lemma shp_mono sl sl' k i ws : sl <= sl' -> shp sl k i ws -> shp sl' k i ws.
Proof.
  intros Hle H. induction H.
  - apply sh_str. eapply sok_mono; eassumption.
  - apply sh_int; assumption.
  - apply sh_float; assumption.
  - apply sh_atom; assumption.
  - apply sh_arr; assumption.
  - apply sh_obj; assumption.
  - apply sh_enil.
  - apply sh_econs; assumption.
  - apply sh_mnil.
  - apply sh_mcons; try assumption. eapply sok_mono; eassumption.
Qed.

(* a value starts with a word that is neither a NOP nor a closing tag *)
Definition vhead (ws : list N) : Prop := exists w0 ws', ws = w0 :: ws' /\ vtag (word_tag w0).

Lemma shp_vhead sl i ws : shp sl KV i ws -> vhead ws.
Proof.
  intros H. inversion H; subst.
  - match goal with Hs : sok _ _ _ |- _ => destruct Hs as [Ht _] end.
    eexists _, _. split; [reflexivity|]. rewrite Ht. repeat split.
  - eexists _, _. split; [reflexivity|].
    match goal with Ht : _ \/ _ |- _ => destruct Ht as [Ht|Ht]; rewrite Ht; repeat split end.
  - eexists _, _. split; [reflexivity|].
    match goal with Ht : word_tag _ = _ |- _ => rewrite Ht; repeat split end.
  - eexists _, _. split; [reflexivity|].
    match goal with Ht : _ \/ _ |- _ => destruct Ht as [Ht|[Ht|Ht]]; rewrite Ht; repeat split end.
  - eexists _, _. split; [reflexivity|]. rewrite word_tag_mk by assumption. repeat split.
  - eexists _, _. split; [reflexivity|]. rewrite word_tag_mk by assumption. repeat split.
Qed.

Lemma shp_vlen sl i ws : shp sl KV i ws -> (1 <= length ws)%nat.
Proof. intros H. apply shp_vhead in H. destruct H as (w0 & ws' & -> & _). cbn [length]. lia. Qed.

(* appending at the end *)
Lemma shp_esnoc sl : forall i ws v, shp sl KE i ws -> shp sl KV (i + len ws) v -> shp sl KE i (ws ++ v).
Proof.
  intros i ws v H. remember KE as k eqn:Ek. revert Ek v.
  induction H; intros Ek v0 Hv; try discriminate.
  - cbn [length app] in *. rewrite <- (app_nil_r v0). apply sh_econs.
    + replace i with (i + N.of_nat 0) by lia. exact Hv.
    + apply sh_enil.
  - rewrite <- app_assoc. apply sh_econs; [assumption|].
    apply IHshp2; [reflexivity|]. rewrite app_length in Hv.
    replace (i + len v + len rest) with (i + N.of_nat (length v + length rest)) by lia. exact Hv.
Qed.

Lemma shp_msnoc sl : forall i ws kw kl v, shp sl KM i ws -> sok sl kw kl -> shp sl KV (i + len ws + 2) v ->
  shp sl KM i (ws ++ kw :: kl :: v).
Proof.
  intros i ws kw kl v H. remember KM as k eqn:Ek. revert Ek kw kl v.
  induction H; intros Ek kw0 kl0 v0 Hk Hv; try discriminate.
  - cbn [length app] in *. rewrite <- (app_nil_r v0). apply sh_mcons.
    + exact Hk.
    + replace (i + 2) with (i + N.of_nat 0 + 2) by lia. exact Hv.
    + apply sh_mnil.
  - cbn [app]. rewrite <- app_assoc. apply sh_mcons; try assumption.
    apply IHshp2; [reflexivity|exact Hk|]. cbn [length] in Hv. rewrite app_length in Hv.
    replace (i + 2 + len v + len rest + 2) with (i + N.of_nat (S (S (length v + length rest))) + 2) by lia.
    exact Hv.
Qed.

(* soundness with respect to the checker *)
Definition sound (sl : N) (k : kind) (i : N) (ws : list N) : Prop :=
  match k with
  | KV => forall nstr, sl <= nstr -> forall f rest, (length ws < f)%nat ->
      wf_value nmsg nstr false f i (ws ++ rest) = Some (i + len ws, rest)
  | KE => forall nstr, sl <= nstr -> forall f start w r endp1,
      word_tag w = TagArrayEnd -> word_val w = start -> endp1 = i + len ws + 1 -> (length ws + 2 <= f)%nat ->
      wf_elems nmsg nstr false f start i (ws ++ w :: r) endp1 = Some (endp1, r)
  | KM => forall nstr, sl <= nstr -> forall f start w r endp1,
      word_tag w = TagObjectEnd -> word_val w = start -> endp1 = i + len ws + 1 -> (length ws + 2 <= f)%nat ->
      wf_members nmsg nstr false f start i (ws ++ w :: r) endp1 = Some (endp1, r)
  end.

Lemma vtag_nop t : vtag t -> (t =? TagNop) = false.
Proof. intros (H & _). exact H. Qed.

Theorem shp_sound sl k i ws : shp sl k i ws -> sound sl k i ws.
Proof.
  intros H. induction H; unfold sound in *.
  - (* string *)
    intros nstr Hn f rest Hf. destruct f as [|f]; [cbn [length] in Hf; lia|].
    destruct H as [Ht Hs]. cbn [app]. rewrite wf_value_string; [|exact Ht|apply Hs; exact Hn]. reflexivity.
  - intros nstr Hn f rest Hf. destruct f as [|f]; [cbn [length] in Hf; lia|].
    cbn [app]. rewrite wf_value_int by assumption. reflexivity.
  - intros nstr Hn f rest Hf. destruct f as [|f]; [cbn [length] in Hf; lia|].
    cbn [app]. rewrite wf_value_float by assumption. reflexivity.
  - intros nstr Hn f rest Hf. destruct f as [|f]; [cbn [length] in Hf; lia|].
    cbn [app]. rewrite wf_value_atom by assumption. reflexivity.
  - (* array *)
    intros nstr Hn f rest Hf. cbn [length] in Hf. rewrite app_length in Hf. cbn [length] in Hf.
    destruct f as [|f]; [lia|].
    cbn [app]. rewrite wf_value_arr by (apply word_tag_mk; assumption).
    rewrite <- app_assoc. cbn [app]. rewrite word_val_mk by assumption.
    rewrite (IHshp nstr Hn f i (mk_word cRBRACK i) rest (i + len inner + 2)).
    + f_equal. f_equal. cbn [length]. rewrite app_length. cbn [length]. lia.
    + apply word_tag_mk. lia.
    + apply word_val_mk. lia.
    + lia.
    + lia.
  - (* object *)
    intros nstr Hn f rest Hf. cbn [length] in Hf. rewrite app_length in Hf. cbn [length] in Hf.
    destruct f as [|f]; [lia|].
    cbn [app]. rewrite wf_value_obj by (apply word_tag_mk; assumption).
    rewrite <- app_assoc. cbn [app]. rewrite word_val_mk by assumption.
    rewrite (IHshp nstr Hn f i (mk_word cRBRACE i) rest (i + len inner + 2)).
    + f_equal. f_equal. cbn [length]. rewrite app_length. cbn [length]. lia.
    + apply word_tag_mk. lia.
    + apply word_val_mk. lia.
    + lia.
    + lia.
  - (* no more items *)
    intros nstr Hn f start w r endp1 Ht Hv He Hf. cbn [length] in *.
    destruct f as [|[|f]]; try lia. cbn [app].
    rewrite wf_elems_S, skip_runs_stop by (rewrite Ht; reflexivity).
    rewrite Ht. cbn [N.eqb Pos.eqb TagArrayEnd].
    replace ((word_val w =? start) && (i + 1 =? endp1)) with true by lia.
    f_equal. f_equal. lia.
  - (* one more item *)
    intros nstr Hn f start w r endp1 Ht Hv He Hf.
    pose proof (shp_vlen _ _ _ H) as Hl.
    destruct (shp_vhead _ _ _ H) as (w0 & v' & Ev & Hvt).
    rewrite app_length in Hf, He.
    destruct f as [|[|f]]; try lia.
    rewrite <- app_assoc. rewrite wf_elems_S.
    rewrite Ev at 1. cbn [app]. rewrite skip_runs_stop by (apply vtag_nop; exact Hvt).
    destruct Hvt as (_ & Hvt & _). rewrite Hvt.
    change (w0 :: v' ++ rest ++ w :: r) with ((w0 :: v') ++ rest ++ w :: r). rewrite <- Ev.
    rewrite (IHshp1 nstr Hn) by lia.
    replace (i + len v <? endp1) with true by lia.
    apply (IHshp2 nstr Hn); try assumption; lia.
  - (* no more members *)
    intros nstr Hn f start w r endp1 Ht Hv He Hf. cbn [length] in *.
    destruct f as [|[|f]]; try lia. cbn [app].
    rewrite wf_members_S, skip_runs_stop by (rewrite Ht; reflexivity).
    rewrite Ht. cbn [N.eqb Pos.eqb TagObjectEnd].
    replace ((word_val w =? start) && (i + 1 =? endp1)) with true by lia.
    f_equal. f_equal. lia.
  - (* one more member *)
    intros nstr Hn f start w r endp1 Ht Hv He Hf.
    pose proof (shp_vlen _ _ _ H0) as Hl.
    destruct (shp_vhead _ _ _ H0) as (w0 & v' & Ev & Hvt).
    cbn [length] in Hf, He. rewrite app_length in Hf, He.
    destruct f as [|[|f]]; try lia.
    destruct H as [Hkt Hks].
    cbn [app]. rewrite <- app_assoc. rewrite wf_members_S.
    rewrite skip_runs_stop by (rewrite Hkt; reflexivity).
    rewrite Hkt. cbn [N.eqb Pos.eqb TagObjectEnd TagString].
    rewrite (Hks nstr Hn).
    rewrite Ev at 1. cbn [app]. rewrite skip_runs_stop by (apply vtag_nop; exact Hvt).
    change (w0 :: v' ++ rest ++ w :: r) with ((w0 :: v') ++ rest ++ w :: r). rewrite <- Ev.
    rewrite (IHshp1 nstr Hn) by lia.
    replace (i + 2 + len v <? endp1) with true by lia.
    apply (IHshp2 nstr Hn); try assumption; lia.
Qed.

(* closed root pairs *)
Inductive rts (sl : N) : N -> list N -> Prop :=
| rt_nil i : rts sl i []
| rt_cons i v rest : shp sl KV (i + 1) v -> i + len v + 2 < two56 -> rts sl (i + len v + 2) rest ->
    rts sl i (mk_word TagRoot (i + len v + 2) :: v ++ mk_word TagRoot i :: rest).

Lemma rts_mono sl sl' i ws : sl <= sl' -> rts sl i ws -> rts sl' i ws.
Proof.
  intros Hle H. induction H; [apply rt_nil|].
  apply rt_cons; try assumption. eapply shp_mono; eassumption.
Qed.

Lemma rts_snoc sl : forall i ws v, rts sl i ws -> shp sl KV (i + len ws + 1) v ->
  i + len ws + len v + 2 < two56 ->
  rts sl i (ws ++ mk_word TagRoot (i + len ws + len v + 2) :: v ++ [mk_word TagRoot (i + len ws)]).
Proof.
  intros i ws v H. revert v. induction H; intros v0 Hv Hb.
  - cbn [length app] in *.
    replace (i + N.of_nat 0) with i in * by lia.
    apply rt_cons; [exact Hv|exact Hb|apply rt_nil].
  - assert (L : len (mk_word TagRoot (i + len v + 2) :: v ++ mk_word TagRoot i :: rest) = len v + 2 + len rest).
    { cbn [length]. rewrite app_length. cbn [length]. lia. }
    rewrite L in *.
    cbn [app]. rewrite <- app_assoc. cbn [app]. apply rt_cons; try assumption.
    replace (i + (len v + 2 + len rest) + len v0 + 2) with (i + len v + 2 + len rest + len v0 + 2) by lia.
    replace (i + (len v + 2 + len rest)) with (i + len v + 2 + len rest) by lia.
    apply IHrts; [|lia].
    replace (i + len v + 2 + len rest + 1) with (i + (len v + 2 + len rest) + 1) by lia. exact Hv.
Qed.

Theorem rts_sound sl i ws : rts sl i ws ->
  forall nstr, sl <= nstr -> forall f, (length ws + 2 <= f)%nat -> wf_roots nmsg nstr false f i ws = true.
Proof.
  intros H. induction H; intros nstr Hn f Hf.
  - destruct f as [|[|f]]; cbn [length] in Hf; try lia. reflexivity.
  - cbn [length] in Hf. rewrite app_length in Hf. cbn [length] in Hf.
    destruct f as [|[|f]]; try lia.
    pose proof (shp_vlen _ _ _ H) as Hl.
    destruct (shp_vhead _ _ _ H) as (w0 & v' & Ev & Hvt).
    rewrite wf_roots_S.
    rewrite skip_runs_stop by (rewrite word_tag_mk by assumption; reflexivity).
    rewrite word_tag_mk by assumption. cbn [N.eqb Pos.eqb TagRoot].
    rewrite Ev at 1. cbn [app]. rewrite skip_runs_stop by (apply vtag_nop; exact Hvt).
    change (w0 :: v' ++ mk_word TagRoot i :: rest) with ((w0 :: v') ++ mk_word TagRoot i :: rest). rewrite <- Ev.
    pose proof (shp_sound _ _ _ _ H) as Hs. cbn [sound] in Hs.
    rewrite (Hs nstr Hn) by lia.
    rewrite skip_runs_stop by (rewrite word_tag_mk by lia; reflexivity).
    rewrite !word_tag_mk, !word_val_mk by lia.
    replace (i + 1 + len v + 1) with (i + len v + 2) by lia.
    rewrite IHrts; [|exact Hn|lia].
    cbn [N.eqb Pos.eqb TagRoot].
    replace (i =? i) with true by lia.
    replace (i + len v + 2 =? i + len v + 2) with true by lia. reflexivity.
Qed.

End Shapes.

(* ------------------------------------------------------------------ *)
(* the words written for a number                                      *)

From SJ Require Import Proofs.NumberProofs.

Lemma int_try_shape buf pos lex found :
  match int_try buf pos lex found with
  | (Some (Some (w1, _)), _) => w1 = mk_word TagInteger 0 \/ w1 = mk_word TagUint 0
  | (Some None, _) => True
  | (None, fl) => fl = 0 \/ fl = 1
  end.
Proof.
  unfold int_try. cbv zeta.
  destruct (negb (has found fFLOATONLY) && (N.of_nat pos <=? maxIntLen)).
  - match goal with |- context [if ?c then (Some None, 0) else _] => destruct c end; [exact I|].
    destruct (go_parse_int lex) as [z| |].
    + left. reflexivity.
    + destruct (negb (has found fMINUS)).
      * destruct (go_parse_uint lex); [right; reflexivity|left; reflexivity|right; reflexivity].
      * left. reflexivity.
    + destruct (negb (has found fMINUS)).
      * destruct (go_parse_uint lex); [right; reflexivity|right; reflexivity|right; reflexivity].
      * right. reflexivity.
  - destruct (negb (has found fFLOATONLY)); [right|left]; reflexivity.
Qed.

Lemma parse_number_shape buf w1 w2 : parse_number_model buf = Some (w1, w2) ->
  w1 = mk_word TagInteger 0 \/ w1 = mk_word TagUint 0 \/ w1 = mk_word TagFloat 0 \/ w1 = mk_word TagFloat 1.
Proof.
  rewrite parse_number_model_unfold.
  destruct (num_scan buf 0 0 0) as [[pos found]|]; [|discriminate].
  unfold after_scan. destruct (pos =? 0)%nat; [discriminate|]. cbv zeta.
  pose proof (int_try_shape buf pos (firstn pos buf) found) as Hs.
  destruct (int_try buf pos (firstn pos buf) found) as [[[[a b]|]|] fl].
  - intros H. injection H as <- <-. destruct Hs as [Hs|Hs]; [left|right; left]; exact Hs.
  - discriminate.
  - unfold float_path. cbv zeta.
    match goal with |- context [if ?c then None else _] => destruct c end; [discriminate|].
    destruct (go_parse_float (firstn pos buf)); [|discriminate].
    intros H. injection H as <- <-. destruct Hs as [->| ->]; [right; right; left|right; right; right]; reflexivity.
Qed.

(* ------------------------------------------------------------------ *)
(* what the string kernel reads and writes                             *)

Lemma utf8_enc_len cp : (length (utf8_enc cp) <= 4)%nat.
Proof.
  unfold utf8_enc. destruct (cp <? 128); [cbn [length]; lia|].
  destruct (cp <? 2048); [cbn [length]; lia|]. destruct (cp <? 65536); cbn [length]; lia.
Qed.

Lemma model_esc_len p dist adv o : model_esc p dist = Some (adv, o) -> (length o <= adv)%nat.
Proof.
  unfold model_esc, str_unicode. cbv zeta.
  destruct (nth_b p 1 =? c_u).
  - destruct (dist <? 6)%nat; [discriminate|].
    match goal with |- context [if ?c then _ else Some (6%nat, _)] => destruct c end.
    + destruct (dist <? 12)%nat; [discriminate|].
      destruct (negb (nth_b p 6 =? cBSLASH)); [discriminate|].
      destruct (negb (nth_b p 7 =? c_u)); [discriminate|].
      match goal with |- context [if ?c then None else _] => destruct c end; [discriminate|].
      match goal with |- context [utf8_len ?x] => destruct (utf8_len x) end; [|discriminate].
      intros H. injection H as <- <-.
      match goal with |- context [utf8_enc ?x] => pose proof (utf8_enc_len x) end. lia.
    + match goal with |- context [utf8_len ?x] => destruct (utf8_len x) end; [|discriminate].
      intros H. injection H as <- <-.
      match goal with |- context [utf8_enc ?x] => pose proof (utf8_enc_len x) end. lia.
  - destruct (escape_map_ref (nth_b p 1) =? 0); [discriminate|].
    intros H. injection H as <- <-. cbn [length]. lia.
Qed.

Lemma win32_length cur : length (win32 cur) = 32%nat.
Proof. unfold win32. apply take_pad_length. Qed.

Lemma quote_in_mem cur qi : first_of cQUOTE (win32 cur) = Some qi -> (qi < length cur)%nat.
Proof.
  intros H. apply first_of_some in H. destruct H as (_ & H & _).
  destruct (Nat.lt_ge_cases qi (length cur)) as [L|L]; [exact L|].
  rewrite nth_b_beyond in H by exact L. discriminate.
Qed.

Lemma str_step_done_ok cur c out n d : str_step cur c out = Done (StrOk n d) ->
  (c <= n)%nat /\ (n < c + length cur)%nat /\ (length d + c <= length out + n)%nat.
Proof.
  unfold str_step. cbv zeta.
  destruct (first_of cBSLASH (win32 cur)) as [bi|] eqn:Eb;
    destruct (first_of cQUOTE (win32 cur)) as [qi|] eqn:Eq; try discriminate.
  - destruct (qi <? bi)%nat.
    + intros H. injection H as <- <-. pose proof (quote_in_mem _ _ Eq) as Hq.
      rewrite rev_length, app_length, rev_length.
      pose proof (firstn_le_length qi (win32 cur)). lia.
    + destruct (model_esc (skipn bi cur) (esc_dist cur bi (Some qi))) as [[a o]|]; discriminate.
  - destruct (model_esc (skipn bi cur) (esc_dist cur bi None)) as [[a o]|]; discriminate.
  - intros H. injection H as <- <-. pose proof (quote_in_mem _ _ Eq) as Hq.
    rewrite rev_length, app_length, rev_length.
    pose proof (firstn_le_length qi (win32 cur)). lia.
Qed.

Lemma str_step_cont_len cur c out adv out' : str_step cur c out = Cont adv out' ->
  (length out' <= length out + adv)%nat.
Proof.
  unfold str_step. cbv zeta.
  destruct (first_of cBSLASH (win32 cur)) as [bi|] eqn:Eb;
    destruct (first_of cQUOTE (win32 cur)) as [qi|] eqn:Eq; try discriminate.
  - destruct (qi <? bi)%nat; [discriminate|].
    destruct (model_esc (skipn bi cur) (esc_dist cur bi (Some qi))) as [[a o]|] eqn:E; [|discriminate].
    intros H. injection H as <- <-. apply model_esc_len in E.
    rewrite !app_length, !rev_length. pose proof (firstn_le_length bi (win32 cur)). lia.
  - destruct (model_esc (skipn bi cur) (esc_dist cur bi None)) as [[a o]|] eqn:E; [|discriminate].
    intros H. injection H as <- <-. apply model_esc_len in E.
    rewrite !app_length, !rev_length. pose proof (firstn_le_length bi (win32 cur)). lia.
  - intros H. injection H as <- <-. rewrite app_length, rev_length, win32_length. lia.
Qed.

Lemma str_step_nil c out : str_step [] c out = Cont 32 (rev (win32 []) ++ out).
Proof. reflexivity. Qed.

Lemma str_loop_nil : forall f c out n d, str_loop f [] c out None <> StrOk n d.
Proof.
  induction f as [|f IH]; intros c out n d; [discriminate|].
  rewrite str_loop_S, str_step_nil. cbn [skipn]. apply IH.
Qed.

(* a successful walk ends at a quote inside the real memory and never
   produces more bytes than it consumed *)
Lemma str_loop_bounds : forall f cur c out n d,
  str_loop f cur c out None = StrOk n d ->
  (c <= n)%nat /\ (n < c + length cur)%nat /\ (length d + c <= length out + n)%nat.
Proof.
  induction f as [|f IH]; intros cur c out n d H; [discriminate|].
  rewrite str_loop_S in H. destruct (str_step cur c out) as [r0|adv out'] eqn:Es.
  - subst r0. apply str_step_done_ok in Es. exact Es.
  - pose proof (str_step_adv _ _ _ _ _ Es) as Ha. apply str_step_cont_len in Es.
    destruct (Nat.le_gt_cases adv (length cur)) as [L|L].
    + apply IH in H. rewrite skipn_length in H. clear IH. lia.
    + rewrite skipn_all2 in H by (clear IH; lia). apply str_loop_nil in H. destruct H.
Qed.

Lemma Ok_inj {A} (a b : A) : Ok a = Ok b -> a = b.
Proof. intros H. injection H as H. exact H. Qed.

(* the result of parseString, as the invariant needs it *)
Lemma parse_string_model_shape cur idx max copy sl fuel r :
  parse_string_model cur idx max copy sl fuel = Ok r ->
  exists q mem n dec, cur = q :: mem /\ str_loop fuel mem 0 [] None = StrOk n dec /\
    (n < length mem)%nat /\ (length dec <= n)%nat /\
    ((ps_word r = mk_word TagString (idx + 1) /\ ps_len r = N.of_nat n /\ ps_app r = []) \/
     (ps_word r = mk_word TagString (STRINGBUFBIT + sl) /\ ps_len r = N.of_nat (length dec) /\ ps_app r = dec)).
Proof.
  unfold parse_string_model. destruct cur as [|q mem]; [discriminate|].
  destruct (str_validate mem max fuel) as [n dec| |] eqn:Ev; try discriminate.
 pose proof (str_validate_copy_agree _ _ _ _ _ Ev) as Hc.
  unfold str_validate in Ev. pose proof (str_loop_bounds _ _ _ _ _ _ Ev) as (_ & B1 & B2).
  cbn [length] in B2.
  intros H. exists q, mem, n, dec. split; [reflexivity|]. split; [exact Ev|].
 assert (B3 : (n < length mem)%nat) by (clear H Hc Ev; lia).
 assert (B4 : (length dec <= n)%nat) by (clear H Hc Ev; lia).
  split; [exact B3|]. split; [exact B4|].
  destruct (negb (copy || negb (n =? length dec)%nat)) eqn:En.
  - injection H as <-. left. cbn [ps_word ps_len ps_app].
    assert (n = length dec) by (clear Hc Ev; lia). split; [reflexivity|]. split; [clear Hc Ev; lia|reflexivity].
  - rewrite Hc in H. cbv beta iota in H. apply Ok_inj in H. subst r. right. cbn [ps_word ps_len ps_app]. repeat split.
Qed.
