(* TapeSeg.v — relational ("segment") characterisation of the abstraction
   function: a value occupies a contiguous segment of the tape; the result of
   den_value depends on that segment (and its absolute index) only.
   The relations carry two flags:
     strict — additionally the constraints checked by WF.wf_check
              (zero payloads, end words pointing at their start, NOP runs in
              which every word points at the run's end);
     adj    — additionally no NOP between a key and its value (what
              Object.NextElementBytes needs). *)
From SJ Require Import Model.Base Model.RefTables Spec.Json Model.Tape.
From SJ Require Import Proofs.TapeBase.
From Coq Require Import ZifyBool ZifyN ZifyNat.
Open Scope N_scope.

Definition nlen {A} (l : list A) : N := N.of_nat (length l).

Lemma nlen_app {A} (a b : list A) : nlen (a ++ b) = nlen a + nlen b.
Proof. unfold nlen. rewrite app_length. lia. Qed.
Lemma nlen_cons {A} (x : A) (l : list A) : nlen (x :: l) = nlen l + 1.
Proof. unfold nlen. cbn [length]. lia. Qed.
Lemma nlen_nil {A} : nlen (@nil A) = 0.
Proof. reflexivity. Qed.

Ltac nl :=
  unfold nlen in *; cbn [length] in *;
  repeat (match goal with
          | H : context [length (_ ++ _)] |- _ => rewrite app_length in H
          | |- context [length (_ ++ _)] => rewrite app_length
          end; cbn [length] in *);
  lia.

Ltac leq := repeat (rewrite <- ?app_assoc; cbn [app]); reflexivity.

(* every word of a run points at the position just after the run *)
Definition is_run (l : list N) : Prop :=
  forall j w, nth_error l j = Some w ->
    word_tag w = TagNop /\ word_val w = N.of_nat (length l - j).

Section Seg.
Variables (msg strings : bytes).
Variables (strict adj : bool).

Inductive nops_seg : list N -> Prop :=
| ns_nil : nops_seg []
| ns_cons w junk rest :
    word_tag w = TagNop -> word_val w = nlen junk + 1 ->
    (strict = true -> is_run (w :: junk)) ->
    nops_seg rest -> nops_seg (w :: junk ++ rest).

Inductive val_seg : N -> list N -> doc -> Prop :=
| vs_str i w len s :
    word_tag w = TagString -> string_at msg strings (word_val w) len = Some s ->
    val_seg i [w; len] (DStr s)
| vs_int i w x :
    word_tag w = TagInteger -> (strict = true -> word_val w = 0) ->
    val_seg i [w; x] (DNum (NInt (s64 x)))
| vs_uint i w x :
    word_tag w = TagUint -> (strict = true -> word_val w = 0) ->
    val_seg i [w; x] (DNum (NUint x))
| vs_float i w x :
    word_tag w = TagFloat -> val_seg i [w; x] (DNum (NFloat x (word_val w)))
| vs_null i w :
    word_tag w = TagNull -> (strict = true -> word_val w = 0) -> val_seg i [w] DNull
| vs_true i w :
    word_tag w = TagBoolTrue -> (strict = true -> word_val w = 0) -> val_seg i [w] (DBool true)
| vs_false i w :
    word_tag w = TagBoolFalse -> (strict = true -> word_val w = 0) -> val_seg i [w] (DBool false)
| vs_arr i w body e l :
    word_tag w = TagArrayStart -> items (i + 1) body l -> word_tag e = TagArrayEnd ->
    word_val w = i + nlen body + 2 -> (strict = true -> word_val e = i) ->
    val_seg i (w :: body ++ [e]) (DArr l)
| vs_obj i w body e l :
    word_tag w = TagObjectStart -> mitems (i + 1) body l -> word_tag e = TagObjectEnd ->
    word_val w = i + nlen body + 2 -> (strict = true -> word_val e = i) ->
    val_seg i (w :: body ++ [e]) (DObj l)
with items : N -> list N -> list doc -> Prop :=
| it_nil i : items i [] []
| it_nop i w junk rest l :
    word_tag w = TagNop -> word_val w = nlen junk + 1 ->
    (strict = true -> is_run (w :: junk)) ->
    items (i + nlen junk + 1) rest l -> items i (w :: junk ++ rest) l
| it_val i v d rest l :
    val_seg i v d -> items (i + nlen v) rest l -> items i (v ++ rest) (d :: l)
with mitems : N -> list N -> list (bytes * doc) -> Prop :=
| mi_nil i : mitems i [] []
| mi_nop i w junk rest l :
    word_tag w = TagNop -> word_val w = nlen junk + 1 ->
    (strict = true -> is_run (w :: junk)) ->
    mitems (i + nlen junk + 1) rest l -> mitems i (w :: junk ++ rest) l
| mi_mem i w len k n2 v d rest l :
    word_tag w = TagString -> string_at msg strings (word_val w) len = Some k ->
    nops_seg n2 -> (adj = true -> n2 = []) ->
    val_seg (i + 2 + nlen n2) v d ->
    mitems (i + 2 + nlen n2 + nlen v) rest l ->
    mitems i (w :: len :: n2 ++ v ++ rest) ((k, d) :: l).

Scheme vs_mut := Minimality for val_seg Sort Prop
  with it_mut := Minimality for items Sort Prop
  with mi_mut := Minimality for mitems Sort Prop.
Combined Scheme seg_mutind from vs_mut, it_mut, mi_mut.

(* the sequence of roots; [i] is the absolute index of the head of the list *)
Inductive roots_seg : N -> list N -> list doc -> Prop :=
| rs_nil i : roots_seg i [] []
| rs_over i w rest :
    strict = false -> word_tag w = TagNop -> nlen rest + 1 < word_val w ->
    roots_seg i (w :: rest) []
| rs_nop i w junk rest l :
    word_tag w = TagNop -> word_val w = nlen junk + 1 ->
    (strict = true -> is_run (w :: junk)) ->
    roots_seg (i + nlen junk + 1) rest l -> roots_seg i (w :: junk ++ rest) l
| rs_root i w n1 v d n2 c rest l :
    word_tag w = TagRoot -> nops_seg n1 -> val_seg (i + 1 + nlen n1) v d -> nops_seg n2 ->
    word_tag c = TagRoot -> word_val c = i ->
    word_val w = i + 1 + nlen n1 + nlen v + nlen n2 + 1 ->
    roots_seg (i + 1 + nlen n1 + nlen v + nlen n2 + 1) rest l ->
    roots_seg i (w :: n1 ++ v ++ n2 ++ c :: rest) (d :: l).


(* ------------------------------------------------------------------ *)
(* tags                                                                *)

Definition is_val_tag (t : N) : bool :=
  (t =? TagString) || (t =? TagInteger) || (t =? TagUint) || (t =? TagFloat) ||
  (t =? TagNull) || (t =? TagBoolTrue) || (t =? TagBoolFalse) ||
  (t =? TagArrayStart) || (t =? TagObjectStart).

Lemma val_seg_head i v d : val_seg i v d ->
  exists w r, v = w :: r /\ is_val_tag (word_tag w) = true.
Proof.
  intros H; inversion H; subst; eexists; eexists; (split; [reflexivity|]);
    match goal with Ht : word_tag _ = _ |- _ => rewrite Ht; reflexivity end.
Qed.

Lemma val_seg_nonempty i v d : val_seg i v d -> (0 < length v)%nat.
Proof. intros H. destruct (val_seg_head _ _ _ H) as (w & r & -> & _). cbn [length]. lia. Qed.

End Seg.

(* ------------------------------------------------------------------ *)
(* growing the string buffer keeps every old string readable           *)

Lemma slice_mono (l v : bytes) off len s :
  slice l off len = Some s -> slice (l ++ v) off len = Some s.
Proof.
  unfold slice. intros H.
  destruct (off + len <=? N.of_nat (length l)) eqn:E; [|discriminate H].
  injection H as <-.
  replace (off + len <=? N.of_nat (length (l ++ v))) with true by (rewrite app_length; lia).
  f_equal. rewrite skipn_app.
  rewrite firstn_app.
  replace (N.to_nat len - length (skipn (N.to_nat off) l))%nat with 0%nat
    by (rewrite skipn_length; lia).
  cbn [firstn]. now rewrite app_nil_r.
Qed.

Lemma string_at_mono msg strings v payload len s :
  string_at msg strings payload len = Some s ->
  string_at msg (strings ++ v) payload len = Some s.
Proof.
  unfold string_at. destruct (N.land payload STRINGBUFBIT =? 0); [auto|apply slice_mono].
Qed.

Section Mono.
Variables (msg strings ext : bytes).
Variables (strict adj : bool).

Lemma seg_mono :
  (forall i v d, val_seg msg strings strict adj i v d -> val_seg msg (strings ++ ext) strict adj i v d) /\
  (forall i v l, items msg strings strict adj i v l -> items msg (strings ++ ext) strict adj i v l) /\
  (forall i v l, mitems msg strings strict adj i v l -> mitems msg (strings ++ ext) strict adj i v l).
Proof.
  apply seg_mutind; intros; econstructor; eauto using string_at_mono.
Qed.

Lemma roots_mono i v l :
  roots_seg msg strings strict adj i v l -> roots_seg msg (strings ++ ext) strict adj i v l.
Proof.
  induction 1; econstructor; eauto; apply seg_mono; assumption.
Qed.

End Mono.
