(* LookupFind.v — Object.FindKey, Object.FindPath and Iter.FindElement refine
   abs_find_key / abs_find_path (property C12, parts 1 and 2). *)
From SJ Require Import Model.Base Model.RefTables Spec.Json Spec.EditSpec Model.Tape
     Model.Iter Model.Walk Model.Edit Model.WF.
From SJ Require Import Proofs.TapeBase Proofs.TapeSeg Proofs.TapeDen Proofs.TapePath
     Proofs.TapeEdit Proofs.TapeIter Proofs.TapeDelete Proofs.TapeWF Proofs.TapeWalk
     Proofs.LookupBase.
From Coq Require Import Lia ZifyBool ZifyN ZifyNat.
Open Scope N_scope.

Lemma string_at_length msg strings payload len s :
  string_at msg strings payload len = Some s -> N.of_nat (length s) = len.
Proof.
  unfold string_at, slice. intros H.
  destruct (N.land payload STRINGBUFBIT =? 0).
  - destruct (payload + len <=? N.of_nat (length msg)) eqn:E; [|discriminate H].
    injection H as <-. rewrite firstn_length, skipn_length. lia.
  - destruct (N.land payload STRINGBUFMASK + len <=? N.of_nat (length strings)) eqn:E; [|discriminate H].
    injection H as <-. rewrite firstn_length, skipn_length. lia.
Qed.

Section Member.
Variables (msg strings : bytes) (strict adj : bool).
Notation val_seg := (val_seg msg strings strict adj).
Notation mitems := (mitems msg strings strict adj).
Notation nops_seg := (nops_seg strict).

(* the steps made for one member by the lookup loops: Advance onto the key,
   the reads of its length word and of the name, then either Advance or
   AdvanceIter onto the value *)
Lemma obj_member_lookup pj tmp pre n w len k n2 wv rv d X :
  pj_msg pj = msg -> pj_strings pj = strings ->
  N.of_nat (length msg) < two64 -> N.of_nat (length strings) < two64 ->
  pj_tape pj = pre ++ n ++ w :: len :: n2 ++ (wv :: rv) ++ X ->
  nops_seg n -> word_tag w = TagString -> string_at msg strings (word_val w) len = Some k ->
  nops_seg n2 -> val_seg (nlen pre + nlen n + 2 + nlen n2) (wv :: rv) d ->
  (i_off tmp + i_add tmp)%Z = Z.of_nat (length pre) ->
  (Z.of_nat (length pre + length n + 2 + length n2 + length (wv :: rv)) < i_len tmp)%Z ->
  exists tmp1 tmp2,
  advance pj tmp = Ok (tmp1, TypeString) /\
  (i_len tmp1 <=? i_off tmp1 + 1)%Z = false /\
  rd pj (i_len tmp1) (i_off tmp1) = Ok len /\
  string_byte_at pj (i_cur tmp1) len = Ok k /\
  advance pj tmp1 = Ok (tmp2, doc_type d) /\
  advance_iter pj tmp1 = Ok (tmp2, Some (sub_iter tmp2), doc_type d) /\
  doc_type d <> TypeNone /\
  (i_off tmp2 + i_add tmp2)%Z =
    Z.of_nat (length (pre ++ n ++ w :: len :: n2 ++ wv :: rv)) /\
  i_len tmp2 = i_len tmp /\
  walk_iter tmp2 (nlen (pre ++ n ++ w :: len :: n2)) (wv :: rv) /\
  walk_iter (sub_iter tmp2) (nlen (pre ++ n ++ w :: len :: n2)) (wv :: rv) /\
  i_len (sub_iter tmp2) = Z.of_nat (length (pre ++ n ++ w :: len :: n2 ++ wv :: rv)).
Proof.
  intros Hm Hs Bm Bs Ht Hn Hw Hk Hn2 Hv Hoff Hlen.
  destruct (obj_member_step msg strings strict adj pj tmp pre n w len k n2 wv rv d X
              Hm Hs Bm Bs Ht Hn Hw Hk Hn2 Hv Hoff Hlen)
    as (A1 & Off1 & L1 & Rd & Nm & A2 & Ty2 & Off2 & Add2 & L2).
  set (kidx := (Z.of_nat (length pre) + Z.of_nat (length n))%Z) in *.
  set (vidx := (kidx + 2 + Z.of_nat (length n2))%Z) in *.
  set (tmp1 := land tmp (kidx + 1) w) in *.
  set (tmp2 := land tmp1 (vidx + 1) wv) in *.
  assert (Add1 : i_add tmp1 = 1%Z).
  { unfold tmp1, land, with_calc, set_i, calc_next. cbn [i_add i_off i_cur i_t]. rewrite Hw. reflexivity. }
  assert (Hv' : val_seg (nlen (pre ++ n ++ [w; len]) + nlen n2) (wv :: rv) d).
  { eapply val_seg_idx; [|exact Hv]. rewrite !nlen_app. nl. }
  destruct (advance_iter_value msg strings strict adj pj tmp1 n2 wv rv d (pre ++ n ++ [w; len]) X Hn2)
    as (AI & On2 & _ & _ & _ & Wsub & Lsub); auto.
  { rewrite Ht. leq. }
  { rewrite Off1, Add1. unfold kidx. lens. }
  { rewrite L1. cbn [length] in *. lens. }
  assert (Eidx : (Z.of_nat (length (pre ++ n ++ [w; len])) + Z.of_nat (length n2) + 1 = vidx + 1)%Z).
  { unfold vidx, kidx. lens. }
  rewrite Eidx in AI, On2, Wsub, Lsub. fold tmp2 in AI, On2, Wsub, Lsub.
  rewrite (val_seg_type _ _ _ _ _ _ _ _ Hv) in *.
  exists tmp1, tmp2.
  split; [exact A1|]. split; [rewrite L1, Off1; cbn [length] in Hlen; unfold kidx; lens|].
  split; [exact Rd|]. split; [exact Nm|]. split; [exact A2|]. split; [exact AI|].
  split; [exact Ty2|]. split; [rewrite Off2, Add2; unfold vidx, kidx; lens|].
  split; [exact L2|].
  assert (En : nlen (pre ++ n ++ w :: len :: n2) = nlen (pre ++ n ++ [w; len]) + nlen n2).
  { rewrite !nlen_app. nl. }
  rewrite En. split; [|split; [exact Wsub|rewrite Lsub; lens]].
  split; [exact On2|]. rewrite Off2, Add2, L2. cbn [length] in Hlen. unfold vidx, kidx. lens.
Qed.

End Member.

(* ------------------------------------------------------------------ *)
(* FindKey                                                              *)

Section FindKey.
Variables (strict adj : bool).
Notation vseg pj := (val_seg (pj_msg pj) (pj_strings pj) strict adj).
Notation mseg pj := (mitems (pj_msg pj) (pj_strings pj) strict adj).

Lemma find_key_loop_S f pj tmp0 key :
  find_key_loop (S f) pj tmp0 key =
    do r <- advance pj tmp0;
    let '(tmp, typ) := r in
    if negb (t_is typ TypeString) || (i_len tmp <=? i_off tmp + 1)%Z then Ok NotFound
    else
      do len <- rd pj (i_len tmp) (i_off tmp);
      if negb (len =? N.of_nat (length key))%N then
        do r2 <- advance pj tmp;
        let '(tmp2, t2) := r2 in
        if t_is t2 TypeNone then Ok NotFound else find_key_loop f pj tmp2 key
      else
        match string_byte_at pj (i_cur tmp) len with
        | Ok name =>
          if negb (bytes_eqb name key) then
            do r2 <- advance pj tmp; find_key_loop f pj (fst r2) key
          else
            match advance_iter pj tmp with
            | Ok (_, Some d, ty) => Ok (Found ty d)
            | Ok (_, None, ty) => Ok (Found ty (move_to_end tmp))
            | Err => Ok NotFound
            | Crash => Crash
            | OutOfFuel => OutOfFuel
            end
        | Err => Ok NotFound
        | Crash => Crash
        | OutOfFuel => OutOfFuel
        end.
Proof. reflexivity. Qed.

(* result of a lookup, abstractly: the document found and an iterator that
   denotes it, of the reported type *)
Definition found_is (pj : pjson) (r : found) (o : option doc) : Prop :=
  match o with
  | None => r = NotFound
  | Some d => exists it, r = Found (doc_type d) it /\ denotes strict adj pj it d
  end.

Lemma find_key_loop_spec pj key :
  N.of_nat (length (pj_msg pj)) < two64 -> N.of_nat (length (pj_strings pj)) < two64 ->
  forall l body pre, mseg pj (nlen pre) body l ->
  forall tmp e post f,
  pj_tape pj = pre ++ body ++ e :: post -> word_tag e = TagObjectEnd ->
  (i_off tmp + i_add tmp)%Z = Z.of_nat (length pre) ->
  i_len tmp = Z.of_nat (length pre + length body + 1) ->
  (length l < f)%nat ->
  exists r, find_key_loop f pj tmp key = Ok r /\ found_is pj r (abs_find_key l key).
Proof.
  intros Bm Bs.
  induction l as [|[k d] l IH]; intros body pre Hit tmp e post f Ht He Hoff Hlen Hf;
    apply mitems_front in Hit; (destruct f as [|f]; [lia|]); rewrite find_key_loop_S.
  - destruct (advance_end strict pj tmp body e pre post Hit Ht (or_intror He) Hoff ltac:(lia)) as (it' & ->).
    cbn [obind]. cbv iota beta.
    change (negb (t_is TypeNone TypeString)) with true. cbn [orb].
    exists NotFound. split; reflexivity.
  - destruct Hit as (n0 & w & len & n2 & v & rest & -> & Hn & Hw & Hk & Hn2 & Hadj & Hv & Hrest).
    destruct (val_seg_head _ _ _ _ _ _ _ Hv) as (wv & rv & -> & Htag).
    assert (Ht' : pj_tape pj = pre ++ n0 ++ w :: len :: n2 ++ (wv :: rv) ++ rest ++ e :: post).
    { rewrite Ht. leq. }
    destruct (obj_member_lookup _ _ strict adj pj tmp pre n0 w len k n2 wv rv d (rest ++ e :: post)
                eq_refl eq_refl Bm Bs Ht' Hn Hw Hk Hn2 Hv Hoff)
      as (tmp1 & tmp2 & A1 & Chk & Rd & Nm & A2 & AI & Ty & Off2 & L2 & W2 & Wsub & _).
    { rewrite Hlen. lens. }
    rewrite A1. cbn [obind]. cbv iota beta.
    change (negb (t_is TypeString TypeString)) with false. cbn [orb].
    rewrite Chk, Rd. cbn [obind].
    (* continuing with the remaining members *)
    assert (Hcont : exists r, find_key_loop f pj tmp2 key = Ok r /\ found_is pj r (abs_find_key l key)).
    { apply (IH rest (pre ++ n0 ++ w :: len :: n2 ++ wv :: rv)) with (e := e) (post := post).
      - eapply mitems_idx; [|exact Hrest]. lens.
      - rewrite Ht. leq.
      - exact He.
      - exact Off2.
      - rewrite L2, Hlen. lens.
      - cbn [length] in Hf. lia. }
    pose proof (string_at_length _ _ _ _ _ Hk) as Hkl.
    cbn [abs_find_key].
    destruct (len =? N.of_nat (length key)) eqn:El; cbn [negb].
    + rewrite Nm.
      rewrite (bytes_eqb_sym key k).
      destruct (bytes_eqb k key) eqn:Ek; cbn [negb].
      * (* found *)
        rewrite AI. eexists. split; [reflexivity|].
        exists (sub_iter tmp2). split; [reflexivity|].
        exists (pre ++ n0 ++ w :: len :: n2), (wv :: rv), (rest ++ e :: post).
        split; [rewrite Ht; leq|]. split; [|exact Wsub].
        eapply val_seg_idx; [|exact Hv]. lens.
      * rewrite A2. cbn [obind fst]. exact Hcont.
    + rewrite A2. cbn [obind]. cbv iota beta.
      replace (t_is (doc_type d) TypeNone) with false by (symmetry; apply N.eqb_neq; exact Ty).
      replace (bytes_eqb key k) with false; [exact Hcont|].
      symmetry. apply bytes_eqb_false_iff. intros ->. lia.
Qed.

(* FindKey on the object at [pre] (segment sub, members l) *)
Theorem find_key_refines pj o key pre sub post l :
  N.of_nat (length (pj_msg pj)) < two64 -> N.of_nat (length (pj_strings pj)) < two64 ->
  pj_tape pj = pre ++ sub ++ post -> vseg pj (nlen pre) sub (DObj l) -> cont_at o pre sub ->
  exists r, find_key pj o key = Ok r /\ found_is pj r (abs_find_key l key).
Proof.
  intros Bm Bs Ht Hv (Hoff & Hlen).
  inversion Hv; subst.
  match goal with H : mitems _ _ _ _ _ body l |- _ => rename H into Hit end.
  unfold find_key.
  apply (find_key_loop_spec pj key Bm Bs l body (pre ++ [w])) with (e := e) (post := post).
  - eapply mitems_idx; [|exact Hit]. nl.
  - rewrite Ht. leq.
  - assumption.
  - cbn [cont_iter i_off i_add]. rewrite Hoff. lens.
  - cbn [cont_iter i_len]. rewrite Hlen. lens.
  - pose proof (proj2 (proj2 (seg_lengths _ _ _ _)) _ _ _ Hit) as Hll.
    unfold cont_fuel. rewrite Hlen. lens.
Qed.

End FindKey.
