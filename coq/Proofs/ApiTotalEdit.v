(* ApiTotalEdit.v — the in-place edit API (Iter.Set*, DeleteElems) on
   ARBITRARY tapes.  These methods index the tape WITHOUT a bounds check
   (parsed_json.go SetFloat/SetInt/SetUInt/SetStringBytes/SetBool/SetNull,
   parsed_object.go / parsed_array.go DeleteElems), so on a corrupt tape they
   CAN panic: ApiTotalFinal.v exhibits the tapes.  Here: the exact condition
   under which they do not ([edit_ready]), that it holds for every element
   Advance reports with Type() <> TypeNone, and that it is preserved. *)
From SJ Require Import Model.Base Model.RefTables Spec.Json Model.Tape Model.Iter Model.Walk Model.Edit.
From SJ Require Import Proofs.ApiTotalBase Proofs.ApiTotalLookup.
From Coq Require Import Lia ZifyBool ZifyNat ZifyN.
Open Scope Z_scope.

Lemma upd_nth_length {A} (g : A -> A) : forall (l : list A) n, length (upd_nth n g l) = length l.
Proof.
  induction l as [|x l IH]; intros [|n]; cbn [upd_nth length]; try reflexivity.
  rewrite IH. reflexivity.
Qed.

Definition same_shape (pj pj' : pjson) : Prop := tlen pj' = tlen pj.

Lemma wr_spec pj len off w : 0 <= off < len -> len <= tlen pj ->
  exists pj', wr pj len off w = Ok pj' /\ same_shape pj pj'.
Proof.
  intros Ho Hl. unfold wr, tlen in *.
  replace ((0 <=? off) && (off <? len) && (off <? Z.of_nat (length (pj_tape pj)))) with true by lia.
  eexists; split; [reflexivity|]. unfold same_shape, tlen. cbn [pj_tape]. rewrite upd_nth_length. reflexivity.
Qed.

Lemma iter_ok_shape pj pj' i : same_shape pj pj' -> iter_ok pj i -> iter_ok pj' i.
Proof. unfold same_shape, iter_ok. intros ->. auto. Qed.

(* the tag word, the value word of a two-word element and the whole span of a
   container lie inside the iterator's view *)
Definition edit_ready (i : iter) : Prop :=
  i_off i <= i_len i /\
  (is2 (i_t i) = true -> i_off i < i_len i) /\
  (is_open (i_t i) = true -> i_off i <= Z.of_N (i_cur i) <= i_len i).

Lemma is2_open_disjoint t : is2 t = true -> is_open t = true -> False.
Proof.
  unfold is2, is_open. intros H1 H2.
  apply orb_true_iff in H2. destruct H2 as [H2|H2]; [apply orb_true_iff in H2; destruct H2 as [H2|H2]|];
    apply N.eqb_eq in H2; subst t; discriminate.
Qed.

(* Advance + Type() <> TypeNone gives exactly that *)
Lemma advance_edit_ready pj i i' ty : iter_ok pj i -> advance pj i = Ok (i', ty) ->
  ty <> TypeNone -> iter_type i' <> TypeNone -> edit_ready i'.
Proof.
  intros Hok E Hty Hit.
  unfold advance in E.
  assert (G : forall fuel off, advance_loop fuel pj i off = Ok (i', ty) -> ty <> TypeNone ->
            i_add i' = calc_next false (i_off i') (i_cur i') (i_t i') /\ i_off i' <= i_len i').
  { induction fuel as [|f IH]; intros off; cbn [advance_loop]; [discriminate|].
    destruct (i_len i <=? off) eqn:E1; [intros H; injection H as <- <-; intros K; now elim K|].
    destruct (rd pj (i_len i) off) as [v| | |]; cbn [obind]; try discriminate.
    destruct (word_tag v =? TagNop)%N.
    - destruct (word_val v =? 0)%N; [intros H; injection H as <- <-; intros K; now elim K|apply IH].
    - cbv zeta. cbn [with_calc set_i i_len i_off i_add i_t i_cur].
      destruct (calc_next false (off + 1) (word_val v) (word_tag v) <? 0).
      + intros H; injection H as <- <-; intros K; now elim K.
      + intros H; injection H as <- <-. intros _. cbn [with_calc set_i i_len i_off i_add i_t i_cur]. split; [reflexivity|lia]. }
  destruct (G _ _ E Hty) as [Ga Gb].
  assert (Hadd : 0 <= i_add i').
  { pose proof (advance_spec pj i Hok) as Hs. unfold advance in Hs. rewrite E in Hs. cbn in Hs.
    destruct Hs as [[A _ _ _ _] _]. apply A. }
  unfold iter_type in Hit. destruct (i_len i' <? i_off i' + i_add i') eqn:E2; [now elim Hit|].
  unfold edit_ready. split; [exact Gb|]. rewrite Ga in E2, Hadd. unfold calc_next in E2, Hadd.
  split.
  - intros H2. rewrite H2 in E2. lia.
  - intros Ho. destruct (is2 (i_t i')) eqn:E3; [|rewrite Ho in E2, Hadd; lia].
    exfalso. exact (is2_open_disjoint _ E3 Ho).
Qed.

Definition edit_post (pj : pjson) (r : pjson * iter) : Prop :=
  same_shape pj (fst r) /\ iter_ok (fst r) (snd r).

Lemma set2_spec pj i w0 w1 t' cur' : iter_ok pj i -> edit_ready i -> t' <> TagEnd ->
  okP false (edit_post pj) (set2 pj i w0 w1 t' cur').
Proof.
  intros Hok (R1 & R2 & R3) Ht'. pose proof Hok as ([K0 K1] & K2 & K3 & K4). unfold set2, is_numstr.
  destruct (is2 (i_t i)) eqn:E2; [|exact I]. specialize (R2 eq_refl).
  assert (Hne : i_t i <> TagEnd) by (intros E; rewrite E in E2; discriminate). specialize (K4 Hne).
  destruct (wr_spec pj (i_len i) (i_off i - 1) w0) as (p1 & -> & S1); [lia|lia|]. cbn [obind].
  destruct (wr_spec p1 (i_len i) (i_off i) w1) as (p2 & -> & S2); [lia|unfold same_shape in S1; lia|]. cbn [obind okP].
  unfold edit_post, same_shape in *. cbn [fst snd]. split; [lia|].
  unfold iter_ok, set_i; cbn. repeat split; try lia.
Qed.

Theorem set_float_safe pj i b : iter_ok pj i -> edit_ready i -> okP false (edit_post pj) (set_float pj i b).
Proof. intros; apply set2_spec; auto; discriminate. Qed.
Theorem set_int_safe pj i z : iter_ok pj i -> edit_ready i -> okP false (edit_post pj) (set_int pj i z).
Proof. intros; apply set2_spec; auto; discriminate. Qed.
Theorem set_uint_safe pj i u : iter_ok pj i -> edit_ready i -> okP false (edit_post pj) (set_uint pj i u).
Proof. intros; apply set2_spec; auto; discriminate. Qed.

Theorem set_string_safe pj i v : iter_ok pj i -> edit_ready i ->
  okP false (fun r => tlen (fst r) = tlen pj /\ iter_ok (fst r) (snd r)) (set_string pj i v).
Proof.
  intros Hok (R1 & R2 & R3). pose proof Hok as ([K0 K1] & K2 & K3 & K4). unfold set_string, is_numstr.
  destruct (is2 (i_t i)) eqn:E2; [|exact I]. specialize (R2 eq_refl).
  assert (Hne : i_t i <> TagEnd) by (intros E; rewrite E in E2; discriminate). specialize (K4 Hne).
  cbv zeta.
  destruct (wr_spec pj (i_len i) (i_off i - 1) (mk_word TagString STRINGBUFBIT + N.of_nat (length (pj_strings pj)))%N)
    as (p1 & -> & S1); [lia|lia|]. cbn [obind].
  destruct (wr_spec p1 (i_len i) (i_off i) (N.of_nat (length v))) as (p2 & -> & S2);
    [lia|unfold same_shape in S1; lia|]. cbn [obind okP].
  unfold same_shape, tlen in *. cbn [fst snd pj_tape]. split; [lia|].
  unfold iter_ok, set_i, tlen; cbn. repeat split; try lia; try discriminate.
Qed.

Theorem set_bool_safe pj i b : iter_ok pj i -> edit_ready i -> okP false (edit_post pj) (set_bool pj i b).
Proof.
  intros Hok (R1 & R2 & R3). pose proof Hok as ([K0 K1] & K2 & K3 & K4). unfold set_bool.
  destruct (is_atom (i_t i)) eqn:E2; [|exact I].
  assert (Hne : i_t i <> TagEnd) by (intros E; rewrite E in E2; discriminate). specialize (K4 Hne).
  cbv zeta.
  destruct (wr_spec pj (i_len i) (i_off i - 1) (mk_word (if b then TagBoolTrue else TagBoolFalse) 0))
    as (p1 & -> & S1); [lia|lia|]. cbn [obind okP].
  unfold edit_post, same_shape in *. cbn [fst snd]. split; [lia|].
  unfold iter_ok, set_i; cbn. repeat split; try lia; try (destruct b; discriminate).
Qed.

Lemma fill_nops_spec : forall k pj len j endp,
  0 <= j -> endp <= len -> len <= tlen pj ->
  okP false (same_shape pj) (fill_nops k pj len j endp).
Proof.
  induction k as [|k IH]; intros pj len j endp Hj He Hl; cbn [fill_nops]; [reflexivity|].
  destruct (endp <=? j) eqn:E; [reflexivity|].
  destruct (wr_spec pj len j (mk_word TagNop (Z.to_N (endp - j)))) as (p1 & -> & S1); [lia|lia|]. cbn [obind].
  eapply okP_weaken; [|apply IH; unfold same_shape in *; lia].
  unfold same_shape in *. intros; lia.
Qed.

Theorem set_null_safe pj i : iter_ok pj i -> edit_ready i -> okP false (edit_post pj) (set_null pj i).
Proof.
  intros Hok (R1 & R2 & R3). pose proof Hok as ([K0 K1] & K2 & K3 & K4). unfold set_null. cbv zeta.
  destruct (is_atom (i_t i)) eqn:Ea.
  { assert (Hne : i_t i <> TagEnd) by (intros E; rewrite E in Ea; discriminate). specialize (K4 Hne).
    destruct (wr_spec pj (i_len i) (i_off i - 1) (mk_word TagNull 0)) as (p1 & -> & S1); [lia|lia|]. cbn [obind okP].
    unfold edit_post, same_shape in *. cbn [fst snd]. split; [lia|].
    unfold iter_ok, set_i; cbn. repeat split; try lia. }
  unfold is_numstr. destruct (is2 (i_t i)) eqn:E2.
  { specialize (R2 eq_refl).
    assert (Hne : i_t i <> TagEnd) by (intros E; rewrite E in E2; discriminate). specialize (K4 Hne).
    destruct (wr_spec pj (i_len i) (i_off i - 1) (mk_word TagNull 0)) as (p1 & -> & S1); [lia|lia|]. cbn [obind].
    destruct (wr_spec p1 (i_len i) (i_off i) (mk_word TagNop 1)) as (p2 & -> & S2); [lia|unfold same_shape in S1; lia|].
    cbn [obind okP]. unfold edit_post, same_shape in *. cbn [fst snd]. split; [lia|].
    unfold iter_ok, set_i; cbn. repeat split; try lia. }
  destruct (is_open (i_t i)) eqn:Eo; [|exact I]. specialize (R3 eq_refl).
  assert (Hne : i_t i <> TagEnd) by (intros E; rewrite E in Eo; discriminate). specialize (K4 Hne).
  destruct (wr_spec pj (i_len i) (i_off i - 1) (mk_word TagNull 0)) as (p1 & -> & S1); [lia|lia|]. cbn [obind].
  eapply okP_bind; [apply (fill_nops_spec _ p1 (i_len i) (i_off i) (Z.of_N (i_cur i))); unfold same_shape in *; lia|].
  intros p2 S2. cbn [okP]. unfold edit_post, same_shape in *. cbn [fst snd]. split; [lia|].
  unfold iter_ok, set_i; cbn. repeat split; try lia.
Qed.

(* ------------------------------------------------------------------ *)
(* DeleteElems                                                         *)

Lemma delete_span_spec pj len startO endp : 0 <= startO -> endp <= len -> len <= tlen pj ->
  okP false (same_shape pj) (delete_span pj len startO endp).
Proof. intros. unfold delete_span. apply fill_nops_spec; assumption. Qed.

(* Array.DeleteElems writes from the element's tag word to off+addNext without
   comparing with the length of the view.  A callback that only answers true
   for elements with Type() <> TypeNone (the whole element lies in the view)
   is modelled by guarding the decision: *)
Fixpoint arr_delete_loop_g (fuel : nat) (pj : pjson) (it : iter) (decide : list bool) (ncb : nat) : outcome (pjson * nat) :=
  match fuel with
  | O => OutOfFuel
  | S f =>
    do r <- advance pj it;
    let '(it', t) := r in
    if t_is t TypeNone then Ok (pj, ncb)
    else
      let '(d, rest) := match decide with [] => (false, []) | x :: r => (x, r) end in
      if d && negb (t_is (iter_type it') TypeNone) then
        do p1 <- delete_span pj (i_len it') (i_off it' - 1) (i_off it' + i_add it');
        arr_delete_loop_g f p1 it' rest (S ncb)
      else arr_delete_loop_g f pj it' rest (S ncb)
  end.

Lemma iter_type_complete i : t_is (iter_type i) TypeNone = false -> pos i <= i_len i.
Proof.
  unfold iter_type, pos, t_is. destruct (i_len i <? i_off i + i_add i) eqn:E; [discriminate|lia].
Qed.

Lemma arr_delete_loop_g_spec : forall fuel pj it decide ncb,
  iter_ok pj it -> (mu it < fuel)%nat ->
  okP false (fun r => same_shape pj (fst r)) (arr_delete_loop_g fuel pj it decide ncb).
Proof.
  induction fuel as [|f IH]; intros pj it decide ncb Hok Hf; [lia|].
  cbn [arr_delete_loop_g].
  eapply okP_bind; [apply (advance_spec pj it Hok)|].
  intros [it' t] [HA HT]. cbn [fst snd] in HA, HT.
  destruct (t_is t TypeNone) eqn:Et; [reflexivity|].
  assert (Hm : (mu it' < mu it)%nat).
  { apply (adv_post_mu pj); [exact HA|]. apply (ty_post_inside _ _ _ HT). unfold t_is in Et. lia. }
  pose proof (ap_ok _ _ _ _ HA) as Hok'.
  destruct decide as [|d rest].
  { cbn [andb]. apply IH; [exact Hok'|lia]. }
  destruct (d && negb (t_is (iter_type it') TypeNone)) eqn:Ed; [|apply IH; [exact Hok'|lia]].
  apply andb_true_iff in Ed. destruct Ed as [_ Ed]. apply negb_true_iff in Ed.
  apply iter_type_complete in Ed.
  pose proof Hok' as ([K0 K1] & K2 & K3 & K4).
  assert (Hne : i_t it' <> TagEnd).
  { destruct HT as [_ HT]. unfold t_is in Et. assert (Hn : t <> TypeNone) by lia.
    destruct (HT Hn) as [Hty _]. intros E. rewrite E in Hty. apply Hn. exact Hty. }
  specialize (K4 Hne).
  eapply okP_bind; [apply (delete_span_spec pj (i_len it') (i_off it' - 1) (i_off it' + i_add it')); unfold pos in *; lia|].
  intros p1 S1.
  eapply okP_weaken; [|apply IH; [apply (iter_ok_shape pj p1 it' S1 Hok')|lia]].
  unfold same_shape in *. intros; lia.
Qed.

(* the unguarded model agrees with the guarded one whenever every element it
   is asked to delete lies in the view; in particular when nothing is deleted *)
Lemma arr_delete_loop_none : forall fuel pj it ncb,
  arr_delete_loop fuel pj it [] ncb = arr_delete_loop_g fuel pj it [] ncb.
Proof.
  induction fuel as [|f IH]; intros pj it ncb; [reflexivity|].
  cbn [arr_delete_loop arr_delete_loop_g].
  destruct (advance pj it) as [[it' t]| | |]; cbn [obind]; try reflexivity.
  destruct (t_is t TypeNone); [reflexivity|]. cbn [andb]. apply IH.
Qed.

Theorem arr_delete_nothing_total pj a : cont_ok pj a ->
  okP false (fun r => same_shape pj (fst r)) (arr_delete pj a []).
Proof.
  intros Ho. unfold arr_delete. rewrite arr_delete_loop_none.
  apply arr_delete_loop_g_spec; [apply cont_iter_ok; exact Ho|].
  destruct Ho as [[H0 H1] H2]. unfold mu, pos, cont_fuel, cont_iter; cbn. lia.
Qed.

(* Object.DeleteElems, guarded the same way *)
Fixpoint obj_delete_loop_g (fuel : nat) (pj : pjson) (tmp : iter) (only : list bytes) (nkeys : nat) (n : nat)
         (decide : option (list bool)) (cbs : list bytes) : outcome (pjson * list bytes) :=
  match fuel with
  | O => OutOfFuel
  | S f =>
    do r <- advance pj tmp;
    let '(tmp, typ) := r in
    if negb (t_is typ TypeString) || (i_len tmp <=? i_off tmp + 1) then
      (if t_is typ TypeNone then Ok (pj, rev cbs) else Err)
    else
      let startO := i_off tmp - 1 in
      do len <- rd pj (i_len tmp) (i_off tmp);
      do name <- string_byte_at pj (i_cur tmp) len;
      if (0 <? nkeys)%nat && negb (existsb (bytes_eqb name) only) then
        do r2 <- advance pj tmp;
        let '(tmp2, t2) := r2 in
        if t_is t2 TypeNone then Ok (pj, rev cbs) else obj_delete_loop_g f pj tmp2 only nkeys n decide cbs
      else
        do r2 <- advance pj tmp;
        let '(tmp2, t2) := r2 in
        if t_is t2 TypeNone then Ok (pj, rev cbs)
        else
          let '(d, decide', cbs') :=
            match decide with
            | None => (true, None, cbs)
            | Some [] => (false, Some [], name :: cbs)
            | Some (x :: rest) => (x, Some rest, name :: cbs)
            end in
          do p1 <- (if d && negb (t_is (iter_type tmp2) TypeNone)
                    then delete_span pj (i_len tmp2) startO (i_off tmp2 + i_add tmp2) else Ok pj);
          if (S n =? nkeys)%nat then Ok (p1, rev cbs') else obj_delete_loop_g f p1 tmp2 only nkeys (S n) decide' cbs'
  end.

Lemma obj_delete_loop_g_spec : forall fuel pj tmp only nkeys n decide cbs,
  iter_ok pj tmp -> (mu tmp < fuel)%nat ->
  okP false (fun r => same_shape pj (fst r)) (obj_delete_loop_g fuel pj tmp only nkeys n decide cbs).
Proof.
  induction fuel as [|f IH]; intros pj tmp only nkeys n decide cbs Hok Hf; [lia|].
  cbn [obj_delete_loop_g].
  eapply okP_bind; [apply (advance_spec pj tmp Hok)|].
  intros [tmp1 typ] [HA HT]. cbn [fst snd] in HA, HT.
  pose proof (ap_ok _ _ _ _ HA) as Hok1.
  unfold t_is at 1.
  destruct (N.eqb_spec typ TypeString) as [Ety|Ety]; cbn [negb orb].
  2:{ destruct (t_is typ TypeNone); [reflexivity|exact I]. }
  destruct (i_len tmp1 <=? i_off tmp1 + 1) eqn:E1.
  { destruct (t_is typ TypeNone); [reflexivity|exact I]. }
  assert (Hm : (mu tmp1 < mu tmp)%nat).
  { apply (adv_post_mu pj); [exact HA|]. apply (ty_post_inside _ _ _ HT). rewrite Ety. discriminate. }
  assert (Hne1 : i_t tmp1 <> TagEnd).
  { destruct HT as [_ HT]. assert (Hn : typ <> TypeNone) by (rewrite Ety; discriminate).
    destruct (HT Hn) as [Hty _]. intros E. rewrite E in Hty. apply Hn. exact Hty. }
  pose proof Hok1 as ([K0 K1] & K2 & K3 & K4). specialize (K4 Hne1).
  destruct (rd_in pj (i_len tmp1) (i_off tmp1) K1) as (len & ->); [lia|]. cbn [obind]. cbv zeta.
  pose proof (string_byte_at_spec pj (i_cur tmp1) len) as Hs.
  destruct (string_byte_at pj (i_cur tmp1) len) as [name| | |]; cbn [okP obind] in *; try tauto.
  destruct ((0 <? nkeys)%nat && negb (existsb (bytes_eqb name) only)).
  - eapply okP_bind; [apply (advance_spec pj tmp1 Hok1)|].
    intros [tmp2 t2] [HA2 HT2]. cbn [fst snd] in HA2, HT2.
    destruct (t_is t2 TypeNone); [reflexivity|].
    apply IH; [apply (ap_ok _ _ _ _ HA2)|]. pose proof (adv_post_mu_le _ _ _ HA2). lia.
  - eapply okP_bind; [apply (advance_spec pj tmp1 Hok1)|].
    intros [tmp2 t2] [HA2 HT2]. cbn [fst snd] in HA2, HT2.
    destruct (t_is t2 TypeNone); [reflexivity|].
    pose proof (ap_ok _ _ _ _ HA2) as Hok2. pose proof (ap_len _ _ _ _ HA2) as Hlen2.
    pose proof (adv_post_mu_le _ _ _ HA2) as Hm2.
    set (tr := match decide with
               | None => (true, None, cbs)
               | Some [] => (false, Some [], name :: cbs)
               | Some (x :: rest) => (x, Some rest, name :: cbs)
               end).
    destruct tr as [[d decide'] cbs'].
    eapply okP_bind with (P := same_shape pj).
    + destruct (d && negb (t_is (iter_type tmp2) TypeNone)) eqn:Ed; [|reflexivity].
      apply andb_true_iff in Ed. destruct Ed as [_ Ed]. apply negb_true_iff in Ed.
      apply iter_type_complete in Ed.
      pose proof Hok2 as ([J0 J1] & J2 & J3 & J4).
      apply delete_span_spec; unfold pos in *; lia.
    + intros p1 S1. destruct (S n =? nkeys)%nat; [exact S1|].
      eapply okP_weaken; [|apply IH; [apply (iter_ok_shape pj p1 tmp2 S1 Hok2)|lia]].
      unfold same_shape in *. intros; lia.
Qed.
