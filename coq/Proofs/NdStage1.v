(* NdStage1.v — stage 1 in NDJSON mode (nd = true).
   Away from LF bytes the step function does not depend on [nd]; on white
   space outside strings an LF is structural, any other blank is not.  The
   final state on a message in normal form is outside strings without error,
   so [s1_buffers true] hands over exactly the positions of the plain fold. *)
From Coq Require Import ZifyBool ZifyN ZifyNat.
From SJ Require Import Model.Base Model.RefTables Spec.Json Model.Number Model.Str Model.Stage1.
From SJ Require Import Proofs.StrArith Proofs.StrProofs Proofs.TrimProofs.
From SJ Require Import Model.Stage2 Model.Driver Model.Tape.
From SJ Require Import Proofs.Stage1Proofs Proofs.Stage1Buffers Proofs.Stage2Base Proofs.Stage2Proofs.
From SJ Require Import Proofs.AcceptProofs Proofs.NdSpec.
Open Scope N_scope.

(* ------------------------------------------------------------------ *)
(* the step function away from LF                                      *)

Lemma s1_step_nd st c : c <> cLF -> s1_step true st c = s1_step false st c.
Proof.
  intros H. unfold s1_step. replace (c =? cLF) with false by (symmetry; apply N.eqb_neq; exact H).
  cbn [andb]. reflexivity.
Qed.

Lemma s1_fold_nolf : forall s st p, nolf s -> s1_fold true st p s = s1_fold false st p s.
Proof.
  induction s as [|b r IH]; intros st p H; [reflexivity|].
  inversion H as [|? ? Hb Hr]; subst.
  cbn [s1_fold]. rewrite (s1_step_nd st _ Hb). rewrite IH by exact Hr. reflexivity.
Qed.

Lemma step_lf_nd pr : s1_step true (OutS pr) cLF = (OutS true, true).
Proof. destruct pr; reflexivity. Qed.

Lemma fold_ws_nd pr p b r : is_json_ws (b2n b) = true -> b2n b <> cLF ->
  s1_fold true (OutS pr) p (b :: r) = s1_fold true (OutS true) (S p) r.
Proof.
  intros H Hn. rewrite (s1_fold_cons true (OutS pr) p b r (OutS true) false); [reflexivity|].
  rewrite s1_step_nd by exact Hn. apply step_ws. exact H.
Qed.

Lemma fold_lf_nd pr p b r : b2n b = cLF ->
  s1_fold true (OutS pr) p (b :: r) = consp p (s1_fold true (OutS true) (S p) r).
Proof.
  intros H. rewrite (s1_fold_cons true (OutS pr) p b r (OutS true) true); [reflexivity|].
  rewrite H. apply step_lf_nd.
Qed.

Lemma fold_markup_nd pr p b r : is_markup (b2n b) = true ->
  s1_fold true (OutS pr) p (b :: r) = consp p (s1_fold true (OutS true) (S p) r).
Proof.
  intros H. rewrite (s1_fold_cons true (OutS pr) p b r (OutS true) true); [reflexivity|].
  rewrite s1_step_nd; [apply step_markup; exact H|].
  intros E. rewrite E in H. discriminate.
Qed.

(* the final state after white space *)
Lemma fold_allws_nd_fst : forall w pr p, allws w ->
  exists pr', fst (s1_fold true (OutS pr) p w) = OutS pr'.
Proof.
  induction w as [|b w IH]; intros pr p H.
  - exists pr. reflexivity.
  - inversion H as [|? ? Hb Hw]; subst.
    destruct (N.eq_dec (b2n b) cLF) as [E|E].
    + rewrite fold_lf_nd by exact E. cbn [consp fst]. apply IH. exact Hw.
    + rewrite fold_ws_nd by assumption. apply IH. exact Hw.
Qed.

(* ------------------------------------------------------------------ *)
(* a single accepted text                                               *)

Lemma container_head f t d r b r0 :
  spec_value f t = SOk (d, r) -> is_container d = true -> skip_ws t = b :: r0 ->
  b2n b = cLBRACE \/ b2n b = cLBRACK.
Proof.
  intros Hspec Hcd Esk. destruct f as [|f]; [discriminate|].
  rewrite spec_value_S, Esk in Hspec. cbv zeta in Hspec.
  destruct (b2n b =? cLBRACE) eqn:E1; [left; apply N.eqb_eq; exact E1|].
  destruct (b2n b =? cLBRACK) eqn:E2; [right; apply N.eqb_eq; exact E2|].
  exfalso.
  destruct (b2n b =? cQUOTE).
  { destruct (spec_string f r0 []) as [[str r']| | |]; try discriminate. injection Hspec as <- _. discriminate. }
  destruct (b2n b =? c_t).
  { destruct (starts_with _ _); [|discriminate]. injection Hspec as <- _. discriminate. }
  destruct (b2n b =? c_f).
  { destruct (starts_with _ _); [|discriminate]. injection Hspec as <- _. discriminate. }
  destruct (b2n b =? c_n).
  { destruct (starts_with _ _); [|discriminate]. injection Hspec as <- _. discriminate. }
  destruct ((b2n b =? cMINUS) || is_digit (b2n b)); [|discriminate].
  destruct (lex_number (b :: r0)) as [[lit r']|]; [|discriminate].
  destruct (num_spec lit); [|discriminate]. injection Hspec as <- _. discriminate.
Qed.

Definition opener (b : byte) : Prop := b2n b = cLBRACE \/ b2n b = cLBRACK.

Lemma opener_markup b : opener b -> is_markup (b2n b) = true.
Proof. intros [-> | ->]; reflexivity. Qed.

Lemma opener_not_ws b : opener b -> is_json_ws (b2n b) = false.
Proof. intros [-> | ->]; reflexivity. Qed.

Lemma good_doc_head t d : good_doc t d -> exists b r0, t = b :: r0 /\ opener b.
Proof.
  intros (_ & Hv & Hc & (b & r0 & Et & Hb & _) & _).
  exists b, r0. split; [exact Et|].
  eapply container_head; [exact Hv|exact Hc|]. rewrite Et. apply skip_ws_nonws. exact Hb.
Qed.

(* final stage-1 state and last byte of an accepted text (by running the
   stage-2 simulation once, abstractly) *)
Lemma doc_final_state (t : bytes) (d : doc) (f : nat) :
  N.of_nat (length t) < STRINGBUFBIT ->
  spec_value f t = SOk (d, []) -> is_container d = true ->
  exists pr' pre' c, fst (s1_fold false (OutS true) 0 t) = OutS pr' /\ t = pre' ++ [c] /\ closer c.
Proof.
  intros Hlen Hspec Hcd.
  set (stF := fst (s1_fold false (OutS true) 0 t)).
  set (ps := snd (s1_fold false (OutS true) 0 t)).
  set (bufsA := match ps with [] => [] | _ => [incs 0 ps] end).
  assert (HneA : noempty bufsA).
  { unfold bufsA. destruct ps as [|p0 ps0]; [constructor|].
    constructor; [rewrite incs_cons; discriminate|constructor]. }
  assert (HcatA : concat bufsA = incs 0 ps).
  { unfold bufsA. destruct ps; [reflexivity|]. cbn [concat]. apply app_nil_r. }
  set (mA := write_tape (push_scope (m2_init t bufsA) retStart) 0 TagRoot).
  assert (HwfA : mwf t mA) by (constructor; try reflexivity; exact HneA).
  assert (HatA : at_text t stF mA t true).
  { exists []. cbn [app length]. split; [reflexivity|]. split; [cbn; lia|]. split; [intros H; exfalso; apply H; reflexivity|].
    split; [cbn; lia|]. split; [reflexivity|]. exact HcatA. }
  assert (HtlA : tl_ok mA 0) by (unfold tl_ok; cbn; lia).
  destruct (root_sim true t Hlen stF f t d mA Hspec Hcd HwfA HatA HtlA)
    as (k & m' & ws & ap & pr' & Hn & _ & Hat' & _ & _ & _ & _ & _ & pre' & c & Hm & Hc).
  destruct Hat' as (pre & _ & _ & _ & _ & Hf & _). cbn [s1_fold fst] in Hf.
  exists pr', pre', c. split; [symmetry; exact Hf|]. split; [exact Hm|exact Hc].
Qed.

(* the state after an accepted LF-free text, from any outside state, in
   either mode *)
Lemma good_doc_state t d pr p nd :
  good_doc t d -> N.of_nat (length t) < STRINGBUFBIT ->
  exists pr', fst (s1_fold nd (OutS pr) p t) = OutS pr'.
Proof.
  intros Hg Hlen.
  destruct (good_doc_head t d Hg) as (b & r0 & Et & Hop).
  destruct Hg as (Hnl & Hv & Hc & _).
  destruct (doc_final_state t d _ Hlen Hv Hc) as (pr' & _ & _ & Hf & _).
  exists pr'.
  assert (E : s1_fold nd (OutS pr) p t = s1_fold false (OutS pr) p t).
  { destruct nd; [apply s1_fold_nolf; exact Hnl|reflexivity]. }
  rewrite E. rewrite <- Hf. rewrite Et.
  rewrite !fold_markup by (apply opener_markup; exact Hop). cbn [consp fst].
  apply s1_fold_fst_p.
Qed.

(* ------------------------------------------------------------------ *)
(* a message in normal form                                             *)

Lemma flat_len_item i r : (length (it_t i) <= length (flat (i :: r)))%nat /\ (length (flat r) <= length (flat (i :: r)))%nat.
Proof. cbn [flat]. rewrite !app_length. lia. Qed.

Lemma fold_items_state : forall items pr p,
  Forall item_ok items -> N.of_nat (length (flat items)) < STRINGBUFBIT ->
  exists pr', fst (s1_fold true (OutS pr) p (flat items)) = OutS pr'.
Proof.
  induction items as [|i r IH]; intros pr p Hok Hlen.
  - exists pr. reflexivity.
  - inversion Hok as [|? ? Hi Hr]; subst. destruct Hi as [Hg Hw].
    destruct (flat_len_item i r) as [L1 L2].
    cbn [flat]. rewrite s1_fold_app. cbn [fst].
    destruct (good_doc_state (it_t i) (it_d i) pr p true Hg ltac:(lia)) as (pr1 & E1).
    rewrite E1. rewrite s1_fold_app. cbn [fst].
    destruct (fold_allws_nd_fst (it_w i) pr1 (p + length (it_t i)) Hw) as (pr2 & E2).
    rewrite E2. apply IH; [exact Hr|lia].
Qed.

Lemma flat_last_closer : forall items, items <> [] -> Forall item_ok items -> seps_ok items ->
  N.of_nat (length (flat items)) < STRINGBUFBIT ->
  exists init c, flat items = init ++ [c] /\ closer c.
Proof.
  induction items as [|i r IH]; intros Hne Hok Hsep Hlen; [congruence|].
  inversion Hok as [|? ? Hi Hr]; subst. destruct Hsep as [Hs1 Hs2].
  destruct (flat_len_item i r) as [L1 L2].
  destruct r as [|i2 r2].
  - destruct Hi as [(_ & Hv & Hc & _) _].
    destruct (doc_final_state (it_t i) (it_d i) _ ltac:(lia) Hv Hc) as (_ & pre' & c & _ & Et & Hcl).
    exists pre', c. cbn [flat]. rewrite Hs1, Et, !app_nil_r. split; [reflexivity|exact Hcl].
  - destruct (IH ltac:(discriminate) Hr Hs2 ltac:(lia)) as (init & c & Ef & Hcl).
    exists (it_t i ++ it_w i ++ init), c.
    change (flat (i :: i2 :: r2)) with (it_t i ++ it_w i ++ flat (i2 :: r2)).
    rewrite Ef, <- !app_assoc. split; [reflexivity|exact Hcl].
Qed.

(* ------------------------------------------------------------------ *)
(* the buffers of stage 1 in NDJSON mode                                *)

Theorem s1_buffers_ok_nd msg init c pr ps :
  msg = init ++ [c] -> (b2n c = cRBRACE \/ b2n c = cRBRACK) ->
  s1_fold true s1_init 0 msg = (OutS pr, ps) ->
  o_ok (s1_buffers true msg) = true /\
  concat (o_bufs (s1_buffers true msg)) = ps /\
  Forall nonempty (o_bufs (s1_buffers true msg)).
Proof.
  intros Hmsg Hc Hfold.
  unfold s1_buffers, s1_all.
  destruct (s1_blocks_spec true (S (length msg / 64)) s1_init 0 msg) as (blocks & Hb & Hcat & Hl & Hq).
  { pose proof (Nat.div_mod (length msg) 64 ltac:(lia)) as D.
    pose proof (Nat.mod_upper_bound (length msg) 64 ltac:(lia)) as U. lia. }
  rewrite Hb, Hfold. cbn [fst].
  assert (Hmk : is_markup (b2n c) = true) by (destruct Hc as [-> | ->]; reflexivity).
  assert (Hstep : snd (s1_step true (fst (s1_fold true s1_init 0 init)) (b2n c)) = true).
  { apply markup_last_struct; [exact Hmk|].
    pose proof (s1_fold_app true init [c] s1_init 0) as Ha. rewrite <- Hmsg, Hfold, fold_single in Ha.
    apply (f_equal fst) in Ha. cbn [fst] in Ha. rewrite <- Ha. reflexivity. }
  pose proof (Hq init c Hmsg Hstep) as Hends. cbn [Nat.add] in Hends.
  assert (Hrem : (0 < length msg)%nat) by (rewrite Hmsg, app_length; cbn [length]; lia).
  assert (Hlb : length blocks = ((length msg + 63) / 64)%nat) by exact Hl.
  destruct (s1_loop_ok msg (OutS pr) (length init) eq_refl eq_refl) with
    (fuel := S (length blocks)) (rem := length msg) (blocks := blocks) (stripped := @None nat)
    (sent := @nil (list nat)) (total := 0%nat) as (A & B & C); try assumption; try lia.
  { unfold byte_at, nth_b. rewrite Hmsg, app_nth2, Nat.sub_diag by lia. exact Hc. }
  { constructor. }
  cbv zeta in *. split; [exact A|]. split; [|exact C].
  rewrite B. cbn [rev concat app]. rewrite Hcat, Hfold. reflexivity.
Qed.

(* stage 1 on a message in normal form *)
Theorem nd_stage1 items :
  items <> [] -> Forall item_ok items -> seps_ok items ->
  N.of_nat (length (flat items)) < STRINGBUFBIT ->
  let msg := flat items in
  let o := s1_buffers true msg in
  o_ok o = true /\
  concat (o_bufs o) = snd (s1_fold true s1_init 0 msg) /\
  Forall nonempty (o_bufs o).
Proof.
  intros Hne Hok Hsep Hlen. cbv zeta.
  destruct (flat_last_closer items Hne Hok Hsep Hlen) as (init & c & Ef & Hcl).
  destruct (fold_items_state items true 0 Hok Hlen) as (pr' & Hst).
  change (OutS true) with s1_init in Hst.
  apply (s1_buffers_ok_nd (flat items) init c pr' _ Ef Hcl).
  rewrite <- Hst. destruct (s1_fold true s1_init 0 (flat items)); reflexivity.
Qed.
