(* MaskProofsDriver.v — parsing with either kernel family.  [parse_message_k]
   is Model/Driver.parse_message with stage 1 computed by the mask kernels of
   the chosen family; both families give the outcome of the scalar model, so
   they give the same outcome on every input (property C06 at mask level). *)
From Coq Require Import Lia.
From SJ Require Import Model.Base Model.RefTables Model.Stage1 Model.Stage2 Model.Driver.
From SJ Require Import Proofs.StrProofs.
From SJ Require Import Proofs.MaskModel Proofs.MaskProofsBits Proofs.MaskProofsBlock Proofs.MaskProofsAll.
Open Scope N_scope.

Inductive family := AVX2 | AVX512.

Definition mask_all_k (fam : family) : bool -> bytes -> kstate * list (list nat) :=
  match fam with AVX2 => mask_all_avx2 | AVX512 => mask_all end.

(* findStructuralIndices with the kernels of one family *)
Definition mask_buffers_k (fam : family) (nd : bool) (msg : bytes) : s1out :=
  let '(k, blocks) := mask_all_k fam nd msg in
  s1_loop (S (length blocks)) msg (abs_kstate k) (length msg) blocks None [] 0.

(* parseMessage with the kernels of one family *)
Definition parse_message_k (fam : family) (nd copy : bool) (msg0 : bytes) : outcome parsed :=
  let msg := trim_space_go msg0 in
  let o := mask_buffers_k fam nd msg in
  let bufs := bufs_incs 0 (o_bufs o) in
  match run2 copy msg bufs with
  | Crash => Crash
  | OutOfFuel => OutOfFuel
  | Err => Err
  | Ok m =>
    if o_ok o then Ok {| p_msg := msg; p_tape := final_tape m; p_strings := final_strings m |}
    else Err
  end.

Lemma mask_blocks_avx2_eq nd : forall fuel k p bs,
  mask_blocks_avx2 fuel nd k p bs = mask_blocks fuel nd k p bs.
Proof.
  induction fuel as [|fuel IH]; intros k p bs; [reflexivity|].
  destruct bs as [|c r]; [reflexivity|].
  unfold mask_blocks_avx2, mask_blocks. cbn [mask_blocks_gen].
  rewrite mask_block_avx2_eq by apply take_pad_length.
  destruct (mask_block nd k (take_pad cSPACE 64 (c :: r))) as [k1 m].
  fold mask_blocks_avx2. fold mask_blocks. rewrite IH. reflexivity.
Qed.

Theorem mask_all_avx2_eq nd msg : mask_all_avx2 nd msg = mask_all nd msg.
Proof. apply mask_blocks_avx2_eq. Qed.

Theorem mask_buffers_k_eq fam nd msg : mask_buffers_k fam nd msg = s1_buffers nd msg.
Proof.
  rewrite <- mask_buffers_eq. unfold mask_buffers_k, mask_buffers.
  destruct fam; cbn [mask_all_k]; [rewrite mask_all_avx2_eq|]; reflexivity.
Qed.

Theorem parse_message_k_eq fam nd copy msg0 :
  parse_message_k fam nd copy msg0 = parse_message nd copy msg0.
Proof. unfold parse_message_k, parse_message. rewrite mask_buffers_k_eq. reflexivity. Qed.

Theorem parse_families_agree nd copy msg0 :
  parse_message_k AVX512 nd copy msg0 = parse_message_k AVX2 nd copy msg0.
Proof. rewrite !parse_message_k_eq. reflexivity. Qed.
