(* SerFraming.v — the framing of serialized blobs with uncompressed blocks:
   [uvarint] inverts Go's binary.PutUvarint, a raw block is read back by
   [dec_block], and a whole blob assembled from raw blocks is read back by
   [deser_blob] to [deser_core]'s result. *)
From Coq Require Import ZifyBool ZifyN ZifyNat.
From SJ Require Import Model.Base Model.RefTables Model.Iter Model.Serialize.
From SJ Require Import Proofs.StrArith Proofs.SerBase.
Open Scope N_scope.

(* binary.PutUvarint *)
Fixpoint put_uvarint_aux (fuel : nat) (n : N) : bytes :=
  match fuel with
  | O => []
  | S f => if n <? 128 then [n2b n] else n2b (128 + n mod 128) :: put_uvarint_aux f (n / 128)
  end.
Definition put_uvarint (n : N) : bytes := put_uvarint_aux 10 n.

Lemma read_uvarint_S f c r x s i :
  read_uvarint (S f) (c :: r) x s i =
      let v := b2n c in
      if (i =? 10)%nat then None
      else if v <? 128 then
        if (i =? 9)%nat && (1 <? v) then None
        else Some (N.lor x (N.shiftl v s), r)
      else read_uvarint f r (N.lor x (N.shiftl (N.land v 127) s)) (s + 7) (S i).
Proof. reflexivity. Qed.

Lemma lor_shiftl x v s : x < 2 ^ s -> N.lor x (N.shiftl v s) = x + v * 2 ^ s.
Proof. intros H. rewrite N.shiftl_mul_pow2. apply lor_disjoint. exact H. Qed.

Lemma read_put : forall k i f m x s r,
  (i + S k = 10)%nat -> (S k < f)%nat -> s = 7 * N.of_nat i -> x < 2 ^ s -> m * 2 ^ s < two64 ->
  read_uvarint f (put_uvarint_aux (S k) m ++ r) x s i = Some (x + m * 2 ^ s, r).
Proof.
  induction k as [|k IH]; intros i f m x s r Hik Hf Hs Hx Hm.
  - (* tenth byte: one bit left *)
    assert (i = 9%nat) by lia. subst i.
    assert (Hm2 : m < 2).
    { subst s. change (2 ^ (7 * N.of_nat 9)) with 9223372036854775808 in Hm. unfold two64 in Hm. lia. }
    destruct f as [|f]; [lia|].
    cbn [put_uvarint_aux]. replace (m <? 128) with true by lia. cbn [app].
    rewrite read_uvarint_S. cbv zeta. rewrite b2n_n2b_small by lia.
    change (9 =? 10)%nat with false. cbv iota.
    replace (m <? 128) with true by lia. replace (1 <? m) with false by lia.
    rewrite andb_false_r. rewrite lor_shiftl by exact Hx. reflexivity.
  - destruct f as [|f]; [lia|].
    change (put_uvarint_aux (S (S k)) m) with
      (if m <? 128 then [n2b m] else n2b (128 + m mod 128) :: put_uvarint_aux (S k) (m / 128)).
    assert (Hi10 : (i =? 10)%nat = false) by (apply Nat.eqb_neq; lia).
    assert (Hi9 : (i =? 9)%nat = false) by (apply Nat.eqb_neq; lia).
    destruct (m <? 128) eqn:E.
    + cbn [app]. rewrite read_uvarint_S. cbv zeta. rewrite b2n_n2b_small by lia.
      rewrite Hi10, Hi9, E. cbn [andb]. rewrite lor_shiftl by exact Hx. reflexivity.
    + cbn [app]. rewrite read_uvarint_S. cbv zeta.
      assert (Hlt : m mod 128 < 128) by (apply N.mod_lt; discriminate).
      rewrite b2n_n2b_small by lia.
      rewrite Hi10. replace (128 + m mod 128 <? 128) with false by lia.
      change 127 with (N.ones 7). rewrite N.land_ones. change (2 ^ 7) with 128.
      replace ((128 + m mod 128) mod 128) with (m mod 128).
      2:{ replace (128 + m mod 128) with (m mod 128 + 1 * 128) by lia.
          rewrite N.mod_add by discriminate. symmetry. apply N.mod_small. exact Hlt. }
      rewrite lor_shiftl by exact Hx.
      pose proof (N.div_mod m 128 ltac:(discriminate)) as Hdm.
      assert (Hp : 2 ^ (s + 7) = 2 ^ s * 128) by (rewrite N.pow_add_r; reflexivity).
      rewrite IH.
      * f_equal. f_equal. rewrite Hp. rewrite Hdm at 3. ring.
      * lia.
      * lia.
      * lia.
      * rewrite Hp. nia.
      * rewrite Hp. rewrite Hdm in Hm. nia.
Qed.

Theorem uvarint_put_uvarint n r : n < two64 -> uvarint (put_uvarint n ++ r) = Some (n, r).
Proof.
  intros Hn. unfold uvarint, put_uvarint.
  rewrite (read_put 9 0 11 n 0 0 r); try lia; try reflexivity.
  rewrite N.add_0_l. change (2 ^ 0) with 1. rewrite N.mul_1_r. unfold w64. rewrite N.mod_small by exact Hn. reflexivity.
Qed.

(* at most ten bytes *)
Lemma put_uvarint_aux_length : forall k n, (length (put_uvarint_aux k n) <= k)%nat.
Proof.
  induction k as [|k IH]; intros n; cbn [put_uvarint_aux length]; [lia|].
  destruct (n <? 128); cbn [length]; [lia|]. specialize (IH (n / 128)). lia.
Qed.

(* ------------------------------------------------------------------ *)
(* raw blocks                                                           *)

(* a block stored uncompressed (type byte 0), followed by [r] *)
Definition raw_block (d : bytes) (r : bytes) : bytes :=
  put_uvarint (N.of_nat (length d) + 1) ++ x00 :: d ++ r.

Lemma dec_block_raw d r : N.of_nat (length d) + 1 < two64 ->
  dec_block (raw_block d r) (N.of_nat (length d)) = (BRaw d, r).
Proof.
  intros Hd. unfold dec_block, raw_block.
  rewrite uvarint_put_uvarint by exact Hd.
  cbn [length]. rewrite app_length.
  replace (N.of_nat (S (length d + length r)) <? N.of_nat (length d) + 1) with false by lia.
  replace (N.of_nat (length d) + 1 =? 0) with false by lia. cbn [andb].
  replace (N.of_nat (length d) + 1 <? 1) with false by lia.
  change (b2n x00) with 0. change (0 =? 0) with true. cbv iota.
  replace (N.to_nat (N.of_nat (length d) + 1 - 1)) with (length d) by lia.
  rewrite firstn_app, Nat.sub_diag, firstn_O, app_nil_r, firstn_all.
  rewrite skipn_app, Nat.sub_diag, skipn_all. cbn [skipn app].
  rewrite N.eqb_refl. reflexivity.
Qed.

(* ------------------------------------------------------------------ *)
(* whole blobs                                                          *)

Definition blob_body (ts : N) (strs msg tags vals : bytes) : bytes :=
  put_uvarint ts ++
  put_uvarint (N.of_nat (length strs)) ++ raw_block strs (
  put_uvarint (N.of_nat (length msg)) ++ raw_block msg (
  put_uvarint (N.of_nat (length tags)) ++ raw_block tags (
  put_uvarint (N.of_nat (length vals)) ++ raw_block vals []))).

(* version byte, length of the rest, tape size, then the four sections
   (strings, message, tags, values), each as its size and a raw block *)
Definition raw_blob (ts : N) (strs msg tags vals : bytes) : bytes :=
  let body := blob_body ts strs msg tags vals in
  n2b serializedVersion :: put_uvarint (N.of_nat (length body)) ++ body.

Lemma put_uvarint_length n : (length (put_uvarint n) <= 10)%nat.
Proof. apply put_uvarint_aux_length. Qed.

Lemma blob_body_length ts strs msg tags vals :
  (length (blob_body ts strs msg tags vals) <= 94 + length strs + length msg + length tags + length vals)%nat.
Proof.
  unfold blob_body, raw_block.
  repeat (rewrite app_length || cbn [length]).
  pose proof (put_uvarint_length ts).
  pose proof (put_uvarint_length (N.of_nat (length strs))).
  pose proof (put_uvarint_length (N.of_nat (length strs) + 1)).
  pose proof (put_uvarint_length (N.of_nat (length msg))).
  pose proof (put_uvarint_length (N.of_nat (length msg) + 1)).
  pose proof (put_uvarint_length (N.of_nat (length tags))).
  pose proof (put_uvarint_length (N.of_nat (length tags) + 1)).
  pose proof (put_uvarint_length (N.of_nat (length vals))).
  pose proof (put_uvarint_length (N.of_nat (length vals) + 1)).
  lia.
Qed.

Theorem deser_blob_raw ts strs msg tags vals :
  ts <= limit -> N.of_nat (length strs) <= limit -> N.of_nat (length msg) <= limit ->
  N.of_nat (length tags) <= limit -> N.of_nat (length vals) <= limit ->
  deser_blob (raw_blob ts strs msg tags vals) =
  match deser_core (repeat 0 (N.to_nat ts)) tags vals with
  | Ok tp => DOk tp strs msg
  | Err => DErr
  | Crash => DCrash
  | OutOfFuel => DFuel
  end.
Proof.
  intros Hts Hs Hm Ht Hv.
  assert (Hbody : N.of_nat (length (blob_body ts strs msg tags vals)) < two63).
  { pose proof (blob_body_length ts strs msg tags vals). unfold limit, two63 in *. lia. }
  unfold limit in *.
  unfold raw_blob, deser_blob. cbv zeta.
  rewrite b2n_n2b_small by (unfold serializedVersion; lia).
  change (serializedVersion <? serializedVersion) with false. cbv iota.
  rewrite uvarint_put_uvarint by (unfold two64, two63 in *; lia).
  replace (N.of_nat (length (blob_body ts strs msg tags vals)) <? two63) with true by lia.
  rewrite N.ltb_irrefl. cbn [andb].
  unfold blob_body.
  rewrite uvarint_put_uvarint by (unfold two64; lia).
  replace (limit <? ts) with false by (unfold limit; lia).
  rewrite uvarint_put_uvarint by (unfold two64; lia).
  replace (limit <? N.of_nat (length strs)) with false by (unfold limit; lia).
  rewrite dec_block_raw by (unfold two64; lia).
  rewrite uvarint_put_uvarint by (unfold two64; lia).
  replace (limit <? N.of_nat (length msg)) with false by (unfold limit; lia).
  rewrite dec_block_raw by (unfold two64; lia).
  rewrite uvarint_put_uvarint by (unfold two64; lia).
  replace (limit <? N.of_nat (length tags)) with false by (unfold limit; lia).
  rewrite dec_block_raw by (unfold two64; lia).
  rewrite uvarint_put_uvarint by (unfold two64; lia).
  replace (limit <? N.of_nat (length vals)) with false by (unfold limit; lia).
  rewrite dec_block_raw by (unfold two64; lia).
  reflexivity.
Qed.

Print Assumptions uvarint_put_uvarint.
Print Assumptions deser_blob_raw.
