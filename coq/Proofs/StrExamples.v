(* StrExamples.v — concrete runs (vm_compute) of the string kernel model
   against the specification: escapes straddling the 32-byte window end, a
   surrogate pair that needs the second window load, strings longer than two
   windows, in-place strings, rejections, and a sweep over all alignments. *)
From Coq Require Import String.
From SJ Require Import Model.Base Model.RefTables Spec.Json Model.Str Proofs.StrArith Proofs.StrProofs.
Open Scope N_scope.

Definition lit (s : string) : bytes := list_byte_of_string s.

(* window offsets of the escapes (each escape restarts the window):
   - \uD83D\uDE00 at offset 25 of the first window, no quote in that window:
     the distance is taken from the second load at offset 5;
   - \n with the backslash at offset 31 and the n at offset 32;
   - \u00e9 at offset 29, its digits running past the window end;
   - 56 literal bytes (one whole window skipped), then an escaped quote. *)
Definition ex_body : bytes :=
  lit "abcdefghijklmnopqrstuvwxy\uD83D\uDE00ABCDEFGHIJKLMNOPQRSTUVWXYZ01234\n01234567890123456789012345678\u00e9-the quick brown fox jumps over the lazy dog 0123456789-\""end\\\/\b\f\r\t\u0041\u07ff\uFFFF"%string.
Definition ex_rest : bytes := lit ",""k"":1}"%string.
Definition ex_mem : bytes := ex_body ++ x22 :: ex_rest.

Definition ex_dec : bytes :=
  lit "abcdefghijklmnopqrstuvwxy"%string ++ of_codes [240; 159; 152; 128] ++
  lit "ABCDEFGHIJKLMNOPQRSTUVWXYZ01234"%string ++ of_codes [10] ++
  lit "01234567890123456789012345678"%string ++ of_codes [195; 169] ++
  lit "-the quick brown fox jumps over the lazy dog 0123456789-"%string ++
  of_codes [34] ++ lit "end"%string ++ of_codes [92; 47; 8; 12; 13; 9; 65; 223; 191; 239; 191; 191].

Example ex_body_length : length ex_body = 196%nat.
Proof. vm_compute. reflexivity. Qed.

Example ex_spec : spec_string (S (length ex_mem)) ex_mem [] = SOk (ex_dec, ex_rest).
Proof. vm_compute. reflexivity. Qed.

(* str_loop_correct / str_validate_correct on this input *)
Example ex_validate : str_validate ex_mem 0 1000 = StrOk (length ex_body) ex_dec.
Proof. vm_compute. reflexivity. Qed.

(* str_validate_copy_agree *)
Example ex_copy : str_copy ex_mem (length ex_body) = StrOk (length ex_body) ex_dec.
Proof. vm_compute. reflexivity. Qed.

(* parse_string_model_correct: escapes present, so the string is copied *)
Example ex_parse :
  parse_string_model (x22 :: ex_mem) 7 0 false 100 1000 =
  Ok {| ps_word := mk_word TagString (STRINGBUFBIT + 100);
        ps_len := N.of_nat (length ex_dec);
        ps_app := ex_dec |}.
Proof. vm_compute. reflexivity. Qed.

(* parse_string_model_correct: no escape and no copy requested — in place *)
Definition ex_plain : bytes := lit "The quick brown fox jumps over the lazy dog; pack my box with five dozen liquor jugs."%string.
Example ex_parse_inplace :
  parse_string_model (x22 :: ex_plain ++ x22 :: ex_rest) 7 0 false 100 1000 =
  Ok {| ps_word := mk_word TagString (7 + 1);
        ps_len := N.of_nat (length ex_plain);
        ps_app := [] |}.
Proof. vm_compute. reflexivity. Qed.
Example ex_parse_copy :
  parse_string_model (x22 :: ex_plain ++ x22 :: ex_rest) 7 0 true 100 1000 =
  Ok {| ps_word := mk_word TagString (STRINGBUFBIT + 100);
        ps_len := N.of_nat (length ex_plain);
        ps_app := ex_plain |}.
Proof. vm_compute. reflexivity. Qed.

(* independence of alignment: k literal bytes, then a surrogate pair, a
   two-character escape and a BMP escape, for every k from 0 to 99 *)
Definition sweep_mem (k : nat) : bytes :=
  repeat_b x61 k ++ lit "\uD83D\uDE00-\t-\u20ACz"%string ++ x22 :: ex_rest.
Definition sweep_ok (k : nat) : bool :=
  match spec_string (S (length (sweep_mem k))) (sweep_mem k) [], str_validate (sweep_mem k) 0 1000 with
  | SOk (d, r), StrOk n d' =>
    bytes_eqb d d' && (n + 1 + length r =? length (sweep_mem k))%nat
    && (length d =? k + 11)%nat
  | _, _ => false
  end.
Example ex_sweep : forallb sweep_ok (seq 0 100) = true.
Proof. vm_compute. reflexivity. Qed.

(* str_reject: malformed escapes at awkward offsets *)
Example ex_reject_hex :
  str_validate (repeat_b x61 30 ++ lit "\u12G4xyz""tail"%string) 0 1000 = StrFail.
Proof. vm_compute. reflexivity. Qed.
Example ex_reject_letter :
  str_validate (repeat_b x61 63 ++ lit "\x41""tail"%string) 0 1000 = StrFail.
Proof. vm_compute. reflexivity. Qed.
Example ex_reject_truncated :
  str_validate (repeat_b x61 40 ++ lit "\u12"%string) 0 1000 = StrFail.
Proof. vm_compute. reflexivity. Qed.
(* \u directly followed by the closing quote: the distance test fires *)
Example ex_reject_short :
  str_validate (repeat_b x61 27 ++ lit "\u12""abcdef"%string) 0 1000 = StrFail.
Proof. vm_compute. reflexivity. Qed.
Example ex_reject_spec :
  spec_string 200 (repeat_b x61 27 ++ lit "\u12""abcdef"%string) [] = SInvalid.
Proof. vm_compute. reflexivity. Qed.
