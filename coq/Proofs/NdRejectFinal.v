(* NdRejectFinal.v — the rejection direction for ParseND (property C08) and
   the equivalence: the model of ParseND returns a result exactly when every
   non-blank line of the input is a JSON text with a container at the root (and
   there is at least one), and then the tape denotes exactly those documents;
   every other input returns an error — never a panic, never a run-away. *)
From Coq Require Import ZifyBool ZifyN ZifyNat.
From SJ Require Import Model.Base Model.RefTables Spec.Json Model.Number Model.Str Model.Stage1.
From SJ Require Import Proofs.TrimProofs Model.Stage2 Model.Driver Model.Tape.
From SJ Require Import Proofs.Stage1Proofs Proofs.Stage2Base Proofs.Stage2Proofs.
From SJ Require Import Proofs.AcceptProofs Proofs.RejectProofs Proofs.TotalProofs.
From SJ Require Import Proofs.NdSpec Proofs.NdProofs Proofs.NdRejectBase Proofs.NdRejectSim Proofs.NdRejectSpec.
From SJ Require Import Proofs.NdRejectFuel Proofs.NdRejectShapes.
Open Scope N_scope.

(* ------------------------------------------------------------------ *)
(* the trimmed input                                                   *)

(* a line that is not outside the claim has claimed edge bytes *)
Lemma outb_edges l : outb l = false -> is_blank_line l = false ->
  match norm l with
  | [] => True
  | b :: _ => edge_unclaimed (b2n b) = false /\ edge_unclaimed (b2n (last (norm l) x00)) = false
  end.
Proof.
  intros Ho Hb. unfold outb in Ho. rewrite Hb in Ho. unfold spec_parse in Ho. cbv zeta in Ho. fold (norm l) in Ho.
  destruct (norm l) as [|b t0]; [exact I|].
  destruct (edge_unclaimed (b2n b) || edge_unclaimed (b2n (last (b :: t0) x00))) eqn:E; [discriminate|].
  apply orb_false_iff in E. exact E.
Qed.

Lemma existsb_false_in {A} (f : A -> bool) l x : existsb f l = false -> In x l -> f x = false.
Proof.
  intros H Hin. destruct (f x) eqn:E; [|reflexivity].
  assert (existsb f l = true) by (apply existsb_exists; exists x; auto). congruence.
Qed.

Lemma glue_last_byte : forall L c, L <> [] -> exists pre y, glue L [[c]] = pre ++ [y ++ [c]].
Proof.
  induction L as [|l rest IH]; intros c Hne; [congruence|].
  destruct rest as [|l2 rest2].
  - exists [], l. reflexivity.
  - rewrite glue_cons by discriminate. destruct (IH c ltac:(discriminate)) as (pre & y & E).
    exists (l :: pre), y. rewrite E. reflexivity.
Qed.

Lemma nd_lines_acc : forall ls acc ds, nd_lines ls acc = SOk ds -> exists ds', ds = rev acc ++ ds'.
Proof.
  induction ls as [|l r IH]; intros acc ds H; cbn [nd_lines] in H.
  - injection H as <-. exists []. rewrite app_nil_r. reflexivity.
  - destruct (is_blank_line l); [apply IH; exact H|].
    destruct (spec_parse l) as [d| | |]; try discriminate.
    apply IH in H. destruct H as (ds' & ->). exists (d :: ds'). cbn [rev]. rewrite <- app_assoc. reflexivity.
Qed.

(* what nd_spec = SInvalid says about the input without its surrounding white
   space *)
Lemma nd_invalid_trimmed bs : nd_spec bs = SInvalid ->
  let t := rtrim_ws (skip_ws bs) in
  t = [] \/
  (trim_space_go bs = t /\ is_blank_line (hd [] (split_lf t)) = false /\ nd_lines (split_lf t) [] = SInvalid).
Proof.
  intros Hspec. cbv zeta. rewrite <- nd_spec_trim in Hspec.
  destruct (skip_ws_split bs) as (w & Hb & Hw).
  destruct (rtrim_ws_split (skip_ws bs)) as (w2 & Hu & Hw2).
  set (t := rtrim_ws (skip_ws bs)) in *.
  destruct t as [|b0 t0] eqn:Et; [left; reflexivity|right]. rewrite <- Et in *.
  (* the first and the last byte of t are not white space *)
  assert (Hb0 : is_json_ws (b2n b0) = false).
  { rewrite Et in Hu. cbn [app] in Hu. eapply skip_ws_head. exact Hu. }
  assert (Hrev : skip_ws (rev (skip_ws bs)) = rev t).
  { unfold t, rtrim_ws. rewrite rev_involutive. reflexivity. }
  destruct (@exists_last _ t ltac:(rewrite Et; discriminate)) as (init & c & Ec).
  assert (Hc : is_json_ws (b2n c) = false).
  { rewrite Ec, rev_app_distr in Hrev. cbn [rev app] in Hrev. exact (skip_ws_head _ _ _ Hrev). }
  assert (Hclf : (b2n c =? cLF) = false).
  { destruct (b2n c =? cLF) eqn:E; [|reflexivity]. apply N.eqb_eq in E. rewrite E in Hc. discriminate. }
  assert (Hb0lf : (b2n b0 =? cLF) = false).
  { destruct (b2n b0 =? cLF) eqn:E; [|reflexivity]. apply N.eqb_eq in E. rewrite E in Hb0. discriminate. }
  rewrite nd_spec_of in Hspec. unfold nd_of in Hspec.
  destruct (existsb outb (split_lf t)) eqn:Hex; [discriminate|].
  (* the first line *)
  assert (Hfirst : exists x rest, split_lf t = (b0 :: x) :: rest).
  { rewrite Et, split_lf_cons, Hb0lf. eauto. }
  destruct Hfirst as (x & rest & Hsl).
  assert (Hnb1 : is_blank_line (b0 :: x) = false).
  { unfold is_blank_line. rewrite skip_ws_nonws by exact Hb0. reflexivity. }
  assert (He1 : edge_unclaimed (b2n b0) = false).
  { pose proof (outb_edges (b0 :: x) (existsb_false_in _ _ _ Hex ltac:(rewrite Hsl; left; reflexivity)) Hnb1) as H.
    unfold norm in H. rewrite skip_ws_nonws in H by exact Hb0.
    destruct (rtrim_ws_head b0 x Hb0) as (t' & Ht'). rewrite Ht' in H. tauto. }
  (* the last line *)
  assert (Hlast : exists pre y, split_lf t = pre ++ [y ++ [c]]).
  { rewrite Ec, split_lf_app. replace (split_lf [c]) with [[c]] by (rewrite split_lf_cons, Hclf; reflexivity).
    apply glue_last_byte. apply split_lf_ne. }
  destruct Hlast as (pre & y & Hsl2).
  destruct (skip_ws_snoc y c Hc) as (z & Hz).
  assert (Hnb2 : is_blank_line (y ++ [c]) = false).
  { unfold is_blank_line. rewrite Hz. destruct z; reflexivity. }
  assert (He2 : edge_unclaimed (b2n c) = false).
  { pose proof (outb_edges (y ++ [c]) (existsb_false_in _ _ _ Hex ltac:(rewrite Hsl2; apply in_or_app; right; left; reflexivity)) Hnb2) as H.
    unfold norm in H. rewrite Hz, rtrim_ws_snoc in H by exact Hc.
    destruct (z ++ [c]) as [|q0 q] eqn:Eq; [destruct z; discriminate|]. rewrite <- Eq, last_last in H. tauto. }
  split; [|split].
  - apply trim_agree_gen; cbv zeta; fold t; [|rewrite Et; discriminate].
    rewrite Et. split; [exact He1|]. rewrite <- Et, Ec, last_last. exact He2.
  - rewrite Hsl. exact Hnb1.
  - destruct (nd_lines (split_lf t) []) as [ds| | |] eqn:Hnd; try discriminate; [|reflexivity].
    exfalso. rewrite Hsl in Hnd. cbn [nd_lines] in Hnd. rewrite Hnb1 in Hnd.
    destruct (spec_parse (b0 :: x)) as [d| | |]; try discriminate.
    apply nd_lines_acc in Hnd. destruct Hnd as (ds' & ->). cbn [rev app] in Hspec. discriminate.
Qed.

(* ------------------------------------------------------------------ *)
(* the main theorems                                                   *)

(* soundness of acceptance, weak form: an input with a bad line, or without
   any document, is never accepted *)
Theorem parsend_never_accepts_invalid : forall (copy : bool) (bs : bytes),
  nd_spec bs = SInvalid -> forall p, parsend_model copy bs <> Ok p.
Proof.
  intros copy bs Hspec p.
  destruct (nd_invalid_trimmed bs Hspec) as [Ht|(Htrim & Hfirst & Hnd)]; cbv zeta in *.
  - unfold parsend_model, parse_message. rewrite (trim_empty bs Ht).
    destruct copy; vm_compute; discriminate.
  - set (t := rtrim_ws (skip_ws bs)) in *.
    unfold parsend_model, parse_message. rewrite Htrim.
    destruct (o_ok (s1_buffers true t)) eqn:Hok.
    + pose proof (nd_message_never_ok copy t Hfirst Hnd Hok) as H.
      destruct (run2 copy t (bufs_incs 0 (o_bufs (s1_buffers true t)))) as [m| | |]; try discriminate.
      exfalso. exact (H m eq_refl).
    + destruct (run2 copy t (bufs_incs 0 (o_bufs (s1_buffers true t)))); discriminate.
Qed.

(* strong form: such an input yields an error (not a panic, not a run-away),
   whatever its size *)
Theorem parsend_rejects_invalid : forall (copy : bool) (bs : bytes),
  nd_spec bs = SInvalid -> parsend_model copy bs = Err.
Proof.
  intros copy bs Hspec.
  destruct (parse_message_total true copy bs) as [Hc Hf].
  pose proof (parsend_never_accepts_invalid copy bs Hspec) as H.
  unfold parsend_model in *.
  destruct (parse_message true copy bs) as [p| | |]; [exfalso; exact (H p eq_refl)|reflexivity|congruence|congruence].
Qed.

(* whatever the model accepts, the specification does not call invalid *)
Corollary parsend_ok_spec : forall (copy : bool) (bs : bytes) p,
  parsend_model copy bs = Ok p -> nd_spec bs <> SInvalid.
Proof. intros copy bs p Hok Hs. exact (parsend_never_accepts_invalid copy bs Hs p Hok). Qed.

(* C08 in full, outside the exclusions (nd_spec = SOut: ill-formed UTF-8, lone
   surrogates, or a line whose edge byte Go's TrimSpace might take for white
   space): ParseND returns a result iff every non-blank line is a valid document
   and there is at least one *)
Theorem parsend_accepts_iff : forall (copy : bool) (bs : bytes),
  N.of_nat (length bs) < 2 ^ 55 -> nd_spec bs <> SOut ->
  ((exists p, parsend_model copy bs = Ok p) <-> (exists ds, nd_spec bs = SOk ds)).
Proof.
  intros copy bs Hlen Hout. split.
  - intros (p & Hp). destruct (nd_spec bs) as [ds| | |] eqn:Es; try congruence.
    + exists ds. reflexivity.
    + exfalso. exact (parsend_never_accepts_invalid copy bs Es p Hp).
    + exfalso. exact (nd_spec_not_fuel bs Es).
  - intros (ds & Hd). destruct (parsend_accepts_valid copy bs ds Hlen Hd) as (p & Hp & _). exists p. exact Hp.
Qed.

(* and the result is those documents, in order, one per root *)
Theorem parsend_ok_denotes : forall (copy : bool) (bs : bytes) p,
  N.of_nat (length bs) < 2 ^ 55 -> nd_spec bs <> SOut ->
  parsend_model copy bs = Ok p ->
  exists ds, nd_spec bs = SOk ds /\ denote (p_msg p) (p_strings p) (p_tape p) = Some ds.
Proof.
  intros copy bs p Hlen Hout Hp.
  destruct (nd_spec bs) as [ds| | |] eqn:Es; try congruence.
  - exists ds. split; [reflexivity|].
    destruct (parsend_accepts_valid copy bs ds Hlen Es) as (p' & Hp' & Hden).
    rewrite Hp in Hp'. injection Hp' as <-. exact Hden.
  - exfalso. exact (parsend_never_accepts_invalid copy bs Es p Hp).
  - exfalso. exact (nd_spec_not_fuel bs Es).
Qed.

(* the two together: outside the exclusions exactly one of the two happens *)
Theorem parsend_characterisation : forall (copy : bool) (bs : bytes),
  N.of_nat (length bs) < 2 ^ 55 -> nd_spec bs <> SOut ->
  (exists ds p, nd_spec bs = SOk ds /\ parsend_model copy bs = Ok p /\
                denote (p_msg p) (p_strings p) (p_tape p) = Some ds) \/
  (nd_spec bs = SInvalid /\ parsend_model copy bs = Err).
Proof.
  intros copy bs Hlen Hout.
  destruct (nd_spec bs) as [ds| | |] eqn:Es; try congruence.
  - left. destruct (parsend_accepts_valid copy bs ds Hlen Es) as (p & Hp & Hden). exists ds, p. auto.
  - right. split; [reflexivity|]. apply parsend_rejects_invalid. exact Es.
  - exfalso. exact (nd_spec_not_fuel bs Es).
Qed.

(* two inputs the specification does not distinguish get the same treatment *)
Theorem parsend_same_spec : forall (copy : bool) (bs bs' : bytes),
  N.of_nat (length bs) < 2 ^ 55 -> N.of_nat (length bs') < 2 ^ 55 ->
  nd_spec bs' = nd_spec bs -> nd_spec bs <> SOut ->
  (parsend_model copy bs = Err /\ parsend_model copy bs' = Err) \/
  (exists ds p p', parsend_model copy bs = Ok p /\ parsend_model copy bs' = Ok p' /\
     denote (p_msg p) (p_strings p) (p_tape p) = Some ds /\
     denote (p_msg p') (p_strings p') (p_tape p') = Some ds).
Proof.
  intros copy bs bs' Hlen Hlen' Heq Hout.
  assert (Hout' : nd_spec bs' <> SOut) by (rewrite Heq; exact Hout).
  destruct (parsend_characterisation copy bs Hlen Hout) as [(ds & p & Hs & Hp & Hd)|(Hs & He)];
  destruct (parsend_characterisation copy bs' Hlen' Hout') as [(ds' & p' & Hs' & Hp' & Hd')|(Hs' & He')];
    try congruence.
  - right. exists ds, p, p'. rewrite Heq, Hs in Hs'. injection Hs' as <-. auto.
  - left. auto.
Qed.

(* ------------------------------------------------------------------ *)
(* layout does not matter                                              *)

(* a missing (or an additional) final newline *)
Corollary parsend_final_newline : forall (copy : bool) (bs : bytes),
  N.of_nat (length (bs ++ [bLF])) < 2 ^ 55 -> nd_spec bs <> SOut ->
  (parsend_model copy bs = Err /\ parsend_model copy (bs ++ [bLF]) = Err) \/
  (exists ds p p', parsend_model copy bs = Ok p /\ parsend_model copy (bs ++ [bLF]) = Ok p' /\
     denote (p_msg p) (p_strings p) (p_tape p) = Some ds /\
     denote (p_msg p') (p_strings p') (p_tape p') = Some ds).
Proof.
  intros copy bs Hlen Hout. apply parsend_same_spec; try assumption.
  - rewrite app_length in Hlen. lia.
  - apply nd_spec_final_newline.
Qed.

(* CR LF line ends instead of LF *)
Corollary parsend_crlf : forall (copy : bool) (ls : list bytes),
  Forall nolf ls -> ls <> [] ->
  N.of_nat (length (join_lf ls)) < 2 ^ 55 ->
  N.of_nat (length (join_lf (map (fun l => l ++ [bCR]) ls))) < 2 ^ 55 ->
  nd_spec (join_lf ls) <> SOut ->
  let bs := join_lf ls in let bs' := join_lf (map (fun l => l ++ [bCR]) ls) in
  (parsend_model copy bs = Err /\ parsend_model copy bs' = Err) \/
  (exists ds p p', parsend_model copy bs = Ok p /\ parsend_model copy bs' = Ok p' /\
     denote (p_msg p) (p_strings p) (p_tape p) = Some ds /\
     denote (p_msg p') (p_strings p') (p_tape p') = Some ds).
Proof.
  intros copy ls Hnl Hne Hlen Hlen' Hout. cbv zeta. apply parsend_same_spec; try assumption.
  apply nd_spec_crlf; assumption.
Qed.

(* a blank line (JSON white space only) anywhere *)
Corollary parsend_blank_line : forall (copy : bool) (ls1 ls2 : list bytes) (w : bytes),
  allws w -> nolf w -> Forall nolf (ls1 ++ ls2) -> ls1 ++ ls2 <> [] ->
  N.of_nat (length (join_lf (ls1 ++ ls2))) < 2 ^ 55 ->
  N.of_nat (length (join_lf (ls1 ++ w :: ls2))) < 2 ^ 55 ->
  nd_spec (join_lf (ls1 ++ ls2)) <> SOut ->
  let bs := join_lf (ls1 ++ ls2) in let bs' := join_lf (ls1 ++ w :: ls2) in
  (parsend_model copy bs = Err /\ parsend_model copy bs' = Err) \/
  (exists ds p p', parsend_model copy bs = Ok p /\ parsend_model copy bs' = Ok p' /\
     denote (p_msg p) (p_strings p) (p_tape p) = Some ds /\
     denote (p_msg p') (p_strings p') (p_tape p') = Some ds).
Proof.
  intros copy ls1 ls2 w Hw Hnw Hnl Hne Hlen Hlen' Hout. cbv zeta. apply parsend_same_spec; try assumption.
  apply nd_spec_blank_line; assumption.
Qed.

(* ------------------------------------------------------------------ *)
(* what fails the whole call                                           *)

(* one line that is not a valid document, among any others *)
Theorem parsend_bad_line : forall (copy : bool) (ls : list bytes) (l : bytes),
  Forall nolf ls -> In l ls -> is_blank_line l = false -> (forall d, spec_parse l <> SOk d) ->
  nd_spec (join_lf ls) <> SOut ->
  nd_spec (join_lf ls) = SInvalid /\ parsend_model copy (join_lf ls) = Err.
Proof.
  intros copy ls l Hnl Hin Hb Hbad Hout.
  pose proof (nd_spec_bad_line ls l Hnl Hin Hb Hbad Hout) as H.
  split; [exact H|]. apply parsend_rejects_invalid. exact H.
Qed.

(* two documents on one line: a valid document followed on its line by
   anything but white space *)
Theorem parsend_two_docs_on_a_line : forall (copy : bool) (ls1 ls2 : list bytes) (t x : bytes) (d : doc),
  good_doc t d -> skip_ws x <> [] -> nolf x -> Forall nolf ls1 -> Forall nolf ls2 ->
  nd_spec (join_lf (ls1 ++ (t ++ x) :: ls2)) <> SOut ->
  nd_spec (join_lf (ls1 ++ (t ++ x) :: ls2)) = SInvalid /\
  parsend_model copy (join_lf (ls1 ++ (t ++ x) :: ls2)) = Err.
Proof.
  intros copy ls1 ls2 t x d Hg Hx Hnx H1 H2 Hout.
  apply (parsend_bad_line copy _ (t ++ x)); try assumption.
  - apply Forall_app. split; [exact H1|]. constructor; [|exact H2].
    apply Forall_app. split; [destruct Hg as (Hnl & _); exact Hnl|exact Hnx].
  - apply in_or_app. right. left. reflexivity.
  - destruct Hg as (_ & _ & _ & (b & r & Et & Hb & _) & _). rewrite Et. cbn [app].
    unfold is_blank_line. rewrite skip_ws_nonws by exact Hb. reflexivity.
  - exact (proj1 (spec_parse_two_docs t d x Hg Hx)).
Qed.

(* a document spanning lines: a line that holds a proper, non-empty prefix of a
   valid document (whatever the other lines hold) *)
Theorem parsend_document_spanning_lines : forall (copy : bool) (ls1 ls2 : list bytes) (t a b : bytes) (d : doc),
  good_doc t d -> t = a ++ b -> a <> [] -> b <> [] -> Forall nolf ls1 -> Forall nolf ls2 ->
  nd_spec (join_lf (ls1 ++ a :: ls2)) <> SOut ->
  nd_spec (join_lf (ls1 ++ a :: ls2)) = SInvalid /\
  parsend_model copy (join_lf (ls1 ++ a :: ls2)) = Err.
Proof.
  intros copy ls1 ls2 t a b d Hg Et Ha Hb H1 H2 Hout.
  assert (Hna : nolf a) by (destruct Hg as (Hnl & _); rewrite Et in Hnl; apply nolf_app in Hnl; tauto).
  apply (parsend_bad_line copy _ a); try assumption.
  - apply Forall_app. split; [exact H1|constructor; assumption].
  - apply in_or_app. right. left. reflexivity.
  - destruct Hg as (_ & _ & _ & (b0 & r0 & E0 & Hb0 & _) & _). rewrite Et in E0.
    destruct a as [|a0 a']; [congruence|]. cbn [app] in E0. injection E0 as -> _.
    unfold is_blank_line. rewrite skip_ws_nonws by exact Hb0. reflexivity.
  - exact (spec_parse_proper_prefix t d a b Hg Et Hb).
Qed.

(* no document at all *)
Theorem parsend_no_document : forall (copy : bool) (bs : bytes),
  allws bs -> nd_spec bs = SInvalid /\ parsend_model copy bs = Err.
Proof.
  intros copy bs Hw.
  assert (H : nd_spec bs = SInvalid).
  { rewrite <- (app_nil_l bs), nd_spec_ws_r by exact Hw. reflexivity. }
  split; [exact H|]. apply parsend_rejects_invalid. exact H.
Qed.

Print Assumptions parsend_never_accepts_invalid.
Print Assumptions parsend_rejects_invalid.
Print Assumptions parsend_accepts_iff.
Print Assumptions parsend_ok_denotes.
Print Assumptions parsend_characterisation.
Print Assumptions parsend_two_docs_on_a_line.
Print Assumptions parsend_document_spanning_lines.
Print Assumptions parsend_blank_line.

(* ------------------------------------------------------------------ *)
(* the hypotheses are satisfiable: concrete inputs                      *)

From SJ Require Import Model.Oracle.
Import String.StringSyntax.
Open Scope string_scope.

Definition nl : bytes := [x0a].

Definition nd_rejected (bs : bytes) : bool :=
  match nd_spec bs, parsend_model true bs, parsend_model false bs with
  | SInvalid, Err, Err => true
  | _, _, _ => false
  end.

Example ex_nd_rejected : forallb nd_rejected
  [ [];                                               (* empty *)
    nl ++ lit "  " ++ nl;                             (* blank lines only *)
    lit "{} {}";                                      (* two documents on a line *)
    lit "{""a"":1}" ++ nl ++ lit "[1] [2]" ++ nl;
    lit "[1," ++ nl ++ lit "2]";                      (* a document spanning lines *)
    lit "{" ++ nl ++ lit "}";
    lit "{""a""" ++ nl ++ lit ":1}";
    lit "[" ++ nl ++ lit "]" ++ nl ++ lit "{}";
    lit "{}" ++ nl ++ lit "[1" ++ nl ++ lit "{}";     (* one bad line among good ones *)
    lit "{}" ++ nl ++ lit "1" ++ nl ++ lit "{}";      (* a scalar root on a line *)
    lit "{}" ++ nl ++ lit """a""";
    lit "[1]" ++ nl ++ lit "[tru]";
    lit "[1]" ++ nl ++ lit "[1e999]" ++ nl ++ lit "[2]";
    lit "[""a" ++ nl ++ lit "b""]";                   (* an LF inside a string *)
    lit "[""a\qb""]" ++ nl ++ lit "{}";               (* a bad escape *)
    lit "[""a\" ++ nl ++ lit "{}";                    (* a backslash at the end of a line *)
    lit "{}" ++ [x0d] ++ lit "{}";                    (* CR alone does not end a line *)
    lit "{}x" ++ nl ++ lit "{}";
    lit "x" ] = true.
Proof. vm_compute. reflexivity. Qed.

(* instances of the hypotheses of the shape theorems *)
Example ex_good_doc : good_doc (lit "{""a"":[1,2]}") (DObj [(lit "a", DArr [DNum (NInt 1); DNum (NInt 2)])]).
Proof.
  split; [repeat constructor; discriminate|]. split; [vm_compute; reflexivity|]. split; [reflexivity|].
  split; [eexists _, _; split; [reflexivity|split; reflexivity]|].
  exists (lit "{""a"":[1,2]"), (n2b 125). split; [reflexivity|split; reflexivity].
Qed.

Example ex_two_docs :
  nd_spec (lit "{""a"":[1,2]}" ++ lit " {}") = SInvalid /\ parsend_model true (lit "{""a"":[1,2]}" ++ lit " {}") = Err.
Proof.
  apply (parsend_two_docs_on_a_line true [] [] _ (lit " {}") _ ex_good_doc).
  - vm_compute. discriminate.
  - repeat constructor; discriminate.
  - constructor.
  - constructor.
  - vm_compute. discriminate.
Qed.

Example ex_spanning :
  nd_spec (lit "{""a"":[1," ++ nl ++ lit "2]}") = SInvalid /\ parsend_model false (lit "{""a"":[1," ++ nl ++ lit "2]}") = Err.
Proof.
  apply (parsend_document_spanning_lines false [] [lit "2]}"] _ (lit "{""a"":[1,") (lit "2]}") _ ex_good_doc).
  - reflexivity.
  - discriminate.
  - discriminate.
  - constructor.
  - repeat constructor; discriminate.
  - vm_compute. discriminate.
Qed.

(* the layout theorems on an input that is accepted *)
Example ex_layout :
  let ls := [lit "{""a"":1}"; lit "[true]"] in
  (match nd_spec (join_lf ls) with SOk ds => length ds | _ => O end,
   match nd_spec (join_lf (map (fun l => l ++ [bCR]) ls)) with SOk ds => length ds | _ => O end,
   match nd_spec (join_lf ([lit "{""a"":1}"] ++ lit " 	" :: [lit "[true]"])) with SOk ds => length ds | _ => O end,
   match nd_spec (join_lf ls ++ [bLF]) with SOk ds => length ds | _ => O end) = (2, 2, 2, 2)%nat.
Proof. vm_compute. reflexivity. Qed.
