(* FloatFmtText.v — C18, the text layer of Model.FloatFmt: digit strings
   (digits_of, strip_zeros, dec_of_N), the layouts produced by fmt_f and
   fmt_e as concrete strings, and their re-reading by the specification's
   number lexer (Spec.Json.lex_number). No real numbers here. *)
From Coq Require Import ZArith NArith List Bool Lia ZifyBool ZifyN ZifyNat.
From Coq.Strings Require Import Byte.
From SJ Require Import Model.Base Model.RefTables Spec.Json Model.Number Model.Iter Model.FloatFmt.
From SJ Require Import Proofs.NumLex Proofs.NumberProofs Proofs.NumberFinal.
Import ListNotations.
Local Open Scope Z_scope.

Ltac Zify.zify_post_hook ::= Z.div_mod_to_equations.

(* ------------------------------------------------------------------ *)
(* digit bytes                                                          *)

Definition all_lt10 (ds : list N) : Prop := Forall (fun d => (d < 10)%N) ds.
Definition digs (ds : list N) : bytes := map dig ds.
Definition zeros (n : nat) : bytes := repeat_b b_0 n.

Lemma dig_facts10 d : (d < 10)%N -> isdig (dig d) = true /\ dv (dig d) = d.
Proof.
  intros H.
  assert (E : d = 0%N \/ d = 1%N \/ d = 2%N \/ d = 3%N \/ d = 4%N \/ d = 5%N \/ d = 6%N \/
              d = 7%N \/ d = 8%N \/ d = 9%N) by lia.
  destruct E as [->|[->|[->|[->|[->|[->|[->|[->|[->| ->]]]]]]]]]; vm_compute; split; reflexivity.
Qed.

Lemma alld_digs ds : all_lt10 ds -> alld (digs ds) = true.
Proof.
  induction 1 as [|d ds Hd Hds IH]; [reflexivity|].
  cbn [digs map alld forallb]. fold (alld (map dig ds)). fold (digs ds).
  rewrite IH, (proj1 (dig_facts10 d Hd)). reflexivity.
Qed.

Lemma dv_digs ds : all_lt10 ds -> map dv (digs ds) = ds.
Proof.
  induction 1 as [|d ds Hd Hds IH]; [reflexivity|].
  cbn [digs map]. fold (digs ds). rewrite IH, (proj2 (dig_facts10 d Hd)). reflexivity.
Qed.

Lemma digs_app a b : digs (a ++ b) = digs a ++ digs b.
Proof. apply map_app. Qed.

Lemma digs_length ds : length (digs ds) = length ds.
Proof. apply map_length. Qed.

Lemma alld_zeros n : alld (zeros n) = true.
Proof. induction n as [|n IH]; [reflexivity|]. cbn [zeros repeat_b alld forallb]. exact IH. Qed.

Lemma dv_zeros n : map dv (zeros n) = repeat 0%N n.
Proof. induction n as [|n IH]; [reflexivity|]. cbn [zeros repeat_b map repeat]. f_equal. exact IH. Qed.

Lemma all_lt10_app a b : all_lt10 a -> all_lt10 b -> all_lt10 (a ++ b).
Proof. intros Ha Hb. apply Forall_app. split; assumption. Qed.

Lemma all_lt10_firstn n ds : all_lt10 ds -> all_lt10 (firstn n ds).
Proof.
  intros H. unfold all_lt10 in *. rewrite Forall_forall in *. intros d Hd. apply H.
  rewrite <- (firstn_skipn n ds). apply in_or_app. left. exact Hd.
Qed.

Lemma all_lt10_skipn n ds : all_lt10 ds -> all_lt10 (skipn n ds).
Proof.
  intros H. unfold all_lt10 in *. rewrite Forall_forall in *. intros d Hd. apply H.
  rewrite <- (firstn_skipn n ds). apply in_or_app. right. exact Hd.
Qed.

(* digits_val on zeros *)
Lemma digits_val_zeros n a : digits_val (repeat 0%N n) a = a * 10 ^ Z.of_nat n.
Proof.
  revert a. induction n as [|n IH]; intros a.
  - cbn [repeat digits_val]. change (10 ^ Z.of_nat 0) with 1. lia.
  - cbn [repeat digits_val]. rewrite IH, Nat2Z.inj_succ, Z.pow_succ_r by lia.
    change (Z.of_N 0) with 0. ring.
Qed.

Lemma digits_val_lead_zeros n l : digits_val (repeat 0%N n ++ l) 0 = digits_val l 0.
Proof. rewrite digits_val_app, digits_val_zeros. reflexivity. Qed.

Lemma digits_val_shift : forall l a,
  digits_val l a = a * 10 ^ Z.of_nat (length l) + digits_val l 0.
Proof.
  induction l as [|d l IH]; intros a.
  - cbn [digits_val length]. change (10 ^ Z.of_nat 0) with 1. lia.
  - cbn [digits_val length]. rewrite IH, (IH (0 * 10 + Z.of_N d)).
    rewrite Nat2Z.inj_succ, Z.pow_succ_r by lia. ring.
Qed.

(* ------------------------------------------------------------------ *)
(* strip_zeros, digits_of, dec_of_N                                     *)

Lemma strip_zeros_spec : forall fuel c k c' k',
  0 < c -> strip_zeros c k fuel = (c', k') ->
  0 < c' /\ k <= k' /\ c = c' * 10 ^ (k' - k) /\ c' <= c.
Proof.
  induction fuel as [|f IH]; intros c k c' k' Hc H; cbn [strip_zeros] in H.
  - injection H as <- <-. rewrite Z.sub_diag. change (10 ^ 0) with 1. lia.
  - destruct ((c mod 10 =? 0) && negb (c =? 0)) eqn:E.
    + assert (Hm : c = 10 * (c / 10)) by lia.
      assert (Hc10 : 0 < c / 10) by lia.
      destruct (IH _ _ _ _ Hc10 H) as (A & B & C & D).
      split; [exact A|]. split; [lia|]. split; [|lia].
      replace (k' - k) with (Z.succ (k' - (k + 1))) by lia. rewrite Z.pow_succ_r by lia.
      rewrite Hm at 1. rewrite C at 1. ring.
    + injection H as <- <-. rewrite Z.sub_diag. change (10 ^ 0) with 1. lia.
Qed.

(* when the fuel suffices the result has no trailing zero *)
Lemma strip_zeros_nozero : forall fuel c k c' k',
  0 < c < 10 ^ Z.of_nat fuel -> strip_zeros c k fuel = (c', k') -> c' mod 10 <> 0.
Proof.
  induction fuel as [|f IH]; intros c k c' k' Hc H.
  - change (10 ^ Z.of_nat 0) with 1 in Hc. lia.
  - cbn [strip_zeros] in H. destruct ((c mod 10 =? 0) && negb (c =? 0)) eqn:E.
    + rewrite Nat2Z.inj_succ, Z.pow_succ_r in Hc by lia.
      apply (IH (c / 10) (k + 1) c' k'); [|exact H]. set (P := 10 ^ Z.of_nat f) in *. lia.
    + injection H as <- <-. lia.
Qed.

Lemma digits_of_spec : forall fuel c acc,
  (1 <= fuel)%nat -> 0 <= c < 10 ^ Z.of_nat fuel ->
  exists ds, digits_of fuel c acc = ds ++ acc /\ ds <> [] /\ all_lt10 ds /\
    digits_val ds 0 = c /\
    (0 < c -> hd 0%N ds <> 0%N /\ 10 ^ (Z.of_nat (length ds) - 1) <= c < 10 ^ Z.of_nat (length ds)).
Proof.
  induction fuel as [|f IH]; intros c acc Hf Hc; [lia|].
  cbn [digits_of]. destruct (Z.ltb_spec c 10) as [Hlt|Hge].
  - exists [Z.to_N c]. split; [reflexivity|]. split; [discriminate|].
    split; [repeat constructor; lia|]. split; [cbn [digits_val]; lia|].
    intros Hpos. cbn [hd length]. change (10 ^ (Z.of_nat 1 - 1)) with 1.
    change (10 ^ Z.of_nat 1) with 10. lia.
  - rewrite Nat2Z.inj_succ, Z.pow_succ_r in Hc by lia.
    assert (Hf' : (1 <= f)%nat).
    { destruct f as [|f']; [|lia]. change (10 ^ Z.of_nat 0) with 1 in Hc. lia. }
    assert (Hc' : 0 <= c / 10 < 10 ^ Z.of_nat f) by (set (P := 10 ^ Z.of_nat f) in *; lia).
    destruct (IH (c / 10) (Z.to_N (c mod 10) :: acc) Hf' Hc') as (ds' & E & Hne & Hall & Hval & Hpos).
    exists (ds' ++ [Z.to_N (c mod 10)]). split; [rewrite E, <- app_assoc; reflexivity|].
    split; [destruct ds'; discriminate|].
    split; [apply all_lt10_app; [exact Hall|repeat constructor; lia]|].
    split.
    { rewrite digits_val_app, Hval. cbn [digits_val]. lia. }
    intros _. destruct (Hpos ltac:(lia)) as (Hhd & Hlo & Hhi).
    split; [destruct ds'; [congruence|exact Hhd]|].
    rewrite app_length. cbn [length]. rewrite Nat.add_1_r, Nat2Z.inj_succ.
    replace (Z.succ (Z.of_nat (length ds')) - 1) with (Z.succ (Z.of_nat (length ds') - 1)) by lia.
    assert (1 <= length ds')%nat by (destruct ds'; [congruence|cbn [length]; lia]).
    rewrite !Z.pow_succ_r by lia.
    set (P1 := 10 ^ (Z.of_nat (length ds') - 1)) in *. set (P2 := 10 ^ Z.of_nat (length ds')) in *. lia.
Qed.

Lemma dec_of_N_aux_spec : forall fuel n acc,
  (1 <= fuel)%nat -> (n < 2 ^ N.of_nat fuel)%N ->
  exists ds, dec_of_N_aux fuel n acc = ds ++ acc /\ ds <> [] /\ alld ds = true /\
    digits_val (map dv ds) 0 = Z.of_N n.
Proof.
  induction fuel as [|f IH]; intros n acc Hf Hn; [lia|].
  cbn [dec_of_N_aux]. cbv zeta. fold (dig (n mod 10)%N).
  assert (Hd : (n mod 10 < 10)%N) by (apply N.mod_lt; discriminate).
  destruct (dig_facts10 _ Hd) as [Hd1 Hd2].
  destruct (N.ltb_spec n 10) as [Hlt|Hge].
  - exists [dig (n mod 10)%N]. split; [reflexivity|]. split; [discriminate|].
    split; [cbn [alld forallb]; rewrite Hd1; reflexivity|].
    cbn [map digits_val]. rewrite Hd2. lia.
  - rewrite Nat2N.inj_succ, N.pow_succ_r' in Hn.
    assert (Hf' : (1 <= f)%nat).
    { destruct f as [|f']; [|lia]. change (2 ^ N.of_nat 0)%N with 1%N in Hn. lia. }
    assert (Hn' : (n / 10 < 2 ^ N.of_nat f)%N) by (set (P := (2 ^ N.of_nat f)%N) in *; lia).
    destruct (IH (n / 10)%N (dig (n mod 10)%N :: acc) Hf' Hn') as (ds' & E & Hne & Hall & Hval).
    exists (ds' ++ [dig (n mod 10)%N]). split; [rewrite E, <- app_assoc; reflexivity|].
    split; [destruct ds'; discriminate|].
    split; [rewrite alld_app, Hall; cbn [alld forallb]; rewrite Hd1; reflexivity|].
    rewrite map_app, digits_val_app, Hval. cbn [map digits_val]. rewrite Hd2. lia.
Qed.

Lemma dec_of_N_spec n :
  dec_of_N n <> [] /\ alld (dec_of_N n) = true /\ digits_val (map dv (dec_of_N n)) 0 = Z.of_N n.
Proof.
  unfold dec_of_N.
  destruct (dec_of_N_aux_spec (S (N.to_nat (N.size n))) n []) as (ds & E & Hne & Hall & Hval).
  - lia.
  - rewrite Nat2N.inj_succ, N2Nat.id, N.pow_succ_r'.
    pose proof (N.size_gt n). set (P := (2 ^ N.size n)%N) in *. lia.
  - rewrite E, app_nil_r. auto.
Qed.

(* ------------------------------------------------------------------ *)
(* list helpers for fmt_f                                               *)

Lemma map_seq_const (g : nat -> byte) v : forall n s,
  (forall i, (s <= i < s + n)%nat -> g i = v) -> map g (seq s n) = repeat_b v n.
Proof.
  induction n as [|n IH]; intros s H; [reflexivity|].
  cbn [seq map repeat_b]. f_equal; [apply H; lia|]. apply IH. intros i Hi. apply H. lia.
Qed.

Lemma map_seq_nth {A B} (f : A -> B) (d : A) (g : nat -> B) : forall l s,
  (forall t, (t < length l)%nat -> g (s + t)%nat = f (nth t l d)) ->
  map g (seq s (length l)) = map f l.
Proof.
  induction l as [|a l IH]; intros s H; [reflexivity|].
  cbn [length seq map]. f_equal.
  - rewrite <- (Nat.add_0_r s). apply (H 0%nat). cbn [length]. lia.
  - apply IH. intros t Ht. replace (S s + t)%nat with (s + S t)%nat by lia.
    apply (H (S t)). cbn [length]. lia.
Qed.

Lemma nth_skipn' {A} (d : A) : forall n l t, nth t (skipn n l) d = nth (n + t) l d.
Proof.
  induction n as [|n IH]; intros l t; [reflexivity|].
  destruct l as [|a l]; [destruct t; reflexivity|]. cbn [skipn Nat.add nth]. apply IH.
Qed.

Lemma sign_bytes_eq (neg : bool) : (if neg then [n2b 45] else []) = sign_bytes neg.
Proof. destruct neg; reflexivity. Qed.

(* ------------------------------------------------------------------ *)
(* fmt_f as concrete strings                                            *)

(* dp <= 0 :  -? 0 . 0^(-dp) ds *)
Theorem fmt_f_small neg ds dp :
  ds <> [] -> dp <= 0 ->
  fmt_f neg ds dp = sign_bytes neg ++ [b_0] ++ bDOT :: zeros (Z.to_nat (- dp)) ++ digs ds.
Proof.
  intros Hne Hdp. unfold fmt_f. cbv zeta.
  assert (Hnd : 1 <= Z.of_nat (length ds)) by (destruct ds; [congruence|cbn [length]; lia]).
  set (nd := Z.of_nat (length ds)) in *.
  rewrite sign_bytes_eq.
  replace (0 <? dp) with false by lia.
  replace (Z.max (nd - dp) 0) with (nd - dp) by lia.
  replace (0 <? nd - dp) with true by lia.
  f_equal. change [n2b 48] with [b_0]. f_equal. change (n2b 46) with bDOT. f_equal.
  replace (Z.to_nat (nd - dp)) with (Z.to_nat (- dp) + length ds)%nat by lia.
  rewrite seq_app, map_app. f_equal.
  - apply map_seq_const. intros i Hi.
    replace ((0 <=? dp + Z.of_nat i) && (dp + Z.of_nat i <? nd)) with false by lia. reflexivity.
  - apply (map_seq_nth dig 0%N). intros t Ht.
    replace ((0 <=? dp + Z.of_nat (0 + Z.to_nat (- dp) + t)) && (dp + Z.of_nat (0 + Z.to_nat (- dp) + t) <? nd))
      with true by lia.
    f_equal. f_equal. lia.
Qed.

(* 0 < dp < nd :  -? ds[:dp] . ds[dp:] *)
Theorem fmt_f_mid neg ds dp :
  0 < dp < Z.of_nat (length ds) ->
  fmt_f neg ds dp =
  sign_bytes neg ++ digs (firstn (Z.to_nat dp) ds) ++ bDOT :: digs (skipn (Z.to_nat dp) ds).
Proof.
  intros Hdp. unfold fmt_f. cbv zeta.
  set (nd := Z.of_nat (length ds)) in *.
  rewrite sign_bytes_eq.
  replace (0 <? dp) with true by lia.
  replace (Z.min nd dp) with dp by lia. rewrite Z.sub_diag. cbn [Z.to_nat repeat_b]. rewrite app_nil_r.
  replace (Z.max (nd - dp) 0) with (nd - dp) by lia.
  replace (0 <? nd - dp) with true by lia.
  f_equal. fold (digs (firstn (Z.to_nat dp) ds)). f_equal. change (n2b 46) with bDOT. f_equal.
  replace (Z.to_nat (nd - dp)) with (length (skipn (Z.to_nat dp) ds)) by (rewrite skipn_length; lia).
  apply (map_seq_nth dig 0%N). intros t Ht. rewrite skipn_length in Ht.
  replace ((0 <=? dp + Z.of_nat (0 + t)) && (dp + Z.of_nat (0 + t) <? nd)) with true by lia.
  f_equal. rewrite nth_skipn'. f_equal. lia.
Qed.

(* nd <= dp :  -? ds 0^(dp-nd) *)
Theorem fmt_f_big neg ds dp :
  ds <> [] -> Z.of_nat (length ds) <= dp ->
  fmt_f neg ds dp = sign_bytes neg ++ digs ds ++ zeros (Z.to_nat (dp - Z.of_nat (length ds))).
Proof.
  intros Hne Hdp. unfold fmt_f. cbv zeta.
  assert (Hnd : 1 <= Z.of_nat (length ds)) by (destruct ds; [congruence|cbn [length]; lia]).
  set (nd := Z.of_nat (length ds)) in *.
  rewrite sign_bytes_eq.
  replace (0 <? dp) with true by lia.
  replace (Z.min nd dp) with nd by lia.
  replace (Z.max (nd - dp) 0) with 0 by lia. cbn [Z.ltb Z.compare]. rewrite app_nil_r.
  unfold nd. rewrite Nat2Z.id, firstn_all. reflexivity.
Qed.

(* ------------------------------------------------------------------ *)
(* fmt_e as a concrete string                                           *)

Definition exp_digits (ex : Z) : bytes :=
  let ed := dec_of_N (Z.to_N (Z.abs ex)) in
  if Z.abs ex <? 10 then (if ex <? 0 then ed else b_0 :: ed) else ed.

Definition exp_sign (ex : Z) : byte := if ex <? 0 then bMINUS else bPLUS.

(* d [. ddd] e (+|-) digits ; the exponent dp-1 is printed with its minimal
   digits, except that an exponent in 0..9 gets one leading zero (e+07) while
   a negative one-digit exponent does not (e-7) *)
Theorem fmt_e_shape neg d1 rest dp :
  fmt_e neg (d1 :: rest) dp =
  sign_bytes neg ++ [dig d1] ++
  (match rest with [] => [] | _ => bDOT :: digs rest end) ++
  b_e :: [exp_sign (dp - 1)] ++ exp_digits (dp - 1).
Proof.
  unfold fmt_e, exp_digits, exp_sign. cbv zeta. rewrite sign_bytes_eq.
  destruct rest; destruct (dp - 1 <? 0); destruct (Z.abs (dp - 1) <? 10); reflexivity.
Qed.

Lemma exp_digits_spec ex :
  exp_digits ex <> [] /\ alld (exp_digits ex) = true /\
  digits_val (map dv (exp_digits ex)) 0 = Z.abs ex.
Proof.
  unfold exp_digits. cbv zeta.
  destruct (dec_of_N_spec (Z.to_N (Z.abs ex))) as (Hne & Hall & Hval).
  rewrite Z2N.id in Hval by lia.
  destruct (Z.abs ex <? 10); [destruct (ex <? 0)|]; try (split; [exact Hne|split; [exact Hall|exact Hval]]).
  split; [discriminate|]. split.
  - cbn [alld forallb]. exact Hall.
  - cbn [map]. change (dv b_0) with 0%N.
    change (0%N :: map dv (dec_of_N (Z.to_N (Z.abs ex)))) with (repeat 0%N 1 ++ map dv (dec_of_N (Z.to_N (Z.abs ex)))).
    rewrite digits_val_lead_zeros. exact Hval.
Qed.

(* ------------------------------------------------------------------ *)
(* reading the text back with the specification's lexer                 *)

Lemma hd_digs_no_lead0 ds t :
  all_lt10 ds -> hd 0%N ds <> 0%N -> no_lead0 (digs ds ++ t) = true.
Proof.
  intros Hall Hhd. destruct ds as [|d ds]; [cbn [hd] in Hhd; congruence|].
  cbn [digs map app no_lead0 hd] in *.
  destruct (map dig ds ++ t); [reflexivity|].
  inversion Hall as [|? ? Hd _]; subst.
  assert (E : d = 1%N \/ d = 2%N \/ d = 3%N \/ d = 4%N \/ d = 5%N \/ d = 6%N \/
              d = 7%N \/ d = 8%N \/ d = 9%N) by lia.
  destruct E as [->|[->|[->|[->|[->|[->|[->|[->| ->]]]]]]]]; reflexivity.
Qed.

(* dp <= 0 *)
Theorem fmt_f_small_lex neg ds dp :
  all_lt10 ds -> ds <> [] -> dp <= 0 ->
  exists l, (forall rest, rest_ok rest = true -> lex_number (fmt_f neg ds dp ++ rest) = Some (l, rest)) /\
    nl_neg l = neg /\ lit_mant l = digits_val ds 0 /\ lit_e10 l = dp - Z.of_nat (length ds).
Proof.
  intros Hall Hne Hdp. rewrite fmt_f_small by assumption.
  set (z := Z.to_nat (- dp)).
  pose (p := {| p_neg := neg; p_int := [b_0]; p_frac := Some (zeros z ++ digs ds); p_exp := None |}).
  assert (Hwf : wf p).
  { unfold wf, p. cbn [p_int p_frac p_exp wf_frac wf_exp]. repeat split; try reflexivity; try discriminate.
    - rewrite alld_app, alld_zeros, alld_digs by exact Hall. reflexivity.
    - destruct ds; [congruence|]. destruct (zeros z); discriminate. }
  exists (lit_of p). split.
  - intros tl Htl. etransitivity; [|exact (lex_number_render p tl Hwf Htl)]. f_equal. f_equal.
    unfold render, p. cbn [p_neg p_int p_frac p_exp frac_bytes exp_bytes].
    rewrite ?app_nil_r. reflexivity.
  - unfold lit_of, lit_mant, lit_e10, p.
    cbn [p_neg p_int p_frac p_exp nl_neg nl_int nl_frac nl_exp option_map exp_val map].
    split; [reflexivity|].
    rewrite map_app, dv_zeros, dv_digs by exact Hall.
    split.
    + change (dv b_0 :: nil) with (repeat 0%N 1). rewrite app_assoc, <- repeat_app.
      apply digits_val_lead_zeros.
    + rewrite app_length, repeat_length. lia.
Qed.

(* 0 < dp < nd *)
Theorem fmt_f_mid_lex neg ds dp :
  all_lt10 ds -> hd 0%N ds <> 0%N -> 0 < dp < Z.of_nat (length ds) ->
  exists l, (forall rest, rest_ok rest = true -> lex_number (fmt_f neg ds dp ++ rest) = Some (l, rest)) /\
    nl_neg l = neg /\ lit_mant l = digits_val ds 0 /\ lit_e10 l = dp - Z.of_nat (length ds).
Proof.
  intros Hall Hhd Hdp. rewrite fmt_f_mid by assumption.
  set (a := Z.to_nat dp).
  assert (Ha : (0 < a < length ds)%nat) by lia.
  pose (p := {| p_neg := neg; p_int := digs (firstn a ds); p_frac := Some (digs (skipn a ds)); p_exp := None |}).
  assert (Hf1 : all_lt10 (firstn a ds)) by (apply all_lt10_firstn; exact Hall).
  assert (Hf2 : all_lt10 (skipn a ds)) by (apply all_lt10_skipn; exact Hall).
  assert (Hwf : wf p).
  { unfold wf, p. cbn [p_int p_frac p_exp wf_frac wf_exp]. repeat split.
    - apply alld_digs. exact Hf1.
    - intros E. apply (f_equal (@length byte)) in E. rewrite digs_length, firstn_length in E.
      cbn [length] in E. lia.
    - rewrite <- (app_nil_r (digs (firstn a ds))). apply hd_digs_no_lead0; [exact Hf1|].
      destruct ds as [|d ds']; [cbn [length] in Ha; lia|]. destruct a as [|a']; [lia|]. exact Hhd.
    - apply alld_digs. exact Hf2.
    - intros E. apply (f_equal (@length byte)) in E. rewrite digs_length, skipn_length in E.
      cbn [length] in E. lia. }
  exists (lit_of p). split.
  - intros tl Htl. etransitivity; [|exact (lex_number_render p tl Hwf Htl)]. f_equal. f_equal.
    unfold render, p. cbn [p_neg p_int p_frac p_exp frac_bytes exp_bytes].
    rewrite ?app_nil_r. reflexivity.
  - unfold lit_of, lit_mant, lit_e10, p.
    cbn [p_neg p_int p_frac p_exp nl_neg nl_int nl_frac nl_exp option_map exp_val].
    split; [reflexivity|]. rewrite !dv_digs by assumption.
    split; [rewrite firstn_skipn; reflexivity|]. rewrite skipn_length. lia.
Qed.

(* nd <= dp : an integer literal *)
Theorem fmt_f_big_lex neg ds dp :
  all_lt10 ds -> ds <> [] -> (hd 0%N ds <> 0%N \/ (length ds = 1%nat /\ dp = 1)) ->
  Z.of_nat (length ds) <= dp ->
  exists l, (forall rest, rest_ok rest = true -> lex_number (fmt_f neg ds dp ++ rest) = Some (l, rest)) /\
    nl_neg l = neg /\ lit_mant l = digits_val ds 0 * 10 ^ (dp - Z.of_nat (length ds)) /\ lit_e10 l = 0 /\
    nl_frac l = None /\ nl_exp l = None.
Proof.
  intros Hall Hne Hhd Hdp. rewrite fmt_f_big by assumption.
  set (z := Z.to_nat (dp - Z.of_nat (length ds))).
  pose (p := {| p_neg := neg; p_int := digs ds ++ zeros z; p_frac := None; p_exp := None |}).
  assert (Hwf : wf p).
  { unfold wf, p. cbn [p_int p_frac p_exp wf_frac wf_exp]. repeat split.
    - rewrite alld_app, alld_zeros, alld_digs by exact Hall. reflexivity.
    - destruct ds; [congruence|discriminate].
    - destruct Hhd as [Hhd|[Hl ->]].
      + apply hd_digs_no_lead0; assumption.
      + unfold z. rewrite Hl. destruct ds as [|d [|? ?]]; try discriminate Hl. reflexivity. }
  exists (lit_of p). split.
  - intros tl Htl. etransitivity; [|exact (lex_number_render p tl Hwf Htl)]. f_equal. f_equal.
    unfold render, p. cbn [p_neg p_int p_frac p_exp frac_bytes exp_bytes].
    rewrite ?app_nil_r. reflexivity.
  - unfold lit_of, lit_mant, lit_e10, p.
    cbn [p_neg p_int p_frac p_exp nl_neg nl_int nl_frac nl_exp option_map exp_val].
    split; [reflexivity|]. rewrite app_nil_r, map_app, dv_zeros, dv_digs by exact Hall.
    split; [|auto].
    rewrite digits_val_app, digits_val_zeros. unfold z. rewrite Z2Nat.id by lia. reflexivity.
Qed.

(* fmt_e *)
Theorem fmt_e_lex neg d1 rest dp :
  all_lt10 (d1 :: rest) ->
  exists l, (forall tl, rest_ok tl = true -> lex_number (fmt_e neg (d1 :: rest) dp ++ tl) = Some (l, tl)) /\
    nl_neg l = neg /\ lit_mant l = digits_val (d1 :: rest) 0 /\
    lit_e10 l = dp - Z.of_nat (length (d1 :: rest)).
Proof.
  intros Hall. rewrite fmt_e_shape.
  inversion Hall as [|? ? Hd1 Hrest]; subst.
  set (ex := dp - 1).
  destruct (exp_digits_spec ex) as (Ene & Eall & Eval).
  pose (p := {| p_neg := neg; p_int := [dig d1];
                p_frac := match rest with [] => None | _ => Some (digs rest) end;
                p_exp := Some (b_e, [exp_sign ex], exp_digits ex) |}).
  assert (Hwf : wf p).
  { unfold wf, p. cbn [p_int p_frac p_exp wf_exp]. repeat split; try discriminate.
    - cbn [alld forallb]. rewrite (proj1 (dig_facts10 d1 Hd1)). reflexivity.
    - destruct rest as [|r0 rest']; [exact I|]. cbn [wf_frac]. split; [apply alld_digs; exact Hrest|discriminate].
    - left; reflexivity.
    - unfold exp_sign. destruct (ex <? 0); auto.
    - exact Eall.
    - exact Ene. }
  exists (lit_of p). split.
  - intros tl Htl. etransitivity; [|exact (lex_number_render p tl Hwf Htl)]. f_equal. f_equal.
    unfold render, p. cbn [p_neg p_int p_frac p_exp exp_bytes]. fold ex.
    destruct rest; reflexivity.
  - unfold lit_of, lit_mant, lit_e10, p.
    cbn [p_neg p_int p_frac p_exp nl_neg nl_int nl_frac nl_exp exp_val map].
    split; [reflexivity|]. rewrite (proj2 (dig_facts10 d1 Hd1)). cbv zeta. rewrite Eval.
    assert (Esg : (if sg_neg [exp_sign ex] then - Z.abs ex else Z.abs ex) = ex).
    { unfold exp_sign. destruct (Z.ltb_spec ex 0); cbv iota;
        [change (sg_neg [bMINUS]) with true|change (sg_neg [bPLUS]) with false]; cbv iota; lia. }
    rewrite Esg. destruct rest as [|r0 rest'].
    + cbn [option_map app length]. split; [reflexivity|]. unfold ex. lia.
    + cbn [option_map]. rewrite dv_digs by exact Hrest. split; [reflexivity|].
      unfold ex. cbn [length]. lia.
Qed.

(* examples *)
Example fmt_f_ex1 : fmt_f true [1; 2; 3]%N (-2) = [bMINUS; b_0; bDOT; b_0; b_0; "1"; "2"; "3"]%byte.
Proof. vm_compute. reflexivity. Qed.
Example fmt_f_ex2 : fmt_f false [1; 2; 3]%N 2 = ["1"; "2"; bDOT; "3"]%byte.
Proof. vm_compute. reflexivity. Qed.
Example fmt_f_ex3 : fmt_f false [1; 2; 3]%N 5 = ["1"; "2"; "3"; "0"; "0"]%byte.
Proof. vm_compute. reflexivity. Qed.
Example fmt_e_ex1 : fmt_e false [1; 2; 3]%N 22 = ["1"; "."; "2"; "3"; "e"; "+"; "2"; "1"]%byte.
Proof. vm_compute. reflexivity. Qed.
Example fmt_e_ex2 : fmt_e true [5]%N (-6) = ["-"; "5"; "e"; "-"; "7"]%byte.
Proof. vm_compute. reflexivity. Qed.
(* not reachable from fmt_float (e-form needs an exponent >= 21 or <= -7) *)
Example fmt_e_ex3 : fmt_e false [5]%N 8 = ["5"; "e"; "+"; "0"; "7"]%byte.
Proof. vm_compute. reflexivity. Qed.

Print Assumptions fmt_f_small_lex.
Print Assumptions fmt_f_mid_lex.
Print Assumptions fmt_f_big_lex.
Print Assumptions fmt_e_lex.
