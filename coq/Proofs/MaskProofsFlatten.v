(* MaskProofsFlatten.v — __flatten_bits_incremental (TZCNT / shift loop with
   the carried count of empty bits and the running position) stores exactly
   the increments [to_incs] of the set-bit positions [flatten_bits], and keeps
   the invariant  position + 1 + carried = offset of the next block. *)
From Coq Require Import Lia ZifyBool ZifyNat ZifyN.
From SJ Require Import Model.Base Model.RefTables Model.Stage1.
From SJ Require Import Proofs.MaskModel Proofs.MaskProofsBits.
Open Scope N_scope.

(* ------------------------------------------------------------------ *)
(* set-bit positions by a scan from bit 0                              *)

Fixpoint posn (n : nat) (m : N) (off : nat) : list nat :=
  match n with
  | O => []
  | S n' => if N.odd m then off :: posn n' (N.div2 m) (S off) else posn n' (N.div2 m) (S off)
  end.

Lemma tb_div2 m i : tb (N.div2 m) i = tb m (S i).
Proof. unfold tb. rewrite of_nat_S, N.div2_div. apply N.div2_bits. Qed.

Lemma tb_odd m : tb m 0 = N.odd m.
Proof. apply N.bit0_odd. Qed.

Lemma filter_map_S' (f : nat -> bool) l : filter f (map S l) = map S (filter (fun i => f (S i)) l).
Proof.
  induction l as [|x l IH]; [reflexivity|].
  cbn [map filter]. destruct (f (S x)); cbn [map]; rewrite IH; reflexivity.
Qed.

Lemma posn_filter : forall n m off,
  posn n m off = map (fun i => (off + i)%nat) (filter (fun i => tb m i) (seq 0 n)).
Proof.
  induction n as [|n IH]; intros m off; [reflexivity|].
  cbn [posn]. rewrite IH. rewrite <- cons_seq, <- seq_shift. cbn [filter]. rewrite tb_odd.
  rewrite filter_map_S'.
  assert (E1 : filter (fun i => tb (N.div2 m) i) (seq 0 n) = filter (fun i => tb m (S i)) (seq 0 n)).
  { apply filter_ext. intros i. apply tb_div2. }
  rewrite E1.
  assert (E2 : forall l, map (fun i => (S off + i)%nat) l = map (fun i => (off + i)%nat) (map S l)).
  { intros l. rewrite map_map. apply map_ext. intros i. lia. }
  rewrite E2.
  destruct (N.odd m); cbn [map]; [rewrite Nat.add_0_r|]; reflexivity.
Qed.

Lemma flatten_bits_posn base m : flatten_bits base m = posn 64 m base.
Proof. rewrite posn_filter. reflexivity. Qed.

Lemma posn_off n m off : posn n m off = map (fun i => (off + i)%nat) (posn n m 0).
Proof.
  rewrite !posn_filter, map_map. apply map_ext. intros i. reflexivity.
Qed.

Lemma posn_zero : forall n off, posn n 0 off = [].
Proof. induction n as [|n IH]; intros off; [reflexivity|]. cbn [posn N.odd N.div2]. apply IH. Qed.

Lemma posn_range n m off x : In x (posn n m off) -> (off <= x < off + n)%nat.
Proof.
  rewrite posn_filter. intros H. apply in_map_iff in H. destruct H as [i [<- Hi]].
  apply filter_In in Hi. destruct Hi as [Hi _]. apply in_seq in Hi. lia.
Qed.

(* ------------------------------------------------------------------ *)
(* the increments                                                      *)

Lemma to_incs_shift a : forall P prev,
  to_incs (a + prev) (map (fun i => (a + i)%nat) P) =
  (fst (to_incs prev P), (a + snd (to_incs prev P))%nat).
Proof.
  induction P as [|p r IH]; intros prev; [reflexivity|].
  cbn [map to_incs].
  replace (S (a + p)) with (a + S p)%nat by lia. rewrite IH.
  destruct (to_incs (S p) r) as [l e]. cbn [fst snd]. f_equal. f_equal. lia.
Qed.

Lemma to_incs_bound : forall P prev bound,
  (forall x, In x P -> (x < bound)%nat) -> (prev <= bound)%nat ->
  (snd (to_incs prev P) <= bound)%nat.
Proof.
  induction P as [|p r IH]; intros prev bound Hall Hp; [exact Hp|].
  cbn [to_incs]. specialize (IH (S p) bound).
  destruct (to_incs (S p) r) as [l e]. cbn [snd] in *.
  apply IH.
  - intros x Hx. apply Hall. right. exact Hx.
  - assert (p < bound)%nat by (apply Hall; left; reflexivity). lia.
Qed.

Lemma to_incs_nil_iff prev P : P = [] -> to_incs prev P = ([], prev).
Proof. intros ->. reflexivity. Qed.

(* ------------------------------------------------------------------ *)
(* TZCNT                                                               *)

Lemma tz_aux_off : forall f m k, tz_aux f m k = k + tz_aux f m 0.
Proof.
  induction f as [|f IH]; intros m k.
  - cbn [tz_aux]. lia.
  - cbn [tz_aux]. destruct (N.odd m); [lia|].
    rewrite (IH (N.div2 m) (k + 1)), (IH (N.div2 m) (0 + 1)). lia.
Qed.

Lemma div2_lt m n : m < 2 ^ N.of_nat (S n) -> N.div2 m < 2 ^ N.of_nat n.
Proof.
  intros H. rewrite N.div2_div. apply N.div_lt_upper_bound; [discriminate|].
  rewrite of_nat_S, N.pow_succ_r' in H. exact H.
Qed.

Lemma even_div2_nz m : m <> 0 -> N.odd m = false -> N.div2 m <> 0.
Proof.
  intros Hm Ho Hd. apply Hm.
  rewrite (N.div2_odd m), Hd, Ho. reflexivity.
Qed.

Lemma shiftr_div2 m k : N.shiftr (N.div2 m) k = N.shiftr m (N.succ k).
Proof.
  rewrite N.div2_spec, N.shiftr_shiftr. f_equal. lia.
Qed.

(* the lowest set bit and the rest *)
Lemma posn_tz : forall n m off f, m <> 0 -> m < 2 ^ N.of_nat n -> (n <= f)%nat ->
  let z := N.to_nat (tz_aux f m 0) in
  (z < n)%nat /\
  posn n m off = (off + z)%nat :: posn (n - S z) (N.shiftr m (N.of_nat (S z))) (off + S z).
Proof.
  induction n as [|n IH]; intros m off f Hm Hlt Hf.
  - cbn in Hlt. lia.
  - destruct f as [|f]; [lia|].
    cbn [tz_aux posn]. destruct (N.odd m) eqn:Ho.
    + cbn [N.to_nat]. split; [lia|].
      rewrite Nat.add_0_r. f_equal.
      replace (S n - 1)%nat with n by lia.
      change (N.of_nat 1) with 1. rewrite <- N.div2_spec.
      replace (off + 1)%nat with (S off) by lia. reflexivity.
    + rewrite (tz_aux_off f (N.div2 m) (0 + 1)).
      destruct (IH (N.div2 m) (S off) f (even_div2_nz m Hm Ho) (div2_lt m n Hlt) ltac:(lia)) as [Hz Hp].
      set (z' := N.to_nat (tz_aux f (N.div2 m) 0)) in *.
      replace (N.to_nat (0 + 1 + tz_aux f (N.div2 m) 0)) with (S z') by (unfold z'; lia).
      split; [lia|].
      rewrite Hp. f_equal; [lia|].
      rewrite shiftr_div2, <- of_nat_S.
      replace (S n - S (S z'))%nat with (n - S z')%nat by lia.
      replace (S off + S z')%nat with (off + S (S z'))%nat by lia. reflexivity.
Qed.

Lemma shiftr_lt m n z : m < 2 ^ N.of_nat n -> (z <= n)%nat ->
  N.shiftr m (N.of_nat z) < 2 ^ N.of_nat (n - z).
Proof.
  intros Hm Hz. rewrite N.shiftr_div_pow2.
  apply N.div_lt_upper_bound; [apply N.pow_nonzero; discriminate|].
  rewrite <- N.pow_add_r. replace (N.of_nat z + N.of_nat (n - z)) with (N.of_nat n) by lia. exact Hm.
Qed.

(* ------------------------------------------------------------------ *)
(* the loop                                                            *)

Lemma w64_add_idem a b : w64 (w64 a + b) = w64 (a + b).
Proof. unfold w64. apply N.add_mod_idemp_l. discriminate. Qed.

Lemma w32_small x : x < two32 -> w32 x = x.
Proof. intros H. unfold w32. apply N.mod_small. exact H. Qed.

Lemma flatten_loop_spec : forall fuel n m shifts position acc,
  (n <= fuel)%nat -> (n <= 63)%nat -> m < 2 ^ N.of_nat n -> position < two64 ->
  flatten_loop fuel m shifts position acc =
  (rev acc ++ map N.of_nat (fst (to_incs 0 (posn n m 0))),
   shifts + N.of_nat (snd (to_incs 0 (posn n m 0))),
   w64 (position + N.of_nat (snd (to_incs 0 (posn n m 0))))).
Proof.
  induction fuel as [|fuel IH]; intros n m shifts position acc Hnf Hn Hm Hp.
  - assert (n = 0%nat) as -> by lia. cbn [flatten_loop posn to_incs fst snd map N.of_nat].
    rewrite app_nil_r, !N.add_0_r, (w64_small position Hp). reflexivity.
  - cbn [flatten_loop]. destruct (N.eqb_spec m 0) as [->|Hnz].
    + rewrite posn_zero. cbn [to_incs fst snd map N.of_nat].
      rewrite app_nil_r, !N.add_0_r, (w64_small position Hp). reflexivity.
    + unfold tzcnt.
      destruct (posn_tz n m 0 64 Hnz Hm ltac:(lia)) as [Hz Hpos].
      set (z0 := N.to_nat (tz_aux 64 m 0)) in *.
      assert (Ez : tz_aux 64 m 0 + 1 = N.of_nat (S z0)) by (unfold z0; lia).
      rewrite Ez.
      assert (Emod : N.of_nat (S z0) mod 64 = N.of_nat (S z0)) by (apply N.mod_small; lia).
      rewrite Emod.
      rewrite (IH (n - S z0)%nat); [|lia|lia|apply shiftr_lt; [exact Hm|lia]|apply w64_lt].
      rewrite Hpos. cbn [Nat.add].
      rewrite (posn_off (n - S z0) _ (S z0)).
      cbn [to_incs].
      pose proof (to_incs_shift (S z0) (posn (n - S z0) (N.shiftr m (N.of_nat (S z0))) 0) 0) as Hsh.
      rewrite Nat.add_0_r in Hsh. rewrite Hsh. clear Hsh.
      destruct (to_incs 0 (posn (n - S z0) (N.shiftr m (N.of_nat (S z0))) 0)) as [I' e'].
      cbn [fst snd map rev]. rewrite Nat.sub_0_r.
      rewrite w32_small by (unfold two32; lia).
      rewrite <- app_assoc. cbn [app].
      rewrite w64_add_idem.
      f_equal; [f_equal|]; [lia|f_equal; lia].
Qed.

(* ------------------------------------------------------------------ *)
(* the routine                                                         *)

Theorem flatten_bits_incremental_spec (mask carried position : N) :
  mask < two64 -> carried + 64 < two32 -> position < two64 ->
  w64 (position + 1) + carried + 64 < two64 ->
  let prev1 := N.to_nat (w64 (position + 1)) in
  let base := (prev1 + N.to_nat carried)%nat in
  let ps := flatten_bits base mask in
  let '(incs, carried', position') := flatten_bits_incremental mask carried position in
  map N.to_nat incs = fst (to_incs prev1 ps) /\
  (N.to_nat (w64 (position' + 1)) + N.to_nat carried' = base + 64)%nat /\
  (ps <> [] -> N.to_nat (w64 (position' + 1)) = snd (to_incs prev1 ps)) /\
  (ps = [] -> position' = position) /\
  position' < two64.
Proof.
  intros Hm Hc Hp Hw. cbv zeta.
  set (prev1 := N.to_nat (w64 (position + 1))).
  set (base := (prev1 + N.to_nat carried)%nat).
  rewrite flatten_bits_posn.
  unfold flatten_bits_incremental.
  assert (H32 : two32 < two64) by reflexivity.
  destruct (N.eqb_spec mask 0) as [->|Hnz].
  - rewrite posn_zero. cbn [to_incs fst snd map].
    split; [reflexivity|]. split.
    + rewrite (w64_small (carried + 64)) by lia. unfold base. lia.
    + split; [intros H; exfalso; apply H; reflexivity|split; [reflexivity|exact Hp]].
  - assert (Hm' : mask < 2 ^ N.of_nat 64) by exact Hm.
    destruct (posn_tz 64 mask base 64 Hnz Hm' (le_n _)) as [Hz Hpos].
    unfold tzcnt. set (z0 := N.to_nat (tz_aux 64 mask 0)) in *.
    assert (Ez : tz_aux 64 mask 0 = N.of_nat z0) by (unfold z0; lia).
    rewrite Ez.
    rewrite (N.mod_small (N.of_nat z0) 64) by lia.
    rewrite N.shiftr_shiftr.
    replace (1 + N.of_nat z0) with (N.of_nat (S z0)) by lia.
    assert (Hfirst : w64 (N.of_nat z0 + 1 + carried) = N.of_nat z0 + 1 + carried).
    { apply w64_small. lia. }
    rewrite Hfirst.
    assert (Hm1 : N.shiftr mask (N.of_nat (S z0)) < 2 ^ N.of_nat (63 - z0)).
    { replace (63 - z0)%nat with (64 - S z0)%nat by lia. apply shiftr_lt; [exact Hm'|lia]. }
    rewrite (flatten_loop_spec 64 (63 - z0)%nat _ _ _ _ ltac:(lia) ltac:(lia) Hm1 (w64_lt _)).
    rewrite Hpos. replace (64 - S z0)%nat with (63 - z0)%nat by lia.
    rewrite (posn_off (63 - z0) _ (base + S z0)).
    cbn [to_incs].
    replace (S (base + z0)) with ((base + S z0) + 0)%nat by lia.
    rewrite to_incs_shift.
    pose proof (to_incs_bound (posn (63 - z0) (N.shiftr mask (N.of_nat (S z0))) 0) 0 (63 - z0)%nat) as Hb.
    assert (Hb' : (snd (to_incs 0 (posn (63 - z0) (N.shiftr mask (N.of_nat (S z0))) 0)) <= 63 - z0)%nat).
    { apply Hb; [|lia]. intros x Hx. apply posn_range in Hx. lia. }
    clear Hb.
    destruct (to_incs 0 (posn (63 - z0) (N.shiftr mask (N.of_nat (S z0))) 0)) as [I' e'].
    cbn [fst snd] in *. cbn [rev app map].
    rewrite w32_small by lia.
    rewrite map_map.
    assert (Hid : map (fun x => N.to_nat (N.of_nat x)) I' = I').
    { rewrite <- (map_id I') at 2. apply map_ext. intros x. apply Nat2N.id. }
    rewrite Hid.
    rewrite w64_add_idem.
    assert (Hpos' : w64 (w64 (position + (N.of_nat z0 + 1 + carried)) + N.of_nat e' + 1)
                    = w64 (position + 1) + (N.of_nat z0 + 1 + carried + N.of_nat e')).
    { rewrite <- N.add_assoc, w64_add_idem.
      replace (position + (N.of_nat z0 + 1 + carried) + (N.of_nat e' + 1))
        with (position + 1 + (N.of_nat z0 + 1 + carried + N.of_nat e')) by lia.
      rewrite <- w64_add_idem. apply w64_small. lia. }
    rewrite Hpos'.
    assert (Hcar : w64 (64 - (N.of_nat z0 + 1 + N.of_nat e')) = 64 - (N.of_nat z0 + 1 + N.of_nat e')).
    { apply w64_small. unfold two64. lia. }
    rewrite Hcar.
    split; [f_equal; unfold base; lia|].
    split; [unfold base, prev1; lia|].
    split; [intros _; unfold base, prev1; lia|split; [discriminate|apply w64_lt]].
Qed.
