(* FloatFmtBits.v — C18, bit-pattern layer: Model.Iter.sf_of_bits yields valid
   binary64 values, Spec.Json.bits_of_sf inverts it, and bits_of_sf is
   injective on valid values (so "parses back to the same bits" is "parses
   back to the same float"). *)
From Coq Require Import ZArith NArith Lia ZifyBool ZifyN.
From Coq Require Import Floats.SpecFloat.
From Flocq Require Import Core Binary Bits.
From SJ Require Import Model.Base Spec.Json Model.Iter Proofs.NumBits.
Local Open Scope Z_scope.

Ltac Zify.zify_post_hook ::= Z.div_mod_to_equations.

Lemma bits_of_sf_inj : forall f g,
  SpecFloat.valid_binary 53 1024 f = true -> SpecFloat.valid_binary 53 1024 g = true ->
  f <> S754_nan -> g <> S754_nan -> bits_of_sf f = bits_of_sf g -> f = g.
Proof.
  intros f g Hf Hg Nf Ng E.
  destruct (valid_sf_is_b64 f Hf Nf) as (x & Hx & Hxn).
  destruct (valid_sf_is_b64 g Hg Ng) as (y & Hy & Hyn).
  pose proof (bits_of_sf_b64 x Hxn) as Bx. pose proof (bits_of_sf_b64 y Hyn) as By.
  rewrite Hx in Bx. rewrite Hy in By. rewrite E in Bx. rewrite Bx in By.
  apply (f_equal b64_of_bits) in By. unfold b64_of_bits, bits_of_b64 in By.
  rewrite !binary_float_of_bits_of_binary_float in By. subst f g. rewrite By. reflexivity.
Qed.

(* the two shapes of a finite non-zero pattern *)
Lemma sf_of_bits_finite_cases : forall b s m e,
  sf_of_bits b = S754_finite s m e ->
  s = (two63 <=? b)%N /\
  let E := ((b / 4503599627370496) mod 2048)%N in
  let M := (b mod 4503599627370496)%N in
  (E = 0%N /\ e = -1074 /\ Npos m = M) \/
  ((1 <= E <= 2046)%N /\ e = Z.of_N E - 1075 /\ Npos m = (M + 4503599627370496)%N).
Proof.
  intros b s m e H. unfold sf_of_bits in H. cbv zeta.
  set (E := ((b / 4503599627370496) mod 2048)%N) in *.
  set (M := (b mod 4503599627370496)%N) in *.
  destruct (E =? 2047)%N eqn:E1.
  { destruct (M =? 0)%N; discriminate H. }
  destruct (E =? 0)%N eqn:E2.
  { destruct M as [|p] eqn:EM; [discriminate H|]. injection H as <- <- <-.
    split; [reflexivity|]. left. repeat split. lia. }
  destruct (M + 4503599627370496)%N as [|p] eqn:EM; [discriminate H|].
  injection H as <- <- <-. split; [reflexivity|]. right.
  assert (E < 2048)%N by (apply N.mod_lt; discriminate).
  repeat split; lia.
Qed.

Lemma digits2_pos_eq : forall m d,
  2 ^ (d - 1) <= Zpos m < 2 ^ d -> Zpos (digits2_pos m) = d.
Proof.
  intros m d H. rewrite Zpos_digits2_pos. apply Zdigits_unique. exact H.
Qed.

Lemma digits2_pos_le : forall m d, 0 <= d -> Zpos m < 2 ^ d -> Zpos (digits2_pos m) <= d.
Proof.
  intros m d Hd H. rewrite Zpos_digits2_pos.
  pose proof (Zdigits_correct radix2 (Zpos m)) as [Hlo _].
  change (Z.abs (Zpos m)) with (Zpos m) in Hlo.
  destruct (Z.le_gt_cases (Zdigits radix2 (Z.pos m)) d) as [Hle|Hgt]; [exact Hle|exfalso].
  assert (2 ^ d <= radix2 ^ (Zdigits radix2 (Z.pos m) - 1)).
  { change (Z.pow radix2) with (Z.pow 2). apply Z.pow_le_mono_r; lia. }
  lia.
Qed.

Theorem sf_of_bits_valid : forall b s m e,
  sf_of_bits b = S754_finite s m e -> SpecFloat.bounded 53 1024 m e = true.
Proof.
  intros b s m e H. apply sf_of_bits_finite_cases in H. destruct H as [_ H]. cbv zeta in H.
  unfold SpecFloat.bounded, SpecFloat.canonical_mantissa, SpecFloat.fexp, SpecFloat.emin.
  assert (HM : (b mod 4503599627370496 < 4503599627370496)%N) by (apply N.mod_lt; discriminate).
  destruct H as [(HE & -> & Hm)|(HE & -> & Hm)].
  - assert (Hd : Zpos (digits2_pos m) <= 52).
    { apply digits2_pos_le; [lia|]. change (2 ^ 52) with 4503599627370496. lia. }
    apply andb_true_intro. split; [apply Zeq_is_eq_bool|apply Zle_imp_le_bool]; lia.
  - assert (Hd : Zpos (digits2_pos m) = 53).
    { apply digits2_pos_eq. change (2 ^ (53 - 1)) with 4503599627370496.
      change (2 ^ 53) with 9007199254740992. lia. }
    apply andb_true_intro. split; [apply Zeq_is_eq_bool|apply Zle_imp_le_bool]; lia.
Qed.

(* bits_of_sf inverts sf_of_bits on the magnitude ... *)
Theorem bits_of_sf_of_bits_abs : forall b s m e,
  sf_of_bits b = S754_finite s m e ->
  bits_of_sf (S754_finite false m e) = (b mod two63)%N.
Proof.
  intros b s m e H. apply sf_of_bits_finite_cases in H. destruct H as [_ H]. cbv zeta in H.
  unfold bits_of_sf, two52, two63.
  destruct H as [(HE & -> & Hm)|(HE & -> & Hm)].
  - destruct (Z.ltb_spec (Zpos m) 4503599627370496); lia.
  - destruct (Z.ltb_spec (Zpos m) 4503599627370496); lia.
Qed.

Lemma bits_of_sf_sign : forall s m e,
  bits_of_sf (S754_finite s m e) = ((if s then two63 else 0) + bits_of_sf (S754_finite false m e))%N.
Proof.
  intros s m e. unfold bits_of_sf. destruct (Z.pos m <? two52); rewrite N.add_0_l; reflexivity.
Qed.

(* ... and on the whole 64-bit word *)
Theorem bits_of_sf_of_bits : forall b s m e,
  (b < two64)%N -> sf_of_bits b = S754_finite s m e ->
  bits_of_sf (S754_finite s m e) = b.
Proof.
  intros b s m e Hb H. rewrite bits_of_sf_sign, (bits_of_sf_of_bits_abs b s m e H).
  apply sf_of_bits_finite_cases in H. destruct H as [-> _].
  unfold two63, two64 in *.
  destruct (N.leb_spec 9223372036854775808 b); lia.
Qed.

Lemma sf_of_bits_zero : forall b s,
  (b < two64)%N -> sf_of_bits b = S754_zero s ->
  b = (if s then two63 else 0)%N /\ s = (two63 <=? b)%N /\ (b mod two63 = 0)%N.
Proof.
  intros b s Hb H. unfold sf_of_bits in H.
  set (E := ((b / 4503599627370496) mod 2048)%N) in *.
  set (M := (b mod 4503599627370496)%N) in *.
  destruct (E =? 2047)%N eqn:E1.
  { destruct (M =? 0)%N; discriminate H. }
  destruct (E =? 0)%N eqn:E2.
  2:{ destruct (M + 4503599627370496)%N; discriminate H. }
  destruct M as [|p] eqn:EM; [|discriminate H]. injection H as <-.
  unfold two63, two64 in *. subst E.
  destruct (N.leb_spec 9223372036854775808 b); repeat split; lia.
Qed.

(* non-finite patterns: exponent field all ones *)
Lemma sf_of_bits_finite_iff : forall b,
  sf_is_finite (sf_of_bits b) = negb (((b / 4503599627370496) mod 2048) =? 2047)%N.
Proof.
  intros b. unfold sf_of_bits.
  set (E := ((b / 4503599627370496) mod 2048)%N) in *.
  set (M := (b mod 4503599627370496)%N) in *.
  destruct (E =? 2047)%N eqn:E1.
  { destruct (M =? 0)%N; reflexivity. }
  destruct (E =? 0)%N eqn:E2.
  { destruct M; reflexivity. }
  destruct (M + 4503599627370496)%N eqn:EM; [lia|reflexivity].
Qed.

Print Assumptions bits_of_sf_inj.
Print Assumptions sf_of_bits_valid.
Print Assumptions bits_of_sf_of_bits.
