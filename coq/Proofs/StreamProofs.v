(* Proofs/StreamProofs.v -- property C09: ParseNDStream delivers the documents
   of the stream, in order, however the reader fragments it; a reader failure
   truncates the delivery to a prefix; the forwarder delivers in queue order.
   Model: Model/Stream.v. *)
From Coq Require Import ZifyBool ZifyN ZifyNat.
From SJ Require Import Model.Base Spec.Json Model.Driver Model.Tape Model.Stream Proofs.TrimProofs.
Open Scope nat_scope.

(* ------------------------------------------------------------------ *)
(* 0. sres as a monad                                                  *)
(* ------------------------------------------------------------------ *)

Definition sbind {A B} (r : sres A) (f : A -> sres B) : sres B :=
  match r with
  | SOk a => f a
  | SInvalid => SInvalid
  | SOut => SOut
  | SFuel => SFuel
  end.

(* results of consecutive pieces, combined in order: the first piece that is
   not SOk decides *)
Definition seq_docs (rs : list (sres (list doc))) : sres (list doc) :=
  fold_right (fun r acc => sbind r (fun d => sbind acc (fun ds => SOk (d ++ ds))))
             (SOk []) rs.

(* ------------------------------------------------------------------ *)
(* 1. ReadBytes and the producer loop                                  *)
(* ------------------------------------------------------------------ *)

Lemma ends_lf_snoc (p : bytes) (b : byte) : ends_lf (p ++ [b]) = is_lf b.
Proof. unfold ends_lf. rewrite rev_app_distr. reflexivity. Qed.

Lemma ends_lf_inv (c : bytes) :
  ends_lf c = true -> exists p b, c = p ++ [b] /\ is_lf b = true.
Proof.
  unfold ends_lf. intros H.
  destruct (rev c) as [|b t] eqn:E; [discriminate H|].
  exists (rev t), b. split; [|exact H].
  rewrite <- (rev_involutive c), E. reflexivity.
Qed.

Lemma read_line_spec (s l r : bytes) (f : bool) :
  read_line s = (l, r, f) ->
  s = l ++ r /\
  (f = true -> exists p b, l = p ++ [b] /\ is_lf b = true) /\
  (f = false -> r = []).
Proof.
  revert l r f. induction s as [|b s IH]; intros l r f H.
  - cbn [read_line] in H. injection H as <- <- <-.
    split; [reflexivity|]. split; [discriminate|reflexivity].
  - cbn [read_line] in H. destruct (is_lf b) eqn:Eb.
    + injection H as <- <- <-. split; [reflexivity|].
      split; [|discriminate]. intros _. exists [], b. split; [reflexivity|exact Eb].
    + destruct (read_line s) as [[l' r'] f'] eqn:E.
      injection H as <- <- <-.
      destruct (IH l' r' f' eq_refl) as (Hs & Ht & Hf).
      split; [cbn [app]; f_equal; exact Hs|].
      split; [|exact Hf].
      intros Hf'. destruct (Ht Hf') as (p & c & Hl & Hc).
      exists (b :: p), c. split; [cbn [app]; f_equal; exact Hl|exact Hc].
Qed.

Lemma read_size_pos (sizes : list nat) (n : nat) :
  0 < n -> 0 < read_size sizes n <= n.
Proof. unfold read_size. destruct sizes; lia. Qed.

(* everything the later theorems need about one run of the producer *)
Record produce_ok (endk : final) (rem : bytes) (cs : list bytes) (e : final) : Prop := {
  po_final : e = endk;
  po_prefix : exists rest, rem = concat cs ++ rest;
  po_all : endk = FEOF -> concat cs = rem;
  po_lines : Forall (fun c => ends_lf c = true) (removelast cs);
  po_lines_err : endk = FErr -> Forall (fun c => ends_lf c = true) cs;
  po_nonempty : Forall (fun c => c <> []) cs
}.

Lemma removelast_cons2 {A} (a : A) (l : list A) :
  l <> [] -> removelast (a :: l) = a :: removelast l.
Proof. destruct l; [congruence|reflexivity]. Qed.

Lemma produce_spec (endk : final) :
  endk <> FFuel ->
  forall fuel sizes rem cs e,
  length rem < fuel ->
  produce fuel endk sizes rem = (cs, e) ->
  produce_ok endk rem cs e.
Proof.
  intros Hk fuel. induction fuel as [|f IH]; intros sizes rem cs e Hlen H; [lia|].
  cbn [produce] in H.
  destruct rem as [|b0 rem0] eqn:Erem.
  - injection H as <- <-.
    constructor; try constructor; try reflexivity. exists []. reflexivity.
  - rewrite <- Erem in *.
    assert (Hpos : 0 < length rem) by (rewrite Erem; cbn [length]; lia).
    pose proof (read_size_pos sizes (length rem) Hpos) as Hn.
    set (n := read_size sizes (length rem)) in *.
    destruct (read_line (skipn n rem)) as [[b rest] found] eqn:Erl.
    destruct (read_line_spec _ _ _ _ Erl) as (Hsk & Hfound & Hnot).
    assert (Hrem : rem = firstn n rem ++ b ++ rest).
    { rewrite <- Hsk. symmetry. apply firstn_skipn. }
    assert (Hane : firstn n rem ++ b <> []).
    { intros Hc. apply (f_equal (@length byte)) in Hc.
      rewrite app_length, firstn_length in Hc. cbn [length] in Hc. lia. }
    destruct found.
    + destruct (produce f endk (tl sizes) rest) as [cs' e'] eqn:Ep.
      injection H as <- <-.
      assert (Hlr : length rest < f).
      { apply (f_equal (@length byte)) in Hrem.
        rewrite !app_length, firstn_length in Hrem. lia. }
      specialize (IH _ _ _ _ Hlr Ep).
      destruct IH as [I1 (rest' & I2) I3 I4 I5 I6].
      destruct (Hfound eq_refl) as (p & c & Hb & Hc).
      assert (Hends : ends_lf (firstn n rem ++ b) = true).
      { rewrite Hb, app_assoc, ends_lf_snoc. exact Hc. }
      constructor.
      * exact I1.
      * exists rest'. cbn [concat]. rewrite <- !app_assoc, <- I2. exact Hrem.
      * intros HE. cbn [concat]. rewrite (I3 HE), <- app_assoc. symmetry. exact Hrem.
      * destruct cs' as [|c1 cs1]; [constructor|].
        rewrite removelast_cons2 by discriminate.
        constructor; [exact Hends|exact I4].
      * intros HE. constructor; [exact Hends|exact (I5 HE)].
      * constructor; [exact Hane|exact I6].
    + specialize (Hnot eq_refl). subst rest. rewrite app_nil_r in Hrem.
      destruct endk; [| |congruence].
      * injection H as <- <-. constructor.
        -- reflexivity.
        -- exists []. cbn [concat]. rewrite !app_nil_r. exact Hrem.
        -- intros _. cbn [concat]. rewrite app_nil_r. symmetry. exact Hrem.
        -- constructor.
        -- discriminate.
        -- constructor; [exact Hane|constructor].
      * injection H as <- <-. constructor.
        -- reflexivity.
        -- exists rem. reflexivity.
        -- discriminate.
        -- constructor.
        -- constructor.
        -- constructor.
Qed.

(* ===== Theorem 1: the chunks partition the stream ===== *)
Theorem chunks_concat (sizes : list nat) (stream : bytes) (cs : list bytes) (e : final) :
  chunks sizes None stream = (cs, e) ->
  e = FEOF /\ concat cs = stream.
Proof.
  unfold chunks. intros H.
  assert (Hk : FEOF <> FFuel) by discriminate.
  destruct (produce_spec FEOF Hk _ _ _ _ _ (Nat.lt_succ_diag_r _) H) as [H1 _ H3 _ _ _].
  split; [exact H1|exact (H3 eq_refl)].
Qed.

Theorem chunks_concat_fail (sizes : list nat) (k : nat) (stream : bytes)
        (cs : list bytes) (e : final) :
  chunks sizes (Some k) stream = (cs, e) ->
  e = FErr /\ (exists rest, stream = concat cs ++ rest) /\ length (concat cs) <= k.
Proof.
  unfold chunks. intros H.
  assert (Hk : FErr <> FFuel) by discriminate.
  assert (Hl : length (firstn k stream) < S (length stream)).
  { rewrite firstn_length. lia. }
  destruct (produce_spec FErr Hk _ _ _ _ _ Hl H) as [H1 (rest & H2) _ _ _ _].
  split; [exact H1|]. split.
  - exists (rest ++ skipn k stream).
    rewrite app_assoc, <- H2. symmetry. apply firstn_skipn.
  - apply (f_equal (@length byte)) in H2.
    rewrite app_length, firstn_length in H2. lia.
Qed.

(* ===== Theorem 2: chunks end at line boundaries ===== *)
Theorem chunk_ends_at_line (sizes : list nat) (fail_at : option nat) (stream : bytes)
        (cs : list bytes) (e : final) :
  chunks sizes fail_at stream = (cs, e) ->
  Forall (fun c => ends_lf c = true) (removelast cs) /\
  Forall (fun c => c <> []) cs /\
  (fail_at <> None -> Forall (fun c => ends_lf c = true) cs).
Proof.
  unfold chunks. intros H. destruct fail_at as [k|].
  - assert (Hk : FErr <> FFuel) by discriminate.
    assert (Hl : length (firstn k stream) < S (length stream)).
    { rewrite firstn_length. lia. }
    destruct (produce_spec FErr Hk _ _ _ _ _ Hl H) as [_ _ _ H4 H5 H6].
    split; [exact H4|]. split; [exact H6|]. intros _. exact (H5 eq_refl).
  - assert (Hk : FEOF <> FFuel) by discriminate.
    destruct (produce_spec FEOF Hk _ _ _ _ _ (Nat.lt_succ_diag_r _) H) as [_ _ _ H4 _ H6].
    split; [exact H4|]. split; [exact H6|]. congruence.
Qed.

(* ------------------------------------------------------------------ *)
(* 2. splitting the specification at a line boundary                   *)
(* ------------------------------------------------------------------ *)

Lemma split_lf_aux_app (a b : bytes) (c : byte) (cur : bytes) :
  is_lf c = true ->
  split_lf_aux (a ++ c :: b) cur = split_lf_aux a cur ++ split_lf b.
Proof.
  intros Hc. revert cur. induction a as [|x a IH]; intros cur.
  - cbn [app split_lf_aux]. unfold is_lf in Hc. rewrite Hc. reflexivity.
  - cbn [app split_lf_aux]. destruct (b2n x =? cLF)%N.
    + rewrite IH. reflexivity.
    + apply IH.
Qed.

Lemma split_lf_app (a b : bytes) (c : byte) :
  is_lf c = true -> split_lf (a ++ c :: b) = split_lf a ++ split_lf b.
Proof. intros Hc. unfold split_lf at 1 2. apply split_lf_aux_app. exact Hc. Qed.

Lemma split_lf_snoc (a : bytes) (c : byte) :
  is_lf c = true -> split_lf (a ++ [c]) = split_lf a ++ [[]].
Proof. intros Hc. rewrite (split_lf_app a [] c Hc). reflexivity. Qed.

Lemma nd_lines_acc (ls : list bytes) (acc : list doc) :
  nd_lines ls acc = sbind (nd_lines ls []) (fun r => SOk (rev acc ++ r)).
Proof.
  revert acc. induction ls as [|l ls IH]; intros acc.
  - cbn [nd_lines sbind rev]. rewrite app_nil_r. reflexivity.
  - cbn [nd_lines]. destruct (is_blank_line l); [apply IH|].
    destruct (spec_parse l) as [d| | |]; try reflexivity.
    rewrite (IH (d :: acc)), (IH [d]).
    destruct (nd_lines ls []) as [r| | |]; cbn [sbind rev app]; try reflexivity.
    rewrite <- app_assoc. reflexivity.
Qed.

(* the documents of two groups of lines *)
Lemma nd_lines_app (l1 l2 : list bytes) :
  nd_lines (l1 ++ l2) [] =
  sbind (nd_lines l1 []) (fun r1 => sbind (nd_lines l2 []) (fun r2 => SOk (r1 ++ r2))).
Proof.
  induction l1 as [|l l1 IH].
  - cbn [app nd_lines sbind rev]. destruct (nd_lines l2 []); reflexivity.
  - cbn [app nd_lines]. destruct (is_blank_line l); [exact IH|].
    destruct (spec_parse l) as [d| | |]; try reflexivity.
    rewrite (nd_lines_acc (l1 ++ l2) [d]), (nd_lines_acc l1 [d]), IH.
    destruct (nd_lines l1 []) as [r1| | |]; cbn [sbind]; try reflexivity.
    destruct (nd_lines l2 []) as [r2| | |]; cbn [sbind rev app]; reflexivity.
Qed.

Lemma nd_lines_blank_tail (ls : list bytes) : nd_lines (ls ++ [[]]) [] = nd_lines ls [].
Proof.
  rewrite nd_lines_app. cbn [nd_lines is_blank_line skip_ws rev sbind].
  destruct (nd_lines ls []) as [r| | |]; cbn [sbind]; try reflexivity.
  rewrite app_nil_r. reflexivity.
Qed.

Lemma chunk_docs_nil : chunk_docs [] = SOk [].
Proof. reflexivity. Qed.

(* ===== Theorem 3: the documents of c1 ++ c2 when c1 ends a line =====
   Complete statement (all four outcomes): the lines of c1 are read first, and
   the first line that is not a document decides. *)
Theorem chunk_docs_app (c1 c2 : bytes) :
  c1 = [] \/ ends_lf c1 = true ->
  chunk_docs (c1 ++ c2) =
  sbind (chunk_docs c1) (fun d1 => sbind (chunk_docs c2) (fun d2 => SOk (d1 ++ d2))).
Proof.
  intros [->|H].
  - rewrite chunk_docs_nil. cbn [app sbind]. destruct (chunk_docs c2); reflexivity.
  - destruct (ends_lf_inv _ H) as (p & b & -> & Hb).
    unfold chunk_docs. rewrite <- app_assoc. cbn [app].
    rewrite (split_lf_app p c2 b Hb), (split_lf_snoc p b Hb).
    rewrite nd_lines_app, nd_lines_blank_tail. reflexivity.
Qed.

(* the same in the vocabulary of the task: nd_lines over split_lf *)
Corollary nd_lines_split (c1 c2 : bytes) (d1 d2 : list doc) :
  c1 = [] \/ ends_lf c1 = true ->
  nd_lines (split_lf c1) [] = SOk d1 ->
  nd_lines (split_lf c2) [] = SOk d2 ->
  nd_lines (split_lf (c1 ++ c2)) [] = SOk (d1 ++ d2).
Proof.
  intros H H1 H2. pose proof (chunk_docs_app c1 c2 H) as E. unfold chunk_docs in E.
  rewrite E, H1. cbn [sbind]. rewrite H2. reflexivity.
Qed.

Corollary nd_lines_split_inv (c1 c2 : bytes) (ds : list doc) :
  c1 = [] \/ ends_lf c1 = true ->
  nd_lines (split_lf (c1 ++ c2)) [] = SOk ds ->
  exists d1 d2, nd_lines (split_lf c1) [] = SOk d1 /\
                nd_lines (split_lf c2) [] = SOk d2 /\ ds = d1 ++ d2.
Proof.
  intros H E. pose proof (chunk_docs_app c1 c2 H) as E'. unfold chunk_docs in E'.
  rewrite E' in E.
  destruct (nd_lines (split_lf c1) []) as [d1| | |]; cbn [sbind] in E; try discriminate E.
  destruct (nd_lines (split_lf c2) []) as [d2| | |]; cbn [sbind] in E; try discriminate E.
  injection E as <-. exists d1, d2. repeat split; reflexivity.
Qed.

(* a blank chunk contributes nothing *)
Lemma nd_lines_all_blank (ls : list bytes) :
  forallb is_blank_line ls = true -> nd_lines ls [] = SOk [].
Proof.
  induction ls as [|l ls IH]; [reflexivity|].
  cbn [forallb nd_lines]. intros H. apply andb_prop in H. destruct H as [H1 H2].
  rewrite H1. exact (IH H2).
Qed.

(* ------------------------------------------------------------------ *)
(* 3. nd_spec versus the line reading                                  *)
(* ------------------------------------------------------------------ *)

Definition out_line (l : bytes) : bool :=
  match (if is_blank_line l then SInvalid else spec_parse l) with SOut => true | _ => false end.

Lemma nd_lines_ok_no_out (ls : list bytes) (acc r : list doc) :
  nd_lines ls acc = SOk r -> existsb out_line ls = false.
Proof.
  revert acc. induction ls as [|l ls IH]; intros acc H; [reflexivity|].
  cbn [nd_lines] in H. cbn [existsb]. unfold out_line at 1.
  destruct (is_blank_line l).
  - cbn [orb]. exact (IH _ H).
  - destruct (spec_parse l) as [d| | |]; try discriminate H.
    cbn [orb]. exact (IH _ H).
Qed.

Lemma nd_spec_ok_iff (s : bytes) (ds : list doc) :
  nd_spec s = SOk ds <-> chunk_docs s = SOk ds /\ ds <> [].
Proof.
  unfold nd_spec, chunk_docs. fold out_line. split.
  - intros H. destruct (existsb out_line (split_lf s)); [discriminate H|].
    destruct (nd_lines (split_lf s) []) as [r| | |]; try discriminate H.
    destruct r as [|d r]; [discriminate H|].
    injection H as <-. split; [reflexivity|discriminate].
  - intros [H Hne]. rewrite (nd_lines_ok_no_out _ _ _ H), H.
    destruct ds; [congruence|reflexivity].
Qed.

(* nd_spec_split, SOk case *)
Theorem nd_spec_split (c1 c2 : bytes) (ds : list doc) :
  c1 = [] \/ ends_lf c1 = true ->
  nd_spec (c1 ++ c2) = SOk ds ->
  exists d1 d2, chunk_docs c1 = SOk d1 /\ chunk_docs c2 = SOk d2 /\ ds = d1 ++ d2.
Proof.
  intros H E. apply nd_spec_ok_iff in E. destruct E as [E _].
  exact (nd_lines_split_inv c1 c2 ds H E).
Qed.

Theorem nd_spec_join (c1 c2 : bytes) (d1 d2 : list doc) :
  c1 = [] \/ ends_lf c1 = true ->
  chunk_docs c1 = SOk d1 -> chunk_docs c2 = SOk d2 -> d1 ++ d2 <> [] ->
  nd_spec (c1 ++ c2) = SOk (d1 ++ d2).
Proof.
  intros H H1 H2 Hne. apply nd_spec_ok_iff. split; [|exact Hne].
  exact (nd_lines_split c1 c2 d1 d2 H H1 H2).
Qed.

(* ------------------------------------------------------------------ *)
(* 4. a list of chunks                                                 *)
(* ------------------------------------------------------------------ *)

(* the line reading of the whole is the in-order combination of the line
   readings of the chunks, for every outcome *)
Theorem chunk_docs_concat (cs : list bytes) :
  Forall (fun c => ends_lf c = true) (removelast cs) ->
  chunk_docs (concat cs) = seq_docs (map chunk_docs cs).
Proof.
  induction cs as [|c cs IH]; intros H; [reflexivity|].
  destruct cs as [|c' cs'].
  - cbn [concat map seq_docs fold_right]. rewrite app_nil_r.
    destruct (chunk_docs c) as [d| | |]; cbn [sbind]; try reflexivity.
    rewrite app_nil_r. reflexivity.
  - rewrite removelast_cons2 in H by discriminate.
    inversion H as [|x l Hc Hr]; subst.
    change (concat (c :: c' :: cs')) with (c ++ concat (c' :: cs')).
    rewrite (chunk_docs_app c _ (or_intror Hc)), (IH Hr). reflexivity.
Qed.

Lemma seq_docs_ok (rs : list (sres (list doc))) (ds : list doc) :
  seq_docs rs = SOk ds ->
  exists dss, Forall2 (fun r d => r = SOk d) rs dss /\ concat dss = ds.
Proof.
  revert ds. induction rs as [|r rs IH]; intros ds H.
  - cbn in H. injection H as <-. exists []. split; [constructor|reflexivity].
  - cbn [seq_docs fold_right] in H. fold (seq_docs rs) in H.
    destruct r as [d| | |]; cbn [sbind] in H; try discriminate H.
    destruct (seq_docs rs) as [ds'| | |] eqn:E; cbn [sbind] in H; try discriminate H.
    injection H as <-. destruct (IH ds' eq_refl) as (dss & HF & Hc).
    exists (d :: dss). split; [constructor; [reflexivity|exact HF]|].
    cbn [concat]. rewrite Hc. reflexivity.
Qed.

Lemma chunks_docs_ok (cs : list bytes) (ds : list doc) :
  Forall (fun c => ends_lf c = true) (removelast cs) ->
  chunk_docs (concat cs) = SOk ds ->
  exists dss, Forall2 (fun c d => chunk_docs c = SOk d) cs dss /\ concat dss = ds.
Proof.
  intros H E. rewrite (chunk_docs_concat cs H) in E.
  destruct (seq_docs_ok _ _ E) as (dss & HF & Hc).
  exists dss. split; [|exact Hc].
  clear -HF. revert dss HF. induction cs as [|c cs IH]; intros dss HF.
  - inversion HF. constructor.
  - cbn [map] in HF. inversion HF as [|x y l l' Hx Hl]; subst.
    constructor; [exact Hx|exact (IH _ Hl)].
Qed.

(* ------------------------------------------------------------------ *)
(* 5. Go's blankness test versus the specification's blank lines       *)
(* ------------------------------------------------------------------ *)

(* a chunk contains a byte at which both trims stop *)
Definition has_stop (s : bytes) : bool := existsb (fun b => stopb (b2n b)) s.
Definition wsb (b : byte) : bool := is_json_ws (b2n b).

Lemma space_not_stop c : ascii_space c = true -> stopb c = false.
Proof.
  unfold stopb, is_json_ws, edge_unclaimed, ascii_space, cSPACE, cTAB, cLF, cCR. lia.
Qed.

Lemma high_not_stop c : (128 <= c)%N -> stopb c = false.
Proof.
  unfold stopb, is_json_ws, edge_unclaimed, cSPACE, cTAB, cLF, cCR. lia.
Qed.

Lemma ws_not_stop c : is_json_ws c = true -> stopb c = false.
Proof. intros H. apply space_not_stop, ws_ascii_space, H. Qed.

Lemma has_stop_app (a b : bytes) : has_stop (a ++ b) = has_stop a || has_stop b.
Proof. apply existsb_app. Qed.

Lemma has_stop_cons (x : byte) (a : bytes) : has_stop (x :: a) = stopb (b2n x) || has_stop a.
Proof. reflexivity. Qed.

Lemma has_stop_rev (a : bytes) : has_stop (rev a) = has_stop a.
Proof.
  induction a as [|x a IH]; [reflexivity|].
  cbn [rev]. rewrite has_stop_app, IH, has_stop_cons. cbn [has_stop existsb].
  fold (has_stop a). destruct (stopb (b2n x)), (has_stop a); reflexivity.
Qed.

(* the bytes of a white-space rune recognised by bytes.TrimSpace are never
   stop bytes *)
Lemma space_prefix_nonstop (s : bytes) : has_stop (firstn (space_prefix s) s) = false.
Proof.
  destruct s as [|a r]; [reflexivity|].
  unfold space_prefix.
  destruct (ascii_space (b2n a)) eqn:Ea.
  { cbn [firstn has_stop existsb]. rewrite (space_not_stop _ Ea). reflexivity. }
  destruct r as [|b r2]; [reflexivity|].
  destruct ((b2n a =? 194)%N && ((b2n b =? 133)%N || (b2n b =? 160)%N)) eqn:E2.
  { cbn [firstn has_stop existsb].
    rewrite (high_not_stop (b2n a)) by lia. rewrite (high_not_stop (b2n b)) by lia.
    reflexivity. }
  destruct r2 as [|c r3]; [reflexivity|].
  destruct ((b2n a =? 225)%N && (b2n b =? 154)%N && (b2n c =? 128)%N) eqn:E3.
  { cbn [firstn has_stop existsb].
    rewrite (high_not_stop (b2n a)) by lia. rewrite (high_not_stop (b2n b)) by lia.
    rewrite (high_not_stop (b2n c)) by lia. reflexivity. }
  destruct ((b2n a =? 226)%N && (b2n b =? 128)%N &&
            ((128 <=? b2n c)%N && (b2n c <=? 138)%N || (b2n c =? 168)%N ||
             (b2n c =? 169)%N || (b2n c =? 175)%N)) eqn:E4.
  { cbn [firstn has_stop existsb].
    rewrite (high_not_stop (b2n a)) by lia. rewrite (high_not_stop (b2n b)) by lia.
    rewrite (high_not_stop (b2n c)) by lia. reflexivity. }
  destruct ((b2n a =? 226)%N && (b2n b =? 129)%N && (b2n c =? 159)%N) eqn:E5.
  { cbn [firstn has_stop existsb].
    rewrite (high_not_stop (b2n a)) by lia. rewrite (high_not_stop (b2n b)) by lia.
    rewrite (high_not_stop (b2n c)) by lia. reflexivity. }
  destruct ((b2n a =? 227)%N && (b2n b =? 128)%N && (b2n c =? 128)%N) eqn:E6.
  { cbn [firstn has_stop existsb].
    rewrite (high_not_stop (b2n a)) by lia. rewrite (high_not_stop (b2n b)) by lia.
    rewrite (high_not_stop (b2n c)) by lia. reflexivity. }
  reflexivity.
Qed.

Lemma has_stop_skipn (n : nat) (s : bytes) :
  has_stop (firstn n s) = false -> has_stop (skipn n s) = has_stop s.
Proof.
  intros H. rewrite <- (firstn_skipn n s) at 2. rewrite has_stop_app, H. reflexivity.
Qed.

Lemma trim_left_has_stop (fuel : nat) (s : bytes) : has_stop (trim_left fuel s) = has_stop s.
Proof.
  revert s. induction fuel as [|f IH]; intros s; [reflexivity|].
  cbn [trim_left]. pose proof (space_prefix_nonstop s) as H.
  destruct (space_prefix s) as [|n]; [reflexivity|].
  rewrite IH. apply has_stop_skipn. exact H.
Qed.

Lemma space_suffix_rev_nonstop (r : bytes) : has_stop (firstn (space_suffix_rev r) r) = false.
Proof.
  destruct r as [|a t]; [reflexivity|].
  unfold space_suffix_rev.
  destruct (ascii_space (b2n a)) eqn:Ea.
  { cbn [firstn has_stop existsb]. rewrite (space_not_stop _ Ea). reflexivity. }
  destruct t as [|b t2]; [reflexivity|].
  destruct (space_prefix [b; a] =? 2) eqn:E2.
  { apply Nat.eqb_eq in E2. pose proof (space_prefix_nonstop [b; a]) as H.
    rewrite E2 in H. cbn [firstn has_stop existsb] in *.
    destruct (stopb (b2n a)), (stopb (b2n b)); cbn in *; congruence. }
  destruct t2 as [|c t3]; [reflexivity|].
  destruct (space_prefix [c; b; a] =? 3) eqn:E3; [|reflexivity].
  apply Nat.eqb_eq in E3. pose proof (space_prefix_nonstop [c; b; a]) as H.
  rewrite E3 in H. cbn [firstn has_stop existsb] in *.
  destruct (stopb (b2n a)), (stopb (b2n b)), (stopb (b2n c)); cbn in *; congruence.
Qed.

Lemma trim_right_rev_has_stop (fuel : nat) (r : bytes) :
  has_stop (trim_right_rev fuel r) = has_stop r.
Proof.
  revert r. induction fuel as [|f IH]; intros r; [reflexivity|].
  cbn [trim_right_rev]. pose proof (space_suffix_rev_nonstop r) as H.
  destruct (space_suffix_rev r) as [|n]; [reflexivity|].
  rewrite IH. apply has_stop_skipn. exact H.
Qed.

(* bytes.TrimSpace never removes a stop byte *)
Lemma trim_space_go_has_stop (s : bytes) : has_stop (trim_space_go s) = has_stop s.
Proof.
  unfold trim_space_go.
  rewrite has_stop_rev, trim_right_rev_has_stop, has_stop_rev. apply trim_left_has_stop.
Qed.

Lemma go_blank_no_stop (c : bytes) : go_blank c = true -> has_stop c = false.
Proof.
  unfold go_blank. intros H. rewrite <- trim_space_go_has_stop.
  destruct (trim_space_go c); [reflexivity|discriminate H].
Qed.

Lemma skip_ws_all (s : bytes) : forallb wsb s = true -> skip_ws s = [].
Proof.
  induction s as [|b s IH]; [reflexivity|].
  cbn [forallb skip_ws]. unfold wsb at 1. intros H. apply andb_prop in H.
  destruct H as [H1 H2]. rewrite H1. exact (IH H2).
Qed.

Lemma go_blank_of_ws (c : bytes) : forallb wsb c = true -> go_blank c = true.
Proof.
  intros H. unfold go_blank, trim_space_go.
  rewrite (trim_left_skip_ws c (S (length c))); [|lia|rewrite (skip_ws_all c H); exact I].
  rewrite (skip_ws_all c H). reflexivity.
Qed.

Lemma is_blank_line_forallb (l : bytes) : is_blank_line l = forallb wsb l.
Proof.
  unfold is_blank_line. induction l as [|b l IH]; [reflexivity|].
  cbn [skip_ws forallb]. unfold wsb at 1. destruct (is_json_ws (b2n b)); [exact IH|reflexivity].
Qed.

Lemma wsb_rev (a : bytes) : forallb wsb (rev a) = forallb wsb a.
Proof.
  induction a as [|x a IH]; [reflexivity|].
  cbn [rev forallb]. rewrite forallb_app, IH. cbn [forallb].
  destruct (wsb x), (forallb wsb a); reflexivity.
Qed.

Lemma lf_is_ws (b : byte) : (b2n b =? cLF)%N = true -> is_json_ws (b2n b) = true.
Proof. unfold is_json_ws, cSPACE, cTAB, cLF, cCR. lia. Qed.

Lemma split_lf_aux_blank (s cur : bytes) :
  forallb is_blank_line (split_lf_aux s cur) = forallb wsb s && forallb wsb cur.
Proof.
  revert cur. induction s as [|b s IH]; intros cur.
  - cbn [split_lf_aux forallb]. rewrite is_blank_line_forallb, wsb_rev, andb_true_r. reflexivity.
  - cbn [split_lf_aux]. destruct (b2n b =? cLF)%N eqn:Eb.
    + cbn [forallb]. rewrite IH, is_blank_line_forallb, wsb_rev. cbn [forallb].
      unfold wsb at 3. rewrite (lf_is_ws _ Eb).
      destruct (forallb wsb cur), (forallb wsb s); reflexivity.
    + rewrite IH. cbn [forallb].
      destruct (wsb b), (forallb wsb cur), (forallb wsb s); reflexivity.
Qed.

Lemma split_lf_blank (c : bytes) : forallb is_blank_line (split_lf c) = forallb wsb c.
Proof. unfold split_lf. rewrite split_lf_aux_blank. cbn [forallb]. apply andb_true_r. Qed.

Lemma split_lf_aux_stop (s cur : bytes) :
  existsb has_stop (split_lf_aux s cur) = has_stop s || has_stop cur.
Proof.
  revert cur. induction s as [|b s IH]; intros cur.
  - cbn [split_lf_aux existsb]. rewrite has_stop_rev, orb_false_r. reflexivity.
  - cbn [split_lf_aux]. destruct (b2n b =? cLF)%N eqn:Eb.
    + cbn [existsb]. rewrite IH, has_stop_rev. cbn [has_stop existsb].
      rewrite (ws_not_stop _ (lf_is_ws _ Eb)).
      fold (has_stop cur). fold (has_stop s).
      destruct (has_stop cur), (has_stop s); reflexivity.
    + rewrite IH. cbn [has_stop existsb]. fold (has_stop cur). fold (has_stop s).
      destruct (stopb (b2n b)), (has_stop cur), (has_stop s); reflexivity.
Qed.

Lemma split_lf_stop (c : bytes) : existsb has_stop (split_lf c) = has_stop c.
Proof. unfold split_lf. rewrite split_lf_aux_stop. apply orb_false_r. Qed.

(* an accepted line contains a stop byte: the first byte of its trimmed text *)
Lemma spec_parse_has_stop (l : bytes) (d : doc) : spec_parse l = SOk d -> has_stop l = true.
Proof.
  unfold spec_parse. intros H.
  destruct (skip_ws_split l) as (w & Hl & _).
  destruct (rtrim_ws_split (skip_ws l)) as (w2 & Hu & _).
  destruct (rtrim_ws (skip_ws l)) as [|b t] eqn:Et; [discriminate H|].
  destruct (edge_unclaimed (b2n b) || edge_unclaimed (b2n (last (b :: t) x00))) eqn:E;
    [discriminate H|].
  apply orb_false_iff in E. destruct E as [E1 _].
  assert (Hws : is_json_ws (b2n b) = false).
  { cbn [app] in Hu. exact (skip_ws_head _ _ _ Hu). }
  assert (Hb : stopb (b2n b) = true) by (unfold stopb; rewrite Hws, E1; reflexivity).
  rewrite Hl, Hu. rewrite !has_stop_app. cbn [app]. rewrite has_stop_cons, Hb.
  cbn [orb]. apply orb_true_r.
Qed.

Lemma nd_lines_no_stop (ls : list bytes) (d : list doc) :
  existsb has_stop ls = false -> nd_lines ls [] = SOk d -> d = [].
Proof.
  revert d. induction ls as [|l ls IH]; intros d Hs H.
  - cbn in H. injection H as <-. reflexivity.
  - cbn [existsb] in Hs. apply orb_false_iff in Hs. destruct Hs as [Hl Hs].
    cbn [nd_lines] in H. destruct (is_blank_line l); [exact (IH _ Hs H)|].
    destruct (spec_parse l) as [d0| | |] eqn:E; try discriminate H.
    rewrite (spec_parse_has_stop _ _ E) in Hl. discriminate Hl.
Qed.

Lemma nd_lines_nil_blank (ls : list bytes) :
  nd_lines ls [] = SOk [] -> forallb is_blank_line ls = true.
Proof.
  induction ls as [|l ls IH]; intros H; [reflexivity|].
  cbn [nd_lines] in H. cbn [forallb]. destruct (is_blank_line l); [exact (IH H)|].
  destruct (spec_parse l) as [d0| | |]; try discriminate H.
  rewrite nd_lines_acc in H. destruct (nd_lines ls []); discriminate H.
Qed.

(* on a chunk the specification can read, Go skips it exactly when it holds no
   document *)
Theorem go_blank_docs (c : bytes) (d : list doc) :
  chunk_docs c = SOk d -> (go_blank c = true <-> d = []).
Proof.
  unfold chunk_docs. intros H. split.
  - intros Hb. apply go_blank_no_stop in Hb. rewrite <- split_lf_stop in Hb.
    exact (nd_lines_no_stop _ _ Hb H).
  - intros ->. apply go_blank_of_ws. rewrite <- split_lf_blank.
    exact (nd_lines_nil_blank _ H).
Qed.

(* a blank chunk (JSON white space only) is skipped and denotes no document *)
Theorem blank_chunk (c : bytes) :
  forallb wsb c = true -> go_blank c = true /\ chunk_docs c = SOk [].
Proof.
  intros H. split; [exact (go_blank_of_ws c H)|].
  unfold chunk_docs. apply nd_lines_all_blank. rewrite split_lf_blank. exact H.
Qed.

(* ------------------------------------------------------------------ *)
(* 6. the documents delivered                                          *)
(* ------------------------------------------------------------------ *)

Lemma delivered_docs (cs : list bytes) (dss : list (list doc)) :
  Forall2 (fun c d => chunk_docs c = SOk d) cs dss ->
  exists dss', Forall2 (fun c d => nd_spec c = SOk d) (delivered cs) dss' /\
               concat dss' = concat dss.
Proof.
  induction 1 as [|c d cs dss Hc HF IH].
  - exists []. split; [constructor|reflexivity].
  - destruct IH as (dss' & HF' & Hcat).
    unfold delivered. cbn [filter]. fold (delivered cs).
    destruct (go_blank c) eqn:Eb; cbn [negb].
    + apply (go_blank_docs c d Hc) in Eb. subst d.
      exists dss'. split; [exact HF'|]. cbn [concat app]. exact Hcat.
    + exists (d :: dss'). split.
      * constructor; [|exact HF']. apply nd_spec_ok_iff. split; [exact Hc|].
        intros ->. assert (Hb : go_blank c = true) by (apply (go_blank_docs c [] Hc); reflexivity).
        congruence.
      * cbn [concat]. rewrite Hcat. reflexivity.
Qed.

(* ===== Theorem 4: every fragmentation delivers the documents of the stream,
   in order; each delivered chunk is by itself an NDJSON text the
   specification accepts (so the per-chunk ParseND succeeds, by C08) ===== *)
Theorem stream_docs (stream : bytes) (ds : list doc) (sizes : list nat)
        (cs : list bytes) (e : final) :
  nd_spec stream = SOk ds ->
  chunks sizes None stream = (cs, e) ->
  e = FEOF /\
  exists dss, Forall2 (fun c d => nd_spec c = SOk d) (delivered cs) dss /\
              Forall (fun d => d <> []) dss /\
              concat dss = ds.
Proof.
  intros Hs Hc.
  destruct (chunks_concat _ _ _ _ Hc) as [He Hcat].
  destruct (chunk_ends_at_line _ _ _ _ _ Hc) as (Hl & _ & _).
  apply nd_spec_ok_iff in Hs. destruct Hs as [Hs _]. rewrite <- Hcat in Hs.
  destruct (chunks_docs_ok cs ds Hl Hs) as (dss & HF & Hd).
  destruct (delivered_docs cs dss HF) as (dss' & HF' & Hd').
  split; [exact He|]. exists dss'. split; [exact HF'|]. split; [|congruence].
  clear -HF'. induction HF' as [|c d l l' H1 H2 IH]; constructor; [|exact IH].
  apply nd_spec_ok_iff in H1. exact (proj2 H1).
Qed.

Lemma all_docs_ok (rs : list (sres (list doc))) (dss : list (list doc)) :
  Forall2 (fun r d => r = SOk d) rs dss -> all_docs rs = Some (concat dss).
Proof.
  induction 1 as [|r d rs dss Hr HF IH]; [reflexivity|].
  subst r. cbn [all_docs concat]. rewrite IH. reflexivity.
Qed.

(* executable form *)
Corollary stream_results_docs (stream : bytes) (ds : list doc) (sizes : list nat) :
  nd_spec stream = SOk ds ->
  exists rs, stream_results sizes None stream = (rs, FEOF) /\ all_docs rs = Some ds.
Proof.
  intros Hs. unfold stream_results.
  destruct (chunks sizes None stream) as [cs e] eqn:Hc.
  destruct (stream_docs stream ds sizes cs e Hs Hc) as (-> & dss & HF & _ & Hd).
  exists (map nd_spec (delivered cs)). split; [reflexivity|].
  rewrite <- Hd. apply all_docs_ok.
  clear -HF. induction HF as [|c d l l' H1 H2 IH]; cbn [map]; constructor; assumption.
Qed.

(* independence of the fragmentation, stated directly *)
Corollary stream_fragmentation_irrelevant (stream : bytes) (ds : list doc)
          (sizes1 sizes2 : list nat) :
  nd_spec stream = SOk ds ->
  all_docs (fst (stream_results sizes1 None stream)) =
  all_docs (fst (stream_results sizes2 None stream)).
Proof.
  intros Hs.
  destruct (stream_results_docs stream ds sizes1 Hs) as (r1 & E1 & D1).
  destruct (stream_results_docs stream ds sizes2 Hs) as (r2 & E2 & D2).
  rewrite E1, E2. cbn [fst]. rewrite D1, D2. reflexivity.
Qed.

Lemma concat_ends_lf (cs : list bytes) :
  Forall (fun c => ends_lf c = true) cs ->
  concat cs = [] \/ ends_lf (concat cs) = true.
Proof.
  intros H. destruct cs as [|c0 cs0] eqn:E using rev_ind; [left; reflexivity|].
  right. apply Forall_app in H. destruct H as [_ H].
  inversion H as [|x l Hx _]; subst.
  destruct (ends_lf_inv _ Hx) as (p & b & -> & Hb).
  rewrite concat_app. cbn [concat]. rewrite app_nil_r, app_assoc. rewrite ends_lf_snoc. exact Hb.
Qed.

(* ===== Theorem 5: a reader failure at offset k delivers a prefix ===== *)
Theorem stream_docs_fail (stream : bytes) (ds : list doc) (sizes : list nat) (k : nat)
        (cs : list bytes) (e : final) :
  nd_spec stream = SOk ds ->
  chunks sizes (Some k) stream = (cs, e) ->
  e = FErr /\
  exists dss, Forall2 (fun c d => nd_spec c = SOk d) (delivered cs) dss /\
              exists rest, ds = concat dss ++ rest.
Proof.
  intros Hs Hc.
  destruct (chunks_concat_fail _ _ _ _ _ Hc) as (He & (rest & Hcat) & _).
  destruct (chunk_ends_at_line _ _ _ _ _ Hc) as (Hl & _ & Hall).
  assert (Hall' : Forall (fun c => ends_lf c = true) cs) by (apply Hall; discriminate).
  apply nd_spec_ok_iff in Hs. destruct Hs as [Hs _]. rewrite Hcat in Hs.
  destruct (nd_lines_split_inv _ _ _ (concat_ends_lf cs Hall') Hs) as (d1 & d2 & H1 & _ & Hds).
  destruct (chunks_docs_ok cs d1 Hl H1) as (dss & HF & Hd).
  destruct (delivered_docs cs dss HF) as (dss' & HF' & Hd').
  split; [exact He|]. exists dss'. split; [exact HF'|].
  exists d2. rewrite Hd', Hd. exact Hds.
Qed.

(* for every outcome of the specification (not only SOk): the line reading of
   the stream is the in-order combination of the line readings of the chunks,
   so the first chunk that is not SOk carries the stream's verdict *)
Theorem stream_lines_eq (stream : bytes) (sizes : list nat) (cs : list bytes) (e : final) :
  chunks sizes None stream = (cs, e) ->
  chunk_docs stream = seq_docs (map chunk_docs cs).
Proof.
  intros Hc.
  destruct (chunks_concat _ _ _ _ Hc) as [_ Hcat].
  destruct (chunk_ends_at_line _ _ _ _ _ Hc) as (Hl & _ & _).
  rewrite <- Hcat at 1. exact (chunk_docs_concat cs Hl).
Qed.

(* ------------------------------------------------------------------ *)
(* 7. the forwarder                                                    *)
(* ------------------------------------------------------------------ *)

Inductive sub {A : Type} : list A -> list A -> Prop :=
| sub_nil : sub [] []
| sub_skip x l m : sub l m -> sub l (x :: m)
| sub_keep x l m : sub l m -> sub (x :: l) (x :: m).

Lemma sub_snoc_keep {A} (x : A) (l m : list A) : sub l m -> sub (l ++ [x]) (m ++ [x]).
Proof.
  induction 1 as [|y l m H IH|y l m H IH]; cbn [app].
  - apply sub_keep, sub_nil.
  - apply sub_skip, IH.
  - apply sub_keep, IH.
Qed.

Lemma sub_snoc_skip {A} (x : A) (l m : list A) : sub l m -> sub l (m ++ [x]).
Proof.
  induction 1 as [|y l m H IH|y l m H IH]; cbn [app].
  - apply sub_skip, sub_nil.
  - apply sub_skip, IH.
  - apply sub_keep, IH.
Qed.

Lemma sub_nil_r {A} (l : list A) : sub l [] -> l = [].
Proof. inversion 1. reflexivity. Qed.

Lemma firstn_S_snoc {A} (l : list A) (n : nat) (r : A) :
  nth_error l n = Some r -> firstn (S n) l = firstn n l ++ [r].
Proof.
  revert n. induction l as [|x l IH]; intros n H.
  - destruct n; discriminate H.
  - destruct n as [|n].
    + cbn in H. injection H as <-. reflexivity.
    + cbn [nth_error] in H. change (firstn (S (S n)) (x :: l)) with (x :: firstn (S n) l).
      rewrite (IH n H). reflexivity.
Qed.

Lemma nth_error_skipn' {A} (l : list A) (m k : nat) :
  nth_error (skipn m l) k = nth_error l (m + k).
Proof.
  revert l. induction m as [|m IH]; intros l; [reflexivity|].
  destruct l as [|x l]; [destruct k; reflexivity|]. cbn [skipn Nat.add nth_error]. apply IH.
Qed.

Lemma nth_error_split' {A} (l : list A) (n : nat) (r : A) :
  nth_error l n = Some r -> l = firstn n l ++ r :: skipn (S n) l.
Proof.
  revert n. induction l as [|x l IH]; intros n H.
  - destruct n; discriminate H.
  - destruct n as [|n].
    + cbn in H. injection H as <-. reflexivity.
    + cbn [nth_error] in H. cbn [firstn skipn app]. f_equal. exact (IH n H).
Qed.

Section ForwarderProofs.
  Variable R : Type.
  Variable is_err : R -> bool.
  Variable results : list R.

  Notation fstep := (fstep R is_err results).
  Notation frun := (frun R is_err results).
  Notation upto := (upto_err R is_err).
  Definition noerr (r : R) : bool := negb (is_err r).

  Lemma upto_noerr (a : list R) : forallb noerr a = true -> upto a = a.
  Proof.
    induction a as [|x a IH]; [reflexivity|]. cbn [forallb upto_err]. unfold noerr at 1.
    intros H. apply andb_prop in H. destruct H as [H1 H2].
    destruct (is_err x); [discriminate H1|]. rewrite (IH H2). reflexivity.
  Qed.

  Lemma upto_app_noerr (a b : list R) :
    forallb noerr a = true -> upto (a ++ b) = a ++ upto b.
  Proof.
    induction a as [|x a IH]; [reflexivity|]. cbn [forallb app upto_err]. unfold noerr at 1.
    intros H. apply andb_prop in H. destruct H as [H1 H2].
    destruct (is_err x); [discriminate H1|]. rewrite (IH H2). reflexivity.
  Qed.

  Lemma upto_idem_app (l x : list R) :
    existsb is_err l = true -> upto (upto l ++ x) = upto l.
  Proof.
    induction l as [|y l IH]; [discriminate|]. cbn [existsb upto_err].
    destruct (is_err y) eqn:E.
    - intros _. cbn [app upto_err]. rewrite E. reflexivity.
    - cbn [orb]. intros H. cbn [app upto_err]. rewrite E, (IH H). reflexivity.
  Qed.

  Lemma upto_prefix (l : list R) : exists rest, l = upto l ++ rest.
  Proof.
    induction l as [|y l (rest & IH)]; [exists []; reflexivity|]. cbn [upto_err].
    destruct (is_err y).
    - exists l. reflexivity.
    - exists rest. cbn [app]. f_equal. exact IH.
  Qed.

  Record FInv (s : fwd R) : Prop := {
    fi_le : next s <= enq s <= length results;
    fi_filled : NoDup (filled s) /\ Forall (fun i => i < enq s) (filled s);
    fi_open : ended s = false ->
              out s = firstn (next s) results /\ forallb noerr (out s) = true;
    fi_closed : ended s = true ->
                existsb is_err results = true /\
                length (upto results) <= next s /\
                exists extra,
                  out s = upto results ++ extra /\
                  sub extra (firstn (next s - length (upto results))
                                    (skipn (length (upto results)) results))
  }.

  Lemma finv_init : FInv finit.
  Proof.
    constructor; cbn [finit next enq filled out ended].
    - lia.
    - split; constructor.
    - intros _. split; reflexivity.
    - discriminate.
  Qed.

  Lemma mem_true (i : nat) (l : list nat) : mem i l = true <-> In i l.
  Proof.
    unfold mem. rewrite existsb_exists. split.
    - intros (x & Hx & E). apply Nat.eqb_eq in E. subst x. exact Hx.
    - intros H. exists i. split; [exact H|apply Nat.eqb_refl].
  Qed.

  (* the effect of popping the head, shared by EForward and EDrop when the
     forwarder has already seen an error *)
  Lemma closed_advance (s : fwd R) (r : R) (extra : list R) :
    length (upto results) <= next s ->
    nth_error results (next s) = Some r ->
    firstn (S (next s) - length (upto results)) (skipn (length (upto results)) results) =
    firstn (next s - length (upto results)) (skipn (length (upto results)) results) ++ [r].
  Proof.
    intros Hm Hn.
    replace (S (next s) - length (upto results)) with (S (next s - length (upto results))) by lia.
    apply firstn_S_snoc. rewrite nth_error_skipn'.
    replace (length (upto results) + (next s - length (upto results))) with (next s) by lia.
    exact Hn.
  Qed.

  Lemma finv_step (s s' : fwd R) (e : fev) : FInv s -> fstep s e = Some s' -> FInv s'.
  Proof.
    intros [Hle (Hnd & Hfl) Hop Hcl] H. destruct e as [|i| |]; cbn [Stream.fstep] in H.
    - destruct (enq s <? length results) eqn:E; [|discriminate H].
      injection H as <-. constructor; cbn [next enq filled out ended].
      + lia.
      + split; [exact Hnd|]. eapply Forall_impl; [|exact Hfl]. cbn beta. intros; lia.
      + exact Hop.
      + exact Hcl.
    - destruct ((i <? enq s) && negb (mem i (filled s))) eqn:E; [|discriminate H].
      apply andb_prop in E. destruct E as [E1 E2].
      injection H as <-. constructor; cbn [next enq filled out ended].
      + exact Hle.
      + split.
        * constructor; [|exact Hnd]. intros Hin. apply mem_true in Hin.
          rewrite Hin in E2. discriminate E2.
        * constructor; [lia|exact Hfl].
      + exact Hop.
      + exact Hcl.
    - destruct ((next s <? enq s) && mem (next s) (filled s)) eqn:E; [|discriminate H].
      apply andb_prop in E. destruct E as [E1 _].
      destruct (nth_error results (next s)) as [r|] eqn:En; [|discriminate H].
      injection H as <-. constructor; cbn [next enq filled out ended].
      + lia.
      + split; assumption.
      + intros Hend. apply orb_false_iff in Hend. destruct Hend as [He Hr].
        destruct (Hop He) as [Ho Hn]. split.
        * rewrite Ho. symmetry. apply firstn_S_snoc. exact En.
        * rewrite forallb_app, Hn. cbn [forallb]. unfold noerr. rewrite Hr. reflexivity.
      + intros Hend. destruct (ended s) eqn:He.
        * destruct (Hcl eq_refl) as (Hex & Hm & extra & Ho & Hs).
          split; [exact Hex|]. split; [lia|].
          exists (extra ++ [r]). split; [rewrite Ho, app_assoc; reflexivity|].
          rewrite (closed_advance s r extra Hm En). apply sub_snoc_keep. exact Hs.
        * cbn [orb] in Hend. destruct (Hop eq_refl) as [Ho Hn].
          pose proof (nth_error_split' _ _ _ En) as Hsplit. rewrite <- Ho in Hsplit.
          assert (Hu : upto results = out s ++ [r]).
          { rewrite Hsplit at 1. rewrite (upto_app_noerr _ _ Hn). cbn [upto_err].
            rewrite Hend. reflexivity. }
          assert (Hlen : length (upto results) = S (next s)).
          { rewrite Hu, app_length, Ho, firstn_length. cbn [length].
            assert (next s < length results) by (apply nth_error_Some; congruence). lia. }
          split.
          { rewrite Hsplit, existsb_app. cbn [existsb]. rewrite Hend.
            rewrite orb_true_r. reflexivity. }
          split; [lia|].
          exists []. split; [rewrite app_nil_r; symmetry; exact Hu|].
          rewrite Hlen, Nat.sub_diag. cbn [firstn]. apply sub_nil.
    - destruct ((next s <? enq s) && mem (next s) (filled s) && ended s) eqn:E; [|discriminate H].
      apply andb_prop in E. destruct E as [E He].
      apply andb_prop in E. destruct E as [E1 _].
      destruct (nth_error results (next s)) as [r|] eqn:En; [|discriminate H].
      injection H as <-. constructor; cbn [next enq filled out ended].
      + lia.
      + split; assumption.
      + discriminate.
      + intros _. destruct (Hcl He) as (Hex & Hm & extra & Ho & Hs).
        split; [exact Hex|]. split; [lia|].
        exists extra. split; [exact Ho|].
        rewrite (closed_advance s r extra Hm En). apply sub_snoc_skip. exact Hs.
  Qed.

  Lemma finv_run (evs : list fev) (s s' : fwd R) : FInv s -> frun s evs = Some s' -> FInv s'.
  Proof.
    revert s. induction evs as [|e evs IH]; intros s HI H.
    - cbn in H. injection H as <-. exact HI.
    - cbn [Stream.frun] in H. destruct (fstep s e) as [s1|] eqn:E; [|discriminate H].
      exact (IH s1 (finv_step _ _ _ HI E) H).
  Qed.

  (* ===== forwarder_in_order: for every interleaving =====
     Until an error has been forwarded the output is exactly the first
     [next] results; afterwards it is the results up to and including the
     first error, followed by a subsequence (non-blocking sends may lose
     items) of the later results popped so far. *)
  Theorem forwarder_in_order (evs : list fev) (s : fwd R) :
    frun finit evs = Some s ->
    (ended s = false ->
       out s = firstn (next s) results /\ forallb noerr (out s) = true) /\
    (ended s = true ->
       exists extra,
         out s = upto results ++ extra /\
         sub extra (firstn (next s - length (upto results))
                           (skipn (length (upto results)) results))).
  Proof.
    intros H. destruct (finv_run evs finit s finv_init H) as [_ _ Hop Hcl].
    split; [exact Hop|]. intros He. destruct (Hcl He) as (_ & _ & Hx). exact Hx.
  Qed.

  (* what a consumer that stops at the first error receives is always a prefix
     of the queue's results up to the first error *)
  Corollary forwarder_prefix (evs : list fev) (s : fwd R) :
    frun finit evs = Some s ->
    exists rest, upto results = upto (out s) ++ rest.
  Proof.
    intros H. destruct (finv_run evs finit s finv_init H) as [_ _ Hop Hcl].
    destruct (ended s) eqn:He.
    - destruct (Hcl eq_refl) as (Hex & _ & extra & Ho & _).
      exists []. rewrite Ho, (upto_idem_app _ _ Hex), app_nil_r. reflexivity.
    - destruct (Hop eq_refl) as [Ho Hn]. rewrite (upto_noerr _ Hn).
      exists (upto (skipn (next s) results)).
      rewrite <- (firstn_skipn (next s) results) at 1. rewrite <- Ho.
      apply upto_app_noerr. exact Hn.
  Qed.

  (* ===== completeness: when the forwarder has popped every cell, everything
     up to the first error has been delivered ===== *)
  Theorem forwarder_complete (evs : list fev) (s : fwd R) :
    frun finit evs = Some s -> next s = length results ->
    upto (out s) = upto results.
  Proof.
    intros H Hn. destruct (finv_run evs finit s finv_init H) as [_ _ Hop Hcl].
    destruct (ended s) eqn:He.
    - destruct (Hcl eq_refl) as (Hex & _ & extra & Ho & _).
      rewrite Ho. apply upto_idem_app. exact Hex.
    - destruct (Hop eq_refl) as [Ho _]. rewrite Ho, Hn, firstn_all. reflexivity.
  Qed.

  (* the shape ParseNDStream produces when every chunk parses: values, then one
     error cell (io.EOF or the reader's error): nothing is lost *)
  Theorem forwarder_complete_exact (evs : list fev) (s : fwd R) (vals : list R) (e : R) :
    results = vals ++ [e] -> forallb noerr vals = true -> is_err e = true ->
    frun finit evs = Some s -> next s = length results ->
    out s = results.
  Proof.
    intros Hr Hv He H Hn. destruct (finv_run evs finit s finv_init H) as [_ _ Hop Hcl].
    destruct (ended s) eqn:Hend.
    - destruct (Hcl eq_refl) as (_ & _ & extra & Ho & Hs).
      assert (Hu : upto results = results).
      { rewrite Hr, (upto_app_noerr _ _ Hv). cbn [upto_err]. rewrite He. reflexivity. }
      rewrite Hu in *. rewrite Hn, Nat.sub_diag in Hs. cbn [firstn] in Hs.
      apply sub_nil_r in Hs. subst extra. rewrite Ho. apply app_nil_r.
    - destruct (Hop eq_refl) as [Ho _]. rewrite Ho, Hn. apply firstn_all.
  Qed.

  (* ===== progress: while cells remain, some event is enabled, and the one
     that is enabled for the forwarder never needs anything but the head cell
     to be filled ===== *)
  Theorem forwarder_progress (evs : list fev) (s : fwd R) :
    frun finit evs = Some s -> next s < length results ->
    exists e s', fstep s e = Some s'.
  Proof.
    intros H Hn. destruct (finv_run evs finit s finv_init H) as [Hle _ _ _].
    destruct (next s <? enq s) eqn:E1.
    - destruct (mem (next s) (filled s)) eqn:E2.
      + destruct (nth_error results (next s)) as [r|] eqn:En.
        * exists EForward. eexists. cbn [Stream.fstep]. rewrite E1, E2, En. reflexivity.
        * apply nth_error_None in En. lia.
      + exists (EFill (next s)). eexists. cbn [Stream.fstep]. rewrite E1, E2. reflexivity.
    - apply Nat.ltb_ge in E1. exists EEnq. eexists. cbn [Stream.fstep].
      assert (E : (enq s <? length results) = true) by (apply Nat.ltb_lt; lia).
      rewrite E. reflexivity.
  Qed.

  (* every event advances one of three counters, each bounded by the number of
     cells: no run is longer than 3 * |results| *)
  Definition fmeasure (s : fwd R) : nat := enq s + length (filled s) + next s.

  Lemma fmeasure_step (s s' : fwd R) (e : fev) :
    fstep s e = Some s' -> fmeasure s' = S (fmeasure s).
  Proof.
    unfold fmeasure. intros H. destruct e as [|i| |]; cbn [Stream.fstep] in H.
    - destruct (enq s <? length results); [|discriminate H].
      injection H as <-. cbn [next enq filled]. lia.
    - destruct ((i <? enq s) && negb (mem i (filled s))); [|discriminate H].
      injection H as <-. cbn [next enq filled length]. lia.
    - destruct ((next s <? enq s) && mem (next s) (filled s)); [|discriminate H].
      destruct (nth_error results (next s)); [|discriminate H].
      injection H as <-. cbn [next enq filled]. lia.
    - destruct ((next s <? enq s) && mem (next s) (filled s) && ended s); [|discriminate H].
      destruct (nth_error results (next s)); [|discriminate H].
      injection H as <-. cbn [next enq filled]. lia.
  Qed.

  Lemma fmeasure_run (evs : list fev) (s s' : fwd R) :
    frun s evs = Some s' -> fmeasure s' = fmeasure s + length evs.
  Proof.
    revert s. induction evs as [|e evs IH]; intros s H.
    - cbn in H. injection H as <-. cbn [length]. lia.
    - cbn [Stream.frun] in H. destruct (fstep s e) as [s1|] eqn:E; [|discriminate H].
      rewrite (IH s1 H), (fmeasure_step _ _ _ E). cbn [length]. lia.
  Qed.

  Theorem forwarder_terminates (evs : list fev) (s : fwd R) :
    frun finit evs = Some s -> length evs <= 3 * length results.
  Proof.
    intros H. pose proof (fmeasure_run _ _ _ H) as Hm.
    destruct (finv_run evs finit s finv_init H) as [Hle (Hnd & Hfl) _ _].
    assert (Hf : length (filled s) <= enq s).
    { rewrite <- (seq_length (enq s) 0). apply NoDup_incl_length; [exact Hnd|].
      intros i Hi. apply in_seq. rewrite Forall_forall in Hfl. specialize (Hfl i Hi). lia. }
    unfold fmeasure in Hm. cbn [finit enq filled next length] in Hm. lia.
  Qed.
End ForwarderProofs.

(* ------------------------------------------------------------------ *)
(* 7b. producer, parsers and forwarder together                        *)
(* ------------------------------------------------------------------ *)

Section EndToEnd.
  (* property C08 (ParseND agrees with nd_spec) for the copying parser, as a
     hypothesis: it is the subject of Properties/C08.v and is discharged there
     by the correspondence checks, not by a Coq proof *)
  Hypothesis C08 : forall bs ds,
    nd_spec bs = SOk ds ->
    exists p, parsend_model true bs = Ok p /\
              denote (p_msg p) (p_strings p) (p_tape p) = Some ds.

  Definition pdocs (p : parsed) : option (list doc) :=
    denote (p_msg p) (p_strings p) (p_tape p).

  Lemma parse_delivered (cs : list bytes) (dss : list (list doc)) :
    Forall2 (fun c d => nd_spec c = SOk d) cs dss ->
    exists ps, map parse_chunk cs = map CVal ps /\
               Forall2 (fun p d => pdocs p = Some d) ps dss.
  Proof.
    induction 1 as [|c d cs dss Hc HF (ps & Hm & Hp)].
    - exists []. split; [reflexivity|constructor].
    - destruct (C08 c d Hc) as (p & Hpar & Hden).
      exists (p :: ps). split.
      + cbn [map]. unfold parse_chunk at 1. rewrite Hpar, Hm. reflexivity.
      + constructor; [exact Hden|exact Hp].
  Qed.

  Lemma cvals_noerr (ps : list parsed) :
    forallb (noerr cell cell_is_err) (map CVal ps) = true.
  Proof. induction ps as [|p ps IH]; [reflexivity|exact IH]. Qed.

  (* ===== the whole of ParseNDStream on a stream the specification accepts:
     for every fragmentation by the reader and every interleaving of the
     parser goroutines and the forwarder, once the forwarder has popped every
     cell the result channel has carried values whose documents, in order, are
     the documents of the stream, followed by io.EOF ===== *)
  Theorem ndstream_end_to_end (stream : bytes) (ds : list doc) (sizes : list nat)
          (evs : list fev) (s : fwd cell) :
    nd_spec stream = SOk ds ->
    frun cell cell_is_err (queue_cells sizes None stream) finit evs = Some s ->
    next s = length (queue_cells sizes None stream) ->
    exists ps dss,
      out s = map CVal ps ++ [CEnd FEOF] /\
      Forall2 (fun p d => pdocs p = Some d) ps dss /\
      Forall (fun d => d <> []) dss /\
      concat dss = ds.
  Proof.
    intros Hs Hrun Hn. unfold queue_cells in *.
    destruct (chunks sizes None stream) as [cs e] eqn:Hc.
    destruct (stream_docs stream ds sizes cs e Hs Hc) as (-> & dss & HF & Hne & Hd).
    destruct (parse_delivered _ _ HF) as (ps & Hm & Hp).
    rewrite Hm in *.
    exists ps, dss. split; [|split; [exact Hp|split; [exact Hne|exact Hd]]].
    exact (forwarder_complete_exact cell cell_is_err _ evs s (map CVal ps) (CEnd FEOF)
             eq_refl (cvals_noerr ps) eq_refl Hrun Hn).
  Qed.

  (* the same when the reader breaks after k bytes: values for a prefix of the
     documents, then the reader's error *)
  Theorem ndstream_end_to_end_fail (stream : bytes) (ds : list doc) (sizes : list nat) (k : nat)
          (evs : list fev) (s : fwd cell) :
    nd_spec stream = SOk ds ->
    frun cell cell_is_err (queue_cells sizes (Some k) stream) finit evs = Some s ->
    next s = length (queue_cells sizes (Some k) stream) ->
    exists ps dss rest,
      out s = map CVal ps ++ [CEnd FErr] /\
      Forall2 (fun p d => pdocs p = Some d) ps dss /\
      ds = concat dss ++ rest.
  Proof.
    intros Hs Hrun Hn. unfold queue_cells in *.
    destruct (chunks sizes (Some k) stream) as [cs e] eqn:Hc.
    destruct (stream_docs_fail stream ds sizes k cs e Hs Hc) as (-> & dss & HF & rest & Hd).
    destruct (parse_delivered _ _ HF) as (ps & Hm & Hp).
    rewrite Hm in *.
    exists ps, dss, rest. split; [|split; [exact Hp|exact Hd]].
    exact (forwarder_complete_exact cell cell_is_err _ evs s (map CVal ps) (CEnd FErr)
             eq_refl (cvals_noerr ps) eq_refl Hrun Hn).
  Qed.

  (* at every moment before that: a prefix *)
  Theorem ndstream_prefix (stream : bytes) (ds : list doc) (sizes : list nat)
          (fail_at : option nat) (evs : list fev) (s : fwd cell) :
    frun cell cell_is_err (queue_cells sizes fail_at stream) finit evs = Some s ->
    exists rest,
      upto_err cell cell_is_err (queue_cells sizes fail_at stream) =
      upto_err cell cell_is_err (out s) ++ rest.
  Proof. intros Hrun. exact (forwarder_prefix cell cell_is_err _ evs s Hrun). Qed.
End EndToEnd.

(* ------------------------------------------------------------------ *)
(* 8. non-vacuity                                                      *)
(* ------------------------------------------------------------------ *)

(* {"a":1}\n\n[2]\n  \n{"b":[]}   -- three documents, blank lines, no final LF *)
Definition ex_stream : bytes :=
  of_codes [123;34;97;34;58;49;125;10; 10; 91;50;93;10; 32;32;10; 123;34;98;34;58;91;93;125]%N.

Definition ex_docs : list doc :=
  [DObj [(of_codes [97]%N, DNum (NInt 1))]; DArr [DNum (NInt 2)];
   DObj [(of_codes [98]%N, DArr [])]].

Example ex_spec : nd_spec ex_stream = SOk ex_docs.
Proof. vm_compute. reflexivity. Qed.

(* a reader returning one byte per Read (ReadBytes completes the line): four
   chunks, one of them blank and skipped *)
Example ex_chunks_1 :
  map (@length byte) (fst (chunks (repeat 1 30) None ex_stream)) = [8; 5; 3; 8]
  /\ map (@length byte) (delivered (fst (chunks (repeat 1 30) None ex_stream))) = [8; 5; 8]
  /\ snd (chunks (repeat 1 30) None ex_stream) = FEOF.
Proof. vm_compute. repeat split. Qed.

(* a reader returning 9 bytes at a time cuts inside lines; ReadBytes completes them *)
Example ex_chunks_9 :
  map (@length byte) (fst (chunks [9; 9; 9] None ex_stream)) = [13; 11].
Proof. vm_compute. reflexivity. Qed.

Example ex_results_1 :
  all_docs (fst (stream_results (repeat 1 30) None ex_stream)) = Some ex_docs.
Proof. vm_compute. reflexivity. Qed.

Example ex_results_9 :
  all_docs (fst (stream_results [9; 9; 9] None ex_stream)) = Some ex_docs.
Proof. vm_compute. reflexivity. Qed.

Example ex_results_all :
  stream_results [] None ex_stream = ([SOk ex_docs], FEOF).
Proof. vm_compute. reflexivity. Qed.

(* the reader breaks after 11 bytes: the first document only, then the error *)
Example ex_results_fail :
  stream_results [3; 3; 3; 3] (Some 11) ex_stream = ([SOk [DObj [(of_codes [97]%N, DNum (NInt 1))]]], FErr).
Proof. vm_compute. reflexivity. Qed.

(* a chunk Go regards as blank although it is not JSON white space (vertical
   tab): go_blank_docs does not apply, the specification says SOut *)
Example ex_vt : go_blank (of_codes [11; 10]%N) = true /\ chunk_docs (of_codes [11; 10]%N) = SOut.
Proof. vm_compute. split; reflexivity. Qed.

(* forwarder: results 1 2 0 3 with 0 the error; cells filled out of order;
   the item after the error is dropped by the non-blocking send *)
Definition ex_is_err (n : nat) : bool := Nat.eqb n 0.
Definition ex_evs : list fev :=
  [EEnq; EEnq; EFill 1; EEnq; EFill 0; EForward; EForward; EEnq; EFill 3; EFill 2;
   EForward; EDrop].

Example ex_forward :
  option_map (fun s => (out s, ended s, next s))
             (frun nat ex_is_err [1; 2; 0; 3] finit ex_evs) = Some ([1; 2; 0], true, 4).
Proof. vm_compute. reflexivity. Qed.

(* the forwarder cannot overtake an unfilled head *)
Example ex_forward_blocked :
  frun nat ex_is_err [1; 2; 0; 3] finit [EEnq; EEnq; EFill 1; EForward] = None.
Proof. vm_compute. reflexivity. Qed.

Print Assumptions chunks_concat.
Print Assumptions chunks_concat_fail.
Print Assumptions chunk_ends_at_line.
Print Assumptions chunk_docs_app.
Print Assumptions nd_spec_split.
Print Assumptions chunk_docs_concat.
Print Assumptions go_blank_docs.
Print Assumptions stream_lines_eq.
Print Assumptions stream_docs.
Print Assumptions stream_results_docs.
Print Assumptions stream_docs_fail.
Print Assumptions forwarder_in_order.
Print Assumptions forwarder_prefix.
Print Assumptions forwarder_complete.
Print Assumptions forwarder_complete_exact.
Print Assumptions forwarder_progress.
Print Assumptions forwarder_terminates.
Print Assumptions ndstream_end_to_end.
Print Assumptions ndstream_end_to_end_fail.
