(* MaskFinal.v — final statements of the mask-level refinement (property C06).

   MaskModel.v transcribes the stage-1 block kernels of /repo at the level of
   64-bit masks (one model for both families; the AVX2 way of assembling a
   mask from two 32-bit halves is spelled out and proved equal).  The theorems
   below say that this bit-parallel algorithm computes, for EVERY block of 64
   bytes and EVERY well-formed carried state (0/1, all-zeros/all-ones, 0/1,
   any 64-bit error mask), exactly what 64 iterations of the scalar step
   [s1_step] of Model/Stage1.v compute — structural positions and outgoing
   carried state — for nd = false and nd = true; that the whole message cut
   into blocks (last block padded with spaces) gives the same index buffers
   and verdict as Model/Stage1.s1_buffers; and hence that parsing with either
   family gives the outcome of Model/Driver.parse_message. *)
From Coq Require Import String.
From SJ Require Import Model.Base Model.RefTables Model.Stage1 Model.Driver.
From SJ Require Import Proofs.MaskModel Proofs.MaskProofsBits Proofs.MaskProofsKernels
  Proofs.MaskProofsBlock Proofs.MaskProofsAll Proofs.MaskProofsDriver Proofs.MaskProofsFlatten
  Proofs.MaskProofsSlice.
Open Scope N_scope.

(* ------------------------------------------------------------------ *)
(* 1. one block                                                        *)

Theorem mask_block_refines_s1_run :
  forall (nd : bool) (block : bytes) (k : kstate) (p : nat),
  length block = 64%nat -> kstate_wf k ->
  let '(k', m) := mask_block nd k (map b2n block) in
  s1_run nd (abs_kstate k) p block [] = (abs_kstate k', flatten_bits p m) /\
  kstate_wf k' /\ m < two64.
Proof. exact mask_block_refines. Qed.

(* a final block of fewer than 64 bytes, padded with spaces as the kernels do
   (the scalar model does not pad): same positions, same inside-string and
   error flags; the two other flags are not observed after the last block *)
Theorem mask_block_padded_refines_s1_run :
  forall (nd : bool) (bs : bytes) (k : kstate) (p : nat),
  (length bs <= 64)%nat -> kstate_wf k ->
  let '(k', m) := mask_block nd k (take_pad cSPACE 64 (map b2n bs)) in
  let '(st', ps) := s1_run nd (abs_kstate k) p bs [] in
  flatten_bits p m = ps /\ kstate_wf k' /\
  s_instr (abs_kstate k') = s_instr st' /\ s_err (abs_kstate k') = s_err st' /\
  (length bs = 64%nat -> abs_kstate k' = st') /\ m < two64.
Proof. exact mask_block_partial. Qed.

(* every scalar state is the abstraction of a well-formed carried state *)
Theorem mask_block_refines_s1_run_any_state :
  forall (nd : bool) (block : bytes) (s : s1st) (p : nat),
  length block = 64%nat ->
  let '(k', m) := mask_block nd (conc_kstate s) (map b2n block) in
  s1_run nd s p block [] = (abs_kstate k', flatten_bits p m) /\ kstate_wf k'.
Proof. exact mask_block_refines_scalar. Qed.

Theorem carried_states_cover : forall s, kstate_wf (conc_kstate s) /\ abs_kstate (conc_kstate s) = s.
Proof. intros s. split; [apply conc_wf|apply abs_conc]. Qed.

Theorem initial_state : kstate_wf kstate_init /\ abs_kstate kstate_init = s1_init.
Proof. split; [exact kstate_init_wf|reflexivity]. Qed.

(* the intermediate masks of the individual kernels *)
Theorem mask_kernels_meaning :
  forall (nd : bool) (B : list N) (k : kstate) (i : nat),
  length B = 64%nat -> kstate_wf k -> (i < 64)%nat ->
  let m := snd (mask_block_full nd k B) in
  let st := st_at nd (abs_kstate k) B in
  tb (km_odd_ends m) i = negb (nth i B 0 =? cBSLASH) && s_bsodd (st i) /\
  tb (km_quote_bits m) i = (nth i B 0 =? cQUOTE) && negb (tb (km_odd_ends m) i) /\
  tb (km_quote_mask m) i = s_instr (st (S i)) /\
  tb (km_whitespace m) i = is_json_ws (nth i B 0) /\
  tb (km_structurals_in m) i = is_markup (nth i B 0) /\
  tb (km_structurals m) i = out_at nd (abs_kstate k) B i.
Proof. exact mask_block_full_masks. Qed.

(* the two hard kernels on their own: the addition trick computes the parity
   of backslash runs, the carry-less multiplication the running XOR *)
Theorem odd_backslash_kernel :
  forall (bs : N) (b0 : bool) (i : nat), bs < two64 ->
  tb (fst (find_odd_backslash_sequences bs (N.b2n b0))) i =
    (i <? 64)%nat && (negb (tb bs i) && par bs b0 i) /\
  snd (find_odd_backslash_sequences bs (N.b2n b0)) = N.b2n (par bs b0 64).
Proof. intros bs b0 i H. split; [apply odd_ends_bits|apply odd_ends_carry]; exact H. Qed.

Theorem prefix_xor_kernel :
  forall (a : N) (j : nat),
  tb (clmul_lo64 a ones64) j = (j <? 64)%nat && xor_upto (fun i => tb a i) (S j).
Proof. exact tb_clmul_lo64_ones. Qed.

(* ------------------------------------------------------------------ *)
(* 2. AVX2 and AVX-512 mask formation                                  *)

Theorem avx2_block_eq_avx512_block :
  forall nd k B, length B = 64%nat -> mask_block_avx2 nd k B = mask_block nd k B.
Proof. exact mask_block_avx2_eq. Qed.

(* ------------------------------------------------------------------ *)
(* 3. the whole message                                                *)

Theorem mask_all_refines_s1_all :
  forall (nd : bool) (msg : bytes),
  let '(k', L) := mask_all nd msg in
  let '(st', L') := s1_all nd msg in
  L = L' /\ kstate_wf k' /\ flags_eq (abs_kstate k') st' /\
  ((exists q, length msg = 64 * q)%nat -> abs_kstate k' = st').
Proof. exact mask_all_refines. Qed.

Theorem mask_buffers_eq_s1_buffers :
  forall fam nd msg, mask_buffers_k fam nd msg = s1_buffers nd msg.
Proof. exact mask_buffers_k_eq. Qed.

Theorem parse_with_kernels_eq_model :
  forall fam nd copy msg, parse_message_k fam nd copy msg = parse_message nd copy msg.
Proof. exact parse_message_k_eq. Qed.

(* C06 at mask level: both families give the same outcome on every input *)
Theorem C06_families_agree :
  forall nd copy msg, parse_message_k AVX512 nd copy msg = parse_message_k AVX2 nd copy msg.
Proof. exact parse_families_agree. Qed.

(* ------------------------------------------------------------------ *)
(* 4. flatten_bits_incremental (shared by both families)               *)

Theorem flatten_incremental_correct :
  forall (mask carried position : N),
  mask < two64 -> carried + 64 < two32 -> position < two64 ->
  w64 (position + 1) + carried + 64 < two64 ->
  let prev1 := N.to_nat (w64 (position + 1)) in
  let base := (prev1 + N.to_nat carried)%nat in
  let ps := flatten_bits base mask in
  let '(incs, carried', position') := flatten_bits_incremental mask carried position in
  map N.to_nat incs = fst (to_incs prev1 ps) /\
  (N.to_nat (w64 (position' + 1)) + N.to_nat carried' = base + 64)%nat /\
  (ps <> [] -> N.to_nat (w64 (position' + 1)) = snd (to_incs prev1 ps)) /\
  (ps = [] -> position' = position) /\
  position' < two64.
Proof. exact flatten_bits_incremental_spec. Qed.

(* the in-slice kernel (kernels + flatten per block) from the start of a
   message writes the increments, in the sense of Stage1.to_incs, of all the
   structural positions of the scalar model *)
Theorem slice_kernel_increments :
  forall (nd : bool) (msg : bytes),
  N.of_nat (length msg) + 128 < two32 ->
  let '(k', incs, c', pos') := mask_slice (S (length msg / 64)) nd kstate_init 0 ones64 (map b2n msg) [] in
  let '(st', L) := s1_all nd msg in
  map N.to_nat incs = fst (to_incs 0 (concat L)) /\
  N.to_nat (w64 (pos' + 1)) = snd (to_incs 0 (concat L)) /\
  kstate_wf k' /\ flags_eq (abs_kstate k') st'.
Proof. exact mask_slice_from_start. Qed.

(* ------------------------------------------------------------------ *)
(* 5. non-vacuity: concrete blocks                                     *)

Definition blk (s : string) (tail : bytes) : bytes := take_pad " "%byte 64 (list_byte_of_string s ++ tail).

(* block A ends in a run of three backslashes (odd), inside a string *)
Definition blkA : bytes :=
  blk "{""key\\"":[1,2.5,""a\""b"",true , null ], ""esc"":""xxxxxxxxxxxxxxxx\\\" [].
(* block B starts with the quote escaped by that run, then has an even run
   before a closing quote, a control character inside the next string, and
   a newline outside strings *)
Definition blkB : bytes :=
  blk """ still inside \\\\"", ""c"":""" ["001"%byte; "t"%byte; """"%byte; "}"%byte; "010"%byte; "{"%byte; "}"%byte].

Example blkA_tail : map b2n (skipn 60 blkA) = [120; 92; 92; 92]. Proof. reflexivity. Qed.
Example blkA_len : length blkA = 64%nat. Proof. reflexivity. Qed.
Example blkB_len : length blkB = 64%nat. Proof. reflexivity. Qed.

Definition kA := fst (mask_block false kstate_init (map b2n blkA)).
Definition mA := snd (mask_block false kstate_init (map b2n blkA)).

Example blkA_result :
  kA = {| k_odd := 1; k_inq := ones64; k_pred := 0; k_err := 0 |} /\
  flatten_bits 0 mA = [0; 1; 8; 9; 10; 11; 12; 15; 16; 22; 23; 28; 30; 35; 36; 38; 43; 44]%nat.
Proof. vm_compute. split; reflexivity. Qed.

Example blkA_scalar :
  s1_run false s1_init 0 blkA [] = (abs_kstate kA, flatten_bits 0 mA).
Proof. vm_compute. reflexivity. Qed.

Example kA_wf : kstate_wfb kA = true. Proof. vm_compute. reflexivity. Qed.

Definition kB nd := fst (mask_block nd kA (map b2n blkB)).
Definition mB nd := snd (mask_block nd kA (map b2n blkB)).

(* the first byte of B (a quote) is escaped: the string continues; the error
   mask becomes non-zero at the control character; with nd the newline at
   offset 31 outside strings is a structural *)
Example blkB_result :
  abs_kstate (kB false) = {| s_bsodd := false; s_instr := false; s_pred := true; s_err := true |} /\
  flatten_bits 64 (mB false) = [84; 86; 89; 90; 94; 96; 97]%nat /\
  flatten_bits 64 (mB true) = [84; 86; 89; 90; 94; 95; 96; 97]%nat /\
  k_err (kB false) <> 0.
Proof. vm_compute. repeat split; try reflexivity. discriminate. Qed.

Example blkB_scalar nd :
  s1_run nd (abs_kstate kA) 64 blkB [] = (abs_kstate (kB nd), flatten_bits 64 (mB nd)).
Proof. destruct nd; vm_compute; reflexivity. Qed.

(* both families, whole message, both modes *)
Example msgAB_families nd :
  mask_all_avx2 nd (blkA ++ blkB ++ list_byte_of_string "tail") =
  mask_all nd (blkA ++ blkB ++ list_byte_of_string "tail") /\
  snd (mask_all nd (blkA ++ blkB ++ list_byte_of_string "tail")) =
  snd (s1_all nd (blkA ++ blkB ++ list_byte_of_string "tail")).
Proof. destruct nd; vm_compute; split; reflexivity. Qed.

(* flatten_bits_incremental on block A's mask, first block of a message
   (position = 2^64-1, carried = 0) *)
Example flatten_A :
  flatten_bits_incremental mA 0 ones64 =
  ([1; 1; 7; 1; 1; 1; 1; 3; 1; 6; 1; 5; 2; 5; 1; 2; 5; 1], 19, 44).
Proof. vm_compute. reflexivity. Qed.

Example flatten_A_hyps :
  mA < two64 /\ 0 + 64 < two32 /\ ones64 < two64 /\ w64 (ones64 + 1) + 0 + 64 < two64.
Proof. vm_compute. repeat split; reflexivity. Qed.

Example slice_AB :
  let msg := blkA ++ blkB ++ list_byte_of_string "tail" in
  let '(k', incs, c', pos') := mask_slice 3 true kstate_init 0 ones64 (map b2n msg) [] in
  map N.to_nat incs = fst (to_incs 0 (concat (snd (s1_all true msg)))) /\ (c', pos') = (63, 128).
Proof. vm_compute. split; reflexivity. Qed.

Print Assumptions mask_block_refines_s1_run.
Print Assumptions mask_kernels_meaning.
Print Assumptions mask_all_refines_s1_all.
Print Assumptions parse_with_kernels_eq_model.
Print Assumptions C06_families_agree.
Print Assumptions flatten_incremental_correct.
Print Assumptions slice_kernel_increments.
