(* TapePathFun.v — index_path is functional: a tape index is the position of
   at most one abstract path.  Proved semantically: overwrite the value at the
   index with a fresh scalar; the two paths would then both describe the single
   place where the (unique) new denotation differs from the old one. *)
From SJ Require Import Model.Base Model.RefTables Spec.Json Spec.EditSpec Model.Tape
     Model.Iter Model.Walk Model.Edit.
From SJ Require Import Proofs.TapeBase Proofs.TapeSeg Proofs.TapeDen Proofs.TapePath Proofs.TapeEdit.
From Coq Require Import ZifyBool ZifyN ZifyNat.
Open Scope N_scope.

(* ------------------------------------------------------------------ *)
(* pure facts about upd / get                                          *)

Lemma upd_list_same {A} (g : A -> option A) : forall n l l2,
  upd_list n g l = Some l2 ->
  exists a y, nth_error l n = Some a /\ g a = Some y /\ nth_error l2 n = Some y /\
              length l2 = length l /\
              forall m, m <> n -> nth_error l2 m = nth_error l m.
Proof.
  induction n as [|n IH]; intros [|x l] l2 H; try discriminate H; cbn [upd_list] in H.
  - destruct (g x) as [y|] eqn:E; [|discriminate H]. injection H as <-.
    exists x, y. repeat split; auto. intros [|m] Hm; [congruence|reflexivity].
  - destruct (upd_list n g l) as [l'|] eqn:E; [|discriminate H]. injection H as <-.
    destruct (IH l l' E) as (a & y & H1 & H2 & H3 & H4 & H5).
    exists a, y. repeat split; auto; [cbn [length]; lia|].
    intros [|m] Hm; [reflexivity|]. cbn [nth_error]. apply H5. lia.
Qed.

Lemma get_upd_doc d' : forall q y y2,
  upd_doc q (fun _ => Some d') y = Some y2 -> get_doc q y2 = Some d'.
Proof.
  induction q as [|n q IH]; intros y y2 H.
  - cbn in H. injection H as <-. reflexivity.
  - cbn [upd_doc] in H. destruct y; try discriminate H.
    + destruct (upd_list n (upd_doc q (fun _ => Some d')) l) as [l2|] eqn:E; [|discriminate H].
      injection H as <-. destruct (upd_list_same _ _ _ _ E) as (a & z & _ & Hz & Hn & _).
      cbn [get_doc]. rewrite Hn. eapply IH; eauto.
    + destruct (upd_list n _ l) as [l2|] eqn:E; [|discriminate H].
      injection H as <-. destruct (upd_list_same _ _ _ _ E) as (a & z & _ & Hz & Hn & _).
      cbn [get_doc]. rewrite Hn.
      destruct (upd_doc q (fun _ => Some d') (snd a)) as [v|] eqn:Ev; [|discriminate Hz].
      injection Hz as <-. cbn [snd]. eapply IH; eauto.
Qed.

Lemma upd_doc_inj d' : is_container d' = false -> forall p p' d x x' r,
  get_doc p d = Some x -> get_doc p' d = Some x' -> d' <> x -> d' <> x' ->
  upd_doc p (fun _ => Some d') d = Some r -> upd_doc p' (fun _ => Some d') d = Some r ->
  p = p'.
Proof.
  intros Hd'. induction p as [|n q IH]; intros p' d x x' r Hg Hg' Hx Hx' Hu Hu'.
  - cbn in Hu. injection Hu as <-. destruct p' as [|n' q']; [reflexivity|].
    cbn [upd_doc] in Hu'. destruct d; try discriminate Hu'.
    + destruct (upd_list n' _ l); [|discriminate Hu']. injection Hu' as <-. discriminate Hd'.
    + destruct (upd_list n' _ l); [|discriminate Hu']. injection Hu' as <-. discriminate Hd'.
  - destruct p' as [|n' q'].
    + cbn in Hu'. injection Hu' as <-. cbn [upd_doc] in Hu. destruct d; try discriminate Hu.
      * destruct (upd_list n _ l); [|discriminate Hu]. injection Hu as <-. discriminate Hd'.
      * destruct (upd_list n _ l); [|discriminate Hu]. injection Hu as <-. discriminate Hd'.
    + cbn [upd_doc get_doc] in *. destruct d; try discriminate Hu.
      * destruct (upd_list n (upd_doc q (fun _ => Some d')) l) as [l1|] eqn:E1; [|discriminate Hu].
        destruct (upd_list n' (upd_doc q' (fun _ => Some d')) l) as [l2|] eqn:E2; [|discriminate Hu'].
        injection Hu as <-. injection Hu' as E. subst l2.
        destruct (upd_list_same _ _ _ _ E1) as (a1 & y1 & N1 & G1 & M1 & _ & O1).
        destruct (upd_list_same _ _ _ _ E2) as (a2 & y2 & N2 & G2 & M2 & _ & O2).
        rewrite N1 in Hg. rewrite N2 in Hg'.
        destruct (Nat.eq_dec n n') as [<-|Hne].
        -- rewrite N1 in N2. injection N2 as <-. rewrite M1 in M2. injection M2 as <-.
           f_equal. eapply IH; eauto.
        -- exfalso. rewrite (O2 n Hne) in M1. rewrite N1 in M1. injection M1 as <-.
           apply get_upd_doc in G1. rewrite G1 in Hg. injection Hg as <-. congruence.
      * destruct (upd_list n _ l) as [l1|] eqn:E1; [|discriminate Hu].
        destruct (upd_list n' _ l) as [l2|] eqn:E2; [|discriminate Hu'].
        injection Hu as <-. injection Hu' as E. subst l2.
        destruct (upd_list_same _ _ _ _ E1) as (a1 & y1 & N1 & G1 & M1 & _ & O1).
        destruct (upd_list_same _ _ _ _ E2) as (a2 & y2 & N2 & G2 & M2 & _ & O2).
        rewrite N1 in Hg. rewrite N2 in Hg'.
        destruct (upd_doc q (fun _ => Some d') (snd a1)) as [v1|] eqn:V1; [|discriminate G1].
        destruct (upd_doc q' (fun _ => Some d') (snd a2)) as [v2|] eqn:V2; [|discriminate G2].
        injection G1 as <-. injection G2 as <-.
        destruct (Nat.eq_dec n n') as [<-|Hne].
        -- rewrite N1 in N2. injection N2 as <-. rewrite M1 in M2. injection M2 as E.
           f_equal. subst v2. eapply IH; eauto.
        -- exfalso. rewrite (O2 n Hne) in M1. rewrite N1 in M1. injection M1 as E.
           apply get_upd_doc in V1. destruct a1 as [k0 v0]. cbn [fst snd] in *.
           injection E as ->. rewrite V1 in Hg. injection Hg as <-. congruence.
Qed.

Lemma upd_docs_inj d' : is_container d' = false -> forall p p' ds x x' r,
  get_docs p ds = Some x -> get_docs p' ds = Some x' -> d' <> x -> d' <> x' ->
  upd_docs p (fun _ => Some d') ds = Some r -> upd_docs p' (fun _ => Some d') ds = Some r ->
  p = p'.
Proof.
  intros Hd' [|n q] [|n' q'] ds x x' r Hg Hg' Hx Hx' Hu Hu'; try discriminate.
  cbn [upd_docs get_docs] in *.
  destruct (upd_list_same _ _ _ _ Hu) as (a1 & y1 & N1 & G1 & M1 & _ & O1).
  destruct (upd_list_same _ _ _ _ Hu') as (a2 & y2 & N2 & G2 & M2 & _ & O2).
  rewrite N1 in Hg. rewrite N2 in Hg'.
  destruct (Nat.eq_dec n n') as [<-|Hne].
  - rewrite N1 in N2. injection N2 as <-. rewrite M1 in M2. injection M2 as <-.
    f_equal. eapply upd_doc_inj; eauto.
  - exfalso. rewrite (O2 n Hne) in M1. rewrite N1 in M1. injection M1 as <-.
    apply get_upd_doc in G1. rewrite G1 in Hg. injection Hg as <-. congruence.
Qed.

(* ------------------------------------------------------------------ *)

Section Functional.
Variables (msg strings : bytes) (strict adj : bool).
Notation val_seg := (val_seg msg strings strict adj).
Notation roots_seg := (roots_seg msg strings strict adj).

Lemma roots_seg_det i rest l l' : roots_seg i rest l -> roots_seg i rest l' -> l = l'.
Proof.
  intros H1 H2.
  pose proof (roots_den _ _ _ _ _ _ _ H1 (S (S (length rest))) [] ltac:(left; lia)) as D1.
  pose proof (roots_den _ _ _ _ _ _ _ H2 (S (S (length rest))) [] ltac:(left; lia)) as D2.
  rewrite D1 in D2. injection D2 as ->. reflexivity.
Qed.

Lemma val_seg_len_bound i w r d : val_seg i (w :: r) d -> N.of_nat (length r) < two56.
Proof.
  intros Hv.
  destruct (val_seg_kind _ _ _ _ _ _ _ _ Hv) as (Kn & Ka & Ko & K2 & K1 & Kc).
  destruct (val_seg_head _ _ _ _ _ _ _ Hv) as (w' & r' & E & Htag). injection E as <- <-.
  destruct (val_tag_cases _ Htag) as [Ha|[[Ha Hn]|(Ha & Hn & Ho & Hnr)]].
  - rewrite Ka in Ha. rewrite (K1 Ha). reflexivity.
  - rewrite Kn in Hn. destruct (K2 Hn) as (x & ->). reflexivity.
  - rewrite Ko in Ho. specialize (Kc Ho). pose proof (word_val_lt w) as Hlt.
    rewrite Kc in Hlt. revert Hlt. nl.
Qed.

(* a scalar different from dsub that can overwrite sub *)
Lemma fresh_repl k sub dsub : val_seg k sub dsub ->
  exists sub2 d', repl_ok msg strings strict adj k sub sub2 d' /\
                  is_container d' = false /\ d' <> dsub.
Proof.
  intros Hv. destruct (val_seg_head _ _ _ _ _ _ _ Hv) as (w & r & -> & Htag).
  destruct (val_seg_kind _ _ _ _ _ _ _ _ Hv) as (_ & _ & _ & _ & K1 & _).
  destruct dsub; try (
    exists (mk_word TagNull 0 :: nop_fill (length r)), DNull; split; [|split; [reflexivity|discriminate]];
    exists [mk_word TagNull 0], (nop_fill (length r)); split; [reflexivity|]; repeat split;
    [apply vs_null; reflexivity
    |apply nop_fill_nops_seg; eapply val_seg_len_bound; exact Hv
    |cbn [app length]; rewrite nop_fill_length; reflexivity]).
  rewrite (K1 eq_refl).
  exists [mk_word TagBoolTrue 0], (DBool true). split; [|split; [reflexivity|discriminate]].
  exists [mk_word TagBoolTrue 0], []. repeat split; [apply vs_true; reflexivity|constructor].
Qed.

Theorem index_path_functional tape k p p' :
  index_path msg strings strict adj tape k p -> index_path msg strings strict adj tape k p' -> p = p'.
Proof.
  intros (a & sub & b & n & q & Et & Ek & -> & H1) (a' & sub' & b' & n' & q' & Et' & Ek' & -> & H2).
  rewrite Et in Et'. apply app_eq_len in Et'; [|revert Ek Ek'; unfold nlen; lia].
  destruct Et' as [<- Es].
  destruct (rhole_repl _ _ _ _ _ _ _ _ _ _ H1) as (ds & dsub & Hds & Hsub & Hg & Hrep).
  destruct (rhole_repl _ _ _ _ _ _ _ _ _ _ H2) as (ds' & dsub' & Hds' & Hsub' & Hg' & Hrep').
  destruct (val_seg_det _ _ _ _ _ _ _ _ _ _ _ Hsub Hsub' Es) as (<- & <- & <-).
  rewrite (roots_seg_det _ _ _ _ Hds' Hds) in *. clear Hds'.
  destruct (fresh_repl _ _ _ Hsub) as (sub2 & d' & Hok & Hc & Hne).
  destruct (Hrep sub2 d' Hok) as (r1 & Hr1 & U1).
  destruct (Hrep' sub2 d' Hok) as (r2 & Hr2 & U2).
  rewrite (roots_seg_det _ _ _ _ Hr2 Hr1) in U2.
  eapply upd_docs_inj; eauto.
Qed.

End Functional.
