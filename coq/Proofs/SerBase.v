(* SerBase.v — library for the serializer round trip: little-endian value
   words, tape-word arithmetic, tape writes, [index_string] soundness for an
   arbitrary hash, and a fuel-free, accumulator-free presentation [ser3] of
   [ser_loop]. *)
From Coq Require Import ZifyBool ZifyN ZifyNat.
From SJ Require Import Model.Base Model.RefTables Spec.Json Model.Tape Model.Iter Model.WF Model.Serialize.
From SJ Require Import Proofs.StrArith Proofs.Stage2Base Proofs.DeserSafe.
Open Scope N_scope.

(* ------------------------------------------------------------------ *)
(* bytes and little-endian words                                       *)

Lemma b2n_n2b x : b2n (n2b x) = x mod 256.
Proof.
  unfold b2n, n2b.
  assert (Hlt : x mod 256 < 256) by (apply N.mod_lt; discriminate).
  destruct (Byte.of_N (x mod 256)) as [b|] eqn:E.
  - apply Byte.to_of_N in E. exact E.
  - apply Byte.of_N_None_iff in E. lia.
Qed.

Lemma b2n_n2b_small x : x < 256 -> b2n (n2b x) = x.
Proof. intros H. rewrite b2n_n2b. apply N.mod_small. exact H. Qed.

Definition bytes_of_word (v : N) : bytes :=
  [n2b v; n2b (v / 256); n2b (v / 256 / 256); n2b (v / 256 / 256 / 256);
   n2b (v / 256 / 256 / 256 / 256); n2b (v / 256 / 256 / 256 / 256 / 256);
   n2b (v / 256 / 256 / 256 / 256 / 256 / 256); n2b (v / 256 / 256 / 256 / 256 / 256 / 256 / 256)].

Definition bytes_of_words (l : list N) : bytes := flat_map bytes_of_word l.

Lemma bytes_of_words_length l : length (bytes_of_words l) = (8 * length l)%nat.
Proof.
  induction l as [|v l IH]; [reflexivity|].
  unfold bytes_of_words in *. cbn [flat_map]. rewrite app_length, IH. cbn [bytes_of_word length]. lia.
Qed.

Lemma le_word_eq v : v < two64 ->
  v mod 256 + 256 * ((v / 256) mod 256 + 256 * ((v / 256 / 256) mod 256 + 256 * ((v / 256 / 256 / 256) mod 256 +
  256 * ((v / 256 / 256 / 256 / 256) mod 256 + 256 * ((v / 256 / 256 / 256 / 256 / 256) mod 256 +
  256 * ((v / 256 / 256 / 256 / 256 / 256 / 256) mod 256 + 256 * ((v / 256 / 256 / 256 / 256 / 256 / 256 / 256) mod 256))))))) = v.
Proof.
  intros H. unfold two64 in H.
  pose proof (N.div_mod v 256) as E0.
  pose proof (N.div_mod (v / 256) 256) as E1.
  pose proof (N.div_mod (v / 256 / 256) 256) as E2.
  pose proof (N.div_mod (v / 256 / 256 / 256) 256) as E3.
  pose proof (N.div_mod (v / 256 / 256 / 256 / 256) 256) as E4.
  pose proof (N.div_mod (v / 256 / 256 / 256 / 256 / 256) 256) as E5.
  pose proof (N.div_mod (v / 256 / 256 / 256 / 256 / 256 / 256) 256) as E6.
  pose proof (N.div_mod (v / 256 / 256 / 256 / 256 / 256 / 256 / 256) 256) as E7.
  pose proof (N.mod_lt v 256) as L0.
  pose proof (N.mod_lt (v / 256) 256) as L1.
  pose proof (N.mod_lt (v / 256 / 256) 256) as L2.
  pose proof (N.mod_lt (v / 256 / 256 / 256) 256) as L3.
  pose proof (N.mod_lt (v / 256 / 256 / 256 / 256) 256) as L4.
  pose proof (N.mod_lt (v / 256 / 256 / 256 / 256 / 256) 256) as L5.
  pose proof (N.mod_lt (v / 256 / 256 / 256 / 256 / 256 / 256) 256) as L6.
  pose proof (N.mod_lt (v / 256 / 256 / 256 / 256 / 256 / 256 / 256) 256) as L7.
  set (q1 := v / 256) in *. set (q2 := q1 / 256) in *. set (q3 := q2 / 256) in *.
  set (q4 := q3 / 256) in *. set (q5 := q4 / 256) in *. set (q6 := q5 / 256) in *.
  set (q7 := q6 / 256) in *. set (q8 := q7 / 256) in *.
  lia.
Qed.

Lemma le_words_S f b0 b1 b2 b3 b4 b5 b6 b7 r :
  le_words (S f) (b0 :: b1 :: b2 :: b3 :: b4 :: b5 :: b6 :: b7 :: r) =
  (b2n b0 + 256 * (b2n b1 + 256 * (b2n b2 + 256 * (b2n b3 + 256 * (b2n b4 + 256 * (b2n b5 + 256 * (b2n b6 + 256 * b2n b7))))))) :: le_words f r.
Proof. reflexivity. Qed.

Lemma le_words_bytes_of_words : forall l f, Forall (fun v => v < two64) l -> (length l < f)%nat ->
  le_words f (bytes_of_words l) = l.
Proof.
  induction l as [|v l IH]; intros f Hall Hf.
  - destruct f; reflexivity.
  - destruct f as [|f]; [cbn [length] in Hf; lia|].
    inversion Hall as [|? ? Hv Hl]; subst.
    unfold bytes_of_words. cbn [flat_map]. unfold bytes_of_word at 1. cbn [app].
    rewrite le_words_S. rewrite !b2n_n2b. rewrite le_word_eq by exact Hv.
    f_equal. apply IH; [exact Hl|]. cbn [length] in Hf. lia.
Qed.

Lemma le_words_bytes_of_words' l : Forall (fun v => v < two64) l ->
  le_words (S (length (bytes_of_words l))) (bytes_of_words l) = l.
Proof.
  intros H. apply le_words_bytes_of_words; [exact H|]. rewrite bytes_of_words_length. lia.
Qed.

(* ------------------------------------------------------------------ *)
(* tape words                                                          *)

Lemma word_eta w : mk_word (word_tag w) (word_val w) = w.
Proof.
  unfold mk_word, word_tag, word_val. pose proof (N.div_mod w two56). unfold two56 in *. lia.
Qed.

Lemma word_val_lt w : word_val w < two56.
Proof. unfold word_val. apply N.mod_lt. discriminate. Qed.

Lemma word_of_tag_val w t v : word_tag w = t -> word_val w = v -> w = mk_word t v.
Proof. intros <- <-. symmetry. apply word_eta. Qed.

(* ------------------------------------------------------------------ *)
(* reading and writing tape positions                                   *)

Definition get (D : list N) (p : N) : option N := nth_error D (N.to_nat p).

Lemma nth_error_upd_nth_eq {A} (f : A -> A) : forall (l : list A) i x,
  nth_error l i = Some x -> nth_error (upd_nth i f l) i = Some (f x).
Proof.
  induction l as [|y l IH]; intros [|i] x H; cbn [nth_error upd_nth] in *; try discriminate.
  - injection H as ->. reflexivity.
  - apply IH. exact H.
Qed.

Lemma nth_error_upd_nth_ne {A} (f : A -> A) : forall (l : list A) i j,
  i <> j -> nth_error (upd_nth i f l) j = nth_error l j.
Proof.
  induction l as [|y l IH]; intros [|i] [|j] H; cbn [nth_error upd_nth]; try reflexivity; try congruence.
  apply IH. congruence.
Qed.

Lemma get_set_eq D p w : p < N.of_nat (length D) -> get (tape_set D p w) p = Some w.
Proof.
  intros H. unfold get, tape_set.
  destruct (nth_error D (N.to_nat p)) as [x|] eqn:E.
  - apply (nth_error_upd_nth_eq (fun _ => w)) in E. exact E.
  - apply nth_error_None in E. lia.
Qed.

Lemma get_set_ne D p q w : p <> q -> get (tape_set D p w) q = get D q.
Proof. intros H. unfold get, tape_set. apply nth_error_upd_nth_ne. lia. Qed.

Lemma get_lt D p w : get D p = Some w -> p < N.of_nat (length D).
Proof.
  unfold get. intros H.
  assert (nth_error D (N.to_nat p) <> None) as Hn by congruence.
  apply nth_error_Some in Hn. lia.
Qed.

Lemma skipn_get D p w : get D p = Some w ->
  skipn (N.to_nat p) D = w :: skipn (N.to_nat (p + 1)) D.
Proof.
  unfold get. replace (N.to_nat (p + 1)) with (S (N.to_nat p)) by lia.
  generalize (N.to_nat p) as n. clear p.
  induction D as [|x D IH]; intros [|n] H; cbn [nth_error] in H; try discriminate.
  - injection H as ->. reflexivity.
  - cbn [skipn]. apply IH. exact H.
Qed.

(* ------------------------------------------------------------------ *)
(* NOP runs                                                            *)

(* a run of k NOPs as Deserialize writes it: payloads k, k-1, ..., 1 *)
Fixpoint nrun (k : nat) : list N :=
  match k with O => [] | S k' => mk_word TagNop (N.of_nat k) :: nrun k' end.

Lemma nrun_length k : length (nrun k) = k.
Proof. induction k as [|k IH]; [reflexivity|]. cbn [nrun length]. rewrite IH. reflexivity. Qed.

Lemma flush_nops_spec : forall k D off, off + N.of_nat k <= N.of_nat (length D) ->
  let D' := fst (flush_nops k D off (N.of_nat k)) in
  (forall p, p < off \/ off + N.of_nat k <= p -> get D' p = get D p) /\
  (forall j, (j < k)%nat -> get D' (off + N.of_nat j) = Some (mk_word TagNop (N.of_nat (k - j)))).
Proof.
  induction k as [|k IH]; intros D off Hb.
  - cbn [flush_nops fst]. split; [reflexivity|]. intros j Hj. lia.
  - cbv zeta. rewrite flush_nops_S.
    replace (N.of_nat (S k) =? 0) with false by lia.
    replace (N.of_nat (S k) - 1) with (N.of_nat k) by lia.
    specialize (IH (tape_set D off (mk_word TagNop (N.of_nat (S k)))) (off + 1)).
    rewrite tape_set_length in IH. specialize (IH ltac:(lia)). cbv zeta in IH.
    destruct IH as [IH1 IH2]. split.
    + intros p Hp. rewrite IH1 by lia. apply get_set_ne. lia.
    + intros j Hj. destruct j as [|j].
      * rewrite N.add_0_r. rewrite IH1 by lia. rewrite get_set_eq by lia. f_equal.
      * replace (off + N.of_nat (S j)) with (off + 1 + N.of_nat j) by lia.
        rewrite IH2 by lia. reflexivity.
Qed.

Lemma skipn_nrun : forall k D off,
  (forall j, (j < k)%nat -> get D (off + N.of_nat j) = Some (mk_word TagNop (N.of_nat (k - j)))) ->
  skipn (N.to_nat off) D = nrun k ++ skipn (N.to_nat (off + N.of_nat k)) D.
Proof.
  induction k as [|k IH]; intros D off H.
  - cbn [nrun app]. rewrite N.add_0_r. reflexivity.
  - pose proof (H O ltac:(lia)) as H0. rewrite N.add_0_r in H0.
    rewrite (skipn_get _ _ _ H0). cbn [nrun app]. f_equal.
    rewrite (IH D (off + 1)).
    + f_equal. f_equal. lia.
    + intros j Hj. specialize (H (S j) ltac:(lia)).
      replace (off + 1 + N.of_nat j) with (off + N.of_nat (S j)) by lia. rewrite H. reflexivity.
Qed.

(* ------------------------------------------------------------------ *)
(* strings                                                             *)

Lemma bytes_eqb_true : forall a b, bytes_eqb a b = true -> a = b.
Proof.
  unfold bytes_eqb. induction a as [|x a IH]; intros [|y b] H; try reflexivity; cbn [length] in H; try (cbn in H; discriminate).
  apply andb_true_iff in H. destruct H as [Hl Hf]. cbn [combine forallb fst snd] in Hf.
  apply andb_true_iff in Hf. destruct Hf as [Hxy Hf].
  unfold beq in Hxy. apply Byte.byte_dec_bl in Hxy. subst y. f_equal.
  apply IH. rewrite Hf, andb_true_r. apply Nat.eqb_eq in Hl. apply Nat.eqb_eq. lia.
Qed.

Lemma slice_length l o n s : slice l o n = Some s -> N.of_nat (length s) = n /\ o + n <= N.of_nat (length l).
Proof.
  unfold slice. destruct (o + n <=? N.of_nat (length l)) eqn:E; [|discriminate].
  intros H. injection H as <-. rewrite firstn_length, skipn_length. lia.
Qed.

Lemma slice_app l ext o n s : slice l o n = Some s -> slice (l ++ ext) o n = Some s.
Proof.
  unfold slice. destruct (o + n <=? N.of_nat (length l)) eqn:E; [|discriminate].
  intros H. injection H as <-. rewrite app_length.
  replace (o + n <=? N.of_nat (length l + length ext)) with true by lia.
  f_equal. rewrite skipn_app, firstn_app.
  replace (N.to_nat n - length (skipn (N.to_nat o) l))%nat with O by (rewrite skipn_length; lia).
  rewrite firstn_O, app_nil_r. reflexivity.
Qed.

(* stringByteAt (Iter.v) and string_at (Tape.v) agree *)
Lemma string_byte_at_string_at pj cur len :
  match string_at (pj_msg pj) (pj_strings pj) cur len with
  | Some s => string_byte_at pj cur len = Ok s
  | None => string_byte_at pj cur len = Err
  end.
Proof.
  unfold string_at, string_byte_at, slice.
  destruct (N.land cur STRINGBUFBIT =? 0).
  - destruct (cur + len <=? N.of_nat (length (pj_msg pj))) eqn:E.
    + replace ((N.of_nat (length (pj_msg pj)) <? len) || (N.of_nat (length (pj_msg pj)) - len <? cur)) with false by lia.
      reflexivity.
    + replace ((N.of_nat (length (pj_msg pj)) <? len) || (N.of_nat (length (pj_msg pj)) - len <? cur)) with true by lia.
      reflexivity.
  - destruct (N.land cur STRINGBUFMASK + len <=? N.of_nat (length (pj_strings pj))) eqn:E.
    + replace ((N.of_nat (length (pj_strings pj)) <? len) || (N.of_nat (length (pj_strings pj)) - len <? N.land cur STRINGBUFMASK)) with false by lia.
      reflexivity.
    + replace ((N.of_nat (length (pj_strings pj)) <? len) || (N.of_nat (length (pj_strings pj)) - len <? N.land cur STRINGBUFMASK)) with true by lia.
      reflexivity.
Qed.

Lemma str_ok_string_at pj cur len :
  str_ok (N.of_nat (length (pj_msg pj))) (N.of_nat (length (pj_strings pj))) cur len = true ->
  exists s, string_at (pj_msg pj) (pj_strings pj) cur len = Some s.
Proof.
  unfold str_ok, string_at, slice. destruct (N.land cur STRINGBUFBIT =? 0); intros H; rewrite H; eauto.
Qed.

(* ------------------------------------------------------------------ *)
(* index_string for an arbitrary hash                                   *)

Section Idx.
Variable hash : bytes -> N.

Definition idx (sb : bytes) (tbl : list (N * N)) (s : bytes) : bytes * list (N * N) * N :=
  let h := hash s mod stringSize in
  let slot := table_get tbl h in
  let len := N.of_nat (length s) in
  let blen := N.of_nat (length sb) in
  let hit :=
    if (slot =? 0) then false
    else
      let off := slot - 1 in
      if off + len <=? blen
      then bytes_eqb (firstn (N.to_nat len) (skipn (N.to_nat off) sb)) s
      else false in
  if hit then (sb, tbl, slot - 1)
  else (sb ++ s, (h, w32 (blen + 1)) :: tbl, blen).

Lemma index_string_idx st s :
  index_string hash st s =
  let '(sb', tbl', o) := idx (ss_strbuf st) (ss_table st) s in
  ({| ss_tags := ss_tags st; ss_vals := ss_vals st; ss_strbuf := sb'; ss_table := tbl' |}, o).
Proof.
  unfold index_string, idx. destruct st as [tg vl sb tbl]. cbn [ss_tags ss_vals ss_strbuf ss_table].
  match goal with |- context [if ?c then (_, _) else _] => destruct c end; reflexivity.
Qed.

(* soundness: whatever the hash, the returned offset addresses the string,
   and the buffer only grows *)
Lemma idx_sound sb tbl s sb' tbl' o :
  idx sb tbl s = (sb', tbl', o) ->
  (exists ext, sb' = sb ++ ext) /\ slice sb' o (N.of_nat (length s)) = Some s.
Proof.
  unfold idx.
  set (slot := table_get tbl (hash s mod stringSize)).
  destruct (slot =? 0) eqn:E0.
  - intros H. injection H as <- <- <-. split; [eauto|].
    replace (sb ++ s) with (sb ++ s ++ []) by (rewrite app_nil_r; reflexivity).
    apply slice_mid.
  - destruct (slot - 1 + N.of_nat (length s) <=? N.of_nat (length sb)) eqn:E1.
    + destruct (bytes_eqb (firstn (N.to_nat (N.of_nat (length s))) (skipn (N.to_nat (slot - 1)) sb)) s) eqn:E2.
      * intros H. injection H as <- <- <-. split; [exists []; rewrite app_nil_r; reflexivity|].
        apply bytes_eqb_true in E2. unfold slice. rewrite E1. f_equal. exact E2.
      * intros H. injection H as <- <- <-. split; [eauto|].
        replace (sb ++ s) with (sb ++ s ++ []) by (rewrite app_nil_r; reflexivity).
        apply slice_mid.
    + intros H. injection H as <- <- <-. split; [eauto|].
      replace (sb ++ s) with (sb ++ s ++ []) by (rewrite app_nil_r; reflexivity).
      apply slice_mid.
Qed.

(* ------------------------------------------------------------------ *)
(* ser3: Serialize's loop by structural recursion, output in order      *)

Variable pj : pjson.

Definition emit (tg : bytes) (vl : list N) (o : outcome (bytes * list N * bytes)) : outcome (bytes * list N * bytes) :=
  match o with
  | Ok (tags, vals, sbF) => Ok (tg ++ tags, vl ++ vals, sbF)
  | Err => Err | Crash => Crash | OutOfFuel => OutOfFuel
  end.

Fixpoint ser3 (off : N) (rest : list N) (sb : bytes) (tbl : list (N * N)) {struct rest} : outcome (bytes * list N * bytes) :=
  match rest with
  | [] => Ok ([], [], sb)
  | entry :: r =>
    let t := word_tag entry in
    let payload := word_val entry in
    if t =? TagNop then emit [n2b t] [] (ser3 (off + 1) r sb tbl)
    else if t =? TagString then
      match r with
      | len :: r' =>
        match string_byte_at pj payload len with
        | Ok s =>
          let '(sb1, tbl1, o) := idx sb tbl s in
          emit [n2b t] [o; N.of_nat (length s)] (ser3 (off + 2) r' sb1 tbl1)
        | Err => Crash
        | Crash => Crash
        | OutOfFuel => OutOfFuel
        end
      | [] => Crash
      end
    else if (t =? TagUint) || (t =? TagInteger) then
      match r with
      | v :: r' => emit [n2b t] [v] (ser3 (off + 2) r' sb tbl)
      | [] => Crash
      end
    else if t =? TagFloat then
      match r with
      | v :: r' =>
        if payload =? 0 then emit [n2b t] [v] (ser3 (off + 2) r' sb tbl)
        else emit [n2b tagFloatWithFlag] [entry; v] (ser3 (off + 2) r' sb tbl)
      | [] => Crash
      end
    else if (t =? TagNull) || (t =? TagBoolTrue) || (t =? TagBoolFalse) then
      emit [n2b t] [] (ser3 (off + 1) r sb tbl)
    else if (t =? TagObjectStart) || (t =? TagArrayStart) || (t =? TagRoot) then
      emit [n2b t] [w64 (payload + two64 - off)] (ser3 (off + 1) r sb tbl)
    else if (t =? TagObjectEnd) || (t =? TagArrayEnd) || (t =? TagEnd) then
      emit [n2b t] [] (ser3 (off + 1) r sb tbl)
    else Crash
  end.

Definition proj_st (o : outcome ser_st) : outcome (bytes * list N * bytes) :=
  match o with
  | Ok st => Ok (ss_tags st, ss_vals st, ss_strbuf st)
  | Err => Err | Crash => Crash | OutOfFuel => OutOfFuel
  end.

Definition acc_out (tg0 : bytes) (vl0 : list N) (o : outcome (bytes * list N * bytes)) : outcome (bytes * list N * bytes) :=
  match o with
  | Ok (tags, vals, sbF) => Ok (rev tags ++ tg0, rev vals ++ vl0, sbF)
  | Err => Err | Crash => Crash | OutOfFuel => OutOfFuel
  end.

Lemma acc_out_emit tg vl tg0 vl0 o :
  acc_out tg0 vl0 (emit tg vl o) = acc_out (rev tg ++ tg0) (rev vl ++ vl0) o.
Proof.
  destruct o as [[[a b] c]| | |]; cbn [emit acc_out]; try reflexivity.
  rewrite !rev_app_distr, <- !app_assoc. reflexivity.
Qed.

Lemma ser_loop_S f off entry r st :
  ser_loop hash (S f) pj off (entry :: r) st =
      let t := word_tag entry in
      let payload := word_val entry in
      if t =? TagNop then ser_loop hash f pj (off + 1) r (push_tag st t)
      else if t =? TagString then
        match r with
        | len :: r' =>
          match string_byte_at pj payload len with
          | Ok sb =>
            let '(st1, o) := index_string hash st sb in
            ser_loop hash f pj (off + 2) r' (push_tag (push_val (push_val st1 o) (N.of_nat (length sb))) t)
          | Err => Crash
          | Crash => Crash
          | OutOfFuel => OutOfFuel
          end
        | [] => Crash
        end
      else if (t =? TagUint) || (t =? TagInteger) then
        match r with
        | v :: r' => ser_loop hash f pj (off + 2) r' (push_tag (push_val st v) t)
        | [] => Crash
        end
      else if t =? TagFloat then
        match r with
        | v :: r' =>
          if payload =? 0 then ser_loop hash f pj (off + 2) r' (push_tag (push_val st v) t)
          else ser_loop hash f pj (off + 2) r' (push_tag (push_val (push_val st entry) v) tagFloatWithFlag)
        | [] => Crash
        end
      else if (t =? TagNull) || (t =? TagBoolTrue) || (t =? TagBoolFalse) then
        ser_loop hash f pj (off + 1) r (push_tag st t)
      else if (t =? TagObjectStart) || (t =? TagArrayStart) || (t =? TagRoot) then
        ser_loop hash f pj (off + 1) r (push_tag (push_val st (w64 (payload + two64 - off))) t)
      else if (t =? TagObjectEnd) || (t =? TagArrayEnd) || (t =? TagEnd) then
        ser_loop hash f pj (off + 1) r (push_tag st t)
      else Crash.
Proof. reflexivity. Qed.

Lemma ser3_cons off entry r sb tbl :
  ser3 off (entry :: r) sb tbl =
    let t := word_tag entry in
    let payload := word_val entry in
    if t =? TagNop then emit [n2b t] [] (ser3 (off + 1) r sb tbl)
    else if t =? TagString then
      match r with
      | len :: r' =>
        match string_byte_at pj payload len with
        | Ok s =>
          let '(sb1, tbl1, o) := idx sb tbl s in
          emit [n2b t] [o; N.of_nat (length s)] (ser3 (off + 2) r' sb1 tbl1)
        | Err => Crash
        | Crash => Crash
        | OutOfFuel => OutOfFuel
        end
      | [] => Crash
      end
    else if (t =? TagUint) || (t =? TagInteger) then
      match r with
      | v :: r' => emit [n2b t] [v] (ser3 (off + 2) r' sb tbl)
      | [] => Crash
      end
    else if t =? TagFloat then
      match r with
      | v :: r' =>
        if payload =? 0 then emit [n2b t] [v] (ser3 (off + 2) r' sb tbl)
        else emit [n2b tagFloatWithFlag] [entry; v] (ser3 (off + 2) r' sb tbl)
      | [] => Crash
      end
    else if (t =? TagNull) || (t =? TagBoolTrue) || (t =? TagBoolFalse) then
      emit [n2b t] [] (ser3 (off + 1) r sb tbl)
    else if (t =? TagObjectStart) || (t =? TagArrayStart) || (t =? TagRoot) then
      emit [n2b t] [w64 (payload + two64 - off)] (ser3 (off + 1) r sb tbl)
    else if (t =? TagObjectEnd) || (t =? TagArrayEnd) || (t =? TagEnd) then
      emit [n2b t] [] (ser3 (off + 1) r sb tbl)
    else Crash.
Proof. destruct r; reflexivity. Qed.

Lemma ser_loop_ser3 : forall f off rest st, (length rest < f)%nat ->
  proj_st (ser_loop hash f pj off rest st) =
  acc_out (ss_tags st) (ss_vals st) (ser3 off rest (ss_strbuf st) (ss_table st)).
Proof.
  induction f as [|f IH]; intros off rest st Hf; [lia|].
  destruct rest as [|entry r]; [reflexivity|].
  rewrite ser_loop_S, ser3_cons. cbv zeta.
  cbn [length] in Hf.
  destruct (word_tag entry =? TagNop).
  { rewrite acc_out_emit, IH by lia. reflexivity. }
  destruct (word_tag entry =? TagString).
  { destruct r as [|len r']; [reflexivity|].
    destruct (string_byte_at pj (word_val entry) len) as [s| | |]; try reflexivity.
    rewrite index_string_idx.
    destruct (idx (ss_strbuf st) (ss_table st) s) as [[sb1 tbl1] o].
    rewrite acc_out_emit, IH by (cbn [length] in Hf; lia). reflexivity. }
  destruct ((word_tag entry =? TagUint) || (word_tag entry =? TagInteger)).
  { destruct r as [|v r']; [reflexivity|].
    rewrite acc_out_emit, IH by (cbn [length] in Hf; lia). reflexivity. }
  destruct (word_tag entry =? TagFloat).
  { destruct r as [|v r']; [reflexivity|].
    destruct (word_val entry =? 0); rewrite acc_out_emit, IH by (cbn [length] in Hf; lia); reflexivity. }
  destruct ((word_tag entry =? TagNull) || (word_tag entry =? TagBoolTrue) || (word_tag entry =? TagBoolFalse)).
  { rewrite acc_out_emit, IH by lia. reflexivity. }
  destruct ((word_tag entry =? TagObjectStart) || (word_tag entry =? TagArrayStart) || (word_tag entry =? TagRoot)).
  { rewrite acc_out_emit, IH by lia. reflexivity. }
  destruct ((word_tag entry =? TagObjectEnd) || (word_tag entry =? TagArrayEnd) || (word_tag entry =? TagEnd)).
  { rewrite acc_out_emit, IH by lia. reflexivity. }
  reflexivity.
Qed.

Lemma ser_core_ser3 : ser_core hash pj = ser3 0 (pj_tape pj) [] [].
Proof.
  unfold ser_core.
  pose proof (ser_loop_ser3 (S (length (pj_tape pj))) 0 (pj_tape pj)
                {| ss_tags := []; ss_vals := []; ss_strbuf := []; ss_table := [] |} ltac:(lia)) as H.
  cbn [ss_tags ss_vals ss_strbuf ss_table] in H.
  destruct (ser_loop hash _ pj 0 (pj_tape pj) _) as [st| | |];
    destruct (ser3 0 (pj_tape pj) [] []) as [[[a b] c]| | |]; cbn [proj_st acc_out] in H; try discriminate; try reflexivity.
  injection H as H1 H2 H3. rewrite H1, H2, H3, !app_nil_r, !rev_involutive. reflexivity.
Qed.

(* the string buffer only grows *)
Lemma ser3_prefix : forall rest off sb tbl tg vl sbF,
  ser3 off rest sb tbl = Ok (tg, vl, sbF) -> exists ext, sbF = sb ++ ext.
Proof.
  intros rest. remember (length rest) as n eqn:Hn.
  revert rest Hn. induction n as [n IHn] using lt_wf_ind.
  intros rest Hn off sb tbl tg vl sbF.
  destruct rest as [|entry r].
  { cbn [ser3]. intros H. injection H as _ _ <-. exists []. rewrite app_nil_r. reflexivity. }
  rewrite ser3_cons. cbv zeta. cbn [length] in Hn.
  assert (Hemit : forall tg1 vl1 off1 r1 sb1 tbl1,
    (length r1 < n)%nat -> (exists e, sb1 = sb ++ e) ->
    emit tg1 vl1 (ser3 off1 r1 sb1 tbl1) = Ok (tg, vl, sbF) -> exists ext, sbF = sb ++ ext).
  { intros tg1 vl1 off1 r1 sb1 tbl1 Hl [e He] H.
    destruct (ser3 off1 r1 sb1 tbl1) as [[[a b] c]| | |] eqn:E; cbn [emit] in H; try discriminate.
    injection H as _ _ <-.
    destruct (IHn (length r1) Hl r1 eq_refl _ _ _ _ _ _ E) as [e2 He2].
    exists (e ++ e2). rewrite He2, He, app_assoc. reflexivity. }
  assert (Hsb : exists e, sb = sb ++ e) by (exists []; rewrite app_nil_r; reflexivity).
  destruct (word_tag entry =? TagNop); [apply Hemit; [lia|exact Hsb]|].
  destruct (word_tag entry =? TagString).
  { destruct r as [|len r']; [discriminate|].
    destruct (string_byte_at pj (word_val entry) len) as [s| | |]; try discriminate.
    destruct (idx sb tbl s) as [[sb1 tbl1] o] eqn:Ei.
    apply Hemit; [cbn [length] in Hn; lia|].
    destruct (idx_sound _ _ _ _ _ _ Ei) as [He _]. exact He. }
  destruct ((word_tag entry =? TagUint) || (word_tag entry =? TagInteger)).
  { destruct r as [|v r']; [discriminate|]. apply Hemit; [cbn [length] in Hn; lia|exact Hsb]. }
  destruct (word_tag entry =? TagFloat).
  { destruct r as [|v r']; [discriminate|].
    destruct (word_val entry =? 0); apply Hemit; try exact Hsb; cbn [length] in Hn; lia. }
  destruct ((word_tag entry =? TagNull) || (word_tag entry =? TagBoolTrue) || (word_tag entry =? TagBoolFalse));
    [apply Hemit; [lia|exact Hsb]|].
  destruct ((word_tag entry =? TagObjectStart) || (word_tag entry =? TagArrayStart) || (word_tag entry =? TagRoot));
    [apply Hemit; [lia|exact Hsb]|].
  destruct ((word_tag entry =? TagObjectEnd) || (word_tag entry =? TagArrayEnd) || (word_tag entry =? TagEnd));
    [apply Hemit; [lia|exact Hsb]|].
  discriminate.
Qed.

End Idx.
