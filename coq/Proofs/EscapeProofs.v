(* EscapeProofs.v — property C10, string part: the model of escapeBytes
   (Model.Marshal.escape_bytes) produces a JSON string body that the
   specification's decoder (Spec.Json.spec_string) reads back to exactly the
   original bytes; the body contains no raw control character, quote or
   backslash outside the escapes it emits. *)
From Coq Require Import ZifyBool ZifyN ZifyNat.
From SJ Require Import Model.Base Model.RefTables Spec.Json Model.Marshal
  Model.Stage1 Proofs.StrArith Proofs.StrProofs Proofs.Stage1Proofs.
Open Scope N_scope.

(* ------------------------------------------------------------------ *)
(* escape_byte, case by case                                            *)

Definition needs_escape (b : byte) : bool :=
  (b2n b <? 32) || (b2n b =? 34) || (b2n b =? 92).

Lemma escape_byte_plain b : needs_escape b = false -> escape_byte b = [b].
Proof.
  unfold needs_escape, escape_byte, shouldEscape_ref. intros H. rewrite H. reflexivity.
Qed.

(* the seven two-character escapes and \u00XX (lowercase hex) *)
Definition escape_ref (b : byte) : bytes :=
  let c := b2n b in
  if c =? 8 then [x5c; x62]          (* \b *)
  else if c =? 12 then [x5c; x66]    (* \f *)
  else if c =? 10 then [x5c; x6e]    (* \n *)
  else if c =? 13 then [x5c; x72]    (* \r *)
  else if c =? 34 then [x5c; x22]    (* backslash quote *)
  else if c =? 9 then [x5c; x74]     (* \t *)
  else if c =? 92 then [x5c; x5c]    (* \\ *)
  else if c <? 32 then [x5c; x75; x30; x30; hexdigit (c / 16); hexdigit (c mod 16)]
  else [b].

Theorem escape_byte_ref b : escape_byte b = escape_ref b.
Proof. destruct b; vm_compute; reflexivity. Qed.

Lemma escape_byte_head b :
  needs_escape b = true -> exists tl, escape_byte b = x5c :: tl /\ tl <> [].
Proof.
  destruct b; intros H; vm_compute in H; try discriminate H;
    (eexists; split; [vm_compute; reflexivity | discriminate]).
Qed.

Lemma escape_byte_len b : (1 <= length (escape_byte b) <= 6)%nat.
Proof. destruct b; vm_compute; split; repeat constructor. Qed.

(* \u00XY decodes to the byte: the hex digits written are the byte's *)
Theorem hex4_escape_roundtrip b :
  hex4_spec x30 x30 (n2b (valToHex_ref (b2n b / 16))) (n2b (valToHex_ref (b2n b mod 16)))
  = Some (b2n b).
Proof. destruct b; vm_compute; reflexivity. Qed.

(* the specification, reading one escape produced by escape_byte, appends
   exactly that byte *)
Lemma spec_step_esc b :
  needs_escape b = true ->
  forall f t acc, spec_string (S f) (escape_byte b ++ t) acc = spec_string f t (b :: acc).
Proof.
  destruct b; intros H; vm_compute in H; try discriminate H; intros f t acc; reflexivity.
Qed.

Lemma spec_step_ascii b f t acc :
  needs_escape b = false -> b2n b < 128 ->
  spec_string (S f) (b :: t) acc = spec_string f t (b :: acc).
Proof.
  unfold needs_escape. intros H Hlt. cbn [spec_string]. unfold cQUOTE, cBSLASH.
  replace (b2n b =? 34) with false by lia.
  replace (b2n b <? 32) with false by lia.
  replace (b2n b =? 92) with false by lia.
  replace (b2n b <? 128) with true by lia. reflexivity.
Qed.

Lemma spec_step_high b f t acc :
  128 <= b2n b ->
  spec_string (S f) (b :: t) acc =
  match utf8_seq_len (b :: t) with
  | Some n => spec_string f (skipn n (b :: t)) (rev (firstn n (b :: t)) ++ acc)
  | None => SOut
  end.
Proof.
  intros Hge. cbn [spec_string]. unfold cQUOTE, cBSLASH.
  replace (b2n b =? 34) with false by lia.
  replace (b2n b <? 32) with false by lia.
  replace (b2n b =? 92) with false by lia.
  replace (b2n b <? 128) with false by lia. reflexivity.
Qed.

(* ------------------------------------------------------------------ *)
(* escape_bytes: list facts                                             *)

Lemma escape_bytes_cons b s : escape_bytes (b :: s) = escape_byte b ++ escape_bytes s.
Proof. reflexivity. Qed.

Lemma escape_bytes_app s t : escape_bytes (s ++ t) = escape_bytes s ++ escape_bytes t.
Proof. apply flat_map_app. Qed.

Lemma escape_bytes_len_ge s : (length s <= length (escape_bytes s))%nat.
Proof.
  induction s as [|b s IH]; [apply le_n|].
  rewrite escape_bytes_cons, app_length. pose proof (escape_byte_len b). cbn [length]. lia.
Qed.

Lemma escape_bytes_high s :
  Forall (fun b => 128 <= b2n b) s -> escape_bytes s = s.
Proof.
  induction 1 as [|b s Hb Hs IH]; [reflexivity|].
  rewrite escape_bytes_cons, IH, escape_byte_plain; [reflexivity|].
  unfold needs_escape. lia.
Qed.

(* bytes >= 0x80 at the front of the escaped text are bytes of the source *)
Lemma esc_high_prefix : forall n s t,
  (n <= length (escape_bytes s ++ x22 :: t))%nat ->
  Forall (fun b => 128 <= b2n b) (firstn n (escape_bytes s ++ x22 :: t)) ->
  (n <= length s)%nat /\
  firstn n (escape_bytes s ++ x22 :: t) = firstn n s /\
  skipn n (escape_bytes s ++ x22 :: t) = escape_bytes (skipn n s) ++ x22 :: t.
Proof.
  induction n as [|n IH]; intros s t Hlen Hall.
  { split; [lia|]. split; reflexivity. }
  destruct s as [|b s].
  { exfalso. cbn [escape_bytes flat_map app firstn] in Hall.
    inversion Hall as [|? ? Hq _]; subst. vm_compute in Hq. apply Hq. reflexivity. }
  destruct (needs_escape b) eqn:Eb.
  { exfalso. destruct (escape_byte_head b Eb) as (tl & Etl & _).
    rewrite escape_bytes_cons, Etl in Hall. cbn [app firstn] in Hall.
    inversion Hall as [|? ? Hq _]; subst. vm_compute in Hq. apply Hq. reflexivity. }
  rewrite escape_bytes_cons, (escape_byte_plain b Eb) in *. cbn [app firstn skipn length] in *.
  inversion Hall as [|? ? Hb Hall']; subst.
  destruct (IH s t ltac:(lia) Hall') as (H1 & H2 & H3).
  split; [lia|]. split; [f_equal; exact H2|exact H3].
Qed.

Lemma utf8_seq_len_ge2 s n : utf8_seq_len s = Some n -> (2 <= n)%nat.
Proof.
  unfold utf8_seq_len. cbv zeta. intros H.
  repeat match type of H with
  | (if ?c then _ else _) = _ => destruct c
  | match ?r with [] => _ | _ :: _ => _ end = _ => destruct r
  end; try discriminate H; injection H as <-; lia.
Qed.

(* utf8_seq_len only looks at the bytes of the sequence it recognises *)
Lemma utf8_seq_len_local s n t :
  utf8_seq_len s = Some n -> utf8_seq_len (firstn n s ++ t) = Some n.
Proof.
  unfold utf8_seq_len. cbv zeta. intros H.
  repeat match type of H with
  | (if ?c then _ else _) = _ => destruct c eqn:?
  | match ?r with [] => _ | _ :: _ => _ end = _ => destruct r
  end; try discriminate H; injection H as <-; cbn [firstn app];
  repeat match goal with E : ?c = _ |- context[?c] => rewrite E end; reflexivity.
Qed.

(* ------------------------------------------------------------------ *)
(* the round trip                                                       *)

Lemma escape_unescape_gen : forall fuel s rest acc,
  (length (escape_bytes s) < fuel)%nat ->
  spec_string fuel (escape_bytes s ++ x22 :: rest) acc = SOk (rev acc ++ s, rest) \/
  spec_string fuel (escape_bytes s ++ x22 :: rest) acc = SOut.
Proof.
  induction fuel as [|f IH]; intros s rest acc Hf; [lia|].
  destruct s as [|b s].
  { left. cbn [escape_bytes flat_map app spec_string]. rewrite app_nil_r. reflexivity. }
  rewrite escape_bytes_cons in *. rewrite <- app_assoc.
  rewrite app_length in Hf. pose proof (escape_byte_len b) as Hl.
  assert (Hcons : rev (b :: acc) ++ s = rev acc ++ b :: s).
  { cbn [rev]. rewrite <- app_assoc. reflexivity. }
  destruct (needs_escape b) eqn:Eb.
  { rewrite spec_step_esc by exact Eb. rewrite <- Hcons. apply IH. lia. }
  assert (Hlen : length (escape_bytes (b :: s)) = S (length (escape_bytes s))).
  { rewrite escape_bytes_cons, (escape_byte_plain b Eb). reflexivity. }
  rewrite (escape_byte_plain b Eb) in Hf |- *. cbn [app length] in Hf |- *.
  destruct (N.ltb_spec (b2n b) 128) as [Hlt|Hge].
  { rewrite spec_step_ascii by assumption. rewrite <- Hcons. apply IH. lia. }
  rewrite spec_step_high by exact Hge.
  assert (Htxt : b :: escape_bytes s ++ x22 :: rest = escape_bytes (b :: s) ++ x22 :: rest).
  { rewrite escape_bytes_cons, (escape_byte_plain b Eb). reflexivity. }
  rewrite Htxt.
  destruct (utf8_seq_len (escape_bytes (b :: s) ++ x22 :: rest)) as [n|] eqn:Eu; [|right; reflexivity].
  pose proof (utf8_seq_len_ge2 _ _ Eu) as Hn2.
  apply utf8_seq_len_lit in Eu. destruct Eu as [Hn Hall].
  destruct (esc_high_prefix n (b :: s) rest Hn Hall) as (Hns & Hfi & Hsk).
  rewrite Hfi, Hsk.
  replace (rev acc ++ b :: s) with (rev (rev (firstn n (b :: s)) ++ acc) ++ skipn n (b :: s)).
  2:{ rewrite rev_app_distr, rev_involutive, <- app_assoc, firstn_skipn. reflexivity. }
  apply IH.
  pose proof (escape_bytes_len_ge (firstn n (b :: s))) as Hge'.
  rewrite firstn_length_le in Hge' by exact Hns.
  rewrite <- (firstn_skipn n (b :: s)), escape_bytes_app, app_length in Hlen. lia.
Qed.

(* C10, strings: whatever the bytes, the specification reads the escaped
   text back to the same bytes, or places the text outside the claim (SOut:
   ill-formed UTF-8 in the bytes themselves); never SInvalid, never another
   string *)
Theorem escape_unescape : forall (s rest : bytes) fuel,
  (length (escape_bytes s) < fuel)%nat ->
  spec_string fuel (escape_bytes s ++ x22 :: rest) [] = SOk (s, rest) \/
  spec_string fuel (escape_bytes s ++ x22 :: rest) [] = SOut.
Proof. intros s rest fuel H. exact (escape_unescape_gen fuel s rest [] H). Qed.

(* well-formed UTF-8, consumed the way spec_string does *)
Fixpoint utf8_ok_aux (fuel : nat) (s : bytes) : bool :=
  match s with
  | [] => true
  | b :: r =>
    match fuel with
    | O => false
    | S f =>
      if b2n b <? 128 then utf8_ok_aux f r
      else match utf8_seq_len s with
           | Some n => utf8_ok_aux f (skipn n s)
           | None => false
           end
    end
  end.
Definition utf8_ok (s : bytes) : bool := utf8_ok_aux (length s) s.

Lemma escape_unescape_ok_gen : forall fuel g s rest acc,
  utf8_ok_aux g s = true ->
  (length (escape_bytes s) < fuel)%nat ->
  spec_string fuel (escape_bytes s ++ x22 :: rest) acc = SOk (rev acc ++ s, rest).
Proof.
  induction fuel as [|f IH]; intros g s rest acc Hok Hf; [lia|].
  destruct s as [|b s].
  { cbn [escape_bytes flat_map app spec_string]. rewrite app_nil_r. reflexivity. }
  destruct g as [|g]; [discriminate Hok|]. cbn [utf8_ok_aux] in Hok.
  rewrite escape_bytes_cons in *. rewrite <- app_assoc.
  rewrite app_length in Hf. pose proof (escape_byte_len b) as Hl.
  assert (Hcons : rev (b :: acc) ++ s = rev acc ++ b :: s).
  { cbn [rev]. rewrite <- app_assoc. reflexivity. }
  destruct (N.ltb_spec (b2n b) 128) as [Hlt|Hge].
  { destruct (needs_escape b) eqn:Eb.
    - rewrite spec_step_esc by exact Eb. rewrite <- Hcons. apply (IH g); [exact Hok|lia].
    - rewrite (escape_byte_plain b Eb) in *. cbn [app length] in *.
      rewrite spec_step_ascii by assumption. rewrite <- Hcons. apply (IH g); [exact Hok|lia]. }
  assert (Eb : needs_escape b = false) by (unfold needs_escape; lia).
  rewrite (escape_byte_plain b Eb) in *. cbn [app length] in *.
  destruct (utf8_seq_len (b :: s)) as [n|] eqn:Eu; [|discriminate Hok].
  pose proof (utf8_seq_len_ge2 _ _ Eu) as Hn2.
  pose proof (utf8_seq_len_lit _ _ Eu) as [Hn Hall].
  assert (Hsplit : b :: escape_bytes s = firstn n (b :: s) ++ escape_bytes (skipn n (b :: s))).
  { rewrite <- (escape_bytes_high _ Hall), <- escape_bytes_app, firstn_skipn.
    rewrite escape_bytes_cons, (escape_byte_plain b Eb). reflexivity. }
  rewrite spec_step_high by exact Hge.
  change (b :: escape_bytes s ++ x22 :: rest) with ((b :: escape_bytes s) ++ x22 :: rest).
  rewrite Hsplit, <- app_assoc.
  rewrite (utf8_seq_len_local _ _ _ Eu).
  rewrite firstn_app, firstn_firstn, Nat.min_id, firstn_length_le, Nat.sub_diag by exact Hn.
  cbn [firstn]. rewrite app_nil_r.
  rewrite skipn_firstn_app by exact Hn.
  replace (rev acc ++ b :: s) with (rev (rev (firstn n (b :: s)) ++ acc) ++ skipn n (b :: s)).
  2:{ rewrite rev_app_distr, rev_involutive, <- app_assoc, firstn_skipn. reflexivity. }
  apply (IH g); [exact Hok|].
  apply (f_equal (@length byte)) in Hsplit. rewrite app_length, firstn_length_le in Hsplit by exact Hn.
  cbn [length] in Hsplit. lia.
Qed.

(* C10, strings, for well-formed UTF-8: byte-equal *)
Theorem escape_unescape_utf8 : forall (s rest : bytes) fuel,
  utf8_ok s = true ->
  (length (escape_bytes s) < fuel)%nat ->
  spec_string fuel (escape_bytes s ++ x22 :: rest) [] = SOk (s, rest).
Proof. intros s rest fuel Hok H. exact (escape_unescape_ok_gen fuel _ s rest [] Hok H). Qed.

(* and the converse of the SOut alternative: SOut arises only from ill-formed UTF-8 *)
Corollary escape_unescape_out : forall (s rest : bytes) fuel,
  (length (escape_bytes s) < fuel)%nat ->
  spec_string fuel (escape_bytes s ++ x22 :: rest) [] = SOut -> utf8_ok s = false.
Proof.
  intros s rest fuel Hf Ho. destruct (utf8_ok s) eqn:E; [|reflexivity].
  rewrite (escape_unescape_utf8 s rest fuel E Hf) in Ho. discriminate Ho.
Qed.

(* quote_str: the complete literal, as spec_value would meet it *)
Corollary quote_str_roundtrip : forall (s rest : bytes),
  utf8_ok s = true ->
  exists body, quote_str s ++ rest = x22 :: body /\
    spec_string (S (length (escape_bytes s))) body [] = SOk (s, rest).
Proof.
  intros s rest Hok. exists (escape_bytes s ++ x22 :: rest). split.
  - unfold quote_str. change (n2b 34) with x22. cbn [app]. rewrite <- app_assoc. reflexivity.
  - apply escape_unescape_utf8; [exact Hok|lia].
Qed.

(* ... and as a JSON value for the specification *)
Lemma spec_value_quote f t :
  spec_value (S f) (x22 :: t) =
  match spec_string f t [] with
  | SOk (str, r') => SOk (DStr str, r')
  | SInvalid => SInvalid | SOut => SOut | SFuel => SFuel
  end.
Proof. reflexivity. Qed.

Theorem spec_value_quote_str s rest f :
  utf8_ok s = true -> (length (escape_bytes s) < f)%nat ->
  spec_value (S f) (quote_str s ++ rest) = SOk (DStr s, rest).
Proof.
  intros Hok Hf. unfold quote_str. change (n2b 34) with x22. cbn [app]. rewrite <- app_assoc. cbn [app].
  rewrite spec_value_quote, (escape_unescape_utf8 s rest f Hok Hf). reflexivity.
Qed.

(* ------------------------------------------------------------------ *)
(* shape of the escaped text                                            *)

Definition is_lower_hex (b : byte) : bool :=
  is_digit (b2n b) || ((97 <=? b2n b) && (b2n b <=? 102)).

(* a sequence of: plain bytes (>= 0x20, neither quote nor backslash),
   two-character escapes (backslash + b f n r quote t backslash) and \u00XY with lowercase hex *)
Inductive esc_text : bytes -> Prop :=
| ET_nil : esc_text []
| ET_lit b t : 32 <= b2n b -> b2n b <> 34 -> b2n b <> 92 -> esc_text t -> esc_text (b :: t)
| ET_two e t : In e [x62; x66; x6e; x72; x22; x74; x5c] -> esc_text t -> esc_text (x5c :: e :: t)
| ET_u h l t : is_lower_hex h = true -> is_lower_hex l = true -> esc_text t ->
               esc_text (x5c :: x75 :: x30 :: x30 :: h :: l :: t).

Lemma esc_text_byte b t : esc_text t -> esc_text (escape_byte b ++ t).
Proof.
  intros Ht. destruct (needs_escape b) eqn:Eb.
  - destruct b; vm_compute in Eb; try discriminate Eb;
      match goal with
      | |- esc_text (escape_byte ?x ++ _) =>
        let r := eval vm_compute in (escape_byte x) in change (escape_byte x) with r
      end; cbn [app];
      first [ apply ET_u; [reflexivity|reflexivity|exact Ht]
            | apply ET_two; [cbn [In]; tauto|exact Ht] ].
  - rewrite (escape_byte_plain b Eb). cbn [app]. unfold needs_escape in Eb.
    apply ET_lit; [lia|lia|lia|exact Ht].
Qed.

Theorem escape_bytes_shape s : esc_text (escape_bytes s).
Proof.
  induction s as [|b s IH]; [constructor|]. rewrite escape_bytes_cons. apply esc_text_byte. exact IH.
Qed.

(* no raw control character anywhere *)
Lemma esc_text_no_ctrl t : esc_text t -> Forall (fun b => 32 <= b2n b) t.
Proof.
  induction 1 as [|b t H1 H2 H3 Ht IH|e t He Ht IH|h l t Hh Hl Ht IH].
  - constructor.
  - constructor; assumption.
  - constructor; [vm_compute; discriminate|]. constructor; [|exact IH].
    cbn [In] in He. repeat (destruct He as [<-|He]; [vm_compute; discriminate|]). destruct He.
  - unfold is_lower_hex, is_digit, c0, c9 in Hh, Hl.
    repeat (constructor; [first [vm_compute; discriminate|lia]|]). exact IH.
Qed.

Corollary escape_bytes_no_ctrl s : Forall (fun b => 32 <= b2n b) (escape_bytes s).
Proof. apply esc_text_no_ctrl, escape_bytes_shape. Qed.

(* in the words of the string kernel's byte-level relation (StrProofs.dec_rel:
   literal bytes other than quote and backslash, and well-formed escape
   tokens): the escaped text decodes to the source, for EVERY byte string.
   With str_loop_correct this is what the stage-2 string kernel computes. *)
Lemma esc_tok_escape b t :
  needs_escape b = true ->
  esc_tok (escape_byte b ++ t) = TOk (length (escape_byte b)) [b].
Proof.
  destruct b; intros H; vm_compute in H; try discriminate H; reflexivity.
Qed.

Theorem escape_dec_rel s : dec_rel (escape_bytes s) s.
Proof.
  induction s as [|b s IH]; [constructor|]. rewrite escape_bytes_cons.
  destruct (needs_escape b) eqn:Eb.
  - change (b :: s) with ([b] ++ s).
    apply DEsc with (n := length (escape_byte b)).
    + destruct (escape_byte_head b Eb) as (tl & -> & _). reflexivity.
    + apply esc_tok_escape. exact Eb.
    + rewrite skipn_app, skipn_all, Nat.sub_diag. exact IH.
  - rewrite (escape_byte_plain b Eb). cbn [app]. unfold needs_escape in Eb.
    apply DLit; [lia|lia|exact IH].
Qed.

(* stage 1 sees the quoted text as ONE string literal, whatever the bytes:
   the only structural position it reports is the opening quote, and it is
   back outside strings right after the closing quote *)
Theorem quote_str_stage1 s pr p r :
  s1_fold false (OutS pr) p (quote_str s ++ r) =
  consp p (s1_fold false (OutS true) (p + length (escape_bytes s) + 2) r).
Proof.
  unfold quote_str. change (n2b 34) with x22. cbn [app]. rewrite <- app_assoc. cbn [app].
  apply (fold_string (escape_bytes s) s).
  - apply escape_dec_rel.
  - eapply Forall_impl; [|apply escape_bytes_no_ctrl]. cbn beta. intros a Ha. lia.
Qed.

(* ------------------------------------------------------------------ *)
(* examples                                                             *)

Example escape_ex1 :
  escape_bytes [x61; x22; x5c; x0a; x01; x1f; xc3; xa9; x7f]
  = [x61; x5c; x22; x5c; x5c; x5c; x6e; x5c; x75; x30; x30; x30; x31;
     x5c; x75; x30; x30; x31; x66; xc3; xa9; x7f].
Proof. vm_compute. reflexivity. Qed.

Example escape_ex2 :
  spec_string 30 (escape_bytes [x61; x22; x5c; x0a; x01; x1f; xc3; xa9; x7f] ++ [x22; x2c]) []
  = SOk ([x61; x22; x5c; x0a; x01; x1f; xc3; xa9; x7f], [x2c]).
Proof. vm_compute. reflexivity. Qed.

(* a lone continuation byte: not UTF-8, the specification answers SOut *)
Example escape_ex3 : spec_string 30 (escape_bytes [x61; x80] ++ [x22]) [] = SOut.
Proof. vm_compute. reflexivity. Qed.
Example escape_ex4 : utf8_ok [x61; x80] = false.
Proof. vm_compute. reflexivity. Qed.

Print Assumptions escape_unescape.
Print Assumptions escape_unescape_utf8.
Print Assumptions spec_value_quote_str.
Print Assumptions escape_bytes_shape.
Print Assumptions escape_dec_rel.
Print Assumptions quote_str_stage1.
Print Assumptions hex4_escape_roundtrip.
