(* TapeLocal.v — locality of the abstraction function at the SAME fuel:
   the computation on seg ++ tail is the computation on seg ++ rest'. *)
From SJ Require Import Model.Base Model.RefTables Spec.Json Model.Tape.
From SJ Require Import Proofs.TapeBase Proofs.TapeSeg Proofs.TapeDen.
From Coq Require Import ZifyBool ZifyN ZifyNat.
Open Scope N_scope.

Lemma skip_nops_ge f : forall i rest i' rest',
  skip_nops f i rest = Some (i', rest') -> i <= i'.
Proof.
  induction f as [|f IH]; intros i rest i' rest' H; [discriminate H|].
  rewrite skip_nops_S in H. destruct rest as [|w r].
  - injection H as <- _. lia.
  - destruct (word_tag w =? TagNop).
    + cbv zeta in H. destruct (word_val w =? 0); [discriminate H|]. apply IH in H. lia.
    + injection H as <- _. lia.
Qed.

Lemma skipn_app_le {A} (a b : list A) k : (k <= length a)%nat -> skipn k (a ++ b) = skipn k a ++ b.
Proof.
  intros H. rewrite skipn_app. replace (k - length a)%nat with 0%nat by lia. reflexivity.
Qed.

Lemma head_not_nop_app (a b c : list N) : a <> [] -> head_not_nop (a ++ b) -> head_not_nop (a ++ c).
Proof. destruct a; [congruence|]. cbn. auto. Qed.

(* skipping: the NOP prefix n is consumed in the same way whatever follows *)
Lemma skip_nops_local f : forall i n X Y,
  skip_nops f i (n ++ X) = Some (i + nlen n, X) -> X <> [] -> head_not_nop Y ->
  skip_nops f i (n ++ Y) = Some (i + nlen n, Y).
Proof.
  induction f as [|f IH]; intros i n X Y H HX HY; [discriminate H|].
  rewrite skip_nops_S in H. rewrite skip_nops_S.
  destruct n as [|w n'].
  - cbn [app] in *. destruct Y as [|y Y']; [rewrite nlen_nil, N.add_0_r; reflexivity|].
    cbn in HY. replace (word_tag y =? TagNop) with false by (symmetry; apply N.eqb_neq; exact HY).
    rewrite nlen_nil, N.add_0_r. reflexivity.
  - cbn [app] in *. destruct (word_tag w =? TagNop) eqn:Et.
    + cbv zeta in *. destruct (word_val w =? 0) eqn:E0; [discriminate H|].
      pose proof (skip_nops_ge _ _ _ _ _ H) as Hge.
      assert (Hk : (N.to_nat (word_val w) <= length (w :: n'))%nat) by (revert Hge; nl).
      change (w :: n' ++ X) with ((w :: n') ++ X) in H.
      change (w :: n' ++ Y) with ((w :: n') ++ Y).
      rewrite skipn_app_le in H by exact Hk. rewrite skipn_app_le by exact Hk.
      assert (Hl : nlen (skipn (N.to_nat (word_val w)) (w :: n')) = nlen (w :: n') - word_val w).
      { unfold nlen. rewrite skipn_length. lia. }
      replace (i + nlen (w :: n')) with (i + word_val w + nlen (skipn (N.to_nat (word_val w)) (w :: n')))
        in H |- * by (rewrite Hl; revert Hk; nl).
      apply IH with (X := X); assumption.
    + injection H as Hi _. exfalso. revert Hi. nl.
Qed.

Section Local.
Variables (msg strings : bytes).
Notation den_value := (den_value msg strings).
Notation den_elems := (den_elems msg strings).
Notation den_members := (den_members msg strings).

(* split a successful skip inside seg ++ rest' *)
Lemma skip_inside f i seg rest' i' r1 j :
  skip_nops f i (seg ++ rest') = Some (i', r1) -> r1 <> [] -> i' < j -> j = i + nlen seg ->
  exists n seg1, seg = n ++ seg1 /\ r1 = seg1 ++ rest' /\ seg1 <> [] /\ i' = i + nlen n /\
    forall tail, skip_nops f i (n ++ seg1 ++ tail) = Some (i', seg1 ++ tail).
Proof.
  intros H Hne Hlt Hj.
  destruct (skip_nops_seg f _ _ _ _ H Hne) as (n & E & -> & Hn & Hhd).
  assert (Hln : (length n < length seg)%nat) by (revert Hlt Hj; nl).
  exists n, (skipn (length n) seg).
  assert (Es : seg = n ++ skipn (length n) seg).
  { rewrite <- (firstn_skipn (length n) seg) at 1. f_equal.
    apply (f_equal (firstn (length n))) in E.
    rewrite firstn_app in E. replace (length n - length seg)%nat with 0%nat in E by lia.
    cbn [firstn] in E. rewrite app_nil_r in E. rewrite E. apply firstn_app_exact. reflexivity. }
  assert (Er : r1 = skipn (length n) seg ++ rest').
  { rewrite Es in E at 1. rewrite <- app_assoc in E. apply app_inv_head in E. symmetry. exact E. }
  assert (Hs1 : skipn (length n) seg <> []).
  { intros E0. apply (f_equal (@length N)) in E0. rewrite skipn_length in E0. cbn in E0. lia. }
  split; [exact Es|]. split; [exact Er|]. split; [exact Hs1|]. split; [reflexivity|].
  intros tail. apply skip_nops_local with (X := r1); auto.
  - rewrite <- E. exact H.
  - subst r1. eapply head_not_nop_app; eauto.
Qed.

Lemma den_local f :
  (forall i seg rest' d j, den_value f i (seg ++ rest') = Some (d, j, rest') -> j = i + nlen seg ->
     forall tail, den_value f i (seg ++ tail) = Some (d, j, tail)) /\
  (forall i seg rest' acc l j, den_elems f i (seg ++ rest') acc = Some (l, j, rest') -> j = i + nlen seg ->
     forall tail, den_elems f i (seg ++ tail) acc = Some (l, j, tail)) /\
  (forall i seg rest' acc l j, den_members f i (seg ++ rest') acc = Some (l, j, rest') -> j = i + nlen seg ->
     forall tail, den_members f i (seg ++ tail) acc = Some (l, j, tail)).
Proof.
  induction f as [|f (IHv & IHe & IHm)].
  - repeat split; intros; discriminate.
  - repeat split.
    + (* value *)
      intros i seg rest' d j H Hj tail.
      pose proof (proj1 (den_seg msg strings (S f)) _ _ _ _ _ H) as (v & Ev & Ejv & Hv).
      assert (seg = v).
      { apply app_eq_len in Ev; [tauto|]. revert Hj Ejv. nl. }
      subst v. clear Ev Ejv.
      rewrite den_value_S in H. rewrite den_value_S. cbv zeta in *.
      destruct seg as [|w r]; [inversion Hv|]. cbn [app] in *.
      destruct (word_tag w =? TagString) eqn:Es.
      { inversion Hv; subst; try (match goal with Ht : word_tag w = _ |- _ => rewrite Ht in Es; discriminate Es end).
        cbn [app] in *. destruct (string_at msg strings (word_val w) len); [|discriminate H].
        inversion H; subst; reflexivity. }
      destruct (word_tag w =? TagInteger) eqn:Ei.
      { inversion Hv; subst; try (match goal with Ht : word_tag w = _ |- _ => rewrite Ht in Ei; discriminate Ei end);
          try (match goal with Ht : word_tag w = _ |- _ => rewrite Ht in Es; discriminate Es end).
        cbn [app] in *. inversion H; subst; reflexivity. }
      destruct (word_tag w =? TagUint) eqn:Eu.
      { inversion Hv; subst; try (match goal with Ht : word_tag w = _ |- _ =>
            first [rewrite Ht in Eu; discriminate Eu | rewrite Ht in Ei; discriminate Ei | rewrite Ht in Es; discriminate Es] end).
        cbn [app] in *. inversion H; subst; reflexivity. }
      destruct (word_tag w =? TagFloat) eqn:Ef.
      { inversion Hv; subst; try (match goal with Ht : word_tag w = _ |- _ =>
            first [rewrite Ht in Ef; discriminate Ef | rewrite Ht in Eu; discriminate Eu
                  | rewrite Ht in Ei; discriminate Ei | rewrite Ht in Es; discriminate Es] end).
        cbn [app] in *. inversion H; subst; reflexivity. }
      destruct (word_tag w =? TagNull) eqn:En.
      { injection H as <- <- E. f_equal. f_equal.
        assert (r = []).
        { destruct r; [reflexivity|]. exfalso. revert Hj. nl. }
        subst r. reflexivity. }
      destruct (word_tag w =? TagBoolTrue) eqn:Et.
      { injection H as <- <- E. f_equal. f_equal.
        assert (r = []).
        { destruct r; [reflexivity|]. exfalso. revert Hj. nl. }
        subst r. reflexivity. }
      destruct (word_tag w =? TagBoolFalse) eqn:Efa.
      { injection H as <- <- E. f_equal. f_equal.
        assert (r = []).
        { destruct r; [reflexivity|]. exfalso. revert Hj. nl. }
        subst r. reflexivity. }
      destruct (word_tag w =? TagArrayStart) eqn:Ea.
      { dmatch H. destruct p as [[l j0] r'].
        destruct (j0 =? word_val w) eqn:Ejw; [|discriminate H]. injection H as <- Ej Er.
        subst j0 r'.
        rewrite (IHe (i + 1) r rest' [] l j E) by (revert Hj; nl).
        rewrite Ejw. reflexivity. }
      destruct (word_tag w =? TagObjectStart) eqn:Eo; [|discriminate H].
      { dmatch H. destruct p as [[l j0] r'].
        destruct (j0 =? word_val w) eqn:Ejw; [|discriminate H]. injection H as <- Ej Er.
        subst j0 r'.
        rewrite (IHm (i + 1) r rest' [] l j E) by (revert Hj; nl).
        rewrite Ejw. reflexivity. }
    + (* elems *)
      intros i seg rest' acc l j H Hj tail.
      pose proof (proj1 (proj2 (den_seg msg strings (S f))) _ _ _ _ _ _ H)
        as (b0 & e0 & l0 & Eb & Ejb & _ & _ & _).
      rewrite den_elems_S in H. rewrite den_elems_S.
      dmatch H. destruct p as [i' r1]. destruct r1 as [|w r]; [discriminate H|].
      assert (Hlt : i' < j).
      { destruct (word_tag w =? TagArrayEnd).
        - injection H as _ <- _. lia.
        - dmatch H. destruct p as [[d j0] r'].
          apply (proj1 (den_seg msg strings f)) in E0. destruct E0 as (v & _ & -> & Hv).
          pose proof (val_seg_nonempty _ _ _ _ _ _ _ Hv).
          apply (proj1 (proj2 (den_seg msg strings f))) in H.
          destruct H as (b1 & e1 & l1 & _ & -> & _). nl. }
      destruct (skip_inside f i seg rest' i' (w :: r) j E ltac:(discriminate) Hlt Hj)
        as (n & seg1 & -> & Er & Hs1 & -> & Hskip).
      rewrite <- app_assoc. rewrite Hskip.
      destruct seg1 as [|w1 seg2]; [congruence|]. cbn [app] in Er. injection Er as <- ->.
      cbn [app].
      destruct (word_tag w =? TagArrayEnd) eqn:Ee.
      { injection H as <- Ej Er.
        assert (seg2 = []).
        { destruct seg2; [reflexivity|]. exfalso. revert Hj Ej. nl. }
        subst seg2. rewrite Ej. reflexivity. }
      dmatch H. destruct p as [[d j0] r'].
      pose proof (proj1 (den_seg msg strings f) _ _ _ _ _ E0) as (v & Ev & Ej0 & Hv).
      pose proof (proj1 (proj2 (den_seg msg strings f)) _ _ _ _ _ _ H)
        as (b1 & e1 & l1 & Er' & Ej1 & _ & _ & _).
      assert (Esplit : w :: seg2 = v ++ b1 ++ [e1]).
      { subst r'. change (w :: seg2 ++ rest') with ((w :: seg2) ++ rest') in Ev.
        replace (v ++ b1 ++ e1 :: rest') with ((v ++ b1 ++ [e1]) ++ rest') in Ev by leq.
        apply app_inv_tail in Ev. exact Ev. }
      change (w :: seg2 ++ tail) with ((w :: seg2) ++ tail). rewrite Esplit.
      change (w :: seg2 ++ rest') with ((w :: seg2) ++ rest') in E0. rewrite Esplit in E0.
      rewrite <- app_assoc in E0. rewrite <- app_assoc.
      assert (Er2 : r' = (b1 ++ [e1]) ++ rest') by (rewrite Er'; leq).
      rewrite Er2 in E0, H. rewrite <- app_assoc in E0.
      rewrite (IHv _ v ((b1 ++ [e1]) ++ rest') d j0) with (tail := (b1 ++ [e1]) ++ tail).
      * apply (IHe j0 (b1 ++ [e1]) rest' (d :: acc) l j H). revert Ej1. nl.
      * rewrite <- app_assoc. exact E0.
      * exact Ej0.
    + (* members *)
      intros i seg rest' acc l j H Hj tail.
      rewrite den_members_S in H. rewrite den_members_S.
      dmatch H. destruct p as [i' r1]. destruct r1 as [|w r]; [discriminate H|].
      assert (Hlt : i' < j).
      { destruct (word_tag w =? TagObjectEnd).
        - injection H as _ <- _. lia.
        - destruct (word_tag w =? TagString); [|discriminate H].
          destruct r as [|len r1]; [discriminate H|].
          destruct (string_at msg strings (word_val w) len); [|discriminate H].
          dmatch H. destruct p as [i2 r2]. pose proof (skip_nops_ge _ _ _ _ _ E0).
          dmatch H. destruct p as [[d j0] r'].
          apply (proj1 (den_seg msg strings f)) in E1. destruct E1 as (v & _ & -> & Hv).
          apply (proj2 (proj2 (den_seg msg strings f))) in H.
          destruct H as (b1 & e1 & l1 & _ & -> & _). nl. }
      destruct (skip_inside f i seg rest' i' (w :: r) j E ltac:(discriminate) Hlt Hj)
        as (n & seg1 & -> & Er & Hs1 & -> & Hskip).
      rewrite <- app_assoc. rewrite Hskip.
      destruct seg1 as [|w1 seg2]; [congruence|]. cbn [app] in Er. injection Er as <- ->.
      cbn [app].
      destruct (word_tag w =? TagObjectEnd) eqn:Ee.
      { injection H as <- Ej Er.
        assert (seg2 = []).
        { destruct seg2; [reflexivity|]. exfalso. revert Hj Ej. nl. }
        subst seg2. rewrite Ej. reflexivity. }
      destruct (word_tag w =? TagString) eqn:Es; [|discriminate H].
      (* the length word is inside seg: the value and the end word follow *)
      destruct seg2 as [|len seg3].
      { exfalso. cbn [app] in H. destruct rest' as [|len r1]; [discriminate H|].
        destruct (string_at msg strings (word_val w) len); [|discriminate H].
        dmatch H. destruct p as [i2 r2]. pose proof (skip_nops_ge _ _ _ _ _ E0).
        dmatch H. destruct p as [[d j0] r'].
        apply (proj1 (den_seg msg strings f)) in E1. destruct E1 as (v & _ & -> & Hv).
        apply (proj2 (proj2 (den_seg msg strings f))) in H.
        destruct H as (b1 & e1 & l1 & _ & Ej & _). revert Hj Ej. nl. }
      cbn [app] in *.
      destruct (string_at msg strings (word_val w) len) as [k|]; [|discriminate H].
      dmatch H. destruct p as [i2 r2].
      dmatch H. destruct p as [[d j0] r'].
      pose proof (proj1 (den_seg msg strings f) _ _ _ _ _ E1) as (v & Ev & Ej0 & Hv).
      pose proof (val_seg_nonempty _ _ _ _ _ _ _ Hv) as Hvne.
      pose proof (proj2 (proj2 (den_seg msg strings f)) _ _ _ _ _ _ H)
        as (b1 & e1 & l1 & Er' & Ej1 & _ & _ & _).
      assert (Hlt2 : i2 < j) by (revert Ej0 Ej1 Hvne; nl).
      assert (Hr2 : r2 <> []) by (rewrite Ev; destruct v; [cbn in Hvne; lia|discriminate]).
      destruct (skip_inside f (i + nlen n + 2) seg3 rest' i2 r2 j E0 Hr2 Hlt2 ltac:(revert Hj; nl))
        as (n2 & seg4 & -> & Er2 & Hs4 & -> & Hskip2).
      rewrite <- app_assoc. rewrite Hskip2.
      assert (Esplit : seg4 = v ++ b1 ++ [e1]).
      { rewrite Er2, Er' in Ev.
        replace (v ++ b1 ++ e1 :: rest') with ((v ++ b1 ++ [e1]) ++ rest') in Ev by leq.
        apply app_inv_tail in Ev. exact Ev. }
      subst seg4. clear Ev. subst r2.
      assert (Er3 : r' = (b1 ++ [e1]) ++ rest') by (rewrite Er'; leq).
      rewrite Er3 in E1, H.
      replace ((v ++ b1 ++ [e1]) ++ tail) with (v ++ (b1 ++ [e1]) ++ tail) by leq.
      replace ((v ++ b1 ++ [e1]) ++ rest') with (v ++ (b1 ++ [e1]) ++ rest') in E1 by leq.
      rewrite (IHv _ v ((b1 ++ [e1]) ++ rest') d j0 E1 Ej0 ((b1 ++ [e1]) ++ tail)).
      apply (IHm j0 (b1 ++ [e1]) rest' ((k, d) :: acc) l j H). revert Ej1. nl.
Qed.

(* B, sharpest form: same fuel, any tail *)
Theorem den_value_same_fuel f i rest d j rest' :
  den_value f i rest = Some (d, j, rest') ->
  exists seg, rest = seg ++ rest' /\ j = i + nlen seg /\
    forall tail, den_value f i (seg ++ tail) = Some (d, j, tail).
Proof.
  intros H. pose proof (proj1 (den_seg msg strings f) _ _ _ _ _ H) as (v & -> & -> & _).
  exists v. split; [reflexivity|]. split; [reflexivity|].
  intros tail. apply (proj1 (den_local f) _ _ _ _ _ H). reflexivity.
Qed.

End Local.
