(* SerExamples.v — the serializer round trip evaluated on concrete tapes
   (vm_compute), for several hash functions, with and without NOP runs, and
   through the blob framing; plus the fuel counterexample for [denote]. *)
From Coq Require Import ZifyBool ZifyN ZifyNat.
From SJ Require Import Model.Base Model.RefTables Spec.Json Model.Tape Model.Iter Model.WF Model.Serialize Model.Oracle Model.Oracle3 Model.Driver.
From SJ Require Import Proofs.SerBase Proofs.SerFraming Proofs.SerProofs.
From Coq Require Strings.String.
Import String.StringSyntax.
Local Open Scope string_scope.
Open Scope N_scope.

Definition pj_of_json (s : String.string) : pjson :=
  match parse_model true (lit s) with
  | Ok p => {| pj_tape := p_tape p; pj_strings := p_strings p; pj_msg := p_msg p |}
  | _ => {| pj_tape := []; pj_strings := []; pj_msg := [] |}
  end.

Definition pj1 : pjson := pj_of_json "[1,{""a"":""x"",""b"":[true,null,""x""]},2.5,-0.0]".

(* overwrite k words from position i with a NOP run (payloads k, ..., 1) *)
Fixpoint put_run (T : list N) (i k : nat) : list N :=
  match k with
  | O => T
  | S k' => put_run (upd_nth i (fun _ => mk_word TagNop (N.of_nat k)) T) (S i) k'
  end.

(* [true] and [null] deleted one after the other (two adjacent one-word runs),
   2.5 deleted (one two-word run) *)
Definition pj2 : pjson :=
  {| pj_tape := put_run (put_run (put_run (pj_tape pj1) 12 1) 13 1) 18 2;
     pj_strings := pj_strings pj1; pj_msg := pj_msg pj1 |}.

(* Serialize with [hash], Deserialize, compare the denotations *)
Definition rt_check (hash : bytes -> N) (pj : pjson) : bool :=
  match ser_core hash pj with
  | Ok (tags, vals, strbuf) =>
    match deser_core (repeat 0 (length (pj_tape pj))) tags (bytes_of_words vals) with
    | Ok t' =>
      match denote strbuf [] t', denote (pj_msg pj) (pj_strings pj) (pj_tape pj) with
      | Some a, Some b => bytes_eqb (show_docs a) (show_docs b) && wf_check true pj
      | _, _ => false
      end
    | _ => false
    end
  | _ => false
  end.

Example rt_pj1 :
  (rt_check toy_hash pj1, rt_check (fun _ => 0) pj1, rt_check (fun b => N.of_nat (length b)) pj1) = (true, true, true).
Proof. vm_compute. reflexivity. Qed.

Example rt_pj2 : (rt_check toy_hash pj2, rt_check (fun _ => 0) pj2) = (true, true).
Proof. vm_compute. reflexivity. Qed.

(* without NOPs the tape comes back except for the string words *)
Example rt_pj1_tape :
  match ser_core toy_hash pj1 with
  | Ok (tags, vals, strbuf) =>
    deser_core (repeat 0 (length (pj_tape pj1))) tags (bytes_of_words vals) =
    Ok (map (fun w => if (word_tag w =? TagString) && (STRINGBUFBIT <=? word_val w)
                      then mk_word TagString (match word_val w - STRINGBUFBIT with 3 => 1 | o => o end) else w) (pj_tape pj1))
    /\ strbuf = lit "axb"
  | _ => False
  end.
Proof. vm_compute. split; reflexivity. Qed.

(* adjacent NOP runs are merged: positions 12,13 hold payloads 1,1 before and 2,1 after *)
Example rt_pj2_nops :
  match ser_core toy_hash pj2 with
  | Ok (tags, vals, strbuf) =>
    match deser_core (repeat 0 (length (pj_tape pj2))) tags (bytes_of_words vals) with
    | Ok t' => (map word_val (firstn 2 (skipn 12 (pj_tape pj2))), map word_val (firstn 2 (skipn 12 t'))) = ([1; 1], [2; 1])
    | _ => False
    end
  | _ => False
  end.
Proof. vm_compute. reflexivity. Qed.

(* through the framing *)
Example rt_pj2_blob :
  match ser_core toy_hash pj2 with
  | Ok (tags, vals, strbuf) =>
    match deser_blob (raw_blob (N.of_nat (length (pj_tape pj2))) [] strbuf tags (bytes_of_words vals)) with
    | DOk t' s m => s = [] /\ m = strbuf /\ denote m s t' = denote (pj_msg pj2) (pj_strings pj2) (pj_tape pj2)
    | _ => False
    end
  | _ => False
  end.
Proof. vm_compute. repeat split; reflexivity. Qed.

Example uvarint_examples :
  (put_uvarint 0, put_uvarint 300, uvarint (put_uvarint 18446744073709551615 ++ [x2a]))
  = ([x00], [xac; x02], Some (18446744073709551615, [x2a])).
Proof. vm_compute. reflexivity. Qed.

(* FINDING: the planned equality [denote strbuf [] t' = denote msg strings tape]
   fails on a tape made of NOP runs only: it is well-formed (wf_check true),
   Deserialize merges the two runs, and [denote] exhausts its fuel on the
   original (None) but not on the rebuilt tape (Some []). *)
Example roundtrip_equality_counterexample :
  let pj := {| pj_tape := [mk_word TagNop 1; mk_word TagNop 1]; pj_strings := []; pj_msg := [] |} in
  wf_check true pj = true /\
  match ser_core toy_hash pj with
  | Ok (tags, vals, strbuf) =>
    match deser_core (repeat 0 (length (pj_tape pj))) tags (bytes_of_words vals) with
    | Ok t' => t' = [mk_word TagNop 2; mk_word TagNop 1] /\ denote strbuf [] t' = Some [] /\
               denote (pj_msg pj) (pj_strings pj) (pj_tape pj) = None
    | _ => False
    end
  | _ => False
  end.
Proof. vm_compute. repeat split; reflexivity. Qed.

(* the hash-independent check accepts the model's output for each hash, and
   rejects a corrupted string offset *)
Example ser_check_examples :
  match ser_core toy_hash pj2, ser_core (fun _ => 0) pj2 with
  | Ok (tags, vals, strbuf), Ok (tags', vals', strbuf') =>
    (ser_check pj2 tags (bytes_of_words vals) strbuf,
     ser_check pj2 tags' (bytes_of_words vals') strbuf',
     ser_check pj2 tags (bytes_of_words (map (fun v => if v =? 14 then 15 else v) vals)) strbuf,
     ser_check pj2 tags (bytes_of_words vals) (lit "axc")) = (true, true, false, false)
  | _, _ => False
  end.
Proof. vm_compute. reflexivity. Qed.
