(* TapeProofs.v — summary of the tape-level results: properties C02 (second
   half), C13, C14 and C17 (for edits) of the simdjson-go verification.

   The development is spread over
     TapeBase  (A3, A4)   words, unfolding equations, fuel monotonicity
     TapeSeg              segment relations val_seg / items / mitems / roots_seg
     TapeDen   (B)        den_* = segment relations; locality
     TapeLocal (B)        locality at the same fuel (den_value_same_fuel)
     TapePath  (C)        index_path, replacement theorem, path_index_exists
     TapeEdit  (A1,A2,C)  tape writes, NOP runs, Set* refine abs_set_*
     TapeIter             Advance / AdvanceInto on segment-structured tapes
     TapeDelete (D)       Array/Object.DeleteElems refine abs_delete_*
     TapeWF    (E)        wf_check = strict segment relations
     TapeWalk  (F)        walk_doc = denote
     TapePathFun (C)      index_path is functional
     TapePathInj (C,E)    a path has one index; positions transfer to the strict structure
   This file restates the main theorems in one place, derives the
   well-formedness corollaries for each edit, and evaluates every statement on
   a concrete tape. *)
From SJ Require Import Model.Base Model.RefTables Spec.Json Spec.EditSpec Model.Tape
     Model.Iter Model.Walk Model.Edit Model.WF Model.Driver Model.Oracle.
From SJ Require Import Proofs.TapeBase Proofs.TapeSeg Proofs.TapeDen Proofs.TapePath
     Proofs.TapeEdit Proofs.TapeIter Proofs.TapeDelete Proofs.TapeWF Proofs.TapeWalk
     Proofs.TapePathFun Proofs.TapeLocal Proofs.TapePathInj.
From Coq Require Import ZifyBool ZifyN ZifyNat.
From Coq Require Strings.String.
Open Scope N_scope.

(* ================================================================== *)
(* B. locality of the abstraction function                             *)

Section Locality.
Variables (msg strings : bytes).

Theorem den_value_local f i rest d j rest' :
  den_value msg strings f i rest = Some (d, j, rest') ->
  exists seg, rest = seg ++ rest' /\ seg <> [] /\ j = i + nlen seg /\ i < j /\
    forall tail f', (length seg < f')%nat ->
      den_value msg strings f' i (seg ++ tail) = Some (d, j, tail).
Proof.
  intros H. apply (proj1 (den_seg msg strings f)) in H. destruct H as (v & -> & -> & Hv).
  pose proof (val_seg_nonempty _ _ _ _ _ _ _ Hv) as Hne.
  exists v. split; [reflexivity|]. split; [destruct v; [cbn in Hne; lia|discriminate]|].
  split; [reflexivity|]. split; [revert Hne; nl|].
  intros tail f' Hf. apply (proj1 (seg_den msg strings false false) _ _ _ Hv f' tail Hf).
Qed.

Theorem den_elems_local f i rest acc l j rest' :
  den_elems msg strings f i rest acc = Some (l, j, rest') ->
  exists seg, rest = seg ++ rest' /\ seg <> [] /\ j = i + nlen seg /\ i < j /\
    forall tail f' acc', (length seg < f')%nat -> exists l',
      l = rev acc ++ l' /\
      den_elems msg strings f' i (seg ++ tail) acc' = Some (rev acc' ++ l', j, tail).
Proof.
  intros H. apply (proj1 (proj2 (den_seg msg strings f))) in H.
  destruct H as (b & e & l' & -> & -> & He & -> & Hit).
  exists (b ++ [e]). split; [leq|]. split; [destruct b; discriminate|].
  split; [nl|]. split; [nl|].
  intros tail f' acc' Hf. exists l'. split; [reflexivity|].
  rewrite <- app_assoc. cbn [app].
  rewrite (proj1 (proj2 (seg_den msg strings false false)) _ _ _ Hit f' e tail acc' He)
    by (revert Hf; nl).
  reflexivity.
Qed.

Theorem den_members_local f i rest acc l j rest' :
  den_members msg strings f i rest acc = Some (l, j, rest') ->
  exists seg, rest = seg ++ rest' /\ seg <> [] /\ j = i + nlen seg /\ i < j /\
    forall tail f' acc', (length seg < f')%nat -> exists l',
      l = rev acc ++ l' /\
      den_members msg strings f' i (seg ++ tail) acc' = Some (rev acc' ++ l', j, tail).
Proof.
  intros H. apply (proj2 (proj2 (den_seg msg strings f))) in H.
  destruct H as (b & e & l' & -> & -> & He & -> & Hit).
  exists (b ++ [e]). split; [leq|]. split; [destruct b; discriminate|].
  split; [nl|]. split; [nl|].
  intros tail f' acc' Hf. exists l'. split; [reflexivity|].
  rewrite <- app_assoc. cbn [app].
  rewrite (proj2 (proj2 (seg_den msg strings false false)) _ _ _ Hit f' e tail acc' He)
    by (revert Hf; nl).
  reflexivity.
Qed.

(* the remaining tape is the suffix after j - i words *)
Corollary den_value_suffix f i rest d j rest' :
  den_value msg strings f i rest = Some (d, j, rest') ->
  rest' = skipn (N.to_nat (j - i)) rest.
Proof.
  intros H. destruct (den_value_local _ _ _ _ _ _ H) as (seg & -> & _ & -> & _ & _).
  rewrite skipn_app_exact; [reflexivity|]. nl.
Qed.

End Locality.

(* ================================================================== *)
(* E. well-formedness                                                  *)

(* what the traversal needs: the strict structure and no NOP between a key
   and its value *)
Definition tape_ok (pj : pjson) : Prop :=
  exists ds, roots_seg (pj_msg pj) (pj_strings pj) true true 0 (pj_tape pj) ds.

Theorem wf_false_tape_ok pj : wf_check false pj = true -> tape_ok pj.
Proof. intros H. apply wf_check_roots_seg in H. exact H. Qed.

Theorem tape_ok_wf pj : tape_ok pj -> wf_check true pj = true.
Proof. intros (ds & H). eapply roots_seg_wf_check. exact H. Qed.

(* an iterator positioned on the value at path p (segment sub at index |pre|)
   of a structured tape *)
Definition positioned (strict adj : bool) (pj : pjson) (it : iter)
           (pre sub post : list N) (p : path) (dsub : doc) : Prop :=
  pj_tape pj = pre ++ sub ++ post /\
  val_seg (pj_msg pj) (pj_strings pj) strict adj (nlen pre) sub dsub /\
  index_path (pj_msg pj) (pj_strings pj) strict adj (pj_tape pj) (nlen pre) p /\
  iter_on it (nlen pre) sub.

Lemma index_path_denote msg strings strict adj tape k p :
  index_path msg strings strict adj tape k p ->
  exists ds, denote msg strings tape = Some ds /\ roots_seg msg strings strict adj 0 tape ds.
Proof.
  intros (a & sub & b & n & q & -> & _ & _ & Hh).
  destruct (rhole_repl _ _ _ _ _ _ _ _ _ _ Hh) as (ds & dsub & Hds & _ & Hg & _).
  exists ds. split; [|exact Hds]. eapply roots_seg_denote; [exact Hds|].
  intros ->. destruct n; discriminate Hg.
Qed.

(* every abstract path of a structured tape has a position with the same
   structure, so the theorems below apply to each value of the document *)
Theorem position_of_path_gen strict adj pj ds0 ds p dsub :
  roots_seg (pj_msg pj) (pj_strings pj) strict adj 0 (pj_tape pj) ds0 ->
  denote (pj_msg pj) (pj_strings pj) (pj_tape pj) = Some ds -> get_docs p ds = Some dsub ->
  exists pre sub post,
    pj_tape pj = pre ++ sub ++ post /\
    val_seg (pj_msg pj) (pj_strings pj) strict adj (nlen pre) sub dsub /\
    index_path (pj_msg pj) (pj_strings pj) strict adj (pj_tape pj) (nlen pre) p.
Proof.
  intros Hr Hden Hg.
  assert (ds0 = ds).
  { apply denote_roots_seg in Hden.
    pose proof (roots_den _ _ _ _ _ _ _ Hr (S (S (length (pj_tape pj)))) [] ltac:(left; lia)) as D1.
    pose proof (roots_den _ _ _ _ _ _ _ Hden (S (S (length (pj_tape pj)))) [] ltac:(left; lia)) as D2.
    rewrite D1 in D2. injection D2 as ->. reflexivity. }
  subst ds0.
  destruct (path_index_exists _ _ _ _ _ _ _ _ Hr Hg) as (k & Hip).
  pose proof Hip as (a & sub & b & n & q & Et & Ek & Ep & Hh).
  destruct (rhole_repl _ _ _ _ _ _ _ _ _ _ Hh) as (ds0 & dsub0 & Hds0 & Hsub0 & Hg0 & _).
  rewrite N.add_0_l in Hsub0.
  assert (ds0 = ds).
  { rewrite <- Et in Hds0.
    pose proof (roots_den _ _ _ _ _ _ _ Hr (S (S (length (pj_tape pj)))) [] ltac:(left; lia)) as D1.
    pose proof (roots_den _ _ _ _ _ _ _ Hds0 (S (S (length (pj_tape pj)))) [] ltac:(left; lia)) as D2.
    rewrite D1 in D2. injection D2 as ->. reflexivity. }
  subst ds0. rewrite <- Ep in Hg0. rewrite Hg in Hg0. injection Hg0 as <-.
  exists a, sub, b. split; [exact Et|]. split; [exact Hsub0|]. rewrite <- Ek. exact Hip.
Qed.

Theorem position_of_path nops pj ds p dsub :
  wf_check nops pj = true ->
  denote (pj_msg pj) (pj_strings pj) (pj_tape pj) = Some ds -> get_docs p ds = Some dsub ->
  exists pre sub post,
    pj_tape pj = pre ++ sub ++ post /\
    val_seg (pj_msg pj) (pj_strings pj) true (negb nops) (nlen pre) sub dsub /\
    index_path (pj_msg pj) (pj_strings pj) true (negb nops) (pj_tape pj) (nlen pre) p.
Proof.
  intros Hwf. apply wf_check_roots_seg in Hwf. destruct Hwf as (ds' & Hr).
  eapply position_of_path_gen; eauto.
Qed.

Theorem position_of_path_ok pj ds p dsub :
  tape_ok pj ->
  denote (pj_msg pj) (pj_strings pj) (pj_tape pj) = Some ds -> get_docs p ds = Some dsub ->
  exists pre sub post,
    pj_tape pj = pre ++ sub ++ post /\
    val_seg (pj_msg pj) (pj_strings pj) true true (nlen pre) sub dsub /\
    index_path (pj_msg pj) (pj_strings pj) true true (pj_tape pj) (nlen pre) p.
Proof. intros (ds' & Hr). eapply position_of_path_gen; eauto. Qed.

Section WFEdits.
Variable adj : bool.

Ltac finish_wf Href :=
  match type of Href with
  | match ?x with _ => _ end =>
    match goal with Hop : x = Ok _ |- _ => rewrite Hop in Href end
  end.

Theorem set_float_wf pj it bits pre sub post p dsub pj' it' :
  positioned true adj pj it pre sub post p dsub ->
  set_float pj it bits = Ok (pj', it') ->
  wf_check true pj' = true /\ (adj = true -> tape_ok pj').
Proof.
  intros (Ht & Hv & Hip & Hon) Hop.
  destruct (index_path_denote _ _ _ _ _ _ _ Hip) as (ds & Hden & _).
  pose proof (set_float_refines true adj pj it bits pre sub post p ds dsub Ht Hv Hip Hden Hon) as R.
  rewrite Hop in R. destruct R as (_ & _ & _ & ds2 & _ & Hr).
  split; [eapply roots_seg_wf_check; exact Hr|]. intros ->. exists ds2. exact Hr.
Qed.

Theorem set_int_wf pj it z pre sub post p dsub pj' it' :
  positioned true adj pj it pre sub post p dsub ->
  set_int pj it z = Ok (pj', it') ->
  wf_check true pj' = true /\ (adj = true -> tape_ok pj').
Proof.
  intros (Ht & Hv & Hip & Hon) Hop.
  destruct (index_path_denote _ _ _ _ _ _ _ Hip) as (ds & Hden & _).
  pose proof (set_int_refines true adj pj it z pre sub post p ds dsub Ht Hv Hip Hden Hon) as R.
  cbv zeta in R. rewrite Hop in R. destruct R as (_ & _ & _ & ds2 & _ & Hr).
  split; [eapply roots_seg_wf_check; exact Hr|]. intros ->. exists ds2. exact Hr.
Qed.

Theorem set_uint_wf pj it u pre sub post p dsub pj' it' :
  positioned true adj pj it pre sub post p dsub ->
  set_uint pj it u = Ok (pj', it') ->
  wf_check true pj' = true /\ (adj = true -> tape_ok pj').
Proof.
  intros (Ht & Hv & Hip & Hon) Hop.
  destruct (index_path_denote _ _ _ _ _ _ _ Hip) as (ds & Hden & _).
  pose proof (set_uint_refines true adj pj it u pre sub post p ds dsub Ht Hv Hip Hden Hon) as R.
  cbv zeta in R. rewrite Hop in R. destruct R as (_ & _ & _ & ds2 & _ & Hr).
  split; [eapply roots_seg_wf_check; exact Hr|]. intros ->. exists ds2. exact Hr.
Qed.

Theorem set_string_wf pj it v pre sub post p dsub pj' it' :
  N.of_nat (length (pj_strings pj)) < STRINGBUFBIT ->
  positioned true adj pj it pre sub post p dsub ->
  set_string pj it v = Ok (pj', it') ->
  wf_check true pj' = true /\ (adj = true -> tape_ok pj').
Proof.
  intros HL (Ht & Hv & Hip & Hon) Hop.
  destruct (index_path_denote _ _ _ _ _ _ _ Hip) as (ds & Hden & _).
  pose proof (set_string_refines true adj pj it v pre sub post p ds dsub HL Ht Hv Hip Hden Hon) as R.
  cbv zeta in R. rewrite Hop in R. destruct R as (_ & _ & _ & ds2 & _ & Hr).
  split; [eapply roots_seg_wf_check; exact Hr|]. intros ->. exists ds2. exact Hr.
Qed.

Theorem set_bool_wf pj it b pre sub post p dsub pj' it' :
  positioned true adj pj it pre sub post p dsub ->
  set_bool pj it b = Ok (pj', it') ->
  wf_check true pj' = true /\ (adj = true -> tape_ok pj').
Proof.
  intros (Ht & Hv & Hip & Hon) Hop.
  destruct (index_path_denote _ _ _ _ _ _ _ Hip) as (ds & Hden & _).
  pose proof (set_bool_refines true adj pj it b pre sub post p ds dsub Ht Hv Hip Hden Hon) as R.
  rewrite Hop in R. destruct R as (_ & _ & _ & ds2 & _ & Hr).
  split; [eapply roots_seg_wf_check; exact Hr|]. intros ->. exists ds2. exact Hr.
Qed.

Theorem set_null_wf pj it pre sub post p dsub pj' it' :
  positioned true adj pj it pre sub post p dsub ->
  set_null pj it = Ok (pj', it') ->
  wf_check true pj' = true /\ (adj = true -> tape_ok pj').
Proof.
  intros (Ht & Hv & Hip & Hon) Hop.
  destruct (index_path_denote _ _ _ _ _ _ _ Hip) as (ds & Hden & _).
  pose proof (set_null_refines true adj pj it pre sub post p ds dsub Ht Hv Hip Hden Hon) as R.
  rewrite Hop in R. destruct R as (_ & _ & ds2 & _ & Hr).
  split; [eapply roots_seg_wf_check; exact Hr|]. intros ->. exists ds2. exact Hr.
Qed.

Theorem arr_delete_wf pj a decide pre sub post p l pj' ncb :
  pj_tape pj = pre ++ sub ++ post ->
  val_seg (pj_msg pj) (pj_strings pj) true adj (nlen pre) sub (DArr l) ->
  index_path (pj_msg pj) (pj_strings pj) true adj (pj_tape pj) (nlen pre) p ->
  c_off a = (Z.of_N (nlen pre) + 1)%Z ->
  c_len a = (Z.of_N (nlen pre) + Z.of_nat (length sub))%Z ->
  arr_delete pj a decide = Ok (pj', ncb) ->
  wf_check true pj' = true /\ (adj = true -> tape_ok pj').
Proof.
  intros Ht Hv Hip Hoff Hlen Hop.
  destruct (index_path_denote _ _ _ _ _ _ _ Hip) as (ds & Hden & _).
  destruct (arr_delete_refines true adj pj a decide pre sub post p ds l Ht Hv Hip Hden Hoff Hlen)
    as (sub2 & E & _ & _ & _ & ds2 & _ & Hr).
  rewrite Hop in E. injection E as -> _.
  split; [eapply roots_seg_wf_check; exact Hr|]. intros ->. exists ds2. exact Hr.
Qed.

Theorem obj_delete_wf pj o only decide pre sub post p l pj' cbs :
  N.of_nat (length (pj_msg pj)) < two64 -> N.of_nat (length (pj_strings pj)) < two64 ->
  pj_tape pj = pre ++ sub ++ post ->
  val_seg (pj_msg pj) (pj_strings pj) true adj (nlen pre) sub (DObj l) ->
  index_path (pj_msg pj) (pj_strings pj) true adj (pj_tape pj) (nlen pre) p ->
  c_off o = (Z.of_N (nlen pre) + 1)%Z ->
  c_len o = (Z.of_N (nlen pre) + Z.of_nat (length sub))%Z ->
  obj_delete pj o only decide = Ok (pj', cbs) ->
  wf_check true pj' = true /\ (adj = true -> tape_ok pj').
Proof.
  intros Bm Bs Ht Hv Hip Hoff Hlen Hop.
  destruct (index_path_denote _ _ _ _ _ _ _ Hip) as (ds & Hden & _).
  destruct (obj_delete_refines true adj pj o only decide pre sub post p ds l Bm Bs Ht Hv Hip Hden Hoff Hlen)
    as (sub2 & E & _ & _ & _ & ds2 & _ & Hr).
  rewrite Hop in E. injection E as -> _.
  split; [eapply roots_seg_wf_check; exact Hr|]. intros ->. exists ds2. exact Hr.
Qed.

End WFEdits.

(* ---- E in its literal form: the position is given in the plain structure
   (the one obtained from den_* computations); the tape is well-formed ---- *)

Lemma positioned_strict strict adj pj it pre sub post p dsub ds :
  roots_seg (pj_msg pj) (pj_strings pj) strict adj 0 (pj_tape pj) ds ->
  positioned false false pj it pre sub post p dsub ->
  positioned strict adj pj it pre sub post p dsub.
Proof.
  intros Hr (Ht & Hv & Hip & Hon).
  destruct (strict_position _ _ _ _ _ _ _ _ _ _ _ _ Hr Hip Ht eq_refl Hv) as (Hip' & Hv').
  split; [exact Ht|]. split; [exact Hv'|]. split; [exact Hip'|exact Hon].
Qed.

Section WFLiteral.

Ltac lift Hwf Hpos :=
  apply wf_check_roots_seg in Hwf; destruct Hwf as (ds0 & Hr0);
  pose proof (positioned_strict _ _ _ _ _ _ _ _ _ _ Hr0 Hpos) as Hpos'.

Theorem set_float_preserves_wf pj it bits pre sub post p dsub pj' it' :
  wf_check true pj = true -> positioned false false pj it pre sub post p dsub ->
  set_float pj it bits = Ok (pj', it') -> wf_check true pj' = true.
Proof. intros Hwf Hpos Hop. lift Hwf Hpos. eapply set_float_wf; eauto. Qed.

Theorem set_int_preserves_wf pj it z pre sub post p dsub pj' it' :
  wf_check true pj = true -> positioned false false pj it pre sub post p dsub ->
  set_int pj it z = Ok (pj', it') -> wf_check true pj' = true.
Proof. intros Hwf Hpos Hop. lift Hwf Hpos. eapply set_int_wf; eauto. Qed.

Theorem set_uint_preserves_wf pj it u pre sub post p dsub pj' it' :
  wf_check true pj = true -> positioned false false pj it pre sub post p dsub ->
  set_uint pj it u = Ok (pj', it') -> wf_check true pj' = true.
Proof. intros Hwf Hpos Hop. lift Hwf Hpos. eapply set_uint_wf; eauto. Qed.

Theorem set_string_preserves_wf pj it v pre sub post p dsub pj' it' :
  N.of_nat (length (pj_strings pj)) < STRINGBUFBIT ->
  wf_check true pj = true -> positioned false false pj it pre sub post p dsub ->
  set_string pj it v = Ok (pj', it') -> wf_check true pj' = true.
Proof. intros HL Hwf Hpos Hop. lift Hwf Hpos. eapply set_string_wf; eauto. Qed.

Theorem set_bool_preserves_wf pj it b pre sub post p dsub pj' it' :
  wf_check true pj = true -> positioned false false pj it pre sub post p dsub ->
  set_bool pj it b = Ok (pj', it') -> wf_check true pj' = true.
Proof. intros Hwf Hpos Hop. lift Hwf Hpos. eapply set_bool_wf; eauto. Qed.

Theorem set_null_preserves_wf pj it pre sub post p dsub pj' it' :
  wf_check true pj = true -> positioned false false pj it pre sub post p dsub ->
  set_null pj it = Ok (pj', it') -> wf_check true pj' = true.
Proof. intros Hwf Hpos Hop. lift Hwf Hpos. eapply set_null_wf; eauto. Qed.

Theorem arr_delete_preserves_wf pj a decide pre sub post p l pj' ncb :
  wf_check true pj = true ->
  pj_tape pj = pre ++ sub ++ post ->
  val_seg (pj_msg pj) (pj_strings pj) false false (nlen pre) sub (DArr l) ->
  index_path (pj_msg pj) (pj_strings pj) false false (pj_tape pj) (nlen pre) p ->
  c_off a = (Z.of_N (nlen pre) + 1)%Z ->
  c_len a = (Z.of_N (nlen pre) + Z.of_nat (length sub))%Z ->
  arr_delete pj a decide = Ok (pj', ncb) -> wf_check true pj' = true.
Proof.
  intros Hwf Ht Hv Hip Hoff Hlen Hop.
  apply wf_check_roots_seg in Hwf. destruct Hwf as (ds0 & Hr0).
  destruct (strict_position _ _ _ _ _ _ _ _ _ _ _ _ Hr0 Hip Ht eq_refl Hv) as (Hip' & Hv').
  eapply arr_delete_wf; eauto.
Qed.

Theorem obj_delete_preserves_wf pj o only decide pre sub post p l pj' cbs :
  N.of_nat (length (pj_msg pj)) < two64 -> N.of_nat (length (pj_strings pj)) < two64 ->
  wf_check true pj = true ->
  pj_tape pj = pre ++ sub ++ post ->
  val_seg (pj_msg pj) (pj_strings pj) false false (nlen pre) sub (DObj l) ->
  index_path (pj_msg pj) (pj_strings pj) false false (pj_tape pj) (nlen pre) p ->
  c_off o = (Z.of_N (nlen pre) + 1)%Z ->
  c_len o = (Z.of_N (nlen pre) + Z.of_nat (length sub))%Z ->
  obj_delete pj o only decide = Ok (pj', cbs) -> wf_check true pj' = true.
Proof.
  intros Bm Bs Hwf Ht Hv Hip Hoff Hlen Hop.
  apply wf_check_roots_seg in Hwf. destruct Hwf as (ds0 & Hr0).
  destruct (strict_position _ _ _ _ _ _ _ _ _ _ _ _ Hr0 Hip Ht eq_refl Hv) as (Hip' & Hv').
  eapply obj_delete_wf; eauto.
Qed.

(* the traversal invariant is preserved as well *)
Theorem edits_preserve_tape_ok pj it pre sub post p dsub :
  tape_ok pj -> positioned false false pj it pre sub post p dsub ->
  (forall bits pj' it', set_float pj it bits = Ok (pj', it') -> tape_ok pj') /\
  (forall z pj' it', set_int pj it z = Ok (pj', it') -> tape_ok pj') /\
  (forall u pj' it', set_uint pj it u = Ok (pj', it') -> tape_ok pj') /\
  (forall b pj' it', set_bool pj it b = Ok (pj', it') -> tape_ok pj') /\
  (forall pj' it', set_null pj it = Ok (pj', it') -> tape_ok pj') /\
  (forall v pj' it', N.of_nat (length (pj_strings pj)) < STRINGBUFBIT ->
                     set_string pj it v = Ok (pj', it') -> tape_ok pj').
Proof.
  intros (ds0 & Hr0) Hpos.
  pose proof (positioned_strict _ _ _ _ _ _ _ _ _ _ Hr0 Hpos) as Hpos'.
  repeat split; intros.
  - eapply (set_float_wf true); eauto.
  - eapply (set_int_wf true); eauto.
  - eapply (set_uint_wf true); eauto.
  - eapply (set_bool_wf true); eauto.
  - eapply (set_null_wf true); eauto.
  - eapply (set_string_wf true); eauto.
Qed.

End WFLiteral.

(* ================================================================== *)
(* F. traversal = denotation                                           *)

Theorem walk_doc_tape_ok pj ds :
  N.of_nat (length (pj_msg pj)) < two64 -> N.of_nat (length (pj_strings pj)) < two64 ->
  tape_ok pj -> denote (pj_msg pj) (pj_strings pj) (pj_tape pj) = Some ds ->
  walk_doc pj = Ok ds.
Proof.
  intros Bm Bs (ds' & Hr) Hden.
  rewrite (walk_doc_denote pj ds' Bm Bs Hr). f_equal.
  apply denote_roots_seg in Hden.
  pose proof (roots_den _ _ _ _ _ _ _ Hr (S (S (length (pj_tape pj)))) [] ltac:(left; lia)) as D1.
  pose proof (roots_den _ _ _ _ _ _ _ Hden (S (S (length (pj_tape pj)))) [] ltac:(left; lia)) as D2.
  rewrite D1 in D2. injection D2 as ->. reflexivity.
Qed.

(* the parser's tapes (no NOPs) *)
Corollary walk_doc_wf_false pj ds :
  N.of_nat (length (pj_msg pj)) < two64 -> N.of_nat (length (pj_strings pj)) < two64 ->
  wf_check false pj = true -> denote (pj_msg pj) (pj_strings pj) (pj_tape pj) = Some ds ->
  walk_doc pj = Ok ds.
Proof. intros Bm Bs H. apply walk_doc_tape_ok; auto. apply wf_false_tape_ok. exact H. Qed.

(* ================================================================== *)
(* Examples on a concrete tape                                         *)

Module Examples.
Import String.StringSyntax.
Local Open Scope string_scope.
Definition ex_src : bytes := Model.Oracle.lit "[1,{""a"":""x"",""b"":[true,null]},2.5]".
Definition key_a : bytes := Model.Oracle.lit "a".
Definition key_b : bytes := Model.Oracle.lit "b".
Definition str_x : bytes := Model.Oracle.lit "x".
Definition str_new : bytes := Model.Oracle.lit "hello".
Definition bad_src : bytes := Model.Oracle.lit "{""a"":1}".
Local Close Scope string_scope.

Definition empty_pj : pjson := {| pj_tape := []; pj_strings := []; pj_msg := [] |}.

(* the tape the modelled parser produces for ex_src, as a literal *)
Definition ex_tape : list N :=
  [8214565720323784724; 6557241057451442195; 7782220156096217088; 1;
   8863084066665136144; 2485986994308513792; 1; 2485986994308513793;
   1; 2485986994308513794; 1; 6557241057451442191;
   8358680908399640576; 7926335344172072960; 6701356245527298059;
   9007199254740992004; 7205759403792793600; 4612811918334230528;
   6701356245527298049; 8214565720323784704].
Definition ex_pj : pjson :=
  {| pj_tape := ex_tape; pj_strings := key_a ++ str_x ++ key_b; pj_msg := ex_src |}.

Example ex_parse :
  match Model.Driver.parse_model true ex_src with
  | Ok p => {| pj_tape := p_tape p; pj_strings := p_strings p; pj_msg := p_msg p |} = ex_pj
  | _ => False
  end.
Proof. vm_compute. reflexivity. Qed.

Definition den (pj : pjson) := denote (pj_msg pj) (pj_strings pj) (pj_tape pj).
Definition shape (pj : pjson) := map (fun w => (word_tag w, word_val w)) (pj_tape pj).

(* index: 0 root, 1 [, 2-3 int 1, 4 {, 5-6 "a", 7-8 "x", 9-10 "b", 11 [, 12 true,
   13 null, 14 ], 15 }, 16-17 2.5, 18 ], 19 root *)
Example ex_shape :
  shape ex_pj =
  [(114, 20); (91, 19); (108, 0); (0, 1); (123, 16); (34, 36028797018963968); (0, 1);
   (34, 36028797018963969); (0, 1); (34, 36028797018963970); (0, 1); (91, 15); (116, 0);
   (110, 0); (93, 11); (125, 4); (100, 0); (64, 1125899906842624); (93, 1); (114, 0)].
Proof. vm_compute. reflexivity. Qed.

Definition ex_doc : doc :=
  DArr [DNum (NInt 1);
        DObj [(key_a, DStr str_x); (key_b, DArr [DBool true; DNull])];
        DNum (NFloat 4612811918334230528 0)].

Example ex_denote : den ex_pj = Some [ex_doc].
Proof. vm_compute. reflexivity. Qed.

Example ex_wf : wf_check false ex_pj = true /\ wf_check true ex_pj = true.
Proof. vm_compute. split; reflexivity. Qed.

(* F *)
Example ex_walk : walk_doc ex_pj = Ok [ex_doc].
Proof. vm_compute. reflexivity. Qed.

(* iterators obtained through the API *)
Definition get {A} (o : outcome A) (d : A) : A := match o with Ok a => a | _ => d end.
Definition it_none : iter := iter0 empty_pj.
Definition c_none : cont := {| c_len := 0; c_off := 0 |}.

Definition root_it (pj : pjson) : iter := fst (get (advance pj (iter0 pj)) (it_none, 0)).
Definition arr_it (pj : pjson) : iter := fst (get (iter_root pj (root_it pj)) (it_none, 0)).
Definition arr_c (pj : pjson) : cont := get (iter_array (arr_it pj)) c_none.
Definition el0 (pj : pjson) : iter := fst (get (advance pj (cont_iter (arr_c pj))) (it_none, 0)).
Definition el1 (pj : pjson) : iter := fst (get (advance pj (el0 pj)) (it_none, 0)).
Definition el2 (pj : pjson) : iter := fst (get (advance pj (el1 pj)) (it_none, 0)).
Definition obj_c (pj : pjson) : cont := get (iter_object (el1 pj)) c_none.
Definition mem (pj : pjson) (o : cont) : cont * iter :=
  match next_element (cont_fuel o) pj o with
  | Ok (o', Some (_, el, _)) => (o', el)
  | _ => (c_none, it_none)
  end.
Definition mem_a (pj : pjson) : iter := snd (mem pj (obj_c pj)).
Definition mem_b (pj : pjson) : iter := snd (mem pj (fst (mem pj (obj_c pj)))).
Definition inner_c (pj : pjson) : cont := get (iter_array (mem_b pj)) c_none.
Definition in0 (pj : pjson) : iter := fst (get (advance pj (cont_iter (inner_c pj))) (it_none, 0)).
Definition in1 (pj : pjson) : iter := fst (get (advance pj (in0 pj)) (it_none, 0)).

Example ex_positions :
  map i_off [el0 ex_pj; el1 ex_pj; el2 ex_pj; mem_a ex_pj; mem_b ex_pj; in0 ex_pj; in1 ex_pj] =
  [3; 5; 17; 8; 12; 13; 14]%Z.
Proof. vm_compute. reflexivity. Qed.

(* A1: the NOP fill of a deletion, here the member "a" = words [5, 9) *)
Example ex_fill :
  option_map shape (match delete_span ex_pj 20 5 9 with Ok p => Some p | _ => None end) =
  Some (firstn 5 (shape ex_pj) ++ [(78, 4); (78, 3); (78, 2); (78, 1)] ++ skipn 9 (shape ex_pj)).
Proof. vm_compute. reflexivity. Qed.

Definition ex_del : pjson := get (delete_span ex_pj 20 5 9) empty_pj.

(* A2: skipping from inside the run lands at its end *)
Example ex_skip :
  skip_nops 2 6 (skipn 6 (pj_tape ex_del)) = Some (9, skipn 9 (pj_tape ex_del)) /\
  skip_nops 2 8 (skipn 8 (pj_tape ex_del)) = Some (9, skipn 9 (pj_tape ex_del)).
Proof. vm_compute. split; reflexivity. Qed.

(* B: the object at index 4 occupies [4, 16); its reading does not depend on
   what follows *)
Example ex_local :
  den_value (pj_msg ex_pj) (pj_strings ex_pj) 13 4 (skipn 4 (pj_tape ex_pj)) =
    Some (DObj [(key_a, DStr str_x); (key_b, DArr [DBool true; DNull])], 16, skipn 16 (pj_tape ex_pj)) /\
  den_value (pj_msg ex_pj) (pj_strings ex_pj) 13 4 (firstn 12 (skipn 4 (pj_tape ex_pj)) ++ [7; 7; 7]) =
    Some (DObj [(key_a, DStr str_x); (key_b, DArr [DBool true; DNull])], 16, [7; 7; 7]).
Proof. vm_compute. split; reflexivity. Qed.

(* C13 *)
Definition after {A} (o : outcome (pjson * A)) : pjson :=
  match o with Ok (p, _) => p | _ => empty_pj end.

(* SetFloat on element 0 (the integer 1), path [0;0] *)
Example ex_set_float :
  den (after (set_float ex_pj (el0 ex_pj) 4607182418800017408)) =
  upd_docs [0; 0]%nat (abs_set_scalar (DNum (NFloat 4607182418800017408 0))) [ex_doc] /\
  den (after (set_float ex_pj (el0 ex_pj) 4607182418800017408)) =
  Some [DArr [DNum (NFloat 4607182418800017408 0);
              DObj [(key_a, DStr str_x); (key_b, DArr [DBool true; DNull])];
              DNum (NFloat 4612811918334230528 0)]].
Proof. vm_compute. split; reflexivity. Qed.

(* SetInt on the float 2.5, SetUInt on the string "x" *)
Example ex_set_int :
  den (after (set_int ex_pj (el2 ex_pj) (-7))) =
  upd_docs [0; 2]%nat (abs_set_scalar (DNum (NInt (-7)))) [ex_doc] /\
  den (after (set_uint ex_pj (mem_a ex_pj) 18446744073709551615)) =
  upd_docs [0; 1; 0]%nat (abs_set_scalar (DNum (NUint 18446744073709551615))) [ex_doc].
Proof. vm_compute. split; reflexivity. Qed.

(* SetString: the string buffer grows, old strings stay readable *)
Example ex_set_string :
  den (after (set_string ex_pj (el0 ex_pj) str_new)) =
  upd_docs [0; 0]%nat (abs_set_scalar (DStr str_new)) [ex_doc] /\
  pj_strings (after (set_string ex_pj (el0 ex_pj) str_new)) = pj_strings ex_pj ++ str_new.
Proof. vm_compute. split; reflexivity. Qed.

(* SetBool / SetNull on atoms, SetNull on a two-word scalar and on containers *)
Example ex_set_bool_null :
  den (after (set_bool ex_pj (in1 ex_pj) false)) =
    upd_docs [0; 1; 1; 1]%nat (abs_set_bool false) [ex_doc] /\
  den (after (set_null ex_pj (in0 ex_pj))) = upd_docs [0; 1; 1; 0]%nat abs_set_null [ex_doc] /\
  den (after (set_null ex_pj (el2 ex_pj))) = upd_docs [0; 2]%nat abs_set_null [ex_doc] /\
  den (after (set_null ex_pj (el1 ex_pj))) = upd_docs [0; 1]%nat abs_set_null [ex_doc] /\
  den (after (set_null ex_pj (arr_it ex_pj))) = upd_docs [0]%nat abs_set_null [ex_doc] /\
  shape (after (set_null ex_pj (mem_b ex_pj))) =
    firstn 11 (shape ex_pj) ++ [(110, 0); (78, 3); (78, 2); (78, 1)] ++ skipn 15 (shape ex_pj).
Proof. vm_compute. repeat split; reflexivity. Qed.

(* type gates: Err exactly when the abstract edit is undefined *)
Example ex_gates :
  set_float ex_pj (in0 ex_pj) 0 = Err /\
  upd_docs [0; 1; 1; 0]%nat (abs_set_scalar (DNum (NFloat 0 0))) [ex_doc] = None /\
  set_bool ex_pj (el0 ex_pj) true = Err /\
  upd_docs [0; 0]%nat (abs_set_bool true) [ex_doc] = None /\
  set_string ex_pj (el1 ex_pj) str_new = Err /\
  upd_docs [0; 1]%nat (abs_set_scalar (DStr str_new)) [ex_doc] = None.
Proof. vm_compute. repeat split; reflexivity. Qed.

(* C14: Array.DeleteElems with answers [false; true] (third callback: exhausted = keep) *)
Definition after_n {A} (o : outcome (pjson * A)) (d : A) : pjson * A :=
  match o with Ok x => x | _ => (empty_pj, d) end.

Example ex_arr_delete :
  let r := after_n (arr_delete ex_pj (arr_c ex_pj) [false; true]) 0%nat in
  snd r = 3%nat /\
  den (fst r) = upd_docs [0]%nat (abs_delete_arr [false; true]) [ex_doc] /\
  den (fst r) = Some [DArr [DNum (NInt 1); DNum (NFloat 4612811918334230528 0)]] /\
  wf_check true (fst r) = true /\ walk_doc (fst r) = Ok [DArr [DNum (NInt 1); DNum (NFloat 4612811918334230528 0)]].
Proof. vm_compute. repeat split; reflexivity. Qed.

Definition den_ok (p : pjson) : outcome (list doc) :=
  match den p with Some l => Ok l | None => Err end.

(* Object.DeleteElems: no callback (delete all visited), filter {"b"} *)
Example ex_obj_delete :
  let r := after_n (obj_delete ex_pj (obj_c ex_pj) [key_b] None) [] in
  snd r = [] /\
  den (fst r) = upd_docs [0; 1]%nat (abs_delete_obj [key_b] None) [ex_doc] /\
  den (fst r) = Some [DArr [DNum (NInt 1); DObj [(key_a, DStr str_x)]; DNum (NFloat 4612811918334230528 0)]] /\
  wf_check true (fst r) = true /\ walk_doc (fst r) = den_ok (fst r).
Proof. vm_compute. repeat split; reflexivity. Qed.

(* with a callback: keep "a", delete "b" *)
Example ex_obj_delete_cb :
  let r := after_n (obj_delete ex_pj (obj_c ex_pj) [] (Some [false; true])) [] in
  snd r = [key_a; key_b] /\
  den (fst r) = upd_docs [0; 1]%nat (abs_delete_obj [] (Some [false; true])) [ex_doc] /\
  wf_check true (fst r) = true.
Proof. vm_compute. repeat split; reflexivity. Qed.

(* C17 / C02 after a sequence of edits *)
Definition ex_edited : pjson :=
  let p1 := after (set_null ex_pj (mem_b ex_pj)) in
  let p2 := after (set_string p1 (el0 p1) str_new) in
  fst (after_n (arr_delete p2 (arr_c p2) [false; false; true]) 0%nat).

Example ex_edited_ok :
  wf_check true ex_edited = true /\
  den ex_edited = Some [DArr [DStr str_new; DObj [(key_a, DStr str_x); (key_b, DNull)]]] /\
  walk_doc ex_edited = Ok [DArr [DStr str_new; DObj [(key_a, DStr str_x); (key_b, DNull)]]].
Proof. vm_compute. repeat split; reflexivity. Qed.

(* ---- findings ------------------------------------------------------ *)

(* F1: wf_check true accepts a NOP between a key and its value; the
   abstraction function skips it but Object.NextElementBytes does not, so the
   traversal fails although the tape is "well-formed" and denotes. *)
Definition bad_pj : pjson :=
  {| pj_tape := [mk_word TagRoot 9; mk_word TagObjectStart 8; mk_word TagString 2; 1;
                 mk_word TagNop 1; mk_word TagInteger 0; 1; mk_word TagObjectEnd 1; mk_word TagRoot 0];
     pj_strings := []; pj_msg := bad_src |}.

Example finding_key_nop :
  wf_check true bad_pj = true /\ den bad_pj = Some [DObj [(key_a, DNum (NInt 1))]] /\
  walk_doc bad_pj = Err.
Proof. vm_compute. repeat split; reflexivity. Qed.

(* F2: SetNull accepts an iterator standing on a root (Go: case TagRoot) and
   overwrites the root pair: the tape is no longer well-formed and has no
   denotation. *)
Example finding_set_null_root :
  let p := after (set_null ex_pj (root_it ex_pj)) in
  is_ok (set_null ex_pj (root_it ex_pj)) = true /\
  wf_check true p = false /\ den p = None /\
  shape p = (110, 0) :: map (fun k => (78, k)) [19; 18; 17; 16; 15; 14; 13; 12; 11; 10; 9; 8; 7; 6; 5; 4; 3; 2; 1].
Proof. vm_compute. repeat split; reflexivity. Qed.


(* ---- an instance of the theorems (not only of the functions) -------- *)

Lemma val_seg_of_den msg strings f i v tail d :
  den_value msg strings f i (v ++ tail) = Some (d, i + nlen v, tail) ->
  val_seg msg strings false false i v d.
Proof.
  intros H. apply (proj1 (den_seg msg strings f)) in H. destruct H as (v' & E & En & Hv).
  apply app_eq_len in E; [|revert En; unfold nlen; lia]. destruct E as [-> _]. exact Hv.
Qed.

Lemma items_of_den msg strings f i b e tail l :
  den_elems msg strings f i (b ++ e :: tail) [] = Some (l, i + nlen b + 1, tail) ->
  items msg strings false false i b l.
Proof.
  intros H. apply (proj1 (proj2 (den_seg msg strings f))) in H.
  destruct H as (b' & e' & l' & E & En & _ & -> & Hi).
  apply app_eq_len in E; [|revert En; unfold nlen; lia]. destruct E as [-> _]. exact Hi.
Qed.

Definition ex_msg := pj_msg ex_pj.
Definition ex_strings := pj_strings ex_pj.
Definition t_pre : list N := [8214565720323784724; 6557241057451442195].
Definition t_sub : list N := [7782220156096217088; 1].
Definition t_body : list N :=
  [8863084066665136144; 2485986994308513792; 1; 2485986994308513793;
   1; 2485986994308513794; 1; 6557241057451442191;
   8358680908399640576; 7926335344172072960; 6701356245527298059;
   9007199254740992004; 7205759403792793600; 4612811918334230528].
Definition t_post : list N := t_body ++ [6701356245527298049; 8214565720323784704].

(* element 0 of the root array (tape index 2) is at path [0;0] *)
Example ex_index_path :
  index_path ex_msg ex_strings false false ex_tape 2 [0; 0]%nat.
Proof.
  exists t_pre, t_sub, t_post, 0%nat, [0%nat].
  split; [reflexivity|]. split; [reflexivity|]. split; [reflexivity|].
  assert (Hv : val_seg ex_msg ex_strings false false 2 t_sub (DNum (NInt 1))).
  { apply (val_seg_of_den _ _ 5 2 _ []). vm_compute. reflexivity. }
  assert (Hi : items ex_msg ex_strings false false 4 t_body
                 [DObj [(key_a, DStr str_x); (key_b, DArr [DBool true; DNull])];
                  DNum (NFloat 4612811918334230528 0)]).
  { apply (items_of_den _ _ 20 4 _ 6701356245527298049 []). vm_compute. reflexivity. }
  assert (Hih : ihole ex_msg ex_strings false false 2 [] t_sub t_body 0 []).
  { eapply ih_here; [exact Hv|exact Hi]. }
  assert (Hvh : vhole ex_msg ex_strings false false 1 [6557241057451442195] t_sub
                  (t_body ++ [6701356245527298049]) [0%nat]).
  { apply vh_arr; try (vm_compute; reflexivity); try discriminate. exact Hih. }
  apply (rh_in ex_msg ex_strings false false 0 8214565720323784724 [] [6557241057451442195] t_sub
               (t_body ++ [6701356245527298049]) [0%nat] [] 8214565720323784704 [] []);
    try (vm_compute; reflexivity); try apply ns_nil; try apply rs_nil. exact Hvh.
Qed.

(* C13 theorem instantiated: the hypotheses are satisfiable *)
Example ex_set_float_thm :
  exists pj' it', set_float ex_pj (el0 ex_pj) 4607182418800017408 = Ok (pj', it') /\
    den pj' = upd_docs [0; 0]%nat (abs_set_scalar (DNum (NFloat 4607182418800017408 0))) [ex_doc].
Proof.
  pose proof (set_float_refines false false ex_pj (el0 ex_pj) 4607182418800017408
                t_pre t_sub t_post [0; 0]%nat [ex_doc] (DNum (NInt 1))) as R.
  destruct (set_float ex_pj (el0 ex_pj) 4607182418800017408) as [[pj' it']| | |] eqn:E.
  - exists pj', it'. split; [reflexivity|]. apply R.
    + reflexivity.
    + apply (val_seg_of_den _ _ 5 2 _ []). vm_compute. reflexivity.
    + exact ex_index_path.
    + exact ex_denote.
    + split; [vm_compute; reflexivity|]. split; [vm_compute; discriminate|].
      exists 7782220156096217088, [1]. split; [reflexivity|]. split; vm_compute; reflexivity.
  - vm_compute in E. discriminate E.
  - vm_compute in E. discriminate E.
  - vm_compute in E. discriminate E.
Qed.

End Examples.

(* ================================================================== *)
Print Assumptions den_value_local.
Print Assumptions den_value_same_fuel.
Print Assumptions delete_element.
Print Assumptions delete_member.
Print Assumptions position_of_path_ok.
Print Assumptions replace_value_denote.
Print Assumptions index_path_functional.
Print Assumptions path_index_exists.
Print Assumptions set_float_refines.
Print Assumptions set_int_refines.
Print Assumptions set_uint_refines.
Print Assumptions set_string_refines.
Print Assumptions set_bool_refines.
Print Assumptions set_null_refines.
Print Assumptions arr_delete_refines.
Print Assumptions obj_delete_refines.
Print Assumptions position_of_path.
Print Assumptions wf_check_false_true.
Print Assumptions wf_check_roots_seg.
Print Assumptions roots_seg_wf_check.
Print Assumptions set_null_wf.
Print Assumptions set_null_preserves_wf.
Print Assumptions obj_delete_preserves_wf.
Print Assumptions edits_preserve_tape_ok.
Print Assumptions index_path_inj.
Print Assumptions strict_position.
Print Assumptions obj_delete_wf.
Print Assumptions walk_doc_denote.
Print Assumptions walk_doc_wf_false.
