(* MaskProofsAll.v — the whole message: cutting the message into 64-byte
   blocks, padding the last one with spaces and running the mask kernels gives
   the same per-block structural positions as the scalar model of
   Model/Stage1.v (which does not pad), the same inside-string and error
   flags at the end, hence the same index buffers and the same verdict of
   findStructuralIndices. *)
From Coq Require Import Lia ZifyBool ZifyNat ZifyN.
From SJ Require Import Model.Base Model.RefTables Model.Stage1.
From SJ Require Import Proofs.StrProofs Proofs.Stage1Proofs.
From SJ Require Import Proofs.MaskModel Proofs.MaskProofsBits Proofs.MaskProofsKernels Proofs.MaskProofsBlock.
Open Scope N_scope.

(* ------------------------------------------------------------------ *)
(* padding                                                             *)

Definition SP : byte := " "%byte.

Lemma b2n_SP : b2n SP = cSPACE.
Proof. reflexivity. Qed.

Lemma take_pad_app_repeat (bs : bytes) : (length bs <= 64)%nat ->
  take_pad cSPACE 64 (map b2n bs) = map b2n (bs ++ repeat_b SP (64 - length bs)).
Proof.
  generalize 64%nat. intros n. revert bs.
  induction n as [|n IH]; intros bs Hl.
  - destruct bs as [|b r]; [reflexivity|cbn [length] in Hl; lia].
  - destruct bs as [|b r].
    + cbn [map take_pad length app Nat.sub repeat_b]. rewrite b2n_SP. f_equal.
      specialize (IH [] ltac:(cbn [length]; lia)). cbn [map length app] in IH.
      rewrite Nat.sub_0_r in IH. exact IH.
    + cbn [map take_pad length app Nat.sub]. f_equal. apply IH. cbn [length] in Hl. lia.
Qed.

Lemma repeat_b_length b n : length (repeat_b b n) = n.
Proof. induction n as [|n IH]; cbn [repeat_b length]; [reflexivity|rewrite IH; reflexivity]. Qed.

(* the scalar step on a space: no structural, flags kept *)
Lemma step_space nd st :
  s1_step nd st cSPACE =
  ({| s_bsodd := false; s_instr := s_instr st; s_pred := true; s_err := s_err st |}, false).
Proof.
  unfold s1_step.
  change (cSPACE =? cBSLASH) with false. change (cSPACE =? cQUOTE) with false.
  change (cSPACE <? 32) with false. change (is_json_ws cSPACE) with true.
  change (is_markup cSPACE) with false. change (cSPACE =? cLF) with false.
  destruct st as [a b c d]. cbn [s_bsodd s_instr s_pred s_err].
  destruct nd, a, b, c, d; reflexivity.
Qed.

Lemma fold_spaces nd : forall n st p,
  snd (s1_fold nd st p (repeat_b SP n)) = [] /\
  s_instr (fst (s1_fold nd st p (repeat_b SP n))) = s_instr st /\
  s_err (fst (s1_fold nd st p (repeat_b SP n))) = s_err st.
Proof.
  induction n as [|n IH]; intros st p.
  - cbn [repeat_b s1_fold fst snd]. repeat split; reflexivity.
  - cbn [repeat_b s1_fold]. rewrite b2n_SP, step_space. cbn [fst snd].
    destruct (IH {| s_bsodd := false; s_instr := s_instr st; s_pred := true; s_err := s_err st |} (S p))
      as [H1 [H2 H3]].
    rewrite H1, H2, H3. cbn [s_instr s_err]. repeat split; reflexivity.
Qed.

(* ------------------------------------------------------------------ *)
(* a final, short block                                                *)

Lemma mask_block_partial nd (bs : bytes) (k : kstate) (p : nat) :
  (length bs <= 64)%nat -> kstate_wf k ->
  let '(k', m) := mask_block nd k (take_pad cSPACE 64 (map b2n bs)) in
  let '(st', ps) := s1_run nd (abs_kstate k) p bs [] in
  flatten_bits p m = ps /\ kstate_wf k' /\
  s_instr (abs_kstate k') = s_instr st' /\ s_err (abs_kstate k') = s_err st' /\
  (length bs = 64%nat -> abs_kstate k' = st') /\ m < two64.
Proof.
  intros Hl Hwf.
  rewrite take_pad_app_repeat by exact Hl.
  remember (64 - length bs)%nat as n eqn:Hn.
  assert (HB : length (bs ++ repeat_b SP n) = 64%nat).
  { rewrite app_length, repeat_b_length. lia. }
  pose proof (mask_block_refines nd _ k p HB Hwf) as H.
  destruct (mask_block nd k (map b2n (bs ++ repeat_b SP n))) as [k' m].
  destruct H as [H [Hwf' Hmlt]].
  rewrite s1_run_fold in H. cbn [rev app] in H.
  rewrite s1_fold_app in H.
  rewrite s1_run_fold. cbn [rev app].
  destruct (fold_spaces nd n (fst (s1_fold nd (abs_kstate k) p bs)) (p + length bs))
    as [F1 [F2 F3]].
  rewrite F1, app_nil_r in H.
  injection H as Hst Hps.
  split; [|split; [|split; [|split; [|split]]]]; [| | | | |exact Hmlt].
  - symmetry. exact Hps.
  - exact Hwf'.
  - rewrite <- Hst. exact F2.
  - rewrite <- Hst. exact F3.
  - intros H64. rewrite <- Hst. assert (n = 0%nat) as -> by lia. reflexivity.
Qed.

(* ------------------------------------------------------------------ *)
(* all blocks                                                          *)

Definition flags_eq (a b : s1st) : Prop := s_instr a = s_instr b /\ s_err a = s_err b.

Lemma skipn_map {A B} (f : A -> B) n : forall l, skipn n (map f l) = map f (skipn n l).
Proof. induction n as [|n IH]; intros [|x l]; cbn [skipn map]; auto. Qed.

Lemma mask_blocks_refines nd : forall fuel (bs : bytes) (k : kstate) (p : nat),
  kstate_wf k ->
  let '(k', L) := mask_blocks fuel nd k p (map b2n bs) in
  let '(st', L') := s1_blocks fuel nd (abs_kstate k) p bs in
  L = L' /\ kstate_wf k' /\ flags_eq (abs_kstate k') st' /\
  ((exists q, length bs = 64 * q)%nat -> abs_kstate k' = st').
Proof.
  induction fuel as [|fuel IH]; intros bs k p Hwf.
  - cbn [mask_blocks s1_blocks]. split; [|split; [|split; [split|]]]; auto.
  - destruct bs as [|b r].
    + cbn [mask_blocks s1_blocks map]. split; [|split; [|split; [split|]]]; auto.
    + set (bs := b :: r).
      assert (Hne : exists c t, map b2n bs = c :: t) by (exists (b2n b), (map b2n r); reflexivity).
      change (mask_blocks (S fuel) nd k p (map b2n bs)) with
        (let '(st', m) := mask_block nd k (take_pad cSPACE 64 (map b2n bs)) in
         let '(st'', rest) := mask_blocks fuel nd st' (p + 64) (skipn 64 (map b2n bs)) in
         (st'', flatten_bits p m :: rest)).
      change (s1_blocks (S fuel) nd (abs_kstate k) p bs) with
        (let '(st', ps) := s1_run nd (abs_kstate k) p (firstn 64 bs) [] in
         let '(st'', rest) := s1_blocks fuel nd st' (p + 64) (skipn 64 bs) in
         (st'', ps :: rest)).
      clear Hne.
      destruct (Nat.le_gt_cases 64 (length bs)) as [Hge|Hlt].
      * (* a full block *)
        assert (Hf : length (firstn 64 bs) = 64%nat) by (rewrite firstn_length; lia).
        assert (Htp : take_pad cSPACE 64 (map b2n bs) = map b2n (firstn 64 bs)).
        { rewrite take_pad_firstn by (rewrite map_length; exact Hge). apply firstn_map. }
        rewrite Htp.
        pose proof (mask_block_refines nd (firstn 64 bs) k p Hf Hwf) as H.
        destruct (mask_block nd k (map b2n (firstn 64 bs))) as [k1 m].
        destruct H as [H [Hwf1 _]]. rewrite H.
        rewrite skipn_map.
        specialize (IH (skipn 64 bs) k1 (p + 64)%nat Hwf1).
        destruct (mask_blocks fuel nd k1 (p + 64) (map b2n (skipn 64 bs))) as [k2 L].
        destruct (s1_blocks fuel nd (abs_kstate k1) (p + 64) (skipn 64 bs)) as [st2 L'].
        destruct IH as [HL [Hwf2 [Hfl Hex]]].
        split; [|split; [|split]].
        -- rewrite HL. reflexivity.
        -- exact Hwf2.
        -- exact Hfl.
        -- intros [q Hq]. apply Hex. exists (q - 1)%nat. rewrite skipn_length. lia.
      * (* the final, short block *)
        assert (Hsk : skipn 64 bs = []) by (apply skipn_all2; lia).
        assert (Hfn : firstn 64 bs = bs) by (apply firstn_all2; lia).
        rewrite skipn_map, Hsk, Hfn. cbn [map].
        pose proof (mask_block_partial nd bs k p ltac:(lia) Hwf) as H.
        destruct (mask_block nd k (take_pad cSPACE 64 (map b2n bs))) as [k1 m].
        destruct (s1_run nd (abs_kstate k) p bs []) as [st1 ps].
        destruct H as [Hps [Hwf1 [Hi [He _]]]].
        assert (Hm : forall f kk pp, mask_blocks f nd kk pp [] = (kk, [])) by (intros [|f] kk pp; reflexivity).
        assert (Hs : forall f ss pp, s1_blocks f nd ss pp [] = (ss, [])) by (intros [|f] ss pp; reflexivity).
        rewrite Hm, Hs.
        split; [|split; [|split]].
        -- rewrite Hps. reflexivity.
        -- exact Hwf1.
        -- split; [exact Hi|exact He].
        -- intros [q Hq]. exfalso. unfold bs in Hlt, Hq. cbn [length] in Hlt, Hq. lia.
Qed.

Theorem mask_all_refines nd (msg : bytes) :
  let '(k', L) := mask_all nd msg in
  let '(st', L') := s1_all nd msg in
  L = L' /\ kstate_wf k' /\ flags_eq (abs_kstate k') st' /\
  ((exists q, length msg = 64 * q)%nat -> abs_kstate k' = st').
Proof.
  unfold mask_all, s1_all. rewrite <- abs_init.
  apply mask_blocks_refines. exact kstate_init_wf.
Qed.

(* ------------------------------------------------------------------ *)
(* the index buffers and the verdict                                   *)

Lemma s1_loop_flags : forall fuel msg f1 f2 rem blocks stripped sent total,
  flags_eq f1 f2 ->
  s1_loop fuel msg f1 rem blocks stripped sent total = s1_loop fuel msg f2 rem blocks stripped sent total.
Proof.
  induction fuel as [|fuel IH]; intros msg f1 f2 rem blocks stripped sent total [Hi He]; [reflexivity|].
  cbn [s1_loop]. rewrite Hi, He.
  destruct (rem =? 0)%nat; [reflexivity|].
  destruct (take_blocks (rem / 64) blocks match stripped with Some p => [p] | None => [] end 0)
    as [[cur1 kk] blocks1].
  destruct (if (rem - 64 * kk <=? 64)%nat
            then match blocks1 with
                 | [] => (cur1, (64 * kk)%nat, blocks1)
                 | b :: rest => if (0 <? rem - 64 * kk)%nat then (cur1 ++ b, rem, rest) else (cur1, (64 * kk)%nat, blocks1)
                 end
            else (cur1, (64 * kk)%nat, blocks1)) as [[cur2 processed] blocks2].
  destruct (rev cur2) as [|lastp before]; [reflexivity|].
  destruct (processed =? rem)%nat; [reflexivity|].
  destruct (negb (is_markup (byte_at msg lastp))); apply IH; split; assumption.
Qed.

(* stage 1 as the mask kernels compute it *)
Definition mask_buffers (nd : bool) (msg : bytes) : s1out :=
  let '(k, blocks) := mask_all nd msg in
  s1_loop (S (length blocks)) msg (abs_kstate k) (length msg) blocks None [] 0.

Theorem mask_buffers_eq nd msg : mask_buffers nd msg = s1_buffers nd msg.
Proof.
  unfold mask_buffers, s1_buffers.
  pose proof (mask_all_refines nd msg) as H.
  destruct (mask_all nd msg) as [k L]. destruct (s1_all nd msg) as [st L'].
  destruct H as [HL [_ [Hfl _]]]. subst L'.
  apply s1_loop_flags. exact Hfl.
Qed.
