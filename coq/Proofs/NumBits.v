(* NumBits.v — the specification's hand-written IEEE-754 encoder
   (Spec.Json.bits_of_sf) agrees with Flocq's bits_of_b64 on every non-NaN
   binary64 value. *)
From Coq Require Import ZArith NArith Lia.
From Coq Require Import Floats.SpecFloat.
From Flocq Require Import Core Binary Bits.
From SJ Require Import Model.Base Spec.Json.
Local Open Scope Z_scope.

Lemma bounded_emin : forall m e, SpecFloat.bounded 53 1024 m e = true -> -1074 <= e.
Proof.
  intros m e H. unfold SpecFloat.bounded in H. apply andb_prop in H. destruct H as [H _].
  unfold SpecFloat.canonical_mantissa in H. apply Zeq_bool_eq in H.
  unfold SpecFloat.fexp, SpecFloat.emin in H. lia.
Qed.

Theorem bits_of_sf_b64 : forall x : binary64,
  Binary.is_nan 53 1024 x = false ->
  Z.of_N (bits_of_sf (Binary.B2SF 53 1024 x)) = bits_of_b64 x.
Proof.
  intros [s|s|s pl H|s m e H] Hn; try discriminate Hn.
  - destruct s; reflexivity.
  - destruct s; reflexivity.
  - pose proof (bounded_emin m e H) as He.
    unfold bits_of_b64, bits_of_binary_float, Binary.B2SF, bits_of_sf, join_bits.
    rewrite !Z.shiftl_mul_pow2 by lia.
    change (2 ^ 52) with 4503599627370496. change (2 ^ 11) with 2048.
    unfold two52, Base.two63.
    destruct (Z.ltb_spec (Z.pos m) 4503599627370496) as [Hlt|Hge].
    + destruct (Zle_bool 0 (Z.pos m - 4503599627370496)) eqn:E; [apply Zle_bool_imp_le in E; lia|].
      destruct s; clear -Hlt He; lia.
    + destruct (Zle_bool 0 (Z.pos m - 4503599627370496)) eqn:E.
      2:{ apply Z.leb_gt in E. lia. }
      assert (Hnn : 0 <= (e + 1075) * 4503599627370496 + (Z.pos m - 4503599627370496)) by (clear -Hge He; lia).
      change (emin (52 + 1) (2 ^ (11 - 1))) with (-1074).
      destruct s; rewrite N2Z.inj_add, Z2N.id by exact Hnn; clear -Hge He; lia.
Qed.

(* every valid, non-NaN spec_float is the image of a Flocq binary64 *)
Lemma valid_sf_is_b64 : forall f,
  SpecFloat.valid_binary 53 1024 f = true -> f <> S754_nan ->
  exists x : binary64, Binary.B2SF 53 1024 x = f /\ Binary.is_nan 53 1024 x = false.
Proof.
  intros [s|s| |s m e] Hv Hn.
  - exists (B754_zero 53 1024 s). split; reflexivity.
  - exists (B754_infinity 53 1024 s). split; reflexivity.
  - congruence.
  - exists (B754_finite 53 1024 s m e Hv). split; reflexivity.
Qed.

Print Assumptions bits_of_sf_b64.
