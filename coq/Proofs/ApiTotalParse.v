(* ApiTotalParse.v — Object.Parse (obj_parse: the loop over NextElementBytes that
   collects every member WITHOUT descending into it) on ARBITRARY tapes: never a
   Crash and never OutOfFuel.  Before fix F19 this was false: an element whose
   open tag (root / object / array start in a member's value slot) pointed at or
   before the member's key sent the object cursor backwards and the Go loop span
   for ever (model: OutOfFuel); NextElementBytes now reports "element has
   negative offset", so every successful call moves the cursor forward. *)
From SJ Require Import Model.Base Model.RefTables Spec.Json Model.Tape Model.Iter Model.Walk.
From SJ Require Import Proofs.ApiTotalBase.
From Coq Require Import Lia ZifyBool ZifyNat ZifyN.
Open Scope Z_scope.

(* a successful NextElementBytes that hands out an element moves forward *)
Lemma next_element_progress : forall fuel pj o o' x,
  next_element fuel pj o = Ok (o', Some x) -> c_off o + 3 <= c_off o' /\ c_len o' = c_len o /\ c_off o < c_len o.
Proof.
  induction fuel as [|f IH]; intros pj o o' x H; [discriminate|].
  rewrite next_element_S in H.
  destruct (c_len o <=? c_off o) eqn:E; [discriminate|].
  destruct (rd pj (c_len o) (c_off o)) as [v| | |] eqn:Ev; cbn [obind] in H; try discriminate.
  cbv zeta in H.
  destruct (word_tag v =? TagString)%N.
  - destruct (c_len o <=? c_off o + 2); [discriminate|].
    destruct (rd pj (c_len o) (c_off o + 1)) as [len| | |]; cbn [obind] in H; try discriminate.
    destruct (string_byte_at pj (word_val v) len) as [name| | |]; cbn [obind] in H; try discriminate.
    destruct (rd pj (c_len o) (c_off o + 2)) as [v2| | |]; cbn [obind] in H; try discriminate.
    destruct (calc_next false (c_off o + 2 + 1) (word_val v2) (word_tag v2) <? 0) eqn:Ea; [discriminate|].
    destruct (c_len o <? c_off o + 2 + 1 + calc_next false (c_off o + 2 + 1) (word_val v2) (word_tag v2)); [discriminate|].
    destruct (c_off o + 2 + 1 + calc_next false (c_off o + 2 + 1) (word_val v2) (word_tag v2) <? 0); [discriminate|].
    injection H as <- _. cbn [c_off c_len]. lia.
  - destruct (word_tag v =? TagObjectEnd)%N; [discriminate|].
    destruct (word_tag v =? TagNop)%N; [|discriminate].
    destruct (word_val v =? 0)%N eqn:Ez; [discriminate|].
    apply IH in H. cbn [c_off c_len] in H. lia.
Qed.

Lemma obj_parse_loop_total : forall k pj ob acc,
  cont_ok pj ob -> (Z.to_nat (c_len ob - c_off ob) < k)%nat ->
  okP false (fun _ => True) (obj_parse_loop k pj ob acc).
Proof.
  induction k as [|k IH]; intros pj ob acc Hok Hk; [lia|].
  cbn [obj_parse_loop].
  pose proof (next_element_total' pj ob Hok) as Hn.
  destruct (next_element (cont_fuel ob) pj ob) as [[ob' [[[name el] ty]|]]| | |] eqn:E; cbn [obind okP] in *; auto.
  apply IH.
  - apply Hn.
  - apply next_element_progress in E. destruct Hok as [[? ?] ?]. lia.
Qed.

Theorem obj_parse_total : forall pj o, cont_ok pj o -> okP false (fun _ => True) (obj_parse pj o).
Proof.
  intros pj o Hok. unfold obj_parse. apply obj_parse_loop_total; [exact Hok|].
  unfold cont_fuel. destruct Hok as [[? ?] ?]. lia.
Qed.

(* the tape of the finding: {"a":<root tag pointing at the key>, ...}: NextElementBytes
   refuses the member instead of stepping back onto its key *)
Example f19_backward_member_is_an_error :
  let w (t : N) (v : N) := (N.shiftl t 56 + v)%N in
  let pj := {| pj_tape := ([w 114 12; w 123 11; w 34 0; 1; w 114 2; 0; w 34 1; 1; w 108 0; 3; w 125 1; w 114 0])%N;
               pj_strings := []; pj_msg := [Byte.x61; Byte.x62] |} in
  obj_parse pj {| c_len := 11; c_off := 2 |} = Err.
Proof. vm_compute. reflexivity. Qed.
