(* SerLock.v — the hash-independent core of the round trip.
   [enc SB off rest tags vals]: the tag stream and the value stream encode the
   tape suffix [rest] (at index [off]) with string references into the buffer
   [SB] — what Serialize produces for any hash, and what [ser_check] checks.
   [lockstep]: on a flat-well-formed tape Deserialize accepts every such
   encoding and rebuilds a tape related to the original by [R]. *)
From Coq Require Import ZifyBool ZifyN ZifyNat.
From SJ Require Import Model.Base Model.RefTables Spec.Json Model.Tape Model.Iter Model.WF Model.Serialize.
From SJ Require Import Proofs.StrArith Proofs.Stage2Base Proofs.DeserSafe Proofs.SerBase Proofs.SerFlat Proofs.SerDen Proofs.SerSteps.
Open Scope N_scope.

(* ------------------------------------------------------------------ *)
(* stack invariants                                                     *)

Inductive sorted : stack -> Prop :=
| sorted_nil : sorted []
| sorted_cons q v t stk : in_bound stk v -> sorted stk -> sorted ((q, v, t) :: stk).

Definition above (stk : stack) (j : N) : Prop := forall q v t, In (q, v, t) stk -> j < v.

Lemma in_bound_above stk : sorted stk -> forall j, in_bound stk j -> above stk j.
Proof.
  induction 1 as [|q v t stk Hb Hs IH]; intros j Hj q' v' t' Hin.
  - destruct Hin.
  - cbn [in_bound] in Hj. destruct Hin as [Hin|Hin].
    + injection Hin as <- <- <-. exact Hj.
    + refine (IH j _ q' v' t' Hin). eapply in_bound_le; [|exact Hb]. lia.
Qed.

(* closing words of the open containers have already been written *)
Definition pending (D : list N) (stk : stack) : Prop :=
  forall q v t, In (q, v, t) stk -> t <> TagRoot ->
    get D (v - 1) = Some (mk_word (tagOpenToClose_ref t) q).

Lemma pending_set D stk j p w : pending D stk -> above stk j -> p < j -> pending (tape_set D p w) stk.
Proof.
  intros Hp Ha Hpj q v t Hin Ht. specialize (Ha _ _ _ Hin).
  rewrite get_set_ne by lia. apply (Hp _ _ _ Hin Ht).
Qed.

Lemma string_at_length m st p len s : string_at m st p len = Some s -> N.of_nat (length s) = len.
Proof.
  unfold string_at. destruct (N.land p STRINGBUFBIT =? 0); intros H; apply slice_length in H; tauto.
Qed.

Lemma one_tag_open t : is_opent t -> one_tag t.
Proof. intros [ -> | [ -> | -> ] ]; repeat split. Qed.

(* ------------------------------------------------------------------ *)
(* encodings                                                            *)

Section Enc.
Variables (msg strs SB : bytes).

Inductive enc : N -> list N -> bytes -> list N -> Prop :=
| enc_nil off : enc off [] [] []
| enc_nop off w r tg vl : word_tag w = TagNop -> enc (off + 1) r tg vl ->
    enc off (w :: r) (n2b TagNop :: tg) vl
| enc_str off w len r o s tg vl : word_tag w = TagString ->
    string_at msg strs (word_val w) len = Some s -> slice SB o len = Some s ->
    enc (off + 2) r tg vl -> enc off (w :: len :: r) (n2b TagString :: tg) (o :: len :: vl)
| enc_num off w v r tg vl : word_tag w = TagInteger \/ word_tag w = TagUint ->
    enc (off + 2) r tg vl -> enc off (w :: v :: r) (n2b (word_tag w) :: tg) (v :: vl)
| enc_flt0 off w v r tg vl : word_tag w = TagFloat -> word_val w = 0 ->
    enc (off + 2) r tg vl -> enc off (w :: v :: r) (n2b TagFloat :: tg) (v :: vl)
| enc_flt1 off w v r tg vl : word_tag w = TagFloat -> word_val w <> 0 ->
    enc (off + 2) r tg vl -> enc off (w :: v :: r) (n2b tagFloatWithFlag :: tg) (w :: v :: vl)
| enc_atom off w r tg vl : word_tag w = TagNull \/ word_tag w = TagBoolTrue \/ word_tag w = TagBoolFalse ->
    enc (off + 1) r tg vl -> enc off (w :: r) (n2b (word_tag w) :: tg) vl
| enc_open off w r tg vl : is_opent (word_tag w) ->
    enc (off + 1) r tg vl -> enc off (w :: r) (n2b (word_tag w) :: tg) (w64 (word_val w + two64 - off) :: vl)
| enc_close off w r tg vl : word_tag w = TagObjectEnd \/ word_tag w = TagArrayEnd \/ word_tag w = TagEnd ->
    enc (off + 1) r tg vl -> enc off (w :: r) (n2b (word_tag w) :: tg) vl.

Ltac tagc :=
  unfold is_opent, TagNop, TagString, TagInteger, TagUint, TagFloat, TagNull, TagBoolTrue, TagBoolFalse,
         TagObjectStart, TagObjectEnd, TagArrayStart, TagArrayEnd, TagRoot, TagEnd in *;
  intuition congruence.

Lemma enc_inv_nil off tg vl : enc off [] tg vl -> tg = [] /\ vl = [].
Proof. intros H. inversion H. auto. Qed.

Lemma enc_inv_nop off w r tg vl : word_tag w = TagNop -> enc off (w :: r) tg vl ->
  exists tg1, tg = n2b TagNop :: tg1 /\ enc (off + 1) r tg1 vl.
Proof. intros Ht H. inversion H; subst; try (exfalso; tagc). eauto. Qed.

Lemma enc_inv_str off w len r tg vl : word_tag w = TagString -> enc off (w :: len :: r) tg vl ->
  exists o s tg1 vl1, tg = n2b TagString :: tg1 /\ vl = o :: len :: vl1 /\
    string_at msg strs (word_val w) len = Some s /\ slice SB o len = Some s /\ enc (off + 2) r tg1 vl1.
Proof. intros Ht H. inversion H; subst; try (exfalso; tagc). eauto 10. Qed.

Lemma enc_inv_num off w v r tg vl : word_tag w = TagInteger \/ word_tag w = TagUint ->
  enc off (w :: v :: r) tg vl ->
  exists tg1 vl1, tg = n2b (word_tag w) :: tg1 /\ vl = v :: vl1 /\ enc (off + 2) r tg1 vl1.
Proof. intros Ht H. inversion H; subst; try (exfalso; tagc). eauto 10. Qed.

Lemma enc_inv_flt off w v r tg vl : word_tag w = TagFloat -> enc off (w :: v :: r) tg vl ->
  (word_val w = 0 /\ exists tg1 vl1, tg = n2b TagFloat :: tg1 /\ vl = v :: vl1 /\ enc (off + 2) r tg1 vl1) \/
  (word_val w <> 0 /\ exists tg1 vl1, tg = n2b tagFloatWithFlag :: tg1 /\ vl = w :: v :: vl1 /\ enc (off + 2) r tg1 vl1).
Proof.
  intros Ht H. inversion H; subst; try (exfalso; tagc).
  - left. eauto 10.
  - right. eauto 10.
Qed.

Lemma enc_inv_atom off w r tg vl :
  word_tag w = TagNull \/ word_tag w = TagBoolTrue \/ word_tag w = TagBoolFalse -> enc off (w :: r) tg vl ->
  exists tg1, tg = n2b (word_tag w) :: tg1 /\ enc (off + 1) r tg1 vl.
Proof. intros Ht H. inversion H; subst; try (exfalso; tagc). eauto. Qed.

Lemma enc_inv_open off w r tg vl : is_opent (word_tag w) -> enc off (w :: r) tg vl ->
  exists tg1 vl1, tg = n2b (word_tag w) :: tg1 /\ vl = w64 (word_val w + two64 - off) :: vl1 /\ enc (off + 1) r tg1 vl1.
Proof. intros Ht H. inversion H; subst; try (exfalso; tagc). eauto 10. Qed.

Lemma enc_inv_close off w r tg vl : word_tag w = TagObjectEnd \/ word_tag w = TagArrayEnd ->
  enc off (w :: r) tg vl ->
  exists tg1, tg = n2b (word_tag w) :: tg1 /\ enc (off + 1) r tg1 vl.
Proof. intros Ht H. inversion H; subst; try (exfalso; tagc). eauto. Qed.

Lemma enc_nops : forall ns off r tg vl, Forall (fun w => word_tag w = TagNop) ns ->
  enc off (ns ++ r) tg vl ->
  exists tg1, tg = repeat (n2b TagNop) (length ns) ++ tg1 /\ enc (off + N.of_nat (length ns)) r tg1 vl.
Proof.
  induction ns as [|w ns IH]; intros off r tg vl Hall H.
  - exists tg. cbn [length repeat app] in *. rewrite N.add_0_r. auto.
  - inversion Hall as [|? ? Hw Hns]; subst. cbn [app] in H.
    destruct (enc_inv_nop _ _ _ _ _ Hw H) as (tg1 & -> & H1).
    destruct (IH _ _ _ _ Hns H1) as (tg2 & -> & H2).
    exists tg2. split; [reflexivity|]. cbn [length].
    replace (off + N.of_nat (S (length ns))) with (off + 1 + N.of_nat (length ns)) by lia. exact H2.
Qed.

(* the first tag of a non-NOP word is not the NOP tag *)
Lemma enc_head_tag off w r tg vl : (word_tag w =? TagNop) = false -> enc off (w :: r) tg vl ->
  exists tb tr, tg = tb :: tr /\ (b2n tb =? TagNop) = false.
Proof.
  intros Hn H.
  assert (Hb : forall t, t < 256 -> (t =? TagNop) = false -> (b2n (n2b t) =? TagNop) = false).
  { intros t Ht Htn. rewrite b2n_n2b_small by exact Ht. exact Htn. }
  inversion H; subst; eexists _, _; (split; [reflexivity|]).
  - exfalso. apply N.eqb_neq in Hn. tagc.
  - reflexivity.
  - match goal with H : _ \/ _ |- _ => destruct H as [E|E]; rewrite E; reflexivity end.
  - reflexivity.
  - reflexivity.
  - match goal with H : _ \/ _ |- _ => destruct H as [E|[E|E]]; rewrite E; reflexivity end.
  - match goal with H : is_opent _ |- _ => destruct H as [E|[E|E]]; rewrite E; reflexivity end.
  - match goal with H : _ \/ _ |- _ => destruct H as [E|[E|E]]; rewrite E; reflexivity end.
Qed.

(* ------------------------------------------------------------------ *)
(* the simulation                                                       *)

Notation nmsg := (N.of_nat (length msg)).
Notation nstr := (N.of_nat (length strs)).

Hypothesis HSB : N.of_nat (length SB) < STRINGBUFBIT.

Theorem lockstep : forall stk off rest, flat_ok nmsg nstr stk off rest ->
  forall tg vl D fuel,
  enc off rest tg vl ->
  N.of_nat (length D) = off + N.of_nat (length rest) ->
  N.of_nat (length D) < two56 ->
  (length tg < fuel)%nat ->
  sorted stk -> (forall q v t, In (q, v, t) stk -> q < off /\ is_opent t) -> pending D stk ->
  exists stF DF, deser_loop fuel tg (mkst D off vl 0) = Ok stF /\ deser_fin stF = Ok DF /\
    (forall p, p < off -> get DF p = get D p) /\ R msg strs SB rest (skipn (N.to_nat off) DF).
Proof.
  induction 1 as [off|stk off ns r Hne Hns Hh H IH|stk off w len r Ht Hs Hb H IH|stk off w v r Ht Hv Hb H IH
                 |stk off w v r Ht Hb H IH|stk off w r Ht Hv Hb H IH|stk off w r Ht Hb H IH|stk off w r q t Ht Hw Hq H IH];
    intros tg vl D fuel Henc HlenD Hlen56 Hfuel Hsorted Hstk Hpend.
  - (* end of tape *)
    destruct (enc_inv_nil _ _ _ Henc) as [-> ->].
    destruct fuel as [|fuel]; [cbn [length] in Hfuel; lia|].
    exists (mkst D off [] 0), D. split; [reflexivity|].
    split; [apply deser_fin_0; cbn [length] in HlenD; lia|]. split; [auto|].
    rewrite skipn_all2 by (cbn [length] in HlenD; lia). constructor.
  - (* a block of NOP runs *)
    destruct (enc_nops _ _ _ _ _ (nruns_all_nop _ Hns) Henc) as (tg1 & -> & Es).
    set (k := length ns) in *.
    assert (Hk : (0 < k)%nat) by (subst k; destruct ns; [congruence|cbn [length]; lia]).
    rewrite app_length in HlenD. fold k in HlenD.
    rewrite app_length, repeat_length in Hfuel.
    replace fuel with (k + (fuel - k))%nat by lia.
    rewrite steps_nops by lia. rewrite N.add_0_l.
    pose proof (flush_nops_spec k D off ltac:(lia)) as Hfl. cbv zeta in Hfl.
    destruct Hfl as [Hfl1 Hfl2].
    pose proof (flush_nops_length k D off (N.of_nat k)) as Hfll.
    destruct r as [|w0 r0].
    + (* trailing NOPs: flushed after the loop *)
      destruct (enc_inv_nil _ _ _ Es) as [-> ->].
      destruct (fuel - k)%nat as [|f'] eqn:Ef; [cbn [length] in Hfuel; lia|].
      exists (mkst D off [] (N.of_nat k)), (fst (flush_nops k D off (N.of_nat k))).
      split; [reflexivity|].
      split; [rewrite deser_fin_k by (cbn [length] in HlenD; lia); rewrite Nat2N.id; reflexivity|].
      split; [intros p Hp; apply Hfl1; lia|].
      rewrite (skipn_nrun k _ off) by exact Hfl2.
      rewrite skipn_all2 by (rewrite Hfll; cbn [length] in HlenD; lia).
      apply R_nops; try assumption; try reflexivity; [lia|constructor].
    + (* flushed when the next tag is read *)
      cbn [head_not_nop] in Hh.
      destruct (enc_head_tag _ _ _ _ _ Hh Es) as (tb & tr & -> & Htb).
      destruct (fuel - k)%nat as [|f'] eqn:Ef; [cbn [length] in Hfuel; lia|].
      cbn [length] in HlenD.
      rewrite step_flush by (try exact Htb; lia). rewrite Nat2N.id.
      set (D1 := fst (flush_nops k D off (N.of_nat k))) in *.
      pose proof (flat_ok_bound _ _ _ _ _ H) as Hbnd.
      pose proof (in_bound_above _ Hsorted _ Hbnd) as Hab.
      destruct (IH (tb :: tr) vl D1 (S f') Es) as (stF & DF & H1 & H2 & H3 & H4).
      * subst D1. rewrite Hfll. cbn [length]. lia.
      * subst D1. rewrite Hfll. exact Hlen56.
      * cbn [length] in *. lia.
      * exact Hsorted.
      * intros q v t Hin. destruct (Hstk _ _ _ Hin). split; [lia|assumption].
      * intros q v t Hin Ht. specialize (Hab _ _ _ Hin). subst D1. rewrite Hfl1 by lia.
        apply (Hpend _ _ _ Hin Ht).
      * exists stF, DF. split; [exact H1|]. split; [exact H2|].
        split; [intros p Hp; rewrite H3 by lia; apply Hfl1; lia|].
        rewrite (skipn_nrun k _ off).
        2:{ intros j Hj. rewrite H3 by lia. apply Hfl2. exact Hj. }
        apply R_nops; try assumption; try reflexivity; lia.
  - (* string *)
    destruct (enc_inv_str _ _ _ _ _ _ Ht Henc) as (o & s & tg1 & vl1 & -> & -> & Hsa & Hsl & Es).
    destruct (slice_length _ _ _ _ Hsl) as [_ Hob].
    assert (Ho : o < STRINGBUFBIT) by lia.
    cbn [length] in HlenD. cbn [length] in Hfuel.
    destruct fuel as [|fuel]; [lia|].
    rewrite step_string by (unfold JSONVALUEMASK, STRINGBUFBIT in *; lia).
    rewrite lor_mk by (unfold two56, STRINGBUFBIT in *; lia).
    pose proof (in_bound_above _ Hsorted _ Hb) as Hab.
    set (D1 := tape_set (tape_set D off (mk_word TagString o)) (off + 1) len).
    destruct (IH tg1 vl1 D1 fuel Es) as (stF & DF & H1 & H2 & H3 & H4).
    + subst D1. rewrite !tape_set_length. lia.
    + subst D1. rewrite !tape_set_length. exact Hlen56.
    + lia.
    + exact Hsorted.
    + intros q v t Hin. destruct (Hstk _ _ _ Hin). split; [lia|assumption].
    + subst D1. eapply pending_set; [eapply pending_set; [exact Hpend|exact Hab|lia]|exact Hab|lia].
    + exists stF, DF. split; [exact H1|]. split; [exact H2|].
      split; [intros p Hp; rewrite H3 by lia; subst D1; rewrite !get_set_ne by lia; reflexivity|].
      assert (G0 : get DF off = Some (mk_word TagString o)).
      { rewrite H3 by lia. subst D1. rewrite get_set_ne by lia. apply get_set_eq. lia. }
      assert (G1 : get DF (off + 1) = Some len).
      { rewrite H3 by lia. subst D1. apply get_set_eq. rewrite tape_set_length. lia. }
      rewrite (skipn_get _ _ _ G0), (skipn_get _ _ _ G1).
      replace (off + 1 + 1) with (off + 2) by lia.
      apply (R_str _ _ _ w len r (mk_word TagString o) _ s); try assumption.
      * apply word_tag_mk. unfold two56, STRINGBUFBIT in *. lia.
      * rewrite word_val_mk by (unfold two56, STRINGBUFBIT in *; lia).
        unfold string_at. rewrite land_bufbit_small by exact Ho. change (0 =? 0) with true. cbv iota.
        exact Hsl.
  - (* integer *)
    destruct (enc_inv_num _ _ _ _ _ _ Ht Henc) as (tg1 & vl1 & -> & -> & Es).
    cbn [length] in HlenD. cbn [length] in Hfuel.
    destruct fuel as [|fuel]; [lia|].
    rewrite step_num by (try lia; destruct Ht as [Ht|Ht]; auto).
    rewrite <- (word_of_tag_val w _ _ eq_refl Hv).
    pose proof (in_bound_above _ Hsorted _ Hb) as Hab.
    set (D1 := tape_set (tape_set D off w) (off + 1) v).
    destruct (IH tg1 vl1 D1 fuel Es) as (stF & DF & H1 & H2 & H3 & H4).
    + subst D1. rewrite !tape_set_length. lia.
    + subst D1. rewrite !tape_set_length. exact Hlen56.
    + lia.
    + exact Hsorted.
    + intros q v0 t Hin. destruct (Hstk _ _ _ Hin). split; [lia|assumption].
    + subst D1. eapply pending_set; [eapply pending_set; [exact Hpend|exact Hab|lia]|exact Hab|lia].
    + exists stF, DF. split; [exact H1|]. split; [exact H2|].
      split; [intros p Hp; rewrite H3 by lia; subst D1; rewrite !get_set_ne by lia; reflexivity|].
      assert (G0 : get DF off = Some w).
      { rewrite H3 by lia. subst D1. rewrite get_set_ne by lia. apply get_set_eq. lia. }
      assert (G1 : get DF (off + 1) = Some v).
      { rewrite H3 by lia. subst D1. apply get_set_eq. rewrite tape_set_length. lia. }
      rewrite (skipn_get _ _ _ G0), (skipn_get _ _ _ G1).
      replace (off + 1 + 1) with (off + 2) by lia.
      apply R_two; [|exact H4]. unfold two_tag. tauto.
  - (* float *)
    cbn [length] in HlenD.
    pose proof (in_bound_above _ Hsorted _ Hb) as Hab.
    set (D1 := tape_set (tape_set D off w) (off + 1) v).
    assert (Hstep : exists tg1 vl1, enc (off + 2) r tg1 vl1 /\
              (length tg1 < fuel - 1)%nat /\
              deser_loop fuel tg (mkst D off vl 0) = deser_loop (fuel - 1) tg1 (mkst D1 (off + 2) vl1 0)).
    { destruct (enc_inv_flt _ _ _ _ _ _ Ht Henc) as [[Ev (tg1 & vl1 & -> & -> & Es)]|[Ev (tg1 & vl1 & -> & -> & Es)]].
      - exists tg1, vl1. cbn [length] in Hfuel.
        destruct fuel as [|fuel]; [lia|]. split; [exact Es|]. split; [lia|].
        rewrite step_num by (try lia; auto). rewrite <- (word_of_tag_val w _ _ Ht Ev).
        replace (S fuel - 1)%nat with fuel by lia. reflexivity.
      - exists tg1, vl1. cbn [length] in Hfuel.
        destruct fuel as [|fuel]; [lia|]. split; [exact Es|]. split; [lia|].
        rewrite step_fltflag by (try lia; exact Ht).
        replace (S fuel - 1)%nat with fuel by lia. reflexivity. }
    destruct Hstep as (tg1 & vl1 & Es & Hf1 & Hstep). rewrite Hstep.
    destruct (IH tg1 vl1 D1 (fuel - 1)%nat Es) as (stF & DF & H1 & H2 & H3 & H4).
    + subst D1. rewrite !tape_set_length. lia.
    + subst D1. rewrite !tape_set_length. exact Hlen56.
    + exact Hf1.
    + exact Hsorted.
    + intros q v0 t Hin. destruct (Hstk _ _ _ Hin). split; [lia|assumption].
    + subst D1. eapply pending_set; [eapply pending_set; [exact Hpend|exact Hab|lia]|exact Hab|lia].
    + exists stF, DF. split; [exact H1|]. split; [exact H2|].
      split; [intros p Hp; rewrite H3 by lia; subst D1; rewrite !get_set_ne by lia; reflexivity|].
      assert (G0 : get DF off = Some w).
      { rewrite H3 by lia. subst D1. rewrite get_set_ne by lia. apply get_set_eq. lia. }
      assert (G1 : get DF (off + 1) = Some v).
      { rewrite H3 by lia. subst D1. apply get_set_eq. rewrite tape_set_length. lia. }
      rewrite (skipn_get _ _ _ G0), (skipn_get _ _ _ G1).
      replace (off + 1 + 1) with (off + 2) by lia.
      apply R_two; [|exact H4]. unfold two_tag. tauto.
  - (* null / true / false *)
    destruct (enc_inv_atom _ _ _ _ _ Ht Henc) as (tg1 & -> & Es).
    cbn [length] in HlenD. cbn [length] in Hfuel.
    destruct fuel as [|fuel]; [lia|].
    rewrite step_atom by (try lia; exact Ht).
    rewrite <- (word_of_tag_val w _ _ eq_refl Hv).
    pose proof (in_bound_above _ Hsorted _ Hb) as Hab.
    set (D1 := tape_set D off w).
    destruct (IH tg1 vl D1 fuel Es) as (stF & DF & H1 & H2 & H3 & H4).
    + subst D1. rewrite !tape_set_length. lia.
    + subst D1. rewrite !tape_set_length. exact Hlen56.
    + lia.
    + exact Hsorted.
    + intros q v0 t Hin. destruct (Hstk _ _ _ Hin). split; [lia|assumption].
    + subst D1. eapply pending_set; [exact Hpend|exact Hab|lia].
    + exists stF, DF. split; [exact H1|]. split; [exact H2|].
      split; [intros p Hp; rewrite H3 by lia; subst D1; rewrite !get_set_ne by lia; reflexivity|].
      assert (G0 : get DF off = Some w).
      { rewrite H3 by lia. subst D1. apply get_set_eq. lia. }
      rewrite (skipn_get _ _ _ G0).
      apply R_one; [|exact H4].
      destruct Ht as [E|[E|E]]; rewrite E; repeat split.
  - (* opening word of a container or root *)
    destruct (enc_inv_open _ _ _ _ _ Ht Henc) as (tg1 & vl1 & -> & -> & Es).
    cbn [length] in HlenD. cbn [length] in Hfuel.
    destruct fuel as [|fuel]; [lia|].
    pose proof (flat_ok_bound _ _ _ _ _ H) as Hbnd. cbn [in_bound] in Hbnd.
    pose proof (flat_ok_top_le _ _ _ _ _ _ _ _ H) as Htop.
    pose proof (in_bound_above _ Hsorted _ Hb) as Hab.
    assert (Hsorted' : sorted ((off, word_val w, word_tag w) :: stk)) by (constructor; assumption).
    assert (Hstk' : forall q v t, In (q, v, t) ((off, word_val w, word_tag w) :: stk) -> q < off + 1 /\ is_opent t).
    { intros q v t [Hin|Hin].
      - injection Hin as <- <- <-. split; [lia|exact Ht].
      - destruct (Hstk _ _ _ Hin). split; [lia|assumption]. }
    assert (Hcont : forall D1, length D1 = length D -> get D1 off = Some w ->
              (forall p, p < off -> get D1 p = get D p) ->
              pending D1 ((off, word_val w, word_tag w) :: stk) ->
              exists stF DF, deser_loop fuel tg1 (mkst D1 (off + 1) vl1 0) = Ok stF /\ deser_fin stF = Ok DF /\
                (forall p, p < off -> get DF p = get D p) /\
                R msg strs SB (w :: r) (skipn (N.to_nat off) DF)).
    { intros D1 Hl1 Hg1 Hfr Hp1.
      destruct (IH tg1 vl1 D1 fuel Es) as (stF & DF & H1 & H2 & H3 & H4);
        try assumption; try (rewrite Hl1; lia); try lia.
      exists stF, DF. split; [exact H1|]. split; [exact H2|].
      split; [intros p Hp; rewrite H3 by lia; apply Hfr; exact Hp|].
      assert (G0 : get DF off = Some w) by (rewrite H3 by lia; exact Hg1).
      rewrite (skipn_get _ _ _ G0). apply R_one; [apply one_tag_open; exact Ht|exact H4]. }
    destruct Ht as [E|[E|E]].
    + (* object *)
      rewrite step_open by (rewrite ?E; auto; lia). rewrite word_eta.
      apply Hcont.
      * rewrite !tape_set_length. reflexivity.
      * rewrite get_set_ne by lia. apply get_set_eq. lia.
      * intros p Hp. rewrite !get_set_ne by lia. reflexivity.
      * intros q v t [Hin|Hin] Hnr.
        -- injection Hin as <- <- <-. apply get_set_eq. rewrite tape_set_length. lia.
        -- pose proof (Hab _ _ _ Hin). rewrite !get_set_ne by lia. apply (Hpend _ _ _ Hin Hnr).
    + (* array *)
      rewrite step_open by (rewrite ?E; auto; lia). rewrite word_eta.
      apply Hcont.
      * rewrite !tape_set_length. reflexivity.
      * rewrite get_set_ne by lia. apply get_set_eq. lia.
      * intros p Hp. rewrite !get_set_ne by lia. reflexivity.
      * intros q v t [Hin|Hin] Hnr.
        -- injection Hin as <- <- <-. apply get_set_eq. rewrite tape_set_length. lia.
        -- pose proof (Hab _ _ _ Hin). rewrite !get_set_ne by lia. apply (Hpend _ _ _ Hin Hnr).
    + (* opening root *)
      replace (n2b (word_tag w)) with (n2b TagRoot) by (rewrite E; reflexivity).
      rewrite step_root by lia. rewrite <- E, word_eta.
      apply Hcont.
      * rewrite !tape_set_length. reflexivity.
      * apply get_set_eq. lia.
      * intros p Hp. rewrite !get_set_ne by lia. reflexivity.
      * intros q v t [Hin|Hin] Hnr.
        -- injection Hin as <- <- <-. congruence.
        -- pose proof (Hab _ _ _ Hin). rewrite !get_set_ne by lia. apply (Hpend _ _ _ Hin Hnr).
  - (* closing word *)
    cbn [length] in HlenD.
    inversion Hsorted as [|q0 v0 t0 stk0 Hb0 Hs0]; subst.
    pose proof (in_bound_above _ Hs0 _ Hb0) as Hab.
    assert (Hstk0 : forall q v t0, In (q, v, t0) stk -> q < off + 1 /\ is_opent t0).
    { intros q v t0 Hin. destruct (Hstk q v t0 (or_intror Hin)). split; [lia|assumption]. }
    destruct (Hstk _ _ _ (or_introl eq_refl)) as [Hqoff _].
    assert (Hcont : forall tg1 vl1 D1, enc (off + 1) r tg1 vl1 ->
              (length tg1 < fuel - 1)%nat ->
              deser_loop fuel tg (mkst D off vl 0) = deser_loop (fuel - 1) tg1 (mkst D1 (off + 1) vl1 0) ->
              length D1 = length D -> get D1 off = Some w ->
              (forall p, p <> off -> get D1 p = get D p) ->
              exists stF DF, deser_loop fuel tg (mkst D off vl 0) = Ok stF /\ deser_fin stF = Ok DF /\
                (forall p, p < off -> get DF p = get D p) /\
                R msg strs SB (w :: r) (skipn (N.to_nat off) DF)).
    { intros tg1 vl1 D1 Es Hf1 Hstep Hl1 Hg1 Hfr.
      destruct (IH tg1 vl1 D1 (fuel - 1)%nat Es) as (stF & DF & H1 & H2 & H3 & H4);
        try assumption; try (rewrite Hl1; lia).
      { intros q v t1 Hin Hnr. pose proof (Hab _ _ _ Hin). rewrite Hfr by lia.
        apply (Hpend q v t1 (or_intror Hin) Hnr). }
      exists stF, DF. split; [rewrite Hstep; exact H1|]. split; [exact H2|].
      split; [intros p Hp; rewrite H3 by lia; apply Hfr; lia|].
      assert (G0 : get DF off = Some w) by (rewrite H3 by lia; exact Hg1).
      rewrite (skipn_get _ _ _ G0). apply R_one; [|exact H4].
      destruct Ht as [E|[E|E]]; rewrite E in Hw; rewrite Hw; repeat split. }
    assert (Hclose : t <> TagRoot -> word_tag w = TagObjectEnd \/ word_tag w = TagArrayEnd ->
              exists stF DF, deser_loop fuel tg (mkst D off vl 0) = Ok stF /\ deser_fin stF = Ok DF /\
                (forall p, p < off -> get DF p = get D p) /\
                R msg strs SB (w :: r) (skipn (N.to_nat off) DF)).
    { intros Hnr Hwt.
      destruct (enc_inv_close _ _ _ _ _ Hwt Henc) as (tg1 & -> & Es). cbn [length] in Hfuel.
      destruct fuel as [|fuel]; [lia|].
      pose proof (Hpend _ _ _ (or_introl eq_refl) Hnr) as Hg.
      replace (off + 1 - 1) with off in Hg by lia. rewrite <- Hw in Hg.
      apply (Hcont tg1 vl D Es); try reflexivity; [lia| | ].
      - rewrite (step_close _ _ _ _ _ (word_val w)) by (try exact Hwt; try exact Hg; apply word_val_lt).
        replace (S fuel - 1)%nat with fuel by lia. reflexivity.
      - rewrite Hg. f_equal. apply word_eta. }
    destruct Ht as [E|[E|E]]; subst t.
    + apply Hclose; [discriminate|left; exact Hw].
    + apply Hclose; [discriminate|right; exact Hw].
    + (* closing root: an ordinary relative offset *)
      change (tagOpenToClose_ref TagRoot) with TagRoot in Hw.
      destruct (enc_inv_open _ _ _ _ _ (or_intror (or_intror Hw)) Henc) as (tg1 & vl1 & -> & -> & Es).
      cbn [length] in Hfuel.
      destruct fuel as [|fuel]; [lia|].
      apply (Hcont tg1 vl1 (tape_set D off w) Es); [lia| | | |].
      * rewrite Hw. rewrite step_root by lia.
        replace (S fuel - 1)%nat with fuel by lia.
        rewrite <- Hw, word_eta. reflexivity.
      * apply tape_set_length.
      * apply get_set_eq. lia.
      * intros p Hp. apply get_set_ne. congruence.
Qed.

(* the whole tape, from the initial state of [deser_core]; the value section
   is any byte string made of whole 8-byte words and the destination tape
   may hold anything (Deserialize overwrites every word) *)
Theorem deser_core_enc_bytes : forall T init tags vb,
  flat_ok nmsg nstr [] 0 T -> enc 0 T tags (le_words (S (length vb)) vb) ->
  N.of_nat (length vb) = 8 * N.of_nat (length (le_words (S (length vb)) vb)) ->
  N.of_nat (length T) < two56 -> length init = length T ->
  exists t', deser_core init tags vb = Ok t' /\ R msg strs SB T t'.
Proof.
  intros T init tags vb Hflat Henc Hvb Hlen Hinit.
  rewrite deser_core_fin. rewrite Hvb.
  set (vals := le_words (S (length vb)) vb) in *.
  change {| d_tape := init; d_off := 0; d_vals := vals;
            d_vrem := 8 * N.of_nat (length vals); d_skips := 0 |}
    with (mkst init 0 vals 0).
  destruct (lockstep [] 0 T Hflat tags vals init (S (length tags)) Henc) as (stF & DF & H1 & H2 & H3 & H4).
  - rewrite Hinit. lia.
  - rewrite Hinit. exact Hlen.
  - lia.
  - constructor.
  - intros q v t [].
  - intros q v t [].
  - rewrite H1. exists DF. split; [exact H2|]. exact H4.
Qed.

Theorem deser_core_enc : forall T init tags vals,
  flat_ok nmsg nstr [] 0 T -> enc 0 T tags vals ->
  N.of_nat (length T) < two56 -> Forall (fun v => v < two64) vals -> length init = length T ->
  exists t', deser_core init tags (bytes_of_words vals) = Ok t' /\ R msg strs SB T t'.
Proof.
  intros T init tags vals Hflat Henc Hlen Hvals Hinit.
  apply deser_core_enc_bytes; try assumption.
  - rewrite le_words_bytes_of_words' by exact Hvals. exact Henc.
  - rewrite le_words_bytes_of_words' by exact Hvals. rewrite bytes_of_words_length. lia.
Qed.

End Enc.
