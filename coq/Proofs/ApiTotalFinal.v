(* ApiTotalFinal.v — second sentences of C05 and C19: on any returned result
   (in particular a tape rebuilt by Deserialize from attacker-controlled bytes)
   every traversal, lookup and marshalling call terminates without panic.

   Everything below is for an ARBITRARY pj: any tape words, any string buffer,
   any message.  No well-formedness is assumed; a Deserialize result is just one
   instance.  Iterators range over [iter_ok pj]: the invariant satisfied by the
   root iterator and preserved by every API call (closure theorems below), so
   it covers every position reachable through the API.

   Summary
   - Advance, AdvanceInto, AdvanceIter, PeekNextTag, Root, Object, Array, the
     typed accessors, NextElementBytes, FindKey, FindPath, FindElement,
     Object.ForEach, Array.ForEach, AsFloat/AsInteger/AsUint64, AsString,
     MarshalJSONBuffer (Iter and Array) and the plain traversal (walk_doc):
     never Crash and never OutOfFuel, unconditionally.  (NextElementBytes and
     walk_doc since fix F17: a NOP with skip count 0 is an error.)
   - Interface() (interface_doc): never Crash, unconditionally.  It CAN run out
     of fuel: an array-start word that points at or before itself in the value
     slot of an object member makes Object.Map loop for ever (tape exhibited).
     Without such a word it terminates with the model's own fuel, and a
     Deserialize result never contains one (section 9): for every byte string
     accepted by deser_blob, walk_doc, marshal_iter, interface_doc and
     find_element are all fine.
   - Set*/DeleteElems index the tape without bounds checks and CAN Crash on a
     Deserialize result (exhibited); they cannot when the element lies in the
     iterator's view ([edit_ready], which Advance + Type()<>TypeNone gives).

   Relation to K1 (Interface() recursion depth): the fuel of walk_value /
   interface_val is the nesting depth the model allows, S (length tape) at the
   top.  The theorems show this is always enough, i.e. the recursion depth of
   Interface() is bounded by the tape length; they say nothing about the Go
   stack limit, so K1 (stack exhaustion at ~10^6 nested levels) stands beside
   them: the model abstracts the stack by that fuel. *)
From SJ Require Import Model.Base Model.RefTables Spec.Json Model.Tape Model.Iter Model.Walk
     Model.Edit Model.FloatFmt Model.Marshal Model.Serialize Model.Oracle Model.Driver.
From SJ Require Import Proofs.ApiTotalBase Proofs.ApiTotalLookup Proofs.ApiTotalWalk
     Proofs.ApiTotalMarshal Proofs.ApiTotalEdit Proofs.ApiTotalDeser.
From Coq Require Import Lia ZifyBool ZifyNat ZifyN.
From Coq Require Strings.String.
Import String.StringSyntax.
Open Scope Z_scope.

Definition fine {A} (o : outcome A) : Prop := o <> Crash /\ o <> OutOfFuel.

Lemma okP_fine {A} (P : A -> Prop) (o : outcome A) : okP false P o -> fine o.
Proof. intros H. split; [eapply okP_no_crash|eapply okP_no_fuel]; exact H. Qed.

(* ------------------------------------------------------------------ *)
(* 1. the invariant: holds at the root, preserved by every call        *)

Theorem root_iter_ok : forall pj, iter_ok pj (iter0 pj).
Proof. exact iter0_ok. Qed.

Theorem advance_closed : forall pj i i' ty, iter_ok pj i -> advance pj i = Ok (i', ty) -> iter_ok pj i'.
Proof.
  intros pj i i' ty H E. pose proof (advance_spec pj i H) as S. rewrite E in S. cbn in S.
  destruct S as [S _]. exact (ap_ok _ _ _ _ S).
Qed.

Theorem advance_into_closed : forall pj i i' t, iter_ok pj i -> advance_into pj i = Ok (i', t) -> iter_ok pj i'.
Proof.
  intros pj i i' t H E. pose proof (advance_into_spec pj i H) as S. rewrite E in S. cbn in S.
  destruct S as [S _]. exact (ap_ok _ _ _ _ S).
Qed.

Theorem advance_iter_closed : forall pj i i' od ty, iter_ok pj i -> advance_iter pj i = Ok (i', od, ty) ->
  iter_ok pj i' /\ match od with Some d => iter_ok pj d | None => True end.
Proof.
  intros pj i i' od ty H E. pose proof (advance_iter_spec pj i H) as S. rewrite E in S. cbn in S.
  destruct S as [S T]. split; [exact (ap_ok _ _ _ _ S)|]. destruct od; [apply T|exact I].
Qed.

Theorem root_closed : forall pj i d ty, iter_ok pj i -> iter_root pj i = Ok (d, ty) -> iter_ok pj d.
Proof.
  intros pj i d ty H E. pose proof (iter_root_spec pj i H) as S. rewrite E in S. cbn in S. apply S.
Qed.

Theorem object_closed : forall pj i c, iter_ok pj i -> iter_object i = Ok c -> cont_ok pj c.
Proof.
  intros pj i c H E. pose proof (iter_object_spec pj i H) as S. rewrite E in S. cbn in S. apply S.
Qed.

Theorem array_closed : forall pj i c, iter_ok pj i -> iter_array i = Ok c -> cont_ok pj c.
Proof.
  intros pj i c H E. pose proof (iter_array_spec pj i H) as S. rewrite E in S. cbn in S. apply S.
Qed.

Theorem array_iter_closed : forall pj c, cont_ok pj c -> iter_ok pj (cont_iter c).
Proof. exact cont_iter_ok. Qed.

Theorem next_element_closed : forall pj o o' name el ty fuel, cont_ok pj o ->
  next_element fuel pj o = Ok (o', Some (name, el, ty)) -> cont_ok pj o' /\ iter_ok pj el.
Proof.
  intros pj o o' name el ty fuel H E. pose proof (next_element_no_crash fuel pj o H) as S.
  rewrite E in S. cbn in S. destruct S as (S1 & _ & S2). split; [exact S1|apply S2].
Qed.

Theorem next_element_closed_none : forall pj o o' fuel, cont_ok pj o ->
  next_element fuel pj o = Ok (o', None) -> cont_ok pj o'.
Proof.
  intros pj o o' fuel H E. pose proof (next_element_no_crash fuel pj o H) as S.
  rewrite E in S. cbn in S. apply S.
Qed.

Theorem find_closed : forall pj r, found_ok pj r -> forall ty d, r = Found ty d -> iter_ok pj d.
Proof. intros pj r H ty d ->. exact H. Qed.

(* Go's Root() slices Tape[:cur-1]; the model does not turn a negative bound
   into Crash, so here is the missing fact: whenever Root gets to the slice
   expression on a reachable iterator, cur-1 is not negative *)
Theorem root_slice_bound_nonneg : forall pj i, iter_ok pj i ->
  (i_t i =? TagRoot)%N = true -> (Z.of_N (i_cur i) <? i_off i) = false -> 0 <= Z.of_N (i_cur i) - 1.
Proof. exact iter_root_slice_bound. Qed.

(* ------------------------------------------------------------------ *)
(* 2. unconditional: no panic and termination                          *)

Section Unconditional.
Variable pj : pjson.
Variables (i : iter) (c : cont).
Hypothesis Hi : iter_ok pj i.
Hypothesis Hc : cont_ok pj c.

Theorem advance_fine : fine (advance pj i).
Proof. eapply okP_fine, advance_spec, Hi. Qed.
Theorem advance_into_fine : fine (advance_into pj i).
Proof. eapply okP_fine, advance_into_spec, Hi. Qed.
Theorem advance_iter_fine : fine (advance_iter pj i).
Proof. eapply okP_fine, advance_iter_spec, Hi. Qed.
Theorem peek_next_tag_fine : fine (peek_next_tag pj i).
Proof. eapply okP_fine, peek_next_tag_spec, Hi. Qed.
Theorem root_fine : fine (iter_root pj i).
Proof. eapply okP_fine, iter_root_spec, Hi. Qed.
Theorem object_fine : fine (iter_object i).
Proof. eapply okP_fine, iter_object_spec, Hi. Qed.
Theorem array_fine : fine (iter_array i).
Proof. eapply okP_fine, iter_array_spec, Hi. Qed.
Theorem int_fine : fine (iter_int pj i).
Proof. eapply okP_fine, iter_int_spec, Hi. Qed.
Theorem uint_fine : fine (iter_uint pj i).
Proof. eapply okP_fine, iter_uint_spec, Hi. Qed.
Theorem float_fine : fine (iter_float pj i).
Proof. eapply okP_fine, iter_float_spec, Hi. Qed.
Theorem float_flags_fine : fine (iter_float_flags pj i).
Proof. eapply okP_fine, iter_float_flags_spec, Hi. Qed.
Theorem bool_fine : fine (iter_bool i).
Proof. eapply okP_fine, iter_bool_spec. Qed.
Theorem string_bytes_fine : fine (string_bytes pj i).
Proof. eapply okP_fine, string_bytes_spec, Hi. Qed.
Theorem string_byte_at_fine : forall cur len, fine (string_byte_at pj cur len).
Proof. intros. eapply okP_fine, string_byte_at_spec. Qed.

Theorem find_key_fine : forall key, fine (find_key pj c key).
Proof. intros. eapply okP_fine, find_key_total, Hc. Qed.
Theorem find_path_fine : forall path, fine (find_path pj c path).
Proof. intros. eapply okP_fine, find_path_total, Hc. Qed.
Theorem find_element_fine : forall path, fine (find_element pj i path).
Proof. intros. eapply okP_fine, find_element_total, Hi. Qed.
Theorem obj_foreach_fine : forall only, fine (obj_foreach pj c only).
Proof. intros. eapply okP_fine, obj_foreach_total, Hc. Qed.
Theorem arr_foreach_fine : fine (arr_foreach pj c).
Proof. eapply okP_fine, arr_foreach_total, Hc. Qed.
Theorem as_num_fine : forall k, fine (as_num k pj c).
Proof. intros. eapply okP_fine, as_num_total, Hc. Qed.
Theorem as_string_fine : fine (as_string pj c).
Proof. eapply okP_fine, as_string_total, Hc. Qed.
Theorem marshal_iter_fine : fine (marshal_iter pj i).
Proof. eapply okP_fine, marshal_iter_total, Hi. Qed.
Theorem marshal_array_fine : fine (marshal_array pj c).
Proof. eapply okP_fine, marshal_array_total, Hc. Qed.

Theorem next_element_fine : fine (next_element (cont_fuel c) pj c).
Proof. eapply okP_fine, next_element_total', Hc. Qed.

(* NextElementBytes, plain traversal, Interface(): no panic, any fuel *)
Theorem next_element_never_crashes : forall fuel, next_element fuel pj c <> Crash.
Proof. intros. eapply okP_no_crash, next_element_no_crash, Hc. Qed.
Theorem walk_value_never_crashes : forall fuel, walk_value fuel pj i <> Crash.
Proof. intros. apply walk_value_no_crash, Hi. Qed.
Theorem interface_val_never_crashes : forall fuel, interface_val fuel pj i <> Crash.
Proof. intros. apply interface_val_no_crash, Hi. Qed.
End Unconditional.

(* the whole-document entry points, from the root iterator of ANY pj *)
Theorem marshal_doc_fine : forall pj, fine (marshal_iter pj (iter0 pj)).
Proof. intros. apply marshal_iter_fine, iter0_ok. Qed.
Theorem find_element_doc_fine : forall pj path, fine (find_element pj (iter0 pj) path).
Proof. intros. apply find_element_fine, iter0_ok. Qed.
Theorem walk_doc_never_crashes : forall pj, walk_doc pj <> Crash.
Proof. exact walk_doc_no_crash. Qed.
Theorem walk_doc_fine : forall pj, fine (walk_doc pj).
Proof. intros. eapply okP_fine, walk_doc_total. Qed.
Theorem interface_doc_never_crashes : forall pj, interface_doc pj <> Crash.
Proof. exact interface_doc_no_crash. Qed.

(* ------------------------------------------------------------------ *)
(* 3. termination of traversal from any iterator / of Interface()      *)

(* Interface() of the whole document on ANY tape (since fix F19; before, a member array
   pointing backwards made it loop, see 5b below) *)
Theorem interface_doc_fine_any : forall pj, fine (interface_doc pj).
Proof. intros. eapply okP_fine, interface_doc_total_any. Qed.

Theorem interface_val_fine_any : forall pj i, iter_ok pj i -> 0 < i_off i ->
  pj_tape pj <> [] -> fine (interface_val (S (length (pj_tape pj))) pj i).
Proof.
  intros pj i Hok Ho Hne. eapply okP_fine, interface_val_total_any; auto.
  destruct Hok as ([K0 K1] & _). unfold m, tlen in *.
  destruct (pj_tape pj); [now elim Hne|]. cbn [length] in *. lia.
Qed.

Theorem interface_doc_fine : forall pj, member_arrays_forward pj -> fine (interface_doc pj).
Proof. intros. eapply okP_fine, interface_doc_total; assumption. Qed.

Theorem interface_doc_fine' : forall pj, arrays_forward pj -> fine (interface_doc pj).
Proof. intros. apply interface_doc_fine, arrays_forward_member. assumption. Qed.

(* from any reachable iterator, with fuel = the depth the top level passes *)
Theorem walk_value_fine : forall pj i, iter_ok pj i -> 0 < i_off i -> pj_tape pj <> [] ->
  fine (walk_value (S (length (pj_tape pj))) pj i).
Proof.
  intros pj i Hok Ho Hne. eapply okP_fine, walk_value_total; auto.
  destruct Hok as ([K0 K1] & _). unfold m, tlen in *.
  destruct (pj_tape pj); [now elim Hne|]. cbn [length] in *. lia.
Qed.

Theorem interface_val_fine : forall pj i, member_arrays_forward pj -> iter_ok pj i -> 0 < i_off i ->
  pj_tape pj <> [] -> fine (interface_val (S (length (pj_tape pj))) pj i).
Proof.
  intros pj i Ha Hok Ho Hne. eapply okP_fine, interface_val_total; auto.
  destruct Hok as ([K0 K1] & _). unfold m, tlen in *.
  destruct (pj_tape pj); [now elim Hne|]. cbn [length] in *. lia.
Qed.

(* a decidable sufficient check of the side condition *)
Fixpoint arrays_forward_from (p : nat) (l : list N) : bool :=
  match l with
  | [] => true
  | w :: r => (negb (word_tag w =? TagArrayStart)%N || (Z.of_nat p <? Z.of_N (word_val w))) && arrays_forward_from (S p) r
  end.
Definition arrays_forward_b (pj : pjson) : bool := arrays_forward_from 0 (pj_tape pj).

Lemma arrays_forward_from_ok : forall l p0, arrays_forward_from p0 l = true ->
  forall p w, nth_error l p = Some w -> word_tag w = TagArrayStart -> Z.of_nat (p0 + p) < Z.of_N (word_val w).
Proof.
  induction l as [|x l IH]; intros p0 H p w Hn Ht; [destruct p; discriminate|].
  cbn [arrays_forward_from] in H. apply andb_true_iff in H. destruct H as [H1 H2].
  destruct p as [|p].
  - cbn in Hn. injection Hn as ->. rewrite Ht in H1. cbn in H1. lia.
  - cbn in Hn. specialize (IH (S p0) H2 p w Hn Ht). lia.
Qed.

Lemma arrays_forward_b_ok pj : arrays_forward_b pj = true -> arrays_forward pj.
Proof. intros H p w Hn Ht. exact (arrays_forward_from_ok _ 0%nat H p w Hn Ht). Qed.

(* ------------------------------------------------------------------ *)
(* 4. the hypotheses are satisfiable: a parsed document                *)

Local Open Scope string_scope.
Definition ex_pj : pjson :=
  match parse_model true (lit "[1,{""a"":""x"",""b"":[true,null]},2.5]") with
  | Ok p => {| pj_tape := p_tape p; pj_strings := p_strings p; pj_msg := p_msg p |}
  | _ => {| pj_tape := []; pj_strings := []; pj_msg := [] |}
  end.

Example ex_nontrivial : length (pj_tape ex_pj) = 20%nat.
Proof. vm_compute. reflexivity. Qed.

Example ex_hyps : arrays_forward_b ex_pj = true.
Proof. vm_compute. reflexivity. Qed.

Example ex_walk : (is_ok (walk_doc ex_pj), is_ok (interface_doc ex_pj)) = (true, true).
Proof. vm_compute. reflexivity. Qed.

Example ex_marshal : marshal_iter ex_pj (iter0 ex_pj) = Ok (lit "[1,{""a"":""x"",""b"":[true,null]},2.5]").
Proof. vm_compute. reflexivity. Qed.

(* ------------------------------------------------------------------ *)
(* 5. history of the NOP-0 finding; the side condition is necessary    *)

(* 5a. (Fixed by F17 + F18.)  Before those fixes this 82-byte input was
   accepted by Deserialize and rebuilt the tape pj_nop0 below: its second
   string entry was written as tagDst | sOffset with sOffset = 0x6e<<56, so its
   tag byte read as n (null, one word) and its length word N<<56 | 0 was read
   as a NOP with skip count 0 in key position, on which
   Object.NextElementBytes called itself for ever (Go: fatal stack overflow).
   Now the input is rejected (string offset above JSONVALUEMASK), and on the
   tape itself NextElementBytes returns an error. *)
Definition blob_nop0 : bytes := bytes_of_hex (lit
  "03520900000000070800727b225b227d7240410009000000000000000700000000000000000000000000000000000000000000000200000000000000000000000000006e000000000000004ef8ffffffffffffff").

Definition pj_nop0 : pjson :=
  {| pj_tape := [mk_word TagRoot 9; mk_word TagObjectStart 8; mk_word TagString 0; 0%N;
                 mk_word TagArrayStart 6; mk_word TagNull 0; mk_word TagNop 0;
                 mk_word TagObjectEnd 1; mk_word TagRoot 0];
     pj_strings := []; pj_msg := [] |}.

Example nop0_is_rejected_now : deser_blob blob_nop0 = DErr.
Proof. vm_compute. reflexivity. Qed.
Example nop0_next_element : next_element (cont_fuel {| c_len := 8; c_off := 6 |}) pj_nop0 {| c_len := 8; c_off := 6 |} = Err.
Proof. vm_compute. reflexivity. Qed.
Example nop0_walk : walk_doc pj_nop0 = Err.
Proof. vm_compute. reflexivity. Qed.
Example nop0_interface : interface_doc pj_nop0 = Err.
Proof. vm_compute. reflexivity. Qed.
Example nop0_marshal : marshal_iter pj_nop0 (iter0 pj_nop0) = Err.
Proof. vm_compute. reflexivity. Qed.

(* 5b. An array-start word pointing backwards as an object member.  Before fix
   F19 Object.Map got an empty array, NextElementBytes set o.off = 2 again, and
   Iter.Interface() never returned (the model: OutOfFuel) — which is why
   interface_doc_fine carries the hypothesis that member arrays point forward
   (Deserialize establishes it).  The same step backwards through a ROOT tag in
   the member's value slot, which Deserialize does not exclude, made
   Object.Parse loop on a deserialized blob (F19).  NextElementBytes now refuses
   every member whose open tag points backwards, so the example is an error;
   the hypothesis of interface_doc_fine is kept (the theorem is weaker than it
   could now be, not wrong). *)
Definition pj_backarr : pjson :=
  {| pj_tape := [mk_word TagRoot 7; mk_word TagObjectStart 6; mk_word TagString 0; 0%N;
                 mk_word TagArrayStart 2; mk_word TagObjectEnd 1; mk_word TagRoot 0];
     pj_strings := []; pj_msg := [] |}.
Example backarr_interface : interface_doc pj_backarr = Err.
Proof. vm_compute. reflexivity. Qed.
Example backarr_walk : walk_doc pj_backarr = Err.
Proof. vm_compute. reflexivity. Qed.
Example backarr_hyps : arrays_forward_b pj_backarr = false.
Proof. vm_compute. reflexivity. Qed.

(* ------------------------------------------------------------------ *)
(* 6. the edit API                                                     *)

Theorem set_float_fine : forall pj i b, iter_ok pj i -> edit_ready i -> fine (set_float pj i b).
Proof. intros. eapply okP_fine, set_float_safe; assumption. Qed.
Theorem set_int_fine : forall pj i z, iter_ok pj i -> edit_ready i -> fine (set_int pj i z).
Proof. intros. eapply okP_fine, set_int_safe; assumption. Qed.
Theorem set_uint_fine : forall pj i u, iter_ok pj i -> edit_ready i -> fine (set_uint pj i u).
Proof. intros. eapply okP_fine, set_uint_safe; assumption. Qed.
Theorem set_string_fine : forall pj i v, iter_ok pj i -> edit_ready i -> fine (set_string pj i v).
Proof. intros. eapply okP_fine, set_string_safe; assumption. Qed.
Theorem set_bool_fine : forall pj i b, iter_ok pj i -> edit_ready i -> fine (set_bool pj i b).
Proof. intros. eapply okP_fine, set_bool_safe; assumption. Qed.
Theorem set_null_fine : forall pj i, iter_ok pj i -> edit_ready i -> fine (set_null pj i).
Proof. intros. eapply okP_fine, set_null_safe; assumption. Qed.
Theorem edit_ready_after_advance : forall pj i i' ty, iter_ok pj i -> advance pj i = Ok (i', ty) ->
  ty <> TypeNone -> iter_type i' <> TypeNone -> edit_ready i'.
Proof. exact advance_edit_ready. Qed.
Theorem arr_delete_guarded_fine : forall pj a decide, cont_ok pj a ->
  fine (arr_delete_loop_g (cont_fuel a) pj (cont_iter a) decide 0).
Proof.
  intros pj a decide Ho. eapply okP_fine, arr_delete_loop_g_spec; [apply cont_iter_ok; exact Ho|].
  destruct Ho as [[H0 H1] H2]. unfold mu, pos, cont_fuel, cont_iter; cbn. lia.
Qed.

(* 6a. Deserialize result (47 bytes, tags r [ d r): the array's view ends
   between the float's tag word and its value word.  Advance answers TypeFloat
   (Type() answers TypeNone); SetFloat/SetInt/SetUInt/SetString/SetNull and
   Array.DeleteElems then index Tape[3] of a 3-word view.
   Go: panic: runtime error: index out of range [3] with length 3. *)
Definition blob_cut : bytes := bytes_of_hex (lit
  "032f0500000000040500725b647220210005000000000000000200000000000000000000000000f03ffcffffffffffffff").
Definition pj_cut : pjson :=
  {| pj_tape := [mk_word TagRoot 5; mk_word TagArrayStart 3; mk_word TagFloat 0; 4607182418800017408%N; mk_word TagRoot 0];
     pj_strings := []; pj_msg := [] |}.
Example cut_is_a_deserialize_result :
  deser_blob blob_cut = DOk (pj_tape pj_cut) (pj_strings pj_cut) (pj_msg pj_cut).
Proof. vm_compute. reflexivity. Qed.

(* pj.Iter(); Advance(); Root(); Array(); arr.Iter(); Advance() *)
Definition cut_elem : outcome (cont * iter * N) :=
  do r0 <- advance pj_cut (iter0 pj_cut);
  do r1 <- iter_root pj_cut (fst r0);
  do a <- iter_array (fst r1);
  do r2 <- advance pj_cut (cont_iter a);
  Ok (a, fst r2, snd r2).

Example cut_panics :
  match cut_elem with
  | Ok (a, it, ty) =>
    (ty, iter_type it, set_float pj_cut it 0%N, set_int pj_cut it 1, set_uint pj_cut it 1%N,
     set_string pj_cut it [], set_null pj_cut it, arr_delete pj_cut a [true])
  | _ => (0%N, 0%N, Err, Err, Err, Err, Err, Err)
  end = (TypeFloat, TypeNone, Crash, Crash, Crash, Crash, Crash, Crash).
Proof. vm_compute. reflexivity. Qed.

(* 6b. Deserialize result (41 bytes, tags r [ n n ] r): Root() restricts the view
   to Tape[:3] but the array inside ends at 5.  Root() answers TypeArray and
   Type() answers TypeArray as well; SetNull then writes NOPs up to index 4.
   Go: panic: runtime error: index out of range [3] with length 3. *)
Definition blob_span : bytes := bytes_of_hex (lit
  "03290600000000060700725b6e6e5d7218190004000000000000000400000000000000fbffffffffffffff").
Definition pj_span : pjson :=
  {| pj_tape := [mk_word TagRoot 4; mk_word TagArrayStart 5; mk_word TagNull 0; mk_word TagNull 0;
                 mk_word TagArrayEnd 1; mk_word TagRoot 0];
     pj_strings := []; pj_msg := [] |}.
Example span_is_a_deserialize_result :
  deser_blob blob_span = DOk (pj_tape pj_span) (pj_strings pj_span) (pj_msg pj_span).
Proof. vm_compute. reflexivity. Qed.
Example span_panics :
  match (do r0 <- advance pj_span (iter0 pj_span); iter_root pj_span (fst r0)) with
  | Ok (it, ty) => (ty, iter_type it, set_null pj_span it)
  | _ => (0%N, 0%N, Err)
  end = (TypeArray, TypeArray, Crash).
Proof. vm_compute. reflexivity. Qed.

(* 6c. Deserialize result (64 bytes, tags r, {, string, u, r): the object's view ends
   between the member value's tag word and its value word;
   Object.DeleteElems(nil, nil) writes Tape[5] of a 5-word view.
   Go: panic: runtime error: index out of range [5] with length 5. *)
Definition blob_objcut : bytes := bytes_of_hex (lit
  "03400700000000050600727b22757230310007000000000000000400000000000000000000000000000000000000000000000700000000000000faffffffffffffff").
Definition pj_objcut : pjson :=
  {| pj_tape := [mk_word TagRoot 7; mk_word TagObjectStart 5; mk_word TagString 0; 0%N; mk_word TagUint 0; 7%N; mk_word TagRoot 0];
     pj_strings := []; pj_msg := [] |}.
Example objcut_is_a_deserialize_result :
  deser_blob blob_objcut = DOk (pj_tape pj_objcut) (pj_strings pj_objcut) (pj_msg pj_objcut).
Proof. vm_compute. reflexivity. Qed.
Example objcut_panics :
  (do r0 <- advance pj_objcut (iter0 pj_objcut);
   do r1 <- iter_root pj_objcut (fst r0);
   do o <- iter_object (fst r1);
   obj_delete pj_objcut o [] None) = Crash.
Proof. vm_compute. reflexivity. Qed.

Theorem obj_delete_guarded_fine : forall pj o only decide, cont_ok pj o ->
  fine (obj_delete_loop_g (cont_fuel o) pj (cont_iter o) only (distinct_count only []) 0 decide []).
Proof.
  intros pj o only decide Ho. eapply okP_fine, obj_delete_loop_g_spec; [apply cont_iter_ok; exact Ho|].
  destruct Ho as [[H0 H1] H2]. unfold mu, pos, cont_fuel, cont_iter; cbn. lia.
Qed.

(* ------------------------------------------------------------------ *)
(* 7. index expressions of the Go code that the model does not make    *)
(*    Crash-capable, proved in range                                   *)

(* MarshalJSONBuffer: stack[len(stack)-1] — the model reads the top of an empty
   stack as stackNone.  [marshal_chk] is the same loop with an empty stack made
   a Crash at every place the Go code indexes it; it coincides with the model
   and never crashes. *)
Theorem marshal_stack_index_in_range : forall pj i, iter_ok pj i ->
  marshal_chk (3 * S (length (pj_tape pj)) + 8) pj i [FNone] [] = marshal_iter pj i /\
  marshal_chk (3 * S (length (pj_tape pj)) + 8) pj i [FNone] [] <> Crash.
Proof. exact marshal_stack_never_empty. Qed.

(* stringByteAt: Message[offset:offset+length] / Strings.B[offset:offset+length]
   — the model returns the sub-list without a Crash case; a returned result
   means offset+length is within the buffer (no uint64 wrap-around) *)
Theorem string_slice_in_range : forall pj cur len s, string_byte_at pj cur len = Ok s ->
  if (N.land cur STRINGBUFBIT =? 0)%N
  then (cur + len <= N.of_nat (length (pj_msg pj)))%N
  else (N.land cur STRINGBUFMASK + len <= N.of_nat (length (pj_strings pj)))%N.
Proof. exact string_byte_at_bounds. Qed.

(* AdvanceIter: dst.tape.Tape[:iEnd] — iEnd is checked against len only from
   above; the restricted iterator has a view length in [0, len] *)
Theorem advance_iter_slice_in_range : forall pj i i' d ty, iter_ok pj i ->
  advance_iter pj i = Ok (i', Some d, ty) -> 0 <= i_len d <= i_len i.
Proof.
  intros pj i i' d ty H E. pose proof (advance_iter_spec pj i H) as S. rewrite E in S. cbn in S.
  destruct S as (S1 & (D1 & D2 & D3 & _) & _). destruct D1 as ([K0 K1] & _).
  pose proof (ap_len _ _ _ _ S1). lia.
Qed.

(* ------------------------------------------------------------------ *)
(* 8. where the model is NOT the Go code on corrupt tapes              *)

(* Iter.Interface() (parsed_json.go, case TypeRoot / case TypeNone) handles a
   root tag and a non-value tag met INSIDE a value by looping / advancing;
   Model/Walk.v interface_val answers Err for both (it has no TypeRoot /
   TypeNone case: only interface_doc models the top-level path).  On a
   well-formed tape neither occurs inside a value.  On this Deserialize result
   (74 bytes, tags r, {, string, r, u, }, r) the model answers Err at the nested
   root, while the Go code goes through the nested root and reaches the NOP 0
   word: before fix F17 it died there with a stack overflow as in 5a; at repo
   HEAD 6d709ea it returns the error object: invalid nop skip. *)
Definition blob_nestedroot : bytes := bytes_of_hex (lit
  "034a0900000000070800727b2272757d7238390009000000000000000700000000000000000000000000000000000000000000000200000000000000000000000000004ef8ffffffffffffff").
Definition pj_nestedroot : pjson :=
  {| pj_tape := [mk_word TagRoot 9; mk_word TagObjectStart 8; mk_word TagString 0; 0%N;
                 mk_word TagRoot 6; mk_word TagUint 0; mk_word TagNop 0;
                 mk_word TagObjectEnd 1; mk_word TagRoot 0];
     pj_strings := []; pj_msg := [] |}.
Example nestedroot_is_a_deserialize_result :
  deser_blob blob_nestedroot = DOk (pj_tape pj_nestedroot) (pj_strings pj_nestedroot) (pj_msg pj_nestedroot).
Proof. vm_compute. reflexivity. Qed.
Example nestedroot_model_says_err : interface_doc pj_nestedroot = Err.
Proof. vm_compute. reflexivity. Qed.

(* ------------------------------------------------------------------ *)
(* 9. C19, second sentence: every Deserialize result is traversable    *)

(* The reconstruction alone, for ANY destination tape (fresh or reused, with
   whatever stale words) of fewer than 2^56 words and any string buffer and
   message shorter than 2^56 bytes. *)
Theorem deser_core_result_total : forall init tags vals t s m,
  (N.of_nat (length init) < two56)%N -> deser_core init tags vals = Ok t ->
  (N.of_nat (length s) < two56)%N -> (N.of_nat (length m) < two56)%N ->
  let pj := {| pj_tape := t; pj_strings := s; pj_msg := m |} in
  fine (walk_doc pj) /\ fine (marshal_iter pj (iter0 pj)) /\ fine (interface_doc pj) /\
  forall path, fine (find_element pj (iter0 pj) path).
Proof.
  intros init tags vals t s m Hi Hd Hs Hm pj.
  split; [apply walk_doc_fine|]. split; [apply marshal_doc_fine|].
  split; [|intros; apply find_element_doc_fine].
  apply interface_doc_fine. exact (deser_core_member_arrays_forward init tags vals t s m Hi Hd Hs Hm).
Qed.

(* Deserialize of a byte string (fresh destination, sections up to the 4 MiB
   bound of the claim): whatever the bytes, an accepted input yields a result
   on which traversal, marshalling, Interface() and lookup terminate without
   panic. *)
Theorem deserialize_result_total : forall src t s m, deser_blob src = DOk t s m ->
  let pj := {| pj_tape := t; pj_strings := s; pj_msg := m |} in
  fine (walk_doc pj) /\ fine (marshal_iter pj (iter0 pj)) /\ fine (interface_doc pj) /\
  forall path, fine (find_element pj (iter0 pj) path).
Proof.
  intros src t s m H.
  destruct (deser_blob_inv src t s m H) as (n & tags & vals & Hc & Hn & Hs & Hm).
  apply (deser_core_result_total (repeat 0%N n) tags vals t s m); auto;
    rewrite ?repeat_length; unfold limit, two56 in *; lia.
Qed.

(* and from there every position reachable through the API, by sections 1-2:
   the lookups, ForEach, the bulk accessors and both marshallers are fine on
   every iter_ok / cont_ok position of ANY pj. *)

(* the hypothesis is not vacuous: the 42-byte serialization of [null] *)
Definition blob_arr : bytes := bytes_of_hex (lit
  "03280500000000050600725b6e5d7218190005000000000000000300000000000000fcffffffffffffff").
Example deserialize_result_example :
  match deser_blob blob_arr with
  | DOk t s m =>
    let pj := {| pj_tape := t; pj_strings := s; pj_msg := m |} in
    (walk_doc pj, marshal_iter pj (iter0 pj)) = (Ok [DArr [DNull]], Ok (lit "[null]"))
  | _ => False
  end.
Proof. vm_compute. reflexivity. Qed.
